(* Completeness of the loader model (Wire/Message.v) on canonical encodings:
   for every well-formed abstract message [m] (wf_msg, Proofs/CodecMessage.v)
   whose values satisfy the wire premises [wire_ok], the loader model accepts
   the specification encoding of [m] followed by ANY bytes, frames it exactly
   and returns header ++ body = the encoding. *)
From DV Require Import Lib.Base Gen.Tables Wire.Body Wire.Message Wire.Utf8 Spec.Codec Spec.NamesSpec Spec.Utf8Spec Wire.HeaderEdit
  Proofs.CodecBasics Proofs.CodecWf Proofs.CodecRoundtrip Proofs.CodecMessage Proofs.BodyCursor Proofs.BodyVbEq Proofs.BodyComplete
  Proofs.NamesProofs Proofs.Utf8Proofs Proofs.LoaderProofs.
From Coq Require Import ZArith ZifyBool ZifyN ZifyNat Arith.
Local Open Scope N_scope.
Ltac Zify.zify_post_hook ::= Z.div_mod_to_equations.

(* ---- A. generic helpers ------------------------------------------------------ *)

(* the sequence lemma inside validate_body_complete, for any position and tail *)
Lemma vb_seq_encs le : forall vs pos rest, wfsb le vs 0 pos = true -> forallb wire_ok vs = true ->
  vb_seq le (map ty_of_val vs) 0 (curof pos (encs le vs pos ++ rest)) = inl (curof (pos + nlen (encs le vs pos)) rest).
Proof.
  induction vs as [|x r IH]; intros pos rest Hw Hk.
  - cbn. rewrite N.add_0_r. reflexivity.
  - cbn [wfsb] in Hw. apply andb_true_iff in Hw. destruct Hw as [Hwx Hwr].
    cbn [forallb] in Hk. apply andb_true_iff in Hk. destruct Hk as [Hkx Hkr].
    cbn [map vb_seq encs]. rewrite <- app_assoc.
    pose proof (wfb_height le x 0 pos Hwx) as Hh.
    rewrite (vb_enc le x DEPTH_FUEL 0 pos _ Hwx Hkx) by (unfold DEPTH_FUEL; lia).
    rewrite (IH _ rest Hwr Hkr). rewrite nlen_app. cur_eq. lia.
Qed.

(* well-formedness is monotone in the nesting depth *)
Lemma wfsb_depth_mono le : forall vs,
  Forall (fun v => forall d d' pos, d <= d' -> wfb le d' pos v = true -> wfb le d pos v = true) vs ->
  forall d d' pos, d <= d' -> wfsb le vs d' pos = true -> wfsb le vs d pos = true.
Proof.
  induction 1 as [|x r Hx Hr IH]; intros d d' pos Hd H; [reflexivity|].
  cbn [wfsb] in *. apply andb_true_iff in H. destruct H as [H1 H2].
  rewrite (Hx d d' pos Hd H1). cbn [andb]. apply (IH d d' _ Hd H2).
Qed.

Lemma wfb_depth_mono le : forall v d d' pos, d <= d' -> wfb le d' pos v = true -> wfb le d pos v = true.
Proof.
  induction v as [c n|c s|et vs IH|fs IH|k x IHk IHx|t x IHx] using val_ind'; intros d d' pos Hd H;
    [cbn [wfb] in * | cbn [wfb] in * | rewrite wfb_arr in * | rewrite wfb_struct in * | rewrite wfb_dict in * | cbn [wfb] in *];
    apply andb_true_iff in H; destruct H as [Hd' H]; apply andb_true_iff; (split; [lia|]).
  - exact H.
  - exact H.
  - apply andb_true_iff in H. destruct H as [H1 H2]. rewrite H1. cbn [andb].
    apply (wfsb_depth_mono le vs IH (d + 1) (d' + 1)); [lia | exact H2].
  - apply andb_true_iff in H. destruct H as [H1 H2]. rewrite H1. cbn [andb].
    apply (wfsb_depth_mono le fs IH (d + 1) (d' + 1)); [lia | exact H2].
  - apply andb_true_iff in H. destruct H as [H1 H2]. rewrite H1. cbn [andb].
    apply (wfsb_depth_mono le [k; x] (Forall_cons k IHk (Forall_cons x IHx (Forall_nil _))) (d + 1) (d' + 1)); [lia | exact H2].
  - apply andb_true_iff in H. destruct H as [H1 H2]. rewrite H1. cbn [andb].
    apply (IHx (d + 1) (d' + 1)); [lia | exact H2].
Qed.

Lemma pad1 p : pad_amount p 1 = 0.
Proof. unfold pad_amount. rewrite N.mod_1_r. reflexivity. Qed.

Lemma enc_byte le x p : enc le (VNum 121 x) p = [x mod 256].
Proof. rewrite enc_num. cbn [fixed_size N.eqb Pos.eqb]. rewrite pad1. destruct le; reflexivity. Qed.

Lemma enc_u32 le x p : p mod 4 = 0 -> enc le (VNum 117 x) p = bytes_of le 4 x.
Proof.
  intros H. rewrite enc_num. change (fixed_size 117) with (Some 4). cbv iota.
  rewrite (aligned_no_pad p 4 ltac:(lia) H). reflexivity.
Qed.

(* ---- B. the header as seven marshalled values ------------------------------------ *)
Lemma nlen1 {A} (x : A) : nlen [x] = 1. Proof. reflexivity. Qed.

Lemma encs_hdr le a b c d x y v : a < 256 -> b < 256 -> c < 256 -> d < 256 ->
  encs le [VNum 121 a; VNum 121 b; VNum 121 c; VNum 121 d; VNum 117 x; VNum 117 y; v] 0
  = [a; b; c; d] ++ bytes_of le 4 x ++ bytes_of le 4 y ++ enc le v 12.
Proof.
  intros Ha Hb Hc Hd. cbn [encs]. rewrite !enc_byte. rewrite !nlen1.
  rewrite !N.mod_small by assumption.
  change (0 + 1 + 1 + 1 + 1) with 4.
  rewrite (enc_u32 le x 4) by reflexivity. rewrite (bytes_of_length le 4). change (4 + N.of_nat 4) with 8.
  rewrite (enc_u32 le y 8) by reflexivity. rewrite (bytes_of_length le 4). change (8 + N.of_nat 4) with 12.
  rewrite app_nil_r. reflexivity.
Qed.

Lemma wfsb_hdr le a b c d x y v : a < 256 -> b < 256 -> c < 256 -> d < 256 -> x < 4294967296 -> y < 4294967296 ->
  wfb le 0 12 v = true ->
  wfsb le [VNum 121 a; VNum 121 b; VNum 121 c; VNum 121 d; VNum 117 x; VNum 117 y; v] 0 0 = true.
Proof.
  intros Ha Hb Hc Hd Hx Hy Hv. cbn [wfsb]. rewrite !enc_byte. rewrite !nlen1.
  change (0 + 1 + 1 + 1 + 1) with 4.
  rewrite (enc_u32 le x 4) by reflexivity. rewrite (bytes_of_length le 4). change (4 + N.of_nat 4) with 8.
  rewrite (enc_u32 le y 8) by reflexivity. rewrite (bytes_of_length le 4). change (8 + N.of_nat 4) with 12.
  rewrite Hv. cbn [wfb fixed_size N.eqb Pos.eqb orb negb]. change (256 ^ 1) with 256. change (256 ^ 4) with 4294967296.
  unfold max_value_depth. repeat (apply andb_true_iff; split); lia.
Qed.

(* ---- C. framing: have_message on a concrete fixed header ------------------------- *)
Lemma bo_le (le : bool) : ((if le then 108 else 66) =? DBUS_LITTLE_ENDIAN) = le.
Proof. destruct le; reflexivity. Qed.

Lemma have_message_bytes (le : bool) mt fl ver x y z tail :
  x < 4294967296 -> z < 4294967296 ->
  z <= DBUS_MAXIMUM_MESSAGE_LENGTH -> x <= DBUS_MAXIMUM_MESSAGE_LENGTH -> x + align_up (16 + z) 8 <= DBUS_MAXIMUM_MESSAGE_LENGTH ->
  have_message DBUS_MAXIMUM_MESSAGE_LENGTH
    ([if le then 108 else 66; mt; fl; ver] ++ bytes_of le 4 x ++ bytes_of le 4 y ++ bytes_of le 4 z ++ tail)
  = HaveOk le z (align_up (16 + z) 8) x (x + align_up (16 + z) 8 <=? 16 + nlen tail).
Proof.
  intros Hx Hz Mz Mx Mt.
  destruct (bytes_of_4 le x) as (a0 & a1 & a2 & a3 & Ea & Ua).
  destruct (bytes_of_4 le y) as (b0 & b1 & b2 & b3 & Eb & Ub).
  destruct (bytes_of_4 le z) as (c0 & c1 & c2 & c3 & Ec & Uc).
  rewrite Ea, Eb, Ec. cbn [app].
  unfold have_message, u32_at, byte_at. cbn [nth Nat.add].
  replace (negb (((if le then 108 else 66) =? DBUS_LITTLE_ENDIAN) || ((if le then 108 else 66) =? DBUS_BIG_ENDIAN))) with false by (destruct le; reflexivity).
  rewrite bo_le. rewrite (Ua Hx), (Uc Hz).
  replace (DBUS_MAXIMUM_MESSAGE_LENGTH <? z) with false by lia.
  replace (DBUS_MAXIMUM_MESSAGE_LENGTH <? x) with false by lia.
  replace (DBUS_MAXIMUM_MESSAGE_LENGTH <? x + align_up (16 + z) 8) with false by lia.
  rewrite !nlen_cons. f_equal. lia.
Qed.

(* ---- D. read_fields on one marshalled (yv) struct ---------------------------------- *)
Lemma read_fields_step le fuel pos code sg t X tail aend :
  let al := spec_align t in
  let p0 := pos + pad_amount pos 8 in
  let p3 := p0 + 1 + 1 + nlen sg + 1 in
  let p4 := p3 + pad_amount p3 al in
  parse_sig sg = Some [t] -> ty_alignment t = al -> (al = 1 \/ al = 2 \/ al = 4 \/ al = 8) ->
  vb le DEPTH_FUEL t 2 (curof p4 (X ++ tail)) = inl (curof (p4 + nlen X) tail) ->
  pos < aend ->
  read_fields (S fuel) le (curof pos (zeros (pad_amount pos 8) ++ code :: nlen sg :: sg ++ 0 :: zeros (pad_amount p3 al) ++ X ++ tail)) aend
  = match read_fields fuel le (curof (p4 + nlen X) tail) aend with
    | Some r => Some (mkField code sg X :: r)
    | None => None
    end.
Proof.
  intros al p0 p3 p4 Hp Hta Hal Hvb Hlt.
  cbn [read_fields]. cbn [curof cpos]. replace (pos <? aend) with true by lia.
  fold (curof pos (zeros (pad_amount pos 8) ++ code :: nlen sg :: sg ++ 0 :: zeros (pad_amount p3 al) ++ X ++ tail)).
  rewrite (pad_to_zeros pos 8 _ ltac:(lia)). fold p0.
  rewrite take1_cons. rewrite take1_cons. cbn [cdat curof].
  rewrite string_bytes_app.
  fold (curof (p0 + 1 + 1) (sg ++ 0 :: zeros (pad_amount p3 al) ++ X ++ tail)).
  rewrite advance_app. rewrite take1_cons. fold p3. rewrite Hp. cbn [curof cpos]. rewrite Hta.
  fold (curof p3 (zeros (pad_amount p3 al) ++ X ++ tail)).
  rewrite (pad_to_zeros p3 al _ Hal). fold p4. rewrite Hvb. cbn [curof cpos cdat].
  replace (p4 + nlen X - p4) with (nlen X) by lia. rewrite string_bytes_app. reflexivity.
Qed.

Lemma field_facts le f d pos : wfb le d pos (enc_field le f) = true -> wire_ok (enc_field le f) = true ->
  let t := sf_ty f in let x := sf_val f in let sg := print_ty t in
  let al := spec_align t in
  let p0 := pos + pad_amount pos 8 in
  let p3 := p0 + 1 + 1 + nlen sg + 1 in
  let p4 := p3 + pad_amount p3 al in
  sf_code f < 256 /\ ty_of_val x = t /\ parse_sig sg = Some [t] /\ ty_alignment t = al /\ (al = 1 \/ al = 2 \/ al = 4 \/ al = 8) /\
  wfb le (d + 2) p4 x = true /\ wire_ok x = true /\
  enc le (enc_field le f) pos = zeros (pad_amount pos 8) ++ sf_code f :: nlen sg :: sg ++ 0 :: zeros (pad_amount p3 al) ++ enc le x p4.
Proof.
  destruct f as [code t x]. unfold enc_field. cbn [sf_code sf_ty sf_val]. intros Hw Hk. cbv zeta.
  rewrite wfb_struct in Hw. apply andb_true_iff in Hw. destruct Hw as [Hd Hw]. cbn [negb andb] in Hw.
  cbn [wfsb] in Hw. rewrite enc_byte, nlen1 in Hw.
  apply andb_true_iff in Hw. destruct Hw as [Hc Hw]. rewrite andb_true_r in Hw.
  cbn [wfb fixed_size N.eqb Pos.eqb negb orb] in Hc. change (256 ^ 1) with 256 in Hc.
  assert (Hcode : code < 256) by lia. clear Hc.
  cbn [wfb] in Hw. apply andb_true_iff in Hw. destruct Hw as [Hd1 Hw].
  apply andb_true_iff in Hw. destruct Hw as [Hw Hwx]. apply andb_true_iff in Hw. destruct Hw as [Hty Hsig].
  apply ty_eqb_eq in Hty.
  unfold sig_roundtrips in Hsig. apply andb_true_iff in Hsig. destruct Hsig as [Hsig Hparse].
  destruct (parse_sig (print_ty t)) as [[|t' [|? ?]]|] eqn:Hp; try discriminate. apply ty_eqb_eq in Hparse. subst t'.
  cbn [wire_ok forallb] in Hk. rewrite andb_true_r in Hk. apply andb_true_iff in Hk. destruct Hk as [_ Hkx].
  apply andb_true_iff in Hkx. destruct Hkx as [_ Hkx].
  set (p0 := pos + pad_amount pos 8) in *.
  set (p3 := p0 + 1 + 1 + nlen (print_ty t) + 1).
  replace (p0 + 1 + (nlen (print_ty t) + 2)) with p3 in Hwx by (subst p3; lia).
  replace (d + 1 + 1) with (d + 2) in Hwx by lia.
  destruct (ty_alignment_spec le x _ _ Hwx) as [Hta Hal]. rewrite Hty in Hta, Hal.
  split; [exact Hcode|]. split; [exact Hty|]. split; [reflexivity|]. split; [exact Hta|]. split; [exact Hal|].
  split; [rewrite <- Hty; rewrite wfb_split; exact Hwx|]. split; [exact Hkx|].
  rewrite enc_struct. fold p0. cbn [encs]. rewrite enc_byte, nlen1. rewrite N.mod_small by exact Hcode.
  rewrite enc_var. cbv zeta. rewrite app_nil_r. cbn [app]. rewrite <- app_assoc. cbn [app].
  replace (p0 + 1 + nlen (nlen (print_ty t) :: print_ty t ++ [0])) with p3
    by (subst p3; rewrite nlen_cons, nlen_app; change (nlen [0]) with 1; lia).
  rewrite (enc_split le x _ _ Hwx). rewrite Hty. reflexivity.
Qed.

(* what the loader records for one header field of the abstract message *)
Definition hf_ok (le : bool) (f : sfield) (h : hfield) : Prop :=
  f_code h = sf_code f /\ f_sig h = print_ty (sf_ty f) /\ ty_of_val (sf_val f) = sf_ty f /\ sf_code f < 256 /\
  exists p, pad_amount p (spec_align (sf_ty f)) = 0 /\ wfb le 2 p (sf_val f) = true /\ f_val h = enc le (sf_val f) p.

Lemma read_fields_enc le : forall fs fuel d pos rest aend,
  (length fs < fuel)%nat -> wfsb le (map (enc_field le) fs) d pos = true -> forallb wire_ok (map (enc_field le) fs) = true ->
  aend = pos + nlen (encs le (map (enc_field le) fs) pos) ->
  exists hs, read_fields fuel le (curof pos (encs le (map (enc_field le) fs) pos ++ rest)) aend = Some hs /\ Forall2 (hf_ok le) fs hs.
Proof.
  induction fs as [|f r IH]; intros fuel d pos rest aend Hf Hw Hk He; (destruct fuel as [|fuel]; [cbn [length] in Hf; lia|]).
  - exists []. split; [|constructor]. cbn [map encs app read_fields curof cpos]. cbn [map encs] in He. rewrite nlen_nil in He.
    replace (pos <? aend) with false by lia. reflexivity.
  - cbn [map encs wfsb forallb] in *.
    apply andb_true_iff in Hw. destruct Hw as [Hwf Hwr]. apply andb_true_iff in Hk. destruct Hk as [Hkf Hkr].
    pose proof (enc_nonempty le _ _ _ Hwf) as Hne.
    destruct (field_facts le f d pos Hwf Hkf) as (Hcode & Hty & Hp & Hta & Hal & Hwx & Hkx & Eshape). cbv zeta in *.
    set (F := enc le (enc_field le f) pos) in *.
    set (p0 := pos + pad_amount pos 8) in *. set (p3 := p0 + 1 + 1 + nlen (print_ty (sf_ty f)) + 1) in *.
    set (p4 := p3 + pad_amount p3 (spec_align (sf_ty f))) in *.
    assert (Hend : p4 + nlen (enc le (sf_val f) p4) = pos + nlen F).
    { rewrite Eshape. rewrite !nlen_app, !nlen_cons, !nlen_app, !nlen_cons, !nlen_app, !nlen_zeros. subst p4 p3 p0. lia. }
    assert (Hwx2 : wfb le 2 p4 (sf_val f) = true) by (apply (wfb_depth_mono le _ 2 (d + 2)); [lia | exact Hwx]).
    rewrite nlen_app in He.
    destruct (IH fuel d (pos + nlen F) rest aend ltac:(cbn [length] in Hf; lia) Hwr Hkr ltac:(lia)) as (hs & Hrd & Hall).
    exists (mkField (sf_code f) (print_ty (sf_ty f)) (enc le (sf_val f) p4) :: hs). split.
    + rewrite <- app_assoc. set (tail := encs le (map (enc_field le) r) (pos + nlen F) ++ rest) in *.
      rewrite Eshape. repeat (rewrite <- app_assoc; cbn [app]).
      pose proof (wfb_height le _ _ _ Hwx2) as Hh.
      pose proof (read_fields_step le fuel pos (sf_code f) (print_ty (sf_ty f)) (sf_ty f) (enc le (sf_val f) p4) tail aend) as St.
      cbv zeta in St. fold p0 p3 p4 in St. rewrite St; [|exact Hp|exact Hta|exact Hal| |lia].
      * rewrite Hend. rewrite Hrd. reflexivity.
      * rewrite <- Hty at 1. apply (vb_enc le (sf_val f) DEPTH_FUEL 2 p4 tail Hwx2 Hkx). unfold DEPTH_FUEL. lia.
    + constructor; [|exact Hall]. unfold hf_ok. cbn [f_code f_sig f_val]. repeat (split; [reflexivity || assumption|]).
      exists p4. split; [apply pad_amount_aligned; exact Hal|]. split; [exact Hwx2 | reflexivity].
Qed.

(* ---- E. header-field validation: specification predicates => model validators ---- *)
Lemma u32_raw le v tail : v < 4294967296 -> u32_at le (bytes_of le 4 v ++ tail) 0 = v.
Proof.
  intros H. destruct (bytes_of_4 le v) as (b0 & b1 & b2 & b3 & E & U). rewrite E. cbn [app].
  unfold u32_at, byte_at. cbn [nth Nat.add]. apply U. exact H.
Qed.

Lemma skipn4_raw le v (tail : bytes) : skipn 4 (bytes_of le 4 v ++ tail) = tail.
Proof. destruct (bytes_of_4 le v) as (b0 & b1 & b2 & b3 & E & _). rewrite E. reflexivity. Qed.

Lemma str_payload_raw le s : nlen s < 4294967296 -> str_payload le (bytes_of le 4 (nlen s) ++ s ++ [0]) = s.
Proof. intros H. unfold str_payload. rewrite u32_raw by exact H. rewrite skipn4_raw. apply string_bytes_app. Qed.

Lemma sig_payload_raw s : sig_payload (nlen s :: s ++ [0]) = s.
Proof. unfold sig_payload, byte_at. cbn [nth skipn]. apply string_bytes_app. Qed.

Lemma enc_str4 le c s p : (c = 115 \/ c = 111) -> pad_amount p 4 = 0 -> enc le (VStr c s) p = bytes_of le 4 (nlen s) ++ s ++ [0].
Proof. intros Hc Hp. rewrite enc_str. replace (c =? 103) with false by lia. rewrite Hp. reflexivity. Qed.

Lemma enc_sig le s p : enc le (VStr 103 s) p = nlen s :: s ++ [0].
Proof. reflexivity. Qed.

Lemma enc_u32p le n p : pad_amount p 4 = 0 -> enc le (VNum 117 n) p = bytes_of le 4 n.
Proof. intros Hp. rewrite enc_num. change (fixed_size 117) with (Some 4). cbv iota. rewrite Hp. reflexivity. Qed.

(* a well-formed value of a string-like / u32 type has the corresponding shape *)
Lemma val_str le d p x c : (c = 115 \/ c = 111 \/ c = 103) -> ty_of_val x = TBasic c -> wfb le d p x = true -> exists s, x = VStr c s.
Proof.
  intros Hc Ht Hw. destruct x as [c' n|c' s| | | | ]; cbn [ty_of_val] in Ht; try discriminate; inversion Ht; subst c'.
  - exfalso. cbn [wfb] in Hw. apply andb_true_iff in Hw. destruct Hw as [_ Hw].
    destruct Hc as [-> | [-> | ->]]; discriminate.
  - exists s. reflexivity.
Qed.

Lemma val_u32 le d p x : ty_of_val x = TBasic 117 -> wfb le d p x = true -> exists n, x = VNum 117 n /\ n < 4294967296.
Proof.
  intros Ht Hw. destruct x as [c' n|c' s| | | | ]; cbn [ty_of_val] in Ht; try discriminate; inversion Ht; subst c'.
  - exists n. split; [reflexivity|]. cbn [wfb] in Hw. apply andb_true_iff in Hw. destruct Hw as [_ Hw].
    change (fixed_size 117) with (Some 4) in Hw. cbv iota in Hw. apply andb_true_iff in Hw. destruct Hw as [Hw _].
    apply N.ltb_lt in Hw. exact Hw.
  - exfalso. cbn [wfb] in Hw. apply andb_true_iff in Hw. destruct Hw as [_ Hw]. discriminate.
Qed.

Lemma wfb_str_len le d p c s : (c = 115 \/ c = 111) -> wfb le d p (VStr c s) = true -> nlen s < 4294967296.
Proof.
  intros Hc Hw. cbn [wfb] in Hw. apply andb_true_iff in Hw. destruct Hw as [_ Hw].
  destruct Hc as [-> | ->]; cbn [N.eqb Pos.eqb] in Hw; apply andb_true_iff in Hw; destruct Hw as [_ Hw]; lia.
Qed.

Lemma bus_name_ok s : spec_bus_name s = true -> validate_bus_name s = true.
Proof.
  intros H. destruct s as [|c r] eqn:Es.
  - rewrite wellknown_correct by exact I. exact H.
  - destruct (N.eq_dec c 58) as [->|Hne].
    + apply unique_spec_implies_model. exact H.
    + rewrite wellknown_correct; [exact H|]. destruct c as [|q]; [exact I|].
      do 6 (destruct q as [q|q|]; try exact I). congruence.
Qed.

Lemma is_prefix_app_eq : forall (p s t : bytes), is_prefix p (s ++ t) = true -> length s = length p -> s = p.
Proof.
  induction p as [|x p IH]; intros s t H Hl; destruct s as [|y s]; try discriminate; [reflexivity|].
  cbn [app is_prefix] in H. apply andb_true_iff in H. destruct H as [H1 H2]. apply N.eqb_eq in H1. subst y.
  f_equal. apply (IH s t H2). cbn [length] in Hl. lia.
Qed.

Lemma local_check_false le (L s : bytes) : s <> L -> nlen s < 4294967296 ->
  (u32_at le (bytes_of le 4 (nlen s) ++ s ++ [0]) 0 =? nlen L) && is_prefix L (skipn 4 (bytes_of le 4 (nlen s) ++ s ++ [0])) = false.
Proof.
  intros Hne Hl. rewrite u32_raw by exact Hl. rewrite skipn4_raw.
  destruct (nlen s =? nlen L) eqn:E; [|reflexivity]. cbn [andb].
  destruct (is_prefix L (s ++ [0])) eqn:P; [|reflexivity]. exfalso. apply Hne.
  apply (is_prefix_app_eq L s [0] P). unfold nlen in E. lia.
Qed.

Lemma field_ty_none c : field_ty c = None -> c = 0 \/ 10 < c.
Proof.
  unfold field_ty.
  destruct ((c =? 1) || (c =? 10)) eqn:E1; [discriminate|].
  destruct ((c =? 2) || (c =? 3) || (c =? 4) || (c =? 6) || (c =? 7)) eqn:E2; [discriminate|].
  destruct ((c =? 5) || (c =? 9)) eqn:E3; [discriminate|].
  destruct (c =? 8) eqn:E4; [discriminate|]. intros _. lia.
Qed.

(* the generated header-field type table agrees with the specification's table *)
Lemma field_ty_some c t : field_ty c = Some t ->
  (c = 1 \/ c = 2 \/ c = 3 \/ c = 4 \/ c = 5 \/ c = 6 \/ c = 7 \/ c = 8 \/ c = 9 \/ c = 10) /\ t = TBasic (expected_type c).
Proof.
  intros H.
  assert (Hc : c = 1 \/ c = 2 \/ c = 3 \/ c = 4 \/ c = 5 \/ c = 6 \/ c = 7 \/ c = 8 \/ c = 9 \/ c = 10).
  { unfold field_ty in H.
    destruct ((c =? 1) || (c =? 10)) eqn:E1; [lia|].
    destruct ((c =? 2) || (c =? 3) || (c =? 4) || (c =? 6) || (c =? 7)) eqn:E2; [lia|].
    destruct ((c =? 5) || (c =? 9)) eqn:E3; [lia|].
    destruct (c =? 8) eqn:E4; [lia|discriminate]. }
  split; [exact Hc|].
  destruct Hc as [-> | [-> | [-> | [-> | [-> | [-> | [-> | [-> | [-> | ->]]]]]]]]]; vm_compute in H; inversion H; reflexivity.
Qed.

Lemma local_interface_eq : DBUS_INTERFACE_LOCAL_str = local_interface. Proof. reflexivity. Qed.
Lemma local_path_eq : DBUS_PATH_LOCAL_str = local_path. Proof. reflexivity. Qed.

Lemma bytes_neqb a b : bytes_eqb a b = false -> a <> b.
Proof. intros H E. subst b. rewrite bytes_eqb_refl in H. discriminate. Qed.

Ltac vf_start Hc Hs Hseen :=
  unfold validate_field; rewrite Hc, Hs; cbn [print_ty];
  match goal with |- context[negb (first_type ?s =? expected_type ?c)] =>
    replace (negb (first_type s =? expected_type c)) with false by (vm_compute; reflexivity) end;
  rewrite Hseen;
  cbv [DBUS_HEADER_FIELD_DESTINATION DBUS_HEADER_FIELD_INTERFACE DBUS_HEADER_FIELD_MEMBER DBUS_HEADER_FIELD_ERROR_NAME
       DBUS_HEADER_FIELD_SENDER DBUS_HEADER_FIELD_PATH DBUS_HEADER_FIELD_REPLY_SERIAL];
  cbn [N.eqb Pos.eqb].

Lemma validate_field_ok le seen f h t : hf_ok le f h -> field_ty (sf_code f) = Some t -> ty_eqb t (sf_ty f) = true ->
  existsb (N.eqb (sf_code f)) seen = false -> field_content_ok f = true -> validate_field le seen h = V_VALID.
Proof.
  intros (Hc & Hs & Hty & Hlt & p & Hpad & Hwf & Hv) Hft Hteq Hseen Hcont.
  apply ty_eqb_eq in Hteq. destruct (field_ty_some _ _ Hft) as [Hcases Ht].
  destruct f as [c ft x]. cbn [sf_code sf_ty sf_val] in *. subst ft. rewrite Ht in Hteq. symmetry in Hteq. clear Ht Hft t. rename Hteq into Ht. unfold field_content_ok in Hcont. cbn [sf_code sf_val] in Hcont.
  destruct Hcases as [-> | [-> | [-> | [-> | [-> | [-> | [-> | [-> | [-> | ->]]]]]]]]];
    match type of Ht with _ = TBasic ?e => let v := eval vm_compute in e in change e with v in Ht end;
    rewrite Ht in Hs, Hpad; cbn [spec_align fixed_size N.eqb Pos.eqb orb] in Hpad.
  - (* PATH *)
    destruct (val_str le _ _ _ 111 ltac:(lia) Ht Hwf) as [s ->]. pose proof (wfb_str_len le _ _ 111 s ltac:(lia) Hwf) as Hl.
    rewrite (enc_str4 le 111 s p ltac:(lia) Hpad) in Hv. cbn [N.eqb Pos.eqb] in Hcont.
    vf_start Hc Hs Hseen. rewrite Hv. rewrite local_path_eq.
    rewrite local_check_false; [reflexivity | apply bytes_neqb; apply negb_true_iff; exact Hcont | exact Hl].
  - (* INTERFACE *)
    destruct (val_str le _ _ _ 115 ltac:(lia) Ht Hwf) as [s ->]. pose proof (wfb_str_len le _ _ 115 s ltac:(lia) Hwf) as Hl.
    rewrite (enc_str4 le 115 s p ltac:(lia) Hpad) in Hv. cbn [N.eqb Pos.eqb] in Hcont.
    apply andb_true_iff in Hcont. destruct Hcont as [Hi Hloc].
    vf_start Hc Hs Hseen. rewrite Hv. rewrite local_interface_eq.
    rewrite local_check_false; [|apply bytes_neqb; apply negb_true_iff; exact Hloc | exact Hl].
    rewrite str_payload_raw by exact Hl. rewrite interface_correct, Hi. reflexivity.
  - (* MEMBER *)
    destruct (val_str le _ _ _ 115 ltac:(lia) Ht Hwf) as [s ->]. pose proof (wfb_str_len le _ _ 115 s ltac:(lia) Hwf) as Hl.
    rewrite (enc_str4 le 115 s p ltac:(lia) Hpad) in Hv. cbn [N.eqb Pos.eqb] in Hcont.
    vf_start Hc Hs Hseen. rewrite Hv. rewrite str_payload_raw by exact Hl. rewrite member_correct, Hcont. reflexivity.
  - (* ERROR_NAME *)
    destruct (val_str le _ _ _ 115 ltac:(lia) Ht Hwf) as [s ->]. pose proof (wfb_str_len le _ _ 115 s ltac:(lia) Hwf) as Hl.
    rewrite (enc_str4 le 115 s p ltac:(lia) Hpad) in Hv. cbn [N.eqb Pos.eqb] in Hcont.
    vf_start Hc Hs Hseen. rewrite Hv. rewrite str_payload_raw by exact Hl. rewrite error_name_correct, Hcont. reflexivity.
  - (* REPLY_SERIAL *)
    destruct (val_u32 le _ _ _ Ht Hwf) as (n & -> & Hn). rewrite (enc_u32p le n p Hpad) in Hv. cbn [N.eqb Pos.eqb] in Hcont.
    vf_start Hc Hs Hseen. rewrite Hv. replace (bytes_of le 4 n) with (bytes_of le 4 n ++ []) by apply app_nil_r.
    rewrite u32_raw by exact Hn. replace (n =? 0) with false by lia. reflexivity.
  - (* DESTINATION *)
    destruct (val_str le _ _ _ 115 ltac:(lia) Ht Hwf) as [s ->]. pose proof (wfb_str_len le _ _ 115 s ltac:(lia) Hwf) as Hl.
    rewrite (enc_str4 le 115 s p ltac:(lia) Hpad) in Hv. cbn [N.eqb Pos.eqb orb] in Hcont.
    vf_start Hc Hs Hseen. rewrite Hv. rewrite str_payload_raw by exact Hl. rewrite (bus_name_ok s Hcont). reflexivity.
  - (* SENDER *)
    destruct (val_str le _ _ _ 115 ltac:(lia) Ht Hwf) as [s ->]. pose proof (wfb_str_len le _ _ 115 s ltac:(lia) Hwf) as Hl.
    rewrite (enc_str4 le 115 s p ltac:(lia) Hpad) in Hv. cbn [N.eqb Pos.eqb orb] in Hcont.
    vf_start Hc Hs Hseen. rewrite Hv. rewrite str_payload_raw by exact Hl. rewrite (bus_name_ok s Hcont). reflexivity.
  - (* SIGNATURE *) vf_start Hc Hs Hseen. reflexivity.
  - (* UNIX_FDS *) vf_start Hc Hs Hseen. reflexivity.
  - (* CONTAINER_INSTANCE *) vf_start Hc Hs Hseen. reflexivity.
Qed.

Lemma validate_fields_ok le : forall fs hs, Forall2 (hf_ok le) fs hs ->
  forall seen, fields_ok seen fs = true -> validate_fields le seen hs = V_VALID.
Proof.
  induction 1 as [|f h r hs Hfh Hr IH]; intros seen Hok; [reflexivity|].
  cbn [fields_ok validate_fields] in *.
  pose proof Hfh as (Hc & _). rewrite Hc.
  change DBUS_HEADER_FIELD_INVALID with 0. change DBUS_HEADER_FIELD_LAST with 10.
  destruct (sf_code f =? 0) eqn:E0; [discriminate|].
  destruct (field_ty (sf_code f)) as [t|] eqn:Hft.
  - destruct (field_ty_some _ _ Hft) as [Hcases _].
    replace (10 <? sf_code f) with false by lia.
    apply andb_true_iff in Hok. destruct Hok as [Hok Hrest]. apply andb_true_iff in Hok. destruct Hok as [Hok Hcont].
    apply andb_true_iff in Hok. destruct Hok as [Hteq Hseen]. apply negb_true_iff in Hseen.
    rewrite (validate_field_ok le seen f h t Hfh Hft Hteq Hseen Hcont). cbn [Z.eqb]. change (Z.eqb V_VALID V_VALID) with true. cbv iota.
    apply IH. exact Hrest.
  - destruct (field_ty_none _ Hft) as [Hz|Hbig]; [lia|].
    replace (10 <? sf_code f) with true by lia. apply IH. exact Hok.
Qed.

(* ---- F. mandatory fields ------------------------------------------------------------ *)
Lemma known_codes_has le : forall fs hs, Forall2 (hf_ok le) fs hs ->
  forall c, c <= 10 -> existsb (N.eqb c) (known_codes hs) = has_field c fs.
Proof.
  unfold known_codes, has_field. induction 1 as [|f h r hs Hfh Hr IH]; intros c Hc; [reflexivity|].
  destruct Hfh as (Hcode & _). cbn [filter existsb]. rewrite Hcode.
  destruct (sf_code f <=? DBUS_HEADER_FIELD_LAST) eqn:E; change DBUS_HEADER_FIELD_LAST with 10 in E.
  - cbn [map existsb]. rewrite Hcode. rewrite (IH c Hc). rewrite (N.eqb_sym c). reflexivity.
  - rewrite (IH c Hc). replace (sf_code f =? c) with false by lia. reflexivity.
Qed.

Lemma check_mandatory_ok le mt fs hs : Forall2 (hf_ok le) fs hs -> mandatory_ok mt fs = true ->
  check_mandatory mt (known_codes hs) = V_VALID.
Proof.
  intros HF Hm. unfold check_mandatory, mandatory_ok in *.
  pose proof (known_codes_has le fs hs HF) as K. unfold mandatory_fields.
  destruct (mt =? 1) eqn:E1; [apply N.eqb_eq in E1; subst mt|].
  { cbn [find fst N.eqb Pos.eqb check_required]. apply andb_true_iff in Hm. destruct Hm as [H1 H3].
    rewrite !K by lia. rewrite H1, H3. reflexivity. }
  destruct (mt =? 2) eqn:E2; [apply N.eqb_eq in E2; subst mt|].
  { cbn [find fst N.eqb Pos.eqb check_required]. rewrite !K by lia. rewrite Hm. reflexivity. }
  destruct (mt =? 3) eqn:E3; [apply N.eqb_eq in E3; subst mt|].
  { cbn [find fst N.eqb Pos.eqb check_required]. apply andb_true_iff in Hm. destruct Hm as [H4 H5].
    rewrite !K by lia. rewrite H4, H5. reflexivity. }
  destruct (mt =? 4) eqn:E4; [apply N.eqb_eq in E4; subst mt|].
  { cbn [find fst N.eqb Pos.eqb check_required]. apply andb_true_iff in Hm. destruct Hm as [Hm H3]. apply andb_true_iff in Hm. destruct Hm as [H1 H2].
    rewrite !K by lia. rewrite H1, H2, H3. reflexivity. }
  cbn [find fst].
  replace (3 =? mt) with false by lia. replace (1 =? mt) with false by lia.
  replace (2 =? mt) with false by lia. replace (4 =? mt) with false by lia. reflexivity.
Qed.

(* ---- G. looking up the SIGNATURE and UNIX_FDS fields ------------------------------- *)
Lemma field_value_find le : forall fs hs, Forall2 (hf_ok le) fs hs ->
  forall c, match find (fun f => sf_code f =? c) fs, field_value c hs with
            | Some f, Some h => hf_ok le f h
            | None, None => True
            | _, _ => False
            end.
Proof.
  unfold field_value. induction 1 as [|f h r hs Hfh Hr IH]; intros c; [exact I|].
  cbn [find]. pose proof Hfh as (Hc & _). rewrite Hc. destruct (sf_code f =? c); [exact Hfh | apply IH].
Qed.

Lemma fields_ok_find : forall fs seen f c t, fields_ok seen fs = true ->
  find (fun f => sf_code f =? c) fs = Some f -> field_ty c = Some t -> sf_ty f = t.
Proof.
  induction fs as [|f0 r IH]; intros seen f c t Hok Hfind Hft; [discriminate|].
  cbn [find fields_ok] in *. destruct (sf_code f0 =? 0); [discriminate|].
  destruct (sf_code f0 =? c) eqn:E.
  - apply N.eqb_eq in E. inversion Hfind; subst f0. rewrite E, Hft in Hok.
    apply andb_true_iff in Hok. destruct Hok as [Hok _]. apply andb_true_iff in Hok. destruct Hok as [Hok _].
    apply andb_true_iff in Hok. destruct Hok as [Hteq _]. apply ty_eqb_eq in Hteq. congruence.
  - destruct (field_ty (sf_code f0)).
    + apply andb_true_iff in Hok. destruct Hok as [_ Hok]. apply (IH _ f c t Hok Hfind Hft).
    + apply (IH _ f c t Hok Hfind Hft).
Qed.

Definition spec_nfds (fs : list sfield) : N :=
  match find (fun f => sf_code f =? 9) fs with
  | Some f => match sf_val f with VNum _ n => n | _ => 0 end
  | None => 0
  end.

Lemma sig_lookup le fs hs : Forall2 (hf_ok le) fs hs -> fields_ok [] fs = true ->
  match field_value DBUS_HEADER_FIELD_SIGNATURE hs with Some h => sig_payload (f_val h) | None => [] end = sig_of_fields fs.
Proof.
  intros HF Hok. unfold sig_of_fields. pose proof (field_value_find le fs hs HF 8) as H.
  change DBUS_HEADER_FIELD_SIGNATURE with 8.
  destruct (find (fun f => sf_code f =? 8) fs) as [f|] eqn:Ef; destruct (field_value 8 hs) as [h|]; try contradiction; [|reflexivity].
  pose proof (fields_ok_find fs [] f 8 (TBasic 103) Hok Ef eq_refl) as Hty.
  destruct H as (_ & _ & Htv & _ & p & _ & Hwf & Hv). rewrite Hty in Htv.
  destruct (val_str le _ _ _ 103 ltac:(lia) Htv Hwf) as [s Es]. destruct f as [c ft x]. cbn [sf_val] in *. subst x.
  rewrite Hv, enc_sig. apply sig_payload_raw.
Qed.

Lemma fds_lookup le fs hs : Forall2 (hf_ok le) fs hs -> fields_ok [] fs = true ->
  match field_value DBUS_HEADER_FIELD_UNIX_FDS hs with Some h => u32_at le (f_val h) 0 | None => 0 end = spec_nfds fs.
Proof.
  intros HF Hok. unfold spec_nfds. pose proof (field_value_find le fs hs HF 9) as H.
  change DBUS_HEADER_FIELD_UNIX_FDS with 9.
  destruct (find (fun f => sf_code f =? 9) fs) as [f|] eqn:Ef; destruct (field_value 9 hs) as [h|]; try contradiction; [|reflexivity].
  pose proof (fields_ok_find fs [] f 9 (TBasic 117) Hok Ef eq_refl) as Hty.
  destruct H as (_ & _ & Htv & _ & p & Hpad & Hwf & Hv). rewrite Hty in Htv, Hpad.
  destruct (val_u32 le _ _ _ Htv Hwf) as (n & En & Hn). rewrite En in *.
  rewrite Hv. rewrite (enc_u32p le n p Hpad). replace (bytes_of le 4 n) with (bytes_of le 4 n ++ []) by apply app_nil_r.
  apply u32_raw. exact Hn.
Qed.

(* ---- H. header_load on the canonical header ------------------------------------------ *)
Lemma enc_fields_val le fs : enc le (fields_val le fs) 12 =
  bytes_of le 4 (nlen (encs le (map (enc_field le) fs) 16)) ++ encs le (map (enc_field le) fs) 16.
Proof.
  unfold fields_val. rewrite enc_arr. cbv zeta.
  change (pad_amount 12 4) with 0. change (12 + 0 + 4) with 16. change (spec_align (TStruct [TBasic 121; TVariant])) with 8.
  change (pad_amount 16 8) with 0. change (16 + 0) with 16. cbn [zeros repeat N.to_nat app]. reflexivity.
Qed.

Lemma wf_fields_val le fs : wfb le 0 12 (fields_val le fs) = true ->
  wfsb le (map (enc_field le) fs) 1 16 = true /\ nlen (encs le (map (enc_field le) fs) 16) <= max_array.
Proof.
  intros W. unfold fields_val in W. rewrite wfb_arr in W. apply andb_true_iff in W. destruct W as [_ W].
  apply andb_true_iff in W. destruct W as [W Ws]. apply andb_true_iff in W. destruct W as [_ W]. unfold arr_start in *.
  change (pad_amount 12 4) with 0 in *. change (12 + 0 + 4) with 16 in *. change (spec_align (TStruct [TBasic 121; TVariant])) with 8 in *.
  change (pad_amount 16 8) with 0 in *. change (16 + 0) with 16 in *. change (0 + 1) with 1 in Ws. split; [exact Ws | lia].
Qed.

Lemma header_tys_eq : header_tys = Some [TBasic 121; TBasic 121; TBasic 121; TBasic 121; TBasic 117; TBasic 117; TArray (TStruct [TBasic 121; TVariant])].
Proof. vm_compute. reflexivity. Qed.

Lemma all_zero_zeros n : all_zero (zeros n) = true.
Proof. apply forallb_zeros. Qed.

Lemma header_load_enc (le : bool) mt fl serial blen fs tail d :
  let payload := encs le (map (enc_field le) fs) 16 in
  let flen := nlen payload in
  let hlen := 16 + flen + pad_amount (16 + flen) 8 in
  d = [if le then 108 else 66; mt; fl; 1] ++ bytes_of le 4 blen ++ bytes_of le 4 serial ++ bytes_of le 4 flen ++ payload
      ++ zeros (pad_amount (16 + flen) 8) ++ tail ->
  mt <> 0 -> mt < 256 -> fl < 256 -> serial <> 0 -> serial < 4294967296 -> blen < 4294967296 ->
  wfb le 0 12 (fields_val le fs) = true -> wire_ok (fields_val le fs) = true ->
  fields_ok [] fs = true -> mandatory_ok mt fs = true ->
  exists hs, header_load le flen hlen d = inl hs /\ Forall2 (hf_ok le) fs hs.
Proof.
  intros payload flen hlen Hd Hmt0 Hmt Hfl Hs0 Hs Hbl Hwf Hk Hfok Hmand.
  destruct (wf_fields_val le fs Hwf) as [Hws Hfl_le]. fold payload in Hfl_le. fold flen in Hfl_le. unfold max_array in Hfl_le.
  assert (Hkall : forallb wire_ok (map (enc_field le) fs) = true).
  { unfold fields_val in Hk. cbn [wire_ok] in Hk. apply andb_true_iff in Hk. destruct Hk as [_ Hk]. exact Hk. }
  set (Z := zeros (pad_amount (16 + flen) 8)) in *.
  set (hv := [VNum 121 (if le then 108 else 66); VNum 121 mt; VNum 121 fl; VNum 121 1; VNum 117 blen; VNum 117 serial; fields_val le fs]).
  assert (Hbo : (if le then 108 else 66) < 256) by (destruct le; lia).
  assert (Hhv : encs le hv 0 = [if le then 108 else 66; mt; fl; 1] ++ bytes_of le 4 blen ++ bytes_of le 4 serial ++ bytes_of le 4 flen ++ payload).
  { subst hv. rewrite encs_hdr by (assumption || lia). rewrite enc_fields_val. reflexivity. }
  assert (Hhvlen : nlen (encs le hv 0) = 16 + flen).
  { rewrite Hhv. rewrite !nlen_app, !(bytes_of_length le 4). fold flen. change (nlen [if le then 108 else 66; mt; fl; 1]) with 4. lia. }
  assert (Hd1 : d = encs le hv 0 ++ Z ++ tail).
  { rewrite Hhv, Hd. rewrite <- !app_assoc. reflexivity. }
  (* 1. the header validated as a body of signature yyyyuua(yv) *)
  assert (A1 : exists c, validate_body_prefix le (map ty_of_val hv) d = inl c).
  { unfold validate_body_prefix. change (cur_of 0 d) with (curof 0 d). rewrite Hd1.
    rewrite (vb_seq_encs le hv 0 (Z ++ tail)).
    - eexists. reflexivity.
    - subst hv. apply wfsb_hdr; assumption || lia.
    - subst hv. cbn [forallb wire_ok]. rewrite Hk. reflexivity. }
  (* 2. padding *)
  assert (A2 : firstn (N.to_nat (hlen - (16 + flen))) (skipn (N.to_nat (16 + flen)) d) = Z).
  { rewrite Hd1. rewrite skipn_app_exact by (rewrite <- Hhvlen; symmetry; apply nlen_len).
    apply firstn_app_exact. subst Z hlen. unfold zeros. rewrite repeat_length. lia. }
  (* 3. explicit first 16 bytes *)
  destruct (bytes_of_4 le blen) as (a0 & a1 & a2 & a3 & Ea & Ua).
  destruct (bytes_of_4 le serial) as (b0 & b1 & b2 & b3 & Eb & Ub).
  destruct (bytes_of_4 le flen) as (c0 & c1 & c2 & c3 & Ec & Uc).
  rewrite Ea, Eb, Ec in Hd. cbn [app] in Hd.
  assert (A3 : byte_at d 1 = mt /\ byte_at d 3 = 1 /\ u32_at le d 8 = serial).
  { rewrite Hd. unfold u32_at, byte_at. cbn [nth Nat.add]. repeat split. apply Ub. exact Hs. }
  destruct A3 as (B1 & B3 & B8).
  assert (A4 : mkCur 16 (nlen d - 16) (skipn 16 d) = curof 16 (payload ++ Z ++ tail)).
  { rewrite Hd. cbn [skipn]. unfold curof. f_equal. rewrite !nlen_cons. lia. }
  (* 4. the fields *)
  destruct (read_fields_enc le fs (S (N.to_nat flen)) 1 16 (Z ++ tail) (16 + flen)) as (hs & Hrd & HF).
  { pose proof (length_le_encs le _ _ _ Hws) as L. rewrite map_length in L. fold payload in L. fold flen in L. lia. }
  { exact Hws. } { exact Hkall. } { reflexivity. }
  fold payload in Hrd.
  exists hs. split; [|exact HF].
  unfold header_load. rewrite header_tys_eq.
  change [TBasic 121; TBasic 121; TBasic 121; TBasic 121; TBasic 117; TBasic 117; TArray (TStruct [TBasic 121; TVariant])] with (map ty_of_val hv).
  destruct A1 as [c A1]. rewrite A1. rewrite A2. subst Z. rewrite all_zero_zeros. cbn [negb].
  rewrite B1, B3, B8. change DBUS_MESSAGE_TYPE_INVALID with 0. change DBUS_MAJOR_PROTOCOL_VERSION with 1.
  replace (mt =? 0) with false by lia. cbn [N.eqb Pos.eqb negb]. replace (serial =? 0) with false by lia.
  rewrite A4, Hrd.
  rewrite (validate_fields_ok le fs hs HF [] Hfok). change (negb (Z.eqb V_VALID V_VALID)) with false. cbv iota.
  rewrite (check_mandatory_ok le mt fs hs HF Hmand). reflexivity.
Qed.

(* ---- I. the whole message ----------------------------------------------------------- *)
Definition m_payload (m : smsg) : bytes := encs (s_le m) (map (enc_field (s_le m)) (s_fields m)) 16.
Definition m_bodyb (m : smsg) : bytes := encs (s_le m) (s_body m) 0.
Definition m_flen (m : smsg) : N := nlen (m_payload m).
Definition m_hlen (m : smsg) : N := 16 + m_flen m + pad_amount (16 + m_flen m) 8.
Definition m_blen (m : smsg) : N := nlen (m_bodyb m).

Lemma encode_shape m :
  spec_encode_message m =
  ([if s_le m then 108 else 66; s_type m; s_flags m; 1] ++ bytes_of (s_le m) 4 (m_blen m) ++ bytes_of (s_le m) 4 (s_serial m)
     ++ bytes_of (s_le m) 4 (m_flen m) ++ m_payload m) ++ zeros (pad_amount (16 + m_flen m) 8) ++ m_bodyb m.
Proof.
  unfold spec_encode_message, m_blen, m_flen, m_bodyb, m_payload. destruct m as [le mt fl serial fs sg body].
  cbn [s_le s_type s_flags s_serial s_fields s_sig s_body]. rewrite enc_seq_encs.
  fold (fields_val le fs). rewrite enc_fields_val.
  set (payload := encs le (map (enc_field le) fs) 16). set (bodyb := encs le body 0).
  replace (nlen (([if le then 108 else 66; mt; fl; 1] ++ bytes_of le 4 (nlen bodyb) ++ bytes_of le 4 serial) ++ bytes_of le 4 (nlen payload) ++ payload))
    with (16 + nlen payload).
  - rewrite <- !app_assoc. reflexivity.
  - rewrite !nlen_app, !(bytes_of_length le 4). change (nlen [if le then 108 else 66; mt; fl; 1]) with 4. lia.
Qed.

Lemma wf_msg_inv m : wf_msg m = true ->
  s_type m <> 0 /\ s_type m < 256 /\ s_flags m < 256 /\ s_serial m <> 0 /\ s_serial m < 4294967296 /\
  wfb (s_le m) 0 12 (fields_val (s_le m) (s_fields m)) = true /\
  fields_ok [] (s_fields m) = true /\ mandatory_ok (s_type m) (s_fields m) = true /\
  s_sig m = sig_of_fields (s_fields m) /\ parse_sig (s_sig m) = Some (map ty_of_val (s_body m)) /\
  wfsb (s_le m) (s_body m) 0 0 = true /\ m_blen m <= max_message /\ m_hlen m + m_blen m <= max_message.
Proof.
  intros H. unfold wf_msg in H.
  apply andb_true_iff in H; destruct H as [H W].
  apply andb_true_iff in H; destruct H as [H W0].
  apply andb_true_iff in H; destruct H as [H W1].
  apply andb_true_iff in H; destruct H as [H W2].
  apply andb_true_iff in H; destruct H as [H W3].
  apply andb_true_iff in H; destruct H as [H W4].
  apply andb_true_iff in H; destruct H as [H W5].
  apply andb_true_iff in H; destruct H as [H W6].
  apply andb_true_iff in H; destruct H as [H W7].
  apply andb_true_iff in H; destruct H as [H W8].
  apply andb_true_iff in H; destruct H as [H W9].
  apply andb_true_iff in H; destruct H as [H W10].
  apply andb_true_iff in H; destruct H as [Wtype0 W11].
  apply bytes_eqb_eq in W4.
  destruct (parse_sig (s_sig m)) as [tys|] eqn:Hparse; [|discriminate]. apply tys_eq_list in W2. subst tys.
  unfold m_blen, m_hlen, m_flen, m_bodyb, m_payload.
  repeat split; try assumption; lia.
Qed.

Theorem loader_complete m rest avail :
  wf_msg m = true ->
  wire_ok (fields_val (s_le m) (s_fields m)) = true -> forallb wire_ok (s_body m) = true ->
  spec_nfds (s_fields m) <= avail ->
  let E := spec_encode_message m in
  have_message DBUS_MAXIMUM_MESSAGE_LENGTH (E ++ rest) = HaveOk (s_le m) (m_flen m) (m_hlen m) (m_blen m) true /\
  exists hs, Forall2 (hf_ok (s_le m)) (s_fields m) hs /\
    load_message (s_le m) (m_flen m) (m_hlen m) (m_blen m) avail (E ++ rest)
      = inl (mkMsg (firstn (N.to_nat (m_hlen m)) E) (m_bodyb m) hs (spec_nfds (s_fields m))) /\
    firstn (N.to_nat (m_hlen m)) E ++ m_bodyb m = E.
Proof.
  intros Hwf Hkf Hkb Hfds E.
  destruct (wf_msg_inv m Hwf) as (Hmt0 & Hmt & Hfl & Hs0 & Hs & Hwfv & Hfok & Hmand & Hsig & Hparse & Hwb & Hbl & Htot).
  unfold max_message in *.
  pose proof (encode_shape m) as HE. fold E in HE.
  destruct (wf_fields_val _ _ Hwfv) as [_ Hflen]. fold (m_payload m) in Hflen. fold (m_flen m) in Hflen. unfold max_array in Hflen.
  set (le := s_le m) in *. set (flen := m_flen m) in *. set (blen := m_blen m) in *. set (bodyb := m_bodyb m) in *.
  set (Z := zeros (pad_amount (16 + flen) 8)) in *.
  set (Hp := [if le then 108 else 66; s_type m; s_flags m; 1] ++ bytes_of le 4 blen ++ bytes_of le 4 (s_serial m) ++ bytes_of le 4 flen ++ m_payload m) in *.
  assert (Hhl : m_hlen m = 16 + flen + pad_amount (16 + flen) 8) by reflexivity.
  assert (Hal : align_up (16 + flen) 8 = m_hlen m) by (rewrite Hhl; apply align_up_pad; lia).
  assert (HpZ : length (Hp ++ Z) = N.to_nat (m_hlen m)).
  { subst Hp Z. rewrite <- nlen_len. f_equal. rewrite !nlen_app, !(bytes_of_length le 4), nlen_zeros. change (nlen (m_payload m)) with flen.
    change (nlen [if le then 108 else 66; s_type m; s_flags m; 1]) with 4. rewrite Hhl. lia. }
  assert (Hd : E ++ rest = [if le then 108 else 66; s_type m; s_flags m; 1] ++ bytes_of le 4 blen ++ bytes_of le 4 (s_serial m) ++ bytes_of le 4 flen
                  ++ m_payload m ++ Z ++ bodyb ++ rest).
  { rewrite HE. subst Hp. rewrite <- !app_assoc. reflexivity. }
  assert (Hd2 : E ++ rest = (Hp ++ Z) ++ bodyb ++ rest) by (rewrite HE; rewrite <- !app_assoc; reflexivity).
  assert (HE2 : E = (Hp ++ Z) ++ bodyb) by (rewrite HE; rewrite <- !app_assoc; reflexivity).
  split.
  - (* framing *)
    rewrite Hd. rewrite have_message_bytes; try (rewrite ?Hal; change DBUS_MAXIMUM_MESSAGE_LENGTH with 134217728; lia).
    + rewrite Hal. f_equal. rewrite !nlen_app. subst Z. rewrite nlen_zeros. change (nlen (m_payload m)) with flen. change (nlen bodyb) with blen. rewrite Hhl. lia.
  - (* loading *)
    destruct (header_load_enc le (s_type m) (s_flags m) (s_serial m) blen (s_fields m) (bodyb ++ rest) (E ++ rest)) as (hs & Hload & HF);
      try assumption; try lia.
    exists hs. split; [exact HF|]. split.
    + unfold load_message. change (header_load le flen (m_hlen m) (E ++ rest) = inl hs) in Hload. rewrite Hload.
      rewrite (sig_lookup le _ _ HF Hfok). rewrite <- Hsig. rewrite Hparse.
      assert (Hbody : firstn (N.to_nat blen) (skipn (N.to_nat (m_hlen m)) (E ++ rest)) = bodyb).
      { rewrite Hd2. rewrite skipn_app_exact by exact HpZ. apply firstn_app_exact. subst blen. symmetry. apply nlen_len. }
      rewrite Hbody.
      replace (validate_body le (map ty_of_val (s_body m)) bodyb) with V_VALID by (symmetry; apply (validate_body_complete le (s_body m) Hwb Hkb)).
      change (negb (Z.eqb V_VALID V_VALID)) with false. cbv iota.
      rewrite (fds_lookup le _ _ HF Hfok). replace (avail <? spec_nfds (s_fields m)) with false by lia.
      f_equal. f_equal. rewrite Hd2, HE2. rewrite !firstn_app_exact by exact HpZ. reflexivity.
    + rewrite HE2 at 1. rewrite firstn_app_exact by exact HpZ. symmetry. exact HE2.
Qed.

(* ---- J. the loader / dbus_message_demarshal ------------------------------------------- *)
Lemma encode_len m : nlen (spec_encode_message m) = m_hlen m + m_blen m.
Proof.
  rewrite encode_shape. rewrite !nlen_app, !(bytes_of_length (s_le m) 4), nlen_zeros.
  change (nlen [if s_le m then 108 else 66; s_type m; s_flags m; 1]) with 4. unfold m_hlen, m_blen, m_flen. lia.
Qed.

Definition loaded_msg (m : smsg) (hs : list hfield) : message :=
  mkMsg (firstn (N.to_nat (m_hlen m)) (spec_encode_message m)) (m_bodyb m) hs (spec_nfds (s_fields m)).

(* one round of the loader on the canonical encoding followed by anything *)
Lemma feed_one m rest :
  wf_msg m = true -> wire_ok (fields_val (s_le m) (s_fields m)) = true -> forallb wire_ok (s_body m) = true ->
  spec_nfds (s_fields m) = 0 ->
  exists hs, Forall2 (hf_ok (s_le m)) (s_fields m) hs /\
    feed loader_new (spec_encode_message m ++ rest) 0 =
    queue_messages (length (spec_encode_message m ++ rest))
      (mkLoader rest false V_VALID [loaded_msg m hs] 0 DBUS_MAXIMUM_MESSAGE_LENGTH).
Proof.
  intros Hwf Hkf Hkb Hfds.
  destruct (loader_complete m rest 0 Hwf Hkf Hkb ltac:(lia)) as (Hhave & hs & HF & Hload & _). cbv zeta in *.
  exists hs. split; [exact HF|].
  unfold feed, loader_new. cbn [l_buf l_corrupted l_reason l_msgs l_fds l_max app]. rewrite qm_S.
  cbn [l_buf l_corrupted l_reason l_msgs l_fds l_max app].
  pose proof (encode_len m) as HL.
  replace (nlen (spec_encode_message m ++ rest) <? DBUS_MINIMUM_HEADER_SIZE) with false
    by (rewrite nlen_app, HL; unfold m_hlen; change DBUS_MINIMUM_HEADER_SIZE with 16; lia).
  rewrite Hhave. change (0 + 0) with 0. rewrite Hload. cbn [m_nfds]. fold (loaded_msg m hs).
  rewrite skipn_app_exact by (rewrite <- HL; symmetry; apply nlen_len). rewrite Hfds. reflexivity.
Qed.

Lemma qm_short f l : l_corrupted l = false -> nlen (l_buf l) < 16 -> queue_messages f l = l.
Proof.
  intros Hc Hs. destruct f as [|f]; [reflexivity|]. rewrite qm_S, Hc.
  replace (nlen (l_buf l) <? DBUS_MINIMUM_HEADER_SIZE) with true by (change DBUS_MINIMUM_HEADER_SIZE with 16; lia). reflexivity.
Qed.

Lemma qm_msgs_prefix : forall f l, exists more, l_msgs (queue_messages f l) = l_msgs l ++ more.
Proof.
  induction f as [|f IH]; intros l; [exists []; cbn; rewrite app_nil_r; reflexivity|].
  rewrite qm_S.
  destruct (l_corrupted l); [exists []; rewrite app_nil_r; reflexivity|].
  destruct (nlen (l_buf l) <? DBUS_MINIMUM_HEADER_SIZE); [exists []; rewrite app_nil_r; reflexivity|].
  destruct (have_message (l_max l) (l_buf l)) as [r|le fl hl bl c]; [exists []; cbn; rewrite app_nil_r; reflexivity|].
  destruct c; [|exists []; rewrite app_nil_r; reflexivity].
  destruct (load_message le fl hl bl (l_fds l) (l_buf l)) as [m|r]; [|exists []; cbn; rewrite app_nil_r; reflexivity].
  destruct (IH (mkLoader (skipn (N.to_nat (hl + bl)) (l_buf l)) false V_VALID (l_msgs l ++ [m]) (l_fds l - m_nfds m) (l_max l))) as [more Hm].
  cbn [l_msgs] in Hm. exists (m :: more). rewrite Hm. rewrite <- app_assoc. reflexivity.
Qed.

(* dbus_message_demarshal on the canonical encoding (nothing, or less than a fixed header, after it) *)
Theorem demarshal_complete m rest :
  wf_msg m = true -> wire_ok (fields_val (s_le m) (s_fields m)) = true -> forallb wire_ok (s_body m) = true ->
  spec_nfds (s_fields m) = 0 -> nlen rest < 16 ->
  exists hs, Forall2 (hf_ok (s_le m)) (s_fields m) hs /\
    demarshal (spec_encode_message m ++ rest) = DemMsg (loaded_msg m hs) /\
    m_header (loaded_msg m hs) ++ m_body (loaded_msg m hs) = spec_encode_message m.
Proof.
  intros Hwf Hkf Hkb Hfds Hrest.
  destruct (feed_one m rest Hwf Hkf Hkb Hfds) as (hs & HF & Hfeed).
  exists hs. split; [exact HF|]. split.
  - unfold demarshal. rewrite Hfeed. rewrite qm_short by (cbn [l_corrupted l_buf]; (reflexivity || exact Hrest)). reflexivity.
  - destruct (loader_complete m rest 0 Hwf Hkf Hkb ltac:(lia)) as (_ & hs' & _ & _ & Hbytes). exact Hbytes.
Qed.

(* with arbitrary trailing bytes the message is still the first one queued ... *)
Theorem loader_first_message m rest :
  wf_msg m = true -> wire_ok (fields_val (s_le m) (s_fields m)) = true -> forallb wire_ok (s_body m) = true ->
  spec_nfds (s_fields m) = 0 ->
  exists hs more, Forall2 (hf_ok (s_le m)) (s_fields m) hs /\
    l_msgs (feed loader_new (spec_encode_message m ++ rest) 0) = loaded_msg m hs :: more.
Proof.
  intros Hwf Hkf Hkb Hfds.
  destruct (feed_one m rest Hwf Hkf Hkb Hfds) as (hs & HF & Hfeed).
  destruct (qm_msgs_prefix (length (spec_encode_message m ++ rest)) (mkLoader rest false V_VALID [loaded_msg m hs] 0 DBUS_MAXIMUM_MESSAGE_LENGTH)) as [more Hm].
  exists hs, more. split; [exact HF|]. rewrite Hfeed, Hm. reflexivity.
Qed.

(* ... but dbus_message_demarshal reports corruption first: trailing garbage makes it fail *)
Theorem demarshal_trailing_garbage m :
  wf_msg m = true -> wire_ok (fields_val (s_le m) (s_fields m)) = true -> forallb wire_ok (s_body m) = true ->
  spec_nfds (s_fields m) = 0 ->
  demarshal (spec_encode_message m ++ repeat 0 16) = DemCorrupt V_INVALID_BAD_BYTE_ORDER.
Proof.
  intros Hwf Hkf Hkb Hfds.
  destruct (feed_one m (repeat 0 16) Hwf Hkf Hkb Hfds) as (hs & HF & Hfeed).
  unfold demarshal. rewrite Hfeed.
  destruct (length (spec_encode_message m ++ repeat 0 16)) as [|f] eqn:El.
  - rewrite app_length in El. cbn [repeat length] in El. lia.
  - rewrite qm_S. reflexivity.
Qed.

(* the literal claim "for ANY rest, demarshal (E ++ rest) = DemMsg msg" is therefore false in the model
   (and in the C code: dbus_message_demarshal tests loader->corrupted before popping a message) *)
Definition demarshal_any_rest_statement : Prop :=
  forall m rest, wf_msg m = true -> wire_ok (fields_val (s_le m) (s_fields m)) = true -> forallb wire_ok (s_body m) = true ->
    spec_nfds (s_fields m) = 0 ->
    exists hs, demarshal (spec_encode_message m ++ rest) = DemMsg (loaded_msg m hs).

(* non-vacuity: a signal /a a.b.M with no body satisfies every premise *)
Definition example_msg : smsg :=
  mkSMsg true 4 0 1
    [mkSField 1 (TBasic 111) (VStr 111 [47; 97]);
     mkSField 2 (TBasic 115) (VStr 115 [97; 46; 98]);
     mkSField 3 (TBasic 115) (VStr 115 [77])] [] [].

Lemma example_premises :
  wf_msg example_msg = true /\ wire_ok (fields_val (s_le example_msg) (s_fields example_msg)) = true /\
  forallb wire_ok (s_body example_msg) = true /\ spec_nfds (s_fields example_msg) = 0.
Proof. repeat split; vm_compute; reflexivity. Qed.

Theorem demarshal_any_rest_refuted : ~ demarshal_any_rest_statement.
Proof.
  intros H. destruct example_premises as (H1 & H2 & H3 & H4).
  destruct (H example_msg (repeat 0 16) H1 H2 H3 H4) as [hs Hd].
  rewrite (demarshal_trailing_garbage example_msg H1 H2 H3 H4) in Hd. discriminate.
Qed.
