(* C04 proofs, driver layer, part 2: every step of Driver.dstep is the rendering of a
   step of the specification (own-policy gate included), keeps the driver
   invariant, and answers the query methods by string as the string-keyed table says. *)
From DV Require Import Lib.Base Gen.Tables Wire.Names Registry.RegTypes Registry.Registry Registry.Driver
  Spec.NamesSpec Spec.RegistrySpec Spec.DriverSpec
  Proofs.RegistryBase Proofs.RegistryInv Proofs.RegistryRefine Proofs.RegistryDisc Proofs.RegistryMain Proofs.DriverBase.
From DV Require Policy.Policy Spec.PolicySpec Proofs.PolicyProofs.
From Coq Require Import ZifyBool ZifyN ZifyNat.
Local Open Scope N_scope.

Notation rule_wf := Spec.PolicySpec.rule_wf.
Definition rules_wf (rules : list prule) : bool := forallb rule_wf rules.

Lemma gate_decision rules name : rules_wf rules = true -> check_can_own rules name = Some (spec_can_own rules name).
Proof. intros H. apply Proofs.PolicyProofs.own_last_match. exact H. Qed.

(* ---- what a step of the specification does to the connection table ------------------------------------- *)
Definition sshape (x : sconn) : N * bool := (sc_id x, sc_active x).

Lemma smap_shape cs c f : (forall x, sshape (f x) = sshape x) -> map sshape (smap cs c f) = map sshape cs.
Proof.
  intros H. unfold smap. rewrite map_map. apply map_ext. intros x. destruct (sc_id x =? c); [apply H | reflexivity].
Qed.

Lemma sdrop_incl cs c x : In x (sdrop cs c) -> In x cs.
Proof. unfold sdrop. intros H. apply filter_In in H. tauto. Qed.

(* events other than Connect and Hello: no new connection, nobody becomes registered, the id counter stays *)
Lemma spec_step_conns v s e ord :
  (match e with EvConnect | EvHello _ => False | _ => True end) ->
  let s' := fst (spec_step v s e ord) in
  s_next s' = s_next s /\ forall y, In y (s_conns s') -> exists x, In x (s_conns s) /\ sshape y = sshape x.
Proof.
  intros He. cbn zeta.
  assert (Hsame : s_next s = s_next s /\ forall y, In y (s_conns s) -> exists x, In x (s_conns s) /\ sshape y = sshape x) by (split; eauto).
  destruct e as [|c|c|c name flags|c name|c]; try contradiction; unfold spec_step.
  - destruct (sfind (s_conns s) c) as [x|]; [|exact Hsame]. destruct (negb (sc_active x)); [exact Hsame|]. cbn [fst s_next s_conns with_names].
    split; [reflexivity|]. intros y Hy.
    assert (Hm := smap_shape (s_conns s) c (fun x => mkSConn (sc_id x) (sc_active x) true) (fun x => eq_refl)).
    apply (in_map sshape) in Hy. rewrite Hm in Hy. apply in_map_iff in Hy. destruct Hy as [x0 [E Hx0]]. eauto.
  - destruct (sfind (s_conns s) c) as [x|]; [|exact Hsame]. destruct (negb (sc_active x)); [exact Hsame|].
    destruct (negb (requestable name)); [exact Hsame|].
    match goal with |- context [if ?b then _ else _] => destruct b end; [exact Hsame|]. cbn [fst s_next s_conns with_names]. split; eauto.
  - destruct (sfind (s_conns s) c) as [x|]; [|exact Hsame]. destruct (negb (sc_active x)); [exact Hsame|].
    destruct (negb (requestable name)); [exact Hsame|]. destruct (sget (s_names s) (KW name)); [exact Hsame|].
    match goal with |- context [if ?b then _ else _] => destruct b end; [exact Hsame|]. cbn [fst s_next s_conns with_names]. split; eauto.
  - destruct (sfind (s_conns s) c) as [x|]; [|exact Hsame]. destruct (drop_names (s_names s) c ord) as [m es].
    cbn [fst s_next s_conns with_names]. split; [reflexivity|]. intros y Hy. apply sdrop_incl in Hy. eauto.
Qed.

Lemma dspec_step_conns v rules s e ord :
  (match e with EvConnect | EvHello _ => False | _ => True end) ->
  let s' := fst (dspec_step v rules s e ord) in
  s_next s' = s_next s /\ forall y, In y (s_conns s') -> exists x, In x (s_conns s) /\ sshape y = sshape x.
Proof.
  intros He. destruct e as [|c|c|c name flags|c name|c]; try contradiction; try (apply spec_step_conns; exact I).
  unfold dspec_step. destruct (sfind (s_conns s) c) as [x|]; [|apply spec_step_conns; exact I].
  destruct (sc_active x && requestable name && negb (spec_can_own rules name)); [|apply spec_step_conns; exact I].
  cbn [fst]. split; eauto.
Qed.

(* the same facts for the model's table, through the refinement relation *)
Lemma conns_via_R b s b' s' :
  R b s -> R b' s' -> s_next s' = s_next s ->
  (forall y, In y (s_conns s') -> exists x, In x (s_conns s) /\ sshape y = sshape x) ->
  b_next b' = b_next b /\ forall x', In x' (b_conns b') -> exists x, In x (b_conns b) /\ c_id x' = c_id x /\ c_active x' = c_active x.
Proof.
  intros R0 R1 Hn Hc. split; [rewrite <- (R_next b' s' R1), <- (R_next b s R0); exact Hn|].
  intros x' Hx'. assert (Hy : In (abs_conn x') (s_conns s')) by (rewrite (R_conns b' s' R1); apply in_map; exact Hx').
  destruct (Hc _ Hy) as [y [Hy' E]]. rewrite (R_conns b s R0) in Hy'. apply in_map_iff in Hy'. destruct Hy' as [x [<- Hx]].
  exists x. unfold sshape in E. simpl in E. inversion E. auto.
Qed.

Lemma dinv_same_names d b' :
  dinv d -> inv b' -> b_next b' = b_next (d_bus d) ->
  (forall x', In x' (b_conns b') -> exists x, In x (b_conns (d_bus d)) /\ c_id x' = c_id x /\ c_active x' = c_active x) ->
  dinv (with_bus d b').
Proof.
  intros I I' Hn Hc. constructor; simpl.
  - exact I'.
  - apply (di_ids d I).
  - apply (di_minors d I).
  - apply (di_lt d I).
  - intros c m H. rewrite Hn. apply (di_known d I c m H).
  - intros x' Hx' Ha. destruct (Hc x' Hx') as [x [Hx [E1 E2]]]. rewrite E1. apply (di_active d I x Hx). congruence.
  - intros x' Hx' Ha. destruct (Hc x' Hx') as [x [Hx [E1 E2]]]. rewrite E1. apply (di_inactive d I x Hx). congruence.
Qed.

(* ---- one registry event at the driver level --------------------------------------------------------------- *)
Lemma render_nil d : render d [] = []. Proof. reflexivity. Qed.

Lemma step_hello_active b c cn : find_conn (b_conns b) c = Some cn -> c_active cn = true -> step b (EvHello c) = (b, [(c, MError EFailed)]).
Proof. intros Hf Ha. unfold step. rewrite Hf, Ha. reflexivity. Qed.

Lemma step_unknown b e c : event_conn e = Some c -> find_conn (b_conns b) c = None -> step b e = (b, [(c, MFault)]).
Proof.
  intros He Hf. destruct e; simpl in He; inversion He; subst; unfold step; rewrite Hf; reflexivity.
Qed.

Lemma dspec_unknown v rules s e c ord : event_conn e = Some c -> sfind (s_conns s) c = None -> dspec_step v rules s e ord = (s, [(c, MFault)]).
Proof.
  intros He Hf. destruct e; simpl in He; inversion He; subst; unfold dspec_step, spec_step; rewrite Hf; reflexivity.
Qed.

Lemma sfind_R b s c : R b s -> sfind (s_conns s) c = option_map abs_conn (find_conn (b_conns b) c).
Proof. intros Rr. rewrite (R_conns b s Rr). apply sfind_abs. Qed.

Ltac finish6 :=
  split; [try reflexivity | split; [try assumption | split; [try assumption | split; [reflexivity | split; [lia | try exact I; try reflexivity]]]]].

Theorem dstep_sim d s e :
  dinv d -> R (d_bus d) s -> rules_wf (d_rules d) = true -> d_minor d <= INT_MAX ->
  let (d', o) := dstep d (DReg e) in
  let (s', o') := dspec_step as_implemented (d_rules d) s e (advice (d_bus d) e) in
  o = render d' o' /\ dinv d' /\ R (d_bus d') s' /\ d_rules d' = d_rules d /\ d_minor d' <= d_minor d + 1 /\
  (match e with EvHello _ => True | _ => d_minor d' = d_minor d end).
Proof.
  intros I Rr Hwf Hmax. assert (Ib := di_inv d I).
  assert (Hsim := step_sim (d_bus d) s e Ib Rr). destruct Hsim as [_ Hsim].
  (* events handled by "registry step, then render" *)
  assert (Hplain : (match e with EvConnect | EvHello _ => False | _ => True end) ->
     dspec_step as_implemented (d_rules d) s e (advice (d_bus d) e) = spec_step as_implemented s e (advice (d_bus d) e) ->
     let (b', o) := step (d_bus d) e in
     let (s', o') := dspec_step as_implemented (d_rules d) s e (advice (d_bus d) e) in
     render (with_bus d b') o = render (with_bus d b') o' /\ dinv (with_bus d b') /\ R b' s' /\ d_rules d = d_rules d /\ d_minor d <= d_minor d + 1 /\ d_minor d = d_minor d).
  { intros He Hd. assert (Hc := spec_step_conns as_implemented s e (advice (d_bus d) e) He). rewrite Hd.
    destruct (step (d_bus d) e) as [b' o]. destruct (spec_step as_implemented s e (advice (d_bus d) e)) as [s' o'].
    destruct Hsim as [-> [I' R']]. cbn [fst] in Hc. destruct Hc as [Hn Hc].
    destruct (conns_via_R _ _ _ _ Rr R' Hn Hc) as [Hn' Hc'].
    finish6. apply dinv_same_names; assumption. }
  destruct e as [|c|c|c name flags|c name|c].
  - (* Connect *)
    cbn [dstep dspec_step]. simpl in Hsim. simpl. destruct Hsim as [_ [I' R']]. finish6.
    constructor; simpl.
    + exact I'.
    + apply (di_ids d I).
    + apply (di_minors d I).
    + apply (di_lt d I).
    + intros c m H. assert (Hk := di_known d I c m H). lia.
    + intros x Hx Ha. apply in_app_iff in Hx. destruct Hx as [Hx|[<-|[]]]; [apply (di_active d I x Hx Ha) | discriminate].
    + intros x Hx Ha. apply in_app_iff in Hx. destruct Hx as [Hx|[<-|[]]]; [apply (di_inactive d I x Hx Ha)|].
      simpl. apply assoc_none. intros Hin. apply in_map_iff in Hin. destruct Hin as [[c m] [E Hin]]. simpl in E. subst c.
      assert (Hk := di_known d I _ m Hin). lia.
  - (* Hello *)
    cbn [dstep]. unfold dspec_step.
    destruct (find_conn (b_conns (d_bus d)) c) as [cn|] eqn:Ef.
    2: { unfold spec_step. rewrite (sfind_R _ _ c Rr), Ef. simpl. finish6. }
    destruct (find_conn_in _ _ _ Ef) as [Hin Hid]. subst c. set (c := c_id cn) in *.
    destruct (c_active cn) eqn:Ea.
    { rewrite (step_hello_active _ _ _ Ef Ea) in *. destruct (spec_step as_implemented s (EvHello c) (advice (d_bus d) (EvHello c))) as [s' o'].
      destruct Hsim as [<- [_ R']]. cbn [snd]. finish6. }
    assert (Hm : (INT_MAX <? d_minor d) = false) by (apply N.ltb_ge; exact Hmax). rewrite Hm, (next_name_free d I).
    destruct (step (d_bus d) (EvHello c)) as [b' o] eqn:Es.
    destruct (spec_step as_implemented s (EvHello c) (advice (d_bus d) (EvHello c))) as [s' o'] eqn:Esp.
    destruct Hsim as [<- [I' R']]. split; [reflexivity|].
    (* the connection table after a successful Hello, read off the specification *)
    assert (Hsp : s_next s' = s_next s /\ forall y, In y (s_conns s') -> exists x, In x (s_conns s) /\ sc_id y = sc_id x /\ (sc_active y = sc_active x \/ sc_id y = c)).
    { revert Esp. unfold spec_step. rewrite (sfind_R _ _ c Rr), Ef. cbn [option_map]. change (sc_active (abs_conn cn)) with (c_active cn). rewrite Ea.
      destruct (sget (s_names s) (KU c)).
      - intros Esp. injection Esp as Hs' Ho'. rewrite <- Hs'. cbn [s_next s_conns with_names]. split; [reflexivity|]. intros y Hy. unfold smap in Hy. apply in_map_iff in Hy.
        destruct Hy as [x [E Hx]]. exists x. split; [exact Hx|]. destruct (sc_id x =? c) eqn:Ec; subst y; simpl; [apply N.eqb_eq in Ec; auto | auto].
      - intros Esp. injection Esp as Hs' Ho'. rewrite <- Hs'. split; [reflexivity|]. intros y Hy. eauto. }
    destruct Hsp as [Hn Hc].
    assert (Hn' : b_next b' = b_next (d_bus d)) by (rewrite <- (R_next b' s' R'), <- (R_next _ s Rr); exact Hn).
    assert (Hc' : forall x', In x' (b_conns b') -> exists x, In x (b_conns (d_bus d)) /\ c_id x' = c_id x /\ (c_active x' = c_active x \/ c_id x' = c)).
    { intros x' Hx'. assert (Hy : In (abs_conn x') (s_conns s')) by (rewrite (R_conns b' s' R'); apply in_map; exact Hx').
      destruct (Hc _ Hy) as [y [Hy' [E1 E2]]]. rewrite (R_conns _ s Rr) in Hy'. apply in_map_iff in Hy'. destruct Hy' as [x [<- Hx]]. exists x. auto. }
    assert (Hcn : assoc c (d_unique d) = None) by (apply (di_inactive d I cn Hin Ea)).
    split; [|split; [exact R'|split; [reflexivity|split; [cbn [d_minor]; lia | exact Logic.I]]]].
    constructor; cbn [d_bus d_rules d_minor d_unique].
    + exact I'.
    + rewrite map_app. simpl. apply nodup_app_new; [apply (di_ids d I) | apply assoc_none; exact Hcn].
    + rewrite map_app. simpl. apply nodup_app_new; [apply (di_minors d I)|]. intros H. apply in_map_iff in H. destruct H as [[c0 m0] [E H]].
      simpl in E. subst m0. assert (Hl := di_lt d I c0 _ H). lia.
    + intros c0 m0 H. apply in_app_iff in H. destruct H as [H|[H|[]]]; [assert (Hl := di_lt d I c0 m0 H); lia | inversion H; lia].
    + intros c0 m0 H. rewrite Hn'. apply in_app_iff in H. destruct H as [H|[H|[]]]; [apply (di_known d I c0 m0 H)|]. inversion H. subst.
      apply (inv_next _ Ib cn Hin).
    + intros x' Hx' Ha. destruct (Hc' x' Hx') as [x [Hx [E1 E2]]]. rewrite assoc_app.
      destruct E2 as [E2|E2].
      * assert (Hax : assoc (c_id x) (d_unique d) <> None) by (apply (di_active d I x Hx); congruence). rewrite E1. destruct (assoc (c_id x) (d_unique d)); [discriminate | congruence].
      * rewrite E2. rewrite Hcn. simpl. rewrite N.eqb_refl. discriminate.
    + intros x' Hx' Ha. destruct (Hc' x' Hx') as [x [Hx [E1 E2]]]. rewrite assoc_app.
      destruct (N.eqb_spec (c_id x') c) as [Ec|Ec].
      * (* c itself is registered now *)
        exfalso. assert (Hact : c_active x' = true).
        { (* the Hello succeeded: its reply is the name, so c is registered; read it off inv_active / owned *)
          assert (Hq : queued c (mget (b_services b') (KU c)) = true).
          { revert Es. unfold step. rewrite Ef, Ea.
            destruct (lookup (b_services (d_bus d)) (KU c)) as [q|] eqn:El.
            - exfalso. assert (Hq0 := inv_unique _ Ib c q El). subst q.
              assert (Hqq : queued (c_id cn) (mget (b_services (d_bus d)) (KU c)) = true) by (unfold mget; rewrite El; simpl; unfold is; simpl; rewrite N.eqb_refl; reflexivity).
              rewrite (member_active _ (KU c) cn Ib Hin Hqq) in Ea. discriminate.
            - rewrite add_owner_empty. intros Es. inversion Es. subst b'. cbn [b_services with_services]. unfold mget. rewrite lookup_app_new, El, key_eqb_refl.
              simpl. unfold is. simpl. rewrite N.eqb_refl. reflexivity. }
          rewrite <- Ec in Hq. apply (member_active b' (KU (c_id x')) x' I' Hx' Hq). }
        congruence.
      * destruct E2 as [E2|E2]; [|contradiction]. rewrite E1. rewrite (di_inactive d I x Hx) by congruence. simpl.
        rewrite <- E1. destruct (c =? c_id x') eqn:E3; [apply N.eqb_eq in E3; congruence | reflexivity].
  - (* AddMatch *)
    cbn [dstep]. specialize (Hplain Logic.I eq_refl). destruct (step (d_bus d) (EvAddMatch c)) as [b' o].
    destruct (dspec_step as_implemented (d_rules d) s (EvAddMatch c) (advice (d_bus d) (EvAddMatch c))) as [s' o']. exact Hplain.
  - (* RequestName: the own-policy gate *)
    cbn [dstep]. destruct (find_conn (b_conns (d_bus d)) c) as [cn|] eqn:Ef.
    2: { rewrite (dspec_unknown as_implemented (d_rules d) s (EvRequest c name flags) c _ eq_refl) by (rewrite (sfind_R _ _ c Rr), Ef; reflexivity). simpl. finish6. }
    assert (Hgate : dspec_step as_implemented (d_rules d) s (EvRequest c name flags) (advice (d_bus d) (EvRequest c name flags)) =
                    if c_active cn && negb (name_refused name) && negb (spec_can_own (d_rules d) name)
                    then (s, [(c, MError EAccessDenied)])
                    else spec_step as_implemented s (EvRequest c name flags) (advice (d_bus d) (EvRequest c name flags))).
    { unfold dspec_step. rewrite (sfind_R _ _ c Rr), Ef. cbn [option_map]. change (sc_active (abs_conn cn)) with (c_active cn).
      rewrite name_refused_spec, negb_involutive. reflexivity. }
    destruct (c_active cn && negb (name_refused name)) eqn:Eg.
    + rewrite (gate_decision _ name Hwf). destruct (spec_can_own (d_rules d) name) eqn:Eo.
      * assert (Hd : dspec_step as_implemented (d_rules d) s (EvRequest c name flags) (advice (d_bus d) (EvRequest c name flags)) =
                     spec_step as_implemented s (EvRequest c name flags) (advice (d_bus d) (EvRequest c name flags))) by (rewrite Hgate; reflexivity).
        specialize (Hplain Logic.I Hd). destruct (step (d_bus d) (EvRequest c name flags)) as [b' o].
        destruct (dspec_step as_implemented (d_rules d) s (EvRequest c name flags) (advice (d_bus d) (EvRequest c name flags))) as [s' o']. exact Hplain.
      * rewrite Hgate. cbn [negb andb]. simpl. finish6.
    + assert (Hd : dspec_step as_implemented (d_rules d) s (EvRequest c name flags) (advice (d_bus d) (EvRequest c name flags)) =
                   spec_step as_implemented s (EvRequest c name flags) (advice (d_bus d) (EvRequest c name flags))) by (rewrite Hgate; reflexivity).
      specialize (Hplain Logic.I Hd). destruct (step (d_bus d) (EvRequest c name flags)) as [b' o].
      destruct (dspec_step as_implemented (d_rules d) s (EvRequest c name flags) (advice (d_bus d) (EvRequest c name flags))) as [s' o']. exact Hplain.
  - (* ReleaseName *)
    cbn [dstep]. specialize (Hplain Logic.I eq_refl). destruct (step (d_bus d) (EvRelease c name)) as [b' o].
    destruct (dspec_step as_implemented (d_rules d) s (EvRelease c name) (advice (d_bus d) (EvRelease c name))) as [s' o']. exact Hplain.
  - (* Disconnect *)
    cbn [dstep]. specialize (Hplain Logic.I eq_refl). destruct (step (d_bus d) (EvDisconnect c)) as [b' o].
    destruct (dspec_step as_implemented (d_rules d) s (EvDisconnect c) (advice (d_bus d) (EvDisconnect c))) as [s' o']. exact Hplain.
Qed.

(* ---- ReloadConfig and the query methods leave the registry alone ------------------------------------------ *)
Lemma inv_limit b limit : inv b -> inv (mkBus (b_conns b) (b_services b) (b_next b) limit).
Proof.
  intros I. constructor; simpl.
  - apply (inv_keys b I).
  - apply (inv_q b I).
  - apply (inv_ids b I).
  - apply (inv_next b I).
  - apply (inv_owned b I).
  - apply (inv_members b I).
  - apply (inv_unique b I).
  - apply (inv_active b I).
  - apply (inv_reserved b I).
Qed.

Lemma R_limit_change b s limit : R b s -> R (mkBus (b_conns b) (b_services b) (b_next b) limit) (spec_reload s limit).
Proof.
  intros Rr. constructor; simpl.
  - apply (R_conns b s Rr).
  - apply (R_names b s Rr).
  - apply (R_next b s Rr).
  - reflexivity.
  - apply (R_skeys b s Rr).
Qed.

Theorem reload_sim d s c rules limit :
  dinv d -> R (d_bus d) s ->
  let (d', o) := dstep d (DReload c rules limit) in
  (d' = d \/ (d_rules d' = rules /\ b_limit (d_bus d') = limit /\ o = [(c, WAck)])) /\
  b_conns (d_bus d') = b_conns (d_bus d) /\ b_services (d_bus d') = b_services (d_bus d) /\
  d_unique d' = d_unique d /\ d_minor d' = d_minor d /\
  dinv d' /\ exists s', R (d_bus d') s'.
Proof.
  intros I Rr. cbn [dstep].
  assert (Hsame : (d = d \/ (d_rules d = rules /\ b_limit (d_bus d) = limit /\ [(c, WErr WAccessDenied)] = [(c, WAck)])) /\
                  b_conns (d_bus d) = b_conns (d_bus d) /\ b_services (d_bus d) = b_services (d_bus d) /\
                  d_unique d = d_unique d /\ d_minor d = d_minor d /\ dinv d /\ exists s', R (d_bus d) s').
  { split; [left; reflexivity|]. do 4 (split; [reflexivity|]). split; [exact I | eauto]. }
  destruct (find_conn (b_conns (d_bus d)) c) as [cn|].
  2: { cbn [dfault]. destruct Hsame as [_ H]. split; [left; reflexivity | exact H]. }
  destruct (c_active cn).
  2: { destruct Hsame as [_ H]. split; [left; reflexivity | exact H]. }
  cbn [d_bus d_rules d_unique d_minor b_conns b_services b_limit]. split; [right; auto|]. do 4 (split; [reflexivity|]). split.
  - constructor; cbn [d_bus d_rules d_unique d_minor b_conns b_next].
    + apply inv_limit. apply (di_inv d I).
    + apply (di_ids d I).
    + apply (di_minors d I).
    + apply (di_lt d I).
    + apply (di_known d I).
    + apply (di_active d I).
    + apply (di_inactive d I).
  - exists (spec_reload s limit). apply R_limit_change. exact Rr.
Qed.

Lemma query_state d c a : fst (query d c a) = d.
Proof. unfold query. destruct (find_conn (b_conns (d_bus d)) c) as [cn|]; [destruct (c_active cn)|]; reflexivity. Qed.

Definition is_query (e : devent) : bool :=
  match e with DGetNameOwner _ _ | DNameHasOwner _ _ | DListQueuedOwners _ _ | DListNames _ => true | _ => false end.

Theorem queries_change_nothing d e : is_query e = true -> fst (dstep d e) = d.
Proof. destruct e; try discriminate; intros _; cbn [dstep]; apply query_state. Qed.

(* ---- every driver history ------------------------------------------------------------------------------------ *)
Definition wf_event (e : devent) : bool := match e with DReload _ rules _ => rules_wf rules | _ => true end.

Theorem dreach : forall h d s,
  dinv d -> R (d_bus d) s -> rules_wf (d_rules d) = true -> forallb wf_event h = true ->
  d_minor d + N.of_nat (length h) <= INT_MAX + 1 ->
  dinv (fst (drun d h)) /\ (exists s', R (d_bus (fst (drun d h))) s') /\ rules_wf (d_rules (fst (drun d h))) = true /\
  d_minor (fst (drun d h)) <= d_minor d + N.of_nat (length h).
Proof.
  induction h as [|e r IH]; intros d s I Rr Hwf Hh Hb.
  - simpl. split; [exact I|]. split; [eauto|]. split; [exact Hwf | lia].
  - cbn [forallb] in Hh. apply andb_true_iff in Hh. destruct Hh as [He Hr].
    assert (Hlen : N.of_nat (length (e :: r)) = N.of_nat (length r) + 1) by (simpl length; lia).
    assert (Hstep : exists s1, dinv (fst (dstep d e)) /\ R (d_bus (fst (dstep d e))) s1 /\ rules_wf (d_rules (fst (dstep d e))) = true /\
                               d_minor (fst (dstep d e)) <= d_minor d + 1).
    { destruct e as [e0|c0 s0|c0 s0|c0 s0|c0|c0 rules limit].
      - assert (Hs := dstep_sim d s e0 I Rr Hwf). destruct (dstep d (DReg e0)) as [d1 o].
        destruct (dspec_step as_implemented (d_rules d) s e0 (advice (d_bus d) e0)) as [s1 o1].
        destruct Hs as [_ [I1 [R1 [E1 [M1 _]]]]]; [lia|]. exists s1. cbn [fst]. rewrite E1. split; [exact I1|]. split; [exact R1|]. split; [exact Hwf | exact M1].
      - exists s. rewrite queries_change_nothing by reflexivity. split; [exact I|]. split; [exact Rr|]. split; [exact Hwf | lia].
      - exists s. rewrite queries_change_nothing by reflexivity. split; [exact I|]. split; [exact Rr|]. split; [exact Hwf | lia].
      - exists s. rewrite queries_change_nothing by reflexivity. split; [exact I|]. split; [exact Rr|]. split; [exact Hwf | lia].
      - exists s. rewrite queries_change_nothing by reflexivity. split; [exact I|]. split; [exact Rr|]. split; [exact Hwf | lia].
      - assert (Hs := reload_sim d s c0 rules limit I Rr). destruct (dstep d (DReload c0 rules limit)) as [d1 o].
        destruct Hs as [Hcase [_ [_ [_ [Hm [I1 [s1 R1]]]]]]]. exists s1. cbn [fst]. split; [exact I1|]. split; [exact R1|]. split; [|lia].
        destruct Hcase as [->|[-> _]]; [exact Hwf | exact He]. }
    destruct Hstep as [s1 [I1 [R1 [W1 M1]]]].
    cbn [drun]. destruct (dstep d e) as [d1 o] eqn:Ed. cbn [fst] in *.
    destruct (IH d1 s1 I1 R1 W1 Hr) as [I2 [R2 [W2 M2]]]; [lia|].
    destruct (drun d1 r) as [d2 os]. cbn [fst] in *. split; [exact I2|]. split; [exact R2|]. split; [exact W2 | lia].
Qed.

Lemma dinit_inv rules limit : dinv (dinit rules limit).
Proof.
  constructor; simpl.
  - apply init_inv.
  - constructor.
  - constructor.
  - intros c m [].
  - intros c m [].
  - intros cn [].
  - intros cn [].
Qed.

(* histories of fewer than 2^31 events whose ReloadConfig rules are as the configuration parser builds them *)
Definition admissible (rules : list prule) (h : list devent) : Prop :=
  rules_wf rules = true /\ forallb wf_event h = true /\ N.of_nat (length h) <= INT_MAX.

Theorem dreachable rules limit h : admissible rules h ->
  let d := fst (drun (dinit rules limit) h) in
  dinv d /\ (exists s, R (d_bus d) s) /\ rules_wf (d_rules d) = true /\ d_minor d <= INT_MAX.
Proof.
  intros [Hw [Hh Hl]]. cbn zeta.
  destruct (dreach h (dinit rules limit) (sinit limit) (dinit_inv rules limit) (init_R limit) Hw Hh) as [A [B [C D]]]; [cbn [dinit d_minor]; lia|].
  cbn [dinit d_minor] in D. split; [exact A|]. split; [exact B|]. split; [exact C | lia].
Qed.

(* ---- the own-policy gate ----------------------------------------------------------------------------------------- *)
Theorem policy_refusal d c cn name flags :
  find_conn (b_conns (d_bus d)) c = Some cn -> c_active cn = true -> requestable name = true ->
  check_can_own (d_rules d) name = Some false ->
  dstep d (DReg (EvRequest c name flags)) = (d, [(c, WErr WAccessDenied)]).
Proof.
  intros Hf Ha Hr Hc. cbn [dstep]. rewrite Hf, Ha, name_refused_spec, Hr, Hc. reflexivity.
Qed.

Theorem policy_allows d c cn name flags :
  find_conn (b_conns (d_bus d)) c = Some cn -> check_can_own (d_rules d) name = Some true ->
  dstep d (DReg (EvRequest c name flags)) =
  (with_bus d (fst (step (d_bus d) (EvRequest c name flags))),
   render (with_bus d (fst (step (d_bus d) (EvRequest c name flags)))) (snd (step (d_bus d) (EvRequest c name flags)))).
Proof.
  intros Hf Hc. cbn [dstep]. rewrite Hf, Hc. destruct (c_active cn && negb (name_refused name)); destruct (step (d_bus d) (EvRequest c name flags)); reflexivity.
Qed.

(* a request that is answered with an error -- for whatever reason: not registered, syntax, reserved name,
   policy, limit -- changes nothing and sends nothing but that error *)
Lemma render_err d m e : render_msg d m = WErr e -> exists e', m = MError e'.
Proof.
  destruct m; simpl; try discriminate; eauto.
  - destruct (uname_of d c); discriminate.
  - destruct (kstr d k); discriminate.
  - destruct (kstr d k); discriminate.
  - destruct (kstr d k), (ostr d old), (ostr d new); discriminate.
Qed.

Lemma step_request_shape b e c :
  (exists name flags, e = EvRequest c name flags) \/ (exists name, e = EvRelease c name) ->
  (fst (step b e) = b /\ exists m, snd (step b e) = [(c, m)] /\ (forall code, m <> MReply code)) \/
  (exists pre code, snd (step b e) = pre ++ [(c, MReply code)]).
Proof.
  intros [[name [flags ->]]|[name ->]]; unfold step.
  - destruct (find_conn (b_conns b) c) as [cn|]; [|left; simpl; split; [reflexivity | eexists; split; [reflexivity | discriminate]]].
    destruct (negb (c_active cn)); [left; simpl; split; [reflexivity | eexists; split; [reflexivity | discriminate]]|].
    destruct (acquire_service b cn name flags) as [e|cs ss code es|].
    + left. simpl. split; [reflexivity | eexists; split; [reflexivity | discriminate]].
    + right. simpl. unfold deliver. rewrite flat_map_app. simpl. eauto.
    + left. simpl. split; [reflexivity | eexists; split; [reflexivity | discriminate]].
  - destruct (find_conn (b_conns b) c) as [cn|]; [|left; simpl; split; [reflexivity | eexists; split; [reflexivity | discriminate]]].
    destruct (negb (c_active cn)); [left; simpl; split; [reflexivity | eexists; split; [reflexivity | discriminate]]|].
    destruct (release_service b cn name) as [e|cs ss code es|].
    + left. simpl. split; [reflexivity | eexists; split; [reflexivity | discriminate]].
    + right. simpl. unfold deliver. rewrite flat_map_app. simpl. eauto.
    + left. simpl. split; [reflexivity | eexists; split; [reflexivity | discriminate]].
Qed.

Lemma spec_request_shape v s e ord c :
  (exists name flags, e = EvRequest c name flags) \/ (exists name, e = EvRelease c name) ->
  (exists m, snd (spec_step v s e ord) = [(c, m)]) \/
  (forall x, In x (snd (spec_step v s e ord)) -> forall er, snd x <> MError er).
Proof.
  assert (Hsig : forall k a b0 code x, In x (sdeliver (s_conns s) (ownership_signals k a b0 ++ [EUni c (MReply code)])) -> forall er, snd x <> MError er).
  { intros k a b0 code x Hx er. rewrite sdeliver_app in Hx. apply in_app_iff in Hx. destruct Hx as [Hx|Hx].
    - apply (sdeliver_no_reply (s_conns s) _ (signals_not_replies _ _ _)) in Hx. intros E. rewrite E in Hx. discriminate.
    - destruct Hx as [<-|[]]. discriminate. }
  intros [[name [flags ->]]|[name ->]]; unfold spec_step.
  - destruct (sfind (s_conns s) c) as [x|]; [|left; eexists; reflexivity].
    destruct (negb (sc_active x)); [left; eexists; reflexivity|].
    destruct (negb (requestable name)); [left; eexists; reflexivity|].
    match goal with |- context [if ?b then _ else _] => destruct b end; [left; eexists; reflexivity|].
    right. apply Hsig.
  - destruct (sfind (s_conns s) c) as [x|]; [|left; eexists; reflexivity].
    destruct (negb (sc_active x)); [left; eexists; reflexivity|].
    destruct (negb (requestable name)); [left; eexists; reflexivity|].
    destruct (sget (s_names s) (KW name)); [left; eexists; reflexivity|].
    destruct (negb (queued c (o :: q))); [left; eexists; reflexivity|].
    right. apply Hsig.
Qed.

Theorem error_changes_nothing_registry b s e c er :
  inv b -> R b s ->
  (exists name flags, e = EvRequest c name flags) \/ (exists name, e = EvRelease c name) ->
  In (c, MError er) (snd (step b e)) -> fst (step b e) = b /\ snd (step b e) = [(c, MError er)].
Proof.
  intros I Rr He Hin. destruct (step_sim b s e I Rr) as [_ Hs].
  destruct (step_request_shape b e c He) as [[Hb [m [Ho Hm]]]|[pre [code Ho]]].
  - rewrite Ho in Hin. destruct Hin as [Hin|[]]. inversion Hin. subst m. split; [exact Hb | exact Ho].
  - exfalso. destruct (step b e) as [b' o]. destruct (spec_step as_implemented s e (advice b e)) as [s' o'] eqn:Es.
    destruct Hs as [Eo _]. cbn [snd] in *. subst o'.
    destruct (spec_request_shape as_implemented s e (advice b e) c He) as [[m Hm1]|Hno]; rewrite Es in *; cbn [snd] in *.
    + rewrite Hm1 in Hin. destruct Hin as [Hin|[]]. inversion Hin. subst m.
      rewrite Ho in Hm1. destruct pre as [|p pre]; simpl in Hm1; [inversion Hm1 | inversion Hm1; destruct pre; discriminate].
    + apply (Hno _ Hin er). reflexivity.
Qed.

Lemma with_bus_same d : with_bus d (d_bus d) = d.
Proof. destruct d; reflexivity. Qed.

Lemma in_render d o c w : In (c, w) (render d o) -> exists m, In (c, m) o /\ render_msg d m = w.
Proof.
  unfold render. intros H. apply in_map_iff in H. destruct H as [[c0 m] [E H]]. simpl in E. inversion E. subst. eauto.
Qed.

Theorem error_changes_nothing d s e c er :
  dinv d -> R (d_bus d) s -> rules_wf (d_rules d) = true ->
  (exists name flags, e = EvRequest c name flags) \/ (exists name, e = EvRelease c name) ->
  In (c, WErr er) (snd (dstep d (DReg e))) -> dstep d (DReg e) = (d, [(c, WErr er)]).
Proof.
  intros I Rr Hwf He Hin. assert (Ib := di_inv d I).
  assert (Hplain : In (c, WErr er) (snd (let (b', o) := step (d_bus d) e in let d' := with_bus d b' in (d', render d' o))) ->
                   (let (b', o) := step (d_bus d) e in let d' := with_bus d b' in (d', render d' o)) = (d, [(c, WErr er)])).
  { intros H. destruct (step (d_bus d) e) as [b' o] eqn:Es. cbn zeta in *. cbn [snd] in H.
    destruct (in_render _ _ _ _ H) as [m [Hm Hr]]. destruct (render_err _ _ _ Hr) as [e' ->].
    assert (Hs : In (c, MError e') (snd (step (d_bus d) e))) by (rewrite Es; exact Hm).
    destruct (error_changes_nothing_registry _ s e c e' Ib Rr He Hs) as [Hb Ho]. rewrite Es in Hb, Ho. cbn [fst snd] in *. subst b' o.
    rewrite with_bus_same. simpl in Hr. simpl. inversion Hr. reflexivity. }
  destruct He as [[name [flags ->]]|[name ->]].
  - cbn [dstep] in *. destruct (find_conn (b_conns (d_bus d)) c) as [cn|].
    + destruct (c_active cn && negb (name_refused name)).
      * rewrite (gate_decision _ name Hwf) in *. destruct (spec_can_own (d_rules d) name).
        -- apply Hplain. exact Hin.
        -- cbn [snd] in Hin. destruct Hin as [Hin|[]]. inversion Hin. reflexivity.
      * apply Hplain. exact Hin.
    + cbn [dfault snd] in Hin. destruct Hin as [Hin|[]]. discriminate.
  - cbn [dstep] in *. apply Hplain. exact Hin.
Qed.

(* ---- the query methods, by string ------------------------------------------------------------------------------ *)
(* what the string-keyed table says *)
Definition owner_answer (d : dbus) (s : bytes) : wmsg :=
  if bytes_eqb s DBUS_SERVICE_DBUS_str then WStr DBUS_SERVICE_DBUS_str
  else match slookup d s with
       | Some (_, p :: _) => match uname_of d (o_conn p) with Some u => WStr u | None => WErr WFailed end
       | _ => WErr WNameHasNoOwner
       end.

Definition has_owner_answer (d : dbus) (s : bytes) : wmsg :=
  WBool (bytes_eqb s DBUS_SERVICE_DBUS_str || match slookup d s with Some _ => true | None => false end).

Definition queued_answer (d : dbus) (s : bytes) : wmsg :=
  if bytes_eqb s DBUS_SERVICE_DBUS_str then WList [DBUS_SERVICE_DBUS_str]
  else match slookup d s with
       | Some (_, q) => match all_some (map (fun o => uname_of d (o_conn o)) q) with Some us => WList us | None => WFault end
       | None => WErr WNameHasNoOwner
       end.

Lemma ustr_not_bus m : bytes_eqb (ustr m) DBUS_SERVICE_DBUS_str = false.
Proof. reflexivity. Qed.

Lemma resolve_bus d s : bytes_eqb s DBUS_SERVICE_DBUS_str = true -> resolve d s = QS s.
Proof.
  intros H. apply resolve_other. intros c m _ E. rewrite <- E, ustr_not_bus in H. discriminate.
Qed.

Lemma is_bus_name_resolve d s : is_bus_name (resolve d s) = bytes_eqb s DBUS_SERVICE_DBUS_str.
Proof.
  destruct (resolve_cases d s) as [[c [m [_ [Hs Hr]]]]|[_ Hr]]; rewrite Hr; simpl; [|reflexivity].
  rewrite <- Hs, ustr_not_bus. reflexivity.
Qed.

Lemma bus_key_absent d s : dinv d -> bytes_eqb s DBUS_SERVICE_DBUS_str = true -> lookup (b_services (d_bus d)) (qkey (resolve d s)) = None.
Proof.
  intros I H. rewrite (resolve_bus d s H). simpl. apply bytes_eqb_eq in H. subst s. rewrite bus_name_str_eq. apply bus_name_absent. apply (di_inv d I).
Qed.

Theorem get_name_owner_by_string d c cn s :
  dinv d -> find_conn (b_conns (d_bus d)) c = Some cn -> c_active cn = true ->
  dstep d (DGetNameOwner c s) = (d, [(c, owner_answer d s)]).
Proof.
  intros I Hf Ha. cbn [dstep]. unfold query. rewrite Hf, Ha. do 3 f_equal.
  unfold owner_answer, get_name_owner. rewrite is_bus_name_resolve, <- (string_lookup_is_key_lookup d s I).
  destruct (bytes_eqb s DBUS_SERVICE_DBUS_str) eqn:Eb.
  - assert (Hn := bus_key_absent d s I Eb). rewrite <- (string_lookup_is_key_lookup d s I) in Hn.
    destruct (slookup d s) as [[k q]|]; [discriminate|]. reflexivity.
  - destruct (slookup d s) as [[k q]|]; simpl; [|reflexivity]. destruct q as [|p w]; reflexivity.
Qed.

Theorem name_has_owner_by_string d c cn s :
  dinv d -> find_conn (b_conns (d_bus d)) c = Some cn -> c_active cn = true ->
  dstep d (DNameHasOwner c s) = (d, [(c, has_owner_answer d s)]).
Proof.
  intros I Hf Ha. cbn [dstep]. unfold query. rewrite Hf, Ha. do 3 f_equal.
  unfold has_owner_answer, name_has_owner. rewrite is_bus_name_resolve, <- (string_lookup_is_key_lookup d s I).
  destruct (bytes_eqb s DBUS_SERVICE_DBUS_str); [reflexivity|]. destruct (slookup d s) as [[k q]|]; reflexivity.
Qed.

Theorem list_queued_owners_by_string d c cn s :
  dinv d -> find_conn (b_conns (d_bus d)) c = Some cn -> c_active cn = true ->
  dstep d (DListQueuedOwners c s) = (d, [(c, queued_answer d s)]).
Proof.
  intros I Hf Ha. cbn [dstep]. unfold query. rewrite Hf, Ha. do 3 f_equal.
  unfold queued_answer, list_queued_owners. rewrite is_bus_name_resolve, <- (string_lookup_is_key_lookup d s I).
  destruct (bytes_eqb s DBUS_SERVICE_DBUS_str) eqn:Eb.
  - assert (Hn := bus_key_absent d s I Eb). rewrite <- (string_lookup_is_key_lookup d s I) in Hn.
    destruct (slookup d s) as [[k q]|]; [discriminate|]. reflexivity.
  - destruct (slookup d s) as [[k q]|]; simpl; [|reflexivity]. rewrite map_map. reflexivity.
Qed.

(* bus_connection_get_name is never NULL for a queue member: "Could not determine unique name" (the FIXME in
   bus_driver_handle_get_service_owner) cannot happen, and ListQueuedOwners can always be rendered *)
Lemma slookup_present d s k q : slookup d s = Some (k, q) -> In (k, q) (b_services (d_bus d)) /\ kstr d k = Some s.
Proof.
  unfold slookup. intros H. apply find_some in H. destruct H as [Hin Hb]. simpl in Hb. split; [exact Hin|].
  destruct (kstr d k) as [t|]; [|discriminate]. apply bytes_eqb_eq in Hb. congruence.
Qed.

Theorem queue_members_named d s k q o : dinv d -> slookup d s = Some (k, q) -> In o q -> uname_of d (o_conn o) <> None.
Proof.
  intros I Hs Ho. destruct (slookup_present d s k q Hs) as [Hin _].
  assert (Hl := in_lookup _ _ _ (inv_keys _ (di_inv d I)) Hin).
  destruct (member_named d k (o_conn o) I) as [m Hm].
  - unfold mget. rewrite Hl. apply queued_in. apply in_map. exact Ho.
  - unfold uname_of. rewrite Hm. discriminate.
Qed.

Theorem owner_answer_never_failed d s : dinv d -> owner_answer d s <> WErr WFailed.
Proof.
  intros I. unfold owner_answer. destruct (bytes_eqb s DBUS_SERVICE_DBUS_str); [discriminate|].
  destruct (slookup d s) as [[k q]|] eqn:E; [|discriminate]. destruct q as [|p w]; [discriminate|].
  assert (H := queue_members_named d s k (p :: w) p I E (or_introl eq_refl)). destruct (uname_of d (o_conn p)); [discriminate | congruence].
Qed.

Lemma all_some_total {A B} (f : A -> option B) l : (forall x, In x l -> f x <> None) -> exists r, all_some (map f l) = Some r /\ length r = length l.
Proof.
  induction l as [|x l IH]; intros H; simpl; [exists []; auto|].
  destruct (f x) as [y|] eqn:E; [|exfalso; apply (H x); simpl; auto]. destruct IH as [r [-> Hr]]; [intros z Hz; apply H; simpl; auto|].
  exists (y :: r). simpl. split; [reflexivity | f_equal; exact Hr].
Qed.

Theorem queued_answer_never_fault d s : dinv d -> queued_answer d s <> WFault.
Proof.
  intros I. unfold queued_answer. destruct (bytes_eqb s DBUS_SERVICE_DBUS_str); [discriminate|].
  destruct (slookup d s) as [[k q]|] eqn:E; [|discriminate].
  destruct (all_some_total (fun o => uname_of d (o_conn o)) q) as [r [-> _]]; [|discriminate].
  intros o Ho. apply (queue_members_named d s k q o I E Ho).
Qed.

(* ListNames: the bus's own name and the string of every name in the table, each exactly once *)
Theorem list_names_by_string d c cn :
  dinv d -> find_conn (b_conns (d_bus d)) c = Some cn -> c_active cn = true ->
  exists l, dstep d (DListNames c) = (d, [(c, WList l)]) /\ NoDup l /\
    forall t, In t l <-> t = DBUS_SERVICE_DBUS_str \/ exists k q, In (k, q) (b_services (d_bus d)) /\ kstr d k = Some t.
Proof.
  intros I Hf Ha. cbn [dstep]. unfold query. rewrite Hf, Ha. unfold list_names. cbn [map all_some].
  assert (Ib := di_inv d I). assert (NDk := inv_keys _ Ib).
  assert (Hall : exists r, all_some (map (fun k : option key => match k with Some k0 => kstr d k0 | None => Some DBUS_SERVICE_DBUS_str end)
                                        (map (fun kq : key * queue => Some (fst kq)) (b_services (d_bus d)))) = Some r /\
                           NoDup r /\ ~ In DBUS_SERVICE_DBUS_str r /\
                           forall t, In t r <-> exists k q, In (k, q) (b_services (d_bus d)) /\ kstr d k = Some t).
  { assert (Hpres : forall k q, In (k, q) (b_services (d_bus d)) -> lookup (b_services (d_bus d)) k = Some q) by (intros k q H; apply in_lookup; assumption).
    revert Hpres NDk. generalize (b_services (d_bus d)) at 1 3 4 5 as ss. induction ss as [|[k q] r IH]; intros Hpres ND.
    - exists []. simpl. repeat split; [constructor | tauto | intros [] | intros [k [q [[] _]]]].
    - inversion ND as [|? ? Hnk ND']. subst. destruct IH as [rs [Hrs [NDr [Hnb Hmem]]]]; [intros k0 q0 H; apply Hpres; simpl; auto | exact ND'|].
      cbn [map all_some fst]. destruct (present_key_named d k q I (Hpres k q (or_introl eq_refl))) as [t Ht]. rewrite Ht, Hrs.
      exists (t :: rs). split; [reflexivity|]. split; [|split].
      + constructor; [|exact NDr]. intros Hin. apply Hmem in Hin. destruct Hin as [k' [q' [Hin' Hk']]].
        assert (k = k') by (eapply (kstr_injective d k k' q q' t I); eauto; apply Hpres; simpl; auto). subst k'.
        apply Hnk. change k with (fst (k, q')). apply in_map. exact Hin'.
      + simpl. intros [E|H]; [|contradiction]. subst t.
        destruct k as [c0|s0]; simpl in Ht.
        * unfold uname_of in Ht. destruct (assoc c0 (d_unique d)) as [m|]; [|discriminate]. simpl in Ht. inversion Ht.
        * inversion Ht. subst s0. assert (Hr := inv_reserved _ Ib _ _ (Hpres _ _ (or_introl eq_refl))). rewrite bus_name_str_eq, bus_name_not_requestable in Hr. discriminate.
      + intros t0. simpl. rewrite Hmem. split.
        * intros [<-|[k' [q' [H1 H2]]]]; [exists k, q; auto | exists k', q'; auto].
        * intros [k' [q' [[E|H1] H2]]]; [inversion E; subst; left; congruence | right; eauto]. }
  destruct Hall as [r [-> [NDr [Hnb Hmem]]]]. exists (DBUS_SERVICE_DBUS_str :: r). split; [reflexivity|]. split.
  - constructor; assumption.
  - intros t. simpl. rewrite Hmem. split; [intros [<-|H]; auto | intros [->|H]; auto].
Qed.

(* ---- names are never forgotten, hence never handed out twice ------------------------------------------------------- *)
Theorem names_only_grow d e : exists ext, d_unique (fst (dstep d e)) = d_unique d ++ ext.
Proof.
  assert (Hsame : forall o : list wout, exists ext, d_unique (fst (d, o)) = d_unique d ++ ext) by (intros o; exists []; rewrite app_nil_r; reflexivity).
  assert (Hbus : forall e0, exists ext, d_unique (fst (let (b', o) := step (d_bus d) e0 in let d' := with_bus d b' in (d', render d' o))) = d_unique d ++ ext).
  { intros e0. destruct (step (d_bus d) e0). exists []. rewrite app_nil_r. reflexivity. }
  destruct e as [e0|c0 s0|c0 s0|c0 s0|c0|c0 rules limit]; cbn [dstep].
  - destruct e0 as [|c|c|c name flags|c name|c]; try apply Hbus.
    + destruct (find_conn (b_conns (d_bus d)) c) as [cn|]; [|apply Hsame]. destruct (c_active cn); [apply Hsame|].
      destruct (INT_MAX <? d_minor d); [apply Hsame|]. destruct (name_in_use d (ustr (d_minor d))); [apply Hsame|].
      destruct (step (d_bus d) (EvHello c)). simpl. eauto.
    + destruct (find_conn (b_conns (d_bus d)) c) as [cn|]; [|apply Hsame]. destruct (c_active cn && negb (name_refused name)); [|apply Hbus].
      destruct (check_can_own (d_rules d) name) as [[|]|]; [apply Hbus | apply Hsame | apply Hsame].
  - rewrite query_state. exists []. rewrite app_nil_r. reflexivity.
  - rewrite query_state. exists []. rewrite app_nil_r. reflexivity.
  - rewrite query_state. exists []. rewrite app_nil_r. reflexivity.
  - rewrite query_state. exists []. rewrite app_nil_r. reflexivity.
  - destruct (find_conn (b_conns (d_bus d)) c0) as [cn|]; [|apply Hsame]. destruct (c_active cn); [|apply Hsame]. exists []. rewrite app_nil_r. reflexivity.
Qed.

(* ---- the statements for reachable states, as used by Props/C04.v ------------------------------------------------------ *)
Definition dstate (rules : list prule) (limit : N) (h : list devent) : dbus := fst (drun (dinit rules limit) h).

Theorem unique_names_reachable rules limit h : admissible rules h ->
  forall c1 m1 c2 m2, In (c1, m1) (d_unique (dstate rules limit h)) -> In (c2, m2) (d_unique (dstate rules limit h)) ->
  ustr m1 = ustr m2 -> c1 = c2.
Proof. intros Ha c1 m1 c2 m2. destruct (dreachable rules limit h Ha) as [I _]. apply unique_names_distinct. exact I. Qed.

Theorem string_table_reachable rules limit h : admissible rules h ->
  let d := dstate rules limit h in
  (forall k1 k2 q1 q2 s, lookup (b_services (d_bus d)) k1 = Some q1 -> lookup (b_services (d_bus d)) k2 = Some q2 ->
                         kstr d k1 = Some s -> kstr d k2 = Some s -> k1 = k2) /\
  (forall k q, lookup (b_services (d_bus d)) k = Some q -> exists s, kstr d k = Some s) /\
  (forall s, option_map snd (slookup d s) = lookup (b_services (d_bus d)) (qkey (resolve d s))).
Proof.
  intros Ha. cbn zeta. destruct (dreachable rules limit h Ha) as [I _]. split; [|split].
  - intros k1 k2 q1 q2 s. apply kstr_injective. exact I.
  - intros k q. apply present_key_named. exact I.
  - intros s. apply string_lookup_is_key_lookup. exact I.
Qed.

Theorem driver_refines_reachable rules limit h e : admissible rules h ->
  let d := dstate rules limit h in
  forall s, R (d_bus d) s ->
  let (d', o) := dstep d (DReg e) in
  let (s', o') := dspec_step as_implemented (d_rules d) s e (advice (d_bus d) e) in
  o = render d' o' /\ R (d_bus d') s'.
Proof.
  intros Ha. cbn zeta. intros s Rr. destruct (dreachable rules limit h Ha) as [I [_ [W M]]].
  assert (H := dstep_sim (dstate rules limit h) s e I Rr W M).
  destruct (dstep (dstate rules limit h) (DReg e)) as [d' o]. destruct (dspec_step as_implemented (d_rules (dstate rules limit h)) s e (advice (d_bus (dstate rules limit h)) e)) as [s' o'].
  destruct H as [A [_ [B _]]]. auto.
Qed.

Theorem refinement_exists_reachable rules limit h : admissible rules h -> exists s, R (d_bus (dstate rules limit h)) s.
Proof. intros Ha. destruct (dreachable rules limit h Ha) as [_ [B _]]. exact B. Qed.

Theorem error_changes_nothing_reachable rules limit h e c er : admissible rules h ->
  (exists name flags, e = EvRequest c name flags) \/ (exists name, e = EvRelease c name) ->
  In (c, WErr er) (snd (dstep (dstate rules limit h) (DReg e))) ->
  dstep (dstate rules limit h) (DReg e) = (dstate rules limit h, [(c, WErr er)]).
Proof.
  intros Ha He Hin. destruct (dreachable rules limit h Ha) as [I [[s Rr] [W _]]]. eapply error_changes_nothing; eauto.
Qed.

Theorem raw_queries_reachable rules limit h c cn s : admissible rules h ->
  let d := dstate rules limit h in
  find_conn (b_conns (d_bus d)) c = Some cn -> c_active cn = true ->
  dstep d (DGetNameOwner c s) = (d, [(c, owner_answer d s)]) /\
  dstep d (DNameHasOwner c s) = (d, [(c, has_owner_answer d s)]) /\
  dstep d (DListQueuedOwners c s) = (d, [(c, queued_answer d s)]) /\
  owner_answer d s <> WErr WFailed /\ queued_answer d s <> WFault /\
  (exists l, dstep d (DListNames c) = (d, [(c, WList l)]) /\ NoDup l /\
     forall t, In t l <-> t = DBUS_SERVICE_DBUS_str \/ exists k q, In (k, q) (b_services (d_bus d)) /\ kstr d k = Some t).
Proof.
  intros Ha. cbn zeta. intros Hf Hact. destruct (dreachable rules limit h Ha) as [I _].
  split; [eapply get_name_owner_by_string; eauto|]. split; [eapply name_has_owner_by_string; eauto|].
  split; [eapply list_queued_owners_by_string; eauto|]. split; [apply owner_answer_never_failed; exact I|].
  split; [apply queued_answer_never_fault; exact I|]. eapply list_names_by_string; eauto.
Qed.

Theorem reload_reachable rules limit h c rules' limit' : admissible rules h ->
  let d := dstate rules limit h in
  let (d', o) := dstep d (DReload c rules' limit') in
  (d' = d \/ (d_rules d' = rules' /\ b_limit (d_bus d') = limit' /\ o = [(c, WAck)])) /\
  b_conns (d_bus d') = b_conns (d_bus d) /\ b_services (d_bus d') = b_services (d_bus d) /\ d_unique d' = d_unique d.
Proof.
  intros Ha. cbn zeta. destruct (dreachable rules limit h Ha) as [I [[s Rr] _]].
  assert (H := reload_sim (dstate rules limit h) s c rules' limit' I Rr). destruct (dstep (dstate rules limit h) (DReload c rules' limit')) as [d' o].
  destruct H as [A [B [C [D _]]]]. auto.
Qed.
