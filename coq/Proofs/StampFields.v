(* C03, message level: what scrub / set_sender / from_driver do to one header. *)
From DV Require Import Lib.Base Wire.HeaderEdit Proofs.EditProofs Stamp.Stamp Spec.StampSpec.
From Coq Require Import ZifyBool ZifyN ZifyNat.
Local Open Scope N_scope.

(* ---------------- codes --------------------------------------------------------------------- *)
Definition codes (fs : list sfield) : list N := map sf_code fs.

(* well-formed field list of a message the bus passes on or builds: defined codes, none twice *)
Definition wf_fields (fs : list sfield) : Prop :=
  NoDup (codes fs) /\ Forall (fun f => 1 <= sf_code f /\ sf_code f <= 9) fs.

Lemma filter_code_notin fs c : ~ In c (codes fs) -> filter (is_code c) fs = [].
Proof.
  induction fs as [|f r IH]; [reflexivity|]. cbn [codes map filter In]. intros H.
  unfold is_code at 1. destruct (N.eqb_spec (sf_code f) c) as [E|E]; [exfalso; apply H; left; exact E|].
  apply IH. intros X; apply H; right; exact X.
Qed.

Lemma set_field_codes_in fs c v x : In x (codes (set_field fs c v)) -> x = c \/ In x (codes fs).
Proof.
  induction fs as [|f r IH]; cbn [set_field].
  - cbn. intros [H|[]]; left; congruence.
  - destruct (N.eqb_spec (sf_code f) c) as [E|E]; cbn [codes map In mk_field sf_code].
    + intros [H|H]; [left; congruence | right; right; exact H].
    + intros [H|H]; [right; left; exact H|]. destruct (IH H) as [X|X]; [left; exact X | right; right; exact X].
Qed.

Lemma set_field_nodup fs c v : NoDup (codes fs) -> NoDup (codes (set_field fs c v)).
Proof.
  induction fs as [|f r IH]; cbn [set_field]; intros H.
  - cbn. constructor; [intros []|constructor].
  - destruct (N.eqb_spec (sf_code f) c) as [E|E]; cbn [codes map mk_field sf_code].
    + cbn [codes map] in H. rewrite <- E. exact H.
    + cbn [codes map] in H. inversion H as [|? ? Hn Hr]; subst. constructor; [|apply IH; exact Hr].
      intros X. apply set_field_codes_in in X. destruct X as [X|X]; [congruence | exact (Hn X)].
Qed.

Lemma set_field_forall (P : sfield -> Prop) fs c v :
  P (mk_field c v) -> Forall P fs -> Forall P (set_field fs c v).
Proof.
  intros Hp. induction fs as [|f r IH]; cbn [set_field]; intros H.
  - constructor; [exact Hp|constructor].
  - inversion H; subst. destruct (sf_code f =? c); constructor; auto.
Qed.

Lemma set_field_wf fs c v : 1 <= c <= 9 -> wf_fields fs -> wf_fields (set_field fs c v).
Proof.
  intros Hc [Hn Hf]. split; [apply set_field_nodup; exact Hn|].
  apply set_field_forall; [cbn; lia | exact Hf].
Qed.

(* the one field with the code that was just set is the new one *)
Lemma set_field_filter fs c v :
  NoDup (codes fs) -> filter (is_code c) (set_field fs c v) = [mk_field c v].
Proof.
  induction fs as [|f r IH]; cbn [set_field]; intros H.
  - cbn [filter]. unfold is_code. cbn [mk_field sf_code]. rewrite N.eqb_refl. reflexivity.
  - cbn [codes map] in H. inversion H as [|? ? Hn Hr]; subst.
    destruct (N.eqb_spec (sf_code f) c) as [E|E]; cbn [filter].
    + unfold is_code at 1. cbn [mk_field sf_code]. rewrite N.eqb_refl. f_equal.
      apply filter_code_notin. rewrite <- E. exact Hn.
    + unfold is_code at 1. destruct (N.eqb_spec (sf_code f) c); [contradiction|]. apply IH. exact Hr.
Qed.

Lemma set_field_filter_other fs c v c' :
  c' <> c -> filter (is_code c') (set_field fs c v) = filter (is_code c') fs.
Proof.
  intros Hne. induction fs as [|f r IH]; cbn [set_field filter].
  - unfold is_code. cbn [mk_field sf_code]. destruct (N.eqb_spec c c'); [congruence|reflexivity].
  - destruct (N.eqb_spec (sf_code f) c) as [E|E]; cbn [filter].
    + subst c. unfold is_code. cbn [mk_field sf_code].
      destruct (N.eqb_spec (sf_code f) c'); [congruence|reflexivity].
    + rewrite IH. reflexivity.
Qed.

Lemma del_is_filter fs c : del_field fs c = filter (fun f => negb (is_code c f)) fs.
Proof. reflexivity. Qed.

(* ---------------- the loader's rules give a duplicate-free defined part ---------------------- *)
Lemma field_ty_range c : field_ty c <> None -> 1 <= c /\ c <= 10.
Proof.
  unfold field_ty.
  destruct (N.eqb_spec c 1); [cbn; lia|]. destruct (N.eqb_spec c 10); [cbn; lia|]. cbn [orb].
  destruct (N.eqb_spec c 2); [cbn; lia|]. destruct (N.eqb_spec c 3); [cbn; lia|].
  destruct (N.eqb_spec c 4); [cbn; lia|]. destruct (N.eqb_spec c 6); [cbn; lia|].
  destruct (N.eqb_spec c 7); [cbn; lia|]. cbn [orb].
  destruct (N.eqb_spec c 5); [cbn; lia|]. destruct (N.eqb_spec c 9); [cbn; lia|]. cbn [orb].
  destruct (N.eqb_spec c 8); [cbn; lia|]. congruence.
Qed.

Lemma field_ty_none c : field_ty c = None -> c = 0 \/ 10 < c.
Proof.
  unfold field_ty.
  destruct (N.eqb_spec c 1); [cbn; discriminate|]. destruct (N.eqb_spec c 10); [cbn; discriminate|]. cbn [orb].
  destruct (N.eqb_spec c 2); [cbn; discriminate|]. destruct (N.eqb_spec c 3); [cbn; discriminate|].
  destruct (N.eqb_spec c 4); [cbn; discriminate|]. destruct (N.eqb_spec c 6); [cbn; discriminate|].
  destruct (N.eqb_spec c 7); [cbn; discriminate|]. cbn [orb].
  destruct (N.eqb_spec c 5); [cbn; discriminate|]. destruct (N.eqb_spec c 9); [cbn; discriminate|]. cbn [orb].
  destruct (N.eqb_spec c 8); [cbn; discriminate|]. intros _. lia.
Qed.

Lemma existsb_eqb_in c seen : existsb (N.eqb c) seen = false -> ~ In c seen.
Proof.
  induction seen as [|x r IH]; cbn; [tauto|]. destruct (N.eqb_spec c x); cbn; [discriminate|].
  intros H [X|X]; [congruence | exact (IH H X)].
Qed.

Lemma fields_ok_shape fs : forall seen, fields_ok seen fs = true ->
  NoDup (codes (strip_unknown fs)) /\
  (forall c, In c seen -> ~ In c (codes (strip_unknown fs))) /\
  Forall (fun f => 1 <= sf_code f) (strip_unknown fs).
Proof.
  induction fs as [|f r IH]; intros seen H.
  - cbn. split; [constructor|]. split; [intros ? ? []|constructor].
  - cbn [fields_ok] in H. destruct (N.eqb_spec (sf_code f) 0) as [Z|NZ]; [discriminate|].
    unfold strip_unknown. cbn [filter]. fold (strip_unknown r).
    destruct (field_ty (sf_code f)) eqn:T.
    + assert (R : 1 <= sf_code f /\ sf_code f <= 10) by (apply field_ty_range; congruence).
      destruct (N.leb_spec (sf_code f) 10); [|lia].
      apply andb_prop in H. destruct H as [H H4]. apply andb_prop in H. destruct H as [H H3].
      apply andb_prop in H. destruct H as [_ H2]. apply negb_true_iff in H2. apply existsb_eqb_in in H2.
      destruct (IH _ H4) as (N1 & N2 & N3). cbn [codes map]. split; [|split].
      * constructor; [|exact N1]. apply N2. left. reflexivity.
      * intros c Hc [X|X]; [subst; contradiction|]. apply (N2 c); [right; exact Hc | exact X].
      * constructor; [lia | exact N3].
    + destruct (field_ty_none _ T) as [X|X]; [contradiction|].
      destruct (N.leb_spec (sf_code f) 10); [lia|]. apply IH. exact H.
Qed.

(* ---------------- scrub ---------------------------------------------------------------------- *)
Lemma scrub_fields m : s_fields (scrub m) = del_field (strip_unknown (s_fields m)) 10.
Proof. reflexivity. Qed.

Lemma in_codes_filter (p : sfield -> bool) fs c : In c (codes (filter p fs)) -> In c (codes fs).
Proof.
  unfold codes. rewrite !in_map_iff. intros (f & E & H). apply filter_In in H. exists f. tauto.
Qed.

Lemma nodup_codes_filter (p : sfield -> bool) fs : NoDup (codes fs) -> NoDup (codes (filter p fs)).
Proof.
  induction fs as [|f r IH]; cbn [filter codes map]; intros H; [constructor|].
  inversion H as [|? ? Hn Hr]; subst. destruct (p f); [|apply IH; exact Hr].
  cbn [codes map]. constructor; [|apply IH; exact Hr]. intros X. apply Hn. eapply in_codes_filter. exact X.
Qed.

Lemma scrub_wf m : wire_ok m -> wf_fields (s_fields (scrub m)).
Proof.
  intros H. destruct (fields_ok_shape _ _ H) as (N1 & _ & N3). rewrite scrub_fields. split.
  - unfold del_field. apply nodup_codes_filter. exact N1.
  - unfold del_field. apply Forall_forall. intros f Hf. apply filter_In in Hf. destruct Hf as [Hf Hc].
    rewrite Forall_forall in N3. specialize (N3 f Hf).
    unfold strip_unknown in Hf. apply filter_In in Hf. destruct Hf as [_ Hle].
    apply negb_true_iff in Hc. apply N.eqb_neq in Hc. apply N.leb_le in Hle. lia.
Qed.

(* nothing but the unknown fields and CONTAINER_INSTANCE goes away, order kept *)
Lemma scrub_keeps m :
  filter (fun f => negb (is_code 7 f)) (s_fields (scrub m)) =
  filter (fun f => (sf_code f <=? 9) && negb (is_code 7 f)) (s_fields m).
Proof.
  rewrite scrub_fields. unfold del_field, strip_unknown. induction (s_fields m) as [|f r IH]; [reflexivity|].
  cbn [filter]. unfold is_code in *.
  destruct (N.leb_spec (sf_code f) 10) as [L|L]; cbn [filter].
  - destruct (N.eqb_spec (sf_code f) 10) as [E|E]; cbn [negb filter].
    + destruct (N.leb_spec (sf_code f) 9); [lia|]. cbn [andb]. exact IH.
    + destruct (N.leb_spec (sf_code f) 9); [|lia]. cbn [andb].
      destruct (sf_code f =? 7); cbn [negb]; [exact IH | rewrite IH; reflexivity].
  - destruct (N.leb_spec (sf_code f) 9); [lia|]. cbn [andb]. exact IH.
Qed.

(* ---------------- set_sender ------------------------------------------------------------------ *)
Lemma set_sender_fields m n : s_fields (set_sender m n) = set_field (s_fields m) 7 (VStr 115 n).
Proof. reflexivity. Qed.

Lemma set_sender_wf m n : wf_fields (s_fields m) -> wf_fields (s_fields (set_sender m n)).
Proof. intros H. rewrite set_sender_fields. apply set_field_wf; [lia | exact H]. Qed.

Lemma set_sender_is m n : NoDup (codes (s_fields m)) -> sender_is (set_sender m n) n.
Proof. intros H. unfold sender_is. rewrite set_sender_fields. apply set_field_filter. exact H. Qed.

Lemma set_sender_others m n :
  filter (fun f => negb (is_code 7 f)) (s_fields (set_sender m n)) = filter (fun f => negb (is_code 7 f)) (s_fields m).
Proof. rewrite set_sender_fields. exact (set_preserves_others (s_fields m) 7 (VStr 115 n)). Qed.

Lemma wf_defined m : wf_fields (s_fields m) -> defined_only m.
Proof. intros [_ H]. exact H. Qed.

(* ---------------- stamp: the three facts about one forwarded message --------------------------- *)
Lemma stamp_wf n m : wire_ok m -> wf_fields (s_fields (stamp n m)).
Proof. intros H. apply set_sender_wf. apply scrub_wf. exact H. Qed.

Lemma stamp_sender n m : wire_ok m -> sender_is (stamp n m) n.
Proof. intros H. apply set_sender_is. apply scrub_wf. exact H. Qed.

Lemma stamp_defined_only n m : wire_ok m -> defined_only (stamp n m).
Proof. intros H. apply wf_defined. apply stamp_wf. exact H. Qed.

Lemma same_content_scrub_set m n : same_content m (set_sender (scrub m) n).
Proof.
  unfold same_content. repeat split; try reflexivity.
  rewrite set_sender_others. apply scrub_keeps.
Qed.

Lemma stamp_same_content n m : same_content m (stamp n m).
Proof. apply same_content_scrub_set. Qed.

(* a second stamping (Hello: the new name replaces the placeholder) and the in-place byte-order
   conversion keep all of this *)
Lemma same_content_restamp m m' n : same_content m m' -> same_content m (set_sender m' n).
Proof.
  unfold same_content. intros (A & B & C & D & E & F). repeat split; try assumption.
  rewrite set_sender_others. exact F.
Qed.

Lemma to_native_fields m : s_fields (to_native m) = s_fields m.
Proof. unfold to_native. destruct (s_le m); reflexivity. Qed.

Lemma same_content_native m m' : same_content m m' -> same_content m (to_native m').
Proof.
  unfold same_content, to_native. destruct (s_le m'); [tauto|]. cbn. tauto.
Qed.

Lemma sender_is_native m n : sender_is m n -> sender_is (to_native m) n.
Proof. unfold sender_is. rewrite to_native_fields. tauto. Qed.

Lemma defined_only_native m : defined_only m -> defined_only (to_native m).
Proof. unfold defined_only. rewrite to_native_fields. tauto. Qed.

(* whatever the client wrote as SENDER, as unknown fields or as CONTAINER_INSTANCE is irrelevant:
   two messages that agree on everything else are stamped to the same field list up to the
   position of SENDER *)
Lemma forged_irrelevant n m1 m2 :
  wire_ok m1 -> wire_ok m2 ->
  filter (fun f => (sf_code f <=? 9) && negb (is_code 7 f)) (s_fields m1) =
  filter (fun f => (sf_code f <=? 9) && negb (is_code 7 f)) (s_fields m2) ->
  filter (fun f => negb (is_code 7 f)) (s_fields (stamp n m1)) = filter (fun f => negb (is_code 7 f)) (s_fields (stamp n m2)) /\
  filter (is_code 7) (s_fields (stamp n m1)) = filter (is_code 7) (s_fields (stamp n m2)).
Proof.
  intros H1 H2 E. split.
  - unfold stamp. rewrite !set_sender_others, !scrub_keeps. exact E.
  - rewrite (stamp_sender n m1 H1), (stamp_sender n m2 H2). reflexivity.
Qed.

(* ---------------- messages the bus builds ------------------------------------------------------ *)
Definition set_only (es : list edit) : Prop :=
  Forall (fun e => match e with ESet c _ => 1 <= c /\ c <= 9 | _ => False end) es.

Lemma apply_edits_wf es : set_only es -> forall m, wf_fields (s_fields m) -> wf_fields (s_fields (fold_left apply_edit es m)).
Proof.
  induction es as [|e r IH]; intros H m Hm; [exact Hm|]. inversion H as [|? ? He Hr]; subst.
  cbn [fold_left]. apply IH; [exact Hr|]. destruct e as [c v| |]; try contradiction.
  cbn. apply set_field_wf; [lia | exact Hm].
Qed.

Lemma build_wf le t f s es body : set_only es -> wf_fields (s_fields (build le t f s es body)).
Proof.
  intros H. unfold build. cbn [s_fields].
  assert (W : wf_fields (s_fields (fold_left apply_edit es (mkSMsg le t f s [] [] [])))).
  { apply apply_edits_wf; [exact H|]. split; [constructor|constructor]. }
  destruct body; [exact W|]. apply set_field_wf; [lia | exact W].
Qed.

Lemma reply_dest_set_only m : set_only (reply_dest m).
Proof. unfold reply_dest. destruct (str_field m F_SENDER); repeat constructor; unfold F_DESTINATION; lia. Qed.

Lemma set_only_app a b : set_only a -> set_only b -> set_only (a ++ b).
Proof. unfold set_only. intros. apply Forall_app. tauto. Qed.

Lemma new_method_return_wf m body : wf_fields (s_fields (new_method_return m body)).
Proof.
  apply build_wf. apply set_only_app; [apply reply_dest_set_only|]. repeat constructor; unfold F_REPLY_SERIAL; lia.
Qed.

Lemma new_error_wf m e t : wf_fields (s_fields (new_error m e t)).
Proof.
  apply build_wf. apply set_only_app; [apply reply_dest_set_only|].
  repeat constructor; unfold F_REPLY_SERIAL, F_ERROR_NAME; lia.
Qed.

Lemma new_driver_signal_wf mem pre body : set_only pre -> wf_fields (s_fields (new_driver_signal mem pre body)).
Proof.
  intros H. apply build_wf. apply set_only_app; [|exact H].
  repeat constructor; unfold F_PATH, F_INTERFACE, F_MEMBER; lia.
Qed.

Lemma from_driver_fields r m :
  s_fields (from_driver r m) =
  match r with
  | Some n => set_field (set_field (s_fields m) 7 (VStr 115 drv_name)) 6 (VStr 115 n)
  | None => set_field (s_fields m) 7 (VStr 115 drv_name)
  end.
Proof. unfold from_driver. destruct r; reflexivity. Qed.

Lemma from_driver_wf r m : wf_fields (s_fields m) -> wf_fields (s_fields (from_driver r m)).
Proof.
  intros H. rewrite from_driver_fields. destruct r.
  - apply set_field_wf; [lia|]. apply set_field_wf; [lia | exact H].
  - apply set_field_wf; [lia | exact H].
Qed.

Lemma from_driver_sender r m : wf_fields (s_fields m) -> sender_is (from_driver r m) drv_name.
Proof.
  intros [H _]. unfold sender_is. rewrite from_driver_fields. destruct r.
  - rewrite set_field_filter_other by lia. apply set_field_filter. exact H.
  - apply set_field_filter. exact H.
Qed.

(* get_field sees the field that sender_is / the edits talk about *)
Lemma get_field_set fs c v : get_field (set_field fs c v) c = Some v.
Proof. apply get_set_same. Qed.

Lemma str_field_scrub m c : c <= 9 -> str_field (scrub m) c = str_field m c.
Proof.
  intros H. unfold str_field. rewrite scrub_fields, get_del_other by lia. rewrite strip_known by lia. reflexivity.
Qed.
