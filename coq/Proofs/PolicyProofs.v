(* Proofs for C06, rule level: the model of bus/policy.c equals the manual-page
   specification (Spec/PolicySpec.v); context order; the optimiser. *)
From DV Require Import Lib.Base Gen.Tables Gen.PolicyTables Policy.Policy Spec.PolicySpec.
From Coq Require Import ZifyBool ZifyN ZifyNat.
Local Open Scope N_scope.

(* ------------------------------------------------------------------ small facts *)
Lemma bytes_eqb_sym a b : bytes_eqb a b = bytes_eqb b a.
Proof.
  destruct (bytes_eqb a b) eqn:E; destruct (bytes_eqb b a) eqn:F; auto.
  - apply bytes_eqb_eq in E. subst. rewrite bytes_eqb_refl in F. discriminate.
  - apply bytes_eqb_eq in F. subst. rewrite bytes_eqb_refl in E. discriminate.
Qed.

Lemma if_false_andb (a b : bool) : (if a then false else b) = negb a && b.
Proof. destruct a; reflexivity. Qed.

Lemma find_ext_in {A} (f g : A -> bool) l : (forall x, In x l -> f x = g x) -> find f l = find g l.
Proof.
  induction l as [|x l IH]; intros H; simpl; auto.
  rewrite (H x (or_introl eq_refl)). destruct (g x); auto. apply IH. intros y Hy. apply H. right; auto.
Qed.

(* "last matching rule decides" as a left fold = first match in the reversed list *)
Lemma fold_last_match (f : rule -> bool) rs init :
  fold_left (fun a r => if f r then r_allow r else a) rs init =
  match find f (rev rs) with Some r => r_allow r | None => init end.
Proof.
  revert init. induction rs as [|x l IH] using rev_ind; intros init; simpl; auto.
  rewrite fold_left_app, rev_app_distr. simpl. destruct (f x); auto.
Qed.

Lemma decide_fold f rs : spec_decide f rs = fold_left (fun a r => if f r then r_allow r else a) rs false.
Proof. unfold spec_decide. rewrite fold_last_match. reflexivity. Qed.

Lemma fold_ext_in (f g : rule -> bool) rs init :
  (forall r, In r rs -> f r = g r) ->
  fold_left (fun a r => if f r then r_allow r else a) rs init = fold_left (fun a r => if g r then r_allow r else a) rs init.
Proof.
  revert init. induction rs as [|x l IH]; intros init H; simpl; auto.
  rewrite (H x (or_introl eq_refl)). apply IH. intros; apply H; right; auto.
Qed.

(* ------------------------------------------------------------------ attribute predicates *)
Lemma field_ok rf mf : negb (field_skips rf mf) = sp_field rf mf.
Proof. destruct rf as [x|], mf as [y|]; simpl; auto. rewrite negb_involutive. apply bytes_eqb_sym. Qed.

Lemma iface_ok r m : negb (iface_skips (r_allow r) (r_iface r) (m_iface m)) = sp_iface r m.
Proof.
  unfold sp_iface, iface_skips. destruct (r_iface r) as [x|], (m_iface m) as [y|]; simpl; auto.
  rewrite negb_involutive. apply bytes_eqb_sym.
Qed.

Lemma broadcast_same m : is_broadcast m = sp_is_broadcast m.
Proof. unfold is_broadcast, sp_is_broadcast. destruct (m_dest m); simpl; rewrite ?andb_true_r, ?andb_false_r; auto. Qed.

Lemma broadcast_ok r m : negb (broadcast_skips r m) = sp_broadcast r m.
Proof.
  unfold broadcast_skips, sp_broadcast. rewrite broadcast_same. destruct (r_broadcast r); auto. apply negb_involutive.
Qed.

Lemma fds_ok r m : msg_wf m = true -> negb (fds_skips r m) = sp_fds r m.
Proof.
  unfold msg_wf, fds_skips, sp_fds. intros H.
  destruct (0 <? r_min_fds r) eqn:A; destruct (r_max_fds r <? DBUS_MAXIMUM_MESSAGE_UNIX_FDS) eqn:B; simpl;
    destruct (m_nfds m <? r_min_fds r) eqn:C; destruct (r_max_fds r <? m_nfds m) eqn:D;
    destruct (r_min_fds r <=? m_nfds m) eqn:E; destruct (m_nfds m <=? r_max_fds r) eqn:F; simpl; auto; lia.
Qed.

Lemma reply_ok r rr m : negb (reply_skips r rr m) = sp_reply dev_code r rr m.
Proof.
  unfold reply_skips, sp_reply. simpl. destruct (m_reply_serial m =? 0); simpl; auto.
  destruct rr, (r_allow r), (r_reqreply r), (r_eavesdrop r); reflexivity.
Qed.

Lemma eavesdrop_ok r e :
  negb (e && r_allow r && negb (r_eavesdrop r)) && negb (negb e && negb (r_allow r) && r_eavesdrop r) = sp_eavesdrop r e.
Proof. unfold sp_eavesdrop. destruct e, (r_allow r), (r_eavesdrop r); reflexivity. Qed.

Lemma starts_with_words_spec s p : starts_with_words s p = dotted_prefix p s.
Proof.
  unfold dotted_prefix. revert s. induction p as [|x p IH]; intros s.
  - destruct s as [|c s]; [reflexivity|]. cbn [starts_with_words bytes_eqb is_prefix app orb]. rewrite andb_true_r. apply N.eqb_sym.
  - destruct s as [|y s]; [reflexivity|]. cbn [starts_with_words bytes_eqb is_prefix app]. rewrite IH, (N.eqb_sym x y).
    destruct (y =? x); reflexivity.
Qed.

(* registries: names are unique (BusRegistry is a hash table keyed by name) *)
Definition reg_wf (reg : registry) : Prop := NoDup (map fst reg).

Lemma has_name_notin reg c d :
  ~ In d (map fst reg) -> has_name (names_of reg c) d = false.
Proof.
  unfold has_name, names_of. intros H. apply not_true_is_false. intros E.
  apply existsb_exists in E. destruct E as [n [Hin Heq]]. apply bytes_eqb_eq in Heq. subst n.
  apply in_map_iff in Hin. destruct Hin as [e [He Hf]]. apply filter_In in Hf. destruct Hf as [Hf _].
  apply H. apply in_map_iff. exists e; auto.
Qed.

Lemma owner_in_queue_spec reg d c : reg_wf reg -> owner_in_queue reg d c = has_name (names_of reg c) d.
Proof.
  unfold owner_in_queue, reg_wf. induction reg as [|[n q] t IH]; intros Hwf; simpl; auto.
  inversion Hwf as [|? ? Hn Ht]; subst. simpl in Hn.
  unfold names_of, has_name in *. simpl.
  destruct (bytes_eqb n d) eqn:E.
  - apply bytes_eqb_eq in E. subst n. destruct (in_queue c q) eqn:Q; simpl.
    + rewrite bytes_eqb_refl. reflexivity.
    + symmetry. apply (has_name_notin t c d Hn).
  - destruct (in_queue c q); simpl.
    + rewrite (bytes_eqb_sym d n), E. simpl. apply IH; auto.
    + apply IH; auto.
Qed.

Lemma queued_prefix_spec reg c p : queued_owner_by_prefix reg c p = existsb (dotted_prefix p) (names_of reg c).
Proof.
  unfold queued_owner_by_prefix, names_of. induction reg as [|[n q] t IH]; simpl; auto.
  destruct (in_queue c q); simpl; rewrite IH; auto. rewrite starts_with_words_spec. reflexivity.
Qed.

Lemma obytes_is_spec o d : obytes_is o d = match o with None => false | Some x => bytes_eqb x d end.
Proof. destruct o; reflexivity. Qed.

Lemma dest_ok r recv reg m : reg_wf reg -> negb (dest_skips r recv reg m) = sp_destination r recv reg m.
Proof.
  intros Hwf. unfold dest_skips, sp_destination. destruct (r_name r) as [d|]; auto.
  destruct (r_prefix r); destruct recv as [c|]; rewrite ?negb_involutive.
  - apply queued_prefix_spec.
  - destruct (m_dest m) as [dn|]; auto. rewrite negb_involutive. apply starts_with_words_spec.
  - apply owner_in_queue_spec; auto.
  - rewrite obytes_is_spec. reflexivity.
Qed.

Lemma origin_ok r snd reg m : reg_wf reg -> negb (origin_skips r snd reg m) = sp_origin r snd reg m.
Proof.
  intros Hwf. unfold origin_skips, sp_origin. destruct (r_name r) as [o|]; auto.
  destruct snd as [s|]; rewrite negb_involutive.
  - apply owner_in_queue_spec; auto.
  - rewrite obytes_is_spec. reflexivity.
Qed.

Lemma type_ok r m :
  negb (negb (r_mtype r =? DBUS_MESSAGE_TYPE_INVALID) && negb (m_type m =? r_mtype r)) = sp_type r m.
Proof. unfold sp_type. destruct (r_mtype r =? DBUS_MESSAGE_TYPE_INVALID), (m_type m =? r_mtype r); reflexivity. Qed.

(* ------------------------------------------------------------------ one rule *)
Lemma send_rule_spec r rr eav recv reg m :
  reg_wf reg -> msg_wf m = true ->
  send_rule_applies r rr recv reg m = spec_send_matches dev_code (mkSendCtx rr eav recv reg) m r.
Proof.
  intros Hreg Hm. unfold send_rule_applies, spec_send_matches, is_kind. simpl.
  destruct (r_kind r); simpl; auto.
  rewrite !if_false_andb.
  rewrite type_ok, reply_ok, !field_ok, iface_ok, broadcast_ok, (dest_ok _ _ _ _ Hreg), (fds_ok _ _ Hm).
  destruct (sp_type r m), (sp_reply dev_code r rr m), (sp_field (r_path r) (m_path m)), (sp_iface r m),
    (sp_field (r_member r) (m_member m)), (sp_field (r_error r) (m_error m)), (sp_broadcast r m),
    (sp_destination r recv reg m), (sp_fds r m); reflexivity.
Qed.

Lemma recv_rule_spec r rr eav snd reg m :
  reg_wf reg -> msg_wf m = true ->
  recv_rule_applies r rr eav snd reg m = spec_recv_matches dev_code (mkRecvCtx rr eav snd reg) m r.
Proof.
  intros Hreg Hm. unfold recv_rule_applies, spec_recv_matches, is_kind. simpl.
  destruct (r_kind r); simpl; auto.
  rewrite !if_false_andb.
  rewrite type_ok, reply_ok, !field_ok, iface_ok, (origin_ok _ _ _ _ Hreg), (fds_ok _ _ Hm).
  rewrite <- (eavesdrop_ok r eav).
  destruct (sp_type r m), (sp_reply dev_code r rr m), (sp_field (r_path r) (m_path m)), (sp_iface r m),
    (sp_field (r_member r) (m_member m)), (sp_field (r_error r) (m_error m)),
    (sp_origin r snd reg m), (sp_fds r m), eav, (r_allow r), (r_eavesdrop r); reflexivity.
Qed.

Lemma own_rule_spec r name : rule_wf r = true -> own_rule_applies r name = Some (spec_own_matches name r).
Proof.
  unfold rule_wf, own_rule_applies, spec_own_matches, is_kind. destruct (r_kind r); simpl; auto.
  destruct (r_prefix r), (r_name r) as [n|]; simpl; intros H; try discriminate; auto.
  all: try (rewrite starts_with_words_spec; reflexivity); try (rewrite bytes_eqb_sym; reflexivity).
Qed.

(* ------------------------------------------------------------------ whole lists: last match wins *)
Theorem send_last_match rules rr eav recv reg m :
  reg_wf reg -> msg_wf m = true ->
  check_can_send rules rr recv reg m = spec_can_send dev_code rules (mkSendCtx rr eav recv reg) m.
Proof.
  intros Hreg Hm. unfold check_can_send, spec_can_send. rewrite decide_fold.
  apply fold_ext_in. intros r _. apply send_rule_spec; auto.
Qed.

Theorem receive_last_match rules reg rr snd addressed proposed m :
  reg_wf reg -> msg_wf m = true ->
  check_can_receive rules reg rr snd addressed proposed m =
  spec_can_receive dev_code rules (mkRecvCtx rr (is_eavesdropping addressed proposed m) snd reg) m.
Proof.
  intros Hreg Hm. unfold check_can_receive, spec_can_receive. rewrite decide_fold.
  apply fold_ext_in. intros r _. apply recv_rule_spec; auto.
Qed.

Lemma own_from_fold rules name init :
  forallb rule_wf rules = true ->
  check_can_own_from init rules name =
  Some (fold_left (fun a r => if spec_own_matches name r then r_allow r else a) rules init).
Proof.
  revert init. induction rules as [|r t IH]; intros init H; simpl; auto.
  simpl in H. apply andb_true_iff in H. destruct H as [Hr Ht].
  rewrite (own_rule_spec r name Hr). destruct (spec_own_matches name r); apply IH; auto.
Qed.

Theorem own_last_match rules name :
  forallb rule_wf rules = true -> check_can_own rules name = Some (spec_can_own rules name).
Proof. intros H. unfold check_can_own, spec_can_own. rewrite decide_fold. apply own_from_fold; auto. Qed.

(* ------------------------------------------------------------------ the literal manual page *)
(* the classes outside which the three deviations cannot show *)
Definition reply_consistent (m : msg) : bool := Bool.eqb (negb (m_reply_serial m =? 0)) (is_reply_type m).
Definition d2_free (r : rule) : bool := negb (r_allow r && r_reqreply r && r_eavesdrop r).
Definition send_literal_class (rules : list rule) (x : send_ctx) (m : msg) : bool :=
  reply_consistent m &&
  forallb (fun r => d2_free r && (negb (is_kind KSend r) || sp_eavesdrop r (sx_eavesdropping x))) rules.
Definition recv_literal_class (rules : list rule) (m : msg) : bool :=
  reply_consistent m && forallb d2_free rules.

Lemma reply_literal r rr m :
  reply_consistent m = true -> d2_free r = true -> sp_reply dev_code r rr m = sp_reply dev_none r rr m.
Proof.
  unfold reply_consistent, d2_free, sp_reply. simpl. intros H1 H2.
  apply Bool.eqb_prop in H1. rewrite <- H1.
  destruct (m_reply_serial m =? 0); simpl; auto.
  destruct (r_allow r), (r_reqreply r), (r_eavesdrop r), rr; simpl in *; auto; discriminate.
Qed.

Theorem send_literal_partial rules x m :
  send_literal_class rules x m = true ->
  spec_can_send dev_code rules x m = spec_can_send dev_none rules x m.
Proof.
  unfold send_literal_class, spec_can_send. intros H. apply andb_true_iff in H. destruct H as [Hm Hr].
  rewrite !decide_fold. apply fold_ext_in. intros r Hin.
  rewrite forallb_forall in Hr. specialize (Hr r Hin). apply andb_true_iff in Hr. destruct Hr as [H2 H3].
  unfold spec_send_matches. simpl. rewrite (reply_literal r _ m Hm H2).
  unfold is_kind in *. destruct (rkind_eqb (r_kind r) KSend); simpl in *; auto.
  rewrite H3. reflexivity.
Qed.

Theorem recv_literal_partial rules x m :
  recv_literal_class rules m = true ->
  spec_can_receive dev_code rules x m = spec_can_receive dev_none rules x m.
Proof.
  unfold recv_literal_class, spec_can_receive. intros H. apply andb_true_iff in H. destruct H as [Hm Hr].
  rewrite !decide_fold. apply fold_ext_in. intros r Hin.
  rewrite forallb_forall in Hr. specialize (Hr r Hin).
  unfold spec_recv_matches. simpl. rewrite (reply_literal r _ m Hm Hr). reflexivity.
Qed.

(* witnesses for the three deviations (each is replayed on the real code by the check) *)
Definition w_msg (ty : N) (dest : option bytes) (rs : N) : msg := mkMsg ty (Some [47; 112]) None (Some [77]) None dest None rs 0 7 false.
Definition w_allow_send : rule := mkRule KSend true 0 None None None None None DBUS_MAXIMUM_MESSAGE_UNIX_FDS 0 false true false TAny false.
Definition w_allow_send_eav : rule := mkRule KSend true 0 None None None None None DBUS_MAXIMUM_MESSAGE_UNIX_FDS 0 true true false TAny false.
Definition w_deny_send_eav : rule := mkRule KSend false 0 None None None None None DBUS_MAXIMUM_MESSAGE_UNIX_FDS 0 true false false TAny false.
Definition w_ctx : send_ctx := mkSendCtx false false None [].

Theorem literal_refuted :
  (* D1: a method call that carries a REPLY_SERIAL field is refused by a default <allow> rule *)
  check_can_send [w_allow_send] false None [] (w_msg 1 (Some [97; 46; 98]) 5) <> spec_can_send dev_none [w_allow_send] w_ctx (w_msg 1 (Some [97; 46; 98]) 5) /\
  (* D2: an unrequested method return passes <allow ... eavesdrop="true"/> *)
  check_can_send [w_allow_send_eav] false None [] (w_msg 2 (Some [97; 46; 98]) 5) <> spec_can_send dev_none [w_allow_send_eav] w_ctx (w_msg 2 (Some [97; 46; 98]) 5) /\
  (* D3: <deny ... eavesdrop="true"/> on the send side also denies when nobody eavesdrops *)
  check_can_send [w_allow_send; w_deny_send_eav] false None [] (w_msg 1 (Some [97; 46; 98]) 0) <>
  spec_can_send dev_none [w_allow_send; w_deny_send_eav] w_ctx (w_msg 1 (Some [97; 46; 98]) 0).
Proof. repeat split; vm_compute; discriminate. Qed.

(* ------------------------------------------------------------------ context order *)
Definition view (p : policy) (c : pctx) : list rule :=
  match c with
  | CDefault => p_default p
  | CMandatory => p_mandatory p
  | CUser u => alist_find (p_uid p) u
  | CGroup g => alist_find (p_gid p) g
  | CConsole true => p_console_true p
  | CConsole false => p_console_false p
  | CIgnored => []
  end.

Lemma alist_find_append l k r k' :
  alist_find (alist_append l k r) k' = alist_find l k' ++ (if k =? k' then [r] else []).
Proof.
  induction l as [|[k0 rs] t IH]; simpl.
  - rewrite (N.eqb_sym k k'). destruct (k' =? k); auto.
  - destruct (k0 =? k) eqn:E; simpl.
    + apply N.eqb_eq in E. subst k0. destruct (k =? k'); auto. rewrite app_nil_r; auto.
    + destruct (k0 =? k') eqn:F; auto.
      apply N.eqb_eq in F. subst k0. rewrite (N.eqb_sym k k'), E, app_nil_r. reflexivity.
Qed.

Lemma view_add p c r c' :
  c' <> CIgnored -> view (policy_add p c r) c' = view p c' ++ (if pctx_eqb c c' then [r] else []).
Proof.
  intros Hc. destruct c as [| |u|g|[|]|]; destruct c' as [| |u'|g'|[|]|]; simpl; rewrite ?app_nil_r; auto; try congruence;
    try apply alist_find_append.
Qed.

Lemma view_add_rules p c rs c' :
  c' <> CIgnored ->
  view (fold_left (fun p' r => policy_add p' c r) rs p) c' = view p c' ++ (if pctx_eqb c c' then rs else []).
Proof.
  intros Hc. revert p. induction rs as [|r t IH]; intros p; simpl.
  - destruct (pctx_eqb c c'); rewrite app_nil_r; auto.
  - rewrite IH, view_add by auto. destruct (pctx_eqb c c'); simpl; rewrite <- ?app_assoc, ?app_nil_r; auto.
Qed.

Lemma view_cfg p cfg c' :
  c' <> CIgnored ->
  view (fold_left (fun p e => fold_left (fun p' r => policy_add p' (fst e) r) (snd e) p) cfg p) c' = view p c' ++ select cfg c'.
Proof.
  intros Hc. revert p. induction cfg as [|[c rs] t IH]; intros p; simpl.
  - rewrite app_nil_r; auto.
  - rewrite IH, view_add_rules by auto. unfold select. simpl. rewrite <- app_assoc. reflexivity.
Qed.

Lemma client_rules_view p uid gids atc :
  client_rules p uid gids atc =
  view p CDefault ++ flat_map (fun g => view p (CGroup g)) gids ++ view p (CUser uid) ++ view p (CConsole atc) ++ view p CMandatory.
Proof. unfold client_rules. destruct atc; reflexivity. Qed.

Theorem context_order cfg uid gids atc :
  client_rules (policy_of_cfg cfg) uid gids atc = spec_client_rules cfg uid gids atc.
Proof.
  rewrite client_rules_view. unfold policy_of_cfg, spec_client_rules.
  assert (forall c, view policy_empty c = []) as E by (intros [| | | |[|]|]; reflexivity).
  rewrite (flat_map_ext _ (fun g => select cfg (CGroup g))).
  2:{ intros g. rewrite view_cfg by discriminate. rewrite E. reflexivity. }
  rewrite !view_cfg by discriminate. rewrite !E. cbn [concat app]. rewrite app_nil_r. reflexivity.
Qed.

(* ------------------------------------------------------------------ the optimiser *)
Section Optimiser.
  (* a query is an "applies" predicate that only rules of one kind can satisfy *)
  Variable k : rkind.
  Variable app : rule -> bool.
  Hypothesis app_kind : forall r, app r = true -> r_kind r = k.

  Definition decide_from (init : bool) (rs : list rule) : bool :=
    fold_left (fun a r => if app r then r_allow r else a) rs init.

  Lemma decide_app l1 l2 init : decide_from init (l1 ++ l2) = decide_from (decide_from init l1) l2.
  Proof. unfold decide_from. apply fold_left_app. Qed.

  Lemma decide_after_match l1 r l2 init : app r = true -> decide_from init (l1 ++ r :: l2) = decide_from (r_allow r) l2.
  Proof. intros H. rewrite decide_app. unfold decide_from at 1. simpl. rewrite H. reflexivity. Qed.

  Lemma decide_remove_other k' l init : k' <> k -> decide_from init (remove_by_kind k' l) = decide_from init l.
  Proof.
    intros Hk. revert init. induction l as [|x t IH]; intros init; simpl; auto.
    destruct (rkind_eqb (r_kind x) k') eqn:E; simpl.
    - assert (app x = false) as Hx.
      { destruct (app x) eqn:A; auto. apply app_kind in A. exfalso. apply Hk.
        rewrite <- A. destruct (r_kind x), k'; simpl in E; congruence. }
      unfold decide_from at 2. simpl. rewrite Hx. apply IH.
    - unfold decide_from. simpl. apply IH.
  Qed.

  Variable ca : rule -> bool.

  Lemma optimize_loop_sound rest :
    (forall r, In r rest -> ca r = true -> r_kind r = k -> app r = true) ->
    forall before init, decide_from init (optimize_loop ca before rest) = decide_from init (before ++ rest).
  Proof.
    induction rest as [|r t IH]; intros H before init; simpl.
    - rewrite app_nil_r. reflexivity.
    - rewrite IH by (intros; apply H; auto; right; auto).
      rewrite <- app_assoc. simpl.
      destruct (ca r) eqn:C; auto.
      destruct (rkind_eqb (r_kind r) k) eqn:K.
      + assert (r_kind r = k) as Hk by (destruct (r_kind r), k; simpl in K; congruence).
        assert (app r = true) as Ha by (apply H; auto; left; auto).
        rewrite !decide_after_match by auto. reflexivity.
      + assert (r_kind r <> k) as Hk by (intros E; rewrite E in K; destruct k; discriminate).
        rewrite !decide_app. rewrite decide_remove_other by auto. reflexivity.
  Qed.

  Lemma optimize_with_sound rules init :
    (forall r, In r rules -> ca r = true -> r_kind r = k -> app r = true) ->
    decide_from init (optimize_with ca rules) = decide_from init rules.
  Proof. intros H. unfold optimize_with. rewrite optimize_loop_sound by auto. reflexivity. Qed.
End Optimiser.

Lemma optimize_loop_subset ca rest : forall before x, In x (optimize_loop ca before rest) -> In x before \/ In x rest.
Proof.
  induction rest as [|r t IH]; intros before x H; simpl in *; auto.
  apply IH in H. destruct H as [H|H]; auto.
  apply in_app_or in H. destruct H as [H|[H|[]]]; auto.
  destruct (ca r); auto. unfold remove_by_kind in H. apply filter_In in H. tauto.
Qed.

Lemma optimize_with_subset ca rules x : In x (optimize_with ca rules) -> In x rules.
Proof. intros H. apply optimize_loop_subset in H. destruct H as [[]|H]; auto. Qed.

(* a universal rule applies to every message in every situation *)
Lemma universal_send_applies r rr recv reg m : r_kind r = KSend -> universal r = true -> send_rule_applies r rr recv reg m = true.
Proof.
  unfold universal, send_rule_applies. intros K U. rewrite K in *.
  unfold atom_type, atom_path, atom_iface, atom_member, atom_error, atom_name, atom_bcast, atom_minfds, atom_maxfds, atom_reply in U.
  rewrite K in U. repeat (apply andb_true_iff in U; destruct U as [U ?]).
  rewrite U. simpl.
  unfold reply_skips, field_skips, iface_skips, broadcast_skips, dest_skips, fds_skips.
  destruct (r_path r); try discriminate. destruct (r_iface r); try discriminate. destruct (r_member r); try discriminate.
  destruct (r_error r); try discriminate. destruct (r_name r); try discriminate. destruct (r_broadcast r); try discriminate.
  assert ((0 <? r_min_fds r) = false) as -> by lia.
  assert ((r_max_fds r <? DBUS_MAXIMUM_MESSAGE_UNIX_FDS) = false) as -> by lia.
  simpl. destruct (m_reply_serial m =? 0); auto.
  destruct (r_allow r), (r_reqreply r), (r_eavesdrop r), rr; simpl in *; auto; discriminate.
Qed.

Lemma universal_recv_applies r rr eav snd reg m : r_kind r = KRecv -> universal r = true -> recv_rule_applies r rr eav snd reg m = true.
Proof.
  unfold universal, recv_rule_applies. intros K U. rewrite K in *.
  unfold atom_type, atom_path, atom_iface, atom_member, atom_error, atom_name, atom_minfds, atom_maxfds, atom_reply, atom_eaves in U.
  rewrite K in U. repeat (apply andb_true_iff in U; destruct U as [U ?]).
  rewrite U. simpl.
  unfold reply_skips, field_skips, iface_skips, origin_skips, fds_skips.
  destruct (r_path r); try discriminate. destruct (r_iface r); try discriminate. destruct (r_member r); try discriminate.
  destruct (r_error r); try discriminate. destruct (r_name r); try discriminate.
  assert ((0 <? r_min_fds r) = false) as -> by lia.
  assert ((r_max_fds r <? DBUS_MAXIMUM_MESSAGE_UNIX_FDS) = false) as -> by lia.
  destruct (m_reply_serial m =? 0); destruct (r_allow r), (r_reqreply r), (r_eavesdrop r), rr, eav; simpl in *; auto; discriminate.
Qed.

Lemma universal_own_applies r name : r_kind r = KOwn -> rule_wf r = true -> universal r = true -> spec_own_matches name r = true.
Proof.
  unfold universal, spec_own_matches, is_kind, rule_wf, atom_name. intros K W U. rewrite K in *. simpl.
  destruct (r_name r); simpl in *; try discriminate. reflexivity.
Qed.

Lemma send_applies_kind rr recv reg m r : send_rule_applies r rr recv reg m = true -> r_kind r = KSend.
Proof. unfold send_rule_applies. destruct (r_kind r); auto; discriminate. Qed.
Lemma recv_applies_kind rr eav snd reg m r : recv_rule_applies r rr eav snd reg m = true -> r_kind r = KRecv.
Proof. unfold recv_rule_applies. destruct (r_kind r); auto; discriminate. Qed.
Lemma own_matches_kind name r : spec_own_matches name r = true -> r_kind r = KOwn.
Proof. unfold spec_own_matches, is_kind. destruct (r_kind r); simpl; auto; discriminate. Qed.

(* pruning behind rules that the test [ca] accepts is sound whenever [ca] only accepts universal rules *)
Theorem optimize_sound_send ca rules rr recv reg m :
  (forall r, In r rules -> ca r = true -> universal r = true) ->
  check_can_send (optimize_with ca rules) rr recv reg m = check_can_send rules rr recv reg m.
Proof.
  intros H. unfold check_can_send.
  apply (optimize_with_sound KSend (fun r => send_rule_applies r rr recv reg m) (send_applies_kind rr recv reg m) ca rules false).
  intros r Hin C K. apply universal_send_applies; auto.
Qed.

Theorem optimize_sound_recv ca rules reg rr snd addressed proposed m :
  (forall r, In r rules -> ca r = true -> universal r = true) ->
  check_can_receive (optimize_with ca rules) reg rr snd addressed proposed m = check_can_receive rules reg rr snd addressed proposed m.
Proof.
  intros H. unfold check_can_receive.
  apply (optimize_with_sound KRecv (fun r => recv_rule_applies r rr (is_eavesdropping addressed proposed m) snd reg m)
                             (recv_applies_kind rr _ snd reg m) ca rules false).
  intros r Hin C K. apply universal_recv_applies; auto.
Qed.

Lemma forallb_wf_optimize ca rules : forallb rule_wf rules = true -> forallb rule_wf (optimize_with ca rules) = true.
Proof.
  intros H. apply forallb_forall. intros x Hx. apply optimize_with_subset in Hx.
  rewrite forallb_forall in H. auto.
Qed.

Theorem optimize_sound_own ca rules name :
  forallb rule_wf rules = true ->
  (forall r, In r rules -> ca r = true -> universal r = true) ->
  check_can_own (optimize_with ca rules) name = check_can_own rules name.
Proof.
  intros W H. unfold check_can_own.
  rewrite !own_from_fold by (auto using forallb_wf_optimize).
  f_equal.
  apply (optimize_with_sound KOwn (spec_own_matches name) (own_matches_kind name) ca rules false).
  intros r Hin C K. apply universal_own_applies; auto. rewrite forallb_forall in W. auto.
Qed.

(* the optimiser of the C tree prunes soundly as soon as its condition implies universality *)
Lemma implb_trans3 a b c : implb a b = true -> implb b c = true -> implb a c = true.
Proof. destruct a, b, c; auto. Qed.

Lemma mask_includes_holds a b r : mask_includes a b = true -> mask_holds b r = true -> mask_holds a r = true.
Proof.
  unfold mask_includes, mask_holds. intros H1 H2.
  repeat (apply andb_true_iff in H1; destruct H1 as [H1 ?]).
  repeat (apply andb_true_iff in H2; destruct H2 as [H2 ?]).
  repeat (apply andb_true_iff; split); eapply implb_trans3; eauto.
Qed.

Lemma fixed_mask_universal r :
  rule_wf r = true ->
  mask_holds (match r_kind r with KSend => fixed_mask_send | KRecv => fixed_mask_recv | KOwn => fixed_mask_own end) r = true ->
  universal r = true.
Proof.
  unfold universal, mask_holds. destruct (r_kind r) eqn:K; simpl; intros W H;
    repeat (apply andb_true_iff in H; destruct H as [H ?]);
    repeat (apply andb_true_iff; split); auto.
Qed.

Theorem condition_ok_universal :
  optimizer_condition_ok = true -> forall r, rule_wf r = true -> catch_all_c r = true -> universal r = true.
Proof.
  unfold optimizer_condition_ok, catch_all_c. intros H r W C.
  apply andb_true_iff in H. destruct H as [H Ho]. apply andb_true_iff in H. destruct H as [Hs Hr].
  apply fixed_mask_universal; auto.
  destruct (r_kind r); eapply mask_includes_holds; eauto.
Qed.

(* F3: on the unchanged tree the optimiser changes a decision.  <allow send_destination="*"/> <deny send_broadcast="true"/>;
   a method call to the bus driver *)
Definition f3_rules : list rule :=
  [ mkRule KSend true 0 None None None None None DBUS_MAXIMUM_MESSAGE_UNIX_FDS 0 false true false TAny false;
    mkRule KSend false 0 None None None None None DBUS_MAXIMUM_MESSAGE_UNIX_FDS 0 false false false TTrue false ].
Definition f3_msg : msg := mkMsg 1 (Some DBUS_PATH_DBUS_str) (Some DBUS_INTERFACE_DBUS_str) (Some [71; 101; 116; 73; 100]) None (Some DBUS_SERVICE_DBUS_str) None 0 0 2 false.

(* guarded by the regenerated condition, so that the development also builds once bus/policy.c is fixed (then the
   hypothesis is false by computation, and [optimize_if_condition_ok] applies instead) *)
Theorem optimize_sound_refuted :
  optimizer_condition_ok = false ->
  exists rules rr recv reg m,
    msg_wf m = true /\ check_can_send (optimize rules) rr recv reg m <> check_can_send rules rr recv reg m.
Proof.
  intros E.
  first [ exfalso; vm_compute in E; discriminate
        | exists f3_rules, false, None, [], f3_msg; split; vm_compute; [reflexivity | discriminate] ].
Qed.

(* ------------------------------------------------------------------ combined statements used by Props/C06.v *)
Theorem send_literal rules rr eav recv reg m :
  reg_wf reg -> msg_wf m = true -> send_literal_class rules (mkSendCtx rr eav recv reg) m = true ->
  check_can_send rules rr recv reg m = spec_can_send dev_none rules (mkSendCtx rr eav recv reg) m.
Proof. intros Hr Hm Hc. rewrite (send_last_match rules rr eav recv reg m Hr Hm). apply send_literal_partial; auto. Qed.

Theorem recv_literal rules reg rr snd addressed proposed m :
  reg_wf reg -> msg_wf m = true -> recv_literal_class rules m = true ->
  check_can_receive rules reg rr snd addressed proposed m =
  spec_can_receive dev_none rules (mkRecvCtx rr (is_eavesdropping addressed proposed m) snd reg) m.
Proof. intros Hr Hm Hc. rewrite (receive_last_match rules reg rr snd addressed proposed m Hr Hm). apply recv_literal_partial; auto. Qed.

Definition same_decisions (rules' rules : list rule) : Prop :=
  (forall rr recv reg m, check_can_send rules' rr recv reg m = check_can_send rules rr recv reg m) /\
  (forall reg rr snd addressed proposed m,
      check_can_receive rules' reg rr snd addressed proposed m = check_can_receive rules reg rr snd addressed proposed m) /\
  (forallb rule_wf rules = true -> forall name, check_can_own rules' name = check_can_own rules name).

Theorem optimize_gen ca rules :
  (forall r, In r rules -> ca r = true -> universal r = true) -> same_decisions (optimize_with ca rules) rules.
Proof.
  intros H. repeat split; intros.
  - apply optimize_sound_send; auto.
  - apply optimize_sound_recv; auto.
  - apply optimize_sound_own; auto.
Qed.

Theorem optimize_partial rules :
  (forall r, In r rules -> catch_all_c r = true -> universal r = true) -> same_decisions (optimize rules) rules.
Proof. apply optimize_gen. Qed.

Theorem optimize_fixed rules : same_decisions (optimize_with universal rules) rules.
Proof. apply optimize_gen. auto. Qed.

Theorem optimize_if_condition_ok :
  optimizer_condition_ok = true -> forall rules, forallb rule_wf rules = true -> same_decisions (optimize rules) rules.
Proof.
  intros H rules W. apply optimize_partial. intros r Hin C. apply condition_ok_universal; auto.
  rewrite forallb_forall in W. auto.
Qed.

(* decisions taken with the rule list a connection really gets = the manual page applied to the documented context order,
   for configurations in which the optimiser only prunes behind universal rules *)
Theorem client_policy_partial cfg uid gids atc :
  (forall r, In r (spec_client_rules cfg uid gids atc) -> catch_all_c r = true -> universal r = true) ->
  forall reg m, reg_wf reg -> msg_wf m = true ->
    (forall rr eav recv,
        check_can_send (create_client_policy (policy_of_cfg cfg) uid gids atc) rr recv reg m =
        spec_can_send dev_code (spec_client_rules cfg uid gids atc) (mkSendCtx rr eav recv reg) m) /\
    (forall rr snd addressed proposed,
        check_can_receive (create_client_policy (policy_of_cfg cfg) uid gids atc) reg rr snd addressed proposed m =
        spec_can_receive dev_code (spec_client_rules cfg uid gids atc) (mkRecvCtx rr (is_eavesdropping addressed proposed m) snd reg) m) /\
    (forallb rule_wf (spec_client_rules cfg uid gids atc) = true ->
     forall name, check_can_own (create_client_policy (policy_of_cfg cfg) uid gids atc) name =
                  Some (spec_can_own (spec_client_rules cfg uid gids atc) name)).
Proof.
  intros H reg m Hr Hm. unfold create_client_policy. rewrite context_order.
  destruct (optimize_partial _ H) as [Hs [Hrc Ho]].
  repeat split; intros.
  - rewrite Hs. apply send_last_match; auto.
  - rewrite Hrc. apply receive_last_match; auto.
  - rewrite Ho by auto. apply own_last_match; auto.
Qed.
