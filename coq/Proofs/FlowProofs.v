(* Incoming flow control can never wedge a connection (Wire/Flow.v).  All statements are for ALL event
   sequences (induction over the run, no bound):

   (a) ACCOUNTING   the counter values are the sums over the live messages            flow_accounting (any crossing test)
   (b) NO WEDGE     no notification pending  ->  read watch enabled = below the limits  flow_no_wedge
                    running the pending notification establishes that                    flow_no_wedge_after_notify
                    a release that takes a value from AT/above its limit to below it
                    leaves a notification pending                                        flow_release_wakes
                    the seeded crossing test (<= for <) breaks all three                 flow_no_wedge_seeded_refuted ...
   (c) OVERSHOOT    the C tests the limit BEFORE queueing, so the value stays below
                    limit + largest message, and that bound is reached                   flow_overshoot, flow_overshoot_tight
   plus: the read watch (bytes still in the socket) and the dispatch-status test (bytes already in the loader) agree,
   which is what makes the outcome independent of the chunking at flow-control level   flow_socket_equals_loader
   and: changing the limits of a live connection is covered by (b) and right at once    flow_set_limits_immediate
        (before /repo d42cc8a it could wedge the connection)                             flow_set_limits_prefix_refuted *)
From DV Require Import Wire.Flow.
From Coq Require Import ZArith NArith List Bool Lia ZifyBool ZifyN ZifyNat.
Import ListNotations.
Local Open Scope Z_scope.

Fixpoint sum_size (l : list msg) : Z := match l with [] => 0 | m :: r => Z.of_N (m_size m) + sum_size r end.
Fixpoint sum_fds (l : list msg) : Z := match l with [] => 0 | m :: r => Z.of_N (m_fds m) + sum_fds r end.

Definition no_set_limits (evs : list event) : bool := forallb (fun e => negb (is_set_limits e)) evs.

(* every Arrive of the sequence is for a message of at most M bytes and F descriptors *)
Definition arrivals_within (M F : Z) (evs : list event) : Prop :=
  Forall (fun e => match e with Arrive s n => Z.of_N s <= M /\ Z.of_N n <= F | _ => True end) evs.

(* ---- arithmetic of the crossing tests -------------------------------------------------------- *)
Lemma crossed_false old new g : crossed old new g = false -> (old <? g) = (new <? g).
Proof. unfold crossed. lia. Qed.

Lemma crossed_down old new g : g <= old -> new < g -> crossed old new g = true.
Proof. unfold crossed. lia. Qed.

Lemma crossed_up old new g : old < g -> g <= new -> crossed old new g = true.
Proof. unfold crossed. lia. Qed.

Lemma may_queue_is_below t : may_queue_more t = below_limits t.
Proof. unfold may_queue_more, below_limits. lia. Qed.

(* ---- sums ------------------------------------------------------------------------------------- *)
Lemma sum_size_app a b : sum_size (a ++ b) = sum_size a + sum_size b.
Proof. induction a as [|x a IH]; cbn [app sum_size] in *; lia. Qed.

Lemma sum_fds_app a b : sum_fds (a ++ b) = sum_fds a + sum_fds b.
Proof. induction a as [|x a IH]; cbn [app sum_fds] in *; lia. Qed.

Lemma sum_size_remove : forall k l m, nth_error l k = Some m ->
  sum_size (remove_nth k l) = sum_size l - Z.of_N (m_size m).
Proof.
  induction k as [|k IH]; intros [|x l] m H; cbn [nth_error] in H; try discriminate.
  - injection H as ->. cbn [remove_nth sum_size]. lia.
  - cbn [remove_nth sum_size]. rewrite (IH _ _ H). lia.
Qed.

Lemma sum_fds_remove : forall k l m, nth_error l k = Some m ->
  sum_fds (remove_nth k l) = sum_fds l - Z.of_N (m_fds m).
Proof.
  induction k as [|k IH]; intros [|x l] m H; cbn [nth_error] in H; try discriminate.
  - injection H as ->. cbn [remove_nth sum_fds]. lia.
  - cbn [remove_nth sum_fds]. rewrite (IH _ _ H). lia.
Qed.

Lemma sum_size_nonneg l : 0 <= sum_size l.
Proof. induction l as [|x l IH]; cbn [sum_size]; lia. Qed.

Lemma sum_fds_nonneg l : 0 <= sum_fds l.
Proof. induction l as [|x l IH]; cbn [sum_fds]; lia. Qed.

(* ---- (a) accounting: holds for every crossing test and for every event, SetLimits included ------ *)
Record acct (t : transport) : Prop := {
  acct_fn : c_has_fn (t_counter t) = true;
  acct_sg : c_size_guard (t_counter t) = t_max_size t;
  acct_fg : c_fd_guard (t_counter t) = t_max_fds t;
  acct_size : c_size (t_counter t) = sum_size (t_live t);
  acct_fd : c_fd (t_counter t) = sum_fds (t_live t)
}.

Lemma acct_init ms mf : acct (transport_init ms mf).
Proof. split; reflexivity. Qed.

Lemma acct_step cross rc t e t' : acct t -> step cross rc t e = Some t' -> acct t'.
Proof.
  intros [Hfn Hsg Hfg Hs Hf] H. destruct e as [s n|k| |ms mf]; cbn [step] in H.
  - destruct (may_queue_more t); injection H as <-; [|split; assumption].
    split; cbn; try assumption.
    + rewrite sum_size_app, Hs. cbn. lia.
    + rewrite sum_fds_app, Hf. cbn. lia.
  - destruct (nth_error (t_live t) k) as [m|] eqn:Hk; [|discriminate]. injection H as <-.
    split; cbn; try assumption.
    + rewrite (sum_size_remove _ _ _ Hk), Hs. lia.
    + rewrite (sum_fds_remove _ _ _ Hk), Hf. lia.
  - unfold do_notify in H. destruct (c_pending (t_counter t)); injection H as <-.
    + rewrite Hfn. split; cbn; auto.
    + split; cbn; auto.
  - destruct rc; injection H as <-; split; cbn; try reflexivity; assumption.
Qed.

Lemma acct_run cross rc : forall evs t t', acct t -> run cross rc t evs = Some t' -> acct t'.
Proof.
  induction evs as [|e evs IH]; intros t t' Ha H; cbn [run] in H.
  - injection H as <-. exact Ha.
  - destruct (step cross rc t e) as [t1|] eqn:Hs; [|discriminate]. exact (IH _ _ (acct_step _ _ _ _ _ Ha Hs) H).
Qed.

Theorem flow_accounting : forall cross rc ms mf evs t, run cross rc (transport_init ms mf) evs = Some t ->
  c_size (t_counter t) = sum_size (t_live t) /\ c_fd (t_counter t) = sum_fds (t_live t) /\
  0 <= c_size (t_counter t) /\ 0 <= c_fd (t_counter t).
Proof.
  intros cross rc ms mf evs t H. destruct (acct_run _ _ _ _ _ (acct_init ms mf) H) as [_ _ _ Hs Hf].
  rewrite Hs, Hf. repeat split; auto using sum_size_nonneg, sum_fds_nonneg.
Qed.

(* the limits and guards never change without SetLimits *)
Lemma limits_step cross rc t e t' : is_set_limits e = false -> step cross rc t e = Some t' ->
  t_max_size t' = t_max_size t /\ t_max_fds t' = t_max_fds t.
Proof.
  intros He H. destruct e as [s n|k| |ms mf]; cbn [step] in H; try discriminate.
  - destruct (may_queue_more t); injection H as <-; split; reflexivity.
  - destruct (nth_error (t_live t) k); [|discriminate]. injection H as <-. split; reflexivity.
  - destruct (do_notify (t_counter t)) as [c [|]]; injection H as <-; split; reflexivity.
Qed.

Lemma limits_run cross rc : forall evs t0 t, no_set_limits evs = true -> run cross rc t0 evs = Some t ->
  t_max_size t = t_max_size t0 /\ t_max_fds t = t_max_fds t0.
Proof.
  induction evs as [|e evs IH]; intros t0 t Hn H; cbn [run] in H.
  - injection H as <-. auto.
  - cbn [no_set_limits forallb] in Hn. apply andb_prop in Hn. destruct Hn as [He Hn].
    destruct (step cross rc t0 e) as [t1|] eqn:Hs; [|discriminate].
    destruct (limits_step cross rc t0 e t1) as [L1 L2]; auto.
    { destruct (is_set_limits e); [discriminate|reflexivity]. }
    rewrite <- L1, <- L2. apply IH; auto.
Qed.

(* ---- (b) no wedge ------------------------------------------------------------------------------ *)
Definition watch_ok (t : transport) : Prop :=
  c_pending (t_counter t) = false -> t_watch t = below_limits t.

Lemma watch_ok_init ms mf : watch_ok (transport_init ms mf).
Proof. intros _. reflexivity. Qed.

Lemma watch_ok_step t e t' : acct t -> watch_ok t -> fstep t e = Some t' -> watch_ok t'.
Proof.
  intros [Hfn Hsg Hfg _ _] Hw H. unfold fstep in H. destruct e as [s n|k| |ms mf]; cbn [step] in H.
  - destruct (may_queue_more t); injection H as <-; [|exact Hw]. intros _. reflexivity.
  - destruct (nth_error (t_live t) k) as [m|]; [|discriminate]. injection H as <-.
    unfold watch_ok, below_limits in *. cbn. rewrite Hfn, Hsg, Hfg in *. cbn [andb].
    destruct (crossed (c_size (t_counter t)) (c_size (t_counter t) + - Z.of_N (m_size m)) (t_max_size t)) eqn:Hc1.
    { destruct (crossed (c_fd (t_counter t)) _ (t_max_fds t)); discriminate. }
    destruct (crossed (c_fd (t_counter t)) (c_fd (t_counter t) + - Z.of_N (m_fds m)) (t_max_fds t)) eqn:Hc2; [discriminate|].
    intros Hp. rewrite (Hw Hp). apply crossed_false in Hc1, Hc2. rewrite Hc1, Hc2. reflexivity.
  - unfold do_notify in H. destruct (c_pending (t_counter t)) eqn:Hp; injection H as <-.
    + rewrite Hfn. intros _. reflexivity.
    + intros _. cbn. exact (Hw Hp).
  - (* SetLimits: the setter re-evaluates the watch *)
    injection H as <-. intros _. reflexivity.
Qed.

Lemma watch_ok_run : forall evs t t', acct t -> watch_ok t -> frun t evs = Some t' -> watch_ok t'.
Proof.
  induction evs as [|e evs IH]; intros t t' Ha Hw H; unfold frun in *; cbn [run] in H.
  - injection H as <-. exact Hw.
  - destruct (step crossed true t e) as [t1|] eqn:Hs; [|discriminate].
    apply (IH t1 t' (acct_step _ _ _ _ _ Ha Hs)); auto.
    apply (watch_ok_step t e t1); auto.
Qed.

(* THE NO-WEDGE INVARIANT: in every reachable state with no notification pending, the read watch is enabled
   exactly when both values are below their (current) limits.  Every event is allowed, changing the limits included. *)
Theorem flow_no_wedge : forall ms mf evs t, frun (transport_init ms mf) evs = Some t ->
  c_pending (t_counter t) = false -> read_watch_enabled t = below_limits t.
Proof. intros ms mf evs t H. exact (watch_ok_run evs _ _ (acct_init _ _) (watch_ok_init _ _) H). Qed.

(* ... and once the pending notification (if any) has run, nothing is pending, the values are untouched and the watch
   is right.  No hypothesis on pending: this is "once every pending notification has run". *)
Theorem flow_no_wedge_after_notify : forall ms mf evs t,
  frun (transport_init ms mf) evs = Some t ->
  exists t', fstep t Notify = Some t' /\ c_pending (t_counter t') = false /\
             c_size (t_counter t') = c_size (t_counter t) /\ c_fd (t_counter t') = c_fd (t_counter t) /\
             below_limits t' = below_limits t /\ read_watch_enabled t' = below_limits t.
Proof.
  intros ms mf evs t H.
  pose proof (acct_run _ _ _ _ _ (acct_init ms mf) H) as Ha.
  pose proof (watch_ok_run evs _ _ (acct_init _ _) (watch_ok_init _ _) H) as Hw.
  destruct Ha as [Hfn _ _ _ _]. unfold fstep. cbn [step]. unfold do_notify.
  destruct (c_pending (t_counter t)) eqn:Hp.
  - rewrite Hfn. eexists. split; [reflexivity|]. repeat split.
  - eexists. split; [reflexivity|]. cbn. repeat split; auto.
Qed.

(* The exact statement that `<` vs `<=` decides: a release that takes the connection from "at or above a limit"
   (watch disabled) to "below both limits" leaves a notification pending -- so the watch will be re-enabled. *)
Theorem flow_release_wakes : forall ms mf evs t k t', frun (transport_init ms mf) evs = Some t ->
  fstep t (Release k) = Some t' -> below_limits t = false -> below_limits t' = true ->
  c_pending (t_counter t') = true.
Proof.
  intros ms mf evs t k t' H Hs Hb Hb'.
  destruct (acct_run _ _ _ _ _ (acct_init ms mf) H) as [Hfn Hsg Hfg _ _].
  unfold fstep in Hs. cbn [step] in Hs. destruct (nth_error (t_live t) k) as [m|]; [|discriminate]. injection Hs as <-.
  unfold below_limits in *. cbn in *. rewrite Hfn, Hsg, Hfg. cbn [andb].
  assert (Hc : crossed (c_size (t_counter t)) (c_size (t_counter t) + - Z.of_N (m_size m)) (t_max_size t) = true \/
               crossed (c_fd (t_counter t)) (c_fd (t_counter t) + - Z.of_N (m_fds m)) (t_max_fds t) = true)
    by (unfold crossed; lia).
  destruct Hc as [Hc|Hc]; rewrite Hc.
  - destruct (crossed (c_fd (t_counter t)) _ (t_max_fds t)); reflexivity.
  - reflexivity.
Qed.

(* the task's wording: "a notification is pending or the watch is already enabled" *)
Corollary flow_release_wakes_or : forall ms mf evs t k t', frun (transport_init ms mf) evs = Some t ->
  fstep t (Release k) = Some t' -> below_limits t = false -> below_limits t' = true ->
  c_pending (t_counter t') = true \/ read_watch_enabled t' = true.
Proof. intros. left. eapply flow_release_wakes; eauto. Qed.

(* dbus_message_unref in one thread (free_counter: adjusts, then _dbus_counter_notify): the watch is right immediately *)
Theorem flow_unref_immediate : forall ms mf evs t k t',
  frun (transport_init ms mf) evs = Some t -> frun t (unref k) = Some t' ->
  c_pending (t_counter t') = false /\ read_watch_enabled t' = below_limits t'.
Proof.
  intros ms mf evs t k t' H Hu. unfold frun, unref in Hu. cbn [run] in Hu.
  destruct (step crossed true t (Release k)) as [t1|] eqn:H1; [|discriminate].
  destruct (step crossed true t1 Notify) as [t2|] eqn:H2; [|discriminate]. injection Hu as <-.
  assert (Hr : frun (transport_init ms mf) (evs ++ [Release k]) = Some t1).
  { unfold frun in *. clear -H H1. revert H. generalize (transport_init ms mf).
    induction evs as [|e evs IH]; intros t0 H; cbn [run app] in *.
    - injection H as ->. rewrite H1. reflexivity.
    - destruct (step crossed true t0 e); [|discriminate]. apply IH. exact H. }
  destruct (flow_no_wedge_after_notify _ _ _ _ Hr) as [t2' [Hs [Hp [_ [_ [Hb Hw]]]]]].
  unfold fstep in Hs. rewrite H2 in Hs. injection Hs as <-. split; [exact Hp|]. rewrite Hb. exact Hw.
Qed.

(* C11 at flow-control level: whether the next message can be taken does not depend on where its bytes are.  Bytes
   still in the socket need the read watch; bytes already in the loader need the dispatch-status test.  The two agree
   (the second is the first, for all states; the first is the watch, in quiescent reachable states). *)
Theorem flow_socket_equals_loader : forall ms mf evs t,
  frun (transport_init ms mf) evs = Some t -> c_pending (t_counter t) = false ->
  read_watch_enabled t = may_queue_more t.
Proof. intros. rewrite may_queue_is_below. eapply flow_no_wedge; eauto. Qed.

(* ---- (c) overshoot ------------------------------------------------------------------------------- *)
Definition bounded (M F : Z) (t : transport) : Prop :=
  c_size (t_counter t) < t_max_size t + M /\ c_fd (t_counter t) < t_max_fds t + F.

Lemma bounded_step M F t e t' : 0 <= M -> 0 <= F -> acct t -> bounded M F t -> is_set_limits e = false ->
  match e with Arrive s n => Z.of_N s <= M /\ Z.of_N n <= F | _ => True end ->
  fstep t e = Some t' -> bounded M F t'.
Proof.
  intros HM HF Ha [Hbs Hbf] He Hw H. unfold fstep in H. destruct e as [s n|k| |ms mf]; cbn [step] in H; try discriminate.
  - destruct (may_queue_more t) eqn:Hq; injection H as <-; [|split; assumption].
    unfold may_queue_more in Hq. unfold bounded. cbn. lia.
  - destruct (nth_error (t_live t) k) as [m|]; [|discriminate]. injection H as <-. unfold bounded. cbn. lia.
  - unfold do_notify in H. destruct (c_pending (t_counter t)); [destruct (c_has_fn (t_counter t))|]; injection H as <-;
      unfold bounded; cbn; split; assumption.
Qed.

Theorem flow_overshoot : forall ms mf M F evs t, 0 < ms -> 0 < mf -> 0 <= M -> 0 <= F ->
  no_set_limits evs = true -> arrivals_within M F evs -> frun (transport_init ms mf) evs = Some t ->
  c_size (t_counter t) < ms + M /\ c_fd (t_counter t) < mf + F.
Proof.
  intros ms mf M F evs t Hms Hmf HM HF Hn Hw H.
  assert (G : forall evs t0 t, acct t0 -> bounded M F t0 -> no_set_limits evs = true -> arrivals_within M F evs ->
              frun t0 evs = Some t -> bounded M F t /\ t_max_size t = t_max_size t0 /\ t_max_fds t = t_max_fds t0).
  { clear -HM HF. induction evs as [|e evs IH]; intros t0 t Ha Hb Hn Hw H; unfold frun in *; cbn [run] in H.
    - injection H as <-. auto.
    - cbn [no_set_limits forallb] in Hn. apply andb_prop in Hn. destruct Hn as [He Hn].
      assert (He' : is_set_limits e = false) by (destruct (is_set_limits e); [discriminate|reflexivity]).
      inversion Hw as [|? ? Hw1 Hw2]; subst.
      destruct (step crossed true t0 e) as [t1|] eqn:Hs; [|discriminate].
      destruct (limits_step _ _ _ _ _ He' Hs) as [L1 L2].
      destruct (IH t1 t (acct_step _ _ _ _ _ Ha Hs)) as [B [L3 L4]]; auto.
      + eapply bounded_step; eauto.
      + split; [exact B|]. split; congruence. }
  destruct (G evs (transport_init ms mf) t (acct_init _ _)) as [[B1 B2] [L1 L2]]; auto.
  - unfold bounded. cbn. lia.
  - rewrite L1, L2 in *. cbn in *. auto.
Qed.

(* at or above a limit nothing more is queued: the refused message stays in the loader / the socket *)
Theorem flow_refused_at_limit : forall t s n, may_queue_more t = false -> fstep t (Arrive s n) = Some t.
Proof. intros t s n H. unfold fstep. cbn [step]. rewrite H. reflexivity. Qed.

(* ... and below both limits a message of ANY size is taken: the test is made before, not after *)
Theorem flow_taken_below_limit : forall t s n, may_queue_more t = true ->
  exists t', fstep t (Arrive s n) = Some t' /\
             c_size (t_counter t') = c_size (t_counter t) + Z.of_N s /\ c_fd (t_counter t') = c_fd (t_counter t) + Z.of_N n /\
             t_live t' = t_live t ++ [mkMsg s n].
Proof. intros t s n H. unfold fstep. cbn [step]. rewrite H. eexists. split; [reflexivity|]. cbn. auto. Qed.

(* the bound of flow_overshoot is reached: limit 100, messages of at most 50 bytes: 99 + 50 = 149 = 100 + 50 - 1 *)
Example flow_overshoot_tight :
  exists evs t, arrivals_within 50 0 evs /\ frun (transport_init 100 10) evs = Some t /\ c_size (t_counter t) = 100 + 50 - 1.
Proof.
  exists [Arrive 49 0; Arrive 50 0; Arrive 50 0], (mkT (mkCounter 149 0 100 10 true true) 100 10 [mkMsg 49 0; mkMsg 50 0; mkMsg 50 0] false).
  split; [|split; vm_compute; reflexivity].
  repeat constructor; vm_compute; discriminate.
Qed.

(* ---- C13: capacity freed becomes usable again -------------------------------------------------- *)
Theorem flow_capacity_reusable : forall ms mf evs t, frun (transport_init ms mf) evs = Some t ->
  0 < t_max_size t -> 0 < t_max_fds t -> t_live t = [] ->
  exists t', fstep t Notify = Some t' /\ read_watch_enabled t' = true /\ may_queue_more t' = true.
Proof.
  intros ms mf evs t H Hms Hmf Hl.
  destruct (flow_no_wedge_after_notify _ _ _ _ H) as [t' [Hs [_ [_ [_ [Hb Hw]]]]]].
  exists t'. split; [exact Hs|].
  assert (Hbt : below_limits t = true).
  { destruct (acct_run _ _ _ _ _ (acct_init ms mf) H) as [_ _ _ Hsz Hfd].
    unfold below_limits. rewrite Hsz, Hfd, Hl. cbn. lia. }
  split; [rewrite Hw; exact Hbt|]. rewrite may_queue_is_below, Hb. exact Hbt.
Qed.

(* changing the limits of a live connection (dbus_connection_set_max_received_size / _unix_fds): nothing is pending
   afterwards and the watch is right for the NEW limits at once *)
Theorem flow_set_limits_immediate : forall ms mf evs t ms' mf' t', frun (transport_init ms mf) evs = Some t ->
  fstep t (SetLimits ms' mf') = Some t' ->
  c_pending (t_counter t') = false /\ t_max_size t' = ms' /\ t_max_fds t' = mf' /\
  c_size (t_counter t') = c_size (t_counter t) /\ c_fd (t_counter t') = c_fd (t_counter t) /\
  read_watch_enabled t' = below_limits t'.
Proof. intros ms mf evs t ms' mf' t' _ H. unfold fstep in H. cbn [step] in H. injection H as <-. repeat split. Qed.

(* ---- the seeded variant (/verif/seeded/C11_4: crossed_guard with <=) ---------------------------- *)
(* value EXACTLY on the limit: limit 100, one message of 100 bytes arrives (watch off: 100 >= 100; `<=` sees no
   crossing), it is released (100 <= 100 and 0 <= 100: no crossing, nothing pending), the notification "runs":
   0 live bytes, nothing pending, watch disabled for ever. *)
Definition seeded_witness : list event := [Arrive 100 0; Release 0; Notify].

Theorem flow_no_wedge_seeded_refuted :
  exists ms mf evs t, no_set_limits evs = true /\ srun (transport_init ms mf) evs = Some t /\
    c_pending (t_counter t) = false /\ below_limits t = true /\ t_live t = [] /\ read_watch_enabled t = false.
Proof.
  exists 100, 10, seeded_witness, (mkT (mkCounter 0 0 100 10 true false) 100 10 [] false).
  vm_compute. repeat split; reflexivity.
Qed.

Theorem flow_release_wakes_seeded_refuted :
  exists ms mf evs t k t', srun (transport_init ms mf) evs = Some t /\ step crossed_seeded true t (Release k) = Some t' /\
    c_size (t_counter t) = t_max_size t /\
    below_limits t = false /\ below_limits t' = true /\ c_pending (t_counter t') = false /\ read_watch_enabled t' = false.
Proof.
  exists 100, 10, [Arrive 100 0], (mkT (mkCounter 100 0 100 10 true false) 100 10 [mkMsg 100 0] false), 0%nat,
         (mkT (mkCounter 0 0 100 10 true false) 100 10 [] false).
  vm_compute. repeat split; reflexivity.
Qed.

(* the same for the descriptor count: limit 2, a message with exactly 2 descriptors *)
Theorem flow_no_wedge_seeded_refuted_fds :
  exists ms mf evs t, no_set_limits evs = true /\ srun (transport_init ms mf) evs = Some t /\
    c_pending (t_counter t) = false /\ below_limits t = true /\ read_watch_enabled t = false.
Proof.
  exists 1000, 2, [Arrive 100 2; Release 0; Notify], (mkT (mkCounter 0 0 1000 2 true false) 1000 2 [] false).
  vm_compute. repeat split; reflexivity.
Qed.

(* one byte off the limit the seeded test still works in this scenario, and so does a next message that is
   already in the loader (it is queued by the dispatch-status test, whose direct check_read_watch heals the watch):
   this is why the unsplit stream works and only some partitions hang *)
Example seeded_one_below : exists t, srun (transport_init 100 10) [Arrive 99 0; Release 0; Notify] = Some t /\ read_watch_enabled t = true.
Proof. eexists. split; [vm_compute; reflexivity|reflexivity]. Qed.
Example seeded_one_above : exists t, srun (transport_init 100 10) [Arrive 101 0; Release 0; Notify] = Some t /\ read_watch_enabled t = true.
Proof. eexists. split; [vm_compute; reflexivity|reflexivity]. Qed.
Example seeded_heals_from_loader : exists t, srun (transport_init 100 10) (seeded_witness ++ [Arrive 16 0]) = Some t /\ read_watch_enabled t = true.
Proof. eexists. split; [vm_compute; reflexivity|reflexivity]. Qed.
(* the faithful machine on the same witness *)
Example faithful_on_witness : exists t, frun (transport_init 100 10) seeded_witness = Some t /\ read_watch_enabled t = true.
Proof. eexists. split; [vm_compute; reflexivity|reflexivity]. Qed.

(* ---- changing the limits of a live connection, before /repo d42cc8a --------------------------------- *)
(* _dbus_transport_set_max_received_size re-installed the guards with _dbus_counter_set_notify, which clears
   notify_pending, and did NOT call check_read_watch (machine prun: recheck = false).  Raising a limit that the
   connection had reached left the watch disabled with nothing pending, and because the value was then BELOW the new
   guard no later release crossed it.  The machine as it is now (frun) is right on the same events. *)
Definition set_limits_witness : list event := [Arrive 100 0; SetLimits 200 10; Release 0; Notify].

Theorem flow_set_limits_prefix_refuted :
  exists ms mf evs t, prun (transport_init ms mf) evs = Some t /\
    c_pending (t_counter t) = false /\ below_limits t = true /\ t_live t = [] /\ read_watch_enabled t = false.
Proof.
  exists 100, 10, set_limits_witness, (mkT (mkCounter 0 0 200 10 true false) 200 10 [] false).
  vm_compute. repeat split; reflexivity.
Qed.

Example faithful_on_set_limits_witness :
  exists t, frun (transport_init 100 10) set_limits_witness = Some t /\ read_watch_enabled t = true /\ t_live t = [].
Proof. eexists. split; [vm_compute; reflexivity|]. split; reflexivity. Qed.
