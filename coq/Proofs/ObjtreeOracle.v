(* C20 proofs, part 3: the executable forms of the specification that the
   correspondence run evaluates (s_known_object_b, s_children, s_dispatch) say
   the same as the declarative forms used in the theorems. *)
From DV Require Import Lib.Base ObjTree.ObjTree Spec.ObjtreeSpec Proofs.ObjtreeOrder Proofs.ObjtreeProofs.
From Coq Require Import Sorted Arith.
Local Open Scope nat_scope.

Lemma is_prefix_spec : forall p k, is_prefix p k = true <-> exists q, k = p ++ q.
Proof.
  induction p as [|x p IH]; intros k; simpl.
  - split; eauto.
  - destruct k as [|y k].
    + split; [discriminate | intros [q Hq]; discriminate].
    + rewrite andb_true_iff, bytes_eqb_eq, IH. split.
      * intros [-> [q ->]]. eauto.
      * intros [q Hq]. inversion Hq; subst. eauto.
Qed.

Lemma s_lookup_in s x r : s_lookup s x = Some r -> exists k, In (k, r) s /\ k = x.
Proof.
  induction s as [|[k r0] s IH]; simpl; [discriminate|].
  destruct (path_eqb k x) eqn:E.
  - intros H; inversion H; subst. apply path_eqb_eq in E. eauto.
  - intros H. destruct (IH H) as (k' & Hin & Hk). eauto.
Qed.

Lemma In_all_prefixes q1 q2 : In q1 (all_prefixes (q1 ++ q2)).
Proof.
  unfold all_prefixes. apply in_map_iff. exists (length q1). split.
  - rewrite firstn_app, firstn_all, Nat.sub_diag. simpl. apply app_nil_r.
  - apply in_seq. rewrite app_length. lia.
Qed.

Lemma known_object_b_correct s p : s_known_object_b s p = true <-> s_known_object s p.
Proof.
  unfold s_known_object_b, s_known_object. rewrite orb_true_iff, !existsb_exists. split.
  - intros [([k r] & Hin & H) | (q & Hin & H)].
    + simpl in H. apply andb_true_iff in H. destruct H as [H1 H2]. apply is_prefix_spec in H1.
      destruct H1 as [q ->]. left. exists q. unfold s_registered. destruct (s_lookup s (p ++ q)); congruence.
    + right. unfold all_prefixes in Hin. apply in_map_iff in Hin. destruct Hin as (k & <- & _).
      destruct (s_lookup s (firstn k p)) as [[h [|]]|] eqn:E; try discriminate.
      exists (firstn k p), (skipn k p), h. split; auto. symmetry; apply firstn_skipn.
  - intros [[q Hq] | (q1 & q2 & h & -> & Hq)].
    + left. unfold s_registered in Hq. destruct (s_lookup s (p ++ q)) as [r|] eqn:E; [|congruence].
      destruct (s_lookup_in _ _ _ E) as (k & Hin & ->). exists (p ++ q, r). split; auto. simpl.
      rewrite E. rewrite andb_true_r. apply is_prefix_spec. eauto.
    + right. exists q1. split; [apply In_all_prefixes|]. rewrite Hq. reflexivity.
Qed.

(* ---- child listing ------------------------------------------------------------------ *)
Lemma insert_name_in e l x : In x (insert_name e l) <-> x = e \/ In x l.
Proof.
  induction l as [|y l IH]; simpl.
  - split; [intros [<-|[]]; auto | intros [->|[]]; auto].
  - destruct (bytes_cmp e y) eqn:E; simpl.
    + apply bytes_cmp_eq in E; subst. split; auto. intros [->|H]; auto.
    + split; [intros [<-|H]; auto | intros [->|H]; auto].
    + rewrite IH. split; [intros [<-|[->|H]]; auto | intros [->|[<-|H]]; auto].
Qed.

Lemma insert_name_sorted e l : StronglySorted blt l -> StronglySorted blt (insert_name e l).
Proof.
  induction 1 as [|y l S IH F]; simpl.
  - constructor; constructor.
  - destruct (bytes_cmp e y) eqn:E.
    + constructor; auto.
    + constructor; [constructor; auto|]. constructor; auto.
      rewrite Forall_forall in *. intros x Hx. eapply blt_trans; [exact E | auto].
    + constructor; auto. apply bytes_cmp_gt in E. rewrite Forall_forall in *.
      intros x Hx. apply insert_name_in in Hx. destruct Hx as [->|Hx]; auto.
Qed.

Lemma skipn_app_exact {A} (p q : list A) : skipn (length p) (p ++ q) = q.
Proof. induction p; simpl; auto. Qed.

Lemma s_children_correct s p :
  StronglySorted blt (s_children s p) /\ forall e, In e (s_children s p) <-> s_child s p e.
Proof.
  unfold s_children, s_child, s_registered.
  set (f := fun (e : path * registration) (acc : list bytes) =>
              if is_prefix p (fst e) && match s_lookup s (fst e) with Some _ => true | None => false end
              then match skipn (length p) (fst e) with x :: _ => insert_name x acc | [] => acc end
              else acc).
  assert (G : forall l, StronglySorted blt (fold_right f [] l) /\
                        forall e, In e (fold_right f [] l) <->
                                  exists k r q, In (k, r) l /\ k = p ++ e :: q /\ s_lookup s k <> None).
  { induction l as [|[k r] l [IHs IHm]]; simpl.
    - split; [constructor|]. intros e. split; [intros [] | intros (? & ? & ? & [] & _)].
    - unfold f at 1 3. simpl.
      destruct (is_prefix p k && match s_lookup s k with Some _ => true | None => false end) eqn:E.
      + apply andb_true_iff in E. destruct E as [E1 E2]. apply is_prefix_spec in E1. destruct E1 as [q0 ->].
        rewrite skipn_app_exact. destruct q0 as [|x q0].
        * split; auto. intros e. rewrite IHm. split.
          -- intros (k & r' & q & Hin & Hk & Hl). exists k, r', q. auto.
          -- intros (k & r' & q & [Hin|Hin] & Hk & Hl); [|exists k, r', q; auto].
             inversion Hin; subst. rewrite app_nil_r in H0. exfalso.
             assert (L : length p = length (p ++ e :: q)) by (rewrite <- H0; reflexivity).
             rewrite app_length in L. simpl in L. lia.
        * split; [apply insert_name_sorted; auto|]. intros e. rewrite insert_name_in, IHm. split.
          -- intros [->|(k & r' & q & Hin & Hk & Hl)].
             ++ exists (p ++ x :: q0), r, q0. splits; auto. destruct (s_lookup s (p ++ x :: q0)); congruence.
             ++ exists k, r', q. auto.
          -- intros (k & r' & q & [Hin|Hin] & Hk & Hl).
             ++ inversion Hin; subst. apply app_inv_head in H0. inversion H0; auto.
             ++ right. exists k, r', q. auto.
      + split; auto. intros e. rewrite IHm. split.
        * intros (k' & r' & q & Hin & Hk & Hl). exists k', r', q. auto.
        * intros (k' & r' & q & [Hin|Hin] & Hk & Hl); [|exists k', r', q; auto].
          inversion Hin; subst. exfalso. apply andb_false_iff in E. destruct E as [E|E].
          -- assert (is_prefix p (p ++ e :: q) = true) by (apply is_prefix_spec; eauto). congruence.
          -- destruct (s_lookup s (p ++ e :: q)); congruence. }
  destruct (G s) as [Gs Gm]. split; auto. intros e. rewrite Gm. split.
  - intros (k & r & q & _ & -> & Hl). eauto.
  - intros [q Hq]. destruct (s_lookup s (p ++ e :: q)) as [r|] eqn:E; [|congruence].
    destruct (s_lookup_in _ _ _ E) as (k & Hin & ->). exists (p ++ e :: q), r, q. splits; auto. congruence.
Qed.

(* strictly sorted lists with the same members are equal *)
Lemma sorted_same_members : forall l1 l2,
  StronglySorted blt l1 -> StronglySorted blt l2 -> (forall e, In e l1 <-> In e l2) -> l1 = l2.
Proof.
  induction l1 as [|x l1 IH]; intros l2 S1 S2 H.
  - destruct l2 as [|y l2]; auto. exfalso. apply (H y). left; reflexivity.
  - destruct l2 as [|y l2]; [exfalso; apply (H x); left; reflexivity|].
    inversion S1 as [|? ? S1' F1]; inversion S2 as [|? ? S2' F2]; subst.
    rewrite Forall_forall in F1, F2.
    assert (x = y).
    { destruct (proj1 (H x) (or_introl eq_refl)) as [->|Hx]; auto.
      destruct (proj2 (H y) (or_introl eq_refl)) as [->|Hy]; auto.
      exfalso. apply (blt_irrefl x). eapply blt_trans; [apply F1; exact Hy | apply F2; exact Hx]. }
    subst y. f_equal. apply IH; auto. intros e. split; intros He.
    + destruct (proj1 (H e) (or_intror He)) as [<-|]; auto. exfalso. exact (blt_irrefl _ (F1 _ He)).
    + destruct (proj2 (H e) (or_intror He)) as [<-|]; auto. exfalso. exact (blt_irrefl _ (F2 _ He)).
Qed.

(* the model's child listing equals the executable oracle, for all histories *)
Lemma children_oracle ops p : exists t, run ops = Ok t /\ list_registered t p = Ok (s_children (s_run ops) p).
Proof.
  destruct (children_correct ops p) as (t & l & Er & El & Hs & Hm). exists t. split; auto. rewrite El. f_equal.
  destruct (s_children_correct (s_run ops) p) as [Os Om].
  apply sorted_same_members; auto. intros e. rewrite Hm, Om. reflexivity.
Qed.

(* the model's dispatch equals the executable oracle whenever the error clause is not at stake *)
Lemma dispatch_oracle ops p accepts :
  exists t inv out, run ops = Ok t /\ tree_dispatch t p accepts = Ok (inv, out) /\
    inv = fst (s_dispatch (s_run ops) p accepts) /\
    (out = snd (s_dispatch (s_run ops) p accepts) \/
     (out = UnknownMethod /\ snd (s_dispatch (s_run ops) p accepts) = UnknownObject)).
Proof.
  destruct (run_refines ops) as (t & Er & R). pose proof R as [W A].
  assert (Eo : offered_at t p = s_offered (s_run ops) p).
  { rewrite s_offered_is, <- (offered_m_ext (amap t)) by auto. apply offered_at_amap. }
  exists t. eexists. eexists. split; auto. split; [apply tree_dispatch_ok; auto|].
  rewrite Eo, invoke_take_until. unfold s_dispatch. simpl. split; auto.
  destruct (existsb accepts (s_offered (s_run ops) p)); auto.
  destruct (s_known_object_b (s_run ops) p) eqn:K.
  - apply known_object_b_correct in K. rewrite (known_object_found t _ p R K). auto.
  - destruct (found_at t p); auto.
Qed.
