(* Generic facts about transaction programs (Oom.Machine), independent of
   the handlers:

   - interp_oblivious: a run that is not hit by a failure computes exactly
     what the unfailed run computes (the allocation counter is the only thing
     that differs);
   - safe / interp_safe: if every state change of a program registers hooks
     that lead back (up to R) to the state before the request - or is the very
     last instruction - then at every point where the program can give up, the
     hook stack undoes everything;
   - run_request_atomic, run_request_outputs: what bus_dispatch's out: label
     makes of that. *)
From DV Require Import Spec.OomSpec.
Local Open Scope N_scope.

Lemma any_fail_none i n : any_fail no_fail i n = false.
Proof. revert i; induction n as [|n IH]; intros i; simpl; auto. Qed.

(* two machine states that differ at most in the allocation counter *)
Definition agree (s s0 : st) : Prop :=
  s_bus s = s_bus s0 /\ s_msgs s = s_msgs s0 /\ s_hooks s = s_hooks s0.

Lemma agree_refl s : agree s s.
Proof. repeat split. Qed.

Lemma interp_oblivious A (p : prog A) F : forall s s0, agree s s0 ->
  match interp F p s with
  | Ok a s' => exists s0', interp no_fail p s0 = Ok a s0' /\ agree s' s0'
  | Err e s' => exists s0', interp no_fail p s0 = Err e s0' /\ agree s' s0'
  | Halt => interp no_fail p s0 = Halt
  | Oom _ => True
  end.
Proof.
  induction p as [a|e| |k IH|o k IH|k IH|a k IH]; intros s s0 Hag; simpl.
  - exists s0; auto.
  - exists s0; auto.
  - reflexivity.
  - destruct (F (s_i s)); [exact I|].
    unfold no_fail at 1. apply IH. destruct Hag as (H1 & H2 & H3). repeat split; simpl; auto.
  - destruct Hag as (H1 & H2 & H3). rewrite <- H2.
    destruct (any_fail F (s_i s) (stage_cost (s_msgs s) o)); [exact I|].
    rewrite any_fail_none. apply IH. repeat split; simpl; auto.
  - destruct Hag as (H1 & H2 & H3). rewrite <- H1. apply IH. repeat split; auto.
  - destruct Hag as (H1 & H2 & H3). rewrite <- H1.
    destruct (do_action a (s_bus s)) as [[b' hs]|]; [|reflexivity].
    apply IH. repeat split; simpl; auto. rewrite H3; reflexivity.
Qed.

Lemma cancel_all_app hs1 hs2 b :
  cancel_all (hs1 ++ hs2) b = match cancel_all hs1 b with Some b' => cancel_all hs2 b' | None => None end.
Proof.
  revert b; induction hs1 as [|h r IH]; intros b; simpl; auto.
  destruct (cancel_hook h b); auto.
Qed.

Section Safe.
  Variable R : bus -> bus -> Prop.
  Variable b0 : bus.

  (* running the hook stack from here leads back to the state before the request *)
  Definition undoes (hs : list hook) (b : bus) : Prop :=
    exists bc, cancel_all hs b = Some bc /\ R bc b0.

  Inductive safe {A} : bus -> list hook -> prog A -> Prop :=
  | safe_ret b hs a : safe b hs (Ret a)
  | safe_fail b hs e : safe b hs (Fail e)
  | safe_alloc b hs k : safe b hs k -> safe b hs (Alloc k)
  | safe_stage b hs o k : safe b hs k -> safe b hs (Stage o k)
  | safe_get b hs k : safe b hs (k b) -> safe b hs (Get k)
  | safe_act b hs a k b' hs' :
      do_action a b = Some (b', hs') -> undoes (hs' ++ hs) b' -> safe b' (hs' ++ hs) k -> safe b hs (Act a k)
  | safe_last b hs a x b' hs' :           (* a final state change: nothing can fail after it *)
      do_action a b = Some (b', hs') -> safe b hs (Act a (Ret x)).

  Lemma undoes_step hs hs' b b' :
    cancel_all hs' b' = Some b -> undoes hs b -> undoes (hs' ++ hs) b'.
  Proof.
    intros H (bc & Hc & HR). exists bc. rewrite cancel_all_app, H. auto.
  Qed.

  Lemma interp_safe A (p : prog A) F b hs :
    safe b hs p -> undoes hs b -> forall msgs i,
    match interp F p (mkSt b msgs hs i) with
    | Oom s => undoes (s_hooks s) (s_bus s)
    | Err e s => undoes (s_hooks s) (s_bus s)
    | Ok a s => True
    | Halt => False
    end.
  Proof.
    induction 1 as [b hs a|b hs e|b hs k Hs IH|b hs o k Hs IH|b hs k Hs IH|b hs a k b' hs' Hd Hu Hs IH|b hs a x b' hs' Hd];
      intros Hun msgs i; simpl.
    - exact I.
    - exact Hun.
    - destruct (F i); [exact Hun|]. apply IH; exact Hun.
    - destruct (any_fail F i (stage_cost msgs o)); [exact Hun|]. apply IH; exact Hun.
    - apply IH; exact Hun.
    - rewrite Hd. apply IH; exact Hu.
    - rewrite Hd. exact I.
  Qed.
End Safe.

Arguments safe R b0 {A} _ _ _.

Lemma agree_executed s s0 : agree s s0 -> executed s = executed s0.
Proof. intros (H1 & H2 & H3). unfold executed. rewrite H1, H2, H3. reflexivity. Qed.

Lemma safe_error_reply R b0 b hs act c e : safe R b0 b hs (error_reply act c e).
Proof.
  unfold error_reply, send_from_driver, alloc, stage. destruct act; simpl; repeat constructor.
Qed.

(* bus_dispatch around a safe handler *)
Theorem run_request_atomic (R : bus -> bus -> Prop) F c p b0 :
  R b0 b0 ->
  safe R b0 b0 [] (allocs 3 ;;; p) ->
  run_request F c p b0 = run_request no_fail c p b0 \/
  (exists b', run_request F c p b0 = OOk b' [(c, MError ENoMemory)] /\ R b' b0).
Proof.
  intros Hrefl Hsafe. unfold run_request.
  set (s0 := mkSt b0 [] [] 0).
  assert (Hun : undoes R b0 [] b0) by (exists b0; simpl; auto).
  pose proof (interp_oblivious _ (allocs 3 ;;; p) F s0 s0 (agree_refl s0)) as Hob.
  pose proof (interp_safe R b0 _ (allocs 3 ;;; p) F b0 [] Hsafe Hun [] 0) as Hsf.
  fold s0 in Hsf.
  destruct (interp F (allocs 3 ;;; p) s0) as [a s|s|e s|].
  - destruct Hob as (s' & -> & Hag). left. apply agree_executed; exact Hag.
  - right. unfold cancelled. destruct Hsf as (bc & -> & HR). exists bc; auto.
  - destruct Hob as (s' & -> & Hag).
    assert (Hact : is_active (s_bus s) c = is_active (s_bus s') c) by (destruct Hag as (-> & _); reflexivity).
    rewrite <- Hact.
    pose proof (interp_oblivious _ (error_reply (is_active (s_bus s) c) c e) F s s' Hag) as Hob2.
    destruct s as [sb sm sh si]. simpl in Hsf.
    pose proof (interp_safe R b0 _ (error_reply (is_active sb c) c e) F sb sh (safe_error_reply R b0 sb sh _ c e) Hsf sm si) as Hsf2.
    simpl s_bus in *.
    destruct (interp F (error_reply (is_active sb c) c e) (mkSt sb sm sh si)) as [a2 s2|s2|e2 s2|].
    + destruct Hob2 as (s2' & -> & Hag2). left. apply agree_executed; exact Hag2.
    + right. unfold cancelled. destruct Hsf2 as (bc & -> & HR). exists bc; auto.
    + destruct Hob2 as (s2' & -> & _). left; reflexivity.
    + destruct Hsf2.
  - destruct Hsf.
Qed.

(* bus_dispatch around any handler: the clients see everything or only the NoMemory error *)
Theorem run_request_outputs F c p b :
  run_request F c p b = run_request no_fail c p b \/
  run_request F c p b = OStop \/
  (exists b', run_request F c p b = OOk b' [(c, MError ENoMemory)]).
Proof.
  unfold run_request.
  set (s0 := mkSt b [] [] 0).
  pose proof (interp_oblivious _ (allocs 3 ;;; p) F s0 s0 (agree_refl s0)) as Hob.
  destruct (interp F (allocs 3 ;;; p) s0) as [a s|s|e s|].
  - destruct Hob as (s' & -> & Hag). left. apply agree_executed; exact Hag.
  - right. unfold cancelled. destruct (cancel_all (s_hooks s) (s_bus s)); [right; eauto|left; reflexivity].
  - destruct Hob as (s' & -> & Hag).
    assert (Hact : is_active (s_bus s) c = is_active (s_bus s') c) by (destruct Hag as (-> & _); reflexivity).
    rewrite <- Hact.
    pose proof (interp_oblivious _ (error_reply (is_active (s_bus s) c) c e) F s s' Hag) as Hob2.
    destruct (interp F (error_reply (is_active (s_bus s) c) c e) s) as [a2 s2|s2|e2 s2|].
    + destruct Hob2 as (s2' & -> & Hag2). left. apply agree_executed; exact Hag2.
    + right. unfold cancelled. destruct (cancel_all (s_hooks s2) (s_bus s2)); [right; eauto|left; reflexivity].
    + right; left; reflexivity.
    + right; left; reflexivity.
  - right; left; reflexivity.
Qed.

(* a safe handler never stops the daemon *)
Theorem run_request_safe_runs (R : bus -> bus -> Prop) F c p b0 :
  R b0 b0 -> safe R b0 b0 [] (allocs 3 ;;; p) -> run_request F c p b0 <> OStop.
Proof.
  intros Hrefl Hsafe. unfold run_request.
  assert (Hun : undoes R b0 [] b0) by (exists b0; simpl; auto).
  pose proof (interp_safe R b0 _ (allocs 3 ;;; p) F b0 [] Hsafe Hun [] 0) as Hsf.
  destruct (interp F (allocs 3 ;;; p) (mkSt b0 [] [] 0)) as [a s|s|e s|].
  - discriminate.
  - unfold cancelled. destruct Hsf as (bc & -> & _). discriminate.
  - destruct s as [sb sm sh si]. simpl in Hsf.
    pose proof (interp_safe R b0 _ (error_reply (is_active sb c) c e) F sb sh (safe_error_reply R b0 sb sh _ c e) Hsf sm si) as Hsf2.
    simpl s_bus.
    pose proof (interp_oblivious _ (error_reply (is_active sb c) c e) F (mkSt sb sm sh si) (mkSt sb sm sh si) (agree_refl _)) as Hob.
    destruct (interp F (error_reply (is_active sb c) c e) (mkSt sb sm sh si)) as [a2 s2|s2|e2 s2|] eqn:E2.
    + discriminate.
    + unfold cancelled. destruct Hsf2 as (bc & -> & _). discriminate.
    + (* error_reply never sets an error of its own *)
      exfalso. clear - E2. unfold error_reply, send_from_driver, alloc, stage in E2.
      destruct (is_active sb c); simpl in E2;
        repeat match type of E2 with (if ?x then _ else _) = _ => destruct x; try discriminate end.
    + destruct Hsf2.
  - destruct Hsf.
Qed.
