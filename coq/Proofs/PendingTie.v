(* C17: the constants the model takes from the C text, checked against the
   tables regenerated from /repo on every run (coq/Gen/PendingTables.v, by
   tools/gen/pending.py: the C compiler runs the lifted function body / macro). *)
From Coq Require Import List NArith ZArith Bool.
Import ListNotations.
From DV Require Import Gen.PendingTables PendingCall.Pending.
Local Open Scope N_scope.

(* _dbus_connection_get_next_client_serial, including the wrap from 2^32-1 to 1 *)
Lemma tie_next_serial :
  forallb (fun '(c, (s, c')) => let '(s1, c1) := next_serial c in (s1 =? s) && (c1 =? c')) next_serial_samples = true.
Proof. vm_compute. reflexivity. Qed.

Lemma tie_initial_serial : serial init = initial_client_serial.
Proof. vm_compute. reflexivity. Qed.

(* RANDOM_INDEX with the initial table parameters *)
Lemma tie_bucket : forallb (fun '(k, b) => bucket k =? b) hash_bucket_samples = true.
Proof. vm_compute. reflexivity. Qed.

(* the table keeps its four buckets until a 12th entry is added *)
Lemma tie_rebuild : hash_rebuild_threshold = 12.
Proof. vm_compute. reflexivity. Qed.

(* _DBUS_DEFAULT_TIMEOUT_VALUE and DBUS_TIMEOUT_INFINITE as the C compiler evaluates them *)
From DV Require Import PendingCall.BlockTime.
Lemma tie_timeouts : Z.of_N c_default_timeout_value = default_timeout /\ Z.of_N c_timeout_infinite = timeout_infinite.
Proof. vm_compute. split; reflexivity. Qed.
