(* Basic facts used by the C04 proofs: key equality, the two finite maps
   (model: lookup/set_queue/del_service, specification: sget/sset), connection
   tables, flags, and the model's queue operations expressed with the
   specification's filter/map vocabulary. *)
From DV Require Import Lib.Base Gen.Tables Wire.Names Registry.RegTypes Registry.Registry
  Spec.NamesSpec Spec.RegistrySpec Proofs.NamesProofs.
From Coq Require Import Permutation.
Local Open Scope N_scope.

(* ---- keys ------------------------------------------------------------------ *)
Lemma key_eqb_eq a b : key_eqb a b = true <-> a = b.
Proof.
  destruct a, b; simpl; try (split; congruence).
  - rewrite N.eqb_eq. split; congruence.
  - rewrite bytes_eqb_eq. split; congruence.
Qed.

Lemma key_eqb_refl a : key_eqb a a = true.
Proof. apply key_eqb_eq; reflexivity. Qed.

Lemma key_eqb_neq a b : key_eqb a b = false <-> a <> b.
Proof.
  split.
  - intros H E. subst. rewrite key_eqb_refl in H. discriminate.
  - intros H. destruct (key_eqb a b) eqn:E; [apply key_eqb_eq in E; contradiction | reflexivity].
Qed.

Lemma key_eqb_sym a b : key_eqb a b = key_eqb b a.
Proof.
  destruct (key_eqb a b) eqn:E.
  - apply key_eqb_eq in E. subst. symmetry. apply key_eqb_refl.
  - apply key_eqb_neq in E. symmetry. apply key_eqb_neq. congruence.
Qed.

Lemma key_dec (a b : key) : {a = b} + {a <> b}.
Proof.
  destruct (key_eqb a b) eqn:E; [left; apply key_eqb_eq; exact E | right; apply key_eqb_neq; exact E].
Qed.

(* ---- the model's map ----------------------------------------------------------- *)
Definition mget (ss : list (key * queue)) (k : key) : queue :=
  match lookup ss k with Some q => q | None => [] end.

Definition keys (ss : list (key * queue)) : list key := map fst ss.

Lemma lookup_none_keys ss k : lookup ss k = None <-> ~ In k (keys ss).
Proof.
  induction ss as [|[k' q] r IH]; simpl; [tauto|].
  destruct (key_eqb k k') eqn:E.
  - apply key_eqb_eq in E. subst. split; [discriminate | intros H; exfalso; apply H; auto].
  - apply key_eqb_neq in E. rewrite IH. split; [intros H [H1|H1]; [congruence | tauto] | tauto].
Qed.

Lemma lookup_some_in ss k q : lookup ss k = Some q -> In (k, q) ss.
Proof.
  induction ss as [|[k' q'] r IH]; simpl; [discriminate|].
  destruct (key_eqb k k') eqn:E.
  - apply key_eqb_eq in E. intros H. inversion H. subst. auto.
  - auto.
Qed.

Lemma in_lookup ss k q : NoDup (keys ss) -> In (k, q) ss -> lookup ss k = Some q.
Proof.
  induction ss as [|[k' q'] r IH]; simpl; [tauto|].
  intros ND [H|H].
  - inversion H. subst. rewrite key_eqb_refl. reflexivity.
  - inversion ND as [|? ? Hn ND']. subst. destruct (key_eqb k k') eqn:E.
    + apply key_eqb_eq in E. subst. exfalso. apply Hn. change k' with (fst (k', q)). apply in_map. exact H.
    + auto.
Qed.

Lemma keys_set_queue ss k q : keys (set_queue ss k q) = keys ss.
Proof.
  induction ss as [|[k' q'] r IH]; simpl; [reflexivity|].
  destruct (key_eqb k k'); simpl; [reflexivity | f_equal; exact IH].
Qed.

Lemma lookup_set_queue ss k q k' :
  lookup (set_queue ss k q) k' =
  if key_eqb k' k then match lookup ss k with Some _ => Some q | None => None end else lookup ss k'.
Proof.
  induction ss as [|[k0 q0] r IH]; simpl.
  - destruct (key_eqb k' k); reflexivity.
  - destruct (key_eqb k k0) eqn:E; simpl.
    + apply key_eqb_eq in E. subst k0. destruct (key_eqb k' k); reflexivity.
    + destruct (key_eqb k' k0) eqn:E2.
      * apply key_eqb_eq in E2. subst k0. rewrite key_eqb_sym in E. rewrite E. reflexivity.
      * exact IH.
Qed.

Lemma keys_del_service_incl ss k x : In x (keys (del_service ss k)) -> In x (keys ss).
Proof.
  induction ss as [|[k0 q0] r IH]; simpl; [tauto|].
  destruct (key_eqb k k0); simpl; [auto | intros [H|H]; auto].
Qed.

Lemma nodup_del_service ss k : NoDup (keys ss) -> NoDup (keys (del_service ss k)).
Proof.
  induction ss as [|[k0 q0] r IH]; simpl; [auto|].
  intros ND. inversion ND as [|? ? Hn ND']. subst.
  destruct (key_eqb k k0); simpl; [exact ND'|].
  constructor; [intros H; apply Hn; eapply keys_del_service_incl; exact H | auto].
Qed.

Lemma lookup_del_service ss k k' : NoDup (keys ss) ->
  lookup (del_service ss k) k' = if key_eqb k' k then None else lookup ss k'.
Proof.
  induction ss as [|[k0 q0] r IH]; simpl; intros ND.
  - destruct (key_eqb k' k); reflexivity.
  - inversion ND as [|? ? Hn ND']. subst.
    destruct (key_eqb k k0) eqn:E; simpl.
    + apply key_eqb_eq in E. subst k0. destruct (key_eqb k' k) eqn:E2; [|reflexivity].
      apply key_eqb_eq in E2. subst k'. apply lookup_none_keys. exact Hn.
    + destruct (key_eqb k' k0) eqn:E2.
      * apply key_eqb_eq in E2. subst k0. rewrite key_eqb_sym in E. rewrite E. reflexivity.
      * apply IH. exact ND'.
Qed.

Lemma lookup_app_new ss k q k' :
  lookup (ss ++ [(k, q)]) k' =
  match lookup ss k' with Some x => Some x | None => if key_eqb k' k then Some q else None end.
Proof.
  induction ss as [|[k0 q0] r IH]; simpl; [reflexivity|].
  destruct (key_eqb k' k0); [reflexivity | exact IH].
Qed.

Lemma keys_app ss k q : keys (ss ++ [(k, q)]) = keys ss ++ [k].
Proof. unfold keys. rewrite map_app. reflexivity. Qed.

Lemma nodup_app_new {A} (l : list A) x : NoDup l -> ~ In x l -> NoDup (l ++ [x]).
Proof.
  intros ND Hn. induction l as [|y l IH]; simpl; [constructor; [simpl; tauto | constructor]|].
  inversion ND as [|? ? Hy ND']. subst. constructor.
  - rewrite in_app_iff. simpl. intros [H|[H|[]]]; [tauto | subst; apply Hn; simpl; auto].
  - apply IH; [exact ND' | intros H; apply Hn; simpl; auto].
Qed.

(* the update law of the model's map, for a name that is present *)
Lemma mget_put_queue ss k q k' : NoDup (keys ss) -> lookup ss k <> None ->
  mget (put_queue ss k q) k' = if key_eqb k' k then q else mget ss k'.
Proof.
  intros ND Hk. unfold mget, put_queue. destruct q as [|o q].
  - rewrite lookup_del_service by exact ND. destruct (key_eqb k' k); reflexivity.
  - rewrite lookup_set_queue. destruct (key_eqb k' k); [|reflexivity].
    destruct (lookup ss k); [reflexivity | congruence].
Qed.

Lemma mget_set_queue ss k q k' : lookup ss k <> None ->
  mget (set_queue ss k q) k' = if key_eqb k' k then q else mget ss k'.
Proof.
  intros Hk. unfold mget. rewrite lookup_set_queue. destruct (key_eqb k' k); [|reflexivity].
  destruct (lookup ss k); [reflexivity | congruence].
Qed.

Lemma mget_app_new ss k q k' : lookup ss k = None ->
  mget (ss ++ [(k, q)]) k' = if key_eqb k' k then q else mget ss k'.
Proof.
  intros Hk. unfold mget. rewrite lookup_app_new. destruct (key_eqb k' k) eqn:E.
  - apply key_eqb_eq in E. subst k'. rewrite Hk. reflexivity.
  - destruct (lookup ss k'); reflexivity.
Qed.

Lemma keys_put_queue_incl ss k q x : In x (keys (put_queue ss k q)) -> In x (keys ss).
Proof.
  unfold put_queue. destruct q; [apply keys_del_service_incl | rewrite keys_set_queue; auto].
Qed.

Lemma nodup_put_queue ss k q : NoDup (keys ss) -> NoDup (keys (put_queue ss k q)).
Proof.
  unfold put_queue. destruct q; [apply nodup_del_service | rewrite keys_set_queue; auto].
Qed.

(* ---- the specification's map ------------------------------------------------------ *)
Lemma sget_app m1 m2 k :
  sget (m1 ++ m2) k = match find (fun kq => key_eqb k (fst kq)) m1 with Some kq => snd kq | None => sget m2 k end.
Proof.
  unfold sget. induction m1 as [|[k0 q0] r IH]; simpl; [reflexivity|].
  destruct (key_eqb k k0); [reflexivity | exact IH].
Qed.

Lemma find_filter_other m k k' : key_eqb k' k = false ->
  find (fun kq : key * queue => key_eqb k' (fst kq)) (filter (fun kq => negb (key_eqb k (fst kq))) m) =
  find (fun kq : key * queue => key_eqb k' (fst kq)) m.
Proof.
  intros E. induction m as [|[k0 q0] r IH]; simpl; [reflexivity|].
  destruct (key_eqb k k0) eqn:E1; simpl.
  - apply key_eqb_eq in E1. subst k0. rewrite E. exact IH.
  - destruct (key_eqb k' k0); [reflexivity | exact IH].
Qed.

Lemma find_filter_same m k :
  find (fun kq : key * queue => key_eqb k (fst kq)) (filter (fun kq => negb (key_eqb k (fst kq))) m) = None.
Proof.
  induction m as [|[k0 q0] r IH]; simpl; [reflexivity|].
  destruct (key_eqb k k0) eqn:E1; simpl; [exact IH | rewrite E1; exact IH].
Qed.

(* the update law of the specification's map *)
Lemma sget_sset m k q k' : sget (sset m k q) k' = if key_eqb k' k then q else sget m k'.
Proof.
  unfold sset. destruct (key_eqb k' k) eqn:E.
  - apply key_eqb_eq in E. subst k'. destruct q as [|o q].
    + unfold sget. rewrite find_filter_same. reflexivity.
    + rewrite sget_app, find_filter_same. unfold sget. simpl. rewrite key_eqb_refl. reflexivity.
  - destruct q as [|o q].
    + unfold sget. rewrite find_filter_other by exact E. reflexivity.
    + rewrite sget_app, find_filter_other by exact E. unfold sget at 2.
      destruct (find _ m); [reflexivity|]. unfold sget. simpl. rewrite E. reflexivity.
Qed.

Lemma skeys_sset_incl m k q x : In x (map fst (sset m k q)) -> x = k \/ In x (map fst m).
Proof.
  unfold sset. intros H.
  assert (Hf : forall y, In y (map fst (filter (fun kq : key * queue => negb (key_eqb k (fst kq))) m)) -> In y (map fst m)).
  { intros y Hy. apply in_map_iff in Hy. destruct Hy as [kq [E Hin]]. apply filter_In in Hin. apply in_map_iff. exists kq. tauto. }
  destruct q; [right; auto|]. rewrite map_app, in_app_iff in H. simpl in H. destruct H as [H|[H|[]]]; [right; auto | left; auto].
Qed.

Lemma nodup_map_filter {A B} (f : A -> B) (p : A -> bool) l : NoDup (map f l) -> NoDup (map f (filter p l)).
Proof.
  induction l as [|x l IH]; simpl; [auto|]. intros ND. inversion ND as [|? ? Hn ND']. subst.
  destruct (p x); simpl; [|auto]. constructor; [|auto].
  intros H. apply Hn. apply in_map_iff in H. destruct H as [y [E Hy]]. apply filter_In in Hy. apply in_map_iff. exists y. tauto.
Qed.

Lemma nodup_sset m k q : NoDup (map fst m) -> NoDup (map fst (sset m k q)).
Proof.
  intros ND. unfold sset.
  assert (NDf := nodup_map_filter fst (fun kq : key * queue => negb (key_eqb k (fst kq))) m ND).
  destruct q; [exact NDf|]. rewrite map_app. simpl. apply nodup_app_new; [exact NDf|].
  intros H. apply in_map_iff in H. destruct H as [kq [E Hin]]. apply filter_In in Hin. destruct Hin as [_ Hb].
  subst k. rewrite key_eqb_refl in Hb. discriminate.
Qed.

Lemma sget_in m k : NoDup (map fst m) -> forall q, In (k, q) m -> sget m k = q.
Proof.
  induction m as [|[k0 q0] r IH]; simpl; [tauto|]. intros ND q [H|H].
  - inversion H. subst. unfold sget. simpl. rewrite key_eqb_refl. reflexivity.
  - inversion ND as [|? ? Hn ND']. subst. unfold sget. simpl. destruct (key_eqb k k0) eqn:E.
    + apply key_eqb_eq in E. subst k0. exfalso. apply Hn. change k with (fst (k, q)). apply in_map. exact H.
    + apply IH; auto.
Qed.

(* ---- connection tables -------------------------------------------------------------- *)
Definition ids (cs : list conn) : list N := map c_id cs.

Lemma find_conn_in cs c x : find_conn cs c = Some x -> In x cs /\ c_id x = c.
Proof.
  induction cs as [|y r IH]; simpl; [discriminate|].
  destruct (c_id y =? c) eqn:E.
  - intros H. inversion H. subst. apply N.eqb_eq in E. auto.
  - intros H. destruct (IH H). auto.
Qed.

Lemma in_find_conn cs x : NoDup (ids cs) -> In x cs -> find_conn cs (c_id x) = Some x.
Proof.
  induction cs as [|y r IH]; simpl; [tauto|]. intros ND [H|H].
  - subst. rewrite N.eqb_refl. reflexivity.
  - inversion ND as [|? ? Hn ND']. subst. destruct (c_id y =? c_id x) eqn:E.
    + apply N.eqb_eq in E. exfalso. apply Hn. rewrite E. apply in_map. exact H.
    + auto.
Qed.

Lemma find_conn_none cs c : find_conn cs c = None <-> ~ In c (ids cs).
Proof.
  induction cs as [|y r IH]; simpl; [tauto|].
  destruct (c_id y =? c) eqn:E.
  - apply N.eqb_eq in E. split; [discriminate | intros H; exfalso; apply H; auto].
  - apply N.eqb_neq in E. rewrite IH. tauto.
Qed.

Lemma upd_conn_map cs c f : (forall x, c_id (f x) = c_id x) -> NoDup (ids cs) ->
  upd_conn cs c f = map (fun x => if c_id x =? c then f x else x) cs.
Proof.
  intros Hf. induction cs as [|y r IH]; simpl; [reflexivity|]. intros ND. inversion ND as [|? ? Hn ND']. subst.
  destruct (c_id y =? c) eqn:E.
  - f_equal. apply N.eqb_eq in E. subst c. clear IH ND ND'. induction r as [|z r IH]; simpl; [reflexivity|].
    simpl in Hn. destruct (c_id z =? c_id y) eqn:E2; [apply N.eqb_eq in E2; exfalso; apply Hn; auto|].
    f_equal. apply IH. tauto.
  - f_equal. auto.
Qed.

Lemma del_conn_filter cs c : NoDup (ids cs) -> del_conn cs c = filter (fun x => negb (c_id x =? c)) cs.
Proof.
  induction cs as [|y r IH]; simpl; [reflexivity|]. intros ND. inversion ND as [|? ? Hn ND']. subst.
  destruct (c_id y =? c) eqn:E; simpl.
  - apply N.eqb_eq in E. subst c. clear IH ND ND'. induction r as [|z r IH]; simpl; [reflexivity|].
    simpl in Hn. destruct (c_id z =? c_id y) eqn:E2; [apply N.eqb_eq in E2; exfalso; apply Hn; auto|].
    simpl. f_equal. apply IH. tauto.
  - f_equal. auto.
Qed.

(* ---- services_owned ---------------------------------------------------------------------- *)
Lemma existsb_key k l : existsb (key_eqb k) l = true <-> In k l.
Proof.
  rewrite existsb_exists. split.
  - intros [x [H E]]. apply key_eqb_eq in E. subst. exact H.
  - intros H. exists k. split; [exact H | apply key_eqb_refl].
Qed.

Lemma in_remove_last k l x : NoDup l -> (In x (remove_last k l) <-> In x l /\ x <> k).
Proof.
  induction l as [|y r IH]; simpl; [tauto|]. intros ND. inversion ND as [|? ? Hn ND']. subst.
  destruct (existsb (key_eqb k) r) eqn:E.
  - apply existsb_key in E. simpl. rewrite IH by exact ND'. split.
    + intros [H|H]; [subst; split; [auto | intros ->; contradiction] | tauto].
    + intros [[H|H] Hx]; [auto | right; tauto].
  - assert (Hk : ~ In k r) by (intros H; apply existsb_key in H; congruence).
    destruct (key_eqb k y) eqn:E2.
    + apply key_eqb_eq in E2. subst y. split.
      * intros H. split; [auto | intros ->; contradiction].
      * intros [[H|H] Hx]; [congruence | exact H].
    + apply key_eqb_neq in E2. simpl. split.
      * intros [H|H]; [subst; split; [auto | congruence] | split; [auto | intros ->; contradiction]].
      * tauto.
Qed.

Lemma nodup_remove_last k l : NoDup l -> NoDup (remove_last k l).
Proof.
  induction l as [|y r IH]; simpl; [auto|]. intros ND. inversion ND as [|? ? Hn ND']. subst.
  destruct (existsb (key_eqb k) r) eqn:E.
  - constructor; [|auto]. intros H. apply in_remove_last in H; [tauto | exact ND'].
  - destruct (key_eqb k y); [exact ND' | exact ND].
Qed.

(* ---- flags ---------------------------------------------------------------------------------- *)
Lemma land_pow2 f n : N.land f (2 ^ n) = if N.testbit f n then 2 ^ n else 0.
Proof.
  apply N.bits_inj. intros m. rewrite N.land_spec, N.pow2_bits_eqb.
  destruct (N.eqb_spec n m) as [->|Hne].
  - destruct (N.testbit f m) eqn:E; [rewrite N.pow2_bits_true; reflexivity | rewrite N.bits_0; reflexivity].
  - rewrite andb_false_r. destruct (N.testbit f n); [rewrite N.pow2_bits_false by exact Hne | rewrite N.bits_0]; reflexivity.
Qed.

Lemma has_flag_allow f : has_flag f DBUS_NAME_FLAG_ALLOW_REPLACEMENT = f_allow f.
Proof. unfold has_flag, f_allow. change DBUS_NAME_FLAG_ALLOW_REPLACEMENT with (2 ^ 0). rewrite land_pow2. destruct (N.testbit f 0); reflexivity. Qed.
Lemma has_flag_replace f : has_flag f DBUS_NAME_FLAG_REPLACE_EXISTING = f_replace f.
Proof. unfold has_flag, f_replace. change DBUS_NAME_FLAG_REPLACE_EXISTING with (2 ^ 1). rewrite land_pow2. destruct (N.testbit f 1); reflexivity. Qed.
Lemma has_flag_dnq f : has_flag f DBUS_NAME_FLAG_DO_NOT_QUEUE = f_dnq f.
Proof. unfold has_flag, f_dnq. change DBUS_NAME_FLAG_DO_NOT_QUEUE with (2 ^ 2). rewrite land_pow2. destruct (N.testbit f 2); reflexivity. Qed.

Lemma set_flags_eq o f : set_flags o f = mkOwner (o_conn o) (f_allow f) (f_dnq f).
Proof. unfold set_flags. rewrite has_flag_allow, has_flag_dnq. reflexivity. Qed.

(* ---- names ------------------------------------------------------------------------------------- *)
Lemma bus_name_str_eq : DBUS_SERVICE_DBUS_str = bus_name_str.
Proof. reflexivity. Qed.

Lemma is58 (x : N) : (match x with 58 => true | _ => false end) = (x =? 58).
Proof.
  destruct x as [|p]; [reflexivity|].
  repeat (destruct p as [p|p|]; try reflexivity).
Qed.

Lemma name_refused_spec s : name_refused s = negb (requestable s).
Proof.
  unfold name_refused, requestable, starts_with_colon. rewrite bus_name_str_eq.
  destruct s as [|x r]; [reflexivity|].
  rewrite is58. unfold COLON.
  destruct (N.eqb_spec x 58) as [->|Hne].
  - rewrite orb_true_r. simpl. rewrite andb_false_r. reflexivity.
  - rewrite wellknown_correct.
    + simpl. rewrite orb_false_r, andb_true_r. rewrite negb_andb, negb_involutive. reflexivity.
    + assert (H := is58 x). destruct (N.eqb_spec x 58); [contradiction|].
      destruct x as [|p]; [exact I|]. revert H. clear.
      repeat (destruct p as [p|p|]; try (intros; exact I)). discriminate.
Qed.

(* ---- queues: the model's operations in the specification's vocabulary ---------------------------- *)
Definition qconns (q : queue) : list N := map o_conn q.

Lemma queued_in c q : queued c q = true <-> In c (qconns q).
Proof.
  unfold queued, is. rewrite existsb_exists. split.
  - intros [o [H E]]. apply N.eqb_eq in E. subst. apply in_map. exact H.
  - intros H. apply in_map_iff in H. destruct H as [o [E H]]. exists o. split; [exact H | apply N.eqb_eq; exact E].
Qed.

Lemma queued_false c q : queued c q = false <-> ~ In c (qconns q).
Proof.
  rewrite <- queued_in. destruct (queued c q); split; intros; congruence.
Qed.

Lemma find_owner_none q c : find_owner q c = None <-> queued c q = false.
Proof.
  induction q as [|o r IH]; simpl; [tauto|]. unfold is at 1. destruct (o_conn o =? c); simpl; [split; discriminate | exact IH].
Qed.

Lemma find_owner_some q c o : find_owner q c = Some o -> In o q /\ o_conn o = c.
Proof.
  induction q as [|x r IH]; simpl; [discriminate|]. destruct (o_conn x =? c) eqn:E.
  - intros H. inversion H. subst. apply N.eqb_eq in E. auto.
  - intros H. destruct (IH H). auto.
Qed.

Lemma without_notin c q : queued c q = false -> without c q = q.
Proof.
  induction q as [|o r IH]; simpl; [reflexivity|]. unfold is at 1. destruct (o_conn o =? c) eqn:E; simpl; [discriminate|].
  unfold is at 1. rewrite E. simpl. intros H. f_equal. auto.
Qed.

Lemma unlink_without q c : NoDup (qconns q) -> unlink_conn q c = without c q.
Proof.
  induction q as [|o r IH]; simpl; [reflexivity|]. intros ND. inversion ND as [|? ? Hn ND']. subst.
  unfold is. destruct (o_conn o =? c) eqn:E; simpl.
  - apply N.eqb_eq in E. subst c. symmetry. apply without_notin. apply queued_false. exact Hn.
  - f_equal. auto.
Qed.

Lemma refresh_notin c a d q : queued c q = false -> refresh c a d q = q.
Proof.
  induction q as [|o r IH]; simpl; [reflexivity|]. unfold is at 1. destruct (o_conn o =? c) eqn:E; simpl; [discriminate|].
  unfold is at 1. rewrite E. intros H. f_equal. auto.
Qed.

Lemma refresh_first_refresh q c f : NoDup (qconns q) -> refresh_first q c f = refresh c (f_allow f) (f_dnq f) q.
Proof.
  induction q as [|o r IH]; simpl; [reflexivity|]. intros ND. inversion ND as [|? ? Hn ND']. subst.
  unfold is. destruct (o_conn o =? c) eqn:E.
  - apply N.eqb_eq in E. subst c. rewrite set_flags_eq. f_equal. symmetry. apply refresh_notin. apply queued_false. exact Hn.
  - f_equal. auto.
Qed.

Lemma qconns_without c q x : In x (qconns (without c q)) <-> In x (qconns q) /\ x <> c.
Proof.
  unfold qconns, without. rewrite !in_map_iff. split.
  - intros [o [E H]]. apply filter_In in H. destruct H as [H Hb]. unfold is in Hb. split; [exists o; auto|].
    intros ->. subst. rewrite N.eqb_refl in Hb. discriminate.
  - intros [[o [E H]] Hx]. exists o. split; [exact E|]. apply filter_In. split; [exact H|]. unfold is. subst.
    apply negb_true_iff. apply N.eqb_neq. exact Hx.
Qed.

Lemma nodup_without c q : NoDup (qconns q) -> NoDup (qconns (without c q)).
Proof. apply nodup_map_filter. Qed.

Lemma qconns_refresh c a d q : qconns (refresh c a d q) = qconns q.
Proof.
  induction q as [|o r IH]; simpl; [reflexivity|]. unfold is at 1. destruct (o_conn o =? c) eqn:E; simpl; [apply N.eqb_eq in E|]; f_equal; auto.
Qed.

Definition no_dnq (w : queue) : Prop := forall o, In o w -> o_dnq o = false.

Lemma filter_no_dnq w : no_dnq w -> filter (fun o => negb (o_dnq o)) w = w.
Proof.
  induction w as [|o r IH]; simpl; [reflexivity|]. intros H. rewrite (H o) by (simpl; auto). simpl. f_equal. apply IH.
  intros x Hx. apply H. simpl. auto.
Qed.

Lemma no_dnq_without c w : no_dnq w -> no_dnq (without c w).
Proof. intros H o Ho. apply filter_In in Ho. apply H. tauto. Qed.

(* a refreshed entry that asked for DO_NOT_QUEUE is dropped by rule 5 *)
Lemma filter_refresh_dnq c a w : no_dnq w -> filter (fun o => negb (o_dnq o)) (refresh c a true w) = without c w.
Proof.
  induction w as [|o r IH]; simpl; [reflexivity|]. intros H.
  assert (Hr : no_dnq r) by (intros x Hx; apply H; simpl; auto).
  unfold is. destruct (o_conn o =? c) eqn:E; simpl.
  - fold (is c). auto.
  - rewrite (H o) by (simpl; auto). simpl. f_equal. fold (is c). auto.
Qed.

Lemma no_dnq_refresh c a w : no_dnq w -> no_dnq (refresh c a false w).
Proof.
  intros H o Ho. unfold refresh in Ho. apply in_map_iff in Ho. destruct Ho as [x [E Hx]].
  destruct (is c x); [subst; reflexivity | subst; apply H; exact Hx].
Qed.

Lemma length_eq_of_same_members {A} (l1 l2 : list A) :
  NoDup l1 -> NoDup l2 -> (forall x, In x l1 <-> In x l2) -> length l1 = length l2.
Proof.
  intros N1 N2 H. apply PeanoNat.Nat.le_antisymm; apply NoDup_incl_length; auto; intros x Hx; apply H; exact Hx.
Qed.
