(* C03, byte level, part 1: the specification encoder and its well-formedness predicate do not
   depend on where a value starts, only on that position modulo 8.  Consequence: a header field
   (a struct, hence 8-aligned) is encoded, and is well-formed, independently of which fields precede
   it -- the fact that lets fields be removed from / replaced in / appended to the field array. *)
From DV Require Import Lib.Base Spec.Codec Proofs.CodecBasics Proofs.CodecWf Proofs.CodecRoundtrip.
From Coq Require Import Lia.
Local Open Scope N_scope.

Lemma pad_shift a p k : a = 1 \/ a = 2 \/ a = 4 \/ a = 8 -> pad_amount (p + 8 * k) a = pad_amount p a.
Proof.
  unfold pad_amount. intros [H|[H|[H|H]]]; subst a.
  - replace (p + 8 * k) with (p + (8 * k) * 1) by lia. rewrite N.mod_add by lia. reflexivity.
  - replace (p + 8 * k) with (p + (4 * k) * 2) by lia. rewrite N.mod_add by lia. reflexivity.
  - replace (p + 8 * k) with (p + (2 * k) * 4) by lia. rewrite N.mod_add by lia. reflexivity.
  - replace (p + 8 * k) with (p + k * 8) by lia. rewrite N.mod_add by lia. reflexivity.
Qed.

Lemma fixed_size_cases c sz : fixed_size c = Some sz -> sz = 1 \/ sz = 2 \/ sz = 4 \/ sz = 8.
Proof.
  unfold fixed_size.
  destruct (c =? 121); [intros H; inversion H; auto|].
  destruct ((c =? 110) || (c =? 113)); [intros H; inversion H; auto|].
  destruct ((c =? 98) || (c =? 105) || (c =? 117) || (c =? 104)); [intros H; inversion H; auto|].
  destruct ((c =? 120) || (c =? 116) || (c =? 100)); [intros H; inversion H; auto|discriminate].
Qed.

Lemma spec_align_cases t : spec_align t = 1 \/ spec_align t = 2 \/ spec_align t = 4 \/ spec_align t = 8.
Proof.
  destruct t as [c| |t|ts|k v]; cbn [spec_align]; auto.
  destruct (fixed_size c) as [sz|] eqn:E; [exact (fixed_size_cases _ _ E)|].
  destruct (c =? 103); auto.
Qed.

(* ---------------- the encoder ---------------------------------------------------------------- *)
Definition SH (le : bool) (v : val) : Prop := forall p k, enc le v (p + 8 * k) = enc le v p.

Lemma encs_shift le : forall vs, Forall (SH le) vs -> forall p k, encs le vs (p + 8 * k) = encs le vs p.
Proof.
  induction 1 as [|x r Hx Hr IH]; intros p k; [reflexivity|]. cbn [encs]. rewrite Hx.
  replace (p + 8 * k + nlen (enc le x p)) with (p + nlen (enc le x p) + 8 * k) by lia. rewrite IH. reflexivity.
Qed.

Lemma enc_shift le : forall v, SH le v.
Proof.
  induction v as [c n|c s|et vs IH|fs IH|k x IHk IHx|t x IHx] using val_ind'; intros p q.
  - rewrite !enc_num. destruct (fixed_size c) as [sz|] eqn:E; [|reflexivity].
    rewrite pad_shift by exact (fixed_size_cases _ _ E). reflexivity.
  - rewrite !enc_str. rewrite pad_shift by auto. reflexivity.
  - rewrite !enc_arr. cbv zeta. rewrite pad_shift by auto.
    replace (p + 8 * q + pad_amount p 4 + 4) with (p + pad_amount p 4 + 4 + 8 * q) by lia.
    rewrite pad_shift by apply spec_align_cases.
    replace (p + pad_amount p 4 + 4 + 8 * q + pad_amount (p + pad_amount p 4 + 4) (spec_align et))
      with (p + pad_amount p 4 + 4 + pad_amount (p + pad_amount p 4 + 4) (spec_align et) + 8 * q) by lia.
    rewrite (encs_shift le vs IH). reflexivity.
  - rewrite !enc_struct. rewrite pad_shift by auto.
    replace (p + 8 * q + pad_amount p 8) with (p + pad_amount p 8 + 8 * q) by lia.
    rewrite (encs_shift le fs IH). reflexivity.
  - rewrite !enc_dict. rewrite pad_shift by auto.
    replace (p + 8 * q + pad_amount p 8) with (p + pad_amount p 8 + 8 * q) by lia.
    rewrite (encs_shift le [k; x]) by (repeat constructor; assumption). reflexivity.
  - rewrite !enc_var. cbv zeta.
    replace (p + 8 * q + nlen (nlen (print_ty t) :: print_ty t ++ [0])) with (p + nlen (nlen (print_ty t) :: print_ty t ++ [0]) + 8 * q) by lia.
    rewrite IHx. reflexivity.
Qed.

Lemma encs_shift_all le vs p k : encs le vs (p + 8 * k) = encs le vs p.
Proof. apply encs_shift. apply Forall_forall. intros v _. apply enc_shift. Qed.

(* ---------------- well-formedness ------------------------------------------------------------ *)
Definition WS (le : bool) (v : val) : Prop := forall d p k, wfb le d (p + 8 * k) v = wfb le d p v.

Lemma wfsb_shift le : forall vs, Forall (WS le) vs -> forall d p k, wfsb le vs d (p + 8 * k) = wfsb le vs d p.
Proof.
  induction 1 as [|x r Hx Hr IH]; intros d p k; [reflexivity|]. cbn [wfsb]. rewrite Hx, (enc_shift le x).
  replace (p + 8 * k + nlen (enc le x p)) with (p + nlen (enc le x p) + 8 * k) by lia. rewrite IH. reflexivity.
Qed.

Lemma arr_start_shift p k et : arr_start (p + 8 * k) et = arr_start p et + 8 * k.
Proof.
  unfold arr_start. rewrite pad_shift by auto.
  replace (p + 8 * k + pad_amount p 4 + 4) with (p + pad_amount p 4 + 4 + 8 * k) by lia.
  rewrite pad_shift by apply spec_align_cases. lia.
Qed.

Lemma wfb_shift le : forall v, WS le v.
Proof.
  induction v as [c n|c s|et vs IH|fs IH|k x IHk IHx|t x IHx] using val_ind'; intros d p q.
  - reflexivity.
  - reflexivity.
  - rewrite !wfb_arr. rewrite arr_start_shift. rewrite encs_shift_all. rewrite (wfsb_shift le vs IH). reflexivity.
  - rewrite !wfb_struct. rewrite pad_shift by auto.
    replace (p + 8 * q + pad_amount p 8) with (p + pad_amount p 8 + 8 * q) by lia.
    rewrite (wfsb_shift le fs IH). reflexivity.
  - rewrite !wfb_dict. rewrite pad_shift by auto.
    replace (p + 8 * q + pad_amount p 8) with (p + pad_amount p 8 + 8 * q) by lia.
    rewrite (wfsb_shift le [k; x]) by (repeat constructor; assumption). reflexivity.
  - cbn [wfb].
    replace (p + 8 * q + (nlen (print_ty t) + 2)) with (p + (nlen (print_ty t) + 2) + 8 * q) by lia.
    rewrite IHx. reflexivity.
Qed.

Lemma wfsb_shift_all le vs d p k : wfsb le vs d (p + 8 * k) = wfsb le vs d p.
Proof. apply wfsb_shift. apply Forall_forall. intros v _. apply wfb_shift. Qed.

(* ---------------- structs are position independent ------------------------------------------- *)
Lemma aligned8 p : exists q, p + pad_amount p 8 = 8 * q.
Proof.
  unfold pad_amount. pose proof (N.mod_upper_bound p 8 ltac:(lia)) as B. pose proof (N.div_mod p 8 ltac:(lia)) as D.
  destruct (N.eq_dec (p mod 8) 0) as [Z|NZ].
  - rewrite Z. change ((8 - 0) mod 8) with 0. exists (p / 8). lia.
  - rewrite N.mod_small by lia. exists (p / 8 + 1). lia.
Qed.

Lemma wfb_struct_anywhere le d p fs : wfb le d p (VStruct fs) = wfb le d 0 (VStruct fs).
Proof.
  rewrite !wfb_struct. destruct (aligned8 p) as [q Hq]. rewrite Hq.
  change (0 + pad_amount 0 8) with 0. replace (8 * q) with (0 + 8 * q) by lia. rewrite wfsb_shift_all. reflexivity.
Qed.

Lemma enc_struct_anywhere le p fs : enc le (VStruct fs) p = zeros (pad_amount p 8) ++ encs le fs 0.
Proof.
  rewrite enc_struct. destruct (aligned8 p) as [q Hq]. rewrite Hq.
  replace (8 * q) with (0 + 8 * q) by lia. rewrite encs_shift_all. reflexivity.
Qed.
