(* Signatures: printing a well-formed single complete type and parsing it back
   with the specification's recursive-descent parser gives the type again
   (for every trailing input and every sufficient fuel); consequently the
   side condition [sig_roundtrips] of well-formed variant values follows from
   a simple structural well-formedness [ty_okb] and the three limits. *)
From DV Require Import Lib.Base Spec.Codec Wire.HeaderEdit Proofs.CodecBasics Proofs.CodecWf Proofs.CodecRoundtrip.
From Coq Require Import ZArith ZifyBool ZifyN ZifyNat Arith.
Local Open Scope N_scope.

(* ---- well-formed single complete types ------------------------------------- *)
Fixpoint ty_okb (t : ty) : bool :=
  match t with
  | TBasic c => is_basic_code c
  | TVariant => true
  | TArray t' =>
      match t' with
      | TDict k v => is_basic_code k && ty_okb v
      | _ => ty_okb t'
      end
  | TStruct ts => negb (match ts with [] => true | _ => false end) && forallb ty_okb ts
  | TDict _ _ => false
  end.

(* recursion depth of the parser on the printed form *)
Fixpoint tdepth (t : ty) : nat :=
  match t with
  | TBasic _ | TVariant => 0%nat
  | TArray t' => S (tdepth t')
  | TStruct ts => S (fold_right (fun x a => Nat.max (tdepth x) a) 0%nat ts)
  | TDict _ v => S (tdepth v)
  end.
Definition tdepths (ts : list ty) : nat := fold_right (fun x a => Nat.max (tdepth x) a) 0%nat ts.

Lemma tdepths_cons x r : tdepths (x :: r) = Nat.max (tdepth x) (tdepths r).
Proof. reflexivity. Qed.

(* ---- byte literals in patterns ------------------------------------------------ *)
Lemma match41 {A} (c : N) (r : bytes) (X : bytes -> A) (Y : A) :
  c <> 41 -> match c :: r with 41 :: r' => X r' | _ => Y end = Y.
Proof.
  intros H. destruct c as [|p]; [reflexivity|].
  do 6 (destruct p as [p|p|]; try reflexivity). congruence.
Qed.

Lemma match123 {A} (c : N) (r : bytes) (X : bytes -> A) (Y : A) :
  c <> 123 -> match c :: r with 123 :: r' => X r' | _ => Y end = Y.
Proof.
  intros H. destruct c as [|p]; [reflexivity|].
  do 7 (destruct p as [p|p|]; try reflexivity). congruence.
Qed.

Lemma match125 {A} (c : N) (r : bytes) (X : bytes -> A) (Y : A) :
  c <> 125 -> match c :: r with 125 :: r' => X r' | _ => Y end = Y.
Proof.
  intros H. destruct c as [|p]; [reflexivity|].
  do 7 (destruct p as [p|p|]; try reflexivity). congruence.
Qed.

(* ---- basic codes --------------------------------------------------------------- *)
Lemma basic_code_cases c : is_basic_code c = true ->
  c = 121 \/ c = 98 \/ c = 110 \/ c = 113 \/ c = 105 \/ c = 117 \/ c = 120 \/ c = 116 \/ c = 100 \/
  c = 115 \/ c = 111 \/ c = 103 \/ c = 104.
Proof.
  unfold is_basic_code, basic_codes. cbn [existsb]. rewrite !orb_true_iff, !N.eqb_eq. intuition discriminate.
Qed.

Lemma basic_code_ne c : is_basic_code c = true ->
  c <> 118 /\ c <> 97 /\ c <> 40 /\ c <> 41 /\ c <> 123 /\ c <> 125 /\ c <> 0.
Proof.
  intros H. apply basic_code_cases in H.
  repeat (destruct H as [H|H]; [subst c; repeat split; discriminate|]). subst c; repeat split; discriminate.
Qed.

(* ---- the parser, unfolded ------------------------------------------------------- *)
Fixpoint fields (f : nat) (g : nat) (s : bytes) (acc : list ty) : option (ty * bytes) :=
  match g with
  | O => None
  | S g' =>
      match s with
      | 41 :: r' => match acc with [] => None | _ => Some (TStruct (rev acc), r') end
      | _ => match parse_sct f s with
             | Some (t, r') => fields f g' r' (t :: acc)
             | None => None
             end
      end
  end.

Lemma fields_inner f : forall g s acc,
  (fix fields (g : nat) (s : bytes) (acc : list ty) : option (ty * bytes) :=
     match g with
     | O => None
     | S g' =>
         match s with
         | 41 :: r' => match acc with [] => None | _ => Some (TStruct (rev acc), r') end
         | _ => match parse_sct f s with
                | Some (t, r') => fields g' r' (t :: acc)
                | None => None
                end
         end
     end) g s acc = fields f g s acc.
Proof.
  induction g as [|g IH]; intros s acc; [reflexivity|].
  cbn [fields].
  destruct s as [|c r].
  { destruct (parse_sct f []) as [[t r']|]; [apply IH|reflexivity]. }
  destruct c as [|p]. { destruct (parse_sct f (0 :: r)) as [[t r']|]; [apply IH|reflexivity]. }
  do 6 (destruct p as [p|p|]; try (match goal with |- context [parse_sct f ?s] => destruct (parse_sct f s) as [[t r']|]; [apply IH|reflexivity] end)).
  reflexivity.
Qed.

Lemma parse_sct_basic f c r : is_basic_code c = true -> parse_sct (S f) (c :: r) = Some (TBasic c, r).
Proof. intros H. cbn [parse_sct]. rewrite H. reflexivity. Qed.

Lemma parse_sct_variant f r : parse_sct (S f) (118 :: r) = Some (TVariant, r).
Proof. reflexivity. Qed.

Lemma parse_sct_array f c r : c <> 123 ->
  parse_sct (S f) (97 :: c :: r) =
  match parse_sct f (c :: r) with Some (t, r') => Some (TArray t, r') | None => None end.
Proof.
  intros H. cbn [parse_sct]. change (is_basic_code 97) with false. change (97 =? 118) with false.
  change (97 =? 97) with true. cbv iota.
  apply (match123 c r (fun r1 => match r1 with
      | [] => None
      | k :: r2 => if is_basic_code k then match parse_sct f r2 with
                                           | Some (v, 125 :: r3) => Some (TArray (TDict k v), r3)
                                           | _ => None end else None end)). exact H.
Qed.

Lemma parse_sct_dict f k v r2 r3 : is_basic_code k = true -> parse_sct f r2 = Some (v, 125 :: r3) ->
  parse_sct (S f) (97 :: 123 :: k :: r2) = Some (TArray (TDict k v), r3).
Proof.
  intros Hk Hv. cbn [parse_sct]. change (is_basic_code 97) with false. change (97 =? 118) with false.
  change (97 =? 97) with true. cbv iota. rewrite Hk, Hv. reflexivity.
Qed.

Lemma parse_sct_struct f r : parse_sct (S f) (40 :: r) = fields f (S (length r)) r [].
Proof.
  rewrite <- fields_inner. reflexivity.
Qed.

Lemma fields_close f g r acc : fields f (S g) (41 :: r) acc =
  match acc with [] => None | _ => Some (TStruct (rev acc), r) end.
Proof. reflexivity. Qed.

Lemma fields_step f g c r acc : c <> 41 -> fields f (S g) (c :: r) acc =
  match parse_sct f (c :: r) with Some (t, r') => fields f g r' (t :: acc) | None => None end.
Proof.
  intros H. cbn [fields].
  apply (match41 c r (fun r' => match acc with [] => None | _ => Some (TStruct (rev acc), r') end)). exact H.
Qed.

(* ---- shape of printed types -------------------------------------------------- *)
Lemma print_ty_head t : ty_okb t = true ->
  exists c r, print_ty t = c :: r /\ c <> 41 /\ c <> 123 /\ c <> 125.
Proof.
  destruct t as [c| |t|ts|k v]; cbn [ty_okb print_ty]; intros H.
  - exists c, []. destruct (basic_code_ne c H) as (_ & _ & _ & ? & ? & ? & _). auto.
  - exists 118, []. repeat split; discriminate.
  - exists 97, (print_ty t). repeat split; discriminate.
  - exists 40, (flat_map print_ty ts ++ [41]). repeat split; discriminate.
  - discriminate.
Qed.

Lemma print_ty_length_pos t : (0 < length (print_ty t))%nat.
Proof. destruct t; cbn [print_ty length]; lia. Qed.

Lemma flat_print_length ts : (length ts <= length (flat_map print_ty ts))%nat.
Proof.
  induction ts as [|t r IH]; [reflexivity|]. cbn [flat_map length]. rewrite app_length.
  pose proof (print_ty_length_pos t). lia.
Qed.

Lemma ty_okb_array t : ty_okb (TArray t) = true ->
  (exists k v, t = TDict k v /\ is_basic_code k = true /\ ty_okb v = true) \/ ty_okb t = true.
Proof.
  destruct t as [c| |t'|ts|k v]; cbn [ty_okb]; intros H; try (right; exact H).
  left. exists k, v. apply andb_true_iff in H. tauto.
Qed.

(* ---- print then parse: one single complete type -------------------------------- *)
Section Fields.
  Variable f : nat.
  Hypothesis IHf : forall t, ty_okb t = true -> (tdepth t < f)%nat ->
    forall rest, parse_sct f (print_ty t ++ rest) = Some (t, rest).

  Lemma fields_print : forall ts, forallb ty_okb ts = true -> (tdepths ts < f)%nat ->
    forall g acc rest, (length ts < g)%nat ->
    fields f g (flat_map print_ty ts ++ 41 :: rest) acc =
    match rev ts ++ acc with [] => None | l => Some (TStruct (rev l), rest) end.
  Proof.
    induction ts as [|t ts IH]; intros Hok Hd g acc rest Hg.
    - destruct g as [|g]; [lia|]. cbn [flat_map app rev]. rewrite fields_close. destruct acc; reflexivity.
    - cbn [forallb] in Hok. apply andb_true_iff in Hok. destruct Hok as [Ht Hts].
      rewrite tdepths_cons in Hd. destruct g as [|g]; [cbn [length] in Hg; lia|].
      cbn [flat_map]. rewrite <- app_assoc.
      destruct (print_ty_head t Ht) as (c & r & E & Hc & _).
      rewrite E. cbn [app]. rewrite fields_step by exact Hc.
      change (c :: r ++ flat_map print_ty ts ++ 41 :: rest) with ((c :: r) ++ flat_map print_ty ts ++ 41 :: rest).
      rewrite <- E. rewrite IHf by (assumption || lia).
      rewrite IH by (assumption || cbn [length] in Hg; lia).
      cbn [rev]. rewrite <- app_assoc. reflexivity.
  Qed.
End Fields.

Lemma parse_print_fuel : forall fuel t, ty_okb t = true -> (tdepth t < fuel)%nat ->
  forall rest, parse_sct fuel (print_ty t ++ rest) = Some (t, rest).
Proof.
  induction fuel as [|f IH]; intros t Hok Hd rest; [lia|].
  destruct t as [c| |t|ts|k v].
  - cbn [print_ty app]. apply parse_sct_basic. exact Hok.
  - reflexivity.
  - cbn [tdepth] in Hd. destruct (ty_okb_array t Hok) as [(k & v & -> & Hk & Hv)|Ht].
    + cbn [print_ty app]. cbn [tdepth] in Hd.
      apply parse_sct_dict; [exact Hk|]. rewrite <- app_assoc. cbn [app].
      destruct f as [|f']; [lia|]. apply IH; [exact Hv|lia].
    + destruct (print_ty_head t Ht) as (c & r & E & _ & Hc & _).
      cbn [print_ty]. rewrite E. cbn [app]. rewrite parse_sct_array by exact Hc.
      change (c :: r ++ rest) with ((c :: r) ++ rest). rewrite <- E.
      rewrite IH by (assumption || lia). reflexivity.
  - cbn [ty_okb] in Hok. apply andb_true_iff in Hok. destruct Hok as [Hne Hts].
    cbn [tdepth] in Hd. fold (tdepths ts) in Hd.
    cbn [print_ty app]. rewrite parse_sct_struct. rewrite <- app_assoc. cbn [app].
    rewrite (fields_print f IH ts Hts) by (try lia; rewrite app_length; pose proof (flat_print_length ts); lia).
    rewrite app_nil_r. destruct ts as [|t0 ts0]; [discriminate|].
    destruct (rev (t0 :: ts0)) eqn:E.
    + apply (f_equal (@length ty)) in E. rewrite rev_length in E. discriminate.
    + rewrite <- E, rev_involutive. reflexivity.
  - discriminate.
Qed.

Theorem parse_sct_print : forall t, ty_okb t = true -> forall rest fuel, (tdepth t < fuel)%nat ->
  parse_sct fuel (print_ty t ++ rest) = Some (t, rest).
Proof. intros t Hok rest fuel Hd. apply parse_print_fuel; assumption. Qed.

(* ---- whole signatures ------------------------------------------------------------ *)
Lemma tdepth_lt_length : forall t, (tdepth t < length (print_ty t))%nat.
Proof.
  induction t as [c| |t IH|ts IH|k v IH] using ty_ind'; cbn [tdepth print_ty length]; try lia.
  - rewrite app_length. cbn [length].
    assert (H : (fold_right (fun x a => Nat.max (tdepth x) a) 0 ts <= length (flat_map print_ty ts))%nat).
    { induction IH as [|x r Hx Hr IHr]; [cbn; lia|]. cbn [fold_right flat_map]. rewrite app_length. lia. }
    lia.
  - rewrite app_length. cbn [length]. lia.
Qed.

Lemma parse_sig_fuel_print : forall ts, forallb ty_okb ts = true -> forall fuel, (length ts < fuel)%nat ->
  parse_sig_fuel fuel (flat_map print_ty ts) = Some ts.
Proof.
  induction ts as [|t ts IH]; intros Hok fuel Hf.
  - destruct fuel; [lia|]. reflexivity.
  - cbn [forallb] in Hok. apply andb_true_iff in Hok. destruct Hok as [Ht Hts].
    destruct fuel as [|f]; [lia|]. cbn [length] in Hf.
    cbn [flat_map parse_sig_fuel].
    destruct (print_ty_head t Ht) as (c & r & E & _).
    destruct (print_ty t ++ flat_map print_ty ts) as [|c0 r0] eqn:E0.
    { rewrite E in E0. discriminate. }
    rewrite <- E0.
    rewrite parse_sct_print; [|exact Ht|].
    + rewrite IH by (assumption || lia). reflexivity.
    + rewrite app_length. pose proof (tdepth_lt_length t). lia.
Qed.

Theorem parse_sig_prints : forall ts, forallb ty_okb ts = true -> parse_sig (flat_map print_ty ts) = Some ts.
Proof.
  intros ts Hok. unfold parse_sig. apply parse_sig_fuel_print; [exact Hok|].
  pose proof (flat_print_length ts). lia.
Qed.

Theorem parse_sig_print : forall t, ty_okb t = true -> parse_sig (print_ty t) = Some [t].
Proof.
  intros t Hok. pose proof (parse_sig_prints [t]) as H. cbn [flat_map forallb] in H.
  rewrite app_nil_r, andb_true_r in H. apply H. exact Hok.
Qed.

(* ---- the specification accepts printed types within the limits ----------------------- *)
Theorem spec_single_signature_print : forall t, ty_okb t = true ->
  nlen (print_ty t) <= 255 -> array_nest t <= 32 -> struct_nest t <= 32 ->
  spec_single_signature (print_ty t) = true.
Proof.
  intros t Hok Hl Ha Hs. unfold spec_single_signature, spec_signature.
  rewrite (parse_sig_print t Hok). cbn [forallb].
  repeat (apply andb_true_iff; split); try reflexivity; apply N.leb_le; assumption.
Qed.

Theorem spec_signature_prints : forall ts, forallb ty_okb ts = true ->
  nlen (flat_map print_ty ts) <= 255 ->
  Forall (fun t => array_nest t <= 32 /\ struct_nest t <= 32) ts ->
  spec_signature (flat_map print_ty ts) = true.
Proof.
  intros ts Hok Hl Hn. unfold spec_signature. rewrite (parse_sig_prints ts Hok).
  apply andb_true_iff; split; [apply N.leb_le; exact Hl|].
  apply forallb_forall. intros t Hin. rewrite Forall_forall in Hn. destruct (Hn t Hin) as [Ha Hs].
  apply andb_true_iff; split; apply N.leb_le; assumption.
Qed.

Theorem sig_roundtrips_ok : forall t, ty_okb t = true ->
  nlen (print_ty t) <= 255 -> array_nest t <= 32 -> struct_nest t <= 32 ->
  sig_roundtrips t = true.
Proof.
  intros t Hok Hl Ha Hs. unfold sig_roundtrips.
  rewrite (spec_single_signature_print t Hok Hl Ha Hs), (parse_sig_print t Hok), ty_eqb_refl.
  rewrite !andb_true_r. apply N.ltb_lt. lia.
Qed.

(* ---- corollary: well-formedness of variant values without the round-trip premise ----- *)
Lemma wfb_depth le depth pos v : wfb le depth pos v = true -> depth <= max_value_depth.
Proof. destruct v; cbn [wfb]; intros H; apply andb_true_iff in H; destruct H as [H _]; apply N.leb_le; exact H. Qed.

Theorem wfb_variant : forall le depth pos t x,
  ty_of_val x = t -> ty_okb t = true ->
  nlen (print_ty t) <= 255 -> array_nest t <= 32 -> struct_nest t <= 32 ->
  wfb le (depth + 1) (pos + (nlen (print_ty t) + 2)) x = true ->
  wfb le depth pos (VVar t x) = true.
Proof.
  intros le depth pos t x Hty Hok Hl Ha Hs Hx.
  pose proof (wfb_depth _ _ _ _ Hx) as Hd.
  cbn [wfb]. rewrite Hx, (sig_roundtrips_ok t Hok Hl Ha Hs), Hty, ty_eqb_refl.
  rewrite !andb_true_r. apply N.leb_le. lia.
Qed.

(* ---- parse then print: the parser only accepts printed well-formed types ------------------- *)
Lemma parse_sct_nil f : parse_sct f [] = None.
Proof. destruct f; reflexivity. Qed.

Lemma parse_sct_other f c r : is_basic_code c = false -> c <> 118 -> c <> 97 -> c <> 40 ->
  parse_sct (S f) (c :: r) = None.
Proof.
  intros H0 H1 H2 H3. apply N.eqb_neq in H1, H2, H3. cbn [parse_sct]. rewrite H0, H1, H2, H3. reflexivity.
Qed.

Lemma parse_sct_dict_eq f r1 : parse_sct (S f) (97 :: 123 :: r1) =
  match r1 with
  | k :: r2 => if is_basic_code k then
                 match parse_sct f r2 with
                 | Some (v, 125 :: r3) => Some (TArray (TDict k v), r3)
                 | _ => None
                 end
               else None
  | [] => None
  end.
Proof. reflexivity. Qed.

Lemma match125_inv {A} (x : bytes) (X : bytes -> option A) (res : A) :
  match x with 125 :: r3 => X r3 | _ => None end = Some res -> exists r3, x = 125 :: r3 /\ X r3 = Some res.
Proof.
  destruct x as [|c r]; [discriminate|]. destruct c as [|p]; [discriminate|].
  do 7 (destruct p as [p|p|]; try discriminate). intros H. exists r. auto.
Qed.

Section FieldsSound.
  Variable f : nat.
  Hypothesis IHf : forall s t r, parse_sct f s = Some (t, r) -> s = print_ty t ++ r /\ ty_okb t = true.

  Lemma fields_sound : forall g s acc t r, fields f g s acc = Some (t, r) ->
    exists ts, t = TStruct (rev acc ++ ts) /\ rev acc ++ ts <> [] /\
               s = flat_map print_ty ts ++ 41 :: r /\ forallb ty_okb ts = true.
  Proof.
    induction g as [|g IH]; intros s acc t r H; [discriminate|].
    destruct s as [|c s'].
    { cbn [fields] in H. rewrite parse_sct_nil in H. discriminate. }
    destruct (N.eq_dec c 41) as [->|Hc].
    - rewrite fields_close in H. destruct acc as [|a acc']; [discriminate|]. injection H as <- <-.
      exists []. rewrite app_nil_r. repeat split.
      intros E. apply (f_equal (@length ty)) in E. rewrite rev_length in E. discriminate.
    - rewrite fields_step in H by exact Hc.
      destruct (parse_sct f (c :: s')) as [[t1 r1]|] eqn:E1; [|discriminate].
      destruct (IHf _ _ _ E1) as [Es Hok1].
      destruct (IH _ _ _ _ H) as (ts & -> & Hne & -> & Hok).
      exists (t1 :: ts). cbn [rev] in *. rewrite <- app_assoc in *. cbn [app] in *.
      split; [reflexivity|]. split; [exact Hne|]. split.
      + rewrite Es. cbn [flat_map]. rewrite <- app_assoc. reflexivity.
      + cbn [forallb]. rewrite Hok1, Hok. reflexivity.
  Qed.
End FieldsSound.

Lemma parse_sct_sound : forall fuel s t r, parse_sct fuel s = Some (t, r) ->
  s = print_ty t ++ r /\ ty_okb t = true.
Proof.
  induction fuel as [|f IH]; intros s t r H; [discriminate|].
  destruct s as [|c s']; [discriminate|].
  destruct (is_basic_code c) eqn:Hb.
  { rewrite parse_sct_basic in H by exact Hb. injection H as <- <-. auto. }
  destruct (N.eq_dec c 118) as [->|H118].
  { rewrite parse_sct_variant in H. injection H as <- <-. auto. }
  destruct (N.eq_dec c 97) as [->|H97].
  { destruct s' as [|c2 s2].
    { cbn [parse_sct] in H. change (is_basic_code 97) with false in H. change (97 =? 118) with false in H.
      change (97 =? 97) with true in H. cbv iota in H. rewrite parse_sct_nil in H. discriminate. }
    destruct (N.eq_dec c2 123) as [->|H123].
    - rewrite parse_sct_dict_eq in H. destruct s2 as [|k r2]; [discriminate|].
      destruct (is_basic_code k) eqn:Hk; [|discriminate].
      destruct (parse_sct f r2) as [[v x]|] eqn:Ev; [|discriminate].
      apply (match125_inv x (fun r3 => Some (TArray (TDict k v), r3))) in H. destruct H as (r3 & -> & H).
      injection H as <- <-. destruct (IH _ _ _ Ev) as [-> Hv].
      split; [cbn [print_ty app]; rewrite <- app_assoc; reflexivity|]. cbn [ty_okb]. rewrite Hk, Hv. reflexivity.
    - rewrite parse_sct_array in H by exact H123.
      destruct (parse_sct f (c2 :: s2)) as [[t1 r1]|] eqn:E1; [|discriminate]. injection H as <- <-.
      destruct (IH _ _ _ E1) as [Es Hok1]. split; [cbn [print_ty app]; rewrite Es; reflexivity|].
      destruct t1; try exact Hok1. discriminate. }
  destruct (N.eq_dec c 40) as [->|H40].
  { rewrite parse_sct_struct in H. destruct (fields_sound f IH _ _ _ _ _ H) as (ts & -> & Hne & -> & Hok).
    cbn [rev app] in *. split; [cbn [print_ty app]; rewrite <- app_assoc; reflexivity|].
    cbn [ty_okb]. rewrite Hok. destruct ts; [contradiction|reflexivity]. }
  rewrite parse_sct_other in H by assumption. discriminate.
Qed.

Lemma parse_sig_fuel_sound : forall fuel s ts, parse_sig_fuel fuel s = Some ts ->
  s = flat_map print_ty ts /\ forallb ty_okb ts = true.
Proof.
  induction fuel as [|f IH]; intros s ts H; [discriminate|].
  destruct s as [|c s']; [injection H as <-; auto|].
  cbn [parse_sig_fuel] in H.
  destruct (parse_sct (S (length (c :: s'))) (c :: s')) as [[t r]|] eqn:E; [|discriminate].
  destruct (parse_sig_fuel f r) as [ts'|] eqn:E2; [|discriminate]. injection H as <-.
  destruct (parse_sct_sound _ _ _ _ E) as [Es Hok]. destruct (IH _ _ E2) as [-> Hoks].
  split; [rewrite Es; reflexivity|]. cbn [forallb]. rewrite Hok, Hoks. reflexivity.
Qed.

Theorem parse_sig_sound : forall s ts, parse_sig s = Some ts ->
  s = flat_map print_ty ts /\ forallb ty_okb ts = true.
Proof. intros s ts. apply parse_sig_fuel_sound. Qed.

(* the grammar is exactly the set of printed sequences of well-formed types *)
Theorem parse_sig_iff : forall s ts,
  parse_sig s = Some ts <-> (s = flat_map print_ty ts /\ forallb ty_okb ts = true).
Proof.
  intros s ts. split; [apply parse_sig_sound|]. intros [-> H]. apply parse_sig_prints. exact H.
Qed.

(* non-vacuity *)
Example ex_ok : ty_okb (TArray (TDict 115 (TStruct [TBasic 105; TArray TVariant]))) = true.
Proof. reflexivity. Qed.
Example ex_dict_bare : ty_okb (TStruct [TDict 115 TVariant]) = false.
Proof. reflexivity. Qed.

Print Assumptions wfb_variant.
Print Assumptions parse_sig_prints.
