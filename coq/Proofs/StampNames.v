(* C03, unique names: the printed form ":MAJOR.MINOR" is injective, and create_unique_client_name
   (Stamp.mint) returns the next fresh name at its first iteration whenever every registered
   ':'-name was minted before. *)
From DV Require Import Lib.Base Stamp.Stamp Spec.StampSpec.
From Coq Require Import ZArith DecimalN Lia.
Local Open Scope N_scope.

Definition is_digit (b : N) : Prop := 48 <= b /\ b <= 57.

Lemma uint_bytes_digits u : Forall is_digit (uint_bytes u).
Proof. induction u; cbn [uint_bytes]; constructor; try assumption; unfold is_digit; lia. Qed.

Lemma uint_bytes_inj u : forall v, uint_bytes u = uint_bytes v -> u = v.
Proof.
  induction u; destruct v; cbn [uint_bytes]; intros H; try discriminate; try reflexivity;
    injection H; intros H'; f_equal; auto.
Qed.

Lemma to_uint_inj a b : N.to_uint a = N.to_uint b -> a = b.
Proof. intros H. rewrite <- (Unsigned.of_to a), <- (Unsigned.of_to b), H. reflexivity. Qed.

Lemma dec_inj a b : (0 <= a)%Z -> (0 <= b)%Z -> dec a = dec b -> a = b.
Proof.
  intros Ha Hb H. unfold dec in H. apply uint_bytes_inj in H. apply to_uint_inj in H. lia.
Qed.

Lemma dec_digits a : Forall is_digit (dec a).
Proof. apply uint_bytes_digits. Qed.

(* splitting at the first '.' is unambiguous when the left parts contain no '.' *)
Lemma split_at_dot : forall a a' b b' : bytes,
  Forall is_digit a -> Forall is_digit a' -> a ++ 46 :: b = a' ++ 46 :: b' -> a = a' /\ b = b'.
Proof.
  induction a as [|x a IH]; intros [|y a'] b b' Ha Ha' H; cbn [app] in H.
  - injection H; intros; subst. split; reflexivity.
  - injection H; intros _ E. inversion Ha' as [|? ? D _]; subst. unfold is_digit in D. lia.
  - injection H; intros _ E. inversion Ha as [|? ? D _]; subst. unfold is_digit in D. lia.
  - injection H; intros H' E. inversion Ha; inversion Ha'; subst.
    destruct (IH a' b b') as [-> ->]; auto.
Qed.

Lemma unique_name_inj a b a' b' :
  (0 <= a)%Z -> (0 <= b)%Z -> (0 <= a')%Z -> (0 <= b')%Z ->
  unique_name a b = unique_name a' b' -> a = a' /\ b = b'.
Proof.
  intros Ha Hb Ha' Hb' H. unfold unique_name in H. injection H; intros H'.
  apply split_at_dot in H'; try apply dec_digits. destruct H' as [H1 H2].
  split; apply dec_inj; assumption.
Qed.

Lemma unique_name_colon a b : starts_with_colon (unique_name a b).
Proof. unfold starts_with_colon, unique_name. eexists. reflexivity. Qed.

(* the placeholder and the driver's name are not unique names the bus can mint *)
Lemma not_active_not_minted a b : unique_name a b <> not_active.
Proof.
  unfold unique_name, not_active. intros H. injection H; intros H'.
  pose proof (dec_digits a) as D. destruct (dec a) as [|x r]; cbn [app] in H'; [discriminate|].
  injection H'; intros _ E. inversion D as [|? ? Dx _]; subst. unfold is_digit in Dx. lia.
Qed.

Lemma drv_name_not_minted a b : unique_name a b <> drv_name.
Proof. unfold unique_name, drv_name. discriminate. Qed.

(* ---------------- mint ------------------------------------------------------------------------ *)
Lemma existsb_bytes_false name reg :
  (forall n, In n reg -> n <> name) -> existsb (bytes_eqb name) reg = false.
Proof.
  induction reg as [|x r IH]; intros H; [reflexivity|]. cbn [existsb].
  destruct (bytes_eqb name x) eqn:E.
  - apply bytes_eqb_eq in E. exfalso. apply (H x); [left; reflexivity | congruence].
  - cbn. apply IH. intros n Hn. apply H. right. exact Hn.
Qed.

(* counters as the bus leaves them: (0,0) before the first client, (1, k) after k names *)
Definition counters_ok (mj mn : Z) : Prop := (mj = 0 /\ mn = 0)%Z \/ (mj = 1 /\ 0 < mn)%Z.

Lemma mint_fresh fuel reg mj mn :
  counters_ok mj mn -> (mn < INT_MAX)%Z ->
  (forall n, In n reg -> exists k, (0 <= k < mn)%Z /\ n = unique_name 1 k) ->
  mint (S fuel) reg mj mn = inr (unique_name 1 mn, 1%Z, (mn + 1)%Z).
Proof.
  intros C B R. cbn [mint].
  assert (F : existsb (bytes_eqb (unique_name 1 mn)) reg = false).
  { apply existsb_bytes_false. intros n Hn E. destruct (R n Hn) as (k & Hk & ->).
    apply unique_name_inj in E; unfold counters_ok in C; lia. }
  unfold INT_MAX in *. destruct C as [[-> ->]|[-> P]].
  - cbn [Z.leb Z.compare Z.eqb Z.add Z.ltb negb orb Pos.compare]. cbn in F |- *. rewrite F. reflexivity.
  - destruct (Z.leb_spec mn 0); [lia|]. cbn [Z.ltb Z.compare negb orb].
    destruct (Z.ltb_spec mn 0); [lia|]. destruct (Z.eqb_spec mn 2147483647); [lia|].
    rewrite F. reflexivity.
Qed.

Lemma mint_overflow fuel reg :
  mint (S fuel) reg 1 INT_MAX = inl FOverflow.
Proof. reflexivity. Qed.
