(* Structural facts about the SASL server model: _dbus_auth_do_work terminates,
   how the input stream is consumed (line framing), the buffer cap, and the
   rejection counter. *)
From DV Require Import Lib.Base Auth.Types Gen.AuthTables Auth.Sha1 Wire.Utf8 Auth.Server Proofs.AuthInv.
Require Import ZifyBool ZifyN ZifyNat.
Local Open Scope N_scope.

(* ---------- _dbus_string_find "\r\n" ---------- *)
Lemma find_crlf_from_spec s : forall k i, find_crlf_from s k = Some i ->
  exists pre post, s = pre ++ 13 :: 10 :: post /\ i = k + nlen pre.
Proof.
  induction s as [|c r IH]; intros k i H; [discriminate|].
  cbn [find_crlf_from] in H. destruct r as [|d r']; [discriminate|].
  destruct ((c =? 13) && (d =? 10)) eqn:E.
  - inversion H; subst. apply andb_true_iff in E. destruct E as [E1 E2].
    apply N.eqb_eq in E1, E2. subst. exists [], r'. split; [reflexivity|]. unfold nlen. cbn. lia.
  - apply IH in H. destruct H as (pre & post & Hs & Hi).
    exists (c :: pre), post. split; [cbn; rewrite Hs; reflexivity|]. unfold nlen in *. cbn [length]. lia.
Qed.

Lemma find_crlf_spec s i : find_crlf s = Some i ->
  exists pre post, s = pre ++ 13 :: 10 :: post /\ N.to_nat i = length pre.
Proof.
  intros H. apply find_crlf_from_spec in H. destruct H as (pre & post & Hs & Hi).
  exists pre, post. split; [exact Hs|]. unfold nlen in Hi. lia.
Qed.

Lemma firstn_len_app {A} (p q : list A) : firstn (length p) (p ++ q) = p.
Proof. induction p; cbn; congruence. Qed.
Lemma skipn_len_app2 {A} (p q : list A) x y : skipn (length p + 2) (p ++ x :: y :: q) = q.
Proof. induction p; cbn; auto. Qed.

Lemma find_crlf_parts s i : find_crlf s = Some i ->
  s = firstn (N.to_nat i) s ++ crlf ++ skipn (N.to_nat i + 2) s /\ (N.to_nat i + 2 <= length s)%nat.
Proof.
  intros H. apply find_crlf_spec in H. destruct H as (pre & post & Hs & Hi).
  rewrite Hi. subst s. rewrite firstn_len_app, skipn_len_app2. split; [reflexivity|].
  rewrite app_length. cbn [length]. lia.
Qed.

(* ---------- process_command ---------- *)
Lemma process_command_shape e a eol :
  let line := firstn (N.to_nat eol) (a_incoming a) in
  let r := process_line e (a_core a) line in
  a_core (process_command e a eol) = fst r /\
  (is_crashed (fst r) = true -> a_incoming (process_command e a eol) = a_incoming a /\ a_outgoing (process_command e a eol) = a_outgoing a) /\
  (is_crashed (fst r) = false ->
     a_incoming (process_command e a eol) = skipn (N.to_nat eol + 2) (a_incoming a) /\
     a_outgoing (process_command e a eol) = a_outgoing a ++ flat_map (render e) (snd r)).
Proof.
  cbv zeta. unfold process_command. destruct (process_line e (a_core a) (firstn (N.to_nat eol) (a_incoming a))) as [c' rs].
  cbn [fst snd]. destruct (is_crashed c') eqn:E; cbn; repeat split; auto; intros; discriminate.
Qed.

Lemma crashed_end c : is_crashed c = true -> in_end_state c = true.
Proof. unfold is_crashed, in_end_state. destruct (a_state c); cbn; auto; discriminate. Qed.

(* ---------- _dbus_auth_do_work terminates ---------- *)
Lemma work_total e : forall fuel a, (length (a_incoming a) < fuel)%nat -> work e fuel a <> None.
Proof.
  induction fuel as [|f IH]; intros a Hlt; [lia|].
  cbn [work]. destruct (in_end_state (a_core a)); [discriminate|].
  destruct ((MAX_BUFFER <? nlen (a_incoming a)) || (MAX_BUFFER <? nlen (a_outgoing a))); [discriminate|].
  destruct (find_crlf (a_incoming a)) as [eol|] eqn:E; [|discriminate].
  destruct (find_crlf_parts _ _ E) as [_ Hlen].
  destruct (process_command_shape e a eol) as (Hc & Hcr & Hok). cbv zeta in *.
  destruct (is_crashed (fst (process_line e (a_core a) (firstn (N.to_nat eol) (a_incoming a))))) eqn:Ecr.
  - destruct f as [|f']; [lia|]. cbn [work]. rewrite Hc. rewrite (crashed_end _ Ecr). discriminate.
  - apply IH. destruct (Hok eq_refl) as [Hi _]. rewrite Hi, skipn_length. lia.
Qed.

Theorem do_work_total e a : do_work e a <> None.
Proof. unfold do_work. apply work_total. lia. Qed.

(* ---------- after _dbus_auth_do_work: finished, or little is buffered ---------- *)
Lemma work_bound e : forall fuel a a', work e fuel a = Some a' ->
  in_end_state (a_core a') = true \/
  (nlen (a_incoming a') <= MAX_BUFFER /\ nlen (a_outgoing a') <= MAX_BUFFER /\ find_crlf (a_incoming a') = None).
Proof.
  induction fuel as [|f IH]; intros a a' H; [discriminate|].
  cbn [work] in H. destruct (in_end_state (a_core a)) eqn:E1; [inversion H; subst; auto|].
  destruct ((MAX_BUFFER <? nlen (a_incoming a)) || (MAX_BUFFER <? nlen (a_outgoing a))) eqn:E2.
  - inversion H; subst. left. reflexivity.
  - destruct (find_crlf (a_incoming a)) as [eol|] eqn:E3.
    + eapply IH; eauto.
    + inversion H; subst. right. apply orb_false_iff in E2. destruct E2 as [X Y].
      apply N.ltb_ge in X, Y. auto.
Qed.

(* ---------- everything that can happen to the object ---------- *)
Definition join_lines (ls : list bytes) : bytes := flat_map (fun l => l ++ crlf) ls.

Inductive reach (e : env) : bytes -> list bytes -> list resp -> auth -> Prop :=
| R_init : reach e [] [] [] auth_init
| R_feed inp ls rs a c : reach e inp ls rs a ->
    reach e (inp ++ c) ls rs (mkAuth (a_core a) (a_incoming a ++ c) (a_outgoing a))
| R_sent inp ls rs a n : reach e inp ls rs a ->
    reach e inp ls rs (mkAuth (a_core a) (a_incoming a) (skipn n (a_outgoing a)))
| R_line inp ls rs a eol : reach e inp ls rs a ->
    in_end_state (a_core a) = false -> nlen (a_incoming a) <= MAX_BUFFER -> nlen (a_outgoing a) <= MAX_BUFFER ->
    find_crlf (a_incoming a) = Some eol ->
    reach e inp (ls ++ [firstn (N.to_nat eol) (a_incoming a)])
          (rs ++ snd (process_line e (a_core a) (firstn (N.to_nat eol) (a_incoming a))))
          (process_command e a eol)
| R_overflow inp ls rs a : reach e inp ls rs a ->
    in_end_state (a_core a) = false -> (MAX_BUFFER < nlen (a_incoming a) \/ MAX_BUFFER < nlen (a_outgoing a)) ->
    reach e inp ls rs (mkAuth (set_state (a_core a) NeedDisconnect) (a_incoming a) (a_outgoing a)).

Lemma work_reach e : forall fuel inp ls rs a a', reach e inp ls rs a -> work e fuel a = Some a' ->
  exists ls' rs', reach e inp ls' rs' a'.
Proof.
  induction fuel as [|f IH]; intros inp ls rs a a' R H; [discriminate|].
  cbn [work] in H. destruct (in_end_state (a_core a)) eqn:E1; [inversion H; subst; eauto|].
  destruct ((MAX_BUFFER <? nlen (a_incoming a)) || (MAX_BUFFER <? nlen (a_outgoing a))) eqn:E2.
  - inversion H; subst. exists ls, rs. apply R_overflow; auto.
    apply orb_true_iff in E2. destruct E2 as [X|X]; apply N.ltb_lt in X; auto.
  - apply orb_false_iff in E2. destruct E2 as [X Y]. apply N.ltb_ge in X, Y.
    destruct (find_crlf (a_incoming a)) as [eol|] eqn:E3; [|inversion H; subst; eauto].
    eapply IH; [|exact H]. apply R_line; eauto.
Qed.

Fixpoint fed (evs : list event) : bytes :=
  match evs with [] => [] | Feed c :: r => c ++ fed r | Sent _ :: r => fed r end.

Lemma run_reach_gen e : forall evs inp ls rs a a', reach e inp ls rs a -> run e a evs = Some a' ->
  exists ls' rs', reach e (inp ++ fed evs) ls' rs' a'.
Proof.
  induction evs as [|ev evs IH]; intros inp ls rs a a' R H.
  - inversion H; subst. cbn. rewrite app_nil_r. eauto.
  - cbn [run] in H. destruct (step e a ev) as [a1|] eqn:E; [|discriminate].
    destruct ev as [c|n]; cbn [step] in E; unfold do_work in E.
    + eapply work_reach in E; [|apply R_feed; exact R]. destruct E as (ls1 & rs1 & R1).
      destruct (IH _ _ _ _ _ R1 H) as (ls2 & rs2 & R2). cbn [fed]. rewrite app_assoc. eauto.
    + eapply work_reach in E; [|apply R_sent; exact R]. destruct E as (ls1 & rs1 & R1).
      destruct (IH _ _ _ _ _ R1 H) as (ls2 & rs2 & R2). cbn [fed]. eauto.
Qed.

Theorem run_reach e evs a : run e auth_init evs = Some a -> exists ls rs, reach e (fed evs) ls rs a.
Proof. intros H. eapply run_reach_gen in H; [|apply R_init]. exact H. Qed.

Theorem run_total e : forall evs a, exists a', run e a evs = Some a'.
Proof.
  induction evs as [|ev evs IH]; intros a; [eexists; reflexivity|].
  cbn [run]. destruct (step e a ev) as [a1|] eqn:E; [apply IH|].
  exfalso. destruct ev; cbn [step] in E; eapply do_work_total; eauto.
Qed.

(* ---------- framing: the input is the processed lines followed by what is still buffered ---------- *)
Theorem reach_framing e inp ls rs a : reach e inp ls rs a -> is_crashed (a_core a) = false ->
  inp = join_lines ls ++ a_incoming a.
Proof.
  induction 1; intros Hc; cbn [a_incoming a_core] in *.
  - reflexivity.
  - rewrite IHreach by assumption. rewrite app_assoc. reflexivity.
  - auto.
  - destruct (process_command_shape e a eol) as (Hco & _ & Hok). cbv zeta in *.
    rewrite Hco in Hc. destruct (Hok Hc) as [Hi _]. rewrite Hi.
    assert (Hnc : is_crashed (a_core a) = false).
    { unfold is_crashed. unfold in_end_state in H0. destruct (a_state (a_core a)); cbn; auto; discriminate. }
    rewrite (IHreach Hnc). unfold join_lines. rewrite flat_map_app. cbn [flat_map]. rewrite app_nil_r, <- !app_assoc.
    f_equal. destruct (find_crlf_parts _ _ H3) as [Hp _]. exact Hp.
  - apply IHreach. unfold is_crashed. unfold in_end_state in H0. destruct (a_state (a_core a)); cbn; auto; discriminate.
Qed.

(* ---------- the protocol invariant holds in every reachable state ---------- *)
Theorem reach_Inv e inp ls rs a : reach e inp ls rs a -> Inv e (a_core a).
Proof.
  induction 1; cbn [a_core]; auto.
  - apply Inv_init.
  - destruct (process_command_shape e a eol) as (Hco & _ & _). cbv zeta in *. rewrite Hco. apply Inv_process_line. assumption.
  - apply Inv_set_disconnect. assumption.
Qed.
