(* C13 proofs, part 4: the property theorems. *)
From DV Require Import Lib.Base Gen.Tables Wire.Names Registry.RegTypes Registry.Registry
  Spec.NamesSpec Spec.RegistrySpec Proofs.RegistryBase Proofs.RegistryInv Proofs.RegistryMain.
From DV Require Import Limits.Limits Spec.LimitsSpec Proofs.LimitsBase Proofs.LimitsReg Proofs.LimitsInv.
From Coq Require Import ZifyBool ZifyN ZifyNat.
Local Open Scope N_scope.

(* ---- the counts stay within the limits, and the counters are exact ------------------------------------------ *)
Lemma in_ids_find cs c : In c (ids cs) -> exists x, find_conn cs c = Some x.
Proof. intros H. destruct (find_conn cs c) eqn:E; [eauto|]. apply find_conn_none in E. contradiction. Qed.

Lemma linv_names_exact L s x : linv L s -> In x (s_conns s) -> nlen (c_owned x) = n_names s (c_id x).
Proof. intros I Hx. exact (names_exact (reg L s) x (linv_inv L s I) Hx). Qed.

Lemma linv_names_le L s c : linv L s -> n_names s c <= max_names_per_connection L.
Proof.
  intros I. destruct (in_dec N.eq_dec c (ids (s_conns s))) as [Hin|Hn].
  - destruct (in_ids_find _ _ Hin) as [x Hx]. apply find_conn_in in Hx. destruct Hx as [Hx <-].
    rewrite <- (linv_names_exact L s x I Hx). exact (li_bounded _ _ I x Hx).
  - unfold n_names. pose proof (names_dead (reg L s) c (linv_inv L s I) Hn) as E. simpl in E. rewrite E. unfold nlen. simpl. lia.
Qed.

Lemma linv_rules_le L s c : linv L s -> n_rules s c <= max_match_rules_per_connection L.
Proof.
  intros I. destruct (find_cd (s_cdata s) c) as [d|] eqn:Hd.
  - apply find_cd_in in Hd. destruct Hd as [Hin <-]. rewrite <- (li_nrules _ _ I d Hin). exact (li_rules_le _ _ I d Hin).
  - apply find_cd_none in Hd. rewrite (li_ids _ _ I) in Hd. unfold n_rules.
    change (cnt (fun e => fst e =? c) (s_rules s) <= max_match_rules_per_connection L).
    rewrite (cnt_zero (fun e => fst e =? c) (s_rules s)); [lia|]. intros e He. apply N.eqb_neq. intros E. apply Hd. rewrite <- E.
    exact (li_rules_live _ _ I e He).
Qed.

(* not yet authenticated implies not yet registered *)
Lemma cnt_le_impl {A} (p q : A -> bool) l : (forall x, In x l -> p x = true -> q x = true) -> cnt p l <= cnt q l.
Proof.
  induction l as [|x l IH]; intros H; [reflexivity|]. rewrite !cnt_cons.
  assert (IH' : cnt p l <= cnt q l) by (apply IH; intros y Hy; apply H; right; exact Hy).
  specialize (H x (or_introl eq_refl)). unfold b2n. destruct (p x); [rewrite H by reflexivity|]; destruct (q x); lia.
Qed.

Lemma cnt_by_id_cd (p : cdata -> bool) ds : NoDup (cids ds) ->
  cnt p ds = cnt (fun i => match find_cd ds i with Some d => p d | None => false end) (cids ds).
Proof.
  induction ds as [|y ds IH]; intros N; [reflexivity|]. inversion N; subst. simpl cids. rewrite !cnt_cons. simpl find_cd at 2. rewrite N.eqb_refl.
  f_equal. rewrite (IH H2). apply cnt_ext. intros i Hi. simpl. destruct (d_id y =? i) eqn:E; [|reflexivity].
  apply N.eqb_eq in E. subst i. contradiction.
Qed.

Lemma cnt_by_id_conn (p : conn -> bool) cs : NoDup (ids cs) ->
  cnt p cs = cnt (fun i => match find_conn cs i with Some x => p x | None => false end) (ids cs).
Proof.
  induction cs as [|y cs IH]; intros N; [reflexivity|]. inversion N; subst. simpl ids. rewrite !cnt_cons. simpl find_conn at 2. rewrite N.eqb_refl.
  f_equal. rewrite (IH H2). apply cnt_ext. intros i Hi. simpl. destruct (c_id y =? i) eqn:E; [|reflexivity].
  apply N.eqb_eq in E. subst i. contradiction.
Qed.

Lemma linv_unauthenticated_le L s : linv L s -> n_unauthenticated s <= n_unregistered s.
Proof.
  intros I. unfold n_unauthenticated, n_unregistered.
  change (cnt (fun d => negb (d_auth d)) (s_cdata s) <= cnt (fun x => negb (c_active x)) (s_conns s)).
  rewrite (cnt_by_id_cd _ _ (linv_nodup_cd L s I)), (cnt_by_id_conn _ _ (linv_nodup L s I)), (li_ids _ _ I).
  apply cnt_le_impl. intros i Hi Hp.
  destruct (in_ids_find _ _ Hi) as [x Hx]. rewrite Hx.
  destruct (c_active x) eqn:Ha; [|reflexivity]. exfalso.
  pose proof (li_auth _ _ I i) as A. unfold registered, authenticated in A. rewrite Hx in A. specialize (A Ha).
  destruct (find_cd (s_cdata s) i) as [d|]; [|discriminate]. rewrite A in Hp. discriminate.
Qed.

Theorem linv_within L s : linv L s -> within_limits L s.
Proof.
  intros I. constructor.
  - rewrite <- (li_ncomp _ _ I). exact (li_comp_le _ _ I).
  - intros u. rewrite <- (li_user _ _ I u). exact (li_user_le _ _ I u).
  - rewrite <- (li_ninc _ _ I). exact (li_inc_le _ _ I).
  - pose proof (linv_unauthenticated_le L s I). pose proof (li_inc_le _ _ I). rewrite (li_ninc _ _ I) in *. lia.
  - intros c. apply linv_names_le. exact I.
  - intros c. apply linv_rules_le. exact I.
  - exact (li_pend_le _ _ I).
Qed.

Theorem linv_exact L s : linv L s -> counters_exact s.
Proof.
  intros I. constructor.
  - exact (li_ncomp _ _ I).
  - exact (li_ninc _ _ I).
  - exact (li_user _ _ I).
  - exact (li_nrules _ _ I).
  - intros x Hx. eapply linv_names_exact; eauto.
Qed.

Theorem within_limits_reachable L h : usable L -> within_limits L (fst (lrun L linit h)).
Proof. intros H. apply linv_within. apply reachable_linv. exact H. Qed.

Theorem counters_exact_reachable L h : usable L -> counters_exact (fst (lrun L linit h)).
Proof. intros H. eapply linv_exact. apply reachable_linv. exact H. Qed.

Theorem limits_never_exceeded_proved : limits_never_exceeded.
Proof. intros L H h. apply within_limits_reachable. apply all_at_least_one_usable. exact H. Qed.

(* ---- a refusal changes nothing ------------------------------------------------------------------------------------- *)
Lemma is_refusal_conv o : is_refusal (conv o) = true -> snd o = MError ELimitsExceeded.
Proof.
  unfold conv, is_refusal. destruct o as [c m]. simpl. destruct m; simpl; try discriminate.
  destruct e; simpl; try discriminate. reflexivity.
Qed.

Lemma refusal_map_conv ro : refusal (map conv ro) = true -> exists o, In o ro /\ snd o = MError ELimitsExceeded.
Proof.
  unfold refusal. intros H. apply existsb_exists in H. destruct H as [x [Hx Hr]]. apply in_map_iff in Hx.
  destruct Hx as [o [<- Ho]]. exists o. split; [exact Ho | apply is_refusal_conv; exact Hr].
Qed.

Lemma refusal_app a b : refusal (a ++ b) = refusal a || refusal b.
Proof. unfold refusal. apply existsb_app. Qed.

Lemma drop_pending_no_refusal l c : refusal (snd (drop_pending l c)) = false.
Proof.
  induction l as [|p l IH]; [reflexivity|]. simpl. destruct (drop_pending l c) as [r o]. simpl in IH.
  destruct (p_get p =? c); [exact IH|]. destruct (p_send p =? c); simpl; exact IH.
Qed.

Lemma state_eta s : mkState (s_conns s) (s_services s) (s_next s) (s_cdata s) (s_rules s) (s_pending s) (s_ncomplete s) (s_nincomplete s) (s_byuser s) (s_watches s) = s.
Proof. destruct s; reflexivity. Qed.

Lemma with_reg_same L s : with_reg s (reg L s) = s.
Proof. unfold with_reg, reg. simpl. apply state_eta. Qed.

Lemma disconnect_no_refusal L s c byb : refusal (snd (disconnect L s c byb)) = false.
Proof.
  unfold disconnect.
  destruct (find_conn (s_conns s) c) as [cn|]; [|reflexivity].
  destruct (find_cd (s_cdata s) c) as [d|]; [|reflexivity].
  destruct (step (reg L s) (EvDisconnect c)) as [b' ro] eqn:Es.
  destruct (existsb is_fault ro); [reflexivity|].
  pose proof (drop_pending_no_refusal (s_pending s) c) as Hp. destruct (drop_pending (s_pending s) c) as [pl po]. simpl in Hp. cbn [snd].
  rewrite !refusal_app, Hp, orb_false_r.
  assert (Hr : refusal (map conv ro) = false).
  { destruct (refusal (map conv ro)) eqn:Er; [|reflexivity]. exfalso. apply refusal_map_conv in Er. destruct Er as [o [Ho Eo]].
    assert (Hin : In o (snd (step (reg L s) (EvDisconnect c)))) by (rewrite Es; exact Ho).
    destruct (step_error _ _ _ _ Hin Eo) as [_ [_ F]]. exact F. }
  rewrite Hr. destruct byb; reflexivity.
Qed.

Lemma via_registry_refusal L s c e : refusal (snd (via_registry L s c e)) = true -> fst (via_registry L s c e) = s.
Proof.
  unfold via_registry. destruct (step (reg L s) e) as [b' ro] eqn:Es. destruct (existsb is_fault ro); [reflexivity|].
  cbn [fst snd]. intros H. apply refusal_map_conv in H. destruct H as [o [Ho Eo]].
  assert (Hin : In o (snd (step (reg L s) e))) by (rewrite Es; exact Ho).
  pose proof (step_error_noop _ _ _ _ Hin Eo) as Hb. rewrite Es in Hb. simpl in Hb. subst b'. apply with_reg_same.
Qed.

(* A refusal changes nothing - except that a method call which carries a REPLY_SERIAL has, by then, already used up
   the reply slot that serial referred to (bus_connections_check_reply runs first and is not undone). *)
Definition after_refusal (s : state) (e : levent) : state :=
  match e with
  | Call c d _ _ rserial => if rserial =? 0 then s else with_pending s (check_reply (s_pending s) d c rserial)
  | _ => s
  end.

Lemma with_pending_same s : with_pending s (s_pending s) = s.
Proof. destruct s; reflexivity. Qed.

Theorem refusal_effect L s e : refusal (snd (lstep L s e)) = true -> fst (lstep L s e) = after_refusal s e.
Proof.
  destruct e; cbn [lstep after_refusal].
  - destruct (negb (s_watches s)); [reflexivity|]. destruct (max_incomplete_connections L <? s_nincomplete s + 1); simpl; discriminate.
  - destruct (find_cd (s_cdata s) c) as [d|]; [|reflexivity]. destruct (d_auth d); [reflexivity | simpl; discriminate].
  - destruct (find_conn (s_conns s) c) as [cn|] eqn:Hf; [|reflexivity].
    destruct (find_cd (s_cdata s) c) as [d|]; [|reflexivity].
    destruct (negb (d_auth d)); [reflexivity|].
    destruct (c_active cn) eqn:Ha; [reflexivity|].
    destruct (max_completed_connections L <=? s_ncomplete s); [reflexivity|].
    destruct (max_connections_per_user L <=? get_uid (s_byuser s) (d_uid d)); [reflexivity|].
    destruct (step (reg L s) (EvHello c)) as [b' ro] eqn:Es. destruct (existsb is_fault ro); [reflexivity|]. cbn [fst snd].
    intros H. exfalso. apply refusal_map_conv in H. destruct H as [o [Ho Eo]].
    assert (Hin : In o (snd (step (reg L s) (EvHello c)))) by (rewrite Es; exact Ho).
    destruct (step_error _ _ _ _ Hin Eo) as [_ [_ [cn' [Hf' Ha']]]]. simpl in Hf'. rewrite Hf in Hf'. inversion Hf'; subst. rewrite Ha in Ha'. discriminate.
  - rewrite disconnect_no_refusal. discriminate.
  - apply via_registry_refusal.
  - apply via_registry_refusal.
  - destruct (find_conn (s_conns s) c) as [cn|]; [|reflexivity]. destruct (find_cd (s_cdata s) c) as [d|]; [|reflexivity].
    destruct (negb (c_active cn)); [reflexivity|]. destruct (max_match_rules_per_connection L <=? d_nrules d); [reflexivity|].
    destruct rule; [simpl; discriminate | reflexivity].
  - destruct (find_conn (s_conns s) c) as [cn|]; [|reflexivity]. destruct (find_cd (s_cdata s) c) as [d|]; [|reflexivity].
    destruct (negb (c_active cn)); [reflexivity|]. destruct rule; [|reflexivity].
    destruct (remove_rule (s_rules s) c n); [simpl; discriminate | reflexivity].
  - destruct (find_conn (s_conns s) c) as [cn|]; [|simpl; discriminate].
    destruct (negb (c_active cn)); [rewrite disconnect_no_refusal; discriminate|].
    destruct (negb (is_active s d)); [simpl; discriminate|].
    destruct noreply; [simpl; discriminate|].
    destruct (rserial =? 0).
    + destruct (expect_scan (s_pending s) c d serial 0); [|simpl; discriminate].
      destruct (max_replies_per_connection L <=? n); [intros _; apply with_pending_same | simpl; discriminate].
    + destruct (expect_scan (check_reply (s_pending s) d c rserial) c d serial 0); [|simpl; discriminate].
      destruct (max_replies_per_connection L <=? n); [reflexivity | simpl; discriminate].
  - destruct (find_conn (s_conns s) d) as [dn|]; [|reflexivity].
    destruct (negb (c_active dn)); [rewrite disconnect_no_refusal; discriminate|].
    destruct (negb (is_active s c)); [reflexivity | simpl; discriminate].
  - destruct (expire_one (s_pending s) c serial); [simpl; discriminate | reflexivity].
  - destruct (find_conn (s_conns s) c) as [cn|]; [|reflexivity].
    destruct (negb (c_active cn)); [rewrite disconnect_no_refusal; discriminate | reflexivity].
  - destruct (find_conn (s_conns s) c) as [cn|]; [|reflexivity].
    destruct (find_cd (s_cdata s) c) as [d|]; [|reflexivity].
    destruct (too_long_at (d_maxmsg d) hdr); [rewrite disconnect_no_refusal; discriminate | reflexivity].
Qed.

Theorem refusal_changes_nothing_partial L s e : plain e = true -> refusal (snd (lstep L s e)) = true -> fst (lstep L s e) = s.
Proof.
  intros Hp H. rewrite (refusal_effect L s e H). destruct e; try reflexivity. simpl in Hp. simpl. rewrite Hp. reflexivity.
Qed.
