(* C17: what one event can do, as seen through the cores of the calls
   ([summary]), and the relation between a reachable state and the trace that
   led to it ([rel]). *)
From Coq Require Import List NArith Bool Lia ZArith ZifyBool ZifyN ZifyNat.
Import ListNotations.
From DV Require Import PendingCall.Pending Spec.PendingSpec Proofs.PendingSerial Proofs.PendingLemmas.
Local Open Scope N_scope.

(* observations the trace predicates of the specification look at *)
Definition key (o : obs) : bool :=
  match o with OComplete _ _ | ONotify _ | OSent (Some _) | OPlain _ => true | _ => false end.

Inductive summary (st st' : state) (o : list obs) : Prop :=
| sum_quiet : cores st' = cores st -> serial st' = serial st -> filter key o = [] -> summary st st' o
| sum_call nf : filter key o = [OSent (Some (serial st))] -> serial st' = snd (next_serial (serial st)) ->
                cores st' = cores st ++ [mkCore (serial st) nf false false false] -> summary st st' o
| sum_plain : filter key o = [OPlain (serial st)] -> serial st' = snd (next_serial (serial st)) ->
              cores st' = cores st -> summary st st' o
| sum_complete i k x : nth_error (cores st) i = Some k -> k_completed k = false -> k_inflight k = false -> m_rs x = k_serial k ->
                       filter key o = [OComplete i x] -> serial st' = serial st -> cores st' = upd (cores st) i k_start -> summary st st' o
| sum_finish i k : nth_error (cores st) i = Some k -> k_inflight k = true ->
                   filter key o = (if k_hasnotify k then [ONotify i] else []) -> serial st' = serial st ->
                   cores st' = upd (cores st) i k_finish -> summary st st' o
| sum_cancel i : filter key o = [] -> serial st' = serial st -> cores st' = upd (cores st) i k_cancel -> summary st st' o.

Definition good (st st' : state) (o : list obs) : Prop := calls_ok st -> calls_ok st' /\ summary st st' o.

Lemma good_quiet st st' o : quiet st st' -> filter key o = [] -> good st st' o.
Proof. intros (Hc & Hs & _ & Hok) Ho H. split; auto. apply sum_quiet; auto. Qed.

Lemma summary_pre st st1 st' o : cores st1 = cores st -> serial st1 = serial st -> summary st1 st' o -> summary st st' o.
Proof.
  intros Hc Hs H. destruct H; rewrite ?Hc, ?Hs in *.
  - apply sum_quiet; auto.
  - eapply sum_call; eauto.
  - apply sum_plain; auto.
  - eapply sum_complete; eauto.
  - eapply sum_finish; eauto.
  - eapply sum_cancel; eauto.
Qed.

Lemma summary_post st st1 st' o : summary st st1 o -> cores st' = cores st1 -> serial st' = serial st1 -> summary st st' o.
Proof.
  intros H Hc Hs. destruct H; rewrite <- ?Hc, <- ?Hs in *.
  - apply sum_quiet; congruence.
  - eapply sum_call; eauto; congruence.
  - apply sum_plain; congruence.
  - eapply sum_complete; eauto; congruence.
  - eapply sum_finish; eauto; congruence.
  - eapply sum_cancel; eauto; congruence.
Qed.

Lemma good_pre st st1 st' o : quiet st st1 -> good st1 st' o -> good st st' o.
Proof.
  intros (Hc & Hs & _ & Hok) G H. destruct (G (Hok H)) as [H1 H2]. split; auto. eapply summary_pre; eauto.
Qed.

Lemma good_post st st1 st' o : good st st1 o -> quiet st1 st' -> good st st' o.
Proof.
  intros G (Hc & Hs & _ & Hok) H. destruct (G H) as [H1 H2]. split; auto. eapply summary_post; eauto.
Qed.

Lemma good_start_complete st i m st' o : start_complete st i m = (st', o) -> good st st' o.
Proof.
  intros H Hok. apply start_complete_result in H. destruct H as [-> -> Hn | n -> Hn0 -> | c x link Hn Hc Hr Hs -> ->].
  - split; auto. apply sum_quiet; auto.
  - split; [exact Hok|]. apply sum_quiet; auto.
  - split; [apply ok_done; exact Hok|].
    assert (Hk : nth_error (cores st) i = Some (core_of c)) by (unfold cores; rewrite nth_error_map, Hn; reflexivity).
    eapply sum_complete with (k := core_of c) (x := x); eauto.
    + simpl. pose proof (Forall_nth_error _ _ _ _ Hok Hn) as (_ & Hi & _). destruct (c_inflight c); auto. rewrite Hi in Hc; auto.
    + unfold cores at 1; simpl. apply cores_done. exact Hn.
Qed.

Lemma good_complete_status st i m :
  forall st' o, (let '(st1, o1) := start_complete st i m in (if fault st1 =? 0 then u_status st1 else st1, o1)) = (st', o) -> good st st' o.
Proof.
  intros st' o. destruct (start_complete st i m) as [st1 o1] eqn:E. intros H; inversion H; subst.
  apply good_start_complete in E. destruct (fault st1 =? 0); [|exact E].
  eapply good_post; [exact E|apply quiet_u_status].
Qed.

Lemma good_blk_check st i st' o : blk_check st i = Some (st', o) -> good st st' o.
Proof.
  unfold blk_check. destruct (nth_error (calls st) i) as [c|]; [|discriminate].
  destruct (find_reply (queue st) (c_serial c)) as [[m q']|]; [|discriminate].
  intros H. eapply good_pre; [apply (quiet_set_queue st q')|].
  apply (good_complete_status (set_queue st q') i (Some m)).
  destruct (start_complete (set_queue st q') i (Some m)) as [s l]. inversion H; subst. reflexivity.
Qed.

Lemma good_timeout_complete st i st' o : timeout_complete st i = (st', o) -> good st st' o.
Proof. unfold timeout_complete. apply good_complete_status. Qed.

Lemma good_blk_recheck_inl st i t st' o : blk_recheck st i t = inl (st', o) -> good st st' o.
Proof.
  unfold blk_recheck. intros H. eapply good_pre; [apply quiet_u_status|].
  destruct (nth_error (calls (u_status st)) i) as [c|]; [|inversion H; subst; apply good_quiet; [apply quiet_refl|reflexivity]].
  destruct (c_completed c); [inversion H; subst; apply good_quiet; [apply quiet_refl|reflexivity]|].
  destruct (blk_check (u_status st) i) as [r|] eqn:E.
  { inversion H; subst. apply good_blk_check in E. exact E. }
  destruct (negb (connected (u_status st))).
  { inversion H as [H1]. apply good_start_complete in H1. exact H1. }
  destruct (negb (disc_link (u_status st))).
  { inversion H as [H1]. apply good_timeout_complete in H1. exact H1. }
  destruct (negb (c_finite c)); [discriminate|].
  destruct (negb t); [discriminate|].
  inversion H as [H1]. apply good_timeout_complete in H1. exact H1.
Qed.

Lemma quiet_blk_recheck_inr st i t st' : blk_recheck st i t = inr st' -> quiet st st'.
Proof.
  unfold blk_recheck. intros H.
  destruct (nth_error (calls (u_status st)) i) as [c|]; [|discriminate].
  destruct (c_completed c); [discriminate|].
  destruct (blk_check (u_status st) i); [discriminate|].
  destruct (negb (connected (u_status st))); [discriminate|].
  destruct (negb (disc_link (u_status st))); [discriminate|].
  destruct (negb (c_finite c)); [inversion H; subst; apply quiet_u_status|].
  destruct (negb t); [inversion H; subst; apply quiet_u_status|discriminate].
Qed.

Lemma quiet_blk_iter st f st' t : blk_iter st f = Some (st', t) -> quiet st st'.
Proof.
  unfold blk_iter. destruct (negb (connected st)); [intros H; inversion H; apply quiet_refl|].
  destruct (wire st); [|intros H; inversion H; apply quiet_u_read].
  destruct (peer_closed st); [intros H; inversion H; apply quiet_u_read|].
  destruct f; [intros H; inversion H; apply quiet_refl|discriminate].
Qed.

Lemma good_ev_block st i st' o : ev_block st i = (st', o) -> good st st' o.
Proof.
  unfold ev_block.
  destruct (nth_error (calls st) i) as [c|]; [|intros H; inversion H; subst; apply good_quiet; [apply quiet_refl|reflexivity]].
  destruct (c_completed c); [intros H; inversion H; subst; apply good_quiet; [apply quiet_refl|reflexivity]|].
  intros H. eapply good_pre; [apply quiet_u_flush|].
  destruct (blk_check (u_flush st) i) as [r|] eqn:E1.
  { subst r. apply good_blk_check in E1. exact E1. }
  destruct (blk_iter (u_flush st) (c_finite c)) as [[st1 t1]|] eqn:E2.
  2:{ inversion H; subst. apply good_quiet; [apply quiet_refl|reflexivity]. }
  eapply good_pre; [eapply quiet_blk_iter; exact E2|].
  destruct (blk_recheck st1 i t1) as [r|st2] eqn:E3.
  { subst r. apply good_blk_recheck_inl in E3. exact E3. }
  eapply good_pre; [eapply quiet_blk_recheck_inr; exact E3|].
  destruct (blk_iter st2 (c_finite c)) as [[st3 t2]|] eqn:E4.
  2:{ inversion H; subst. apply good_quiet; [apply quiet_refl|reflexivity]. }
  eapply good_pre; [eapply quiet_blk_iter; exact E4|].
  destruct (blk_recheck st3 i (t1 || t2)) as [r|st4] eqn:E5.
  { subst r. apply good_blk_recheck_inl in E5. exact E5. }
  inversion H; subst. apply good_quiet; [eapply quiet_blk_recheck_inr; exact E5|reflexivity].
Qed.

Lemma filter_key_app a b : filter key (a ++ b) = filter key a ++ filter key b.
Proof. apply filter_app. Qed.

Lemma summary_obs_app st st' o o2 : summary st st' o -> filter key o2 = [] -> summary st st' (o ++ o2).
Proof.
  intros H H2.
  destruct H as [Hc Hs Hk | nf Hk Hs Hc | Hk Hs Hc | i k x Hn Hcm Hif Hrs Hk Hs Hc | i k Hn Hif Hk Hs Hc | i Hk Hs Hc].
  - apply sum_quiet; auto. rewrite filter_key_app, Hk, H2; reflexivity.
  - eapply sum_call; eauto. rewrite filter_key_app, Hk, H2; reflexivity.
  - apply sum_plain; auto. rewrite filter_key_app, Hk, H2; reflexivity.
  - eapply sum_complete; eauto. rewrite filter_key_app, Hk, H2; reflexivity.
  - eapply sum_finish; eauto. rewrite filter_key_app, Hk, H2. apply app_nil_r.
  - eapply sum_cancel; eauto. rewrite filter_key_app, Hk, H2; reflexivity.
Qed.

Lemma good_ev_dispatch st st' o : ev_dispatch st = (st', o) -> good st st' o.
Proof.
  unfold ev_dispatch. intros H. eapply good_pre; [apply quiet_u_status|].
  destruct (queue (u_status st)) as [|m q] eqn:Eq.
  { inversion H; subst. apply good_quiet; [apply quiet_refl|reflexivity]. }
  eapply good_pre; [apply (quiet_set_queue (u_status st) q)|].
  set (st2 := set_queue (u_status st) q) in *.
  destruct (lookup (calls st2) (m_rs m)) as [i|].
  - destruct (start_complete st2 i (Some m)) as [st3 o3] eqn:E. apply good_start_complete in E.
    destruct (fault st3 =? 0).
    + inversion H; subst. intros Hok. destruct (E Hok) as [H1 H2]. split.
      * apply quiet_u_status; exact H1.
      * apply summary_obs_app; [|reflexivity]. eapply summary_post; [exact H2| |]; apply quiet_u_status.
    + inversion H; subst. exact E.
  - destruct (fault st2 =? 0).
    + inversion H; subst. apply good_quiet; [apply quiet_u_status|reflexivity].
    + inversion H; subst. apply good_quiet; [apply quiet_refl|reflexivity].
Qed.

Lemma good_finish st i st' o : finish st i = (st', o) -> good st st' o.
Proof.
  unfold finish. destruct (nth_error (calls st) i) as [c|] eqn:Hn.
  2:{ intros H; inversion H; subst. apply good_quiet; [apply quiet_refl|reflexivity]. }
  destruct (c_inflight c) eqn:Hi.
  2:{ intros H; inversion H; subst. apply good_quiet; [apply quiet_refl|reflexivity]. }
  intros H Hok; inversion H; subst. split.
  - unfold calls_ok; simpl. apply Forall_upd; [exact Hok|]. intros; apply ok_set_finished; auto.
  - assert (Hk : nth_error (cores st) i = Some (core_of c)) by (unfold cores; rewrite nth_error_map, Hn; reflexivity).
    eapply sum_finish with (k := core_of c); eauto.
    + simpl. destruct (c_hasnotify c); reflexivity.
    + unfold cores; simpl. apply map_upd. intros x. unfold core_of, k_finish; simpl. reflexivity.
Qed.

Lemma good_ev_cancel st i st' o : ev_cancel st i = (st', o) -> good st st' o.
Proof.
  unfold ev_cancel. destruct (nth_error (calls st) i) as [c|] eqn:Hn.
  2:{ intros H; inversion H; subst. apply good_quiet; [apply quiet_refl|reflexivity]. }
  intros H Hok; inversion H; subst. split.
  - unfold calls_ok; simpl. apply Forall_upd; [apply ok_detach; exact Hok|].
    intros x Hx Hxok. apply ok_cancelled; auto.
    rewrite detach_serial_map, nth_error_map, Hn in Hx. simpl in Hx. inversion Hx; subst.
    unfold detach_fn. rewrite N.eqb_refl, andb_true_r. destruct (c_intable c) eqn:E; simpl; auto.
  - eapply sum_cancel; eauto. unfold cores; simpl.
    rewrite <- (cores_detach (calls st) (c_serial c)). apply map_upd. reflexivity.
Qed.

Lemma good_ev_fire st i st' o : ev_fire st i = (st', o) -> good st st' o.
Proof.
  unfold ev_fire. destruct (nth_error (calls st) i) as [c|] eqn:Hn.
  2:{ intros H; inversion H; subst. apply good_quiet; [apply quiet_refl|reflexivity]. }
  destruct (c_tadded c).
  2:{ intros H; inversion H; subst. apply good_quiet; [apply quiet_refl|reflexivity]. }
  intros H; inversion H; subst. apply good_quiet; [|reflexivity].
  eapply quiet_trans; [|apply quiet_u_status].
  unfold quiet, cores, calls_ok; simpl. repeat split; auto.
  - apply map_upd_same. reflexivity.
  - intros Hok. apply Forall_upd; auto. intros. apply ok_fire; auto.
Qed.

Lemma good_ev_steal st i st' o : ev_steal st i = (st', o) -> good st st' o.
Proof.
  unfold ev_steal. destruct (nth_error (calls st) i) as [c|] eqn:Hn.
  2:{ intros H; inversion H; subst. apply good_quiet; [apply quiet_refl|reflexivity]. }
  destruct (c_completed c).
  2:{ intros H; inversion H; subst. apply good_quiet; [apply quiet_refl|reflexivity]. }
  intros H; inversion H; subst. apply good_quiet; [|reflexivity].
  unfold quiet, cores, calls_ok; simpl. repeat split; auto.
  - apply map_upd_same. reflexivity.
  - intros Hok. apply Forall_upd; auto. intros. apply ok_set_reply_none; auto.
Qed.

Lemma quiet_ev_peer st k rs tag : quiet st (ev_peer st k rs tag).
Proof.
  unfold ev_peer. destruct (peer_closed st || negb (connected st)); [apply quiet_refl|].
  destruct k; try destruct (rs =? 0); unfold quiet, cores, calls_ok; simpl; auto.
Qed.

Lemma good_ev_send st f nf st' o : ev_send st f nf = (st', o) -> good st st' o.
Proof.
  unfold ev_send. destruct (negb (connected st)).
  { intros H; inversion H; subst. apply good_quiet; [apply quiet_refl|reflexivity]. }
  unfold next_serial. intros H; inversion H; subst. clear H.
  set (c' := if (serial st + 1) mod two32 =? 0 then 1 else (serial st + 1) mod two32).
  set (newc := mkCall (serial st) f nf false None true f true false false 0).
  set (st1 := set_outgoing (set_calls (set_serial st c') (detach_serial (calls st) (serial st) ++ [newc])) (outgoing st || peer_closed st)).
  eapply good_post with (st1 := st1); [|apply quiet_u_status].
  intros Hok. split.
  - unfold calls_ok, st1; simpl. apply Forall_app. split; [apply ok_detach; exact Hok|].
    constructor; [|constructor]. unfold call_ok, newc; simpl. intuition congruence.
  - eapply sum_call with (nf := nf); [reflexivity|reflexivity|].
    unfold cores, st1; simpl. rewrite map_app, cores_detach. reflexivity.
Qed.

Lemma good_ev_plain st st' o : ev_plain st = (st', o) -> good st st' o.
Proof.
  unfold ev_plain, next_serial. intros H; inversion H; subst. clear H.
  eapply good_post; [|apply quiet_u_status].
  intros Hok. split; [exact Hok|]. apply sum_plain; reflexivity.
Qed.

Theorem step_good st e st' o : step st e = (st', o) -> good st st' o.
Proof.
  unfold step. destruct (negb (fault st =? 0)).
  { intros H; inversion H; subst. apply good_quiet; [apply quiet_refl|reflexivity]. }
  destruct e.
  - apply good_ev_send.
  - apply good_ev_plain.
  - intros H; inversion H; subst. apply good_quiet; [apply quiet_ev_peer|reflexivity].
  - destruct (nth_error (calls st) i); intros H; inversion H; subst; (apply good_quiet; [|reflexivity]); [apply quiet_ev_peer|apply quiet_refl].
  - intros H; inversion H; subst. apply good_quiet; [|reflexivity]. unfold quiet, cores, calls_ok; simpl; auto.
  - intros H; inversion H; subst. apply good_quiet; [|reflexivity]. unfold ev_read.
    destruct (connected (u_status st)); [eapply quiet_trans; [apply quiet_u_status|apply quiet_u_read]|apply quiet_u_status].
  - unfold ev_watch. destruct (connected st); intros H; inversion H; subst; (apply good_quiet; [|reflexivity]);
      [eapply quiet_trans; [apply quiet_u_read|apply quiet_u_status]|apply quiet_refl].
  - apply good_ev_fire.
  - apply good_ev_cancel.
  - apply good_ev_block.
  - apply good_ev_dispatch.
  - apply good_ev_steal.
  - intros H; inversion H; subst. apply good_quiet; [|reflexivity]. unfold ev_local_close.
    destruct (connected st); [|apply quiet_refl]. eapply quiet_trans; [|apply quiet_u_status].
    unfold quiet, cores, calls_ok; simpl; auto.
  - apply good_finish.
  - intros H; inversion H; subst. apply good_quiet; [apply quiet_u_status|reflexivity].
  - intros H; inversion H; subst. apply good_quiet; [apply quiet_u_read|reflexivity].
  - destruct (nth_error (calls st) i) as [c|]; [|intros H; inversion H; subst; apply good_quiet; [apply quiet_refl|reflexivity]].
    destruct (c_completed c); [intros H; inversion H; subst; apply good_quiet; [apply quiet_refl|reflexivity]|].
    destruct (blk_check st i) as [r|] eqn:E; [|intros H; inversion H; subst; apply good_quiet; [apply quiet_refl|reflexivity]].
    intros H; subst r. apply good_blk_check in E. exact E.
  - destruct (blk_recheck st i timedout) as [r|s2] eqn:E.
    + intros H; subst r. apply good_blk_recheck_inl in E. exact E.
    + intros H; inversion H; subst. apply good_quiet; [eapply quiet_blk_recheck_inr; exact E|reflexivity].
Qed.
