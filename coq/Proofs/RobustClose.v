(* C10 — the teardown of a connection in the bus core of the extracted instance
   (Robust/Mini.v, after bus_connection_disconnected): whatever was outstanding,

     cleanup : afterwards NO table of the bus mentions the connection — match rules, owner
               queues of names, services_owned records, unique names, monitors, the completed
               list (hence n_completed and the per-uid count), pending replies on either side
               (a call the connection made to itself included);
     frame   : every OTHER connection's rules, unique name, queue positions, list memberships
               and pending replies not involving the departed one are unchanged;
     outputs : the only things said are NameOwnerChanged for names the departed one was
               primary owner of, its own unique name's departure, and NoReply errors to
               DIFFERENT connections that really had a call outstanding to it. *)
From DV Require Import Lib.Base Gen.Tables Wire.Message Auth.Types Auth.Server Robust.Bus Robust.Mini Proofs.RobustBase.
From Coq Require Import ZArith ZifyBool ZifyN ZifyNat Arith.
Local Open Scope N_scope.

(* ---- pending replies ----------------------------------------------------------- *)
Lemma drop_pending_kept l c p : In p (fst (drop_pending l c)) <-> In p l /\ fst (fst p) <> c /\ snd (fst p) <> c.
Proof.
  unfold drop_pending. cbn [fst]. rewrite filter_In. destruct p as [[a b] s]. cbn [fst snd].
  rewrite andb_true_iff, !negb_true_iff, !N.eqb_neq. tauto.
Qed.

Lemma drop_pending_errs l c x : In x (snd (drop_pending l c)) ->
  exists a s, x = (MON, NoReply a s) /\ a <> c /\ In (a, c, s) l.
Proof.
  unfold drop_pending. cbn [snd]. intros H. apply in_flat_map in H. destruct H as ([[a b] s] & Hin & Hx).
  destruct (negb (a =? c) && (b =? c)) eqn:E; [|destruct Hx]. destruct Hx as [<-|[]].
  apply andb_true_iff in E. destruct E as [E1 E2]. apply negb_true_iff in E1. apply N.eqb_neq in E1. apply N.eqb_eq in E2. subst b.
  exists a, s. repeat split; assumption.
Qed.

(* ---- owner queues (first-match view, as every lookup of the model uses it) ------- *)
Lemma bytes_eqb_sym a b : bytes_eqb a b = bytes_eqb b a.
Proof.
  destruct (bytes_eqb a b) eqn:E1, (bytes_eqb b a) eqn:E2; try reflexivity.
  - apply bytes_eqb_eq in E1. subst. rewrite bytes_eqb_refl in E2. discriminate.
  - apply bytes_eqb_eq in E2. subst. rewrite bytes_eqb_refl in E1. discriminate.
Qed.

Lemma bytes_eqb_trans_l a b n : bytes_eqb a b = true -> bytes_eqb n a = bytes_eqb n b.
Proof. intros H. apply bytes_eqb_eq in H. subst. reflexivity. Qed.

Lemma queue_release_one : forall names c nm n,
  queue_of (fst (release_one names c nm)) n =
  if bytes_eqb n nm then filter (not_c c) (queue_of names n) else queue_of names n.
Proof.
  induction names as [|[n0 q] t IH]; intros c nm n; cbn [release_one].
  - cbn. destruct (bytes_eqb n nm); reflexivity.
  - destruct (bytes_eqb nm n0) eqn:E.
    + cbn [fst]. unfold queue_of. cbn [find fst]. rewrite (bytes_eqb_trans_l nm n0 n E). destruct (bytes_eqb n n0); reflexivity.
    + specialize (IH c nm n). destruct (release_one t c nm) as [t' o]. cbn [fst] in *. unfold queue_of in *. cbn [find fst].
      destruct (bytes_eqb n n0) eqn:E2; [|exact IH].
      destruct (bytes_eqb n nm) eqn:E3; [|reflexivity].
      apply bytes_eqb_eq in E2, E3. subst. rewrite bytes_eqb_refl in E. discriminate.
Qed.

Lemma filter_idem {X} (f : X -> bool) l : filter f (filter f l) = filter f l.
Proof. induction l as [|x l IH]; [reflexivity|]. cbn [filter]. destruct (f x) eqn:E; [cbn [filter]; rewrite E, IH; reflexivity|exact IH]. Qed.

Lemma queue_release_names : forall L names c n,
  queue_of (fst (release_names names c L)) n =
  if existsb (bytes_eqb n) L then filter (not_c c) (queue_of names n) else queue_of names n.
Proof.
  induction L as [|nm r IH]; intros names c n; cbn [release_names existsb]; [reflexivity|].
  pose proof (queue_release_one names c nm n) as H1. destruct (release_one names c nm) as [names1 o1]. cbn [fst] in H1.
  specialize (IH names1 c n). destruct (release_names names1 c r) as [names2 o2]. cbn [fst] in *.
  rewrite IH, H1. destruct (bytes_eqb n nm), (existsb (bytes_eqb n) r); cbn [orb]; try reflexivity. apply filter_idem.
Qed.

(* what releasing says: only NameOwnerChanged of names the connection headed *)
Lemma release_one_outputs : forall names c nm x, In x (snd (release_one names c nm)) -> exists n new, x = (MON, Noc n c new).
Proof.
  induction names as [|[n0 q] t IH]; intros c nm x; cbn [release_one]; [intros []|].
  destruct (bytes_eqb nm n0).
  - cbn [snd]. destruct q as [|h q']; [intros []|]. destruct (h =? c) eqn:E; [|intros []]. intros [<-|[]]. do 2 eexists. reflexivity.
  - specialize (IH c nm x). destruct (release_one t c nm). exact IH.
Qed.

Lemma release_names_outputs : forall L names c x, In x (snd (release_names names c L)) -> exists n new, x = (MON, Noc n c new).
Proof.
  induction L as [|nm r IH]; intros names c x; cbn [release_names]; [intros []|].
  pose proof (release_one_outputs names c nm x) as H1. destruct (release_one names c nm) as [names1 o1].
  specialize (IH names1 c x). destruct (release_names names1 c r) as [names2 o2]. cbn [snd] in *.
  intros H. apply in_app_iff in H. destruct H; auto.
Qed.

(* ---- the invariant that ties services_owned to the queues -------------------------- *)
(* every queue entry has its record in services_owned (bus_connection_add_owned_service is called
   by bus_service_add_owner for every entry, primary or waiting) *)
Definition owned_covers (k : mstate) : Prop :=
  forall n x, In x (queue_of (m_names k) n) -> exists n', bytes_eqb n n' = true /\ In (x, n') (m_acq k).

Lemma in_owned k c n' : In (c, n') (m_acq k) -> In n' (owned k c).
Proof. intros H. unfold owned. apply in_map_iff. exists (c, n'). split; [reflexivity|]. apply filter_In. split; [exact H|]. cbn. apply N.eqb_refl. Qed.

Lemma existsb_eqb_in n n' L : bytes_eqb n n' = true -> In n' L -> existsb (bytes_eqb n) L = true.
Proof. intros E H. apply existsb_exists. exists n'. split; assumption. Qed.

Lemma not_c_filter c (q : list N) : ~ In c (filter (not_c c) q).
Proof. intros H. apply filter_In in H. destruct H as [_ H]. unfold not_c in H. rewrite N.eqb_refl in H. discriminate. Qed.

(* after td_names with the full list of owned names (in any order), c sits in no queue *)
Lemma td_names_no_queue k c L reg :
  owned_covers k -> (forall n', In n' (owned k c) -> In n' L) ->
  forall n, ~ In c (queue_of (m_names (fst (td_names k c L reg))) n).
Proof.
  intros Hcov HL n. unfold td_names.
  pose proof (queue_release_names L (m_names k) c n) as Hq.
  destruct (release_names (m_names k) c L) as [names o]. cbn [fst set_uniq set_names m_names] in *.
  rewrite Hq. destruct (existsb (bytes_eqb n) L) eqn:E; [apply not_c_filter|].
  intros Hin. destruct (Hcov n c Hin) as (n' & En & Hacq).
  rewrite (existsb_eqb_in n n' L En (HL n' (in_owned k c n' Hacq))) in E. discriminate.
Qed.

Lemma td_names_covers k c L reg :
  owned_covers k -> (forall n', In n' (owned k c) -> In n' L) -> owned_covers (fst (td_names k c L reg)).
Proof.
  intros Hcov HL n x Hin.
  assert (Hx : x <> c). { intros ->. exact (td_names_no_queue k c L reg Hcov HL n Hin). }
  unfold td_names in *. pose proof (queue_release_names L (m_names k) c n) as Hq.
  destruct (release_names (m_names k) c L) as [names o]. cbn [fst set_uniq set_names m_names m_acq] in *.
  rewrite Hq in Hin.
  assert (Hin0 : In x (queue_of (m_names k) n)). { destruct (existsb _ L); [apply filter_In in Hin; tauto|exact Hin]. }
  destruct (Hcov n x Hin0) as (n' & En & Hacq). exists n'. split; [exact En|].
  apply filter_In. split; [exact Hacq|]. cbn. unfold not_c. apply negb_true_iff. apply N.eqb_neq. exact Hx.
Qed.

(* ---- the whole teardown -------------------------------------------------------------- *)
Section Close.
  Variable k : mstate.
  Variable c : N.
  Variable active : bool.
  Let k' := fst (mini_disconnect k c active).

  Lemma disconnect_unfold :
    exists names o2 pend o5,
      release_names (m_names k) c (rev (owned k c)) = (names, o2) /\ drop_pending (m_pend k) c = (pend, o5) /\
      mini_disconnect k c active =
      (mkM (m_next k) (filter (fun p => not_c c (fst p)) (m_uniq k)) names (filter (fun p => not_c c (fst p)) (m_acq k))
           (filter (fun p => not_c c (fst p)) (m_rules k)) pend (filter (not_c c) (m_mons k)) (filter (not_c c) (m_completed k))
           (m_maxuser k) (m_maxrules k) (m_baseusers k) (m_clock k) (m_acts k),
       (o2 ++ (if mem c (map fst (m_uniq k)) then [(MON, Bye c)] else [])) ++ o5).
  Proof.
    unfold mini_disconnect, td_names, td_pending, td_lists, td_monitor, td_rules, set_rules, set_names, set_uniq, set_mons, set_completed, set_pend, owned.
    cbn [m_names m_acq m_uniq m_next m_rules m_pend m_mons m_completed m_maxuser m_maxrules m_baseusers m_clock m_acts].
    destruct (release_names (m_names k) c (rev (map snd (filter (fun p => fst p =? c) (m_acq k))))) as [names o2] eqn:E1.
    cbn [m_names m_acq m_uniq m_next m_rules m_pend m_mons m_completed m_maxuser m_maxrules m_baseusers m_clock m_acts].
    destruct (drop_pending (m_pend k) c) as [pend o5] eqn:E2.
    exists names, o2, pend, o5. repeat split.
  Qed.

  (* C10 cleanup: no table mentions c any more *)
  Theorem disconnect_cleans_up :
    (forall p, In p (m_pend k') -> fst (fst p) <> c /\ snd (fst p) <> c) /\
    ~ In c (m_mons k') /\
    ~ In c (m_completed k') /\
    (forall p, In p (m_uniq k') -> fst p <> c) /\
    (forall p, In p (m_acq k') -> fst p <> c) /\
    (forall p, In p (m_rules k') -> fst p <> c) /\
    (owned_covers k -> forall n, ~ In c (queue_of (m_names k') n)).
  Proof.
    destruct disconnect_unfold as (names & o2 & pend & o5 & E1 & E2 & E). unfold k'. rewrite E. cbn [fst m_pend m_mons m_completed m_uniq m_acq m_rules m_names].
    assert (Hf : forall (X : Type) (f : X -> N) (l : list X) p, In p (filter (fun p => not_c c (f p)) l) -> f p <> c).
    { intros X f l p H. apply filter_In in H. destruct H as [_ H]. unfold not_c in H. apply negb_true_iff in H. apply N.eqb_neq in H. exact H. }
    repeat split.
    - pose proof (drop_pending_kept (m_pend k) c p) as H1. rewrite E2 in H1. cbn [fst] in H1. apply H1 in H. tauto.
    - pose proof (drop_pending_kept (m_pend k) c p) as H1. rewrite E2 in H1. cbn [fst] in H1. apply H1 in H. tauto.
    - apply not_c_filter.
    - apply not_c_filter.
    - intros p. apply (Hf _ fst).
    - intros p. apply (Hf _ fst).
    - intros p. apply (Hf _ fst).
    - intros Hcov n.
      pose proof (td_names_no_queue k c (rev (owned k c)) false Hcov (fun n' H => proj1 (in_rev _ _) H) n) as H.
      unfold td_names in H. rewrite E1 in H. cbn [fst set_uniq set_names m_names] in H. exact H.
  Qed.

  (* the accounting that bus_connections_check_limits reads: n_completed / the per-uid count *)
  Theorem disconnect_releases_slot : In c (m_completed k) -> NoDup (m_completed k) -> n_users k' + 1 = n_users k.
  Proof.
    intros Hin Hnd. destruct disconnect_unfold as (names & o2 & pend & o5 & _ & _ & E). unfold k'. rewrite E. cbn [fst]. unfold n_users. cbn [m_baseusers m_completed].
    assert (H : (length (filter (not_c c) (m_completed k)) + 1 = length (m_completed k))%nat).
    { revert Hin Hnd. generalize (m_completed k). induction l as [|x l IH]; [intros []|]. intros Hin Hnd. inversion Hnd as [|? ? Hx Hnd']. subst.
      cbn [filter]. unfold not_c at 1. destruct (x =? c) eqn:E0; cbn [negb length].
      - apply N.eqb_eq in E0. subst x. assert (F : filter (not_c c) l = l).
        { clear -Hx. induction l as [|y l IH]; [reflexivity|]. cbn [filter]. unfold not_c at 1. destruct (y =? c) eqn:E; [apply N.eqb_eq in E; subst; exfalso; apply Hx; left; reflexivity|].
          cbn [negb]. rewrite IH; [reflexivity|]. intros H. apply Hx. right. exact H. }
        rewrite F. lia.
      - destruct Hin as [->|Hin]; [rewrite N.eqb_refl in E0; discriminate|]. specialize (IH Hin Hnd'). lia. }
    unfold nlen. lia.
  Qed.

  (* C10 frame: everybody else keeps what they had *)
  Theorem disconnect_frame :
    (forall p, fst p <> c -> (In p (m_uniq k') <-> In p (m_uniq k))) /\
    (forall p, fst p <> c -> (In p (m_rules k') <-> In p (m_rules k))) /\
    (forall p, fst p <> c -> (In p (m_acq k') <-> In p (m_acq k))) /\
    (forall d, d <> c -> (In d (m_mons k') <-> In d (m_mons k)) /\ (In d (m_completed k') <-> In d (m_completed k))) /\
    (forall p, fst (fst p) <> c -> snd (fst p) <> c -> (In p (m_pend k') <-> In p (m_pend k))) /\
    (forall n, filter (not_c c) (queue_of (m_names k') n) = filter (not_c c) (queue_of (m_names k) n)) /\
    m_next k' = m_next k /\ m_maxuser k' = m_maxuser k /\ m_maxrules k' = m_maxrules k /\ m_baseusers k' = m_baseusers k.
  Proof.
    destruct disconnect_unfold as (names & o2 & pend & o5 & E1 & E2 & E). unfold k'. rewrite E. cbn [fst m_pend m_mons m_completed m_uniq m_acq m_rules m_names m_next m_maxuser m_maxrules m_baseusers].
    assert (Hf : forall (X : Type) (f : X -> N) (l : list X) p, f p <> c -> (In p (filter (fun p => not_c c (f p)) l) <-> In p l)).
    { intros X f l p Hp. rewrite filter_In. unfold not_c. rewrite negb_true_iff, N.eqb_neq. tauto. }
    repeat split; try (apply (Hf _ fst); assumption); try (apply (Hf _ (fun x => x)); assumption).
    - intros Hin. pose proof (drop_pending_kept (m_pend k) c p) as H1. rewrite E2 in H1. apply H1 in Hin. tauto.
    - intros Hin. pose proof (drop_pending_kept (m_pend k) c p) as H1. rewrite E2 in H1. apply H1. tauto.
    - intros n. pose proof (queue_release_names (rev (owned k c)) (m_names k) c n) as Hq.
      rewrite E1 in Hq. cbn [fst] in Hq. rewrite Hq.
      destruct (existsb _ _); [apply filter_idem|reflexivity].
  Qed.

  (* C10 outputs: nothing but the prescribed signals and errors *)
  Theorem disconnect_outputs_prescribed : forall x, In x (snd (mini_disconnect k c active)) ->
    (exists n new, x = (MON, Noc n c new)) \/ x = (MON, Bye c) \/
    (exists a s, x = (MON, NoReply a s) /\ a <> c /\ In (a, c, s) (m_pend k)).
  Proof.
    intros x. destruct disconnect_unfold as (names & o2 & pend & o5 & E1 & E2 & E). rewrite E. cbn [snd].
    intros H. apply in_app_iff in H. destruct H as [H|H].
    - apply in_app_iff in H. destruct H as [H|H].
      + left. pose proof (release_names_outputs (rev (owned k c)) (m_names k) c x) as R. rewrite E1 in R. apply R. exact H.
      + right. left. destruct (mem c _); [destruct H as [<-|[]]; reflexivity|destruct H].
    - right. right. pose proof (drop_pending_errs (m_pend k) c x) as R. rewrite E2 in R. apply R. exact H.
  Qed.

  Theorem no_error_to_departed : forall to s,
    In (MON, NoReply to s) (snd (mini_disconnect k c active)) -> to <> c /\ In (to, c, s) (m_pend k).
  Proof.
    intros to s H. destruct (disconnect_outputs_prescribed _ H) as [(n & new & E)|[E|(a & s' & E & Hne & Hin)]]; try discriminate.
    inversion E. subst. split; assumption.
  Qed.

  Corollary self_call_forgotten : forall s, ~ In (MON, NoReply c s) (snd (mini_disconnect k c active)).
  Proof. intros s H. apply no_error_to_departed in H. destruct H as [H _]. apply H. reflexivity. Qed.
End Close.

(* ---- the invariant holds in every reachable state of the bus ------------------------- *)
Lemma queue_cons n n0 q t : queue_of ((n0, q) :: t) n = if bytes_eqb n n0 then q else queue_of t n.
Proof. unfold queue_of. cbn. destruct (bytes_eqb n n0); reflexivity. Qed.

Lemma queue_acquire : forall names nm c dnq n,
  let '(names', joined, _) := acquire names nm c dnq in
  forall x, In x (queue_of names' n) -> In x (queue_of names n) \/ (x = c /\ bytes_eqb n nm = true /\ joined = true).
Proof.
  induction names as [|[n0 q] t IH]; intros nm c dnq n; cbn [acquire].
  - intros x. rewrite queue_cons. destruct (bytes_eqb n nm) eqn:E; [|intros []]. intros [<-|[]]. right. auto.
  - destruct (bytes_eqb nm n0) eqn:E.
    + assert (En : bytes_eqb n nm = bytes_eqb n n0) by (apply bytes_eqb_trans_l; exact E).
      destruct q as [|h q'].
      * intros x. rewrite !queue_cons. rewrite En. destruct (bytes_eqb n n0); [|auto]. intros [<-|[]]. right. auto.
      * destruct (mem c (h :: q') || dnq); [intros x; auto|].
        intros x. rewrite !queue_cons. rewrite En. destruct (bytes_eqb n n0); [|auto]. intros H. apply in_app_iff in H. destruct H as [H|[<-|[]]]; [left; exact H|right; auto].
    + specialize (IH nm c dnq n). destruct (acquire t nm c dnq) as [[t' j] o]. intros x. rewrite !queue_cons. destruct (bytes_eqb n n0); [auto|apply IH].
Qed.

Lemma covers_ext k k1 : m_names k1 = m_names k -> m_acq k1 = m_acq k -> owned_covers k -> owned_covers k1.
Proof. intros E1 E2 H n x. unfold owned_covers in H. rewrite E1, E2. apply H. Qed.

Lemma dispatch_covers k c a m : owned_covers k -> owned_covers (fst (fst (mini_dispatch k c a m))).
Proof.
  intros Hcov. unfold mini_dispatch.
  match goal with |- context [if ?b then (k, [(MON, Self _ _)], VNone) else _] => destruct b; [exact Hcov|] end.
  destruct (mem c (m_mons k)); [exact Hcov|].
  destruct (str_field m DBUS_HEADER_FIELD_DESTINATION) as [d|]; [|destruct (msg_type m =? _); [exact Hcov|destruct (msg_type m =? _); exact Hcov]].
  destruct (bytes_eqb d DBUS_SERVICE_DBUS_str).
  - destruct a.
    + destruct (is_request_name m).
      * pose proof (queue_acquire (m_names k) (arg_string m) c (negb (N.land (rn_flags m) DBUS_NAME_FLAG_DO_NOT_QUEUE =? 0))) as Hq.
        destruct (acquire (m_names k) (arg_string m) c _) as [[names joined] owner].
        set (k1 := set_names k names (if joined then m_acq k ++ [(c, arg_string m)] else m_acq k)).
        assert (H1 : owned_covers k1).
        { intros n x Hin. cbn [k1 set_names m_names m_acq] in *. destruct (Hq n x Hin) as [H|(-> & En & ->)].
          - destruct (Hcov n x H) as (n' & E & Ha). exists n'. split; [exact E|]. destruct joined; [apply in_app_iff; left|]; exact Ha.
          - exists (arg_string m). split; [exact En|]. apply in_app_iff. right. left. reflexivity. }
        destruct owner; [|exact H1].
        destruct (find _ (m_acts k)) as [[[n0 f0] es]|]; [|exact H1].
        cbn [fst]. apply (covers_ext k1); [reflexivity|reflexivity|exact H1].
      * destruct (is_start_service m).
        { destruct (queue_of (m_names k) (arg_string m)); [|exact Hcov]. destruct (service_delay (arg_string m)); [|exact Hcov].
          cbn [fst]. apply (covers_ext k); [reflexivity|reflexivity|exact Hcov]. }
        destruct (is_add_match m); [destruct (m_maxrules k <=? n_rules k c); exact Hcov|].
        destruct (is_become_monitor m); [|exact Hcov].
        pose proof (td_names_covers k c (owned k c) false Hcov (fun n' H => H)) as H2.
        destruct (td_names k c (owned k c) false) as [k2 o2]. cbn [fst] in H2.
        unfold td_pending, td_rules. cbn [set_rules set_mons m_pend]. destruct (drop_pending _ c) as [pend errs]. cbn [fst]. exact H2.
    + destruct (is_hello m); [|exact Hcov]. destruct (negb _); [exact Hcov|]. destruct (m_maxuser k <=? n_users k); exact Hcov.
  - destruct a; [|exact Hcov]. destruct (resolve k d); [exact Hcov|].
    destruct (N.land (msg_flags m) DBUS_HEADER_FLAG_NO_AUTO_START =? 0); [|exact Hcov]. destruct (service_delay d); [|exact Hcov].
    cbn [fst]. apply (covers_ext k); [reflexivity|reflexivity|exact Hcov].
Qed.

Lemma tick_covers k d : owned_covers k -> owned_covers (fst (mini_tick k d)).
Proof. intros H. unfold mini_tick. cbn [fst]. apply (covers_ext k); [reflexivity|reflexivity|exact H]. Qed.

Lemma disconnect_covers k c a : owned_covers k -> owned_covers (fst (mini_disconnect k c a)).
Proof.
  intros Hcov. unfold mini_disconnect.
  assert (Hcov1 : owned_covers (td_rules k c)) by exact Hcov.
  pose proof (td_names_covers (td_rules k c) c (rev (owned (td_rules k c) c)) (mem c (map fst (m_uniq k))) Hcov1 (fun n' H => proj1 (in_rev _ _) H)) as H2.
  destruct (td_names (td_rules k c) c _ _) as [k2 o2]. cbn [fst] in H2.
  unfold td_pending, td_lists, td_monitor. cbn [set_completed set_mons m_pend]. destruct (drop_pending _ c) as [pend errs]. cbn [fst]. exact H2.
Qed.

(* in every state the bus model can reach, with any handshake, limits and schedule *)
Theorem reachable_covers uid cf base mu mr h :
  owned_covers (s_core (fst (run (mini_ops uid) cf (init (mini_core base mu mr)) h))).
Proof.
  apply (run_core (mini_ops uid) cf owned_covers).
  - intros k c a m. apply dispatch_covers.
  - intros k c a. apply disconnect_covers.
  - intros k d. apply tick_covers.
  - intros n x H. destruct H.
Qed.

(* ---- pending activations ------------------------------------------------------------ *)
(* What the C does (bus/activation.c): a requester's entry STAYS in the pending activation when the
   requester disconnects; try_send_activation_failure, bus_activation_service_created and
   bus_activation_send_pending_auto_activation_messages skip it because
   dbus_connection_get_is_connected (entry->connection) is false.  So the invariant is not "no entry
   mentions a departed connection" but: nothing is ever ADDRESSED to one. *)
Lemma fail_outputs_connected k es x : In x (fail_outputs k es) -> exists c s, x = (MON, ActFail c s) /\ In c (m_completed k).
Proof.
  unfold fail_outputs. intros H. apply in_flat_map in H. destruct H as ([[c s] kind] & _ & Hx).
  destruct (connected k c) eqn:E; [|destruct Hx]. destruct Hx as [<-|[]]. exists c, s. split; [reflexivity|].
  unfold connected, mem in E. apply existsb_exists in E. destruct E as (y & Hy & Ey). apply N.eqb_eq in Ey. subst y. exact Hy.
Qed.

Lemma ok_outputs_connected k es x : In x (ok_outputs k es) -> exists c s, x = (MON, ActOk c s) /\ In c (m_completed k).
Proof.
  unfold ok_outputs. intros H. apply in_flat_map in H. destruct H as ([[c s] kind] & _ & Hx).
  destruct (connected k c) eqn:E; cbn [andb] in Hx; [|destruct Hx]. destruct (kind =? 0); [|destruct Hx]. destruct Hx as [<-|[]]. exists c, s. split; [reflexivity|].
  unfold connected, mem in E. apply existsb_exists in E. destruct E as (y & Hy & Ey). apply N.eqb_eq in Ey. subst y. exact Hy.
Qed.

(* a failing activation answers only requesters that are still connected *)
Theorem activation_failure_only_to_connected k d c s :
  In (MON, ActFail c s) (snd (mini_tick k d)) -> In c (m_completed k).
Proof.
  unfold mini_tick. cbn [snd]. intros H. apply in_flat_map in H. destruct H as (a & _ & Hx).
  destruct (fail_outputs_connected k (snd a) _ Hx) as (c' & s' & E & Hin). inversion E. subst. exact Hin.
Qed.

(* hence: once a connection has been torn down, no activation outcome — failure now or later, however many
   timers fire — is addressed to it, although its entries are still in the pending activations *)
Theorem no_activation_error_to_departed k c active d s :
  ~ In (MON, ActFail c s) (snd (mini_tick (fst (mini_disconnect k c active)) d)).
Proof.
  intros H. apply activation_failure_only_to_connected in H.
  destruct (disconnect_cleans_up k c active) as (_ & _ & Hc & _). exact (Hc H).
Qed.

(* the same for success: StartServiceByName is answered only to connected requesters *)
Theorem activation_success_only_to_connected k c a m w s :
  In (MON, ActOk w s) (snd (fst (mini_dispatch k c a m))) -> In w (m_completed k).
Proof.
  unfold mini_dispatch.
  match goal with |- context [if ?b then (k, [(MON, Self _ _)], VNone) else _] => destruct b; [cbn [fst snd]; intros [H|[]]; discriminate|] end.
  destruct (mem c (m_mons k)); [intros []|].
  destruct (str_field m DBUS_HEADER_FIELD_DESTINATION) as [d|].
  2:{ destruct (msg_type m =? _); cbn [fst snd]; [intros [H|[]]; discriminate|]. destruct (msg_type m =? _); cbn [fst snd]; [intros [H|[]]; discriminate|intros []]. }
  destruct (bytes_eqb d DBUS_SERVICE_DBUS_str).
  - destruct a.
    + destruct (is_request_name m).
      * destruct (acquire (m_names k) (arg_string m) c _) as [[names joined] owner].
        destruct owner; [|cbn [fst snd]; intros [H|[]]; discriminate].
        destruct (find _ (m_acts k)) as [[[n0 f0] es]|]; cbn [fst snd].
        -- intros [H|[H|H]]; try discriminate. destruct (ok_outputs_connected k es _ H) as (c' & s' & E & Hin). inversion E. subst. exact Hin.
        -- intros [H|[H|[]]]; discriminate.
      * destruct (is_start_service m).
        { destruct (queue_of (m_names k) (arg_string m)); [destruct (service_delay (arg_string m))|]; cbn [fst snd]; intros [H|[]]; discriminate. }
        destruct (is_add_match m).
        { destruct (m_maxrules k <=? n_rules k c); cbn [fst snd]; [intros [H|[H|[]]]; discriminate|intros [H|[]]; discriminate]. }
        destruct (is_become_monitor m); [|cbn [fst snd]; intros [H|[]]; discriminate].
        unfold td_names. pose proof (release_names_outputs (owned k c) (m_names k) c (MON, ActOk w s)) as R.
        destruct (release_names (m_names k) c (owned k c)) as [names o]. cbn [snd] in R.
        unfold td_pending. pose proof (drop_pending_errs (m_pend (set_mons (td_rules (set_uniq (set_names k names (filter (fun p => not_c c (fst p)) (m_acq k))) (m_next k) (filter (fun p => not_c c (fst p)) (m_uniq k))) c) (c :: m_mons (td_rules (set_uniq (set_names k names (filter (fun p => not_c c (fst p)) (m_acq k))) (m_next k) (filter (fun p => not_c c (fst p)) (m_uniq k))) c)))) c (MON, ActOk w s)) as R2.
        destruct (drop_pending _ c) as [pend errs]. cbn [fst snd] in *.
        intros [H|[H|H]]; try discriminate. apply in_app_iff in H. destruct H as [H|H].
        -- rewrite app_nil_r in H. destruct (R H) as (n & new & E). discriminate.
        -- destruct (R2 H) as (a0 & s0 & E & _). discriminate.
    + destruct (is_hello m); [|cbn [fst snd]; intros [H|[]]; discriminate].
      destruct (negb _); [cbn [fst snd]; intros [H|[]]; discriminate|].
      destruct (m_maxuser k <=? n_users k); cbn [fst snd]; intros [H|[H|[]]]; discriminate.
  - destruct a; [|cbn [fst snd]; intros [H|[]]; discriminate].
    destruct (resolve k d); [cbn [fst snd]; intros [H|[]]; discriminate|].
    destruct (N.land (msg_flags m) DBUS_HEADER_FLAG_NO_AUTO_START =? 0); [|cbn [fst snd]; intros [H|[]]; discriminate].
    destruct (service_delay d); cbn [fst snd]; intros [H|[]]; discriminate.
Qed.
