(* C10 — what the bus core of the extracted instance (Robust/Mini.v) leaves behind when a
   connection goes away, whatever was outstanding at that moment: no pending-reply entry
   mentions the connection on either side (a call a connection made to itself included),
   it is in no monitor list and owns no unique name; and no NoReply error is ever addressed
   to the connection that has just been dropped. *)
From DV Require Import Lib.Base Gen.Tables Wire.Message Auth.Types Auth.Server Robust.Bus Robust.Mini.
Local Open Scope N_scope.

Lemma drop_pending_kept l c p : In p (fst (drop_pending l c)) -> fst (fst p) <> c /\ snd (fst p) <> c.
Proof.
  unfold drop_pending. cbn [fst]. intros H. apply filter_In in H. destruct H as [_ H]. destruct p as [[a b] s]. cbn [fst snd].
  apply andb_true_iff in H. destruct H as [H1 H2]. apply negb_true_iff in H1, H2. apply N.eqb_neq in H1, H2. split; assumption.
Qed.

Lemma drop_pending_errs l c x : In x (snd (drop_pending l c)) ->
  exists a s, x = (MON, NoReply a s) /\ a <> c /\ In (a, c, s) l.
Proof.
  unfold drop_pending. cbn [snd]. intros H. apply in_flat_map in H. destruct H as ([[a b] s] & Hin & Hx).
  destruct (negb (a =? c) && (b =? c)) eqn:E; [|destruct Hx]. destruct Hx as [<-|[]].
  apply andb_true_iff in E. destruct E as [E1 E2]. apply negb_true_iff in E1. apply N.eqb_neq in E1. apply N.eqb_eq in E2. subst b.
  exists a, s. repeat split; assumption.
Qed.

(* releasing names only ever announces name-owner changes *)
Lemma release_names_outputs : forall owned names c x, In x (snd (release_names names c owned)) -> exists n a b, x = (MON, Noc n a b).
Proof.
  induction owned as [|name r IH]; intros names c x; cbn [release_names]; [intros []|].
  set (go := fix go (l : list (bytes * list N)) : list (bytes * list N) * list (N * mout) := _).
  assert (Hgo : forall l y, In y (snd (go l)) -> exists n a b, y = (MON, Noc n a b)).
  { induction l as [|[n q] t IHl]; intros y; cbn [go]; [intros []|].
    destruct (bytes_eqb n name).
    - destruct q as [|h q']; [intros []|]. destruct (h =? c); [|intros []].
      destruct q' as [|h' q'']; cbn [snd]; intros [<-|[]]; do 3 eexists; reflexivity.
    - destruct (go t) as [t' o] eqn:E. cbn [snd] in *. exact (IHl y). }
  destruct (go names) as [names1 o1] eqn:E1. specialize (IH names1 c x).
  destruct (release_names names1 c r) as [names2 o2]. cbn [snd] in *. intros H. apply in_app_iff in H. destruct H as [H|H]; [|apply IH; exact H].
  apply (Hgo names x). rewrite E1. exact H.
Qed.

Section Close.
  Variable k : mstate.
  Variable c : N.
  Variable active : bool.

  Theorem disconnect_cleans_up :
    let k' := fst (mini_disconnect k c active) in
    (forall p, In p (m_pend k') -> fst (fst p) <> c /\ snd (fst p) <> c) /\
    ~ In c (m_mons k') /\
    (forall p, In p (m_uniq k') -> fst p <> c) /\
    (forall p, In p (m_acq k') -> fst p <> c).
  Proof.
    unfold mini_disconnect.
    destruct (if active && negb (mem c (m_mons k)) then release_names (m_names k) c (owned_rev k c) else (m_names k, [])) as [names o].
    pose proof (drop_pending_kept (m_pend k) c) as Hp.
    destruct (drop_pending (m_pend k) c) as [pend errs]. cbn [fst] in *. cbn [set_pend forget_conn m_pend m_mons m_uniq m_acq].
    repeat split.
    - apply (Hp p H).
    - apply (Hp p H).
    - intros H. apply filter_In in H. destruct H as [_ H]. rewrite N.eqb_refl in H. discriminate.
    - intros p H. apply filter_In in H. destruct H as [_ H]. apply negb_true_iff in H. apply N.eqb_neq in H. exact H.
    - intros p H. apply filter_In in H. destruct H as [_ H]. apply negb_true_iff in H. apply N.eqb_neq in H. exact H.
  Qed.

  (* the defect class "NoReply sent to the connection that is being finalised" is excluded:
     every NoReply produced by a disconnect goes to a DIFFERENT connection, one that had a call
     outstanding to the departed one *)
  Theorem no_error_to_departed : forall to s,
    In (MON, NoReply to s) (snd (mini_disconnect k c active)) -> to <> c /\ In (to, c, s) (m_pend k).
  Proof.
    intros to s. unfold mini_disconnect.
    destruct (if active && negb (mem c (m_mons k)) then release_names (m_names k) c (owned_rev k c) else (m_names k, [])) as [names o] eqn:Er.
    pose proof (drop_pending_errs (m_pend k) c) as He.
    destruct (drop_pending (m_pend k) c) as [pend errs]. cbn [snd] in *.
    intros H. apply in_app_iff in H. destruct H as [H|H].
    - exfalso. destruct (active && negb (mem c (m_mons k))).
      + pose proof (release_names_outputs (owned_rev k c) (m_names k) c (MON, NoReply to s)) as R. rewrite Er in R. cbn [snd] in R.
        destruct (R H) as (n & a & b & E). discriminate.
      + inversion Er. subst o. destruct H.
    - apply in_app_iff in H. destruct H as [H|H].
      + exfalso. destruct (active && negb (mem c (m_mons k))); [destruct H as [H|[]]; discriminate | destruct H].
      + destruct (He _ H) as (a & s' & E & Hne & Hin). inversion E. subst a s'. split; assumption.
  Qed.

  (* in particular a call the connection made to itself and never answered is forgotten silently *)
  Corollary self_call_forgotten : forall s, ~ In (MON, NoReply c s) (snd (mini_disconnect k c active)).
  Proof. intros s H. apply no_error_to_departed in H. destruct H as [H _]. apply H. reflexivity. Qed.
End Close.
