(* Well-formed values for the specification codec, induction principles for
   [ty] and [val], and small structural lemmas. *)
From DV Require Import Lib.Base Spec.Codec Wire.HeaderEdit Proofs.CodecBasics.
From Coq Require Import ZArith ZifyBool ZifyN ZifyNat Arith.
Local Open Scope N_scope.

(* ---- induction principles with Forall on the nested lists ------------------ *)
Section TyInd.
  Variable P : ty -> Prop.
  Hypothesis Hb : forall c, P (TBasic c).
  Hypothesis Hv : P TVariant.
  Hypothesis Ha : forall t, P t -> P (TArray t).
  Hypothesis Hs : forall ts, Forall P ts -> P (TStruct ts).
  Hypothesis Hd : forall k v, P v -> P (TDict k v).
  Fixpoint ty_ind' (t : ty) : P t :=
    match t with
    | TBasic c => Hb c
    | TVariant => Hv
    | TArray t' => Ha t' (ty_ind' t')
    | TStruct ts => Hs ts ((fix go (l : list ty) : Forall P l :=
                              match l with [] => Forall_nil P | x :: r => Forall_cons x (ty_ind' x) (go r) end) ts)
    | TDict k v => Hd k v (ty_ind' v)
    end.
End TyInd.

Section ValInd.
  Variable P : val -> Prop.
  Hypothesis Hn : forall c n, P (VNum c n).
  Hypothesis Hs : forall c s, P (VStr c s).
  Hypothesis Ha : forall et vs, Forall P vs -> P (VArr et vs).
  Hypothesis Ht : forall fs, Forall P fs -> P (VStruct fs).
  Hypothesis Hd : forall k v, P k -> P v -> P (VDictE k v).
  Hypothesis Hv : forall t v, P v -> P (VVar t v).
  Fixpoint val_ind' (v : val) : P v :=
    let go := (fix go (l : list val) : Forall P l :=
                 match l with [] => Forall_nil P | x :: r => Forall_cons x (val_ind' x) (go r) end) in
    match v with
    | VNum c n => Hn c n
    | VStr c s => Hs c s
    | VArr et vs => Ha et vs (go vs)
    | VStruct fs => Ht fs (go fs)
    | VDictE k x => Hd k x (val_ind' k) (val_ind' x)
    | VVar t x => Hv t x (val_ind' x)
    end.
End ValInd.

(* ---- ty_eqb ------------------------------------------------------------------ *)
Lemma ty_eqb_eq : forall a b, ty_eqb a b = true -> a = b.
Proof.
  induction a as [c| |t IH|ts IH|k v IH] using ty_ind'; intros b H; destruct b; cbn in H; try discriminate.
  - apply N.eqb_eq in H. congruence.
  - reflexivity.
  - f_equal. apply IH. exact H.
  - f_equal. revert ts0 H. induction IH as [|x r Hx Hr IHr]; intros [|y ys] H; try discriminate; [reflexivity|].
    apply andb_true_iff in H. destruct H as [H1 H2]. f_equal; [apply Hx; exact H1 | apply IHr; exact H2].
  - apply andb_true_iff in H. destruct H as [H1 H2]. apply N.eqb_eq in H1. f_equal; [exact H1 | apply IH; exact H2].
Qed.

Lemma ty_eqb_refl : forall a, ty_eqb a a = true.
Proof.
  induction a as [c| |t IH|ts IH|k v IH] using ty_ind'; cbn.
  - apply N.eqb_refl.
  - reflexivity.
  - exact IH.
  - induction IH as [|x r Hx Hr IHr]; [reflexivity|]. rewrite Hx. exact IHr.
  - rewrite N.eqb_refl. exact IH.
Qed.

(* ---- the encoder, unfolded ----------------------------------------------------- *)
Fixpoint encs (le : bool) (vs : list val) (pos : N) : bytes :=
  match vs with
  | [] => []
  | x :: r => let b := enc le x pos in b ++ encs le r (pos + nlen b)
  end.

Lemma enc_seq_encs le vs pos : enc_seq le vs pos = encs le vs pos.
Proof. unfold enc_seq. revert pos. induction vs as [|x r IH]; intros pos; [reflexivity|]. cbn. rewrite IH. reflexivity. Qed.

Lemma enc_num le c n pos : enc le (VNum c n) pos =
  match fixed_size c with Some sz => zeros (pad_amount pos sz) ++ bytes_of le (N.to_nat sz) n | None => [] end.
Proof. reflexivity. Qed.

Lemma enc_str le c s pos : enc le (VStr c s) pos =
  if c =? 103 then nlen s :: s ++ [0] else zeros (pad_amount pos 4) ++ bytes_of le 4 (nlen s) ++ s ++ [0].
Proof. reflexivity. Qed.

Lemma enc_arr le et elems pos : enc le (VArr et elems) pos =
  let p1 := pad_amount pos 4 in
  let after_len := pos + p1 + 4 in
  let p2 := pad_amount after_len (spec_align et) in
  let payload := encs le elems (after_len + p2) in
  zeros p1 ++ bytes_of le 4 (nlen payload) ++ zeros p2 ++ payload.
Proof.
  cbn [enc]. cbv zeta. repeat f_equal.
  all: generalize (pos + pad_amount pos 4 + 4 + pad_amount (pos + pad_amount pos 4 + 4) (spec_align et)); induction elems as [|x r IH]; intros p; [reflexivity|]; cbn; rewrite IH; reflexivity.
Qed.

Lemma enc_struct le fs pos : enc le (VStruct fs) pos = zeros (pad_amount pos 8) ++ encs le fs (pos + pad_amount pos 8).
Proof.
  cbn [enc]. cbv zeta. f_equal. generalize (pos + pad_amount pos 8). induction fs as [|x r IH]; intros p; [reflexivity|]. cbn. rewrite IH. reflexivity.
Qed.

Lemma enc_dict le k x pos : enc le (VDictE k x) pos = zeros (pad_amount pos 8) ++ encs le [k; x] (pos + pad_amount pos 8).
Proof. cbn [enc encs]. cbv zeta. rewrite !app_nil_r. reflexivity. Qed.

Lemma enc_var le t x pos : enc le (VVar t x) pos =
  let hd := nlen (print_ty t) :: print_ty t ++ [0] in hd ++ enc le x (pos + nlen hd).
Proof. reflexivity. Qed.
