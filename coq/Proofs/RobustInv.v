(* C10 — the connection-table invariant of Robust/Bus.v, for every history and every
   instantiation of handshake and core:

     - at most max_incomplete_connections connections are unregistered (the
       _dbus_assert in bus_connections_setup_connection cannot fail);
     - the table is ordered by arrival time (what licenses the `break` in
       bus_connections_expire_incomplete);
     - no unregistered connection is older than auth_timeout. *)
From DV Require Import Lib.Base Wire.Message Robust.Bus Proofs.RobustBase.
From Coq Require Import ZArith ZifyBool ZifyN ZifyNat Arith.
Local Open Scope N_scope.

Inductive sub {X : Type} : list X -> list X -> Prop :=
| sub_nil : sub [] []
| sub_skip x l' l : sub l' l -> sub l' (x :: l)
| sub_keep x l' l : sub l' l -> sub (x :: l') (x :: l).

Lemma sub_refl {X} (l : list X) : sub l l.
Proof. induction l; constructor; assumption. Qed.

Lemma sub_in {X} (l' l : list X) x : sub l' l -> In x l' -> In x l.
Proof. intros Hs. induction Hs; intros Hi; [destruct Hi | right; auto | destruct Hi as [<-|Hi]; [left; reflexivity | right; auto]]. Qed.

Lemma sub_filter {X} (p : X -> bool) (l : list X) : sub (filter p l) l.
Proof. induction l as [|x l IH]; cbn [filter]; [constructor|]. destruct (p x); constructor; exact IH. Qed.

Lemma sub_filter_len {X} (p : X -> bool) (l' l : list X) : sub l' l -> (length (filter p l') <= length (filter p l))%nat.
Proof. induction 1; cbn [filter]; [lia | destruct (p x); cbn [length]; lia | destruct (p x); cbn [length]; lia]. Qed.

Lemma sub_trans {X} (a b c : list X) : sub a b -> sub b c -> sub a c.
Proof.
  intros Hab Hbc. revert a Hab. induction Hbc; intros a Hab.
  - exact Hab.
  - constructor. apply IHHbc. exact Hab.
  - inversion Hab; subst; [constructor; apply IHHbc; assumption | constructor; apply IHHbc; assumption].
Qed.

Fixpoint sorted (l : list N) : Prop :=
  match l with
  | [] => True
  | a :: r => (forall b, In b r -> a <= b) /\ sorted r
  end.

Lemma sorted_sub_map {X} (f : X -> N) (l' l : list X) : sub l' l -> sorted (map f l) -> sorted (map f l').
Proof.
  induction 1; cbn [map sorted]; intros Hs; [exact I | apply IHsub; tauto |].
  destruct Hs as [Ha Hs]. split; [|apply IHsub; exact Hs].
  intros b Hb. apply Ha. apply in_map_iff in Hb. destruct Hb as (y & <- & Hy). apply in_map. eapply sub_in; eassumption.
Qed.

Lemma sorted_app_last (l : list N) a : sorted l -> (forall b, In b l -> b <= a) -> sorted (l ++ [a]).
Proof.
  induction l as [|x r IH]; cbn [app sorted]; intros Hs Hle; [split; [intros b []|exact I]|].
  destruct Hs as [Hx Hs]. split.
  - intros b Hb. apply in_app_iff in Hb. destruct Hb as [Hb|[<-|[]]]; [apply Hx; exact Hb | apply Hle; left; reflexivity].
  - apply IH; [exact Hs|]. intros b Hb. apply Hle. right. exact Hb.
Qed.

Section Inv.
  Context {A S O : Type}.
  Variable P : ops A S O.
  Variable cf : cfg.

  Definition inactive (x : conn A) : bool := negb (c_active x).
  Definition young (now : N) (x : conn A) : Prop := c_active x = false -> now - c_since x < auth_timeout cf.

  (* everything but the age bound (which a tick breaks until the expiry has run) *)
  Record Pre (st : state A S) : Prop := mkPre {
    pre_count : n_incomplete st <= max_incomplete cf;
    pre_sorted : sorted (map c_since (s_conns st));
    pre_since : forall x, In x (s_conns st) -> c_since x <= s_now st
  }.
  Record Inv (st : state A S) : Prop := mkInv {
    inv_pre : Pre st;
    inv_young : forall x, In x (s_conns st) -> young (s_now st) x
  }.

  Lemma n_incomplete_sub (l' l : list (conn A)) (k k' : S) now : sub l' l -> n_incomplete (mkSt now l' k') <= n_incomplete (mkSt now l k).
  Proof. intros H. unfold n_incomplete, incomplete, nlen. cbn [s_conns]. pose proof (sub_filter_len (fun x => negb (c_active x)) _ _ H). lia. Qed.

  (* shrinking the table keeps the invariant *)
  Lemma Inv_sub (st : state A S) l' k' : Inv st -> sub l' (s_conns st) -> Inv (mkSt (s_now st) l' k').
  Proof.
    intros [[Hc Hs Hsi] Hy] Hsub. split; [split|]; cbn [s_conns s_now].
    - pose proof (n_incomplete_sub l' (s_conns st) (s_core st) k' (s_now st) Hsub) as H. destruct st as [n0 l0 k0]. cbn [s_conns s_now s_core] in *. lia.
    - eapply sorted_sub_map; eassumption.
    - intros x Hx. apply Hsi. eapply sub_in; eassumption.
    - intros x Hx. apply Hy. eapply sub_in; eassumption.
  Qed.

  Lemma Pre_sub (st : state A S) l' k' : Pre st -> sub l' (s_conns st) -> Pre (mkSt (s_now st) l' k').
  Proof.
    intros [Hc Hs Hsi] Hsub. split; cbn [s_conns s_now].
    - pose proof (n_incomplete_sub l' (s_conns st) (s_core st) k' (s_now st) Hsub) as H. destruct st as [n0 l0 k0]. cbn [s_conns s_now s_core] in *. lia.
    - eapply sorted_sub_map; eassumption.
    - intros x Hx. apply Hsi. eapply sub_in; eassumption.
  Qed.

  Lemma remove_sub (l : list (conn A)) c : sub (remove_conn l c) l.
  Proof. apply sub_filter. Qed.

  (* ---- replacing a connection's record in place ---------------------------- *)
  Lemma update_since (l : list (conn A)) x y :
    find_conn l (c_id x) = Some y -> c_since x = c_since y -> map c_since (update_conn l x) = map c_since l.
  Proof.
    unfold find_conn. induction l as [|z r IH]; [reflexivity|]. cbn [find update_conn map].
    destruct (c_id z =? c_id x) eqn:E.
    - intros H Hs. inversion H. subst z. cbn [map]. rewrite Hs. reflexivity.
    - intros H Hs. cbn [map]. rewrite IH by assumption. reflexivity.
  Qed.

  Lemma update_in (l : list (conn A)) x z : In z (update_conn l x) -> z = x \/ In z l.
  Proof.
    induction l as [|y r IH]; cbn [update_conn]; [intros []|].
    destruct (c_id y =? c_id x); intros [<-|H]; auto; [right; right; exact H | right; left; reflexivity | destruct (IH H); auto; right; right; assumption].
  Qed.

  Lemma update_incomplete (l : list (conn A)) x y :
    find_conn l (c_id x) = Some y -> (c_active y = true -> c_active x = true) ->
    (length (incomplete (update_conn l x)) <= length (incomplete l))%nat.
  Proof.
    unfold find_conn, incomplete. induction l as [|z r IH]; [cbn; lia|]. cbn [find update_conn].
    destruct (c_id z =? c_id x) eqn:E.
    - intros H Ha. inversion H. subst z. cbn [filter]. destruct (c_active y); [rewrite Ha by reflexivity; cbn; lia|].
      destruct (c_active x); cbn [negb length]; lia.
    - intros H Ha. cbn [filter]. specialize (IH H Ha). destruct (negb (c_active z)); cbn [length]; lia.
  Qed.

  Lemma Inv_update (st : state A S) x y k' :
    Inv st -> find_conn (s_conns st) (c_id x) = Some y -> c_since x = c_since y -> (c_active y = true -> c_active x = true) ->
    Inv (mkSt (s_now st) (update_conn (s_conns st) x) k').
  Proof.
    intros [[Hc Hs Hsi] Hy] Hf Hsince Hact. pose proof (find_conn_in _ _ _ Hf) as Hin.
    split; [split|]; cbn [s_conns s_now].
    - pose proof (update_incomplete _ _ _ Hf Hact) as H. unfold n_incomplete, nlen in *. cbn [s_conns]. lia.
    - rewrite (update_since _ _ _ Hf Hsince). exact Hs.
    - intros z Hz. apply update_in in Hz. destruct Hz as [->|Hz]; [rewrite Hsince; apply Hsi; exact Hin | apply Hsi; exact Hz].
    - intros z Hz. apply update_in in Hz. destruct Hz as [->|Hz]; [|apply Hy; exact Hz].
      intros Hna. unfold young in *. rewrite Hsince. apply (Hy y Hin). destruct (c_active y); [rewrite Hact in Hna by reflexivity; discriminate|reflexivity].
  Qed.

  (* ---- expiry ---------------------------------------------------------------- *)
  Lemma expire_list_spec now (l : list (conn A)) k :
    sorted (map c_since l) ->
    let '(kept, _, _) := expire_list P cf now l k in
    sub kept l /\ forall y, In y kept -> young now y.
  Proof.
    revert k. induction l as [|x r IH]; intros k Hs; cbn [expire_list].
    - split; [constructor|intros y []].
    - cbn [map sorted] in Hs. destruct Hs as [Hx Hs].
      destruct (c_active x) eqn:Hact.
      + specialize (IH k Hs). destruct (expire_list P cf now r k) as [[kept k'] o]. destruct IH as [Hsub Hy].
        split; [constructor; exact Hsub|]. intros y [<-|Hin]; [unfold young; congruence | apply Hy; exact Hin].
      + destruct (auth_timeout cf <=? now - c_since x) eqn:Hexp.
        * destruct (o_disconnect P k (c_id x) false) as [k1 o1]. specialize (IH k1 Hs).
          destruct (expire_list P cf now r k1) as [[kept k2] o2]. destruct IH as [Hsub Hy]. split; [constructor; exact Hsub|exact Hy].
        * split; [apply sub_refl|]. intros y [<-|Hin]; unfold young; intros _; [lia|].
          assert (c_since x <= c_since y) by (apply Hx; apply in_map; exact Hin). lia.
  Qed.

  Lemma expire_inv (st : state A S) : Pre st -> Inv (fst (expire P cf st)).
  Proof.
    intros Hp. unfold expire. pose proof (expire_list_spec (s_now st) (s_conns st) (s_core st) (pre_sorted _ Hp)) as H.
    destruct (expire_list P cf (s_now st) (s_conns st) (s_core st)) as [[kept k] o]. destruct H as [Hsub Hy]. cbn [fst].
    split; [apply Pre_sub; assumption|exact Hy].
  Qed.

  (* ---- single steps ------------------------------------------------------------ *)
  Lemma drop_inv (st : state A S) x : Inv st -> Inv (fst (drop P st x)).
  Proof. intros H. unfold drop. destruct (o_disconnect P (s_core st) (c_id x) (c_active x)) as [k o]. cbn [fst]. apply Inv_sub; [exact H|apply remove_sub]. Qed.

  Lemma msg_part_inv (st : state A S) x y d :
    Inv st -> find_conn (s_conns st) (c_id x) = Some y -> c_since x = c_since y -> (c_active y = true -> c_active x = true) ->
    Inv (fst (msg_part P st x d)).
  Proof.
    intros Hi Hf Hs Ha. unfold msg_part.
    pose proof (dispatch_all_active_mono P (s_core st) (c_id x) (c_active x) (l_msgs (feed (c_loader x) d 0))) as Hm.
    destruct (dispatch_all P (s_core st) (c_id x) (c_active x) (l_msgs (feed (c_loader x) d 0))) as [[[k o] act] cl]. cbn [fst snd] in Hm.
    match goal with |- context [update_conn _ ?z] => set (x' := z) end.
    assert (Hi' : Inv (mkSt (s_now st) (update_conn (s_conns st) x') k)).
    { apply (Inv_update st x' y k Hi); [exact Hf | exact Hs | intros Hy; apply Hm; apply Ha; exact Hy]. }
    destruct (l_corrupted (feed (c_loader x) d 0) || cl).
    - pose proof (drop_inv _ x' Hi') as Hd. destruct (drop P _ x') as [st'' o']. exact Hd.
    - exact Hi'.
  Qed.

  Lemma auth_part_inv (st : state A S) x a d w : Inv st -> find_conn (s_conns st) (c_id x) = Some x -> Inv (fst (auth_part P st x a d w)).
  Proof.
    intros Hi Hf. unfold auth_part. destruct (o_auth_feed P a d) as [[a' reply] v].
    destruct (negb w && _); [apply drop_inv; exact Hi|].
    destruct v as [| |u].
    - cbn [fst]. apply (Inv_update st _ x); [exact Hi | exact Hf | reflexivity | auto].
    - pose proof (drop_inv st x Hi) as Hd. destruct (drop P st x). exact Hd.
    - pose proof (msg_part_inv st (mkConn (c_id x) (c_since x) PMsg (c_loader x) (c_active x)) x u Hi Hf eq_refl (fun H => H)) as Hm.
      destruct (msg_part P st _ u). exact Hm.
  Qed.

  Lemma find_conn_self (l : list (conn A)) c x : find_conn l c = Some x -> find_conn l (c_id x) = Some x.
  Proof. intros H. rewrite (find_conn_id _ _ _ H). exact H. Qed.

  Lemma n_incomplete_app (st : state A S) x : c_active x = false ->
    n_incomplete (mkSt (s_now st) (s_conns st ++ [x]) (s_core st)) = n_incomplete st + 1.
  Proof. intros H. unfold n_incomplete, incomplete, nlen. cbn [s_conns]. rewrite filter_app, app_length. cbn [filter]. rewrite H. cbn [negb length]. lia. Qed.

  Theorem step_inv (st : state A S) e : Inv st -> Inv (fst (step P cf st e)).
  Proof.
    intros Hi. destruct e as [c|c d w|c|d]; cbn [step].
    - (* accept *)
      unfold accept. destruct (negb (accept_enabled cf st)) eqn:He; [exact Hi|].
      destruct (find_conn (s_conns st) c); [exact Hi|].
      apply expire_inv. destruct Hi as [[Hc Hs Hsi] Hy].
      unfold accept_enabled in He. split; cbn [s_conns s_now].
      + rewrite n_incomplete_app by reflexivity. lia.
      + rewrite map_app. cbn [map c_since]. apply sorted_app_last; [exact Hs|].
        intros b Hb. apply in_map_iff in Hb. destruct Hb as (y & <- & Hin). apply Hsi. exact Hin.
      + intros x Hx. apply in_app_iff in Hx. destruct Hx as [Hx|[<-|[]]]; [apply Hsi; exact Hx | cbn [c_since]; lia].
    - (* read *)
      unfold read. destruct (find_conn (s_conns st) c) as [x|] eqn:Hf; [|exact Hi].
      pose proof (find_conn_self _ _ _ Hf) as Hf'.
      destruct (c_phase x) as [|a|].
      + destruct d as [|b rest]; [exact Hi|]. destruct (b =? 0); [apply auth_part_inv; assumption | apply drop_inv; exact Hi].
      + apply auth_part_inv; assumption.
      + apply (msg_part_inv st x x d Hi Hf' eq_refl (fun H => H)).
    - destruct (find_conn (s_conns st) c) as [x|]; [apply drop_inv; exact Hi | exact Hi].
    - (* tick: the core's timers do not touch the table *)
      assert (Hp : Pre (mkSt (s_now st + d) (s_conns st) (s_core st))).
      { destruct Hi as [[Hc Hs Hsi] Hy]. split; cbn [s_conns s_now]; [exact Hc | exact Hs |]. intros x Hx. specialize (Hsi x Hx). lia. }
      pose proof (expire_inv _ Hp) as H1. destruct (expire P cf _) as [st1 o1]. cbn [fst] in H1.
      destruct (o_tick P (s_core st1) d) as [k o2]. cbn [fst].
      destruct H1 as [[Hc Hs Hsi] Hy]. split; [split|]; cbn [s_conns s_now]; try assumption.
  Qed.

  Lemma Inv_init (k : S) : Inv (init k : state A S).
  Proof.
    split; [split|]; cbn; [|exact I|intros x []|intros x []].
    unfold n_incomplete, nlen. cbn. lia.
  Qed.

  Theorem run_inv (st : state A S) h : Inv st -> Inv (fst (run P cf st h)).
  Proof.
    revert st. induction h as [|e r IH]; intros st Hi; cbn [run]; [exact Hi|].
    pose proof (step_inv st e Hi) as H1. destruct (step P cf st e) as [st1 o1]. cbn [fst] in H1.
    specialize (IH st1 H1). destruct (run P cf st1 r) as [st2 o2]. exact IH.
  Qed.

  (* C10, "incomplete (unauthenticated) connections are bounded by
     max_incomplete_connections and the auth timeout" — every history, every schedule *)
  Theorem incomplete_bounded (k : S) h :
    let st := fst (run P cf (init k) h) in
    n_incomplete st <= max_incomplete cf /\
    forall x, In x (s_conns st) -> c_active x = false -> s_now st - c_since x < auth_timeout cf.
  Proof.
    pose proof (run_inv (init k) h (Inv_init k)) as [[Hc _ _] Hy]. split; [exact Hc|]. intros x Hx Ha. apply (Hy x Hx Ha).
  Qed.

  (* the listening sockets are not served while the table is full: an accept in that
     state is not an event of the bus (the model flags it and does nothing) *)
  Theorem accept_gate (st : state A S) c : max_incomplete cf <= n_incomplete st -> step P cf st (EAccept c) = (st, [ORefused c]).
  Proof. intros H. cbn [step]. unfold accept, accept_enabled. destruct (n_incomplete st <? max_incomplete cf) eqn:E; [lia|reflexivity]. Qed.

  (* _dbus_assert (n_incomplete <= max_incomplete_connections) in
     bus_connections_setup_connection, evaluated right after the new connection has
     been appended and the expiry has run: holds in every reachable state *)
  Theorem setup_assertion_holds (k : S) h c :
    let st := fst (run P cf (init k) h) in
    n_incomplete (fst (step P cf st (EAccept c))) <= max_incomplete cf.
  Proof.
    intros st. pose proof (step_inv st (EAccept c) (run_inv (init k) h (Inv_init k))) as [[Hc _ _] _]. exact Hc.
  Qed.

  (* even before the expiry has run (the C code asserts after it, but the bound does not depend on it) *)
  Theorem setup_count_before_expiry (st : state A S) c : Inv st -> accept_enabled cf st = true ->
    n_incomplete (mkSt (s_now st) (s_conns st ++ [mkConn c (s_now st) PCred (loader_for cf) false]) (s_core st)) <= max_incomplete cf.
  Proof. intros _ He. unfold accept_enabled in He. rewrite n_incomplete_app by reflexivity. lia. Qed.
End Inv.
