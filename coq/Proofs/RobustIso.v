(* C10 — isolation: what a hostile byte stream can make the bus do is what its valid
   message prefix followed by a plain disconnect makes it do.

   - after_gone            : once a connection is out of the table, its remaining
                             input changes nothing (all later events of it are no-ops);
   - same_outcome_same_step: the step depends on the bytes only through the loader's
                             outcome (messages, corrupted?) — two streams that differ
                             only in their invalid part are indistinguishable;
   - valid_prefix / prefix_loads (by Proofs/LoadLocal.v: load_local_from_have, locality of
                             load_message under the framing decision of have_message):
                             feeding only the bytes of the messages that were loaded
                             gives the same messages and no corruption;
   - isolation             : run (h1 ++ ERead c s :: h2) = run (h1 ++ ERead c (valid prefix of s) :: EEof c :: h2 without c). *)
From DV Require Import Lib.Base Wire.Message Proofs.LoaderProofs Proofs.LoadLocal Robust.Bus Proofs.RobustBase.
From Coq Require Import ZArith ZifyBool ZifyN ZifyNat Arith.
Local Open Scope N_scope.

(* ---- loader: the consumed bytes alone load the same messages --------------- *)
Definition with_buf (l : loader) (b : bytes) : loader := mkLoader b (l_corrupted l) (l_reason l) (l_msgs l) (l_fds l) (l_max l).

(* number of buffer bytes that queue_messages turns into messages *)
Definition eaten (f : nat) (l : loader) : nat := (length (l_buf l) - length (l_buf (queue_messages f l)))%nat.

Lemma firstn_app_exact {X} (a b : list X) n : n = length a -> firstn n (a ++ b) = a.
Proof. intros ->. rewrite firstn_app, Nat.sub_diag, firstn_all. cbn. apply app_nil_r. Qed.

Lemma qm_buf_suffix : forall f l, exists p, l_buf l = p ++ l_buf (queue_messages f l).
Proof.
  induction f as [|f IH]; intros l; [exists []; reflexivity|]. rewrite qm_S.
  destruct (l_corrupted l); [exists []; reflexivity|].
  destruct (nlen (l_buf l) <? DBUS_MINIMUM_HEADER_SIZE); [exists []; reflexivity|].
  destruct (have_message (l_max l) (l_buf l)) as [r|le fl hl bl c]; [exists []; reflexivity|].
  destruct c; [|exists []; reflexivity].
  destruct (load_message le fl hl bl (l_fds l) (l_buf l)) as [m|r]; [|exists []; reflexivity].
  match goal with |- context [queue_messages f ?l1] => destruct (IH l1) as [p Hp] end. cbn [l_buf] in Hp.
  exists (firstn (N.to_nat (hl + bl)) (l_buf l) ++ p). rewrite <- app_assoc, <- Hp. symmetry. apply firstn_skipn.
Qed.

Lemma qm_empty_buf f l : l_buf l = [] -> queue_messages f l = l.
Proof. intros H. destruct f; [reflexivity|]. rewrite qm_S. destruct (l_corrupted l); [reflexivity|]. rewrite H. reflexivity. Qed.

Section Prefix.

  (* on the eaten bytes alone, queue_messages loads exactly the same messages, does not
     get corrupted, and leaves an empty buffer *)
  Lemma prefix_loads : forall f l, (length (l_buf l) < f)%nat -> l_corrupted l = false ->
    l_msgs (queue_messages f (with_buf l (firstn (eaten f l) (l_buf l)))) = l_msgs (queue_messages f l) /\
    l_corrupted (queue_messages f (with_buf l (firstn (eaten f l) (l_buf l)))) = false /\
    l_fds (queue_messages f (with_buf l (firstn (eaten f l) (l_buf l)))) = l_fds (queue_messages f l).
  Proof.
    induction f as [|f IH]; intros l Hf Hcor; [lia|].
    unfold eaten. rewrite (qm_S f l). rewrite Hcor.
    (* in every case but "message loaded" nothing is eaten and the truncated buffer is empty *)
    assert (Hzero : forall l0 : loader, l_buf l0 = l_buf l -> l_msgs l0 = l_msgs l -> l_fds l0 = l_fds l ->
               l_msgs (queue_messages (S f) (with_buf l (firstn (length (l_buf l) - length (l_buf l0)) (l_buf l)))) = l_msgs l0 /\
               l_corrupted (queue_messages (S f) (with_buf l (firstn (length (l_buf l) - length (l_buf l0)) (l_buf l)))) = false /\
               l_fds (queue_messages (S f) (with_buf l (firstn (length (l_buf l) - length (l_buf l0)) (l_buf l)))) = l_fds l0).
    { intros l0 Hb Hm Hfd. rewrite Hb, Nat.sub_diag. cbn [firstn]. rewrite qm_empty_buf by reflexivity.
      unfold with_buf. cbn [l_msgs l_corrupted l_fds]. auto. }
    destruct (nlen (l_buf l) <? DBUS_MINIMUM_HEADER_SIZE) eqn:Hshort; [apply Hzero; reflexivity|].
    assert (H16 : (16 <= length (l_buf l))%nat). { unfold nlen in Hshort. change DBUS_MINIMUM_HEADER_SIZE with 16 in Hshort. lia. }
    destruct (have_message (l_max l) (l_buf l)) as [r|le fl hl bl cpl] eqn:Hh; [apply Hzero; reflexivity|].
    destruct cpl; [|apply Hzero; reflexivity].
    destruct (load_message le fl hl bl (l_fds l) (l_buf l)) as [m|r] eqn:Hl; [|apply Hzero; reflexivity].
    pose proof (have_ok_hl _ _ _ _ _ _ _ Hh) as Hhl.
    pose proof (have_ok_inv _ _ _ _ _ _ _ Hh) as [Hhl' Hc]. symmetry in Hc.
    assert (Hfit : hl + bl <= nlen (l_buf l)) by lia.
    set (l1 := mkLoader (skipn (N.to_nat (hl + bl)) (l_buf l)) false V_VALID (l_msgs l ++ [m]) (l_fds l - m_nfds m) (l_max l)).
    assert (Hlen1 : (length (l_buf l1) < f)%nat).
    { cbn [l1 l_buf]. rewrite skipn_length. unfold nlen in Hfit. lia. }
    specialize (IH l1 Hlen1 eq_refl). unfold eaten in IH.
    destruct (qm_buf_suffix f l1) as [p Hp].
    set (k1 := (length (l_buf l1) - length (l_buf (queue_messages f l1)))%nat) in *.
    assert (Hk1 : k1 = length p). { unfold k1. rewrite Hp at 1. rewrite app_length. lia. }
    (* the truncated buffer of l is the message followed by the truncated buffer of l1 *)
    set (n := (length (l_buf l) - length (l_buf (queue_messages f l1)))%nat).
    assert (HpL : (length (l_buf l) - N.to_nat (hl + bl) = length p + length (l_buf (queue_messages f l1)))%nat).
    { pose proof (f_equal (@length _) Hp) as E. rewrite app_length in E. cbn [l1 l_buf] in E. rewrite skipn_length in E. exact E. }
    assert (Hn : n = (N.to_nat (hl + bl) + k1)%nat).
    { unfold n. rewrite Hk1. unfold nlen in Hfit. lia. }
    assert (Htr : firstn n (l_buf l) = firstn (N.to_nat (hl + bl)) (l_buf l) ++ firstn k1 (l_buf l1)).
    { rewrite Hn. rewrite firstn_add_skipn. reflexivity. }
    assert (Hlen_tr : length (firstn n (l_buf l)) = n). { apply firstn_length_le. unfold n. lia. }
    assert (Hshort' : (nlen (firstn n (l_buf l)) <? DBUS_MINIMUM_HEADER_SIZE) = false).
    { unfold nlen. rewrite Hlen_tr. change DBUS_MINIMUM_HEADER_SIZE with 16. lia. }
    (* framing decision: same first 16 bytes *)
    assert (Hh' : have_message (l_max l) (firstn n (l_buf l)) = HaveOk le fl hl bl true).
    { assert (Esplit : l_buf l = firstn n (l_buf l) ++ skipn n (l_buf l)) by (symmetry; apply firstn_skipn).
      pose proof (have_message_app (l_max l) (firstn n (l_buf l)) (skipn n (l_buf l))) as Ha.
      rewrite <- Esplit in Ha. rewrite Hh in Ha. specialize (Ha ltac:(rewrite Hlen_tr; lia)).
      destruct (have_message (l_max l) (firstn n (l_buf l))) as [r'|le' fl' hl' bl' c'] eqn:Hh2; [discriminate|].
      inversion Ha. subst le' fl' hl' bl'.
      pose proof (have_ok_inv _ _ _ _ _ _ _ Hh2) as [_ Hc2]. rewrite Hc2. f_equal. unfold nlen. rewrite Hlen_tr. lia. }
    (* the next loader is the truncated l1 *)
    assert (Hsk : skipn (N.to_nat (hl + bl)) (firstn n (l_buf l)) = firstn k1 (l_buf l1)).
    { rewrite Htr. rewrite skipn_app. rewrite firstn_length_le by (unfold nlen in Hfit; lia). rewrite Nat.sub_diag. cbn [skipn].
      rewrite skipn_all2 by (rewrite firstn_length; lia). reflexivity. }
    assert (Estep : queue_messages (S f) (with_buf l (firstn n (l_buf l))) = queue_messages f (with_buf l1 (firstn k1 (l_buf l1)))).
    { rewrite qm_S. unfold with_buf. cbn [l_corrupted l_buf l_max l_fds l_msgs]. rewrite Hcor, Hshort', Hh'.
      pose proof (load_local_from_have (l_max l) le fl hl bl (l_fds l) (firstn n (l_buf l)) (skipn n (l_buf l)) Hh') as Hloc.
      rewrite firstn_skipn, Hl in Hloc.
      destruct (load_message le fl hl bl (l_fds l) (firstn n (l_buf l))) as [m0|r0]; [subst m0|contradiction].
      rewrite Hsk. reflexivity. }
    rewrite Estep. exact IH.
  Qed.
End Prefix.


(* ---- loaders at rest -------------------------------------------------------- *)
(* a loader from whose buffer nothing more can be extracted: what every
   connection's loader is between two steps of the bus model *)
Definition at_rest (l : loader) : Prop :=
  l_corrupted l = false /\ l_msgs l = [] /\ forall g, queue_messages g l = l.

Definition set_msgs (l : loader) (ms : list message) : loader :=
  mkLoader (l_buf l) (l_corrupted l) (l_reason l) ms (l_fds l) (l_max l).

(* once queue_messages has stopped, running it again changes nothing *)
Lemma qm_fix : forall f l g, (length (l_buf l) < f)%nat -> queue_messages g (queue_messages f l) = queue_messages f l.
Proof.
  induction f as [|f IH]; intros l g Hf; [lia|].
  rewrite (qm_S f l).
  destruct (l_corrupted l) eqn:Hcor.
  { destruct g; [reflexivity|]. rewrite qm_S, Hcor. reflexivity. }
  destruct (nlen (l_buf l) <? DBUS_MINIMUM_HEADER_SIZE) eqn:Hshort.
  { destruct g; [reflexivity|]. rewrite qm_S, Hcor, Hshort. reflexivity. }
  destruct (have_message (l_max l) (l_buf l)) as [r|le fl hl bl c] eqn:Hh.
  { destruct g; [reflexivity|]. rewrite qm_S. reflexivity. }
  destruct c.
  2:{ destruct g; [reflexivity|]. rewrite qm_S, Hcor, Hshort, Hh. reflexivity. }
  destruct (load_message le fl hl bl (l_fds l) (l_buf l)) as [m|r] eqn:Hl.
  2:{ destruct g; [reflexivity|]. rewrite qm_S. reflexivity. }
  apply IH. cbn [l_buf]. rewrite skipn_length.
  pose proof (have_ok_hl _ _ _ _ _ _ _ Hh). pose proof (have_ok_inv _ _ _ _ _ _ _ Hh) as [_ Hc]. unfold nlen in Hc. lia.
Qed.

(* the control flow of queue_messages does not look at the queue *)
Lemma qm_msgs_indep : forall g l ms,
  exists extra, l_msgs (queue_messages g l) = l_msgs l ++ extra /\
                queue_messages g (set_msgs l ms) = set_msgs (queue_messages g l) (ms ++ extra).
Proof.
  induction g as [|g IH]; intros l ms.
  - exists []. rewrite !app_nil_r. split; reflexivity.
  - rewrite !qm_S. unfold set_msgs. cbn [l_corrupted l_buf l_max l_fds l_msgs l_reason].
    destruct (l_corrupted l) eqn:Hcor; [exists []; rewrite !app_nil_r; split; [reflexivity | rewrite ?Hcor; reflexivity]|].
    destruct (nlen (l_buf l) <? DBUS_MINIMUM_HEADER_SIZE); [exists []; rewrite !app_nil_r; split; [reflexivity | rewrite ?Hcor; reflexivity]|].
    destruct (have_message (l_max l) (l_buf l)) as [r|le fl hl bl c]; [exists []; rewrite !app_nil_r; split; reflexivity|].
    destruct c; [|exists []; rewrite !app_nil_r; split; [reflexivity | rewrite ?Hcor; reflexivity]].
    destruct (load_message le fl hl bl (l_fds l) (l_buf l)) as [m|r]; [|exists []; rewrite !app_nil_r; split; reflexivity].
    set (l1 := mkLoader (skipn (N.to_nat (hl + bl)) (l_buf l)) false V_VALID (l_msgs l ++ [m]) (l_fds l - m_nfds m) (l_max l)).
    destruct (IH l1 (ms ++ [m])) as [extra [E1 E2]].
    exists (m :: extra). split.
    + rewrite E1. cbn [l1 l_msgs]. rewrite <- app_assoc. reflexivity.
    + unfold set_msgs in E2. cbn [l1 l_corrupted l_buf l_max l_fds l_msgs l_reason] in E2. rewrite E2. rewrite <- app_assoc. reflexivity.
Qed.

Lemma feed_pop_at_rest l d : l_corrupted (feed l d 0) = false -> at_rest (set_msgs (feed l d 0) []).
Proof.
  intros Hc. split; [exact Hc|]. split; [reflexivity|]. intros g.
  unfold feed in *. set (l1 := mkLoader _ _ _ _ _ _) in *. set (f := S (length (l_buf l1))) in *.
  destruct (qm_msgs_indep g (queue_messages f l1) []) as [extra [E1 E2]].
  rewrite (qm_fix f l1 g ltac:(unfold f; lia)) in E1, E2.
  assert (extra = []). { rewrite <- (app_nil_r (l_msgs _)) in E1 at 1. apply app_inv_head in E1. auto. }
  subst extra. exact E2.
Qed.

Lemma loader_new_at_rest mx : at_rest (mkLoader [] false V_VALID [] 0 mx).
Proof. split; [reflexivity|]. split; [reflexivity|]. intros g. apply qm_empty_buf. reflexivity. Qed.

(* ---- the valid prefix of a chunk ---------------------------------------------- *)
(* the part of chunk [d] that belongs to messages completed by feeding it to [l] *)
Definition valid_prefix (l : loader) (d : bytes) : bytes :=
  let l1 := mkLoader (l_buf l ++ d) (l_corrupted l) (l_reason l) (l_msgs l) (l_fds l) (l_max l) in
  firstn (eaten (S (length (l_buf l1))) l1 - length (l_buf l)) d.

Lemma valid_prefix_is_prefix l d : exists rest, d = valid_prefix l d ++ rest.
Proof. unfold valid_prefix. eexists. symmetry. apply firstn_skipn. Qed.

(* nothing eaten: no message *)
Lemma eaten_zero f l : eaten f l = 0%nat -> l_msgs (queue_messages f l) = l_msgs l /\ (l_corrupted l = false -> l_fds (queue_messages f l) = l_fds l).
Proof.
  destruct f; [intros _; split; reflexivity|]. unfold eaten. rewrite qm_S.
  destruct (l_corrupted l); [split; reflexivity|].
  destruct (nlen (l_buf l) <? DBUS_MINIMUM_HEADER_SIZE); [split; reflexivity|].
  destruct (have_message (l_max l) (l_buf l)) as [r|le fl hl bl c] eqn:Hh; [split; reflexivity|].
  destruct c; [|split; reflexivity].
  destruct (load_message le fl hl bl (l_fds l) (l_buf l)) as [m|r]; [|split; reflexivity].
  intros He. exfalso.
  set (l1 := mkLoader _ _ _ _ _ _) in He. destruct (qm_buf_suffix f l1) as [p Hp].
  pose proof (f_equal (@length _) Hp) as E. rewrite app_length in E. cbn [l1 l_buf] in E. rewrite skipn_length in E.
  pose proof (have_ok_hl _ _ _ _ _ _ _ Hh). pose proof (have_ok_inv _ _ _ _ _ _ _ Hh) as [_ Hc]. symmetry in Hc. unfold nlen in Hc. lia.
Qed.

(* the first message eaten is the one announced by the fixed header *)
Lemma eaten_first f l : (0 < eaten (S f) l)%nat ->
  l_corrupted l = false /\ (16 <= length (l_buf l))%nat /\
  exists le fl hl bl m, have_message (l_max l) (l_buf l) = HaveOk le fl hl bl true /\
                        load_message le fl hl bl (l_fds l) (l_buf l) = inl m /\ (N.to_nat (hl + bl) <= eaten (S f) l)%nat.
Proof.
  unfold eaten. rewrite qm_S.
  destruct (l_corrupted l); [lia|].
  destruct (nlen (l_buf l) <? DBUS_MINIMUM_HEADER_SIZE) eqn:Hs; [lia|].
  destruct (have_message (l_max l) (l_buf l)) as [r|le fl hl bl c] eqn:Hh; [cbn [l_buf]; lia|].
  destruct c; [|lia].
  destruct (load_message le fl hl bl (l_fds l) (l_buf l)) as [m|r] eqn:Hl; [|cbn [l_buf]; lia].
  intros _. split; [reflexivity|]. split; [unfold nlen in Hs; change DBUS_MINIMUM_HEADER_SIZE with 16 in Hs; lia|].
  exists le, fl, hl, bl, m. split; [reflexivity|]. split; [exact Hl|].
  set (l1 := mkLoader _ _ _ _ _ _). destruct (qm_buf_suffix f l1) as [p Hp].
  pose proof (f_equal (@length _) Hp) as E. rewrite app_length in E. cbn [l1 l_buf] in E. rewrite skipn_length in E.
  pose proof (have_ok_inv _ _ _ _ _ _ _ Hh) as [_ Hc]. symmetry in Hc. unfold nlen in Hc. lia.
Qed.

Lemma loader_eta l : mkLoader (l_buf l) (l_corrupted l) (l_reason l) (l_msgs l) (l_fds l) (l_max l) = l.
Proof. destruct l. reflexivity. Qed.

(* from a loader at rest, bytes are eaten either not at all or beyond the old buffer *)
Lemma at_rest_eaten l d :
  at_rest l ->
  let l1 := mkLoader (l_buf l ++ d) (l_corrupted l) (l_reason l) (l_msgs l) (l_fds l) (l_max l) in
  let e := eaten (S (length (l_buf l1))) l1 in
  e = 0%nat \/ (length (l_buf l) <= e)%nat.
Proof.
  intros (Hcor & Hm & Hrest) l1 e.
  destruct (Nat.eq_dec e 0) as [|Hne]; [left; assumption|right].
  destruct (eaten_first (length (l_buf l1)) l1 ltac:(fold e; lia)) as (_ & H16 & le & fl & hl & bl & m & Hh & Hl & Hge). fold e in Hge.
  cbn [l1 l_buf l_max l_fds] in Hh, Hl.
  (* what does the loader at rest say about its own buffer? *)
  specialize (Hrest 1%nat). rewrite qm_S, Hcor in Hrest.
  destruct (nlen (l_buf l) <? DBUS_MINIMUM_HEADER_SIZE) eqn:Hs.
  { pose proof (have_ok_hl _ _ _ _ _ _ _ Hh). unfold nlen in Hs. change DBUS_MINIMUM_HEADER_SIZE with 16 in Hs. lia. }
  assert (H16' : (16 <= length (l_buf l))%nat). { unfold nlen in Hs. change DBUS_MINIMUM_HEADER_SIZE with 16 in Hs. lia. }
  rewrite (have_message_app (l_max l) (l_buf l) d H16') in Hh.
  destruct (have_message (l_max l) (l_buf l)) as [r|le' fl' hl' bl' c'] eqn:Hh0; [discriminate|].
  inversion Hh. subst le' fl' hl' bl'.
  destruct c'.
  - (* complete in the old buffer: then the loader at rest would have loaded it or be corrupted *)
    destruct (load_message le fl hl bl (l_fds l) (l_buf l)) as [m0|r0].
    + cbn [queue_messages] in Hrest. apply (f_equal l_msgs) in Hrest. cbn [l_msgs] in Hrest. rewrite Hm in Hrest. discriminate.
    + apply (f_equal l_corrupted) in Hrest. cbn [l_corrupted] in Hrest. congruence.
  - pose proof (have_ok_inv _ _ _ _ _ _ _ Hh0) as [_ Hc]. unfold nlen in Hc. lia.
Qed.

Section ValidPrefix.

  Theorem valid_prefix_feed l d :
    at_rest l ->
    l_msgs (feed l (valid_prefix l d) 0) = l_msgs (feed l d 0) /\ l_corrupted (feed l (valid_prefix l d) 0) = false.
  Proof.
    intros Hr. pose proof Hr as (Hcor & Hm & Hrest).
    pose proof (at_rest_eaten l d Hr) as He. cbn zeta in He.
    unfold feed. rewrite !N.add_0_r. unfold valid_prefix.
    set (l1 := mkLoader (l_buf l ++ d) (l_corrupted l) (l_reason l) (l_msgs l) (l_fds l) (l_max l)) in *.
    set (f := S (length (l_buf l1))) in *.
    set (e := eaten f l1) in *.
    destruct He as [He|He].
    - (* nothing eaten *)
      rewrite He. cbn [Nat.sub firstn]. rewrite app_nil_r, loader_eta, Hrest.
      destruct (eaten_zero f l1 He) as [E _]. rewrite E. cbn [l1 l_msgs]. split; [reflexivity|exact Hcor].
    - pose proof (prefix_loads f l1 ltac:(unfold f; lia) Hcor) as (H1 & H2 & _). fold e in H1, H2.
      assert (E : l_buf l ++ firstn (e - length (l_buf l)) d = firstn e (l_buf l1)).
      { cbn [l1 l_buf]. rewrite firstn_app. rewrite (@firstn_all2 _ e (l_buf l)) by lia. reflexivity. }
      set (lt := mkLoader (l_buf l ++ firstn (e - length (l_buf l)) d) (l_corrupted l) (l_reason l) (l_msgs l) (l_fds l) (l_max l)).
      assert (Elt : lt = with_buf l1 (firstn e (l_buf l1))). { unfold lt, with_buf. rewrite E. reflexivity. }
      assert (Hfuel : queue_messages (S (length (l_buf lt))) lt = queue_messages f lt).
      { apply qm_fuel; [lia|]. unfold f. cbn [lt l1 l_buf]. rewrite !app_length, firstn_length. lia. }
      rewrite Hfuel, Elt. split; assumption.
  Qed.
End ValidPrefix.

(* ---- bus level ---------------------------------------------------------------- *)
Section Iso.
  Context {A S O : Type}.
  Variable P : ops A S O.
  Variable cf : cfg.

  (* every loader in the table is at rest (and in particular not corrupted) *)
  Definition Rest (st : state A S) : Prop := forall x, In x (s_conns st) -> at_rest (c_loader x).

  Lemma update_in' (l : list (conn A)) x z : In z (update_conn l x) -> z = x \/ In z l.
  Proof.
    induction l as [|y r IH]; cbn [update_conn]; [intros []|].
    destruct (c_id y =? c_id x); intros [<-|H]; auto; [right; right; exact H | right; left; reflexivity | destruct (IH H); auto; right; right; assumption].
  Qed.

  Lemma remove_in (l : list (conn A)) c z : In z (remove_conn l c) -> In z l.
  Proof. unfold remove_conn. intros H. apply filter_In in H. tauto. Qed.

  Lemma drop_rest (st : state A S) x : Rest st -> Rest (fst (drop P st x)).
  Proof. intros H. unfold drop. destruct (o_disconnect P _ _ _). cbn [fst]. intros z Hz. apply H. cbn [s_conns] in Hz. eapply remove_in; eassumption. Qed.

  Lemma msg_part_rest (st : state A S) x d : Rest st -> Rest (fst (msg_part P st x d)).
  Proof.
    intros H. unfold msg_part. destruct (dispatch_all P _ _ _ _) as [[[k o] act] cl].
    match goal with |- context [update_conn _ ?y] => set (x' := y) end.
    assert (Hdrop : Rest (fst (drop P (mkSt (s_now st) (update_conn (s_conns st) x') k) x'))).
    { unfold drop. destruct (o_disconnect P _ _ _). cbn [fst s_conns]. rewrite remove_update.
      intros z Hz. apply H. eapply remove_in; eassumption. }
    destruct (l_corrupted (feed (c_loader x) d 0)) eqn:Hc; cbn [orb].
    - destruct (drop P _ x'). exact Hdrop.
    - destruct cl.
      + destruct (drop P _ x'). exact Hdrop.
      + cbn [fst]. intros z Hz. cbn [s_conns] in Hz. apply update_in' in Hz. destruct Hz as [->|Hz]; [|apply H; exact Hz].
        cbn [x' c_loader]. pose proof (feed_pop_at_rest (c_loader x) d Hc) as R. unfold set_msgs in R. rewrite Hc in R. exact R.
  Qed.

  Lemma auth_part_rest (st : state A S) x a d w : Rest st -> In x (s_conns st) -> Rest (fst (auth_part P st x a d w)).
  Proof.
    intros H Hx. unfold auth_part. destruct (o_auth_feed P a d) as [[a' reply] v].
    destruct (negb w && _); [apply drop_rest; exact H|].
    destruct v as [| |u].
    - cbn [fst]. intros z Hz. cbn [s_conns] in Hz. apply update_in' in Hz. destruct Hz as [->|Hz]; [cbn [c_loader]; apply H; exact Hx | apply H; exact Hz].
    - pose proof (drop_rest st x H) as Hd. destruct (drop P st x). exact Hd.
    - pose proof (msg_part_rest st (mkConn (c_id x) (c_since x) PMsg (c_loader x) (c_active x)) u H) as Hm. destruct (msg_part P st _ u). exact Hm.
  Qed.

  Lemma expire_list_in now (l : list (conn A)) k z : In z (fst (fst (expire_list P cf now l k))) -> In z l.
  Proof.
    revert k. induction l as [|x r IH]; intros k; cbn [expire_list]; [intros []|].
    destruct (c_active x).
    - specialize (IH k). destruct (expire_list P cf now r k) as [[kept k'] o]. cbn [fst] in *. intros [<-|Hz]; [left; reflexivity|right; apply IH; exact Hz].
    - destruct (auth_timeout cf <=? now - c_since x).
      + destruct (o_disconnect P k (c_id x) false) as [k1 o1]. specialize (IH k1). destruct (expire_list P cf now r k1) as [[kept k2] o2]. cbn [fst] in *. intros Hz. right. apply IH. exact Hz.
      + cbn [fst]. auto.
  Qed.

  Lemma expire_rest (st : state A S) : Rest st -> Rest (fst (expire P cf st)).
  Proof.
    intros H. unfold expire. pose proof (expire_list_in (s_now st) (s_conns st) (s_core st)) as Hin.
    destruct (expire_list P cf (s_now st) (s_conns st) (s_core st)) as [[kept k] o]. cbn [fst] in *. intros z Hz. apply H. apply Hin. exact Hz.
  Qed.

  Theorem step_rest (st : state A S) e : Rest st -> Rest (fst (step P cf st e)).
  Proof.
    intros H. destruct e as [c|c d w|c|d]; cbn [step].
    - unfold accept. destruct (negb (accept_enabled cf st)); [exact H|]. destruct (find_conn (s_conns st) c); [exact H|].
      apply expire_rest. intros z Hz. cbn [s_conns] in Hz. apply in_app_iff in Hz. destruct Hz as [Hz|[<-|[]]]; [apply H; exact Hz|].
      cbn [c_loader]. apply loader_new_at_rest.
    - unfold read. destruct (find_conn (s_conns st) c) as [x|] eqn:Hf; [|exact H].
      pose proof (find_conn_in _ _ _ Hf) as Hx.
      destruct (c_phase x) as [|a|].
      + destruct d as [|b rest]; [exact H|]. destruct (b =? 0); [apply auth_part_rest; assumption|apply drop_rest; exact H].
      + apply auth_part_rest; assumption.
      + apply msg_part_rest; exact H.
    - destruct (find_conn (s_conns st) c); [apply drop_rest; exact H|exact H].
    - pose proof (expire_rest (mkSt (s_now st + d) (s_conns st) (s_core st)) H) as H1. destruct (expire P cf _) as [st1 o1]. cbn [fst] in H1.
      destruct (o_tick P (s_core st1) d) as [k o2]. cbn [fst]. exact H1.
  Qed.

  Theorem run_rest (st : state A S) h : Rest st -> Rest (fst (run P cf st h)).
  Proof.
    revert st. induction h as [|e r IH]; intros st H; cbn [run]; [exact H|].
    pose proof (step_rest st e H) as H1. destruct (step P cf st e) as [st1 o1]. specialize (IH st1 H1). destruct (run P cf st1 r). exact IH.
  Qed.

  Lemma Rest_init (k : S) : Rest (init k : state A S).
  Proof. intros x []. Qed.

  (* ---- once out of the table, a connection's remaining input changes nothing ---- *)
  Definition strip (c : N) (h : list event) : list event := filter (fun e => negb (about c e)) h.
  Definition no_accept (c : N) (h : list event) : Prop := forall e, In e h -> e <> EAccept c.

  Lemma step_keeps_absent (st : state A S) c e : find_conn (s_conns st) c = None -> e <> EAccept c -> find_conn (s_conns (fst (step P cf st e))) c = None.
  Proof.
    intros Hn Hne.
    assert (Hsubset : forall st' : state A S, (forall z, In z (s_conns st') -> In z (s_conns st) \/ c_id z <> c) -> find_conn (s_conns st') c = None).
    { intros st' Hs. unfold find_conn. destruct (find (fun x => c_id x =? c) (s_conns st')) as [z|] eqn:E; [|reflexivity].
      apply find_some in E. destruct E as [Hin Hid]. apply N.eqb_eq in Hid. destruct (Hs z Hin) as [Hz|Hz]; [|contradiction].
      exfalso. unfold find_conn in Hn. pose proof (find_none _ _ Hn z Hz) as Hf. cbn in Hf. rewrite Hid, N.eqb_refl in Hf. discriminate. }
    apply Hsubset. clear Hsubset.
    assert (Hdrop : forall (s0 : state A S) y, (forall z, In z (s_conns s0) -> In z (s_conns st) \/ c_id z <> c) -> forall z, In z (s_conns (fst (drop P s0 y))) -> In z (s_conns st) \/ c_id z <> c).
    { intros s0 y Hs z Hz. unfold drop in Hz. destruct (o_disconnect P _ _ _). cbn [fst s_conns] in Hz. apply remove_in in Hz. apply Hs. exact Hz. }
    assert (Hmsg : forall x d, c_id x <> c -> forall z, In z (s_conns (fst (msg_part P st x d))) -> In z (s_conns st) \/ c_id z <> c).
    { intros x d Hx z Hz. unfold msg_part in Hz. destruct (dispatch_all P _ _ _ _) as [[[k o] act] cl].
      match type of Hz with context [update_conn _ ?y] => set (x' := y) in * end.
      assert (Hup : forall z, In z (update_conn (s_conns st) x') -> In z (s_conns st) \/ c_id z <> c).
      { intros z0 Hz0. apply update_in' in Hz0. destruct Hz0 as [->|Hz0]; [right; exact Hx|left; exact Hz0]. }
      destruct (l_corrupted _ || cl).
      - pose proof (Hdrop (mkSt (s_now st) (update_conn (s_conns st) x') k) x' Hup z) as Hd. destruct (drop P _ x'). apply Hd. exact Hz.
      - apply Hup. exact Hz. }
    assert (Hauth : forall x a d w, c_id x <> c -> forall z, In z (s_conns (fst (auth_part P st x a d w))) -> In z (s_conns st) \/ c_id z <> c).
    { intros x a d w Hx z Hz. unfold auth_part in Hz. destruct (o_auth_feed P a d) as [[a' reply] v].
      destruct (negb w && _); [apply (Hdrop st x (fun z H => or_introl H) z Hz)|].
      destruct v as [| |u].
      - cbn [fst s_conns] in Hz. apply update_in' in Hz. destruct Hz as [->|Hz]; [right; exact Hx|left; exact Hz].
      - pose proof (Hdrop st x (fun z H => or_introl H) z) as Hd. destruct (drop P st x). apply Hd. exact Hz.
      - pose proof (Hmsg (mkConn (c_id x) (c_since x) PMsg (c_loader x) (c_active x)) u Hx z) as Hm. destruct (msg_part P st _ u). apply Hm. exact Hz. }
    destruct e as [c'|c' d w|c'|d]; cbn [step].
    - unfold accept. destruct (negb (accept_enabled cf st)); [auto|]. destruct (find_conn (s_conns st) c'); [auto|].
      intros z Hz. unfold expire in Hz.
      pose proof (expire_list_in (s_now st) (s_conns st ++ [mkConn c' (s_now st) PCred (loader_for cf) false]) (s_core st) z) as Hin.
      cbn [s_now s_conns s_core] in Hz. destruct (expire_list P cf _ _ _) as [[kept k] o]. cbn [fst s_conns] in *.
      apply Hin in Hz. apply in_app_iff in Hz. destruct Hz as [Hz|[<-|[]]]; [left; exact Hz|right]. cbn [c_id]. intros ->. apply Hne. reflexivity.
    - unfold read. destruct (find_conn (s_conns st) c') as [x|] eqn:Hf; [|auto].
      assert (Hx : c_id x <> c). { rewrite (find_conn_id _ _ _ Hf). intros ->. congruence. }
      destruct (c_phase x) as [|a|].
      + destruct d as [|b rest]; [auto|]. destruct (b =? 0); [apply Hauth; exact Hx | apply (Hdrop st x (fun z H => or_introl H))].
      + apply Hauth; exact Hx.
      + apply Hmsg; exact Hx.
    - destruct (find_conn (s_conns st) c'); [apply (Hdrop st _ (fun z H => or_introl H))|auto].
    - intros z Hz. unfold expire in Hz. pose proof (expire_list_in (s_now st + d) (s_conns st) (s_core st) z) as Hin.
      cbn [s_now s_conns s_core] in Hz. destruct (expire_list P cf _ _ _) as [[kept k] o]. cbn [fst s_conns s_core] in *.
      destruct (o_tick P k d) as [k2 o2]. cbn [fst s_conns] in Hz. left. apply Hin. exact Hz.
  Qed.

  (* C10: "nothing of the invalid message (nor anything after it) is dispatched" — bus level:
     whatever a connection that has been dropped still sends is ignored *)
  Theorem after_gone (st : state A S) c h :
    find_conn (s_conns st) c = None -> no_accept c h -> run P cf st h = run P cf st (strip c h).
  Proof.
    revert st. induction h as [|e r IH]; intros st Hn Hna; [reflexivity|].
    assert (Hna' : no_accept c r) by (intros e' He'; apply Hna; right; exact He').
    unfold strip in *. cbn [filter]. destruct (about c e) eqn:Ha; cbn [negb].
    - cbn [run]. rewrite (absent_noop P cf st c e Hn Ha). rewrite (IH st Hn Hna'). destruct (run P cf st (filter _ r)). reflexivity.
    - cbn [run]. pose proof (step_keeps_absent st c e Hn (Hna e (or_introl eq_refl))) as Hn'.
      destruct (step P cf st e) as [st1 o1]. cbn [fst] in Hn'. rewrite (IH st1 Hn' Hna'). reflexivity.
  Qed.

  (* ---- the step depends on the bytes only through the loader's outcome ---------- *)
  Theorem same_outcome_same_step (st : state A S) c x d1 d2 w1 w2 :
    find_conn (s_conns st) c = Some x -> c_phase x = PMsg ->
    outcome (feed (c_loader x) d1 0) = outcome (feed (c_loader x) d2 0) ->
    l_corrupted (feed (c_loader x) d1 0) = true ->
    step P cf st (ERead c d1 w1) = step P cf st (ERead c d2 w2).
  Proof.
    intros Hf Hp Ho Hc. unfold outcome in Ho. inversion Ho as [[Hc2 Hm]]. rewrite Hc in Hc2. symmetry in Hc2.
    destruct (invalid_disconnects_sender_only P cf st c d1 w1 x Hf Hp Hc) as (k1 & o1 & act & cl & k2 & o2 & Hd1 & Ho1 & E1).
    destruct (invalid_disconnects_sender_only P cf st c d2 w2 x Hf Hp Hc2) as (k1' & o1' & act' & cl' & k2' & o2' & Hd2 & Ho2 & E2).
    rewrite <- Hm in Hd2. rewrite Hd1 in Hd2. inversion Hd2. subst k1' o1' act' cl'. rewrite Ho1 in Ho2. inversion Ho2. subst k2' o2'.
    rewrite E1, E2. reflexivity.
  Qed.

  (* ---- isolation ------------------------------------------------------------------ *)
  Section Bytes.

    (* one corrupting read = the read of its valid prefix, then EOF *)
    Lemma corrupt_read_split (st : state A S) c d w x :
      find_conn (s_conns st) c = Some x -> c_phase x = PMsg -> at_rest (c_loader x) ->
      l_corrupted (feed (c_loader x) d 0) = true ->
      run P cf st [ERead c d w] = run P cf st [ERead c (valid_prefix (c_loader x) d) w; EEof c].
    Proof.
      intros Hf Hp Hr Hc. pose proof (find_conn_id _ _ _ Hf) as Hid.
      destruct (invalid_disconnects_sender_only P cf st c d w x Hf Hp Hc) as (k1 & o1 & act & cl & k2 & o2 & Hd & Ho & E).
      destruct (valid_prefix_feed (c_loader x) d Hr) as [Hvm Hvc].
      cbn [run]. rewrite E.
      (* the sanitised read *)
      cbn [step]. unfold read at 1. rewrite Hf, Hp. unfold msg_part. rewrite Hid, Hvm, Hd, Hvc. cbn [orb].
      match goal with |- context [update_conn _ ?y] => set (x' := y) end.
      destruct cl.
      - (* the core closed it already: EOF finds nothing *)
        unfold drop. cbn [s_core c_id c_active s_now s_conns x']. rewrite Ho.
        pose proof (remove_update (s_conns st) x') as R. cbn [x' c_id] in R. rewrite R.
        cbn [step s_conns]. rewrite find_remove_same. cbn [app]. rewrite ?app_nil_r, <- ?app_assoc. reflexivity.
      - (* still there: EOF drops it *)
        cbn [step s_conns]. assert (Hf' : find_conn (update_conn (s_conns st) x') c = Some x').
        { pose proof (find_update_same (s_conns st) x' x) as F. cbn [x' c_id] in F. apply F. exact Hf. }
        rewrite Hf'. unfold drop. cbn [s_core c_id c_active s_now s_conns x']. rewrite Ho.
        pose proof (remove_update (s_conns st) x') as R. cbn [x' c_id] in R. rewrite R.
        rewrite !app_nil_r. reflexivity.
    Qed.

    (* C10_isolation on states: *)
    Theorem isolation_from (st : state A S) c d w x h2 :
      Rest st -> find_conn (s_conns st) c = Some x -> c_phase x = PMsg ->
      l_corrupted (feed (c_loader x) d 0) = true -> no_accept c h2 ->
      run P cf st (ERead c d w :: h2) = run P cf st (ERead c (valid_prefix (c_loader x) d) w :: EEof c :: strip c h2).
    Proof.
      intros HR Hf Hp Hc Hna.
      pose proof (corrupt_read_split st c d w x Hf Hp (HR x (find_conn_in _ _ _ Hf)) Hc) as Hs.
      change (ERead c d w :: h2) with ([ERead c d w] ++ h2).
      change (ERead c (valid_prefix (c_loader x) d) w :: EEof c :: strip c h2) with ([ERead c (valid_prefix (c_loader x) d) w; EEof c] ++ strip c h2).
      rewrite !run_app. rewrite <- Hs.
      destruct (invalid_sender_gone P cf st c d w x Hf Hp Hc) as (Hgone & _).
      cbn [run]. destruct (step P cf st (ERead c d w)) as [st1 o1]. cbn [fst] in Hgone. rewrite app_nil_r.
      rewrite (after_gone st1 c h2 Hgone Hna). reflexivity.
    Qed.

    (* C10_isolation: every history from the initial state; the hostile connection c
       may have done anything before (h1), other connections anything before and after *)
    Theorem isolation (k : S) h1 c d w x h2 :
      let st := fst (run P cf (init k) h1) in
      find_conn (s_conns st) c = Some x -> c_phase x = PMsg ->
      l_corrupted (feed (c_loader x) d 0) = true -> no_accept c h2 ->
      run P cf (init k) (h1 ++ ERead c d w :: h2) =
      run P cf (init k) (h1 ++ ERead c (valid_prefix (c_loader x) d) w :: EEof c :: strip c h2).
    Proof.
      intros st Hf Hp Hc Hna. rewrite !run_app.
      pose proof (run_rest (init k) h1 (Rest_init k)) as HR. fold st in HR.
      destruct (run P cf (init k) h1) as [st0 o0] eqn:E. cbn [fst] in st. subst st.
      rewrite (isolation_from st0 c d w x h2 HR Hf Hp Hc Hna). reflexivity.
    Qed.
  End Bytes.

  (* after the step that found c's stream invalid, nothing c sends matters any more *)
  Theorem nothing_after_corruption (st : state A S) c d w x h2 :
    find_conn (s_conns st) c = Some x -> c_phase x = PMsg -> l_corrupted (feed (c_loader x) d 0) = true -> no_accept c h2 ->
    let st' := fst (step P cf st (ERead c d w)) in
    run P cf st' h2 = run P cf st' (strip c h2).
  Proof.
    intros Hf Hp Hc Hna st'. destruct (invalid_sender_gone P cf st c d w x Hf Hp Hc) as (Hgone & _).
    apply after_gone; assumption.
  Qed.
End Iso.
