(* C10 — isolation: what a hostile byte stream can make the bus do is what its valid
   message prefix followed by a plain disconnect makes it do.

   - after_gone            : once a connection is out of the table, its remaining
                             input changes nothing (all later events of it are no-ops);
   - same_outcome_same_step: the step depends on the bytes only through the loader's
                             outcome (messages, corrupted?) — two streams that differ
                             only in their invalid part are indistinguishable;
   - valid_prefix / prefix_loads (under load_local, the hypothesis of C11's chunking
                             theorem): feeding only the bytes of the messages that were
                             loaded gives the same messages and no corruption;
   - isolation             : run (h1 ++ ERead c s :: h2) = run (h1 ++ ERead c (valid prefix of s) :: EEof c :: h2 without c). *)
From DV Require Import Lib.Base Wire.Message Proofs.LoaderProofs Robust.Bus Proofs.RobustBase.
From Coq Require Import ZArith ZifyBool ZifyN ZifyNat Arith.
Local Open Scope N_scope.

(* ---- loader: the consumed bytes alone load the same messages --------------- *)
Definition with_buf (l : loader) (b : bytes) : loader := mkLoader b (l_corrupted l) (l_reason l) (l_msgs l) (l_fds l) (l_max l).

(* number of buffer bytes that queue_messages turns into messages *)
Definition eaten (f : nat) (l : loader) : nat := (length (l_buf l) - length (l_buf (queue_messages f l)))%nat.

Lemma firstn_app_exact {X} (a b : list X) n : n = length a -> firstn n (a ++ b) = a.
Proof. intros ->. rewrite firstn_app, Nat.sub_diag, firstn_all. cbn. apply app_nil_r. Qed.

Lemma qm_buf_suffix : forall f l, exists p, l_buf l = p ++ l_buf (queue_messages f l).
Proof.
  induction f as [|f IH]; intros l; [exists []; reflexivity|]. rewrite qm_S.
  destruct (l_corrupted l); [exists []; reflexivity|].
  destruct (nlen (l_buf l) <? DBUS_MINIMUM_HEADER_SIZE); [exists []; reflexivity|].
  destruct (have_message (l_max l) (l_buf l)) as [r|le fl hl bl c]; [exists []; reflexivity|].
  destruct c; [|exists []; reflexivity].
  destruct (load_message le fl hl bl (l_fds l) (l_buf l)) as [m|r]; [|exists []; reflexivity].
  match goal with |- context [queue_messages f ?l1] => destruct (IH l1) as [p Hp] end. cbn [l_buf] in Hp.
  exists (firstn (N.to_nat (hl + bl)) (l_buf l) ++ p). rewrite <- app_assoc, <- Hp. symmetry. apply firstn_skipn.
Qed.

Lemma qm_empty_buf f l : l_buf l = [] -> queue_messages f l = l.
Proof. intros H. destruct f; [reflexivity|]. rewrite qm_S. destruct (l_corrupted l); [reflexivity|]. rewrite H. reflexivity. Qed.

Section Prefix.
  Hypothesis Hlocal : load_local.

  Lemma load_local_trunc le fl hl bl fds d n m :
    hl + bl <= nlen d -> (N.to_nat (hl + bl) <= n)%nat ->
    load_message le fl hl bl fds d = inl m -> load_message le fl hl bl fds (firstn n d) = inl m.
  Proof.
    intros Hfit Hn Hl.
    set (d0 := firstn (N.to_nat (hl + bl)) d).
    assert (Hd0 : hl + bl <= nlen d0). { unfold d0, nlen. rewrite firstn_length. unfold nlen in Hfit. lia. }
    (* d = d0 ++ rest, firstn n d = d0 ++ rest' *)
    assert (E1 : d = d0 ++ skipn (N.to_nat (hl + bl)) d) by (symmetry; apply firstn_skipn).
    assert (E2 : firstn n d = d0 ++ firstn (n - N.to_nat (hl + bl)) (skipn (N.to_nat (hl + bl)) d)).
    { unfold d0. rewrite <- (firstn_skipn (N.to_nat (hl + bl)) (firstn n d)). f_equal.
      - rewrite firstn_firstn. f_equal. lia.
      - rewrite skipn_firstn_comm. reflexivity. }
    pose proof (Hlocal le fl hl bl fds d0 (skipn (N.to_nat (hl + bl)) d) Hd0) as H1. rewrite <- E1, Hl in H1.
    destruct (load_message le fl hl bl fds d0) as [m0|r0] eqn:Hl0; [|contradiction]. subst m0.
    pose proof (Hlocal le fl hl bl fds d0 (firstn (n - N.to_nat (hl + bl)) (skipn (N.to_nat (hl + bl)) d)) Hd0) as H2.
    rewrite <- E2, Hl0 in H2. destruct (load_message le fl hl bl fds (firstn n d)) as [m2|r2]; [subst m2; reflexivity|contradiction].
  Qed.

  (* on the eaten bytes alone, queue_messages loads exactly the same messages, does not
     get corrupted, and leaves an empty buffer *)
  Lemma prefix_loads : forall f l, (length (l_buf l) < f)%nat -> l_corrupted l = false ->
    l_msgs (queue_messages f (with_buf l (firstn (eaten f l) (l_buf l)))) = l_msgs (queue_messages f l) /\
    l_corrupted (queue_messages f (with_buf l (firstn (eaten f l) (l_buf l)))) = false /\
    l_fds (queue_messages f (with_buf l (firstn (eaten f l) (l_buf l)))) = l_fds (queue_messages f l).
  Proof.
    induction f as [|f IH]; intros l Hf Hcor; [lia|].
    unfold eaten. rewrite (qm_S f l). rewrite Hcor.
    (* in every case but "message loaded" nothing is eaten and the truncated buffer is empty *)
    assert (Hzero : forall l0 : loader, l_buf l0 = l_buf l -> l_msgs l0 = l_msgs l -> l_fds l0 = l_fds l ->
               l_msgs (queue_messages (S f) (with_buf l (firstn (length (l_buf l) - length (l_buf l0)) (l_buf l)))) = l_msgs l0 /\
               l_corrupted (queue_messages (S f) (with_buf l (firstn (length (l_buf l) - length (l_buf l0)) (l_buf l)))) = false /\
               l_fds (queue_messages (S f) (with_buf l (firstn (length (l_buf l) - length (l_buf l0)) (l_buf l)))) = l_fds l0).
    { intros l0 Hb Hm Hfd. rewrite Hb, Nat.sub_diag. cbn [firstn]. rewrite qm_empty_buf by reflexivity.
      unfold with_buf. cbn [l_msgs l_corrupted l_fds]. auto. }
    destruct (nlen (l_buf l) <? DBUS_MINIMUM_HEADER_SIZE) eqn:Hshort; [apply Hzero; reflexivity|].
    assert (H16 : (16 <= length (l_buf l))%nat). { unfold nlen in Hshort. change DBUS_MINIMUM_HEADER_SIZE with 16 in Hshort. lia. }
    destruct (have_message (l_max l) (l_buf l)) as [r|le fl hl bl cpl] eqn:Hh; [apply Hzero; reflexivity|].
    destruct cpl; [|apply Hzero; reflexivity].
    destruct (load_message le fl hl bl (l_fds l) (l_buf l)) as [m|r] eqn:Hl; [|apply Hzero; reflexivity].
    pose proof (have_ok_hl _ _ _ _ _ _ _ Hh) as Hhl.
    pose proof (have_ok_inv _ _ _ _ _ _ _ Hh) as [Hhl' Hc]. symmetry in Hc.
    assert (Hfit : hl + bl <= nlen (l_buf l)) by lia.
    set (l1 := mkLoader (skipn (N.to_nat (hl + bl)) (l_buf l)) false V_VALID (l_msgs l ++ [m]) (l_fds l - m_nfds m) (l_max l)).
    assert (Hlen1 : (length (l_buf l1) < f)%nat).
    { cbn [l1 l_buf]. rewrite skipn_length. unfold nlen in Hfit. lia. }
    specialize (IH l1 Hlen1 eq_refl). unfold eaten in IH.
    destruct (qm_buf_suffix f l1) as [p Hp].
    set (k1 := (length (l_buf l1) - length (l_buf (queue_messages f l1)))%nat) in *.
    assert (Hk1 : k1 = length p). { unfold k1. rewrite Hp at 1. rewrite app_length. lia. }
    (* the truncated buffer of l is the message followed by the truncated buffer of l1 *)
    set (n := (length (l_buf l) - length (l_buf (queue_messages f l1)))%nat).
    assert (HpL : (length (l_buf l) - N.to_nat (hl + bl) = length p + length (l_buf (queue_messages f l1)))%nat).
    { pose proof (f_equal (@length _) Hp) as E. rewrite app_length in E. cbn [l1 l_buf] in E. rewrite skipn_length in E. exact E. }
    assert (Hn : n = (N.to_nat (hl + bl) + k1)%nat).
    { unfold n. rewrite Hk1. unfold nlen in Hfit. lia. }
    assert (Htr : firstn n (l_buf l) = firstn (N.to_nat (hl + bl)) (l_buf l) ++ firstn k1 (l_buf l1)).
    { rewrite Hn. rewrite firstn_add_skipn. reflexivity. }
    assert (Hlen_tr : length (firstn n (l_buf l)) = n). { apply firstn_length_le. unfold n. lia. }
    assert (Hshort' : (nlen (firstn n (l_buf l)) <? DBUS_MINIMUM_HEADER_SIZE) = false).
    { unfold nlen. rewrite Hlen_tr. change DBUS_MINIMUM_HEADER_SIZE with 16. lia. }
    (* framing decision: same first 16 bytes *)
    assert (Hh' : have_message (l_max l) (firstn n (l_buf l)) = HaveOk le fl hl bl true).
    { assert (Esplit : l_buf l = firstn n (l_buf l) ++ skipn n (l_buf l)) by (symmetry; apply firstn_skipn).
      pose proof (have_message_app (l_max l) (firstn n (l_buf l)) (skipn n (l_buf l))) as Ha.
      rewrite <- Esplit in Ha. rewrite Hh in Ha. specialize (Ha ltac:(rewrite Hlen_tr; lia)).
      destruct (have_message (l_max l) (firstn n (l_buf l))) as [r'|le' fl' hl' bl' c'] eqn:Hh2; [discriminate|].
      inversion Ha. subst le' fl' hl' bl'.
      pose proof (have_ok_inv _ _ _ _ _ _ _ Hh2) as [_ Hc2]. rewrite Hc2. f_equal. unfold nlen. rewrite Hlen_tr. lia. }
    (* the next loader is the truncated l1 *)
    assert (Hsk : skipn (N.to_nat (hl + bl)) (firstn n (l_buf l)) = firstn k1 (l_buf l1)).
    { rewrite Htr. rewrite skipn_app. rewrite firstn_length_le by (unfold nlen in Hfit; lia). rewrite Nat.sub_diag. cbn [skipn].
      rewrite skipn_all2 by (rewrite firstn_length; lia). reflexivity. }
    assert (Estep : queue_messages (S f) (with_buf l (firstn n (l_buf l))) = queue_messages f (with_buf l1 (firstn k1 (l_buf l1)))).
    { rewrite qm_S. unfold with_buf. cbn [l_corrupted l_buf l_max l_fds l_msgs]. rewrite Hcor, Hshort', Hh'.
      rewrite (load_local_trunc le fl hl bl (l_fds l) (l_buf l) n m Hfit ltac:(lia) Hl). rewrite Hsk. reflexivity. }
    rewrite Estep. exact IH.
  Qed.
End Prefix.

