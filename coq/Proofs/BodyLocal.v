(* Locality of the body validator model [vb] (Wire/Body.v): appending bytes
   after the end of the buffer does not change the verdict on a value that
   lies inside the buffer.

   A cursor [c] is extended by [y] with [ext y c].  For every cursor function
   [f] of the validator we prove
     W k f : a successful run keeps the cursor well formed, moves forward by at
             least [k] bytes, keeps [cpos + crem] and leaves the remaining data;
     L y f : if [f c = inl c'] then [f (ext y c) = inl (ext y c')]; if [f c]
             is an error then [f (ext y c)] is an error or ends strictly after
             the end of [c].
   Both are closed under sequencing, so the proofs about [vb] follow the
   combinator form of its equations (section "equations"). *)
From DV Require Import Lib.Base Gen.Tables Wire.Body Spec.SigSpec Proofs.BodyVbEq.
From Coq Require Import ZArith ZifyBool ZifyN ZifyNat Arith.
Local Open Scope N_scope.
Ltac Zify.zify_post_hook ::= Z.div_mod_to_equations.

(* ---- lists ------------------------------------------------------------------ *)
Lemma bl_nlen_app {A} (a b : list A) : nlen (a ++ b) = nlen a + nlen b.
Proof. unfold nlen. rewrite app_length. lia. Qed.

Lemma bl_nlen_cons {A} (x : A) l : nlen (x :: l) = nlen l + 1.
Proof. unfold nlen. cbn [length]. lia. Qed.

Lemma bl_skipn_skipn {A} : forall a b (l : list A), skipn b (skipn a l) = skipn (a + b) l.
Proof.
  induction a as [|a IH]; intros b l; [reflexivity|].
  destruct l as [|x l]; [rewrite !skipn_nil; reflexivity|]. cbn [skipn Nat.add]. apply IH.
Qed.

Lemma bl_skipn_app_le {A} n (l y : list A) : (n <= length l)%nat -> skipn n (l ++ y) = skipn n l ++ y.
Proof. intros H. rewrite skipn_app. replace (n - length l)%nat with 0%nat by lia. reflexivity. Qed.

Lemma bl_firstn_app_le {A} n (l y : list A) : (n <= length l)%nat -> firstn n (l ++ y) = firstn n l.
Proof. intros H. rewrite firstn_app. replace (n - length l)%nat with 0%nat by lia. cbn [firstn]. apply app_nil_r. Qed.

Lemma bl_nlen_skipn {A} n (l : list A) : nlen (skipn n l) = nlen l - N.of_nat n.
Proof. unfold nlen. rewrite skipn_length. lia. Qed.

(* ---- cursors ---------------------------------------------------------------- *)
Definition wfc (c : cursor) : Prop := crem c = nlen (cdat c).
Definition endp (c : cursor) : N := cpos c + crem c.
Definition ext (y : bytes) (c : cursor) : cursor := mkCur (cpos c) (crem c + nlen y) (cdat c ++ y).

(* [c'] is reached from [c] by consuming at least [k] bytes *)
Definition step (k : N) (c c' : cursor) : Prop :=
  wfc c' /\ cpos c + k <= cpos c' /\ endp c' = endp c /\
  cdat c' = skipn (N.to_nat (cpos c' - cpos c)) (cdat c).

Lemma wfc_ext y c : wfc c -> wfc (ext y c).
Proof. unfold wfc, ext. cbn [crem cdat]. rewrite bl_nlen_app. lia. Qed.

Lemma wfc_cur_of p d : wfc (cur_of p d).
Proof. reflexivity. Qed.

Lemma ext_cur_of y p d : ext y (cur_of p d) = cur_of p (d ++ y).
Proof. unfold ext, cur_of. cbn [cpos crem cdat]. rewrite bl_nlen_app. reflexivity. Qed.

Lemma cpos_ext y c : cpos (ext y c) = cpos c. Proof. reflexivity. Qed.
Lemma endp_ext y c : endp (ext y c) = endp c + nlen y.
Proof. unfold endp, ext. cbn [cpos crem]. lia. Qed.

Lemma step_refl c : wfc c -> step 0 c c.
Proof.
  intros H. repeat split; [exact H | lia |]. rewrite N.sub_diag. reflexivity.
Qed.

Lemma step_weaken k k' c c' : step k c c' -> k' <= k -> step k' c c'.
Proof. intros (H1 & H2 & H3 & H4) Hk. repeat split; try assumption. lia. Qed.

Lemma step_trans k1 k2 c c1 c2 : step k1 c c1 -> step k2 c1 c2 -> step (k1 + k2) c c2.
Proof.
  intros (A1 & A2 & A3 & A4) (B1 & B2 & B3 & B4). repeat split; [exact B1 | lia | congruence |].
  rewrite B4, A4, bl_skipn_skipn. f_equal. lia.
Qed.

Lemma step_crem k c c' : step k c c' -> crem c' + k <= crem c.
Proof. intros (H1 & H2 & H3 & H4). unfold endp in H3. lia. Qed.

(* ---- take1 ------------------------------------------------------------------ *)
Lemma take1_W c b c' : wfc c -> take1 c = Some (b, c') -> step 1 c c' /\ cpos c' = cpos c + 1.
Proof.
  unfold take1, wfc. destruct c as [p r l]. cbn [cpos crem cdat]. intros Hw H.
  destruct l as [|x l]; [discriminate|]. inversion H; subst. rewrite bl_nlen_cons in *.
  unfold step, wfc, endp. cbn [cpos crem cdat]. repeat split; try lia.
  replace (N.to_nat (p + 1 - p)) with 1%nat by lia. reflexivity.
Qed.

Lemma take1_ext y c b c' : wfc c -> take1 c = Some (b, c') -> take1 (ext y c) = Some (b, ext y c').
Proof.
  unfold take1, wfc, ext. destruct c as [p r l]. cbn [cpos crem cdat]. intros Hw H.
  destruct l as [|x l]; [discriminate|]. inversion H; subst. rewrite bl_nlen_cons. cbn [app cpos crem cdat].
  f_equal. f_equal. f_equal. lia.
Qed.

Lemma take1_none c : wfc c -> take1 c = None -> crem c = 0.
Proof.
  unfold take1, wfc. destruct c as [p r l]. cbn [cpos crem cdat]. intros Hw H.
  destruct l; [exact Hw | discriminate].
Qed.

Lemma take1_some c : wfc c -> crem c <> 0 -> exists b c', take1 c = Some (b, c').
Proof.
  unfold take1, wfc. destruct c as [p r l]. cbn [cpos crem cdat]. intros Hw H.
  destruct l as [|x l]; [cbn in Hw; lia|]. eexists _, _. reflexivity.
Qed.

(* ---- peek4 ------------------------------------------------------------------ *)
Lemma peek4_some c q : wfc c -> peek4 c = Some q -> 4 <= crem c.
Proof.
  unfold peek4, wfc. destruct c as [p r l]. cbn [cpos crem cdat]. intros Hw H.
  destruct l as [|b0 [|b1 [|b2 [|b3 l]]]]; try discriminate. rewrite Hw, !bl_nlen_cons. lia.
Qed.

Lemma peek4_ext y c q : peek4 c = Some q -> peek4 (ext y c) = Some q.
Proof.
  unfold peek4, ext. destruct c as [p r l]. cbn [cpos crem cdat].
  destruct l as [|b0 [|b1 [|b2 [|b3 l]]]]; try discriminate. intros H. exact H.
Qed.

Lemma peek4_none c : wfc c -> peek4 c = None -> crem c < 4.
Proof.
  unfold peek4, wfc. destruct c as [p r l]. cbn [cpos crem cdat]. intros Hw H.
  destruct l as [|b0 [|b1 [|b2 [|b3 l]]]]; try discriminate; rewrite Hw, ?bl_nlen_cons; cbn; lia.
Qed.

(* ---- advance ---------------------------------------------------------------- *)
Lemma wfc_advance c n : wfc c -> wfc (advance c n).
Proof.
  unfold wfc, advance. cbn [crem cdat]. intros H. rewrite bl_nlen_skipn, H. lia.
Qed.

Lemma advance_W c n : wfc c -> n <= crem c -> step n c (advance c n).
Proof.
  intros Hw Hn. split; [apply wfc_advance; exact Hw|].
  unfold endp, advance. cbn [cpos crem cdat]. repeat split; try lia.
  f_equal. lia.
Qed.

Lemma advance_ext y c n : wfc c -> n <= crem c -> advance (ext y c) n = ext y (advance c n).
Proof.
  unfold wfc, advance, ext. cbn [cpos crem cdat]. intros Hw Hn.
  f_equal; [lia|]. apply bl_skipn_app_le. unfold nlen in Hw. lia.
Qed.

(* ---- padding ---------------------------------------------------------------- *)
Lemma pad_loop_W : forall n c c', wfc c -> pad_loop n c = inl c' -> step 0 c c' /\ cpos c' = cpos c + N.of_nat n.
Proof.
  induction n as [|n IH]; intros c c' Hw H.
  - cbn in H. inversion H; subst. split; [apply step_refl; exact Hw | lia].
  - cbn [pad_loop] in H. destruct (take1 c) as [[b c1]|] eqn:Ht; [|discriminate].
    destruct (b =? 0); [|discriminate].
    destruct (take1_W _ _ _ Hw Ht) as [S1 P1]. destruct (IH _ _ (proj1 S1) H) as [S2 P2].
    split; [|lia]. apply (step_weaken (1 + 0)); [|lia]. eapply step_trans; eassumption.
Qed.

Lemma pad_loop_ext y : forall n c c', wfc c -> pad_loop n c = inl c' -> pad_loop n (ext y c) = inl (ext y c').
Proof.
  induction n as [|n IH]; intros c c' Hw H.
  - cbn in H. inversion H; subst. reflexivity.
  - cbn [pad_loop] in *. destruct (take1 c) as [[b c1]|] eqn:Ht; [|discriminate].
    rewrite (take1_ext y _ _ _ Hw Ht). destruct (b =? 0); [|discriminate].
    apply IH; [|exact H]. exact (proj1 (proj1 (take1_W _ _ _ Hw Ht))).
Qed.

Lemma pad_loop_esc y : forall n c e c'', wfc c -> pad_loop n c = inr e -> pad_loop n (ext y c) = inl c'' -> endp c < cpos c''.
Proof.
  induction n as [|n IH]; intros c e c'' Hw H H'.
  - cbn in H. discriminate.
  - cbn [pad_loop] in *. destruct (take1 c) as [[b c1]|] eqn:Ht.
    + rewrite (take1_ext y _ _ _ Hw Ht) in H'. destruct (b =? 0); [|discriminate].
      destruct (take1_W _ _ _ Hw Ht) as [(S1 & S2 & S3 & S4) P1]. rewrite <- S3. eapply IH; eassumption.
    + apply take1_none in Ht; [|exact Hw].
      destruct (take1 (ext y c)) as [[b c1]|] eqn:Ht'; [|discriminate].
      destruct (b =? 0); [|discriminate].
      destruct (take1_W _ _ _ (wfc_ext y c Hw) Ht') as [S1 P1].
      destruct (pad_loop_W _ _ _ (proj1 S1) H') as [S2 P2].
      unfold endp. rewrite cpos_ext in P1. lia.
Qed.

Lemma pad_to_W c a c' : wfc c -> pad_to c a = inl c' -> step 0 c c' /\ cpos c' = cpos c + (a - cpos c).
Proof. unfold pad_to. intros Hw H. destruct (pad_loop_W _ _ _ Hw H) as [S P]. split; [exact S | lia]. Qed.

Lemma pad_to_ext y c a c' : wfc c -> pad_to c a = inl c' -> pad_to (ext y c) a = inl (ext y c').
Proof. unfold pad_to. rewrite cpos_ext. apply pad_loop_ext. Qed.

Lemma pad_to_esc y c a e c'' : wfc c -> pad_to c a = inr e -> pad_to (ext y c) a = inl c'' -> endp c < cpos c''.
Proof. unfold pad_to. rewrite cpos_ext. apply pad_loop_esc. Qed.

(* ---- predicates on cursor functions ----------------------------------------- *)
Definition pres (A : Type) : Type := (A * cursor + Z)%type.

Definition W (k : N) (f : cursor -> res) : Prop :=
  forall c c', wfc c -> f c = inl c' -> step k c c'.
Definition Wp {A} (k : N) (f : cursor -> pres A) : Prop :=
  forall c a c', wfc c -> f c = inl (a, c') -> step k c c'.

Definition locr (y : bytes) (E : N) (r r' : res) : Prop :=
  match r with
  | inl c' => r' = inl (ext y c')
  | inr _ => forall c'', r' = inl c'' -> E < cpos c''
  end.
Definition locp {A} (y : bytes) (E : N) (r r' : pres A) : Prop :=
  match r with
  | inl (a, c') => r' = inl (a, ext y c')
  | inr _ => forall a c'', r' = inl (a, c'') -> E < cpos c''
  end.

Definition L (y : bytes) (f : cursor -> res) : Prop :=
  forall c, wfc c -> locr y (endp c) (f c) (f (ext y c)).
Definition Lp {A} (y : bytes) (f : cursor -> pres A) : Prop :=
  forall c, wfc c -> locp y (endp c) (f c) (f (ext y c)).

(* success is preserved from [f] to [g] (more fuel, smaller depth) *)
Definition sub (f g : cursor -> res) : Prop := forall c c', f c = inl c' -> g c = inl c'.

(* ---- combinators -------------------------------------------------------------- *)
Definition bind (f k : cursor -> res) (c : cursor) : res :=
  match f c with inr e => inr e | inl c' => k c' end.
Definition bindp {A} (f : cursor -> pres A) (k : A -> cursor -> res) (c : cursor) : res :=
  match f c with inr e => inr e | inl (a, c') => k a c' end.
Definition entry (k : cursor -> res) (c : cursor) : res :=
  if crem c =? 0 then inr V_INVALID_NOT_ENOUGH_DATA else k c.
Definition depthchk (depth : N) (k : cursor -> res) (c : cursor) : res :=
  if maxdepth <? depth + 1 then inr V_INVALID_NESTED_TOO_DEEPLY else k c.
Definition ret (c : cursor) : res := inl c.

Lemma W_eq k f g : (forall c, f c = g c) -> W k g -> W k f.
Proof. intros E H c c' Hw Hf. rewrite E in Hf. exact (H c c' Hw Hf). Qed.
Lemma L_eq y f g : (forall c, f c = g c) -> L y g -> L y f.
Proof. intros E H c Hw. rewrite !E. exact (H c Hw). Qed.
Lemma sub_eq f f' g g' : (forall c, f c = f' c) -> (forall c, g c = g' c) -> sub f' g' -> sub f g.
Proof. intros E1 E2 H c c' Hf. rewrite E1 in Hf. rewrite E2. exact (H c c' Hf). Qed.

Lemma W_weaken k k' f : W k f -> k' <= k -> W k' f.
Proof. intros H Hk c c' Hw Hf. eapply step_weaken; [exact (H c c' Hw Hf) | exact Hk]. Qed.
Lemma Wp_weaken {A} k k' (f : cursor -> pres A) : Wp k f -> k' <= k -> Wp k' f.
Proof. intros H Hk c a c' Hw Hf. eapply step_weaken; [exact (H c a c' Hw Hf) | exact Hk]. Qed.

Lemma W_ret : W 0 ret.
Proof. intros c c' Hw H. inversion H; subst. apply step_refl. exact Hw. Qed.

Lemma W_bind k1 k2 f k : W k1 f -> W k2 k -> W (k1 + k2) (bind f k).
Proof.
  intros Hf Hk c c' Hw H. unfold bind in H. destruct (f c) as [c1|e] eqn:E1; [|discriminate].
  pose proof (Hf c c1 Hw E1) as S1. eapply step_trans; [exact S1|]. apply Hk; [exact (proj1 S1) | exact H].
Qed.

Lemma W_bindp {A} k1 k2 (f : cursor -> pres A) k : Wp k1 f -> (forall a, W k2 (k a)) -> W (k1 + k2) (bindp f k).
Proof.
  intros Hf Hk c c' Hw H. unfold bindp in H. destruct (f c) as [[a c1]|e] eqn:E1; [|discriminate].
  pose proof (Hf c a c1 Hw E1) as S1. eapply step_trans; [exact S1|]. apply (Hk a); [exact (proj1 S1) | exact H].
Qed.

Lemma W_entry k f : W k f -> W k (entry f).
Proof. intros Hf c c' Hw H. unfold entry in H. destruct (crem c =? 0); [discriminate|]. exact (Hf c c' Hw H). Qed.

Lemma W_depthchk k depth f : W k f -> W k (depthchk depth f).
Proof. intros Hf c c' Hw H. unfold depthchk in H. destruct (maxdepth <? depth + 1); [discriminate|]. exact (Hf c c' Hw H). Qed.

Lemma L_ret y : L y ret.
Proof. intros c Hw. reflexivity. Qed.

Lemma L_bind y f k : L y f -> W 0 f -> L y k -> W 0 k -> L y (bind f k).
Proof.
  intros Lf Wf Lk Wk c Hw. unfold bind. pose proof (Lf c Hw) as H. unfold locr in H.
  destruct (f c) as [c1|e] eqn:E1.
  - rewrite H. destruct (Wf c c1 Hw E1) as (S1 & S2 & S3 & S4). rewrite <- S3. apply Lk. exact S1.
  - cbn [locr]. intros c'' H'. destruct (f (ext y c)) as [c1''|e'] eqn:E1'; [|discriminate].
    specialize (H c1'' eq_refl).
    destruct (Wf _ _ (wfc_ext y c Hw) E1') as (S1 & _).
    destruct (Wk _ _ S1 H') as (_ & S2 & _). lia.
Qed.

Lemma L_bindp {A} y (f : cursor -> pres A) k : Lp y f -> Wp 0 f -> (forall a, L y (k a)) -> (forall a, W 0 (k a)) -> L y (bindp f k).
Proof.
  intros Lf Wf Lk Wk c Hw. unfold bindp. pose proof (Lf c Hw) as H. unfold locp in H.
  destruct (f c) as [[a c1]|e] eqn:E1.
  - rewrite H. destruct (Wf c a c1 Hw E1) as (S1 & S2 & S3 & S4). rewrite <- S3. apply Lk. exact S1.
  - cbn [locr]. intros c'' H'. destruct (f (ext y c)) as [[a c1'']|e'] eqn:E1'; [|discriminate].
    specialize (H a c1'' eq_refl).
    destruct (Wf _ _ _ (wfc_ext y c Hw) E1') as (S1 & _).
    destruct (Wk a _ _ S1 H') as (_ & S2 & _). lia.
Qed.

Lemma L_depthchk y depth f : L y f -> L y (depthchk depth f).
Proof. intros Lf c Hw. unfold depthchk. destruct (maxdepth <? depth + 1); [|apply Lf; exact Hw]. cbn. intros; discriminate. Qed.

(* the entry check "one byte to look at": an accepted value is never empty *)
Lemma L_entry y f :
  (forall c, wfc c -> crem c <> 0 -> locr y (endp c) (f c) (f (ext y c))) -> W 1 (entry f) -> L y (entry f).
Proof.
  intros Lf Wf c Hw. unfold entry. cbn [ext crem].
  destruct (crem c =? 0) eqn:E0.
  - cbn [locr]. intros c'' H. destruct (crem c + nlen y =? 0) eqn:E1; [discriminate|].
    assert (H' : entry f (ext y c) = inl c'') by (unfold entry; cbn [ext crem]; rewrite E1; exact H).
    destruct (Wf _ _ (wfc_ext y c Hw) H') as (_ & S2 & _). rewrite cpos_ext in S2. unfold endp. lia.
  - replace (crem c + nlen y =? 0) with false by lia. apply Lf; [exact Hw | lia].
Qed.

Lemma sub_refl f : sub f f.
Proof. intros c c' H. exact H. Qed.
Lemma sub_bind f f' k k' : sub f f' -> sub k k' -> sub (bind f k) (bind f' k').
Proof.
  intros Hf Hk c c' H. unfold bind in *. destruct (f c) as [c1|e] eqn:E1; [|discriminate].
  rewrite (Hf c c1 E1). apply Hk. exact H.
Qed.
Lemma sub_bindp {A} (f : cursor -> pres A) k k' : (forall a, sub (k a) (k' a)) -> sub (bindp f k) (bindp f k').
Proof.
  intros Hk c c' H. unfold bindp in *. destruct (f c) as [[a c1]|e]; [|discriminate]. apply Hk. exact H.
Qed.
Lemma sub_entry f f' : sub f f' -> sub (entry f) (entry f').
Proof. intros Hf c c' H. unfold entry in *. destruct (crem c =? 0); [discriminate|]. apply Hf. exact H. Qed.
Lemma sub_depthchk depth depth' f f' : depth' <= depth -> sub f f' -> sub (depthchk depth f) (depthchk depth' f').
Proof.
  intros Hd Hf c c' H. unfold depthchk in *. destruct (maxdepth <? depth + 1) eqn:E; [discriminate|].
  replace (maxdepth <? depth' + 1) with false by lia. apply Hf. exact H.
Qed.

(* ---- leaves -------------------------------------------------------------------- *)
Section Leaves.
Variable y : bytes.

Lemma W_pad_to a : W 0 (fun c => pad_to c a).
Proof. intros c c' Hw H. exact (proj1 (pad_to_W c a c' Hw H)). Qed.

Lemma L_pad_to a : L y (fun c => pad_to c a).
Proof.
  intros c Hw. destruct (pad_to c a) as [c1|e] eqn:P; cbn [locr].
  - apply pad_to_ext; assumption.
  - intros c'' H. eapply pad_to_esc; eassumption.
Qed.

(* alignment padding guarded by "enough data up to the aligned position" *)
Definition padchk (al : N) (c : cursor) : res :=
  let a := align_up (cpos c) al in
  if cpos c + crem c <? a then inr V_INVALID_NOT_ENOUGH_DATA else pad_to c a.

Lemma W_padchk al : W 0 (padchk al).
Proof.
  intros c c' Hw H. unfold padchk in H. cbv zeta in H.
  destruct (cpos c + crem c <? align_up (cpos c) al); [discriminate|]. exact (proj1 (pad_to_W _ _ _ Hw H)).
Qed.

Lemma L_padchk al : L y (padchk al).
Proof.
  intros c Hw. unfold padchk. cbn [ext cpos crem]. cbv zeta. set (a := align_up (cpos c) al).
  destruct (cpos c + crem c <? a) eqn:E1; destruct (cpos c + (crem c + nlen y) <? a) eqn:E2; try lia.
  - cbn. intros; discriminate.
  - cbn [locr]. intros c'' H. destruct (pad_to_W _ _ _ (wfc_ext y c Hw) H) as [_ P]. rewrite cpos_ext in P. unfold endp. lia.
  - apply (L_pad_to a c Hw).
Qed.

Definition take1r (c : cursor) : pres N :=
  match take1 c with None => inr V_FAULT | Some p => inl p end.

Lemma Wp_take1r : Wp 1 take1r.
Proof.
  intros c b c' Hw H. unfold take1r in H. destruct (take1 c) as [[b1 c1]|] eqn:T; inversion H; subst.
  exact (proj1 (take1_W _ _ _ Hw T)).
Qed.

Lemma Lp_take1r : Lp y take1r.
Proof.
  intros c Hw. unfold take1r. destruct (take1 c) as [[b c1]|] eqn:T.
  - rewrite (take1_ext y _ _ _ Hw T). reflexivity.
  - cbn [locp]. intros a c'' H. destruct (take1 (ext y c)) as [[b c1]|] eqn:T'; inversion H; subst.
    destruct (take1_W _ _ _ (wfc_ext y c Hw) T') as [_ P]. rewrite cpos_ext in P.
    apply take1_none in T; [|exact Hw]. unfold endp. lia.
Qed.

Lemma Wp_read_len32 le : Wp 4 (read_len32 le).
Proof.
  intros c v c' Hw H. unfold read_len32 in H. cbv zeta in H.
  destruct (cpos c + crem c <? align_up (cpos c) 4 + 4); [discriminate|].
  destruct (pad_to c (align_up (cpos c) 4)) as [c1|e] eqn:P; [|discriminate].
  destruct (peek4 c1) as [q|] eqn:K; inversion H; subst.
  destruct (pad_to_W _ _ _ Hw P) as [S1 _].
  apply (step_trans 0 4 c c1); [exact S1|]. apply advance_W; [exact (proj1 S1)|]. eapply peek4_some; [exact (proj1 S1) | exact K].
Qed.

Lemma Lp_read_len32 le : Lp y (read_len32 le).
Proof.
  intros c Hw. unfold read_len32. cbn [ext cpos crem]. cbv zeta. set (a := align_up (cpos c) 4).
  destruct (cpos c + crem c <? a + 4) eqn:E1; destruct (cpos c + (crem c + nlen y) <? a + 4) eqn:E2; try lia.
  - cbn. intros; discriminate.
  - cbn [locp]. intros v c'' H. change (mkCur (cpos c) (crem c + nlen y) (cdat c ++ y)) with (ext y c) in H.
    destruct (pad_to (ext y c) a) as [c1|e] eqn:P; [|discriminate].
    destruct (peek4 c1) as [q|]; inversion H; subst. cbn [advance cpos].
    destruct (pad_to_W _ _ _ (wfc_ext y c Hw) P) as [_ P1]. rewrite cpos_ext in P1. unfold endp. lia.
  - change (mkCur (cpos c) (crem c + nlen y) (cdat c ++ y)) with (ext y c).
    destruct (pad_to c a) as [c1|e] eqn:P.
    + rewrite (pad_to_ext y _ _ _ Hw P). destruct (pad_to_W _ _ _ Hw P) as [(S1 & S2 & S3 & S4) _].
      destruct (peek4 c1) as [q|] eqn:K.
      * rewrite (peek4_ext y _ _ K). cbn [locp]. rewrite advance_ext; [reflexivity | exact S1 | eapply peek4_some; eassumption].
      * cbn [locp]. intros v c'' H. apply peek4_none in K; [|exact S1].
        destruct (peek4 (ext y c1)); inversion H; subst. cbn [advance cpos ext]. unfold endp in *. lia.
    + cbn [locp]. intros v c'' H. destruct (pad_to (ext y c) a) as [c1|e'] eqn:P'; [|discriminate].
      pose proof (pad_to_esc y _ _ _ _ Hw P P') as Q.
      destruct (peek4 c1); inversion H; subst. cbn [advance cpos]. lia.
Qed.

(* p += n; if (p > end) NOT_ENOUGH_DATA *)
Definition post (al : N) (c : cursor) : res :=
  if crem c <? al then inr V_INVALID_NOT_ENOUGH_DATA else inl (advance c al).

Lemma W_post al : W al (post al).
Proof.
  intros c c' Hw H. unfold post in H. destruct (crem c <? al) eqn:E; inversion H; subst.
  apply advance_W; [exact Hw | lia].
Qed.

Lemma L_post al : L y (post al).
Proof.
  intros c Hw. unfold post. cbn [ext crem].
  destruct (crem c <? al) eqn:E1; destruct (crem c + nlen y <? al) eqn:E2; try lia.
  - cbn. intros; discriminate.
  - cbn [locr]. intros c'' H. inversion H; subst. cbn [advance cpos ext]. unfold endp. lia.
  - cbn [locr]. change (mkCur (cpos c) (crem c + nlen y) (cdat c ++ y)) with (ext y c).
    rewrite advance_ext; [reflexivity | exact Hw | lia].
Qed.

Definition boolpost (le : bool) (c1 : cursor) : res :=
  if crem c1 <? 4 then inr V_INVALID_NOT_ENOUGH_DATA
  else match peek4 c1 with
       | None => inr V_FAULT
       | Some q => let v := unpack32 le q in
                   if (v =? 0) || (v =? 1) then post 4 c1 else inr V_INVALID_BOOLEAN_NOT_ZERO_OR_ONE
       end.

Lemma W_boolpost le : W 4 (boolpost le).
Proof.
  intros c c' Hw H. unfold boolpost in H. destruct (crem c <? 4); [discriminate|].
  destruct (peek4 c) as [q|]; [|discriminate]. cbv zeta in H. destruct (_ || _); [|discriminate].
  exact (W_post 4 c c' Hw H).
Qed.

Lemma L_boolpost le : L y (boolpost le).
Proof.
  intros c Hw. unfold boolpost. cbn [ext crem]. change (mkCur (cpos c) (crem c + nlen y) (cdat c ++ y)) with (ext y c).
  destruct (crem c <? 4) eqn:E1; destruct (crem c + nlen y <? 4) eqn:E2; try lia.
  - cbn. intros; discriminate.
  - cbn [locr]. intros c'' H. destruct (peek4 (ext y c)) as [q|]; [|discriminate]. cbv zeta in H.
    destruct (_ || _); [|discriminate]. destruct (W_post 4 _ _ (wfc_ext y c Hw) H) as (_ & S2 & _).
    rewrite cpos_ext in S2. unfold endp. lia.
  - destruct (peek4 c) as [q|] eqn:K.
    + rewrite (peek4_ext y _ _ K). cbv zeta. destruct (_ || _); [apply L_post; exact Hw|]. cbn. intros; discriminate.
    + apply peek4_none in K; [lia | exact Hw].
Qed.

(* a fixed-size basic type other than BYTE, after the entry check *)
Definition fixedbody (le : bool) (code : N) (c : cursor) : res :=
  let al := type_alignment code in
  let a := align_up (cpos c) al in
  if cpos c + crem c <=? a then inr V_INVALID_NOT_ENOUGH_DATA
  else bind (fun c0 => pad_to c0 a) (if code =? DBUS_TYPE_BOOLEAN then boolpost le else post al) c.

Lemma W_fixedbody le code : 1 <= type_alignment code -> W 1 (fixedbody le code).
Proof.
  intros Hal c c' Hw H. unfold fixedbody in H. cbv zeta in H.
  destruct (cpos c + crem c <=? align_up (cpos c) (type_alignment code)); [discriminate|].
  revert H. apply (W_bind 0 1); [apply W_pad_to | | exact Hw].
  destruct (code =? DBUS_TYPE_BOOLEAN); [apply (W_weaken 4); [apply W_boolpost | lia] | apply (W_weaken (type_alignment code)); [apply W_post | exact Hal]].
Qed.

Lemma L_fixedbody le code : 1 <= type_alignment code -> L y (fixedbody le code).
Proof.
  intros Hal c Hw. unfold fixedbody. cbn [ext cpos crem]. cbv zeta.
  change (mkCur (cpos c) (crem c + nlen y) (cdat c ++ y)) with (ext y c).
  set (al := type_alignment code) in *. set (a := align_up (cpos c) al).
  set (k := if code =? DBUS_TYPE_BOOLEAN then boolpost le else post al).
  assert (Wk : W 1 k).
  { unfold k. destruct (code =? DBUS_TYPE_BOOLEAN); [apply (W_weaken 4); [apply W_boolpost | lia] | apply (W_weaken al); [apply W_post | exact Hal]]. }
  assert (Lk : L y k).
  { unfold k. destruct (code =? DBUS_TYPE_BOOLEAN); [apply L_boolpost | apply L_post]. }
  destruct (cpos c + crem c <=? a) eqn:E1; destruct (cpos c + (crem c + nlen y) <=? a) eqn:E2; try lia.
  - cbn. intros; discriminate.
  - cbn [locr]. intros c'' H. unfold bind in H. destruct (pad_to (ext y c) a) as [c1|e] eqn:P; [|discriminate].
    destruct (pad_to_W _ _ _ (wfc_ext y c Hw) P) as [S1 P1]. rewrite cpos_ext in P1.
    destruct (Wk _ _ (proj1 S1) H) as (_ & S2 & _). unfold endp. lia.
  - apply (L_bind y (fun c0 => pad_to c0 a) k); [apply L_pad_to | apply W_pad_to | exact Lk | apply (W_weaken 1); [exact Wk | lia] | exact Hw].
Qed.

(* STRING / OBJECT_PATH after the length word: [okf] is the content check *)
Definition strbody (okf : bytes -> option Z) (len : N) (c2 : cursor) : res :=
  if crem c2 <? len then inr V_INVALID_LENGTH_OUT_OF_BOUNDS
  else
    match okf (firstn (N.to_nat len) (cdat c2)) with
    | Some e => inr e
    | None =>
        let c3 := advance c2 len in
        if crem c3 =? 0 then inr V_INVALID_NOT_ENOUGH_DATA
        else match take1 c3 with
             | None => inr V_FAULT
             | Some (b, c4) => if b =? 0 then inl c4 else inr V_INVALID_STRING_MISSING_NUL
             end
    end.

Lemma W_strbody okf len : W 1 (strbody okf len).
Proof.
  clear y. intros c c' Hw H. unfold strbody in H. destruct (crem c <? len) eqn:E; [discriminate|].
  destruct (okf _); [discriminate|]. cbv zeta in H. destruct (crem (advance c len) =? 0); [discriminate|].
  destruct (take1 (advance c len)) as [[b c4]|] eqn:T; [|discriminate]. destruct (b =? 0); inversion H; subst.
  apply (step_weaken (len + 1)); [|lia]. apply (step_trans len 1 c (advance c len)).
  - apply advance_W; [exact Hw | lia].
  - exact (proj1 (take1_W _ _ _ (wfc_advance c len Hw) T)).
Qed.

Lemma L_strbody okf len : L y (strbody okf len).
Proof.
  intros c Hw. unfold strbody. cbn [ext crem cdat]. change (mkCur (cpos c) (crem c + nlen y) (cdat c ++ y)) with (ext y c).
  destruct (crem c <? len) eqn:E1; destruct (crem c + nlen y <? len) eqn:E2; try lia.
  - cbn. intros; discriminate.
  - cbn [locr]. intros c'' H. destruct (okf _); [discriminate|]. cbv zeta in H.
    destruct (crem (advance (ext y c) len) =? 0); [discriminate|].
    destruct (take1 (advance (ext y c) len)) as [[b c4]|] eqn:T; [|discriminate]. destruct (b =? 0); inversion H; subst.
    destruct (take1_W _ _ _ (wfc_advance _ len (wfc_ext y c Hw)) T) as [_ P]. cbn [advance cpos ext] in P. unfold endp. lia.
  - rewrite bl_firstn_app_le by (unfold wfc, nlen in Hw; lia).
    destruct (okf _); [cbn; intros; discriminate|]. cbv zeta.
    rewrite advance_ext by (try exact Hw; lia).
    destruct (advance_W c len Hw ltac:(lia)) as (S1 & S2 & S3 & S4). set (c3 := advance c len) in *.
    cbn [ext crem]. change (mkCur (cpos c3) (crem c3 + nlen y) (cdat c3 ++ y)) with (ext y c3).
    destruct (crem c3 =? 0) eqn:E3; destruct (crem c3 + nlen y =? 0) eqn:E4; try lia.
    + cbn. intros; discriminate.
    + cbn [locr]. intros c'' H. destruct (take1 (ext y c3)) as [[b c4]|] eqn:T; [|discriminate]. destruct (b =? 0); inversion H; subst.
      destruct (take1_W _ _ _ (wfc_ext y c3 S1) T) as [_ P]. rewrite cpos_ext in P. unfold endp in *. lia.
    + destruct (take1_some c3 S1 ltac:(lia)) as (b & c4 & T). rewrite T, (take1_ext y _ _ _ S1 T).
      destruct (b =? 0); [reflexivity|]. cbn. intros; discriminate.
Qed.

(* one-byte length, signature bytes, NUL: SIGNATURE values and the signature of a VARIANT *)
Definition sigread (e1 : Z) (e2 : Z -> Z) (e3 : Z) (c : cursor) : pres bytes :=
  match take1 c with
  | None => inr V_FAULT
  | Some (len, c1) =>
      if crem c1 <? len + 1 then inr e1
      else
        let s := firstn (N.to_nat len) (cdat c1) in
        let v := validate_signature_reason s in
        if negb (Z.eqb v V_VALID) then inr (e2 v)
        else match take1 (advance c1 len) with
             | None => inr V_FAULT
             | Some (b, c2) => if b =? 0 then inl (s, c2) else inr e3
             end
  end.

Lemma Wp_sigread e1 e2 e3 : Wp 1 (sigread e1 e2 e3).
Proof.
  intros c s c' Hw H. unfold sigread in H. destruct (take1 c) as [[len c1]|] eqn:T; [|discriminate].
  destruct (crem c1 <? len + 1) eqn:E; [discriminate|]. cbv zeta in H. destruct (negb _); [discriminate|].
  destruct (take1 (advance c1 len)) as [[b c2]|] eqn:T2; [|discriminate]. destruct (b =? 0); inversion H; subst.
  destruct (take1_W _ _ _ Hw T) as [S1 _].
  apply (step_weaken (1 + (len + 1))); [|lia]. apply (step_trans _ _ c c1); [exact S1|].
  apply (step_trans len 1 c1 (advance c1 len)).
  - apply advance_W; [exact (proj1 S1) | lia].
  - exact (proj1 (take1_W _ _ _ (wfc_advance c1 len (proj1 S1)) T2)).
Qed.

Lemma Lp_sigread e1 e2 e3 : Lp y (sigread e1 e2 e3).
Proof.
  intros c Hw. unfold sigread. destruct (take1 c) as [[len c1]|] eqn:T.
  - rewrite (take1_ext y _ _ _ Hw T). destruct (take1_W _ _ _ Hw T) as [(S1 & S2 & S3 & S4) _].
    cbn [ext crem cdat]. change (mkCur (cpos c1) (crem c1 + nlen y) (cdat c1 ++ y)) with (ext y c1).
    destruct (crem c1 <? len + 1) eqn:E1; destruct (crem c1 + nlen y <? len + 1) eqn:E2; try lia.
    + cbn. intros; discriminate.
    + cbn [locp]. intros s c'' H. cbv zeta in H. destruct (negb _); [discriminate|].
      destruct (take1 (advance (ext y c1) len)) as [[b c2]|] eqn:T2; [|discriminate]. destruct (b =? 0); inversion H; subst.
      destruct (take1_W _ _ _ (wfc_advance _ len (wfc_ext y c1 S1)) T2) as [_ P]. cbn [advance cpos ext] in P. unfold endp in *. lia.
    + rewrite bl_firstn_app_le by (unfold wfc, nlen in S1; lia). cbv zeta.
      destruct (negb _); [cbn; intros; discriminate|].
      rewrite advance_ext by (try exact S1; lia).
      destruct (advance_W c1 len S1 ltac:(lia)) as (A1 & A2 & A3 & A4). set (c3 := advance c1 len) in *.
      destruct (take1_some c3 A1 ltac:(unfold c3; cbn [advance crem]; lia)) as (b & c4 & T2). rewrite T2, (take1_ext y _ _ _ A1 T2).
      destruct (b =? 0); [reflexivity|]. cbn. intros; discriminate.
  - cbn [locp]. intros s c'' H. apply take1_none in T; [|exact Hw].
    destruct (take1 (ext y c)) as [[len c1]|] eqn:T'; [|discriminate].
    destruct (take1_W _ _ _ (wfc_ext y c Hw) T') as [(S1 & S2 & S3 & S4) P1]. rewrite cpos_ext in P1.
    destruct (crem c1 <? len + 1); [discriminate|]. cbv zeta in H. destruct (negb _); [discriminate|].
    destruct (take1 (advance c1 len)) as [[b c2]|] eqn:T2; [|discriminate]. destruct (b =? 0); inversion H; subst.
    destruct (take1_W _ _ _ (wfc_advance _ len S1) T2) as [_ P]. cbn [advance cpos] in P. unfold endp. lia.
Qed.

(* bool-array fast path *)
Lemma W_bool_loop le ae : forall fuel, W 0 (fun c => bool_array_loop fuel le c ae).
Proof.
  induction fuel as [|f IH]; intros c c' Hw H; [discriminate|]. cbn [bool_array_loop] in H.
  destruct (cpos c <? ae).
  - destruct (peek4 c) as [q|] eqn:K; [|discriminate]. cbv zeta in H. destruct (_ || _); [|discriminate].
    pose proof (advance_W c 4 Hw (peek4_some _ _ Hw K)) as S1.
    apply (step_weaken (4 + 0)); [|lia]. eapply step_trans; [exact S1|]. apply IH; [exact (proj1 S1) | exact H].
  - inversion H; subst. apply step_refl. exact Hw.
Qed.

Lemma L_bool_loop le ae : forall fuel, L y (fun c => bool_array_loop fuel le c ae).
Proof.
  induction fuel as [|f IH]; intros c Hw; [cbn; intros; discriminate|]. cbn [bool_array_loop]. rewrite cpos_ext.
  destruct (cpos c <? ae); [|reflexivity].
  destruct (peek4 c) as [q|] eqn:K.
  - rewrite (peek4_ext y _ _ K). cbv zeta. destruct (_ || _); [|cbn; intros; discriminate].
    pose proof (peek4_some _ _ Hw K) as H4. rewrite advance_ext by assumption.
    destruct (advance_W c 4 Hw H4) as (S1 & S2 & S3 & S4). rewrite <- S3. apply IH. exact S1.
  - cbn [locr]. intros c'' H. apply peek4_none in K; [|exact Hw].
    destruct (peek4 (ext y c)) as [q|] eqn:K'; [|discriminate]. cbv zeta in H. destruct (_ || _); [|discriminate].
    pose proof (wfc_ext y c Hw) as Hw'.
    destruct (W_bool_loop le ae f _ _ (wfc_advance _ 4 Hw') H) as (_ & S2 & _). cbn [advance cpos ext] in S2. unfold endp. lia.
Qed.

(* the element part of an array, after the length word and the element alignment;
   [r array_end] validates the elements *)
Definition arrbody (r : N -> cursor -> res) (len : N) (c3 : cursor) : res :=
  if crem c3 <? len then inr V_INVALID_LENGTH_OUT_OF_BOUNDS
  else if len =? 0 then inl c3
  else if DBUS_MAXIMUM_ARRAY_LENGTH <? len then inr V_INVALID_ARRAY_LENGTH_EXCEEDS_MAXIMUM
  else
    match r (cpos c3 + len) c3 with
    | inr e => inr e
    | inl c4 => if cpos c4 =? cpos c3 + len then inl c4 else inr V_INVALID_ARRAY_LENGTH_INCORRECT
    end.

Lemma W_arrbody r len :
  (forall ae c c', wfc c -> len <= crem c -> r ae c = inl c' -> step 0 c c') -> W 0 (arrbody r len).
Proof.
  intros Hr c c' Hw H. unfold arrbody in H. destruct (crem c <? len) eqn:E; [discriminate|].
  destruct (len =? 0); [inversion H; subst; apply step_refl; exact Hw|].
  destruct (DBUS_MAXIMUM_ARRAY_LENGTH <? len); [discriminate|].
  destruct (r (cpos c + len) c) as [c4|e] eqn:R; [|discriminate].
  destruct (cpos c4 =? cpos c + len); inversion H; subst. apply (Hr _ _ _ Hw ltac:(lia) R).
Qed.

Lemma L_arrbody r len :
  (forall ae c, wfc c -> len <= crem c -> locr y (endp c) (r ae c) (r ae (ext y c))) -> L y (arrbody r len).
Proof.
  intros Hr c Hw. unfold arrbody. cbn [ext crem cpos]. change (mkCur (cpos c) (crem c + nlen y) (cdat c ++ y)) with (ext y c).
  destruct (crem c <? len) eqn:E1; destruct (crem c + nlen y <? len) eqn:E2; try lia.
  - cbn. intros; discriminate.
  - cbn [locr]. intros c'' H. destruct (len =? 0) eqn:E0; [lia|].
    destruct (DBUS_MAXIMUM_ARRAY_LENGTH <? len); [discriminate|].
    destruct (r (cpos c + len) (ext y c)) as [c4|e]; [|discriminate].
    destruct (cpos c4 =? cpos c + len) eqn:E4; inversion H; subst. unfold endp. lia.
  - destruct (len =? 0); [reflexivity|].
    destruct (DBUS_MAXIMUM_ARRAY_LENGTH <? len); [cbn; intros; discriminate|].
    pose proof (Hr (cpos c + len) c Hw ltac:(lia)) as Q. unfold locr in Q.
    destruct (r (cpos c + len) c) as [c4|e].
    + rewrite Q. rewrite cpos_ext. destruct (cpos c4 =? cpos c + len); [reflexivity|]. cbn. intros; discriminate.
    + cbn [locr]. intros c'' H. destruct (r (cpos c + len) (ext y c)) as [c4|e']; [|discriminate].
      specialize (Q c4 eq_refl). destruct (cpos c4 =? cpos c + len); inversion H; subst. exact Q.
Qed.
End Leaves.

(* ---- equations of [vb] in combinator form --------------------------------------- *)
Definition final (more : list ty) (c4 : cursor) : res :=
  match more with [] => inl c4 | _ => inr V_INVALID_VARIANT_SIGNATURE_SPECIFIES_MULTIPLE_VALUES end.

Definition varbody (le : bool) (d : nat) (depth : N) (s : bytes) : cursor -> res :=
  match parse_sig s with
  | None => fun _ => inr V_MODEL_GAP
  | Some [] => fun _ => inr V_INVALID_VARIANT_SIGNATURE_EMPTY
  | Some (ct :: more) =>
      bind (padchk (ty_alignment ct)) (depthchk depth (bind (vb le d ct (depth + 1)) (final more)))
  end.

Definition str_ok (code : N) (s : bytes) : option Z :=
  if code =? DBUS_TYPE_OBJECT_PATH then
    if validate_path s then None else Some V_INVALID_BAD_PATH
  else match validate_utf8 s with
       | Some true => None
       | Some false => Some V_INVALID_BAD_UTF8_IN_STRING
       | None => Some V_OUT_OF_FUEL
       end.

Definition arr_elems (le : bool) (d : nat) (et : ty) (depth len ae : N) (c3 : cursor) : res :=
  if ty_is_fixed et then
    if negb (len mod ty_alignment et =? 0) then inr V_INVALID_ARRAY_LENGTH_INCORRECT else
    match et with
    | TBasic code =>
        if code =? DBUS_TYPE_BOOLEAN then bool_array_loop (S (N.to_nat len)) le c3 ae
        else inl (advance c3 len)
    | _ => inl (advance c3 len)
    end
  else vb_elems le d et depth ae (S (N.to_nat len)) c3.

Lemma vb_entry_nodata le d t depth c : (crem c =? 0) = true -> vb le (S d) t depth c = inr V_INVALID_NOT_ENOUGH_DATA.
Proof. intros H. cbn [vb]. rewrite H. reflexivity. Qed.

Ltac entry_eq c :=
  let H0 := fresh "H0" in
  unfold entry; destruct (crem c =? 0) eqn:H0; [apply vb_entry_nodata; exact H0|].

Lemma vbc_byte le d depth c : vb le (S d) (TBasic DBUS_TYPE_BYTE) depth c = entry (post 1) c.
Proof.
  entry_eq c. rewrite vb_byte by exact H0. unfold post. replace (crem c <? 1) with false by lia. reflexivity.
Qed.

Lemma vbc_fixed le d code depth c : (code =? DBUS_TYPE_BYTE) = false -> type_fixed code = true ->
  vb le (S d) (TBasic code) depth c = entry (fixedbody le code) c.
Proof.
  intros Hb Hf. entry_eq c. rewrite vb_fixed by assumption. unfold fixedbody, bind. cbv zeta.
  destruct (cpos c + crem c <=? align_up (cpos c) (type_alignment code)); [reflexivity|].
  destruct (pad_to c (align_up (cpos c) (type_alignment code))) as [c1|e]; [|reflexivity].
  destruct (code =? DBUS_TYPE_BOOLEAN) eqn:Eb; [|reflexivity].
  apply N.eqb_eq in Eb. subst code. reflexivity.
Qed.

Lemma vbc_string le d code depth c : (code =? DBUS_TYPE_BYTE) = false -> type_fixed code = false ->
  ((code =? DBUS_TYPE_STRING) || (code =? DBUS_TYPE_OBJECT_PATH)) = true ->
  vb le (S d) (TBasic code) depth c = entry (bindp (read_len32 le) (strbody (str_ok code))) c.
Proof.
  intros Hb Hf Hs. entry_eq c. rewrite vb_string by assumption. unfold bindp, strbody, str_ok.
  destruct (read_len32 le c) as [[len c2]|e]; [|reflexivity]. reflexivity.
Qed.

Lemma vbc_signature le d depth c :
  vb le (S d) (TBasic DBUS_TYPE_SIGNATURE) depth c =
  entry (bindp (sigread V_INVALID_SIGNATURE_LENGTH_OUT_OF_BOUNDS (fun v => v) V_INVALID_SIGNATURE_MISSING_NUL) (fun _ => ret)) c.
Proof.
  entry_eq c. rewrite vb_signature by assumption. unfold bindp, sigread, ret.
  destruct (take1 c) as [[len c1]|]; [|reflexivity].
  destruct (crem c1 <? len + 1); [reflexivity|]. cbv zeta. destruct (negb _); [reflexivity|].
  destruct (take1 (advance c1 len)) as [[b c2]|]; [|reflexivity]. destruct (b =? 0); reflexivity.
Qed.

Lemma vbc_gap le d code depth c : (code =? DBUS_TYPE_BYTE) = false -> type_fixed code = false ->
  ((code =? DBUS_TYPE_STRING) || (code =? DBUS_TYPE_OBJECT_PATH)) = false -> (code =? DBUS_TYPE_SIGNATURE) = false ->
  vb le (S d) (TBasic code) depth c = entry (fun _ => inr V_MODEL_GAP) c.
Proof.
  intros Hb Hf Hs Hg. entry_eq c. cbn [vb]. rewrite H0, Hb, Hf, Hs, Hg. reflexivity.
Qed.

Lemma vbc_array le d et depth c :
  vb le (S d) (TArray et) depth c =
  entry (bindp (read_len32 le) (fun len => bind (padchk (ty_alignment et)) (arrbody (arr_elems le d et depth len) len))) c.
Proof.
  entry_eq c. rewrite vb_array by assumption. unfold bindp, bind, padchk, arrbody, arr_elems.
  destruct (read_len32 le c) as [[len c2]|e]; [|reflexivity]. cbv zeta.
  destruct (cpos c2 + crem c2 <? align_up (cpos c2) (ty_alignment et)); [reflexivity|].
  destruct (pad_to c2 (align_up (cpos c2) (ty_alignment et))) as [c3|e]; reflexivity.
Qed.

Lemma vbc_variant le d depth c :
  vb le (S d) TVariant depth c =
  entry (bindp (sigread V_INVALID_VARIANT_SIGNATURE_LENGTH_OUT_OF_BOUNDS (fun _ => V_INVALID_VARIANT_SIGNATURE_BAD)
                        V_INVALID_VARIANT_SIGNATURE_MISSING_NUL) (varbody le d depth)) c.
Proof.
  entry_eq c. rewrite vb_variant by assumption. unfold bindp, sigread.
  destruct (take1 c) as [[len c1]|]; [|reflexivity].
  destruct (crem c1 <? len + 1); [reflexivity|]. cbv zeta. destruct (negb (Z.eqb _ _)); [reflexivity|].
  destruct (take1 (advance c1 len)) as [[b c2]|]; [|reflexivity]. destruct (b =? 0); [|reflexivity]. cbn [negb].
  unfold varbody. destruct (parse_sig _) as [[|ct more]|]; try reflexivity.
  unfold bind, padchk, depthchk, final. cbv zeta.
  destruct (cpos c2 + crem c2 <? align_up (cpos c2) (ty_alignment ct)); [reflexivity|].
  destruct (pad_to c2 (align_up (cpos c2) (ty_alignment ct))) as [c3|e]; reflexivity.
Qed.

Lemma vbc_struct le d ts depth c :
  vb le (S d) (TStruct ts) depth c = entry (bind (padchk 8) (depthchk depth (vbs le d ts (depth + 1)))) c.
Proof.
  entry_eq c. rewrite vb_struct by assumption. unfold bind, padchk, depthchk. cbv zeta.
  destruct (cpos c + crem c <? align_up (cpos c) 8); [reflexivity|].
  destruct (pad_to c (align_up (cpos c) 8)) as [c1|e]; reflexivity.
Qed.

Lemma vbc_dict le d k v depth c :
  vb le (S d) (TDict k v) depth c = entry (bind (padchk 8) (depthchk depth (vbs le d [TBasic k; v] (depth + 1)))) c.
Proof.
  entry_eq c. rewrite vb_dict by assumption. unfold bind, padchk, depthchk. cbv zeta.
  destruct (cpos c + crem c <? align_up (cpos c) 8); [reflexivity|].
  destruct (pad_to c (align_up (cpos c) 8)) as [c1|e]; reflexivity.
Qed.

Lemma vbs_cons le d t r depth c : vbs le d (t :: r) depth c = bind (vb le d t depth) (vbs le d r depth) c.
Proof. reflexivity. Qed.

Lemma vb_elems_S le d et depth ae n c :
  vb_elems le d et depth ae (S n) c =
  if cpos c <? ae then depthchk depth (bind (vb le d et (depth + 1)) (vb_elems le d et depth ae n)) c else inl c.
Proof. reflexivity. Qed.

(* ---- types produced by the signature parser have no empty structs --------------- *)
Fixpoint goodb (t : ty) : bool :=
  match t with
  | TBasic _ | TVariant => true
  | TArray t' => goodb t'
  | TStruct ts => negb (match ts with [] => true | _ => false end) && forallb goodb ts
  | TDict _ v => goodb v
  end.

Fixpoint pfields (f : nat) (g : nat) (s : bytes) (acc : list ty) : option (ty * bytes) :=
  match g with
  | O => None
  | S g' =>
      match s with
      | 41 :: r' => match acc with [] => None | _ => Some (TStruct (rev acc), r') end
      | _ => match parse_sct f s with
             | Some (t, r') => pfields f g' r' (t :: acc)
             | None => None
             end
      end
  end.

Lemma pfields_inner f : forall g s acc,
  (fix fields (g : nat) (s : bytes) (acc : list ty) : option (ty * bytes) :=
     match g with
     | O => None
     | S g' =>
         match s with
         | 41 :: r' => match acc with [] => None | _ => Some (TStruct (rev acc), r') end
         | _ => match parse_sct f s with
                | Some (t, r') => fields g' r' (t :: acc)
                | None => None
                end
         end
     end) g s acc = pfields f g s acc.
Proof.
  induction g as [|g IH]; intros s acc; [reflexivity|].
  cbn [pfields].
  destruct s as [|c r].
  { destruct (parse_sct f []) as [[t r']|]; [apply IH|reflexivity]. }
  destruct c as [|p]. { destruct (parse_sct f (0 :: r)) as [[t r']|]; [apply IH|reflexivity]. }
  do 6 (destruct p as [p|p|]; try (match goal with |- context [parse_sct f ?s] => destruct (parse_sct f s) as [[t r']|]; [apply IH|reflexivity] end)).
  reflexivity.
Qed.

Lemma goodb_struct_rev acc : acc <> [] -> forallb goodb acc = true -> goodb (TStruct (rev acc)) = true.
Proof.
  intros Hne Hall. cbn [goodb]. apply andb_true_iff. split.
  - destruct (rev acc) eqn:E; [|reflexivity]. apply (f_equal (@rev ty)) in E. rewrite rev_involutive in E. cbn in E. contradiction.
  - apply forallb_forall. intros t Hin. apply in_rev in Hin. rewrite forallb_forall in Hall. apply Hall. exact Hin.
Qed.

Lemma pfields_good f :
  (forall s t r, parse_sct f s = Some (t, r) -> goodb t = true) ->
  forall g s acc t r, forallb goodb acc = true -> pfields f g s acc = Some (t, r) -> goodb t = true.
Proof.
  intros IHf. induction g as [|g IH]; intros s acc t r Hacc H; [discriminate|].
  cbn [pfields] in H.
  assert (Hdef : forall s0, match parse_sct f s0 with Some (t0, r') => pfields f g r' (t0 :: acc) | None => None end = Some (t, r) -> goodb t = true).
  { intros s0 H0. destruct (parse_sct f s0) as [[t0 r']|] eqn:P; [|discriminate].
    apply (IH r' (t0 :: acc) t r); [|exact H0]. cbn [forallb]. rewrite (IHf _ _ _ P), Hacc. reflexivity. }
  destruct s as [|c r0]; [exact (Hdef _ H)|].
  destruct c as [|p]; [exact (Hdef _ H)|].
  do 6 (destruct p as [p|p|]; try exact (Hdef _ H)).
  destruct acc as [|a acc']; [discriminate|]. inversion H; subst. apply (goodb_struct_rev (a :: acc')); [discriminate | exact Hacc].
Qed.

Lemma parse_sct_S f c r :
  parse_sct (S f) (c :: r) =
  if is_basic_code c then Some (TBasic c, r)
  else if c =? 118 then Some (TVariant, r)
  else if c =? 97 then
    match r with
    | 123 :: r1 =>
        match r1 with
        | k :: r2 =>
            if is_basic_code k then
              match parse_sct f r2 with
              | Some (v, 125 :: r3) => Some (TArray (TDict k v), r3)
              | _ => None
              end
            else None
        | [] => None
        end
    | _ =>
        match parse_sct f r with
        | Some (t, r') => Some (TArray t, r')
        | None => None
        end
    end
  else if c =? 40 then pfields f (S (length r)) r []
  else None.
Proof. rewrite <- pfields_inner. reflexivity. Qed.

Lemma parse_sct_good : forall f s t r, parse_sct f s = Some (t, r) -> goodb t = true.
Proof.
  induction f as [|f IH]; intros s t r H; [discriminate|].
  destruct s as [|c r0]; [discriminate|]. rewrite parse_sct_S in H.
  destruct (is_basic_code c); [inversion H; reflexivity|].
  destruct (c =? 118); [inversion H; reflexivity|].
  destruct (c =? 97).
  - assert (Hdef : forall s0, match parse_sct f s0 with Some (t0, r') => Some (TArray t0, r') | None => None end = Some (t, r) -> goodb t = true).
    { intros s0 H0. destruct (parse_sct f s0) as [[t0 r']|] eqn:P; [|discriminate]. inversion H0; subst. cbn [goodb]. exact (IH _ _ _ P). }
    destruct r0 as [|c1 r1]; [exact (Hdef _ H)|].
    destruct c1 as [|p]; [exact (Hdef _ H)|].
    do 7 (destruct p as [p|p|]; try exact (Hdef _ H)).
    destruct r1 as [|k r2]; [discriminate|]. destruct (is_basic_code k); [|discriminate].
    destruct (parse_sct f r2) as [[v r']|] eqn:P; [|discriminate].
    destruct r' as [|c2 r3]; [discriminate|]. destruct c2 as [|p]; [discriminate|].
    do 7 (destruct p as [p|p|]; try discriminate).
    inversion H; subst. cbn [goodb]. exact (IH _ _ _ P).
  - destruct (c =? 40); [|discriminate].
    apply (pfields_good f IH _ _ [] _ _ eq_refl H).
Qed.

Lemma parse_sig_fuel_good : forall fuel s ts, parse_sig_fuel fuel s = Some ts -> forallb goodb ts = true.
Proof.
  induction fuel as [|fuel IH]; intros s ts H; [discriminate|]. cbn [parse_sig_fuel] in H.
  destruct s as [|c r0]; [inversion H; reflexivity|].
  destruct (parse_sct (S (length (c :: r0))) (c :: r0)) as [[t r]|] eqn:P; [|discriminate].
  destruct (parse_sig_fuel fuel r) as [ts'|] eqn:Q; [|discriminate]. inversion H; subst.
  cbn [forallb]. rewrite (parse_sct_good _ _ _ _ P), (IH _ _ Q). reflexivity.
Qed.

Lemma parse_sig_good s ts : parse_sig s = Some ts -> forallb goodb ts = true.
Proof. apply parse_sig_fuel_good. Qed.

(* fixed-size types have a non-zero alignment (generated tables) *)
Lemma fixed_align code : type_fixed code = true -> 1 <= type_alignment code.
Proof.
  intros H. destruct (N.lt_ge_cases code 256) as [Hlt|Hge].
  - assert (Hs : forallb (fun c => implb (type_fixed c) (1 <=? type_alignment c)) (nseq 256) = true) by (vm_compute; reflexivity).
    rewrite forallb_forall in Hs. specialize (Hs code (nseq_in 256 code Hlt)). rewrite H in Hs. cbn [implb] in Hs. lia.
  - unfold type_fixed in H. rewrite tbl_big in H; [discriminate|].
    assert (Hl : N.of_nat (length tbl_type_fixed) <= 256) by (vm_compute; discriminate). lia.
Qed.

(* ---- (W): a successful run of [vb] ------------------------------------------------ *)
Lemma W_final more : W 0 (final more).
Proof. intros c c' Hw H. unfold final in H. destruct more; inversion H; subst. apply step_refl. exact Hw. Qed.

Lemma W_vbs le d depth : forall ts, (forall t, In t ts -> W 1 (vb le d t depth)) -> W 0 (vbs le d ts depth).
Proof.
  induction ts as [|t r IH]; intros Ht; [exact W_ret|].
  apply (W_eq 0 _ _ (vbs_cons le d t r depth)). apply (W_weaken (1 + 0)); [|lia].
  apply W_bind; [apply Ht; left; reflexivity | apply IH; intros t' Hin; apply Ht; right; exact Hin].
Qed.

Lemma W_vbs1 le d depth ts : ts <> [] -> (forall t, In t ts -> W 1 (vb le d t depth)) -> W 1 (vbs le d ts depth).
Proof.
  intros Hne Ht. destruct ts as [|t r]; [contradiction|].
  apply (W_eq 1 _ _ (vbs_cons le d t r depth)). apply (W_weaken (1 + 0)); [|lia].
  apply W_bind; [apply Ht; left; reflexivity | apply W_vbs; intros t' Hin; apply Ht; right; exact Hin].
Qed.

Lemma W_vb_elems le d et depth ae : W 1 (vb le d et (depth + 1)) -> forall n, W 0 (vb_elems le d et depth ae n).
Proof.
  intros Hv. induction n as [|n IH]; intros c c' Hw H; [discriminate|]. rewrite vb_elems_S in H.
  destruct (cpos c <? ae); [|inversion H; subst; apply step_refl; exact Hw].
  revert H. apply (W_depthchk 0). apply (W_weaken (1 + 0)); [|lia]. apply W_bind; assumption. exact Hw.
Qed.

Lemma W_arr_elems le d et depth len ae : W 1 (vb le d et (depth + 1)) ->
  forall c c', wfc c -> len <= crem c -> arr_elems le d et depth len ae c = inl c' -> step 0 c c'.
Proof.
  intros Hv c c' Hw Hlen H. unfold arr_elems in H.
  assert (Hadv : (inl (advance c len) : res) = inl c' -> step 0 c c').
  { intros E. inversion E; subst. apply (step_weaken len); [apply advance_W; assumption | lia]. }
  destruct (ty_is_fixed et).
  - destruct (negb _); [discriminate|].
    destruct et as [code| | | |]; try exact (Hadv H).
    destruct (code =? DBUS_TYPE_BOOLEAN); [|exact (Hadv H)].
    exact (W_bool_loop le ae _ c c' Hw H).
  - exact (W_vb_elems le d et depth ae Hv _ c c' Hw H).
Qed.

Lemma goodb_struct_in ts t : goodb (TStruct ts) = true -> In t ts -> goodb t = true.
Proof. cbn [goodb]. intros H Hin. apply andb_true_iff in H. destruct H as [_ H]. rewrite forallb_forall in H. apply H. exact Hin. Qed.

Lemma goodb_struct_ne ts : goodb (TStruct ts) = true -> ts <> [].
Proof. cbn [goodb]. intros H. destruct ts; [discriminate H | discriminate]. Qed.

Lemma W_varbody le d depth s :
  (forall t depth, goodb t = true -> W 1 (vb le d t depth)) -> W 0 (varbody le d depth s).
Proof.
  intros IH. unfold varbody. destruct (parse_sig s) as [[|ct more]|] eqn:P; try (intros c c' _ H; discriminate).
  apply parse_sig_good in P. cbn [forallb] in P. apply andb_true_iff in P. destruct P as [Pct _].
  apply (W_weaken (0 + (1 + 0))); [|lia]. apply W_bind; [apply W_padchk|]. apply W_depthchk.
  apply W_bind; [apply IH; exact Pct | apply W_final].
Qed.

Theorem vb_W le : forall d t depth, goodb t = true -> W 1 (vb le d t depth).
Proof.
  induction d as [|d IH]; intros t depth Hg; [intros c c' _ H; discriminate|].
  destruct t as [code| |et|ts|k v].
  - destruct (code =? DBUS_TYPE_BYTE) eqn:Eb.
    { apply N.eqb_eq in Eb. subst code. apply (W_eq 1 _ _ (vbc_byte le d depth)). apply W_entry, W_post. }
    destruct (type_fixed code) eqn:Ef.
    { apply (W_eq 1 _ _ (fun c => vbc_fixed le d code depth c Eb Ef)). apply W_entry, W_fixedbody, fixed_align, Ef. }
    destruct ((code =? DBUS_TYPE_STRING) || (code =? DBUS_TYPE_OBJECT_PATH)) eqn:Es.
    { apply (W_eq 1 _ _ (fun c => vbc_string le d code depth c Eb Ef Es)). apply W_entry.
      apply (W_weaken (4 + 1)); [|lia]. apply W_bindp; [apply Wp_read_len32 | intros len; apply W_strbody]. }
    destruct (code =? DBUS_TYPE_SIGNATURE) eqn:Eg.
    { apply N.eqb_eq in Eg. subst code. apply (W_eq 1 _ _ (vbc_signature le d depth)). apply W_entry.
      apply (W_weaken (1 + 0)); [|lia]. apply W_bindp; [apply Wp_sigread | intros _; apply W_ret]. }
    apply (W_eq 1 _ _ (fun c => vbc_gap le d code depth c Eb Ef Es Eg)). apply W_entry. intros c c' _ H. discriminate.
  - apply (W_eq 1 _ _ (vbc_variant le d depth)). apply W_entry.
    apply (W_weaken (1 + 0)); [|lia]. apply W_bindp; [apply Wp_sigread | intros s; apply W_varbody; exact IH].
  - apply (W_eq 1 _ _ (vbc_array le d et depth)). apply W_entry.
    apply (W_weaken (4 + (0 + 0))); [|lia]. apply W_bindp; [apply Wp_read_len32 | intros len].
    apply W_bind; [apply W_padchk|]. apply W_arrbody. intros ae. apply W_arr_elems. apply IH. exact Hg.
  - apply (W_eq 1 _ _ (vbc_struct le d ts depth)). apply W_entry.
    apply (W_weaken (0 + 1)); [|lia]. apply W_bind; [apply W_padchk|]. apply W_depthchk.
    apply W_vbs1; [exact (goodb_struct_ne ts Hg)|]. intros t Hin. apply IH. exact (goodb_struct_in ts t Hg Hin).
  - apply (W_eq 1 _ _ (vbc_dict le d k v depth)). apply W_entry.
    apply (W_weaken (0 + 1)); [|lia]. apply W_bind; [apply W_padchk|]. apply W_depthchk.
    apply W_vbs1; [discriminate|]. intros t [<-|[<-|[]]]; apply IH; [reflexivity | exact Hg].
Qed.

Lemma vb_W0 le d t depth : goodb t = true -> W 0 (vb le d t depth).
Proof. intros H. apply (W_weaken 1); [apply vb_W; exact H | lia]. Qed.

(* ---- (L): locality of [vb] -------------------------------------------------------- *)
Section Locality.
Variable y : bytes.

Lemma L_final more : L y (final more).
Proof. intros c Hw. unfold final. destruct more; [reflexivity|]. cbn. intros; discriminate. Qed.

Lemma L_err e : L y (fun _ => inr e).
Proof. intros c Hw. cbn. intros; discriminate. Qed.

Lemma L_vbs le d depth : forall ts, (forall t, In t ts -> goodb t = true) ->
  (forall t, In t ts -> L y (vb le d t depth)) -> L y (vbs le d ts depth).
Proof.
  induction ts as [|t r IH]; intros Hg Ht; [exact (L_ret y)|].
  apply (L_eq y _ _ (vbs_cons le d t r depth)).
  apply L_bind.
  - apply Ht. left. reflexivity.
  - apply vb_W0. apply Hg. left. reflexivity.
  - apply IH; intros t' Hin; [apply Hg | apply Ht]; right; exact Hin.
  - apply W_vbs. intros t' Hin. apply vb_W. apply Hg. right. exact Hin.
Qed.

Lemma L_vb_elems le d et depth ae : goodb et = true -> L y (vb le d et (depth + 1)) -> forall n, L y (vb_elems le d et depth ae n).
Proof.
  intros Hg Hv. induction n as [|n IH]; intros c Hw; [cbn; intros; discriminate|]. rewrite !vb_elems_S. rewrite cpos_ext.
  destruct (cpos c <? ae); [|reflexivity].
  apply (L_depthchk y depth). 2: exact Hw.
  apply L_bind; [exact Hv | apply vb_W0; exact Hg | exact IH | apply W_vb_elems; apply vb_W; exact Hg].
Qed.

Lemma L_arr_elems le d et depth len ae : goodb et = true -> L y (vb le d et (depth + 1)) ->
  forall c, wfc c -> len <= crem c -> locr y (endp c) (arr_elems le d et depth len ae c) (arr_elems le d et depth len ae (ext y c)).
Proof.
  intros Hg Hv c Hw Hlen. unfold arr_elems.
  assert (Hadv : locr y (endp c) (inl (advance c len)) (inl (advance (ext y c) len))).
  { cbn [locr]. rewrite advance_ext by assumption. reflexivity. }
  destruct (ty_is_fixed et).
  - destruct (negb _); [cbn; intros; discriminate|].
    destruct et as [code| | | |]; try exact Hadv.
    destruct (code =? DBUS_TYPE_BOOLEAN); [|exact Hadv].
    exact (L_bool_loop y le ae _ c Hw).
  - exact (L_vb_elems le d et depth ae Hg Hv _ c Hw).
Qed.

Lemma L_varbody le d depth s :
  (forall t depth, goodb t = true -> L y (vb le d t depth)) -> L y (varbody le d depth s).
Proof.
  intros IH. unfold varbody. destruct (parse_sig s) as [[|ct more]|] eqn:P; try apply L_err.
  apply parse_sig_good in P. cbn [forallb] in P. apply andb_true_iff in P. destruct P as [Pct _].
  assert (Wk : W 0 (bind (vb le d ct (depth + 1)) (final more))).
  { apply (W_weaken (0 + 0)); [|lia]. apply W_bind; [apply vb_W0; exact Pct | apply W_final]. }
  apply L_bind; [apply L_padchk | apply W_padchk | | apply W_depthchk; exact Wk].
  apply L_depthchk. apply L_bind; [apply IH; exact Pct | apply vb_W0; exact Pct | apply L_final | apply W_final].
Qed.

Lemma L_vb_entry le d t depth f : goodb t = true ->
  (forall c, vb le (S d) t depth c = entry f c) -> L y f -> L y (vb le (S d) t depth).
Proof.
  intros Hg Heq Lf. apply (L_eq y _ _ Heq). apply L_entry; [intros c Hw _; apply Lf; exact Hw|].
  apply (W_eq 1 _ _ (fun c => eq_sym (Heq c))). apply vb_W. exact Hg.
Qed.

Theorem vb_L le : forall d t depth, goodb t = true -> L y (vb le d t depth).
Proof.
  induction d as [|d IH]; intros t depth Hg; [intros c _; cbn; intros; discriminate|].
  destruct t as [code| |et|ts|k v].
  - destruct (code =? DBUS_TYPE_BYTE) eqn:Eb.
    { apply N.eqb_eq in Eb. subst code. apply (L_vb_entry le d _ depth _ Hg (vbc_byte le d depth)). apply L_post. }
    destruct (type_fixed code) eqn:Ef.
    { apply (L_vb_entry le d _ depth _ Hg (fun c => vbc_fixed le d code depth c Eb Ef)). apply L_fixedbody, fixed_align, Ef. }
    destruct ((code =? DBUS_TYPE_STRING) || (code =? DBUS_TYPE_OBJECT_PATH)) eqn:Es.
    { apply (L_vb_entry le d _ depth _ Hg (fun c => vbc_string le d code depth c Eb Ef Es)).
      apply L_bindp; [apply Lp_read_len32 | apply (Wp_weaken 4); [apply Wp_read_len32 | lia] | intros len; apply L_strbody
                     | intros len; apply (W_weaken 1); [apply W_strbody | lia]]. }
    destruct (code =? DBUS_TYPE_SIGNATURE) eqn:Eg.
    { apply N.eqb_eq in Eg. subst code. apply (L_vb_entry le d _ depth _ Hg (vbc_signature le d depth)).
      apply L_bindp; [apply Lp_sigread | apply (Wp_weaken 1); [apply Wp_sigread | lia] | intros _; apply L_ret | intros _; apply W_ret]. }
    apply (L_vb_entry le d _ depth _ Hg (fun c => vbc_gap le d code depth c Eb Ef Es Eg)). apply L_err.
  - apply (L_vb_entry le d _ depth _ Hg (vbc_variant le d depth)).
    apply L_bindp; [apply Lp_sigread | apply (Wp_weaken 1); [apply Wp_sigread | lia] | intros s; apply L_varbody; exact IH
                   | intros s; apply W_varbody; intros t0 depth0; apply vb_W].
  - apply (L_vb_entry le d _ depth _ Hg (vbc_array le d et depth)).
    apply L_bindp; [apply Lp_read_len32 | apply (Wp_weaken 4); [apply Wp_read_len32 | lia] | intros len | intros len].
    + apply L_bind; [apply L_padchk | apply W_padchk | | ].
      * apply L_arrbody. intros ae. apply L_arr_elems; [exact Hg | apply IH; exact Hg].
      * apply W_arrbody. intros ae. apply W_arr_elems. apply vb_W. exact Hg.
    + apply (W_weaken (0 + 0)); [|lia]. apply W_bind; [apply W_padchk|]. apply W_arrbody. intros ae. apply W_arr_elems. apply vb_W. exact Hg.
  - apply (L_vb_entry le d _ depth _ Hg (vbc_struct le d ts depth)).
    assert (Hin : forall t, In t ts -> goodb t = true) by (intros t; apply goodb_struct_in; exact Hg).
    apply L_bind; [apply L_padchk | apply W_padchk | | ].
    + apply L_depthchk. apply L_vbs; [exact Hin | intros t Ht; apply IH; apply Hin; exact Ht].
    + apply W_depthchk. apply W_vbs. intros t Ht. apply vb_W. apply Hin. exact Ht.
  - apply (L_vb_entry le d _ depth _ Hg (vbc_dict le d k v depth)).
    assert (Hin : forall t, In t [TBasic k; v] -> goodb t = true) by (intros t [<-|[<-|[]]]; [reflexivity | exact Hg]).
    apply L_bind; [apply L_padchk | apply W_padchk | | ].
    + apply L_depthchk. apply L_vbs; [exact Hin | intros t Ht; apply IH; apply Hin; exact Ht].
    + apply W_depthchk. apply W_vbs. intros t Ht. apply vb_W. apply Hin. exact Ht.
Qed.

Lemma vbs_L le d depth ts : forallb goodb ts = true -> L y (vbs le d ts depth).
Proof.
  intros Hg. rewrite forallb_forall in Hg. apply L_vbs; [exact Hg | intros t Ht; apply vb_L; apply Hg; exact Ht].
Qed.
End Locality.

Lemma vbs_W le d depth ts : forallb goodb ts = true -> W 0 (vbs le d ts depth).
Proof. intros Hg. rewrite forallb_forall in Hg. apply W_vbs. intros t Ht. apply vb_W. apply Hg. exact Ht. Qed.

(* ---- more fuel / smaller depth keep a successful run ---------------------------------- *)
Lemma sub_vbs le d d' depth depth' : forall ts,
  (forall t, sub (vb le d t depth) (vb le d' t depth')) -> sub (vbs le d ts depth) (vbs le d' ts depth').
Proof.
  intros ts Hv. induction ts as [|t r IH]; [apply sub_refl|].
  apply (sub_eq _ _ _ _ (vbs_cons le d t r depth) (vbs_cons le d' t r depth')). apply sub_bind; [apply Hv | exact IH].
Qed.

Lemma sub_vb_elems le d d' et depth depth' ae : depth' <= depth ->
  sub (vb le d et (depth + 1)) (vb le d' et (depth' + 1)) ->
  forall n, sub (vb_elems le d et depth ae n) (vb_elems le d' et depth' ae n).
Proof.
  intros Hd Hv. induction n as [|n IH]; intros c c' H; [discriminate|]. rewrite vb_elems_S in *.
  destruct (cpos c <? ae); [|exact H].
  revert H. apply sub_depthchk; [exact Hd|]. apply sub_bind; [exact Hv | exact IH].
Qed.

Lemma sub_arrbody r r' len : (forall ae, sub (r ae) (r' ae)) -> sub (arrbody r len) (arrbody r' len).
Proof.
  intros Hr c c' H. unfold arrbody in *. destruct (crem c <? len); [discriminate|].
  destruct (len =? 0); [exact H|]. destruct (DBUS_MAXIMUM_ARRAY_LENGTH <? len); [discriminate|].
  destruct (r (cpos c + len) c) as [c4|e] eqn:R; [|discriminate]. rewrite (Hr _ _ _ R). exact H.
Qed.

Lemma sub_arr_elems le d d' et depth depth' len ae : depth' <= depth ->
  sub (vb le d et (depth + 1)) (vb le d' et (depth' + 1)) ->
  sub (arr_elems le d et depth len ae) (arr_elems le d' et depth' len ae).
Proof.
  intros Hd Hv c c' H. unfold arr_elems in *. destruct (ty_is_fixed et); [exact H|].
  exact (sub_vb_elems le d d' et depth depth' ae Hd Hv _ c c' H).
Qed.

Lemma sub_varbody le d d' depth depth' s : depth' <= depth ->
  (forall t, sub (vb le d t (depth + 1)) (vb le d' t (depth' + 1))) -> sub (varbody le d depth s) (varbody le d' depth' s).
Proof.
  intros Hd Hv. unfold varbody. destruct (parse_sig s) as [[|ct more]|]; try apply sub_refl.
  apply sub_bind; [apply sub_refl|]. apply sub_depthchk; [exact Hd|]. apply sub_bind; [apply Hv | apply sub_refl].
Qed.

Theorem vb_sub le : forall d d' t depth depth', (d <= d')%nat -> depth' <= depth ->
  sub (vb le d t depth) (vb le d' t depth').
Proof.
  induction d as [|d IH]; intros d' t depth depth' Hd Hdep; [intros c c' H; discriminate|].
  destruct d' as [|d']; [lia|]. assert (Hd' : (d <= d')%nat) by lia.
  assert (Hdep1 : depth' + 1 <= depth + 1) by lia.
  destruct t as [code| |et|ts|k v].
  - destruct (code =? DBUS_TYPE_BYTE) eqn:Eb.
    { apply N.eqb_eq in Eb. subst code. apply (sub_eq _ _ _ _ (vbc_byte le d depth) (vbc_byte le d' depth')). apply sub_refl. }
    destruct (type_fixed code) eqn:Ef.
    { apply (sub_eq _ _ _ _ (fun c => vbc_fixed le d code depth c Eb Ef) (fun c => vbc_fixed le d' code depth' c Eb Ef)). apply sub_refl. }
    destruct ((code =? DBUS_TYPE_STRING) || (code =? DBUS_TYPE_OBJECT_PATH)) eqn:Es.
    { apply (sub_eq _ _ _ _ (fun c => vbc_string le d code depth c Eb Ef Es) (fun c => vbc_string le d' code depth' c Eb Ef Es)). apply sub_refl. }
    destruct (code =? DBUS_TYPE_SIGNATURE) eqn:Eg.
    { apply N.eqb_eq in Eg. subst code. apply (sub_eq _ _ _ _ (vbc_signature le d depth) (vbc_signature le d' depth')). apply sub_refl. }
    apply (sub_eq _ _ _ _ (fun c => vbc_gap le d code depth c Eb Ef Es Eg) (fun c => vbc_gap le d' code depth' c Eb Ef Es Eg)). apply sub_refl.
  - apply (sub_eq _ _ _ _ (vbc_variant le d depth) (vbc_variant le d' depth')). apply sub_entry. apply sub_bindp. intros s.
    apply sub_varbody; [exact Hdep|]. intros t. apply IH; assumption.
  - apply (sub_eq _ _ _ _ (vbc_array le d et depth) (vbc_array le d' et depth')). apply sub_entry. apply sub_bindp. intros len.
    apply sub_bind; [apply sub_refl|]. apply sub_arrbody. intros ae. apply sub_arr_elems; [exact Hdep|]. apply IH; assumption.
  - apply (sub_eq _ _ _ _ (vbc_struct le d ts depth) (vbc_struct le d' ts depth')). apply sub_entry.
    apply sub_bind; [apply sub_refl|]. apply sub_depthchk; [exact Hdep|]. apply sub_vbs. intros t. apply IH; assumption.
  - apply (sub_eq _ _ _ _ (vbc_dict le d k v depth) (vbc_dict le d' k v depth')). apply sub_entry.
    apply sub_bind; [apply sub_refl|]. apply sub_depthchk; [exact Hdep|]. apply sub_vbs. intros t. apply IH; assumption.
Qed.

(* ---- the three facts in plain form ------------------------------------------------------ *)
Lemma locr_B y E r r' c' : locr y E r r' -> r = inl c' -> r' = inl (ext y c').
Proof. intros H ->. exact H. Qed.

Lemma locr_A y E r r' c'' : locr y E r r' -> r' = inl c'' -> cpos c'' <= E -> exists c', r = inl c' /\ c'' = ext y c'.
Proof.
  intros H Hr' Hle. destruct r as [c'|e]; cbn [locr] in H.
  - exists c'. split; [reflexivity|]. congruence.
  - specialize (H c'' Hr'). lia.
Qed.

Lemma locr_err y E r r' e : locr y E r r' -> r' = inr e -> exists e', r = inr e'.
Proof. intros H ->. destruct r as [c'|e']; [discriminate H | exists e'; reflexivity]. Qed.

(* (W) success keeps the cursor well formed, moves strictly forward, keeps cpos + crem, and leaves the rest of the data *)
Theorem vb_success le d t depth c c' : goodb t = true -> wfc c -> vb le d t depth c = inl c' ->
  wfc c' /\ cpos c < cpos c' /\ cpos c' + crem c' = cpos c + crem c /\
  cdat c' = skipn (N.to_nat (cpos c' - cpos c)) (cdat c).
Proof.
  intros Hg Hw H. destruct (vb_W le d t depth Hg c c' Hw H) as (S1 & S2 & S3 & S4).
  repeat split; [exact S1 | lia | exact S3 | exact S4].
Qed.

(* (B) success is stable under appending bytes *)
Theorem vb_append le d t depth y c c' : goodb t = true -> wfc c ->
  vb le d t depth c = inl c' -> vb le d t depth (ext y c) = inl (ext y c').
Proof. intros Hg Hw H. exact (locr_B _ _ _ _ _ (vb_L y le d t depth Hg c Hw) H). Qed.

(* (A) a success on the extended buffer that ends inside the original one is a success on the original *)
Theorem vb_append_inv le d t depth y c c'' : goodb t = true -> wfc c ->
  vb le d t depth (ext y c) = inl c'' -> cpos c'' <= cpos c + crem c ->
  exists c', vb le d t depth c = inl c' /\ c'' = ext y c'.
Proof. intros Hg Hw H Hle. exact (locr_A _ _ _ _ _ (vb_L y le d t depth Hg c Hw) H Hle). Qed.

Theorem vbs_append le d ts depth y c c' : forallb goodb ts = true -> wfc c ->
  vbs le d ts depth c = inl c' -> vbs le d ts depth (ext y c) = inl (ext y c').
Proof. intros Hg Hw H. exact (locr_B _ _ _ _ _ (vbs_L y le d depth ts Hg c Hw) H). Qed.

Theorem vbs_append_inv le d ts depth y c c'' : forallb goodb ts = true -> wfc c ->
  vbs le d ts depth (ext y c) = inl c'' -> cpos c'' <= cpos c + crem c ->
  exists c', vbs le d ts depth c = inl c' /\ c'' = ext y c'.
Proof. intros Hg Hw H Hle. exact (locr_A _ _ _ _ _ (vbs_L y le d depth ts Hg c Hw) H Hle). Qed.

Lemma vb_seq_vbs le ts depth c : vb_seq le ts depth c = vbs le DEPTH_FUEL ts depth c.
Proof. revert c. induction ts as [|t r IH]; intros c; [reflexivity|]. cbn [vb_seq vbs]. destruct (vb le DEPTH_FUEL t depth c); [apply IH | reflexivity]. Qed.
