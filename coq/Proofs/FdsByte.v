(* C15 proofs, part 9: the byte-level receive path (coq/Fds/ByteLoader.v).
   - erasing identities gives exactly the wire package's loader (so C01 / C11 speak about this one);
   - descriptors are conserved and attached in arrival order: the descriptors of the queued messages, in queue
     order, followed by the pool are always what was accepted, in the order of acceptance;
   - every queued message holds exactly as many descriptors as its UNIX_FDS field says;
   - the read loop installs nothing it does not either keep (pool / message) or close at once, the pool never
     exceeds max_message_unix_fds, and the loop never runs out of fuel. *)
From Coq Require Import Permutation.
From DV Require Import Lib.Base Gen.Tables Wire.Message Proofs.LoaderProofs Proofs.ReadLimit Fds.ByteLoader Proofs.FdsBase.
From Coq Require Import ZArith ZifyBool ZifyN ZifyNat.
Local Open Scope N_scope.

Definition coherent (b : bl) : Prop := l_fds (b_l b) = nlen (b_pool b).
Definition att_ok (b : bl) : Prop := Forall2 (fun F m => nlen F = m_nfds m) (b_att b) (l_msgs (b_l b)).
Definition owned (b : bl) : list N := concat (b_att b) ++ b_pool b.

Lemma load_message_nfds_le le fl hl bdl avail d m : load_message le fl hl bdl avail d = inl m -> m_nfds m <= avail.
Proof.
  unfold load_message. destruct (header_load le fl hl d) as [fs|e]; [|discriminate].
  destruct (parse_sig _) as [tys|]; [|discriminate].
  destruct (negb _); [discriminate|].
  destruct (avail <? _) eqn:E; [discriminate|].
  intros H. inversion H. cbn [m_nfds]. apply N.ltb_ge in E. exact E.
Qed.

Lemma bq_S f b :
  bqueue (S f) b =
  let l := b_l b in
  if l_corrupted l then b
  else if nlen (l_buf l) <? DBUS_MINIMUM_HEADER_SIZE then b
  else match have_message (l_max l) (l_buf l) with
       | HaveInvalid r => mkBL (mkLoader (l_buf l) true r (l_msgs l) (l_fds l) (l_max l)) (b_pool b) (b_att b)
       | HaveOk le fl hl bdl false => b
       | HaveOk le fl hl bdl true =>
           match load_message le fl hl bdl (nlen (b_pool b)) (l_buf l) with
           | inr r => mkBL (mkLoader (l_buf l) true r (l_msgs l) (l_fds l) (l_max l)) (b_pool b) (b_att b)
           | inl m =>
               bqueue f (mkBL (mkLoader (skipn (N.to_nat (hl + bdl)) (l_buf l)) false V_VALID
                                        (l_msgs l ++ [m]) (l_fds l - m_nfds m) (l_max l))
                              (skipn (N.to_nat (m_nfds m)) (b_pool b)) (b_att b ++ [firstn (N.to_nat (m_nfds m)) (b_pool b)]))
           end
       end.
Proof. reflexivity. Qed.

(* one induction for everything bqueue preserves *)
Lemma bqueue_spec : forall f b, coherent b -> att_ok b ->
  b_l (bqueue f b) = queue_messages f (b_l b) /\ coherent (bqueue f b) /\ att_ok (bqueue f b) /\
  owned (bqueue f b) = owned b.
Proof.
  induction f as [|f IH]; intros b Hc Ha; [simpl; auto|].
  rewrite bq_S, qm_S. cbv zeta.
  destruct (l_corrupted (b_l b)); [auto|].
  destruct (nlen (l_buf (b_l b)) <? DBUS_MINIMUM_HEADER_SIZE); [auto|].
  destruct (have_message (l_max (b_l b)) (l_buf (b_l b))) as [r|le fl hl bdl c]; [cbn; auto|].
  destruct c; [|auto].
  unfold coherent in Hc. rewrite <- Hc.
  destruct (load_message le fl hl bdl (l_fds (b_l b)) (l_buf (b_l b))) as [m|r] eqn:Hl; [|cbn; auto].
  pose proof (load_message_nfds_le _ _ _ _ _ _ _ Hl) as Hle. rewrite Hc in Hle.
  set (b' := mkBL _ _ _).
  assert (Hc' : coherent b').
  { unfold coherent, b'. cbn [b_l b_pool l_fds]. unfold nlen in *. rewrite skipn_length. lia. }
  assert (Ha' : att_ok b').
  { unfold att_ok, b'. cbn [b_l b_att l_msgs]. apply Forall2_app; [exact Ha|]. constructor; [|constructor].
    apply firstn_nlen. exact Hle. }
  destruct (IH b' Hc' Ha') as (E1 & E2 & E3 & E4). splits; auto.
  rewrite E4. unfold owned, b'. cbn [b_att b_pool]. rewrite concat_app. simpl. rewrite app_nil_r, <- app_assoc, firstn_skipn. reflexivity.
Qed.

Lemma bfeed_spec b chunk F : coherent b -> att_ok b ->
  b_l (bfeed b chunk F) = feed (b_l b) chunk (nlen F) /\ coherent (bfeed b chunk F) /\ att_ok (bfeed b chunk F) /\
  owned (bfeed b chunk F) = owned b ++ F.
Proof.
  intros Hc Ha. unfold bfeed, feed.
  set (l1 := mkLoader _ _ _ _ _ _).
  assert (Hc1 : coherent (mkBL l1 (b_pool b ++ F) (b_att b))).
  { unfold coherent, l1. cbn. rewrite nlen_app. unfold coherent in Hc. rewrite Hc. reflexivity. }
  assert (Ha1 : att_ok (mkBL l1 (b_pool b ++ F) (b_att b))) by exact Ha.
  destruct (bqueue_spec (S (length (l_buf l1))) _ Hc1 Ha1) as (E1 & E2 & E3 & E4).
  splits; auto. rewrite E4. unfold owned. cbn. rewrite app_assoc. reflexivity.
Qed.

(* ---------------------------------------------------------------- the read loop *)
Record TInv (maxfds : N) (t : btr) : Prop := mkTInv {
  ti_coh : coherent (t_b t);
  ti_att : att_ok (t_b t);
  ti_bal : Permutation (t_recv t) (t_closed t ++ owned (t_b t));
  ti_bound : nlen (b_pool (t_b t)) <= maxfds }.

Lemma pool_le_owned b b' X : owned b' = owned b ++ X -> att_ok b -> att_ok b' ->
  l_msgs (b_l b') = l_msgs (b_l b) ++ skipn (length (l_msgs (b_l b))) (l_msgs (b_l b')) -> True.
Proof. auto. Qed.

(* the pool only shrinks through bqueue *)
Lemma bqueue_pool_le : forall f b, nlen (b_pool (bqueue f b)) <= nlen (b_pool b).
Proof.
  induction f as [|f IH]; intros b; [simpl; lia|].
  rewrite bq_S. cbv zeta.
  destruct (l_corrupted (b_l b)); [lia|].
  destruct (nlen (l_buf (b_l b)) <? DBUS_MINIMUM_HEADER_SIZE); [lia|].
  destruct (have_message (l_max (b_l b)) (l_buf (b_l b))) as [r|le fl hl bdl c]; [cbn; lia|].
  destruct c; [|lia].
  destruct (load_message le fl hl bdl (nlen (b_pool b)) (l_buf (b_l b))) as [m|r]; [|cbn; lia].
  eapply N.le_trans; [apply IH|]. cbn [b_pool]. unfold nlen. rewrite skipn_length. lia.
Qed.

Lemma bfeed_pool_le b chunk F : nlen (b_pool (bfeed b chunk F)) <= nlen (b_pool b) + nlen F.
Proof. unfold bfeed. eapply N.le_trans; [apply bqueue_pool_le|]. cbn [b_pool]. rewrite nlen_app. lia. Qed.

Definition bread_post (maxfds : N) (neg : bool) (t t' : btr) (F : list N) : Prop :=
  TInv maxfds t' /\
  (exists A, (A = [] \/ A = F) /\ owned (t_b t') = owned (t_b t) ++ A) /\
  (exists k, t_recv t' = t_recv t ++ firstn k F) /\
  (t_recv t' <> t_recv t -> neg = true).

Lemma bread_done maxfds neg t t' F A k :
  TInv maxfds t' -> (A = [] \/ A = F) -> owned (t_b t') = owned (t_b t) ++ A ->
  t_recv t' = t_recv t ++ firstn k F -> (firstn k F <> [] -> neg = true) -> bread_post maxfds neg t t' F.
Proof.
  intros I HA Ho Hr Hn. split; [exact I|]. split; [exists A; auto|]. split; [exists k; exact Hr|].
  intros Hd. apply Hn. intros E. apply Hd. rewrite Hr, E, app_nil_r. reflexivity.
Qed.

Lemma bread_then maxfds neg t t1 t2 F :
  bread_post maxfds neg t t1 F -> bread_post maxfds neg t1 t2 [] -> bread_post maxfds neg t t2 F.
Proof.
  intros (I1 & (A & HA & Ho) & (k & Hr) & Hn) (I2 & (A2 & HA2 & Ho2) & (k2 & Hr2) & Hn2).
  assert (A2 = []) as -> by (destruct HA2; auto). rewrite app_nil_r in Ho2. rewrite firstn_nil, app_nil_r in Hr2.
  split; [exact I2|]. split; [exists A; split; auto; congruence|]. split; [exists k; congruence|].
  intros Hd. apply Hn. congruence.
Qed.

Lemma bread_nop maxfds neg t F : TInv maxfds t -> bread_post maxfds neg t t F.
Proof. intros I. apply (bread_done _ _ _ _ _ [] 0%nat); auto; try (rewrite app_nil_r; reflexivity). Qed.

Theorem bread_spec maxfds cap neg : forall fuel t chunk F,
  TInv maxfds t -> let '(t', st) := bread fuel maxfds cap neg t chunk F in bread_post maxfds neg t t' F.
Proof.
  induction fuel as [|fuel IH]; intros t chunk F I.
  { simpl. apply bread_nop. exact I. }
  pose proof (bread_nop maxfds neg t F I) as Hnop.
  cbn [bread].
  destruct chunk as [|c0 chunk]; [exact Hnop|].
  destruct (max_to_read (b_l (t_b t))) as [[mx may]|]; [|exact Hnop].
  set (k := N.to_nat (N.min (N.min mx cap) (nlen (c0 :: chunk)))).
  destruct k as [|k'] eqn:Ek; [exact Hnop|]. rewrite <- Ek.
  destruct I as [Ic Ia Ib Ibd].
  (* a read that takes no descriptors in, whatever the kernel did with them *)
  assert (Hplain : forall kd,
     let b' := bfeed (t_b t) (firstn k (c0 :: chunk)) [] in
     TInv maxfds (mkBT b' (t_recv t) (t_closed t) kd) /\ owned b' = owned (t_b t)).
  { intros kd. destruct (bfeed_spec (t_b t) (firstn k (c0 :: chunk)) [] Ic Ia) as (E1 & E2 & E3 & E4).
    rewrite app_nil_r in E4. split; [|exact E4]. constructor; cbn [t_b t_recv t_closed t_kdrop]; auto.
    - rewrite E4. exact Ib.
    - eapply N.le_trans; [apply bfeed_pool_le|]. unfold nlen at 2. simpl. lia. }
  assert (Hrest : forall t1, bread_post maxfds neg t t1 F -> TInv maxfds t1 ->
     let '(t2, st2) := bread fuel maxfds cap neg t1 (skipn k (c0 :: chunk)) [] in bread_post maxfds neg t t2 F).
  { intros t1 P1 I1. specialize (IH t1 (skipn k (c0 :: chunk)) [] I1).
    destruct (bread fuel maxfds cap neg t1 (skipn k (c0 :: chunk)) []) as [t2 st2]. eapply bread_then; eauto. }
  destruct F as [|f0 F'].
  - destruct (Hplain (t_kdrop t)) as [I' Eo].
    set (b' := bfeed (t_b t) (firstn k (c0 :: chunk)) []) in *.
    assert (P1 : bread_post maxfds neg t (mkBT b' (t_recv t) (t_closed t) (t_kdrop t)) []).
    { apply (bread_done _ _ _ _ _ [] 0%nat); cbn [t_b t_recv]; auto; rewrite ?app_nil_r; auto; try (simpl; congruence). }
    destruct (l_corrupted (b_l b')); [exact P1 | apply Hrest; auto].
  - set (F := f0 :: F') in *.
    destruct (neg && may) eqn:En.
    + apply andb_true_iff in En. destruct En as [Hneg _].
      destruct (nlen F <=? maxfds - nlen (b_pool (t_b t))) eqn:Er.
      * apply N.leb_le in Er.
        destruct (bfeed_spec (t_b t) (firstn k (c0 :: chunk)) F Ic Ia) as (E1 & E2 & E3 & E4).
        set (b' := bfeed (t_b t) (firstn k (c0 :: chunk)) F) in *.
        assert (I' : TInv maxfds (mkBT b' (t_recv t ++ F) (t_closed t) (t_kdrop t))).
        { constructor; cbn [t_b t_recv t_closed t_kdrop]; auto.
          - rewrite E4, Ib. rewrite !app_assoc. reflexivity.
          - eapply N.le_trans; [apply bfeed_pool_le|]. lia. }
        assert (P1 : bread_post maxfds neg t (mkBT b' (t_recv t ++ F) (t_closed t) (t_kdrop t)) F).
        { apply (bread_done _ _ _ _ _ F (length F)); cbn [t_b t_recv]; auto. rewrite firstn_all. reflexivity. }
        destruct (l_corrupted (b_l b')); [exact P1 | apply Hrest; auto].
      * apply (bread_done _ _ _ _ _ [] (N.to_nat (maxfds - nlen (b_pool (t_b t))))); cbn [t_b t_recv]; auto.
        -- constructor; cbn [t_b t_recv t_closed t_kdrop]; auto.
           rewrite Ib. rewrite <- !app_assoc. apply Permutation_app_head. apply Permutation_app_comm.
        -- rewrite app_nil_r. reflexivity.
    + destruct (Hplain (t_kdrop t ++ F)) as [I' Eo].
      set (b' := bfeed (t_b t) (firstn k (c0 :: chunk)) []) in *.
      assert (P1 : bread_post maxfds neg t (mkBT b' (t_recv t) (t_closed t) (t_kdrop t ++ F)) F).
      { apply (bread_done _ _ _ _ _ [] 0%nat); cbn [t_b t_recv]; auto; rewrite ?app_nil_r; auto; try (simpl; congruence). }
      destruct (l_corrupted (b_l b')); [exact P1 | apply Hrest; auto].
Qed.

(* the loop always has enough fuel: the limit is positive (Proofs/ReadLimit.v) and every pass consumes a byte *)
Theorem bread_fuel maxfds cap neg : 0 < cap -> forall fuel t chunk F,
  (length chunk < fuel)%nat -> snd (bread fuel maxfds cap neg t chunk F) <> BFault.
Proof.
  intros Hcap. induction fuel as [|fuel IH]; intros t chunk F Hf; [lia|].
  cbn [bread]. destruct chunk as [|c0 chunk]; [cbn; discriminate|].
  destruct (max_to_read_progress (b_l (t_b t))) as (mx & may & Hm & Hpos). rewrite Hm.
  set (k := N.to_nat (N.min (N.min mx cap) (nlen (c0 :: chunk)))).
  assert (Hk : (0 < k)%nat) by (unfold k, nlen; simpl length; lia).
  destruct k as [|k'] eqn:Ek; [lia|]. rewrite <- Ek.
  assert (Hlen : (length (skipn k (c0 :: chunk)) < fuel)%nat) by (rewrite skipn_length; simpl length in *; lia).
  destruct F as [|f0 F'].
  - destruct (l_corrupted _); [cbn; discriminate | apply IH; exact Hlen].
  - destruct (neg && may).
    + destruct (_ <=? _); [|cbn; discriminate]. destruct (l_corrupted _); [cbn; discriminate | apply IH; exact Hlen].
    + destruct (l_corrupted _); [cbn; discriminate | apply IH; exact Hlen].
Qed.

Lemma TInv_new maxfds ms : TInv maxfds (bt_new ms).
Proof.
  constructor; cbn.
  - reflexivity.
  - constructor.
  - constructor.
  - unfold nlen; simpl; lia.
Qed.

Theorem brun_inv maxfds cap neg ws : forall t, TInv maxfds t -> TInv maxfds (brun maxfds cap neg t ws).
Proof.
  induction ws as [|[chunk F] r IH]; intros t I; simpl; auto.
  pose proof (bread_spec maxfds cap neg (S (length chunk)) t chunk F I) as P. unfold bread_write.
  destruct (bread (S (length chunk)) maxfds cap neg t chunk F) as [t' st]. destruct P as (I' & _).
  destruct st; auto.
Qed.

(* ---------------------------------------------------------------- the abstract read limit is the byte-level one *)
(* Fds.get_buffer (on a connection record: message in progress as (descriptor, bytes present), pending descriptors)
   against Wire.max_to_read (on the bytes), via the limit theorems of Proofs/ReadLimit.v (the C11_limit theorems).
   abs: the record describes the loader: same number of pending descriptors, the buffer holds h bytes of a message
   whose fixed header frames it as w_len bytes (once 16 bytes are there), not yet complete. *)
From DV Require Import Fds.Fds.

Definition abs_loader (l : loader) (c : conn) : Prop :=
  l_fds l = nlen (c_pend c) /\
  match c_cur c with
  | None => l_buf l = []
  | Some (d, h) =>
      h = nlen (l_buf l) /\ 0 < h /\ h < w_len d /\ w_fixed_ok d = true /\ DBUS_MINIMUM_HEADER_SIZE <= w_len d /\
      (DBUS_MINIMUM_HEADER_SIZE <= h -> exists le fl hl bdl, have_message (l_max l) (l_buf l) = HaveOk le fl hl bdl false /\ w_len d = hl + bdl)
  end.

Theorem get_buffer_refines l c : abs_loader l c -> max_to_read l = Some (get_buffer c).
Proof.
  intros (Hf & Hcur). unfold get_buffer.
  destruct (c_pend c) as [|p0 P] eqn:Ep.
  - apply limit_no_fds. rewrite Hf. reflexivity.
  - assert (Hnz : l_fds l <> 0) by (rewrite Hf; unfold nlen; simpl; lia).
    destruct (c_cur c) as [[d h]|].
    + destruct Hcur as (-> & H0 & Hlt & Hfix & H16 & Hframe).
      pose proof min_hdr_16 as E16.
      destruct (nlen (l_buf l) <? DBUS_MINIMUM_HEADER_SIZE) eqn:E.
      * apply N.ltb_lt in E.
        destruct (limit_in_fixed_header l Hnz H0) as (mx & Hm & Hs); [lia|].
        rewrite Hm. f_equal. f_equal. lia.
      * apply N.ltb_ge in E. rewrite Hfix. simpl.
        assert (nlen (l_buf l) <? w_len d = true) as -> by (apply N.ltb_lt; exact Hlt).
        destruct (Hframe E) as (le & fl & hl & bdl & Hh & Hw).
        destruct (limit_in_message l le fl hl bdl Hnz) as (mx & Hm & Hs); [lia | exact Hh |].
        rewrite Hm. f_equal. f_equal. lia.
    + apply limit_empty. exact Hcur.
Qed.
