(* C04 proofs, part 5: whole histories; the statements used by Props/C04.v. *)
From DV Require Import Lib.Base Gen.Tables Wire.Names Registry.RegTypes Registry.Registry
  Spec.NamesSpec Spec.RegistrySpec Proofs.RegistryBase Proofs.RegistryInv Proofs.RegistryRefine Proofs.RegistryDisc.
Local Open Scope N_scope.

(* the release order the model uses when event e is a disconnection *)
Definition advice (b : bus) (e : event) : list key :=
  match e with EvDisconnect c => release_order b c | _ => [] end.

Lemma step_sim b s e : inv b -> R b s ->
  (forall c, e = EvDisconnect c -> valid_order s c (advice b e)) /\
  let (b', o) := step b e in
  let (s', o') := spec_step as_implemented s e (advice b e) in
  o' = o /\ inv b' /\ R b' s'.
Proof.
  intros I Rr. split.
  - intros c ->. simpl. apply release_order_valid; assumption.
  - destruct e.
    + apply connect_sim; assumption.
    + apply hello_sim; assumption.
    + apply addmatch_sim; assumption.
    + apply request_sim; assumption.
    + apply release_sim; assumption.
    + apply disconnect_sim; assumption.
Qed.

Lemma init_inv limit : inv (init_bus limit).
Proof.
  constructor; simpl; try (intros; contradiction); try (intros; discriminate); constructor.
Qed.

Lemma init_R limit : R (init_bus limit) (sinit limit).
Proof. constructor; simpl; try reflexivity. constructor. Qed.

(* the advice for a whole history, read off the model's run *)
Fixpoint advice_run (b : bus) (h : list event) (i : nat) (j : nat) : list key :=
  match h with
  | [] => []
  | e :: r => if Nat.eqb j i then advice b e else advice_run (fst (step b e)) r (S i) j
  end.

Lemma spec_run_ext v h : forall s adv adv' i, (forall j, (i <= j)%nat -> adv j = adv' j) ->
  spec_run v s h adv i = spec_run v s h adv' i.
Proof.
  induction h as [|e r IH]; intros s adv adv' i H; simpl; [reflexivity|].
  rewrite <- (H i) by apply le_n. destruct (spec_step v s e (adv i)) as [s1 o].
  rewrite (IH s1 adv adv' (S i)); [reflexivity|]. intros j Hj. apply H. apply le_S_n. apply le_S. exact Hj.
Qed.

Lemma valid_advice_ext v h : forall s adv adv' i, (forall j, (i <= j)%nat -> adv j = adv' j) ->
  valid_advice v s h adv i -> valid_advice v s h adv' i.
Proof.
  induction h as [|e r IH]; intros s adv adv' i H; simpl; [auto|].
  rewrite <- (H i) by apply le_n. intros [H1 H2]. split; [exact H1|].
  apply (IH _ adv adv' (S i)); [|exact H2]. intros j Hj. apply H. apply le_S_n. apply le_S. exact Hj.
Qed.

Lemma advice_run_later b e r i j : (S i <= j)%nat -> advice_run b (e :: r) i j = advice_run (fst (step b e)) r (S i) j.
Proof.
  intros H. simpl. destruct (Nat.eqb j i) eqn:E; [|reflexivity]. apply PeanoNat.Nat.eqb_eq in E. subst j. exfalso. apply (PeanoNat.Nat.nle_succ_diag_l i). exact H.
Qed.

Theorem refinement : forall h b s i, inv b -> R b s ->
  let adv := advice_run b h i in
  valid_advice as_implemented s h adv i /\
  snd (spec_run as_implemented s h adv i) = snd (run b h) /\
  inv (fst (run b h)) /\
  R (fst (run b h)) (fst (spec_run as_implemented s h adv i)).
Proof.
  induction h as [|e r IH]; intros b s i I Rr; cbn zeta.
  - simpl. auto.
  - destruct (step_sim b s e I Rr) as [Hv Hs].
    assert (Hadv : advice_run b (e :: r) i i = advice b e) by (simpl; rewrite PeanoNat.Nat.eqb_refl; reflexivity).
    cbn [valid_advice spec_run run]. rewrite Hadv.
    destruct (step b e) as [b1 o] eqn:Eb. destruct (spec_step as_implemented s e (advice b e)) as [s1 o'] eqn:Es.
    destruct Hs as [Ho [I1 R1]]. subst o'.
    destruct (IH b1 s1 (S i) I1 R1) as [Hva [Hout [I2 R2]]].
    assert (Hext : forall j, (S i <= j)%nat -> advice_run b1 r (S i) j = advice_run b (e :: r) i j).
    { intros j Hj. rewrite advice_run_later by exact Hj. rewrite Eb. reflexivity. }
    rewrite <- (spec_run_ext as_implemented r s1 _ _ (S i) Hext).
    destruct (spec_run as_implemented s1 r (advice_run b1 r (S i)) (S i)) as [s2 os] eqn:Er.
    destruct (run b1 r) as [b2 os'] eqn:Erun. cbn [fst snd] in *.
    split; [split; [exact Hv | apply (valid_advice_ext as_implemented r s1 _ _ (S i) Hext); exact Hva]|].
    split; [rewrite Hout; reflexivity|]. split; [exact I2 | exact R2].
Qed.

Theorem refines_partial limit h :
  let adv := advice_run (init_bus limit) h 0 in
  valid_advice as_implemented (sinit limit) h adv 0 /\
  snd (spec_run as_implemented (sinit limit) h adv 0) = snd (run (init_bus limit) h) /\
  R (fst (run (init_bus limit) h)) (fst (spec_run as_implemented (sinit limit) h adv 0)).
Proof.
  destruct (refinement h (init_bus limit) (sinit limit) 0%nat (init_inv limit) (init_R limit)) as [A [B [_ C]]]. auto.
Qed.

Theorem reachable_inv limit h : inv (fst (run (init_bus limit) h)).
Proof.
  destruct (refinement h (init_bus limit) (sinit limit) 0%nat (init_inv limit) (init_R limit)) as [_ [_ [C _]]]. exact C.
Qed.

Theorem reachable_R limit h : exists s, R (fst (run (init_bus limit) h)) s.
Proof.
  destruct (refinement h (init_bus limit) (sinit limit) 0%nat (init_inv limit) (init_R limit)) as [_ [_ [_ C]]]. eauto.
Qed.

(* ---- consequences of the invariant ------------------------------------------------------------------- *)
Theorem single_primary limit h k q :
  lookup (b_services (fst (run (init_bus limit) h))) k = Some q ->
  q <> [] /\ NoDup (map o_conn q) /\ (forall o, In o (tl q) -> o_dnq o = false).
Proof. intros H. exact (inv_q _ (reachable_inv limit h) k q H). Qed.

Theorem service_keys_unique limit h : NoDup (map fst (b_services (fst (run (init_bus limit) h)))).
Proof. exact (inv_keys _ (reachable_inv limit h)). Qed.

Theorem reserved_never_owned limit h name :
  requestable name = false -> lookup (b_services (fst (run (init_bus limit) h))) (KW name) = None.
Proof.
  intros H. destruct (lookup (b_services (fst (run (init_bus limit) h))) (KW name)) as [q|] eqn:E; [|reflexivity].
  rewrite (inv_reserved _ (reachable_inv limit h) name q E) in H. discriminate.
Qed.

Theorem reserved_request_refused b c cn name flags :
  find_conn (b_conns b) c = Some cn -> c_active cn = true -> requestable name = false ->
  step b (EvRequest c name flags) = (b, [(c, MError EInvalidArgs)]).
Proof.
  intros Hf Ha Hr. unfold step. rewrite Hf, Ha. cbn [negb]. unfold acquire_service. rewrite name_checks, Hr. reflexivity.
Qed.

Theorem reserved_release_refused b c cn name :
  find_conn (b_conns b) c = Some cn -> c_active cn = true -> requestable name = false ->
  step b (EvRelease c name) = (b, [(c, MError EInvalidArgs)]).
Proof.
  intros Hf Ha Hr. unfold step. rewrite Hf, Ha. cbn [negb]. unfold release_service. rewrite name_checks, Hr. reflexivity.
Qed.

Lemma bus_name_not_requestable : requestable bus_name_str = false.
Proof. reflexivity. Qed.

Lemma colon_not_requestable r : requestable (58 :: r) = false.
Proof. unfold requestable. simpl. rewrite andb_false_r. reflexivity. Qed.

(* ---- the query methods ------------------------------------------------------------------------------------ *)
Lemma bus_name_absent b : inv b -> lookup (b_services b) (KW bus_name_str) = None.
Proof.
  intros I. destruct (lookup (b_services b) (KW bus_name_str)) as [q|] eqn:E; [|reflexivity].
  assert (H := inv_reserved b I _ _ E). rewrite bus_name_not_requestable in H. discriminate.
Qed.

Lemma is_bus_name_spec a : is_bus_name a = names_bus a.
Proof. destruct a; reflexivity. Qed.

Lemma is_bus_name_key a : is_bus_name a = true -> qkey a = KW bus_name_str.
Proof.
  destruct a as [c|s]; simpl; [discriminate|]. rewrite bus_name_str_eq. intros H. apply bytes_eqb_eq in H. subst. reflexivity.
Qed.

Theorem queries_agree b s : inv b -> R b s ->
  forall a,
    get_name_owner b a = spec_owner s a /\
    name_has_owner b a = spec_has_owner s a /\
    list_queued_owners b a = spec_queued s a /\
    (forall k, In k (list_names b) <-> spec_listed s k).
Proof.
  intros I Rr a.
  assert (Hq : forall k, sget (s_names s) k = mget (b_services b) k) by (apply R_names; exact Rr).
  assert (Hown : get_name_owner b a = spec_owner s a).
  { unfold get_name_owner, spec_owner. rewrite <- (is_bus_name_spec a), Hq. unfold mget.
    destruct (is_bus_name a) eqn:Eb.
    - rewrite (is_bus_name_key a Eb), (bus_name_absent b I). reflexivity.
    - destruct (lookup (b_services b) (qkey a)) as [q|] eqn:El; [|reflexivity].
      destruct (qwf_cons q (inv_q b I _ _ El)) as [p [w [-> _]]]. reflexivity. }
  split; [exact Hown|]. split; [|split].
  - unfold spec_has_owner. rewrite <- Hown. unfold name_has_owner, get_name_owner.
    destruct (is_bus_name a) eqn:Eb.
    + rewrite (is_bus_name_key a Eb), (bus_name_absent b I). reflexivity.
    + destruct (lookup (b_services b) (qkey a)) as [q|] eqn:El; [|reflexivity].
      destruct (qwf_cons q (inv_q b I _ _ El)) as [p [w [-> _]]]. reflexivity.
  - unfold list_queued_owners, spec_queued. rewrite <- (is_bus_name_spec a), Hq. unfold mget.
    destruct (is_bus_name a) eqn:Eb.
    + rewrite (is_bus_name_key a Eb), (bus_name_absent b I). reflexivity.
    + destruct (lookup (b_services b) (qkey a)) as [q|] eqn:El; [|reflexivity].
      destruct (qwf_cons q (inv_q b I _ _ El)) as [p [w [-> _]]]. reflexivity.
  - intros k. unfold list_names, spec_listed. destruct k as [k|].
    + rewrite Hq. unfold mget. split.
      * intros [H|H]; [discriminate|]. apply in_map_iff in H. destruct H as [[k0 q0] [E H]]. inversion E. subst k0.
        rewrite (in_lookup _ _ _ (inv_keys b I) H). destruct (inv_q b I k q0 (in_lookup _ _ _ (inv_keys b I) H)) as [Hne _]. exact Hne.
      * intros H. right. destruct (lookup (b_services b) k) as [q|] eqn:El; [|congruence].
        apply lookup_some_in in El. apply in_map_iff. exists (k, q). auto.
    + simpl. tauto.
Qed.

(* ---- signals come before the reply --------------------------------------------------------------------------- *)
Lemma signals_not_replies k a b x : In x (ownership_signals k a b) -> match x with EUni _ m | EBcast m => is_reply m = false end.
Proof.
  unfold ownership_signals. destruct (same_owner a b); [intros []|]. rewrite !in_app_iff.
  intros [H|[H|H]].
  - destruct a; [destruct H as [<-|[]]; reflexivity | destruct H].
  - destruct H as [<-|[]]; reflexivity.
  - destruct b; [destruct H as [<-|[]]; reflexivity | destruct H].
Qed.

Lemma sdeliver_app cs es1 es2 : sdeliver cs (es1 ++ es2) = sdeliver cs es1 ++ sdeliver cs es2.
Proof. unfold sdeliver. apply flat_map_app. Qed.

Lemma sdeliver_no_reply cs es :
  (forall x, In x es -> match x with EUni _ m | EBcast m => is_reply m = false end) ->
  forall o, In o (sdeliver cs es) -> is_reply (snd o) = false.
Proof.
  intros H o Ho. unfold sdeliver in Ho. apply in_flat_map in Ho. destruct Ho as [e [He Ho]]. specialize (H e He).
  destruct e as [c m|m].
  - destruct Ho as [<-|[]]. exact H.
  - apply in_map_iff in Ho. destruct Ho as [c [<- _]]. exact H.
Qed.

Definition reply_last (c : N) (o : list out) : Prop :=
  exists pre r, o = pre ++ [(c, r)] /\ is_reply r = true /\ forall x, In x pre -> is_reply (snd x) = false.

Lemma spec_reply_last v s e ord c :
  (exists name flags, e = EvRequest c name flags) \/ (exists name, e = EvRelease c name) ->
  sfind (s_conns s) c <> None ->
  reply_last c (snd (spec_step v s e ord)).
Proof.
  intros He Hc. destruct (sfind (s_conns s) c) as [x|] eqn:Ef; [|congruence].
  assert (Hsimple : forall r, is_reply r = true -> reply_last c [(c, r)]).
  { intros r Hr. exists [], r. repeat split; [exact Hr | intros ? []]. }
  assert (Hsig : forall k a b code, reply_last c (sdeliver (s_conns s) (ownership_signals k a b ++ [EUni c (MReply code)]))).
  { intros k a b code. rewrite sdeliver_app. exists (sdeliver (s_conns s) (ownership_signals k a b)), (MReply code).
    repeat split. apply sdeliver_no_reply. apply signals_not_replies. }
  destruct He as [[name [flags ->]]|[name ->]]; unfold spec_step; rewrite Ef.
  - destruct (negb (sc_active x)); [apply Hsimple; reflexivity|].
    destruct (negb (requestable name)); [apply Hsimple; reflexivity|].
    match goal with |- context [if ?c then _ else _] => destruct c end; [apply Hsimple; reflexivity|]. apply Hsig.
  - destruct (negb (sc_active x)); [apply Hsimple; reflexivity|].
    destruct (negb (requestable name)); [apply Hsimple; reflexivity|].
    destruct (sget (s_names s) (KW name)) as [|p w]; [apply Hsimple; reflexivity|].
    destruct (negb (queued c (p :: w))); [apply Hsimple; reflexivity|]. apply Hsig.
Qed.

Theorem signals_before_reply b s e c :
  inv b -> R b s ->
  (exists name flags, e = EvRequest c name flags) \/ (exists name, e = EvRelease c name) ->
  find_conn (b_conns b) c <> None ->
  reply_last c (snd (step b e)).
Proof.
  intros I Rr He Hc. destruct (step_sim b s e I Rr) as [_ Hs].
  destruct (step b e) as [b' o]. destruct (spec_step as_implemented s e (advice b e)) as [s' o'] eqn:Es.
  destruct Hs as [<- _]. cbn [snd]. change o' with (snd (s', o')). rewrite <- Es.
  apply spec_reply_last; [exact He|]. rewrite (R_conns b s Rr), sfind_abs. destruct (find_conn (b_conns b) c); [discriminate | congruence].
Qed.

(* ---- the model's assertion paths are dead -------------------------------------------------------------------- *)
Definition event_conn (e : event) : option N :=
  match e with
  | EvConnect => None
  | EvHello c | EvAddMatch c | EvRequest c _ _ | EvRelease c _ | EvDisconnect c => Some c
  end.

Lemma signals_no_fault k a b x : In x (ownership_signals k a b) -> match x with EUni _ m | EBcast m => m <> MFault end.
Proof.
  unfold ownership_signals. destruct (same_owner a b); [intros []|]. rewrite !in_app_iff.
  intros [H|[H|H]].
  - destruct a; [destruct H as [<-|[]]; discriminate | destruct H].
  - destruct H as [<-|[]]; discriminate.
  - destruct b; [destruct H as [<-|[]]; discriminate | destruct H].
Qed.

Lemma sdeliver_no_fault cs es :
  (forall x, In x es -> match x with EUni _ m | EBcast m => m <> MFault end) ->
  forall o, In o (sdeliver cs es) -> snd o <> MFault.
Proof.
  intros H o Ho. unfold sdeliver in Ho. apply in_flat_map in Ho. destruct Ho as [e [He Ho]]. specialize (H e He).
  destruct e as [c m|m].
  - destruct Ho as [<-|[]]. exact H.
  - apply in_map_iff in Ho. destruct Ho as [c [<- _]]. exact H.
Qed.

Lemma drop_names_no_fault c : forall ord m x, In x (snd (drop_names m c ord)) -> match x with EUni _ m | EBcast m => m <> MFault end.
Proof.
  induction ord as [|k more IH]; intros m x; simpl; [intros []|].
  destruct (drop_names (sset m k (without c (sget m k))) c more) as [m' es] eqn:E. simpl. rewrite in_app_iff. intros [H|H].
  - eapply signals_no_fault; exact H.
  - apply (IH (sset m k (without c (sget m k)))). rewrite E. exact H.
Qed.

Theorem no_fault b s e :
  inv b -> R b s ->
  (forall c, event_conn e = Some c -> find_conn (b_conns b) c <> None) ->
  forall o, In o (snd (step b e)) -> snd o <> MFault.
Proof.
  intros I Rr Hc. destruct (step_sim b s e I Rr) as [_ Hs].
  destruct (step b e) as [b' outs]. destruct (spec_step as_implemented s e (advice b e)) as [s' outs'] eqn:Es.
  destruct Hs as [<- _]. cbn [snd]. change outs' with (snd (s', outs')). rewrite <- Es. clear Es.
  assert (Hf : forall c, event_conn e = Some c -> exists x, sfind (s_conns s) c = Some x).
  { intros c Hec. specialize (Hc c Hec). rewrite (R_conns b s Rr), sfind_abs. destruct (find_conn (b_conns b) c); [simpl; eauto | congruence]. }
  assert (Hsig : forall c k a b0 code o, In o (sdeliver (s_conns s) (ownership_signals k a b0 ++ [EUni c (MReply code)])) -> snd o <> MFault).
  { intros c k a b0 code. apply sdeliver_no_fault. intros x Hx. apply in_app_iff in Hx. destruct Hx as [Hx|[<-|[]]]; [eapply signals_no_fault; exact Hx | discriminate]. }
  assert (Hone : forall (c : N) (m : msg) (o : out), m <> MFault -> In o [(c, m)] -> snd o <> MFault) by (intros c m o Hm [<-|[]]; exact Hm).
  destruct e as [|c|c|c name flags|c name|c]; unfold spec_step.
  - intros o [].
  - destruct (find_conn (b_conns b) c) as [cn|] eqn:Efc; [|exfalso; exact (Hc c eq_refl Efc)].
    assert (Hsf : sfind (s_conns s) c = Some (abs_conn cn)) by (rewrite (R_conns b s Rr), sfind_abs, Efc; reflexivity).
    rewrite Hsf. change (sc_active (abs_conn cn)) with (c_active cn).
    destruct (c_active cn) eqn:Ea; [(cbn [snd]; intros o0; apply Hone; discriminate)|].
    destruct (sget (s_names s) (KU c)) as [|p w] eqn:Eq.
    + cbn [snd]. apply sdeliver_no_fault. intros y [<-|Hy]; [discriminate | eapply signals_no_fault; exact Hy].
    + (* the unique name of a connection that has not said Hello is free *)
      exfalso. destruct (find_conn_in _ _ _ Efc) as [Hin Hid].
      rewrite (R_names b s Rr) in Eq. unfold mget in Eq.
      destruct (lookup (b_services b) (KU c)) as [q|] eqn:El; [|discriminate].
      assert (Hqc : queued (c_id cn) (mget (b_services b) (KU c)) = true).
      { unfold mget. rewrite El, (inv_unique b I _ _ El), Hid. simpl. unfold is. simpl. rewrite N.eqb_refl. reflexivity. }
      rewrite (member_active b (KU c) cn I Hin Hqc) in Ea. discriminate.
  - destruct (Hf c eq_refl) as [x ->]. destruct (negb (sc_active x)); (cbn [snd]; intros o0; apply Hone; discriminate).
  - destruct (Hf c eq_refl) as [x ->]. destruct (negb (sc_active x)); [(cbn [snd]; intros o0; apply Hone; discriminate)|].
    destruct (negb (requestable name)); [(cbn [snd]; intros o0; apply Hone; discriminate)|].
    match goal with |- context [if ?c then _ else _] => destruct c end; [(cbn [snd]; intros o0; apply Hone; discriminate)|]. apply Hsig.
  - destruct (Hf c eq_refl) as [x ->]. destruct (negb (sc_active x)); [(cbn [snd]; intros o0; apply Hone; discriminate)|].
    destruct (negb (requestable name)); [(cbn [snd]; intros o0; apply Hone; discriminate)|].
    destruct (sget (s_names s) (KW name)) as [|p w]; [(cbn [snd]; intros o0; apply Hone; discriminate)|].
    destruct (negb (queued c (p :: w))); [(cbn [snd]; intros o0; apply Hone; discriminate)|]. apply Hsig.
  - destruct (Hf c eq_refl) as [x ->].
    destruct (drop_names (s_names s) c (advice b (EvDisconnect c))) as [m es] eqn:Ed. cbn [snd].
    intros o Ho. apply filter_In in Ho. destruct Ho as [Ho _]. revert o Ho. apply sdeliver_no_fault.
    intros y Hy. apply (drop_names_no_fault c (advice b (EvDisconnect c)) (s_names s)). rewrite Ed. exact Hy.
Qed.

(* ---- outside the two recorded exceptions the literal specification is met ---------------------------------------- *)
Lemma filter_refresh_any c a w :
  filter (fun o => negb (o_dnq o)) (refresh c a true w) = filter (fun o => negb (o_dnq o)) (without c w).
Proof.
  induction w as [|o w IH]; simpl; [reflexivity|]. unfold is. destruct (o_conn o =? c); simpl; [exact IH|].
  destruct (o_dnq o); simpl; [|f_equal]; exact IH.
Qed.

Lemma request_queue_variants q c flags :
  (match q with
   | p :: _ => negb (is c p) && f_replace flags && negb (f_dnq flags) && negb (o_allow p)
   | [] => false
   end) = false ->
  request_queue literal q c flags = request_queue as_implemented q c flags.
Proof.
  destruct q as [|p w]; [reflexivity|]. unfold request_queue, rules_1_4. cbn [v_jump literal as_implemented andb].
  destruct (is c p) eqn:Ep; [reflexivity|]. cbn [negb andb].
  destruct (o_allow p) eqn:Ea, (f_replace flags) eqn:Er; cbn [andb negb]; try reflexivity.
  rewrite andb_true_r. intros Hd. apply negb_false_iff in Hd. rewrite Hd.
  destruct (queued c w) eqn:Eq; cbn [rule_5 app filter o_dnq negb].
  - rewrite filter_refresh_any. reflexivity.
  - rewrite filter_app. cbn [filter o_dnq negb]. rewrite app_nil_r. rewrite (without_notin c w Eq). reflexivity.
Qed.

Lemma literal_step_eq s e ord : exception_trigger s e = false -> spec_step literal s e ord = spec_step as_implemented s e ord.
Proof.
  destruct e as [|c|c|c name flags|c name|c]; try reflexivity.
  unfold exception_trigger, spec_step. destruct (sfind (s_conns s) c) as [x|]; [|reflexivity].
  destruct (sc_active x); [|reflexivity]. cbn [negb andb]. destruct (requestable name); [|reflexivity]. cbn [negb andb].
  intros H1. rewrite (request_queue_variants _ c flags H1). reflexivity.
Qed.

Theorem outside_exceptions v h : forall s adv i, v = as_implemented -> quiet v s h adv i ->
  spec_run literal s h adv i = spec_run as_implemented s h adv i /\
  (valid_advice as_implemented s h adv i -> valid_advice literal s h adv i).
Proof.
  induction h as [|e r IH]; intros s adv i -> Hq; simpl; [auto|].
  destruct Hq as [Ht Hq]. rewrite (literal_step_eq s e (adv i) Ht).
  destruct (IH (fst (spec_step as_implemented s e (adv i))) adv (S i) eq_refl Hq) as [E1 E2].
  destruct (spec_step as_implemented s e (adv i)) as [s1 o]. cbn [fst] in *. rewrite E1. split; [reflexivity|].
  intros [A B]. split; [exact A | apply E2; exact B].
Qed.

(* ---- what the reply codes mean (the return-code table read on the state after the call) ------------------------------ *)
Theorem reply_code_meaning v q c flags :
  NoDup (map o_conn q) -> (forall o, In o (tl q) -> o_dnq o = false) ->
  let q' := request_queue v q c flags in
  match request_code q c flags with
  | 4 => primary q = Some c /\ primary q' = Some c
  | 1 => primary q <> Some c /\ primary q' = Some c
  | 2 => primary q <> Some c /\ primary q' = primary q /\ queued c q' = true
  | 3 => primary q <> Some c /\ primary q' = primary q /\ queued c q' = false
  | _ => False
  end.
Proof.
  intros ND Hd. cbn zeta. destruct q as [|p w].
  - simpl. split; [discriminate | reflexivity].
  - assert (NDp := nodup_qconns_cons p w ND). destruct NDp as [Hpw NDw]. simpl in Hd.
    unfold request_code, request_queue, rules_1_4, is. destruct (o_conn p =? c) eqn:Epc.
    + apply N.eqb_eq in Epc. simpl. rewrite Epc. auto.
    + assert (Hne : Some (o_conn p) <> Some c) by (intros E; inversion E; subst; rewrite N.eqb_refl in Epc; discriminate).
      destruct (o_allow p && f_replace flags) eqn:Ear.
      * simpl. auto.
      * destruct (f_dnq flags) eqn:Ed.
        -- split; [exact Hne|]. destruct (v_jump v && f_replace flags).
           ++ simpl. split; [reflexivity|]. unfold is at 1. rewrite Epc. cbn [orb]. rewrite filter_no_dnq by (apply no_dnq_without; exact Hd).
              rewrite queued_without, N.eqb_refl. apply andb_false_r.
           ++ destruct (queued c w) eqn:Eq.
              ** simpl. split; [reflexivity|]. unfold is at 1. rewrite Epc. cbn [orb]. rewrite filter_refresh_dnq by exact Hd.
                 rewrite queued_without, N.eqb_refl. apply andb_false_r.
              ** simpl. split; [reflexivity|]. unfold is at 1. rewrite Epc. cbn [orb]. rewrite filter_app. simpl. rewrite app_nil_r.
                 rewrite filter_no_dnq by exact Hd. exact Eq.
        -- split; [exact Hne|]. destruct (v_jump v && f_replace flags).
           ++ simpl. split; [reflexivity|]. unfold is at 1 2. rewrite Epc. cbn [o_conn]. rewrite N.eqb_refl. reflexivity.
           ++ destruct (queued c w) eqn:Eq.
              ** simpl. split; [reflexivity|]. unfold is at 1. rewrite Epc. cbn [orb]. rewrite filter_no_dnq by (apply no_dnq_refresh; exact Hd).
                 rewrite queued_refresh. exact Eq.
              ** simpl. split; [reflexivity|]. unfold is at 1. rewrite Epc. cbn [orb]. rewrite filter_app. simpl.
                 rewrite filter_no_dnq by exact Hd. rewrite queued_app. cbn [o_conn]. rewrite N.eqb_refl. apply orb_true_r.
Qed.

(* ---- statements for whole histories, as used by Props/C04.v ------------------------------------------------------------ *)
Theorem refines_outside_exceptions limit h :
  let adv := advice_run (init_bus limit) h 0 in
  quiet as_implemented (sinit limit) h adv 0 ->
  valid_advice literal (sinit limit) h adv 0 /\
  snd (spec_run literal (sinit limit) h adv 0) = snd (run (init_bus limit) h) /\
  R (fst (run (init_bus limit) h)) (fst (spec_run literal (sinit limit) h adv 0)).
Proof.
  cbn zeta. intros Hq. destruct (refines_partial limit h) as [A [B C]].
  destruct (outside_exceptions as_implemented h (sinit limit) _ 0%nat eq_refl Hq) as [E V].
  rewrite E. auto.
Qed.

Theorem queries_agree_reachable limit h a :
  let b := fst (run (init_bus limit) h) in
  let s := fst (spec_run as_implemented (sinit limit) h (advice_run (init_bus limit) h 0) 0) in
  get_name_owner b a = spec_owner s a /\
  name_has_owner b a = spec_has_owner s a /\
  list_queued_owners b a = spec_queued s a /\
  (forall k, In k (list_names b) <-> spec_listed s k).
Proof.
  cbn zeta. destruct (refines_partial limit h) as [_ [_ C]]. apply queries_agree; [apply reachable_inv | exact C].
Qed.

Theorem signals_before_reply_reachable limit h e c :
  (exists name flags, e = EvRequest c name flags) \/ (exists name, e = EvRelease c name) ->
  find_conn (b_conns (fst (run (init_bus limit) h))) c <> None ->
  reply_last c (snd (step (fst (run (init_bus limit) h)) e)).
Proof.
  intros He Hc. destruct (reachable_R limit h) as [s Rr]. eapply signals_before_reply; eauto. apply reachable_inv.
Qed.

Theorem no_fault_reachable limit h e :
  (forall c, event_conn e = Some c -> find_conn (b_conns (fst (run (init_bus limit) h))) c <> None) ->
  forall o, In o (snd (step (fst (run (init_bus limit) h)) e)) -> snd o <> MFault.
Proof.
  intros Hc. destruct (reachable_R limit h) as [s Rr]. eapply no_fault; eauto. apply reachable_inv.
Qed.

(* ---- the per-connection limit never refuses a request for a name the caller already holds (formerly F4b) --------- *)
Lemma limit_spares_held_spec v s c name flags ord :
  queued c (sget (s_names s) (KW name)) = true ->
  ~ In (c, MError ELimitsExceeded) (snd (spec_step v s (EvRequest c name flags) ord)).
Proof.
  intros Hq. unfold spec_step. destruct (sfind (s_conns s) c) as [x|]; [|simpl; intros [H|[]]; discriminate].
  destruct (negb (sc_active x)); [simpl; intros [H|[]]; discriminate|].
  destruct (negb (requestable name)); [simpl; intros [H|[]]; discriminate|].
  rewrite Hq. cbn [negb]. rewrite andb_false_r. cbn [snd]. rewrite sdeliver_app. intros H. apply in_app_iff in H. destruct H as [H|H].
  - apply (sdeliver_no_reply (s_conns s) _ (signals_not_replies _ _ _)) in H. discriminate.
  - destruct H as [H|[]]. discriminate.
Qed.

Theorem limit_spares_held_reachable limit h c name flags :
  queued c (mget (b_services (fst (run (init_bus limit) h))) (KW name)) = true ->
  ~ In (c, MError ELimitsExceeded) (snd (step (fst (run (init_bus limit) h)) (EvRequest c name flags))).
Proof.
  intros Hq. destruct (reachable_R limit h) as [s Rr]. assert (I := reachable_inv limit h).
  destruct (step_sim _ s (EvRequest c name flags) I Rr) as [_ Hs].
  destruct (step (fst (run (init_bus limit) h)) (EvRequest c name flags)) as [b' o].
  destruct (spec_step as_implemented s (EvRequest c name flags) (advice (fst (run (init_bus limit) h)) (EvRequest c name flags))) as [s' o'] eqn:Es.
  destruct Hs as [<- _]. cbn [snd]. change o' with (snd (s', o')). rewrite <- Es.
  apply limit_spares_held_spec. rewrite (R_names _ s Rr). exact Hq.
Qed.
