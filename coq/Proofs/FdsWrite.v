(* C15 proofs, part 7: however the kernel splits a message into writes, its descriptors go out
   exactly once, with the first byte. *)
From DV Require Import Lib.Base Fds.Write.
Require Import ZifyBool ZifyN ZifyNat.
Local Open Scope N_scope.

(* once something has been written, no later call carries descriptors; bytes add up *)
Lemma do_writing_later can_fd hlen blen F caps : forall written,
  0 < written ->
  let '(calls, w) := do_writing can_fd hlen blen F written caps in
  wire_fds calls = [] /\ w = written + wire_bytes calls /\ (written <= hlen + blen -> w <= hlen + blen).
Proof.
  induction caps as [|cap r IH]; intros written Hw; simpl.
  - unfold wire_fds, wire_bytes; simpl. repeat split; auto; lia.
  - destruct (hlen + blen <=? written) eqn:Et.
    { unfold wire_fds, wire_bytes; simpl. repeat split; auto; lia. }
    apply N.leb_gt in Et.
    destruct (N.min cap (hlen + blen - written) =? 0) eqn:En; [apply IH; exact Hw|].
    apply N.eqb_neq in En.
    assert (written <=? 0 = false) as -> by (apply N.leb_gt; exact Hw). simpl.
    assert (Hw' : 0 < written + N.min cap (hlen + blen - written)) by lia.
    specialize (IH _ Hw').
    destruct (written <? hlen);
      destruct (do_writing can_fd hlen blen F (written + N.min cap (hlen + blen - written)) r) as [calls w];
      destruct IH as (A & B & C); unfold wire_fds, wire_bytes in *; simpl; rewrite A; repeat split; auto; lia.
Qed.

(* from the start of a message, for every split:
   the descriptors on the wire are exactly F if the transport passes descriptors and at least one
   byte went out, and none otherwise; never more than the message is written *)
Theorem write_split can_fd hlen blen F caps :
  let '(calls, w) := do_writing can_fd hlen blen F 0 caps in
  wire_fds calls = (if can_fd && (0 <? w) then F else []) /\ w = wire_bytes calls /\ w <= hlen + blen.
Proof.
  induction caps as [|cap r IH]; simpl.
  - rewrite andb_false_r. unfold wire_fds, wire_bytes; simpl. repeat split; auto; lia.
  - destruct (hlen + blen <=? 0) eqn:Et.
    { rewrite andb_false_r. unfold wire_fds, wire_bytes; simpl. repeat split; auto; lia. }
    apply N.leb_gt in Et. rewrite N.sub_0_r.
    destruct (N.min cap (hlen + blen) =? 0) eqn:En; [exact IH|].
    apply N.eqb_neq in En. simpl.
    assert (Hw : 0 < N.min cap (hlen + blen)) by lia.
    pose proof (do_writing_later can_fd hlen blen F r _ Hw) as L.
    destruct can_fd; simpl.
    + destruct (do_writing true hlen blen F (N.min cap (hlen + blen)) r) as [calls w].
      destruct L as (A & B & C). unfold wire_fds, wire_bytes in *; simpl. rewrite A, app_nil_r.
      assert (0 <? w = true) as -> by (apply N.ltb_lt; lia). repeat split; auto; lia.
    + destruct (0 <? hlen);
        destruct (do_writing false hlen blen F (N.min cap (hlen + blen)) r) as [calls w];
        destruct L as (A & B & C); unfold wire_fds, wire_bytes in *; simpl; rewrite A; repeat split; auto; lia.
Qed.

(* the statement asked for: a non-empty message that went out completely, in k >= 1 pieces of any
   sizes, put exactly its own descriptors on the wire, as many as it has *)
Corollary write_split_complete hlen blen F caps calls :
  0 < hlen + blen ->
  do_writing true hlen blen F 0 caps = (calls, hlen + blen) ->
  wire_fds calls = F /\ nlen (wire_fds calls) = nlen F /\ wire_bytes calls = hlen + blen.
Proof.
  intros Hpos H. pose proof (write_split true hlen blen F caps) as W. rewrite H in W.
  destruct W as (A & B & _). simpl in A.
  assert (0 <? hlen + blen = true) as E by (apply N.ltb_lt; exact Hpos). rewrite E in A.
  rewrite A. repeat split; auto.
Qed.

(* the descriptors travel with the first call only *)
Lemma write_first_only can_fd hlen blen F caps :
  match fst (do_writing can_fd hlen blen F 0 caps) with
  | [] => True
  | c :: rest => wr_fds c = (if can_fd then F else []) /\ wire_fds rest = []
  end.
Proof.
  induction caps as [|cap r IH]; simpl; auto.
  destruct (hlen + blen <=? 0) eqn:Et; simpl; auto.
  apply N.leb_gt in Et. rewrite N.sub_0_r.
  destruct (N.min cap (hlen + blen) =? 0) eqn:En; [exact IH|].
  apply N.eqb_neq in En. simpl.
  assert (Hw : 0 < N.min cap (hlen + blen)) by lia.
  pose proof (do_writing_later can_fd hlen blen F r _ Hw) as L.
  destruct can_fd; simpl.
  - destruct (do_writing true hlen blen F (N.min cap (hlen + blen)) r) as [calls w]. simpl. split; auto. apply L.
  - destruct (0 <? hlen); destruct (do_writing false hlen blen F (N.min cap (hlen + blen)) r) as [calls w]; simpl; split; auto; apply L.
Qed.
