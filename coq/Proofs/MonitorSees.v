(* C18, part 3: every item the bus produces (other than those libdbus answers by itself) reaches each
   connection that is a monitor BEFORE the step exactly once if its filter wants it and not at all
   otherwise, carries the true sender, and is neither delivered to nor matched for such a monitor.
   The lemmas follow the item-producing functions of Monitor.v one by one. *)
From Coq Require Import ZifyBool ZifyN ZifyNat Permutation.
From DV Require Import Lib.Base Monitor.Monitor Spec.MonitorSpec Proofs.MonitorBase Proofs.MonitorInv.
Local Open Scope N_scope.

Section Good.
Variable M : cid -> bool.              (* the monitors of the state the step starts from *)
Variable mr0 : list (cid * flt).       (* the monitor rules of that state *)

(* an intermediate state keeps those monitors and their rules *)
Definition mon_ext (st' : state) : Prop :=
  (forall x, M x = true -> is_monitor st' x = true) /\
  (forall x own from addr m, M x = true ->
     wantsb own true (st_mrules st') x from addr m = wantsb own true mr0 x from addr m).

(* ... and they are party to nothing *)
Definition clean (st' : state) : Prop :=
  (forall n c, In (n, c) (st_own st') -> M c = false) /\
  (forall r, In r (st_rules st') -> M (fst r) = false) /\
  (forall p, In p (st_pend st') -> M (p_get p) = false).

Definition item_good (it : item) : Prop :=
  i_local it = false /\
  (forall x, M x = true ->
     copies x it = if wantsb (i_own it) true mr0 x (i_from it) (i_addr it) (i_msg it) then 1%nat else 0%nat) /\
  (forall r, i_direct it = Some r -> M r = false) /\
  (forall r, In r (i_match it) -> M r = false) /\
  true_sender it.

Lemma mon_ext_same st' st'' :
  st_mons st'' = st_mons st' -> st_mrules st'' = st_mrules st' -> mon_ext st' -> mon_ext st''.
Proof. intros E1 E2 [H1 H2]. split; unfold is_monitor in *; rewrite ?E1, ?E2; auto. Qed.

Lemma mk_item_good st' from addr m d mt :
  mon_ext st' ->
  (forall x, M x = true -> addr <> Some x) ->
  (forall r, d = Some r -> M r = false) ->
  (forall r, In r mt -> M r = false) ->
  (match from with Some c => b_sender m = SConn c | None => b_sender m = SDriver end) ->
  item_good (mk_item st' from addr m d mt).
Proof.
  intros [Hm Hw] Ha Hd Ht Hs. unfold item_good, mk_item, copies, true_sender; simpl.
  split; [reflexivity|]. split; [|auto].
  intros x Hx. unfold capture. pose proof (Hm x Hx) as Hmx. unfold is_monitor in Hmx.
  destruct (st_mons st') as [|y ys] eqn:E; [discriminate|].
  rewrite count_get_recipients. rewrite (Hw x _ _ _ _ Hx).
  assert (Hne : (match addr with Some a => a =? x | None => false end) = false).
  { destruct addr as [a|]; auto. apply N.eqb_neq. intros ->. apply (Ha x Hx). reflexivity. }
  rewrite Hne. reflexivity.
Qed.

Lemma from_driver_good st' r m :
  mon_ext st' -> M r = false -> b_sender m = SDriver -> item_good (from_driver st' r m).
Proof.
  intros He Hr Hs. unfold from_driver. apply mk_item_good; auto.
  - intros x Hx E. inversion E; subst. congruence.
  - intros r'. destruct (connected st' r); intros E; inversion E; subst; auto.
  - intros ? [].
Qed.

Lemma refusal_item_good st' from m :
  mon_ext st' -> (forall c, from = Some c -> M c = false) -> item_good (refusal_item st' from m).
Proof.
  intros He Hf. unfold refusal_item. apply mk_item_good; auto.
  - intros x Hx E. subst from. rewrite (Hf x eq_refl) in Hx. discriminate.
  - discriminate.
  - intros ? [].
Qed.

Lemma fanout_good st' from addr m rs refused :
  mon_ext st' -> clean st' -> (forall c, from = Some c -> M c = false) ->
  fanout st' from addr m = (rs, refused) ->
  (forall r, In r rs -> M r = false) /\ Forall item_good refused.
Proof.
  intros He (_ & Hr & _) Hf. unfold fanout.
  assert (G : forall r, In r (get_recipients (st_own st') false (st_rules st') from addr m) -> M r = false).
  { intros r H. unfold get_recipients in H. apply recips_owner in H. destruct H as (f & H & _). apply (Hr (r, f) H). }
  destruct ((match from with Some _ => deny_send m false | None => false end) || deny_recv m false); intros E; inversion E; subst.
  - split; [intros ? []|]. apply Forall_forall. intros it H. apply in_map_iff in H. destruct H as (? & <- & _).
    apply refusal_item_good; auto.
  - split; auto.
Qed.

Lemma noc_item_good st' n old new : mon_ext st' -> clean st' -> item_good (noc_item st' n old new).
Proof.
  intros He Hc. unfold noc_item. destruct (fanout st' None None (noc_msg n old new)) as [rs refused] eqn:E.
  assert (Hn : forall c : cid, @None cid = Some c -> M c = false) by discriminate.
  destruct (fanout_good _ _ _ _ _ _ He Hc Hn E) as [H1 _].
  apply mk_item_good; auto; try discriminate.
Qed.

Lemma clean_set_own_sub st' own' :
  clean st' -> (forall p, In p own' -> In p (st_own st')) -> clean (set_own st' own').
Proof. intros (H1 & H2 & H3) Hs. split; [|split]; simpl; auto. intros n c H. apply (H1 n c). apply Hs; auto. Qed.

Lemma clean_set_own_add st' n c : clean st' -> M c = false -> clean (set_own st' (st_own st' ++ [(n, c)])).
Proof.
  intros (H1 & H2 & H3) Hc. split; [|split]; simpl; auto.
  intros k o H. apply in_app_or in H. destruct H as [H|[H|[]]]; [apply (H1 k o H)|]. inversion H; subst; auto.
Qed.

Lemma clean_set_pend st' pl :
  clean st' -> (forall p, In p pl -> In p (st_pend st') \/ M (p_get p) = false) -> clean (set_pend st' pl).
Proof. intros (H1 & H2 & H3) Hs. split; [|split]; simpl; auto. intros p H. destruct (Hs p H); auto. Qed.

Lemma remove_owner_good st' c n :
  mon_ext st' -> clean st' -> M c = false -> Forall item_good (snd (remove_owner st' c n)).
Proof.
  intros He Hc Hm. unfold remove_owner.
  destruct (queue (st_own st') n) as [|p rest] eqn:Eq; simpl; [constructor|].
  destruct (p =? c); simpl; [|constructor].
  constructor; [apply from_driver_good; auto|].
  destruct rest as [|w rest'].
  - constructor; [apply noc_item_good; auto | constructor].
  - assert (Hw : M w = false).
    { destruct Hc as (H1 & _). apply (H1 n w). apply queue_In. rewrite Eq. right; left; reflexivity. }
    constructor; [apply noc_item_good; auto|]. constructor; [apply from_driver_good; auto | constructor].
Qed.

Lemma release_all_good c ns : forall st',
  mon_ext st' -> clean st' -> M c = false -> Forall item_good (snd (release_all st' c ns)).
Proof.
  induction ns as [|n ns IH]; intros st' He Hc Hm; simpl; [constructor|].
  destruct (remove_owner st' c n) as [st1 i1] eqn:E1. destruct (release_all st1 c ns) as [st2 i2] eqn:E2. simpl.
  apply Forall_app. split.
  - pose proof (remove_owner_good st' c n He Hc Hm) as H. rewrite E1 in H. exact H.
  - pose proof (remove_owner_state st' c n) as Hs. rewrite E1 in Hs. simpl in Hs. subst st1.
    assert (H : Forall item_good (snd (release_all (set_own st' (unlink (st_own st') n c)) c ns))).
    { apply IH; [exact He | | exact Hm].
      apply clean_set_own_sub; auto. intros [k o] H. apply unlink_In in H. tauto. }
    rewrite E2 in H. exact H.
Qed.

Lemma noreply_items_good st' c : mon_ext st' -> clean st' -> Forall item_good (snd (noreply_items st' c)).
Proof.
  intros He Hc. unfold noreply_items. simpl. apply Forall_forall. intros it H.
  apply in_map_iff in H. destruct H as (p & <- & Hp). unfold orphaned in Hp. apply filter_In in Hp. destruct Hp as [Hp _].
  apply from_driver_good; auto.
  destruct Hc as (_ & _ & H3). apply H3; auto.
Qed.

Lemma entry_item_good st' c m : mon_ext st' -> b_sender m = SConn c -> item_good (entry_item st' c m).
Proof. intros He Hs. unfold entry_item. apply mk_item_good; auto; try discriminate. intros ? []. Qed.

Lemma error_reply_good st' c m e : mon_ext st' -> M c = false -> item_good (error_reply st' c m e).
Proof. intros He Hm. unfold error_reply. apply from_driver_good; auto. Qed.

Lemma to_driver_good st' c m h :
  mon_ext st' -> M c = false -> b_sender m = SConn c -> Forall item_good (snd h) ->
  Forall item_good (snd (to_driver st' c m h)).
Proof.
  intros He Hm Hs Hh. unfold to_driver. destruct (deny_send m false); simpl.
  - constructor; [apply entry_item_good; auto|]. constructor; [apply error_reply_good; auto | constructor].
  - destruct h as [s l]. simpl in *. constructor; [apply entry_item_good; auto | auto].
Qed.

Lemma request_name_good st' c s n dnq :
  mon_ext st' -> clean st' -> M c = false -> Forall item_good (snd (request_name st' c s n dnq)).
Proof.
  intros He Hc Hm. unfold request_name.
  destruct (queue (st_own st') (NWk n)) as [|p q] eqn:Eq.
  - simpl. constructor; [apply noc_item_good; auto|]. constructor; [apply from_driver_good; auto|].
    constructor; [|constructor]. apply from_driver_good; auto.
  - destruct (p =? c); [simpl; constructor; [apply from_driver_good; auto | constructor]|].
    destruct dnq; [simpl; constructor; [apply from_driver_good; auto; apply (mon_ext_same st'); auto | constructor]|].
    destruct (memN c (p :: q)); simpl; (constructor; [apply from_driver_good; auto; apply (mon_ext_same st'); auto | constructor]).
Qed.

Lemma release_name_good st' c s n :
  mon_ext st' -> clean st' -> M c = false -> Forall item_good (snd (release_name st' c s n)).
Proof.
  intros He Hc Hm. unfold release_name.
  destruct (queue (st_own st') (NWk n)) as [|p q] eqn:Eq; [simpl; constructor; [apply from_driver_good; auto | constructor]|].
  destruct (memN c (p :: q)); [|simpl; constructor; [apply from_driver_good; auto | constructor]].
  destruct (remove_owner st' c (NWk n)) as [st1 l1] eqn:E. simpl. apply Forall_app. split.
  - pose proof (remove_owner_good st' c (NWk n) He Hc Hm) as H. rewrite E in H. exact H.
  - pose proof (remove_owner_state st' c (NWk n)) as Hs. rewrite E in Hs. simpl in Hs. subst st1.
    constructor; [|constructor]. apply from_driver_good; auto.
Qed.

Lemma add_match_good st' c s f : mon_ext st' -> M c = false -> Forall item_good (snd (add_match st' c s f)).
Proof.
  intros He Hm. unfold add_match. simpl. constructor; [|constructor]. apply from_driver_good; auto.
Qed.

Lemma get_id_good st' c s : mon_ext st' -> M c = false -> Forall item_good (snd (get_id st' c s)).
Proof. intros He Hm. unfold get_id. simpl. constructor; [apply from_driver_good; auto | constructor]. Qed.

Lemma driver_generic_good st' c m : mon_ext st' -> M c = false -> Forall item_good (snd (driver_generic st' c m)).
Proof.
  intros He Hm. unfold driver_generic. destruct (b_type m); simpl; try (constructor; fail).
  constructor; [apply error_reply_good; auto | constructor].
Qed.

Lemma dispatch_good st' c m :
  mon_ext st' -> clean st' -> M c = false -> b_sender m = SConn c -> Forall item_good (snd (dispatch st' c m)).
Proof.
  intros He Hc Hm Hs. unfold dispatch.
  assert (Hfrom : forall c', Some c = Some c' -> M c' = false) by (intros c' E; inversion E; subst; auto).
  destruct (b_dest m) as [d|].
  2:{ destruct (fanout st' (Some c) None m) as [rs refused] eqn:E. simpl.
      destruct (fanout_good _ _ _ _ _ _ He Hc Hfrom E) as [H1 H2].
      constructor; auto. apply mk_item_good; auto; discriminate. }
  assert (G : forall d', Forall item_good (snd (match primary (st_own st') d' with
      | None => (st', [entry_item st' c m; error_reply st' c m (if b_noauto m then E_NAME_HAS_NO_OWNER else E_SERVICE_UNKNOWN)])
      | Some r =>
          let '(pl, verdict) := check_policy (st_pend st') c r m in
          let st'' := set_pend st' pl in
          match verdict with
          | Some e => (st'', [mk_item st' (Some c) (Some r) m None []; error_reply st'' c m e])
          | None => let '(rs, refused) := fanout st'' (Some c) (Some r) m in
                    (st'', mk_item st' (Some c) (Some r) m (Some r) rs :: refused)
          end
      end))).
  { intros d'. destruct (primary (st_own st') d') as [r|] eqn:Ep.
    2:{ simpl. constructor; [apply entry_item_good; auto|]. constructor; [apply error_reply_good; auto | constructor]. }
    assert (Hr : M r = false). { destruct Hc as (H1 & _). apply (H1 d' r). apply primary_In; auto. }
    assert (Ha : forall x, M x = true -> Some r <> Some x) by (intros x Hx E; inversion E; subst; congruence).
    destruct (check_policy (st_pend st') c r m) as [pl v] eqn:Ec. cbv zeta.
    assert (He' : mon_ext (set_pend st' pl)) by (apply (mon_ext_same st'); auto).
    assert (Hc' : clean (set_pend st' pl)).
    { apply clean_set_pend; auto. intros p Hp.
      destruct (check_policy_sub _ _ _ _ _ _ Ec p Hp) as [H | ->]; [left; auto | right; auto]. }
    destruct v as [e|].
    - simpl. constructor; [apply mk_item_good; auto; try discriminate; intros ? []|].
      constructor; [apply error_reply_good; auto | constructor].
    - destruct (fanout (set_pend st' pl) (Some c) (Some r) m) as [rs refused] eqn:E. simpl.
      destruct (fanout_good _ _ _ _ _ _ He' Hc' Hfrom E) as [H1 H2].
      constructor; auto. apply mk_item_good; auto. intros r' E'. inversion E'; subst; auto. }
  destruct d as [|u|w].
  - apply to_driver_good; auto. apply driver_generic_good; auto.
  - apply G.
  - apply G.
Qed.

Lemma disconnect_ordinary_good st' c :
  mon_ext st' -> clean st' -> M c = false -> is_monitor st' c = false -> Forall item_good (snd (disconnect st' c)).
Proof.
  intros He Hc Hm Hnm. unfold disconnect. rewrite Hnm.
  set (st1 := upd st' (filter (fun x => negb (x =? c)) (st_conns st')) (st_next st') (st_own st')
                      (drop_rules (st_rules st') c) (st_mrules st') (st_mons st') (st_pend st')).
  assert (He1 : mon_ext st1) by (apply (mon_ext_same st'); auto).
  assert (Hc1 : clean st1).
  { destruct Hc as (H1 & H2 & H3). split; [|split]; simpl; auto.
    intros r H. unfold drop_rules in H. apply filter_In in H. apply H2. tauto. }
  destruct (release_all st1 c (rev (owned (st_own st1) c))) as [st2 rel] eqn:E2.
  destruct (noreply_items st2 c) as [st3 nr] eqn:E3. simpl.
  pose proof (release_all_state st1 c (rev (owned (st_own st1) c))) as H2. rewrite E2 in H2. simpl in H2.
  apply Forall_app. split.
  - pose proof (release_all_good c (rev (owned (st_own st1) c)) st1 He1 Hc1 Hm) as H. rewrite E2 in H. exact H.
  - assert (H : Forall item_good (snd (noreply_items st2 c))).
    { subst st2. apply noreply_items_good.
      - apply (mon_ext_same st1); auto.
      - apply clean_set_own_sub; auto. intros [k o] H. apply unlink_all_In in H. tauto. }
    rewrite E3 in H. exact H.
Qed.

Lemma become_monitor_good st' c s fs :
  mon_ext st' -> clean st' -> M c = false -> Forall item_good (snd (become_monitor st' c s fs)).
Proof.
  intros He Hc Hm. unfold become_monitor.
  set (fs' := match fs with [] => [empty_filter] | _ => fs end).
  set (st1 := upd st' (st_conns st') (st_next st') (st_own st') (st_rules st')
                      (st_mrules st' ++ map (fun f => (c, f)) fs') (st_mons st') (st_pend st')).
  assert (Hforeign : forall x own from addr m, M x = true -> wantsb own true (map (fun f => (c, f)) fs') x from addr m = false).
  { intros x own from addr m Hx. apply wantsb_foreign. intros r H. apply in_map_iff in H. destruct H as (f & <- & _).
    simpl. intros ->. congruence. }
  assert (He1 : mon_ext st1).
  { destruct He as [H1 H2]. split; auto. intros x own from addr m Hx. simpl.
    rewrite wantsb_app, (Hforeign x own from addr m Hx), orb_false_r. apply H2; auto. }
  assert (Hc1 : clean st1) by exact Hc.
  destruct (release_all st1 c (owned (st_own st1) c)) as [st2 rel] eqn:E2.
  pose proof (release_all_state st1 c (owned (st_own st1) c)) as H2. rewrite E2 in H2. simpl in H2.
  set (st3 := upd st2 (st_conns st2) (st_next st2) (st_own st2) (drop_rules (st_rules st2) c)
                      (st_mrules st2) (st_mons st2 ++ [c]) (st_pend st2)).
  destruct (noreply_items st3 c) as [st4 nr] eqn:E4. simpl.
  constructor; [apply from_driver_good; auto|].
  apply Forall_app. split.
  - pose proof (release_all_good c (owned (st_own st1) c) st1 He1 Hc1 Hm) as H. rewrite E2 in H. exact H.
  - assert (H : Forall item_good (snd (noreply_items st3 c))).
    { apply noreply_items_good.
      - subst st3 st2. destruct He1 as [H1 H3]. split; simpl.
        + intros x Hx. specialize (H1 x Hx). unfold is_monitor in *. simpl in *. rewrite memN_app, H1. reflexivity.
        + intros x own from addr m Hx. apply (H3 x own from addr m Hx).
      - subst st3 st2. destruct Hc1 as (K1 & K2 & K3). split; [|split]; simpl; auto.
        + intros k o H. apply unlink_all_In in H. apply (K1 k o). tauto.
        + intros r H. unfold drop_rules in H. apply filter_In in H. apply K2. tauto. }
    rewrite E4 in H. exact H.
Qed.

Lemma connect_good st' :
  mon_ext st' -> clean st' -> M (st_next st') = false -> Forall item_good (snd (connect st')).
Proof.
  intros He Hc Hm. unfold connect. simpl.
  set (st1 := upd st' (st_conns st' ++ [st_next st']) (st_next st' + 1) (st_own st') (st_rules st') (st_mrules st') (st_mons st') (st_pend st')).
  assert (He1 : mon_ext st1) by (apply (mon_ext_same st'); auto).
  constructor; [apply mk_item_good; auto; try discriminate; intros ? []|].
  constructor; [apply from_driver_good; auto|].
  constructor; [apply noc_item_good; auto|].
  constructor; [apply from_driver_good; auto | constructor].
Qed.

End Good.

(* ---------------------------------------------------------------- one step from a state satisfying the invariant *)
Lemma mon_ext_refl st : mon_ext (is_monitor st) (st_mrules st) st.
Proof. split; auto. Qed.

Lemma clean_Inv st : Inv st -> clean (is_monitor st) st.
Proof.
  intros I. split; [|split].
  - intros n c H. apply (own_ok _ I) in H. tauto.
  - apply (rules_ok _ I).
  - intros p H. apply (pend_ok _ I) in H. tauto.
Qed.

Lemma local_items_local st c m : Forall (fun it => i_local it = true) (local_items st c m).
Proof. unfold local_items. destruct (local_answer m); repeat constructor. Qed.

Definition step_items_ok (st : state) (l : list item) : Prop :=
  Forall (fun it => i_local it = true) l \/ Forall (item_good (is_monitor st) (st_mrules st)) l.

Theorem step_good st e : Inv st -> step_items_ok st (snd (step st e)).
Proof.
  intros I. pose proof (mon_ext_refl st) as He. pose proof (clean_Inv st I) as Hc.
  assert (Hfresh : is_monitor st (st_next st) = false).
  { destruct (is_monitor st (st_next st)) eqn:E; auto. apply (mons_conn _ I) in E. apply (conns_lt _ I) in E. lia. }
  unfold step. destruct (wf_event st e) eqn:W; simpl; [|right; constructor].
  assert (D : forall c, is_monitor st c = true -> step_items_ok st (snd (disconnect st c))).
  { intros c Hm. unfold disconnect. rewrite Hm. simpl. right; constructor. }
  destruct e as [|c|c m|c s n dnq|c s n|c s f|c s|c s fs]; simpl in W.
  - right. apply connect_good; auto.
  - destruct (is_monitor st c) eqn:Em; [apply D; auto|]. right. apply disconnect_ordinary_good; auto.
  - simpl. destruct (peer_local (stamp c m)); [left; apply local_items_local|].
    destruct (is_monitor st c) eqn:Em; [apply D; auto|].
    destruct (unrouted (stamp c m)); [left; apply local_items_local|]. right. apply dispatch_good; auto.
  - simpl. destruct (is_monitor st c) eqn:Em; [apply D; auto|]. right.
    apply to_driver_good; auto. apply request_name_good; auto.
  - simpl. destruct (is_monitor st c) eqn:Em; [apply D; auto|]. right.
    apply to_driver_good; auto. apply release_name_good; auto.
  - simpl. destruct (is_monitor st c) eqn:Em; [apply D; auto|]. right.
    apply to_driver_good; auto. apply add_match_good; auto.
  - simpl. destruct (is_monitor st c) eqn:Em; [apply D; auto|]. right.
    apply to_driver_good; auto. apply get_id_good; auto.
  - simpl. destruct (is_monitor st c) eqn:Em; [apply D; auto|]. right.
    apply to_driver_good; auto. apply become_monitor_good; auto.
Qed.

Lemma step_item_good st e it :
  Inv st -> In it (snd (step st e)) -> i_local it = false -> item_good (is_monitor st) (st_mrules st) it.
Proof.
  intros I Hin Hl. destruct (step_good st e I) as [H|H]; rewrite Forall_forall in H.
  - rewrite (H it Hin) in Hl. discriminate.
  - apply H; auto.
Qed.

(* ---------------------------------------------------------------- the clauses of the property *)
Theorem sees_once st e x it :
  reachable st -> is_monitor st x = true -> In it (snd (step st e)) -> i_local it = false ->
  sees_once_at st x it /\ true_sender it.
Proof.
  intros R Hx Hin Hl. pose proof (step_item_good st e it (Inv_reachable st R) Hin Hl) as (_ & Hc & _ & _ & Hs).
  split; auto. unfold sees_once_at. rewrite <- wantsb_spec. specialize (Hc x Hx).
  destruct (wantsb (i_own it) true (st_mrules st) x (i_from it) (i_addr it) (i_msg it)); split; intros H; auto; try congruence;
    try (exfalso; apply H; reflexivity).
Qed.

Theorem never_addressee st e x it :
  reachable st -> is_monitor st x = true -> In it (snd (step st e)) -> i_local it = false ->
  i_direct it <> Some x /\ ~ In x (i_match it).
Proof.
  intros R Hx Hin Hl. pose proof (step_item_good st e it (Inv_reachable st R) Hin Hl) as (_ & _ & Hd & Hm & _).
  split.
  - intros E. rewrite (Hd x E) in Hx. discriminate.
  - intros H. rewrite (Hm x H) in Hx. discriminate.
Qed.

(* a monitor's total for an item is what its filter says: nothing reaches it any other way *)
Theorem once_total_old_monitor st e x it :
  reachable st -> is_monitor st x = true -> In it (snd (step st e)) -> i_local it = false -> (total x it <= 1)%nat.
Proof.
  intros R Hx Hin Hl. pose proof (step_item_good st e it (Inv_reachable st R) Hin Hl) as (_ & Hc & Hd & Hm & _).
  unfold total. specialize (Hc x Hx).
  assert (H1 : (match i_direct it with Some r => if r =? x then 1 else 0 | None => 0 end = 0)%nat).
  { destruct (i_direct it) as [r|] eqn:E; auto. destruct (r =? x) eqn:E2; auto. apply N.eqb_eq in E2. subst.
    rewrite (Hd x eq_refl) in Hx. discriminate. }
  assert (H2 : count_occ N.eq_dec (i_match it) x = 0%nat).
  { apply count_occ_not_In. intros H. rewrite (Hm x H) in Hx. discriminate. }
  rewrite H1, H2, Hc. destruct (wantsb (i_own it) true (st_mrules st) x (i_from it) (i_addr it) (i_msg it)); lia.
Qed.

(* ---------------------------------------------------------------- "is disconnected if it sends anything" *)
Theorem send_closes st e x :
  is_monitor st x = true -> actor e = Some x -> wf_event st e = true ->
  (forall m, wire_msg e = Some m -> peer_local m = false) ->
  closes st e x.
Proof.
  intros Hx Ha W Hp. unfold closes.
  assert (D : fst (disconnect st x) = upd st (filter (fun y => negb (y =? x)) (st_conns st)) (st_next st) (st_own st) (st_rules st)
                (mm_disconnected (st_mrules st) x) (filter (fun y => negb (y =? x)) (st_mons st)) (st_pend st)
              /\ snd (disconnect st x) = []).
  { unfold disconnect. rewrite Hx. split; reflexivity. }
  assert (S : step st e = disconnect st x).
  { unfold step. rewrite W. simpl.
    destruct e as [|c|c m|c s n dnq|c s n|c s f|c s|c s fs]; simpl in Ha; try discriminate; inversion Ha; subst; auto;
      simpl; try (rewrite Hx; reflexivity).
    rewrite (Hp (stamp x m) eq_refl). rewrite Hx. reflexivity. }
  rewrite S. destruct D as [D1 D2]. rewrite D1, D2. simpl. unfold connected, is_monitor. simpl.
  rewrite !memN_filter_neq, N.eqb_refl. simpl. rewrite !andb_false_r. repeat split; reflexivity.
Qed.

(* ---------------------------------------------------------------- "owns no names ... loses its ordinary match rules" *)
Theorem owns_nothing st x n : reachable st -> is_monitor st x = true -> ~ in_queue (st_own st) n x.
Proof.
  intros R Hx H. apply (own_ok _ (Inv_reachable st R)) in H. destruct H as [_ H]. congruence.
Qed.

Theorem no_ordinary_rules st x f : reachable st -> is_monitor st x = true -> ~ In (x, f) (st_rules st).
Proof.
  intros R Hx H. apply (rules_ok _ (Inv_reachable st R)) in H. simpl in H. congruence.
Qed.

Theorem no_pending_replies st x p :
  reachable st -> is_monitor st x = true -> In p (st_pend st) -> p_get p <> x /\ p_send p <> Some x.
Proof.
  intros R Hx H. apply (pend_ok _ (Inv_reachable st R)) in H. destruct H as [H1 H2]. split.
  - intros E. rewrite E in H1. congruence.
  - intros E. rewrite (H2 x E) in Hx. discriminate.
Qed.

(* what the switch does to the connection *)
Theorem switch_effect st c s fs :
  reachable st -> ordinary st c -> s <> 0 ->
  let st' := fst (step st (EBecomeMonitor c s fs)) in
  is_monitor st' c = true /\ connected st' c = true /\
  owned (st_own st') c = [] /\ (forall f, ~ In (c, f) (st_rules st')) /\
  (forall p, In p (st_pend st') -> involves c p = false) /\
  (forall f, In (c, f) (st_mrules st') <-> In (c, f) (st_mrules st) \/ In f (match fs with [] => [empty_filter] | _ => fs end)).
Proof.
  intros R [Hc Hm] Hs. unfold step. simpl. rewrite Hc. apply N.eqb_neq in Hs. rewrite Hs. simpl. rewrite Hm.
  unfold to_driver. simpl.
  unfold become_monitor.
  set (fs' := match fs with [] => [empty_filter] | _ => fs end).
  set (st1 := upd st (st_conns st) (st_next st) (st_own st) (st_rules st)
                      (st_mrules st ++ map (fun f => (c, f)) fs') (st_mons st) (st_pend st)).
  destruct (release_all st1 c (owned (st_own st1) c)) as [st2 rel] eqn:E2.
  pose proof (release_all_state st1 c (owned (st_own st1) c)) as H2. rewrite E2 in H2. simpl in H2.
  set (st3 := upd st2 (st_conns st2) (st_next st2) (st_own st2) (drop_rules (st_rules st2) c)
                      (st_mrules st2) (st_mons st2 ++ [c]) (st_pend st2)).
  destruct (noreply_items st3 c) as [st4 nr] eqn:E4.
  pose proof (noreply_items_state st3 c) as H4. rewrite E4 in H4. simpl in H4. simpl. subst st4 st3 st2. simpl.
  unfold is_monitor, connected. simpl. repeat split.
  - rewrite memN_app. simpl. rewrite N.eqb_refl. simpl. apply orb_true_r.
  - exact Hc.
  - destruct (owned (unlink_all (st_own st) c (owned (st_own st) c)) c) as [|k l] eqn:E; auto.
    assert (H : In k (k :: l)) by (left; auto). rewrite <- E in H. apply owned_In in H. apply unlink_all_owned in H. tauto.
  - intros f H. unfold drop_rules in H. apply filter_In in H. destruct H as [_ H]. simpl in H. rewrite N.eqb_refl in H. discriminate.
  - intros p H. apply drop_pending_In in H. tauto.
  - intros H. apply in_app_or in H. destruct H as [H|H]; auto. right. apply in_map_iff in H. destruct H as (g & E & H). inversion E; subst; auto.
  - intros [H|H]; apply in_or_app; auto. right. apply in_map_iff. exists f; auto.
Qed.
