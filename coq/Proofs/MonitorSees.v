(* C18, part 3: every item the bus produces (other than those libdbus answers by itself) reaches each
   connection that is a monitor BEFORE the step exactly once if its filter wants it and not at all
   otherwise, carries the true sender, and is neither delivered to nor matched for such a monitor.
   The lemmas follow the item-producing functions of Monitor.v one by one. *)
From Coq Require Import ZifyBool ZifyN ZifyNat Permutation.
From DV Require Import Lib.Base Monitor.Monitor Spec.MonitorSpec Proofs.MonitorBase Proofs.MonitorInv.
Local Open Scope N_scope.

Section Good.
Variable M : cid -> bool.              (* the monitors of the state the step starts from *)
Variable mr0 : list (cid * flt).       (* the monitor rules of that state *)

(* an intermediate state keeps those monitors and their rules *)
Definition mon_ext (st' : state) : Prop :=
  (forall x, M x = true -> is_monitor st' x = true) /\
  (forall x own from addr m, M x = true ->
     wantsb own true (st_mrules st') x from addr m = wantsb own true mr0 x from addr m).

(* ... and they are party to nothing *)
Definition clean (st' : state) : Prop :=
  (forall n c, In (n, c) (st_own st') -> M c = false) /\
  (forall r, In r (st_rules st') -> M (fst r) = false) /\
  (forall p, In p (st_pend st') -> M (p_get p) = false) /\
  (forall n c m, In (n, c, m) (st_held st') -> M c = false /\ b_sender m = SConn c).

Definition item_good (it : item) : Prop :=
  i_local it = false /\
  (i_resumed it = false -> forall x, M x = true ->
     copies x it = if wantsb (i_own it) true mr0 x (i_from it) (i_addr it) (i_msg it) then 1%nat else 0%nat) /\
  (i_resumed it = true -> i_cap it = []) /\
  (forall r, i_direct it = Some r -> M r = false) /\
  (forall r, In r (i_match it) -> M r = false) /\
  true_sender it /\
  (forall c, i_from it = Some c -> M c = false).

Lemma mon_ext_same st' st'' :
  st_mons st'' = st_mons st' -> st_mrules st'' = st_mrules st' -> mon_ext st' -> mon_ext st''.
Proof. intros E1 E2 [H1 H2]. split; unfold is_monitor in *; rewrite ?E1, ?E2; auto. Qed.

Lemma mk_item_good st' from addr m d mt :
  mon_ext st' ->
  (forall x, M x = true -> addr <> Some x) ->
  (forall r, d = Some r -> M r = false) ->
  (forall r, In r mt -> M r = false) ->
  (match from with Some c => b_sender m = SConn c | None => b_sender m = SDriver end) ->
  (forall c, from = Some c -> M c = false) ->
  item_good (mk_item st' from addr m d mt).
Proof.
  intros [Hm Hw] Ha Hd Ht Hs Hf. unfold item_good, mk_item, copies, true_sender; simpl.
  split; [reflexivity|]. split; [|split; [discriminate | repeat split; auto]].
  intros _ x Hx. unfold capture. pose proof (Hm x Hx) as Hmx. unfold is_monitor in Hmx.
  destruct (st_mons st') as [|y ys] eqn:E; [discriminate|].
  rewrite count_get_recipients. rewrite (Hw x _ _ _ _ Hx).
  assert (Hne : (match addr with Some a => a =? x | None => false end) = false).
  { destruct addr as [a|]; auto. apply N.eqb_neq. intros ->. apply (Ha x Hx). reflexivity. }
  rewrite Hne. reflexivity.
Qed.

Lemma from_driver_good st' r m :
  mon_ext st' -> M r = false -> b_sender m = SDriver -> item_good (from_driver st' r m).
Proof.
  intros He Hr Hs. unfold from_driver. apply mk_item_good; auto.
  - intros x Hx E. inversion E; subst. congruence.
  - intros r'. destruct (connected st' r); intros E; inversion E; subst; auto.
  - intros ? [].
  - discriminate.
Qed.

Lemma refusal_item_good st' from m :
  mon_ext st' -> (forall c, from = Some c -> M c = false) -> item_good (refusal_item st' from m).
Proof.
  intros He Hf. unfold refusal_item. apply mk_item_good; auto.
  - intros x Hx E. subst from. rewrite (Hf x eq_refl) in Hx. discriminate.
  - discriminate.
  - intros ? [].
  - discriminate.
Qed.

Lemma fanout_good st' from addr m rs refused :
  mon_ext st' -> clean st' -> (forall c, from = Some c -> M c = false) ->
  fanout st' from addr m = (rs, refused) ->
  (forall r, In r rs -> M r = false) /\ Forall item_good refused.
Proof.
  intros He (_ & Hr & _ & _) Hf. unfold fanout.
  assert (G : forall r, In r (get_recipients (st_own st') false (st_rules st') from addr m) -> M r = false).
  { intros r H. apply get_recipients_owner in H. destruct H as (f & H & _). apply (Hr (r, f) H). }
  destruct ((match from with Some _ => deny_send m false | None => false end) || deny_recv m false); intros E; inversion E; subst.
  - split; [intros ? []|]. apply Forall_forall. intros it H. apply in_map_iff in H. destruct H as (? & <- & _).
    apply refusal_item_good; auto.
  - split; auto.
Qed.

Lemma noc_item_good st' n old new : mon_ext st' -> clean st' -> item_good (noc_item st' n old new).
Proof.
  intros He Hc. unfold noc_item. destruct (fanout st' None None (noc_msg n old new)) as [rs refused] eqn:E.
  assert (Hn : forall c : cid, @None cid = Some c -> M c = false) by discriminate.
  destruct (fanout_good _ _ _ _ _ _ He Hc Hn E) as [H1 _].
  apply mk_item_good; auto; try discriminate.
Qed.

Lemma clean_set_own_sub st' own' :
  clean st' -> (forall p, In p own' -> In p (st_own st')) -> clean (set_own st' own').
Proof. intros (H1 & H2 & H3 & H4) Hs. split; [|split; [|split]]; simpl; auto. intros n c H. apply (H1 n c). apply Hs; auto. Qed.

Lemma clean_set_own_add st' n c : clean st' -> M c = false -> clean (set_own st' (st_own st' ++ [(n, c)])).
Proof.
  intros (H1 & H2 & H3 & H4) Hc. split; [|split; [|split]]; simpl; auto.
  intros k o H. apply in_app_or in H. destruct H as [H|[H|[]]]; [apply (H1 k o H)|]. inversion H; subst; auto.
Qed.

Lemma clean_set_pend st' pl :
  clean st' -> (forall p, In p pl -> In p (st_pend st') \/ M (p_get p) = false) -> clean (set_pend st' pl).
Proof. intros (H1 & H2 & H3 & H4) Hs. split; [|split; [|split]]; simpl; auto. intros p H. destruct (Hs p H); auto. Qed.

Lemma clean_set_held st' h :
  clean st' -> (forall x, In x h -> In x (st_held st') \/ (M (snd (fst x)) = false /\ b_sender (snd x) = SConn (snd (fst x)))) ->
  clean (set_held st' h).
Proof.
  intros (H1 & H2 & H3 & H4) Hs. split; [|split; [|split]]; simpl; auto.
  intros n c m H. destruct (Hs _ H) as [K|K]; auto. apply (H4 n c m K).
Qed.

Lemma remove_owner_good st' c n :
  mon_ext st' -> clean st' -> M c = false -> Forall item_good (snd (remove_owner st' c n)).
Proof.
  intros He Hc Hm. unfold remove_owner.
  destruct (queue (st_own st') n) as [|p rest] eqn:Eq; simpl; [constructor|].
  destruct (p =? c); simpl; [|constructor].
  constructor; [apply from_driver_good; auto|].
  destruct rest as [|w rest'].
  - constructor; [apply noc_item_good; auto | constructor].
  - assert (Hw : M w = false).
    { destruct Hc as (H1 & _). apply (H1 n w). apply queue_In. rewrite Eq. right; left; reflexivity. }
    constructor; [apply noc_item_good; auto|]. constructor; [apply from_driver_good; auto | constructor].
Qed.

Lemma release_all_good c ns : forall st',
  mon_ext st' -> clean st' -> M c = false -> Forall item_good (snd (release_all st' c ns)).
Proof.
  induction ns as [|n ns IH]; intros st' He Hc Hm; simpl; [constructor|].
  destruct (remove_owner st' c n) as [st1 i1] eqn:E1. destruct (release_all st1 c ns) as [st2 i2] eqn:E2. simpl.
  apply Forall_app. split.
  - pose proof (remove_owner_good st' c n He Hc Hm) as H. rewrite E1 in H. exact H.
  - pose proof (remove_owner_state st' c n) as Hs. rewrite E1 in Hs. simpl in Hs. subst st1.
    assert (H : Forall item_good (snd (release_all (set_own st' (unlink (st_own st') n c)) c ns))).
    { apply IH; [exact He | | exact Hm].
      apply clean_set_own_sub; auto. intros [k o] H. apply unlink_In in H. tauto. }
    rewrite E2 in H. exact H.
Qed.

Lemma noreply_items_good st' c : mon_ext st' -> clean st' -> Forall item_good (snd (noreply_items st' c)).
Proof.
  intros He Hc. unfold noreply_items. simpl. apply Forall_forall. intros it H.
  apply in_map_iff in H. destruct H as (p & <- & Hp). unfold orphaned in Hp. apply filter_In in Hp. destruct Hp as [Hp _].
  apply from_driver_good; auto.
  destruct Hc as (_ & _ & H3 & _). apply H3; auto.
Qed.

Lemma entry_item_good st' c m : mon_ext st' -> M c = false -> b_sender m = SConn c -> item_good (entry_item st' c m).
Proof.
  intros He Hm Hs. unfold entry_item. apply mk_item_good; auto; try discriminate.
  - intros ? [].
  - intros c' E. inversion E; subst; auto.
Qed.

Lemma error_reply_good st' c m e : mon_ext st' -> M c = false -> item_good (error_reply st' c m e).
Proof. intros He Hm. unfold error_reply. apply from_driver_good; auto. Qed.

Lemma to_driver_good st' c m h :
  mon_ext st' -> M c = false -> b_sender m = SConn c -> Forall item_good (snd h) ->
  Forall item_good (snd (to_driver st' c m h)).
Proof.
  intros He Hm Hs Hh. unfold to_driver. destruct (deny_send m false); simpl.
  - constructor; [apply entry_item_good; auto|]. constructor; [apply error_reply_good; auto | constructor].
  - destruct h as [s l]. simpl in *. constructor; [apply entry_item_good; auto | auto].
Qed.

Lemma deliver_good st' c r m resumed :
  mon_ext st' -> clean st' -> M c = false -> M r = false -> b_sender m = SConn c ->
  Forall item_good (snd (deliver st' c r m resumed)) /\ clean (fst (deliver st' c r m resumed)).
Proof.
  intros He Hc Hm Hr Hs. rewrite deliver_state. unfold deliver.
  assert (Hfrom : forall c', Some c = Some c' -> M c' = false) by (intros c' E; inversion E; subst; auto).
  assert (Ha : forall x, M x = true -> Some r <> Some x) by (intros x Hx E; inversion E; subst; congruence).
  destruct (check_policy (st_pend st') c r m) as [pl v] eqn:Ec. cbv zeta. simpl fst.
  assert (He' : mon_ext (set_pend st' pl)) by (apply (mon_ext_same st'); auto).
  assert (Hc' : clean (set_pend st' pl)).
  { apply clean_set_pend; auto. intros p Hp.
    destruct (check_policy_sub _ _ _ _ _ _ Ec p Hp) as [H | ->]; [left; auto | right; auto]. }
  split; auto.
  assert (It : forall d mt, (forall r', d = Some r' -> M r' = false) -> (forall r', In r' mt -> M r' = false) ->
               item_good (if resumed then mkItem (st_own st') (Some c) (Some r) m false [] d mt true
                          else mk_item st' (Some c) (Some r) m d mt)).
  { intros d mt Hd Ht. destruct resumed.
    - unfold item_good, true_sender. simpl. repeat split; auto; discriminate.
    - apply mk_item_good; auto. }
  destruct v as [e|].
  - simpl. constructor; [apply It; [discriminate | intros ? []]|].
    constructor; [apply error_reply_good; auto | constructor].
  - destruct (fanout (set_pend st' pl) (Some c) (Some r) m) as [rs refused] eqn:E. simpl.
    destruct (fanout_good _ _ _ _ _ _ He' Hc' Hfrom E) as [H1 H2].
    constructor; auto. apply It; auto. intros r' E'. inversion E'; subst; auto.
Qed.

Lemma resume_all_good r l : forall st',
  mon_ext st' -> clean st' -> M r = false ->
  (forall n c m, In (n, c, m) l -> M c = false /\ b_sender m = SConn c) ->
  Forall item_good (snd (resume_all st' r l)) /\ clean (fst (resume_all st' r l)) /\ mon_ext (fst (resume_all st' r l)).
Proof.
  induction l as [|[[n c] m] l IH]; intros st' He Hc Hr Hl; simpl; [split; [constructor | split; auto]|].
  assert (Hl' : forall n' c' m', In (n', c', m') l -> M c' = false /\ b_sender m' = SConn c').
  { intros n' c' m' H. apply (Hl n' c' m'). right; auto. }
  destruct (connected st' c); [|apply IH; auto].
  destruct (Hl n c m (or_introl eq_refl)) as [Hm Hs].
  destruct (deliver_good st' c r m true He Hc Hm Hr Hs) as [G1 G2].
  pose proof (deliver_state st' c r m true) as Hst.
  destruct (deliver st' c r m true) as [st1 i1]. simpl in *.
  assert (He1 : mon_ext st1) by (subst st1; apply (mon_ext_same st'); auto).
  destruct (IH st1 He1 G2 Hr Hl') as (K1 & K2 & K3).
  destruct (resume_all st1 r l) as [st2 i2]. simpl in *. split; [apply Forall_app; auto | split; auto].
Qed.

Lemma release_held_good st' nm :
  mon_ext st' -> clean st' ->
  Forall item_good (snd (release_held st' nm)) /\ clean (fst (release_held st' nm)) /\ mon_ext (fst (release_held st' nm)).
Proof.
  intros He Hc. unfold release_held. destruct (primary (st_own st') nm) as [r|] eqn:Ep; [|simpl; split; [constructor | split; auto]].
  apply resume_all_good.
  - apply (mon_ext_same st'); auto.
  - apply clean_set_held; auto. intros x H. apply filter_In in H. tauto.
  - destruct Hc as (H1 & _). apply (H1 nm r). apply primary_In; auto.
  - intros n c m H. apply filter_In in H. destruct H as [H _]. destruct Hc as (_ & _ & _ & H4). apply (H4 n c m H).
Qed.

Lemma request_name_good st' c s n dnq :
  mon_ext st' -> clean st' -> M c = false -> Forall item_good (snd (request_name st' c s n dnq)).
Proof.
  intros He Hc Hm. unfold request_name.
  assert (G : forall st1 (l : list item) (code : N), mon_ext st1 -> clean st1 -> Forall item_good l ->
              Forall item_good (snd (let '(st'', l2) := release_held st1 (NWk n) in
                                     (st'', l ++ l2 ++ [from_driver st'' c (reply_msg c s [ANum code])])))).
  { intros st1 l code He1 Hc1 Hl. destruct (release_held_good st1 (NWk n) He1 Hc1) as (K1 & K2 & K3).
    destruct (release_held st1 (NWk n)) as [st'' l2]. simpl in *.
    apply Forall_app. split; auto. apply Forall_app. split; auto.
    constructor; [apply from_driver_good; auto | constructor]. }
  destruct (queue (st_own st') (NWk n)) as [|p q] eqn:Eq.
  - apply G.
    + apply (mon_ext_same st'); auto.
    + apply clean_set_own_add; auto.
    + constructor; [apply noc_item_good; auto|]. constructor; [apply from_driver_good; auto | constructor].
  - destruct (p =? c); [apply G; auto; constructor|].
    destruct dnq.
    + apply G; [apply (mon_ext_same st'); auto | | constructor].
      apply clean_set_own_sub; auto. intros [k o] H. apply unlink_In in H. tauto.
    + destruct (memN c (p :: q)); [apply G; auto; constructor|].
      apply G; [apply (mon_ext_same st'); auto | apply clean_set_own_add; auto | constructor].
Qed.

Lemma release_name_good st' c s n :
  mon_ext st' -> clean st' -> M c = false -> Forall item_good (snd (release_name st' c s n)).
Proof.
  intros He Hc Hm. unfold release_name.
  destruct (queue (st_own st') (NWk n)) as [|p q] eqn:Eq; [simpl; constructor; [apply from_driver_good; auto | constructor]|].
  destruct (memN c (p :: q)); [|simpl; constructor; [apply from_driver_good; auto | constructor]].
  destruct (remove_owner st' c (NWk n)) as [st1 l1] eqn:E. simpl. apply Forall_app. split.
  - pose proof (remove_owner_good st' c (NWk n) He Hc Hm) as H. rewrite E in H. exact H.
  - pose proof (remove_owner_state st' c (NWk n)) as Hs. rewrite E in Hs. simpl in Hs. subst st1.
    constructor; [|constructor]. apply from_driver_good; auto.
Qed.

Lemma add_match_good st' c s f : mon_ext st' -> M c = false -> Forall item_good (snd (add_match st' c s f)).
Proof.
  intros He Hm. unfold add_match. simpl. constructor; [|constructor]. apply from_driver_good; auto.
Qed.

Lemma get_id_good st' c s : mon_ext st' -> M c = false -> Forall item_good (snd (get_id st' c s)).
Proof. intros He Hm. unfold get_id. simpl. constructor; [apply from_driver_good; auto | constructor]. Qed.

Lemma driver_generic_good st' c m : mon_ext st' -> M c = false -> Forall item_good (snd (driver_generic st' c m)).
Proof.
  intros He Hm. unfold driver_generic. destruct (b_type m) as [[| | |]|n]; simpl; try (constructor; fail).
  constructor; [apply error_reply_good; auto | constructor].
Qed.

Lemma no_owner_good st' c d m :
  mon_ext st' -> M c = false -> b_sender m = SConn c -> Forall item_good (snd (no_owner st' c d m)).
Proof.
  intros He Hm Hs. unfold no_owner.
  destruct (b_noauto m); [simpl; constructor; [apply entry_item_good; auto|]; constructor; [apply error_reply_good; auto | constructor]|].
  destruct (negb (activatable d)); [simpl; constructor; [apply entry_item_good; auto|]; constructor; [apply error_reply_good; auto | constructor]|].
  destruct (deny_send m false); simpl.
  - constructor; [apply entry_item_good; auto|]. constructor; [apply error_reply_good; auto | constructor].
  - constructor; [apply entry_item_good; auto | constructor].
Qed.

Lemma dispatch_good st' c m :
  mon_ext st' -> clean st' -> M c = false -> b_sender m = SConn c -> Forall item_good (snd (dispatch st' c m)).
Proof.
  intros He Hc Hm Hs. unfold dispatch.
  assert (Hfrom : forall c', Some c = Some c' -> M c' = false) by (intros c' E; inversion E; subst; auto).
  destruct (b_dest m) as [d|].
  2:{ destruct (fanout st' (Some c) None m) as [rs refused] eqn:E. simpl.
      destruct (fanout_good _ _ _ _ _ _ He Hc Hfrom E) as [H1 H2].
      constructor; auto. apply mk_item_good; auto; discriminate. }
  assert (G : forall d', Forall item_good (snd (match primary (st_own st') d' with
                                               | None => no_owner st' c d' m
                                               | Some r => deliver st' c r m false
                                               end))).
  { intros d'. destruct (primary (st_own st') d') as [r|] eqn:Ep; [|apply no_owner_good; auto].
    apply deliver_good; auto. destruct Hc as (H1 & _). apply (H1 d' r). apply primary_In; auto. }
  destruct d as [|u|w].
  - apply to_driver_good; auto. apply driver_generic_good; auto.
  - apply G.
  - apply G.
Qed.

Lemma disconnect_ordinary_good st' c :
  mon_ext st' -> clean st' -> M c = false -> is_monitor st' c = false -> Forall item_good (snd (disconnect st' c)).
Proof.
  intros He Hc Hm Hnm. unfold disconnect. rewrite Hnm.
  set (st1 := upd st' (filter (fun x => negb (x =? c)) (st_conns st')) (st_next st') (st_own st')
                      (drop_rules (st_rules st') c) (st_mrules st') (st_mons st') (st_pend st')).
  assert (He1 : mon_ext st1) by (apply (mon_ext_same st'); auto).
  assert (Hc1 : clean st1).
  { destruct Hc as (H1 & H2 & H3 & H4). split; [|split; [|split]]; simpl; auto.
    intros r H. unfold drop_rules in H. apply filter_In in H. apply H2. tauto. }
  destruct (release_all st1 c (rev (owned (st_own st1) c))) as [st2 rel] eqn:E2.
  destruct (noreply_items st2 c) as [st3 nr] eqn:E3. simpl.
  pose proof (release_all_state st1 c (rev (owned (st_own st1) c))) as H2. rewrite E2 in H2. simpl in H2.
  apply Forall_app. split.
  - pose proof (release_all_good c (rev (owned (st_own st1) c)) st1 He1 Hc1 Hm) as H. rewrite E2 in H. exact H.
  - assert (H : Forall item_good (snd (noreply_items st2 c))).
    { subst st2. apply noreply_items_good.
      - apply (mon_ext_same st1); auto.
      - apply clean_set_own_sub; auto. intros [k o] H. apply unlink_all_In in H. tauto. }
    rewrite E3 in H. exact H.
Qed.

Lemma become_monitor_good st' c s fs :
  mon_ext st' -> clean st' -> M c = false -> Forall item_good (snd (become_monitor st' c s fs)).
Proof.
  intros He Hc Hm. unfold become_monitor.
  set (fs' := match fs with [] => [empty_filter] | _ => fs end).
  set (st1 := upd st' (st_conns st') (st_next st') (st_own st') (st_rules st')
                      (st_mrules st' ++ map (fun f => (c, f)) fs') (st_mons st') (st_pend st')).
  assert (Hforeign : forall x own from addr m, M x = true -> wantsb own true (map (fun f => (c, f)) fs') x from addr m = false).
  { intros x own from addr m Hx. apply wantsb_foreign. intros r H. apply in_map_iff in H. destruct H as (f & <- & _).
    simpl. intros ->. congruence. }
  assert (He1 : mon_ext st1).
  { destruct He as [H1 H2]. split; auto. intros x own from addr m Hx. simpl.
    rewrite wantsb_app, (Hforeign x own from addr m Hx), orb_false_r. apply H2; auto. }
  assert (Hc1 : clean st1) by exact Hc.
  destruct (release_all st1 c (owned (st_own st1) c)) as [st2 rel] eqn:E2.
  pose proof (release_all_state st1 c (owned (st_own st1) c)) as H2. rewrite E2 in H2. simpl in H2.
  set (st3 := upd st2 (st_conns st2) (st_next st2) (st_own st2) (drop_rules (st_rules st2) c)
                      (st_mrules st2) (st_mons st2 ++ [c]) (st_pend st2)).
  destruct (noreply_items st3 c) as [st4 nr] eqn:E4. simpl.
  constructor; [apply from_driver_good; auto|].
  apply Forall_app. split.
  - pose proof (release_all_good c (owned (st_own st1) c) st1 He1 Hc1 Hm) as H. rewrite E2 in H. exact H.
  - assert (H : Forall item_good (snd (noreply_items st3 c))).
    { apply noreply_items_good.
      - subst st3 st2. destruct He1 as [H1 H3]. split; simpl.
        + intros x Hx. specialize (H1 x Hx). unfold is_monitor in *. simpl in *. rewrite memN_app, H1. reflexivity.
        + intros x own from addr m Hx. apply (H3 x own from addr m Hx).
      - subst st3 st2. destruct Hc1 as (K1 & K2 & K3 & K4). split; [|split; [|split]]; simpl; auto.
        + intros k o H. apply unlink_all_In in H. apply (K1 k o). tauto.
        + intros r H. unfold drop_rules in H. apply filter_In in H. apply K2. tauto. }
    rewrite E4 in H. exact H.
Qed.

Lemma become_monitor_call_good st' c s so fl rs :
  mon_ext st' -> clean st' -> M c = false -> Forall item_good (snd (become_monitor_call st' c s so fl rs)).
Proof.
  intros He Hc Hm. unfold become_monitor_call.
  destruct (memN c (st_unpriv st')); [simpl; constructor; [apply error_reply_good; auto | constructor]|].
  destruct (negb so); [simpl; constructor; [apply error_reply_good; auto | constructor]|].
  destruct (negb (fl =? 0)); [simpl; constructor; [apply error_reply_good; auto | constructor]|].
  destruct (parse_all rs); [apply become_monitor_good; auto|].
  simpl; constructor; [apply error_reply_good; auto | constructor].
Qed.

Lemma connect_good st' priv :
  mon_ext st' -> clean st' -> M (st_next st') = false -> Forall item_good (snd (connect st' priv)).
Proof.
  intros He Hc Hm. unfold connect. simpl.
  set (st1 := upd st' (st_conns st' ++ [st_next st']) (st_next st' + 1) (st_own st') (st_rules st') (st_mrules st') (st_mons st') (st_pend st')).
  assert (He1 : mon_ext st1) by (apply (mon_ext_same st'); auto).
  constructor.
  { apply mk_item_good; auto; try discriminate; [intros ? [] | intros c' E; inversion E; subst; auto]. }
  constructor; [apply from_driver_good; auto|].
  constructor; [apply noc_item_good; auto|].
  constructor; [apply from_driver_good; auto | constructor].
Qed.

End Good.

(* ---------------------------------------------------------------- one step from a state satisfying the invariant *)
Lemma mon_ext_refl st : mon_ext (is_monitor st) (st_mrules st) st.
Proof. split; auto. Qed.

Lemma clean_Inv st : Inv st -> clean (is_monitor st) st.
Proof.
  intros I. split; [|split; [|split]].
  - intros n c H. apply (own_ok _ I) in H. tauto.
  - apply (rules_ok _ I).
  - intros p H. apply (pend_ok _ I) in H. tauto.
  - apply (held_ok _ I).
Qed.

Lemma local_items_local st c m : Forall (fun it => i_local it = true /\ i_resumed it = false) (local_items st c m).
Proof. unfold local_items. destruct (local_answer m); repeat constructor. Qed.

Definition step_items_ok (st : state) (l : list item) : Prop :=
  Forall (fun it => i_local it = true /\ i_resumed it = false) l \/ Forall (item_good (is_monitor st) (st_mrules st)) l.

Theorem step_good st e : Inv st -> step_items_ok st (snd (step st e)).
Proof.
  intros I. pose proof (mon_ext_refl st) as He. pose proof (clean_Inv st I) as Hc.
  assert (Hfresh : is_monitor st (st_next st) = false).
  { destruct (is_monitor st (st_next st)) eqn:E; auto. apply (mons_conn _ I) in E. apply (conns_lt _ I) in E. lia. }
  unfold step. destruct (wf_event st e) eqn:W; simpl; [|right; constructor].
  assert (D : forall c, is_monitor st c = true -> step_items_ok st (snd (disconnect st c))).
  { intros c Hm. unfold disconnect. rewrite Hm. unfold noreply_items. simpl.
    destruct (monitor_no_pending st c I Hm) as [_ Eo]. rewrite Eo. simpl. right; constructor. }
  destruct e as [priv|c|c m|c s n dnq|c s n|c s f|c s|c s so fl rs]; simpl in W.
  - right. apply connect_good; auto.
  - destruct (is_monitor st c) eqn:Em; [apply D; auto|]. right. apply disconnect_ordinary_good; auto.
  - simpl. destruct (peer_local (stamp c m)); [left; apply local_items_local|].
    destruct (is_monitor st c) eqn:Em; [apply D; auto|].
    destruct (unrouted (stamp c m)); [left; apply local_items_local|]. right. apply dispatch_good; auto.
  - simpl. destruct (is_monitor st c) eqn:Em; [apply D; auto|]. right.
    apply to_driver_good; auto. apply request_name_good; auto.
  - simpl. destruct (is_monitor st c) eqn:Em; [apply D; auto|]. right.
    apply to_driver_good; auto. apply release_name_good; auto.
  - simpl. destruct (is_monitor st c) eqn:Em; [apply D; auto|]. right.
    apply to_driver_good; auto. apply add_match_good; auto.
  - simpl. destruct (is_monitor st c) eqn:Em; [apply D; auto|]. right.
    apply to_driver_good; auto. apply get_id_good; auto.
  - simpl. destruct (is_monitor st c) eqn:Em; [apply D; auto|]. right.
    apply to_driver_good; auto. apply become_monitor_call_good; auto.
Qed.

Lemma step_item_good st e it :
  Inv st -> In it (snd (step st e)) -> i_local it = false -> item_good (is_monitor st) (st_mrules st) it.
Proof.
  intros I Hin Hl. destruct (step_good st e I) as [H|H]; rewrite Forall_forall in H.
  - destruct (H it Hin) as [H1 _]. rewrite H1 in Hl. discriminate.
  - apply H; auto.
Qed.

(* ---------------------------------------------------------------- the clauses of the property *)
Theorem sees_once st e x it :
  creachable st -> is_monitor st x = true -> In it (snd (step st e)) -> i_local it = false -> i_resumed it = false ->
  sees_once_at st x it /\ true_sender it.
Proof.
  intros R Hx Hin Hl Hr. pose proof (step_item_good st e it (Inv_creachable st R) Hin Hl) as (_ & Hc & _ & _ & _ & Hs & _).
  split; auto. unfold sees_once_at. rewrite <- wantsb_spec. specialize (Hc Hr x Hx).
  destruct (wantsb (i_own it) true (st_mrules st) x (i_from it) (i_addr it) (i_msg it)); split; intros H; auto; try congruence;
    try (exfalso; apply H; reflexivity).
Qed.

(* a held message whose dispatch is resumed is not captured a second time, and still bears its sender *)
Theorem resumed_no_copy st e it :
  creachable st -> In it (snd (step st e)) -> i_resumed it = true -> i_cap it = [] /\ true_sender it.
Proof.
  intros R Hin Hr. destruct (step_good st e (Inv_creachable st R)) as [H|H]; rewrite Forall_forall in H.
  - destruct (H it Hin) as [_ H2]. congruence.
  - destruct (H it Hin) as (_ & _ & Hc & _ & _ & Hs & _). split; auto.
Qed.

Theorem never_addressee st e x it :
  creachable st -> is_monitor st x = true -> In it (snd (step st e)) -> i_local it = false ->
  i_direct it <> Some x /\ ~ In x (i_match it).
Proof.
  intros R Hx Hin Hl. pose proof (step_item_good st e it (Inv_creachable st R) Hin Hl) as (_ & _ & _ & Hd & Hm & _).
  split.
  - intros E. rewrite (Hd x E) in Hx. discriminate.
  - intros H. rewrite (Hm x H) in Hx. discriminate.
Qed.

(* nothing is routed from a monitor *)
Theorem nothing_routed_from_monitor st e x it :
  creachable st -> is_monitor st x = true -> In it (snd (step st e)) -> i_local it = false -> i_from it <> Some x.
Proof.
  intros R Hx Hin Hl. pose proof (step_item_good st e it (Inv_creachable st R) Hin Hl) as (_ & _ & _ & _ & _ & _ & Hf).
  intros E. rewrite (Hf x E) in Hx. discriminate.
Qed.

(* a monitor's total for an item is what its filter says: nothing reaches it any other way *)
Theorem once_total_old_monitor st e x it :
  creachable st -> is_monitor st x = true -> In it (snd (step st e)) -> i_local it = false -> (total x it <= 1)%nat.
Proof.
  intros R Hx Hin Hl. pose proof (step_item_good st e it (Inv_creachable st R) Hin Hl) as (_ & Hc & Hrs & Hd & Hm & _).
  unfold total.
  assert (H1 : (match i_direct it with Some r => if r =? x then 1 else 0 | None => 0 end = 0)%nat).
  { destruct (i_direct it) as [r|] eqn:E; auto. destruct (r =? x) eqn:E2; auto. apply N.eqb_eq in E2. subst.
    rewrite (Hd x eq_refl) in Hx. discriminate. }
  assert (H2 : count_occ N.eq_dec (i_match it) x = 0%nat).
  { apply count_occ_not_In. intros H. rewrite (Hm x H) in Hx. discriminate. }
  rewrite H1, H2. destruct (i_resumed it) eqn:Er.
  - unfold copies. rewrite (Hrs eq_refl). simpl. lia.
  - rewrite (Hc eq_refl x Hx). destruct (wantsb (i_own it) true (st_mrules st) x (i_from it) (i_addr it) (i_msg it)); lia.
Qed.

(* ---------------------------------------------------------------- "is disconnected if it sends anything" *)
Theorem send_closes st e x :
  creachable st -> is_monitor st x = true -> actor e = Some x -> wf_event st e = true ->
  (forall m, wire_msg e = Some m -> peer_local m = false) ->
  closes st e x.
Proof.
  intros R Hx Ha W Hp. unfold closes. pose proof (Inv_creachable st R) as I.
  destruct (monitor_no_pending st x I Hx) as [Ed Eo].
  assert (D : fst (disconnect st x) = upd st (filter (fun y => negb (y =? x)) (st_conns st)) (st_next st) (st_own st) (st_rules st)
                (mm_disconnected (st_mrules st) x) (filter (fun y => negb (y =? x)) (st_mons st)) (st_pend st)
              /\ snd (disconnect st x) = []).
  { unfold disconnect. rewrite Hx. unfold noreply_items. simpl. rewrite Ed, Eo. split; reflexivity. }
  assert (S : step st e = disconnect st x).
  { unfold step. rewrite W. simpl.
    destruct e as [|c|c m|c s n dnq|c s n|c s f|c s|c s fs]; simpl in Ha; try discriminate; inversion Ha; subst; auto;
      simpl; try (rewrite Hx; reflexivity).
    rewrite (Hp (stamp x m) eq_refl). rewrite Hx. reflexivity. }
  rewrite S. destruct D as [D1 D2]. rewrite D1, D2. simpl. unfold connected, is_monitor. simpl.
  rewrite !memN_filter_neq, N.eqb_refl. simpl. rewrite !andb_false_r. repeat split; reflexivity.
Qed.

(* ---------------------------------------------------------------- "owns no names ... loses its ordinary match rules" *)
Theorem owns_nothing st x n : creachable st -> is_monitor st x = true -> ~ in_queue (st_own st) n x.
Proof.
  intros R Hx H. apply (own_ok _ (Inv_creachable st R)) in H. destruct H as [_ H]. congruence.
Qed.

Theorem no_ordinary_rules st x f : creachable st -> is_monitor st x = true -> ~ In (x, f) (st_rules st).
Proof.
  intros R Hx H. apply (rules_ok _ (Inv_creachable st R)) in H. simpl in H. congruence.
Qed.

Theorem no_pending_replies st x p :
  creachable st -> is_monitor st x = true -> In p (st_pend st) -> p_get p <> x /\ p_send p <> Some x.
Proof.
  intros R Hx H. apply (pend_ok _ (Inv_creachable st R)) in H. destruct H as [H1 H2]. split.
  - intros E. rewrite E in H1. congruence.
  - intros E. rewrite (H2 x E) in Hx. discriminate.
Qed.

(* ---------------------------------------------------------------- BecomeMonitor is all or nothing *)
Definition refusal_code (st : state) (c : cid) (so : bool) (fl : N) : N :=
  if memN c (st_unpriv st) then E_ACCESS_DENIED
  else if negb so then E_INVALID_ARGS
  else if negb (fl =? 0) then E_INVALID_ARGS
  else E_MATCH_RULE_INVALID.

(* unprivileged caller, wrong signature, a flag set, or a rule that does not parse (wherever it stands in the
   array): the state is EXACTLY as before and the only things produced are the call (for monitors) and one error *)
Theorem switch_refused st c s so fl rs :
  ordinary st c -> s <> 0 -> refused st c so fl rs ->
  let m := call_msg c s I_MONITORING M_BECOME_MONITOR in
  step st (EBecomeMonitor c s so fl rs) = (st, [entry_item st c m; error_reply st c m (refusal_code st c so fl)]).
Proof.
  intros [Hc Hm] Hs Hr. unfold step. simpl. rewrite Hc. apply N.eqb_neq in Hs. rewrite Hs. simpl. rewrite Hm.
  unfold to_driver. simpl. unfold become_monitor_call, refusal_code.
  destruct (memN c (st_unpriv st)) eqn:Eu; [reflexivity|].
  destruct so; simpl; [|reflexivity].
  destruct (fl =? 0) eqn:Ef; simpl; [|reflexivity].
  destruct (parse_all rs) as [fs|] eqn:Ep; [|reflexivity].
  exfalso. destruct Hr as [H|[H|[H|H]]]; try congruence.
  - apply N.eqb_eq in Ef. auto.
  - apply parse_all_None in H. congruence.
Qed.

(* what the switch does to the connection *)
Theorem switch_effect st c s rs fs :
  ordinary st c -> s <> 0 -> memN c (st_unpriv st) = false -> parse_all rs = Some fs ->
  let st' := fst (step st (EBecomeMonitor c s true 0 rs)) in
  is_monitor st' c = true /\ connected st' c = true /\
  owned (st_own st') c = [] /\ (forall f, ~ In (c, f) (st_rules st')) /\
  (forall p, In p (st_pend st') -> involves c p = false) /\
  (forall f, In (c, f) (st_mrules st') <-> In (c, f) (st_mrules st) \/ In f (match fs with [] => [empty_filter] | _ => fs end)).
Proof.
  intros [Hc Hm] Hs Hu Hp. unfold step. simpl. rewrite Hc. apply N.eqb_neq in Hs. rewrite Hs. simpl. rewrite Hm.
  unfold to_driver. simpl. unfold become_monitor_call. rewrite Hu, Hp. simpl.
  unfold become_monitor.
  set (fs' := match fs with [] => [empty_filter] | _ => fs end).
  set (st1 := upd st (st_conns st) (st_next st) (st_own st) (st_rules st)
                      (st_mrules st ++ map (fun f => (c, f)) fs') (st_mons st) (st_pend st)).
  destruct (release_all st1 c (owned (st_own st1) c)) as [st2 rel] eqn:E2.
  pose proof (release_all_state st1 c (owned (st_own st1) c)) as H2. rewrite E2 in H2. simpl in H2.
  set (st3 := upd st2 (st_conns st2) (st_next st2) (st_own st2) (drop_rules (st_rules st2) c)
                      (st_mrules st2) (st_mons st2 ++ [c]) (st_pend st2)).
  destruct (noreply_items st3 c) as [st4 nr] eqn:E4.
  pose proof (noreply_items_state st3 c) as H4. rewrite E4 in H4. simpl in H4. simpl. subst st4 st3 st2. simpl.
  unfold is_monitor, connected. simpl. repeat split.
  - rewrite memN_app. simpl. rewrite N.eqb_refl. simpl. apply orb_true_r.
  - exact Hc.
  - destruct (owned (unlink_all (st_own st) c (owned (st_own st) c)) c) as [|k l] eqn:E; auto.
    assert (H : In k (k :: l)) by (left; auto). rewrite <- E in H. apply owned_In in H. apply unlink_all_owned in H. tauto.
  - intros f H. unfold drop_rules in H. apply filter_In in H. destruct H as [_ H]. simpl in H. rewrite N.eqb_refl in H. discriminate.
  - intros p H. apply drop_pending_In in H. tauto.
  - intros H. apply in_app_or in H. destruct H as [H|H]; auto. right. apply in_map_iff in H. destruct H as (g & E & H). inversion E; subst; auto.
  - intros [H|H]; apply in_or_app; auto. right. apply in_map_iff. exists f; auto.
Qed.
