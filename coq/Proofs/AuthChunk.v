(* Chunking independence: how the byte stream is cut into reads (and when the
   answers are written out) does not matter.  The processed lines are exactly the
   CRLF-free pieces of the input in order, so two conversations fed the same bytes
   end in the same protocol state with the same unprocessed bytes -- unless the
   16 KiB cap (the only chunking-dependent rule) ended one of them. *)
From DV Require Import Lib.Base Auth.Types Gen.AuthTables Auth.Sha1 Wire.Utf8 Auth.Server
  Proofs.AuthInv Proofs.AuthBasics Proofs.AuthShape Proofs.AuthTrace.
Require Import ZifyBool ZifyN ZifyNat.
Local Open Scope N_scope.

(* ---------- the first CRLF ---------- *)
Lemma find_crlf_from_app_none l : forall k x, find_crlf_from l k = None ->
  find_crlf_from (l ++ 13 :: 10 :: x) k = Some (k + nlen l).
Proof.
  induction l as [|c r IH]; intros k x H.
  - cbn. f_equal. unfold nlen; cbn; lia.
  - cbn [app find_crlf_from] in *. destruct r as [|d r'].
    + cbn [app]. destruct ((c =? 13) && (13 =? 10)) eqn:E; [apply andb_true_iff in E; destruct E as [_ E]; discriminate|].
      cbn [find_crlf_from]. cbn. reflexivity.
    + cbn [app]. destruct ((c =? 13) && (d =? 10)) eqn:E; [discriminate|].
      change (d :: r' ++ 13 :: 10 :: x) with ((d :: r') ++ 13 :: 10 :: x). rewrite IH by exact H.
      f_equal. unfold nlen; cbn [length]; lia.
Qed.

Lemma find_crlf_app_none l x : find_crlf l = None -> find_crlf (l ++ 13 :: 10 :: x) = Some (nlen l).
Proof. unfold find_crlf. intros H. rewrite find_crlf_from_app_none by exact H. f_equal. Qed.

Lemma find_crlf_from_prefix_none s : forall k i, find_crlf_from s k = Some i ->
  find_crlf_from (firstn (N.to_nat (i - k)) s) k = None.
Proof.
  induction s as [|c r IH]; intros k i H; [discriminate|].
  cbn [find_crlf_from] in H. destruct r as [|d r']; [discriminate|].
  destruct ((c =? 13) && (d =? 10)) eqn:E.
  - inversion H; subst. rewrite N.sub_diag. reflexivity.
  - pose proof (find_crlf_from_spec _ _ _ H) as (pre & post & _ & Hi).
    assert (Hlt : k + 1 <= i) by lia.
    replace (N.to_nat (i - k)) with (S (N.to_nat (i - (k + 1)))) by lia.
    cbn [firstn]. specialize (IH _ _ H).
    remember (firstn (N.to_nat (i - (k + 1))) (d :: r')) as f eqn:Hf.
    cbn [find_crlf_from]. destruct f as [|d' f']; [reflexivity|].
    assert (d' = d).
    { destruct (N.to_nat (i - (k + 1))); cbn in Hf; [discriminate|]. inversion Hf; reflexivity. }
    subst d'. rewrite E. exact IH.
Qed.

Lemma find_crlf_prefix_none s i : find_crlf s = Some i -> find_crlf (firstn (N.to_nat i) s) = None.
Proof. unfold find_crlf. intros H. apply find_crlf_from_prefix_none in H. rewrite N.sub_0_r in H. exact H. Qed.

Lemma find_crlf_none_no_join l x y : find_crlf l = None -> l <> x ++ 13 :: 10 :: y.
Proof.
  intros H E. subst l. destruct (find_crlf x) as [i|] eqn:Ex.
  - destruct (find_crlf_parts _ _ Ex) as [Hx _].
    rewrite Hx in H. rewrite <- !app_assoc in H. cbn [app crlf] in H.
    rewrite find_crlf_app_none in H; [discriminate|]. apply find_crlf_prefix_none. exact Ex.
  - rewrite find_crlf_app_none in H by exact Ex. discriminate.
Qed.

(* ---------- uniqueness of the decomposition into lines ---------- *)
Definition crlf_free (ls : list bytes) : Prop := forall l, In l ls -> find_crlf l = None.

Lemma first_line_unique l1 x1 l2 x2 :
  find_crlf l1 = None -> find_crlf l2 = None -> l1 ++ 13 :: 10 :: x1 = l2 ++ 13 :: 10 :: x2 -> l1 = l2 /\ x1 = x2.
Proof.
  intros H1 H2 E.
  pose proof (find_crlf_app_none l1 x1 H1) as F1. pose proof (find_crlf_app_none l2 x2 H2) as F2.
  rewrite E in F1. rewrite F1 in F2. inversion F2 as [Hn].
  assert (Hl : length l1 = length l2) by (unfold nlen in Hn; lia).
  assert (Hf : firstn (length l1) (l1 ++ 13 :: 10 :: x1) = firstn (length l1) (l2 ++ 13 :: 10 :: x2)) by (rewrite E; reflexivity).
  rewrite firstn_len_app in Hf. rewrite Hl, firstn_len_app in Hf. subst l2.
  apply app_inv_head in E. inversion E. auto.
Qed.

(* two ways of reading the same stream as lines ++ rest: one line list is a prefix of the other *)
Lemma lines_comparable : forall ls1 t1 ls2 t2, crlf_free ls1 -> crlf_free ls2 ->
  join_lines ls1 ++ t1 = join_lines ls2 ++ t2 ->
  (exists m, ls2 = ls1 ++ m /\ t1 = join_lines m ++ t2) \/ (exists m, ls1 = ls2 ++ m /\ t2 = join_lines m ++ t1).
Proof.
  induction ls1 as [|l1 r1 IH]; intros t1 ls2 t2 C1 C2 E.
  - left. exists ls2. split; [reflexivity|exact E].
  - destruct ls2 as [|l2 r2].
    + right. exists (l1 :: r1). split; [reflexivity|symmetry; exact E].
    + cbn [join_lines flat_map] in E. rewrite <- !app_assoc in E. cbn [crlf app] in E.
      fold (join_lines r1) in E. fold (join_lines r2) in E.
      destruct (first_line_unique l1 _ l2 _ (C1 l1 (or_introl eq_refl)) (C2 l2 (or_introl eq_refl)) E) as [-> E'].
      assert (C1' : crlf_free r1) by (intros l Hl; apply C1; right; exact Hl).
      assert (C2' : crlf_free r2) by (intros l Hl; apply C2; right; exact Hl).
      destruct (IH t1 r2 t2 C1' C2' E') as [(m & -> & Ht)|(m & -> & Ht)].
      * left. exists m. split; [reflexivity|exact Ht].
      * right. exists m. split; [reflexivity|exact Ht].
Qed.

(* ---------- what reach says about the lines ---------- *)
Lemma reach_lines e inp ls rs a : reach e inp ls rs a ->
  crlf_free ls /\ (forall p l q, ls = p ++ l :: q -> in_end_state (lrun e core_init p) = false).
Proof.
  induction 1.
  - split; [intros l []|]. intros p l q H. destruct p; discriminate.
  - exact IHreach.
  - exact IHreach.
  - destruct IHreach as [C P]. split.
    + intros l Hl. apply in_app_or in Hl. destruct Hl as [Hl|[<-|[]]]; [apply C; exact Hl|].
      apply find_crlf_prefix_none. assumption.
    + intros p l q Hs.
      destruct (reach_lrun _ _ _ _ _ H) as [Hc|Hc]; [|unfold in_end_state in H0; rewrite Hc in H0; discriminate].
      destruct q as [|q0 q'] using rev_ind.
      * apply app_inj_tail in Hs. destruct Hs as [<- _]. rewrite <- Hc. exact H0.
      * rewrite app_comm_cons, app_assoc in Hs. apply app_inj_tail in Hs. destruct Hs as [Hs _].
        eapply P. exact Hs.
  - exact IHreach.
Qed.

Lemma lrun_app e c a b : lrun e c (a ++ b) = lrun e (lrun e c a) b.
Proof. unfold lrun. apply fold_left_app. Qed.

Lemma lrun_end e : forall ls c, in_end_state c = true -> lrun e c ls = c.
Proof. induction ls as [|l r IH]; intros c H; [reflexivity|]. cbn [lrun fold_left]. unfold lstep at 2. rewrite H. apply IH. exact H. Qed.

(* a state produced by an event (so _dbus_auth_do_work has run) that is not final holds no complete line *)
Lemma run_last_no_line e : forall evs a0 a, evs <> [] -> run e a0 evs = Some a -> in_end_state (a_core a) = false ->
  find_crlf (a_incoming a) = None.
Proof.
  induction evs as [|ev r IH]; intros a0 a Hne H Hend; [congruence|].
  cbn [run] in H. destruct (step e a0 ev) as [a1|] eqn:E; [|discriminate].
  destruct r as [|ev' r'].
  - inversion H; subst a1. destruct ev; cbn [step] in E; unfold do_work in E; apply work_bound in E;
      destruct E as [E|(_ & _ & E)]; congruence.
  - eapply IH; eauto. discriminate.
Qed.

Theorem chunking_independent e evs1 evs2 a1 a2 :
  run e auth_init evs1 = Some a1 -> run e auth_init evs2 = Some a2 -> fed evs1 = fed evs2 ->
  a_state (a_core a1) <> NeedDisconnect -> a_state (a_core a1) <> Crashed ->
  a_state (a_core a2) <> NeedDisconnect -> a_state (a_core a2) <> Crashed ->
  a_core a1 = a_core a2 /\ a_incoming a1 = a_incoming a2.
Proof.
  intros R1 R2 Hfed N1 C1 N2 C2.
  (* symmetric core of the argument *)
  assert (Main : forall evsA evsB aA aB lsA rsA lsB rsB m,
             run e auth_init evsA = Some aA -> run e auth_init evsB = Some aB ->
             reach e (fed evsA) lsA rsA aA -> reach e (fed evsB) lsB rsB aB ->
             a_core aA = lrun e core_init lsA -> a_core aB = lrun e core_init lsB ->
             lsB = lsA ++ m -> a_incoming aA = join_lines m ++ a_incoming aB -> m = []).
  { intros evsA evsB aA aB lsA rsA lsB rsB m RA RB HA HB cA cB Hls Hinc.
    destruct m as [|m0 mr]; [reflexivity|exfalso].
    destruct (reach_lines _ _ _ _ _ HB) as [_ PB].
    pose proof (PB lsA m0 mr Hls) as Hne. rewrite <- cA in Hne.
    (* aA is not final, so it holds no complete line -- but m0 CRLF ... is in its buffer *)
    destruct evsA as [|ev evs'].
    - inversion RA; subst aA. cbn in Hinc. destruct m0; discriminate.
    - assert (X : find_crlf (a_incoming aA) = None) by (eapply run_last_no_line; eauto; discriminate).
      rewrite Hinc in X. cbn [join_lines flat_map] in X. rewrite <- !app_assoc in X. cbn [crlf app] in X.
      eapply find_crlf_none_no_join; [exact X|reflexivity]. }
  pose proof (run_reach _ _ _ R1) as (ls1 & rs1 & H1). pose proof (run_reach _ _ _ R2) as (ls2 & rs2 & H2).
  assert (Hc1 : is_crashed (a_core a1) = false) by (unfold is_crashed; destruct (a_state (a_core a1)); cbn; congruence).
  assert (Hc2 : is_crashed (a_core a2) = false) by (unfold is_crashed; destruct (a_state (a_core a2)); cbn; congruence).
  pose proof (reach_framing _ _ _ _ _ H1 Hc1) as F1. pose proof (reach_framing _ _ _ _ _ H2 Hc2) as F2.
  destruct (reach_lrun _ _ _ _ _ H1) as [L1|L1]; [|congruence]. destruct (reach_lrun _ _ _ _ _ H2) as [L2|L2]; [|congruence].
  destruct (reach_lines _ _ _ _ _ H1) as [Cf1 P1]. destruct (reach_lines _ _ _ _ _ H2) as [Cf2 P2].
  rewrite Hfed in F1. rewrite F1 in F2.
  destruct (lines_comparable _ _ _ _ Cf1 Cf2 F2) as [(m & Hm & Ht)|(m & Hm & Ht)].
  - assert (m = []) by (eapply (Main evs1 evs2 a1 a2); eauto). subst m. rewrite app_nil_r in Hm. subst ls2.
    cbn in Ht. split; congruence.
  - assert (m = []) by (eapply (Main evs2 evs1 a2 a1); eauto). subst m. rewrite app_nil_r in Hm. subst ls1.
    cbn in Ht. split; congruence.
Qed.
