(* C19, bus part: list lemmas and basic facts about the model's lookups and the
   trace functions of Spec/ActivationSpec.v. *)
From DV Require Import Lib.Base Activation.Activation Spec.ActivationSpec.
From Coq Require Import ZifyBool ZifyN ZifyNat Permutation.
Local Open Scope N_scope.

(* ---------------------------------------------------------------- generic *)
Lemma nlen_app {A} (a b : list A) : nlen (a ++ b) = nlen a + nlen b.
Proof. unfold nlen. rewrite app_length. lia. Qed.

Lemma mem_In x l : mem x l = true <-> In x l.
Proof.
  unfold mem. rewrite existsb_exists. split.
  - intros [y [Hy E]]. apply N.eqb_eq in E. subst. exact Hy.
  - intros H. exists x. split; [exact H | apply N.eqb_refl].
Qed.

Lemma mem_false x l : mem x l = false <-> ~ In x l.
Proof. rewrite <- mem_In. destruct (mem x l); split; congruence. Qed.

Lemma mem_app x a b : mem x (a ++ b) = mem x a || mem x b.
Proof. unfold mem. apply existsb_app. Qed.

Lemma bname_eqb_eq a b : bname_eqb a b = true <-> a = b.
Proof.
  destruct a, b; simpl; try (split; congruence);
    rewrite N.eqb_eq; split; congruence.
Qed.

Lemma bname_eqb_refl a : bname_eqb a a = true.
Proof. apply bname_eqb_eq. reflexivity. Qed.

Lemma bname_eqb_neq a b : bname_eqb a b = false <-> a <> b.
Proof. rewrite <- bname_eqb_eq. destruct (bname_eqb a b); split; congruence. Qed.

Lemma bname_eqb_sym a b : bname_eqb a b = bname_eqb b a.
Proof.
  destruct (bname_eqb a b) eqn:E.
  - apply bname_eqb_eq in E. subst. symmetry. apply bname_eqb_refl.
  - symmetry. apply bname_eqb_neq. apply bname_eqb_neq in E. congruence.
Qed.

Lemma filter_filter {A} (f g : A -> bool) l : filter f (filter g l) = filter (fun x => g x && f x) l.
Proof.
  induction l as [|x l IH]; simpl; [reflexivity|].
  destruct (g x); simpl; [destruct (f x); simpl; rewrite IH; reflexivity | exact IH].
Qed.

Lemma filter_all {A} (f : A -> bool) l : (forall x, In x l -> f x = true) -> filter f l = l.
Proof.
  induction l as [|x l IH]; simpl; intros H; [reflexivity|].
  rewrite (H x (or_introl eq_refl)). f_equal. apply IH. intros y Hy. apply H. right. exact Hy.
Qed.

Lemma filter_none {A} (f : A -> bool) l : (forall x, In x l -> f x = false) -> filter f l = [].
Proof.
  induction l as [|x l IH]; simpl; intros H; [reflexivity|].
  rewrite (H x (or_introl eq_refl)). apply IH. intros y Hy. apply H. right. exact Hy.
Qed.

Lemma NoDup_map_filter {A B} (f : A -> B) (p : A -> bool) l : NoDup (map f l) -> NoDup (map f (filter p l)).
Proof.
  induction l as [|x l IH]; simpl; intros H; [constructor|].
  inversion H as [|? ? Hn Hd]; subst. destruct (p x); simpl; [|apply IH; exact Hd].
  constructor; [|apply IH; exact Hd].
  intros Hin. apply Hn. apply in_map_iff in Hin. destruct Hin as [y [E Hy]].
  apply filter_In in Hy. apply in_map_iff. exists y. tauto.
Qed.

Lemma NoDup_app_intro {A} (a b : list A) :
  NoDup a -> NoDup b -> (forall x, In x a -> ~ In x b) -> NoDup (a ++ b).
Proof.
  induction a as [|x a IH]; simpl; intros Ha Hb Hd; [exact Hb|].
  inversion Ha; subst. constructor.
  - rewrite in_app_iff. intros [H|H]; [contradiction | exact (Hd x (or_introl eq_refl) H)].
  - apply IH; auto.
Qed.

Lemma NoDup_app_l {A} (a b : list A) : NoDup (a ++ b) -> NoDup a.
Proof.
  induction a as [|x a IH]; simpl; intros H; [constructor|].
  inversion H; subst. constructor; [rewrite in_app_iff in *; tauto | auto].
Qed.

Lemma NoDup_app_r {A} (a b : list A) : NoDup (a ++ b) -> NoDup b.
Proof. induction a as [|x a IH]; simpl; intros H; [exact H | inversion H; auto]. Qed.

Lemma NoDup_app_disj {A} (a b : list A) x : NoDup (a ++ b) -> In x a -> ~ In x b.
Proof.
  induction a as [|y a IH]; simpl; intros H Hx; [contradiction|].
  inversion H; subst. destruct Hx as [->|Hx]; [rewrite in_app_iff in *; tauto | auto].
Qed.

Lemma NoDup_flat_map_filter {A B} (f : A -> list B) (p : A -> bool) l : NoDup (flat_map f l) -> NoDup (flat_map f (filter p l)).
Proof.
  induction l as [|x l IH]; simpl; intros H; [constructor|].
  destruct (p x); simpl.
  - apply NoDup_app_intro; [eapply NoDup_app_l; eauto | apply IH; eapply NoDup_app_r; eauto |].
    intros y Hy Hin. eapply NoDup_app_disj; eauto.
    apply in_flat_map in Hin. destruct Hin as [z [Hz Hy']]. apply filter_In in Hz.
    apply in_flat_map. exists z. tauto.
  - apply IH. eapply NoDup_app_r; eauto.
Qed.

(* elements of a duplicate-free flat_map: own list duplicate-free, lists of different elements disjoint *)
Lemma NoDup_flat_map_elem {A B} (f : A -> list B) l x : NoDup (flat_map f l) -> In x l -> NoDup (f x).
Proof.
  induction l as [|y l IH]; simpl; intros H Hx; [contradiction|].
  destruct Hx as [->|Hx]; [eapply NoDup_app_l; eauto | apply IH; [eapply NoDup_app_r; eauto | exact Hx]].
Qed.

Lemma NoDup_flat_map_disj {A B} (f : A -> list B) l x y b :
  NoDup (flat_map f l) -> NoDup l -> In x l -> In y l -> x <> y -> In b (f x) -> ~ In b (f y).
Proof.
  induction l as [|z l IH]; simpl; intros H Hl Hx Hy Hne Hb; [contradiction|].
  inversion Hl; subst.
  destruct Hx as [->|Hx], Hy as [->|Hy].
  - congruence.
  - intros Hb'. eapply NoDup_app_disj; eauto. apply in_flat_map. exists y. tauto.
  - intros Hb'. eapply (NoDup_app_disj _ _ b H); eauto. apply in_flat_map. exists x. tauto.
  - eapply IH; eauto. eapply NoDup_app_r; eauto.
Qed.

Lemma NoDup_flat_map_sub {A B} (f : A -> list B) l L :
  NoDup (flat_map f l) -> NoDup l -> NoDup L -> incl L l -> NoDup (flat_map f L).
Proof.
  intros H Hl. induction L as [|x L IH]; simpl; intros HL Hi; [constructor|].
  inversion HL; subst.
  apply NoDup_app_intro.
  - eapply NoDup_flat_map_elem; eauto. apply Hi. left. reflexivity.
  - apply IH; auto. intros y Hy. apply Hi. right. exact Hy.
  - intros b Hb Hin. apply in_flat_map in Hin. destruct Hin as [y [Hy Hb']].
    eapply (NoDup_flat_map_disj f l x y b); eauto.
    + apply Hi. left. reflexivity.
    + apply Hi. right. exact Hy.
    + intros ->. contradiction.
Qed.

Lemma NoDup_map_inv {A B} (f : A -> B) l : NoDup (map f l) -> NoDup l.
Proof.
  induction l as [|x l IH]; simpl; intros H; [constructor|].
  inversion H; subst. constructor; [|auto]. intros Hin. apply H2. apply in_map. exact Hin.
Qed.

Lemma NoDup_map_inj {A B} (f : A -> B) l x y : NoDup (map f l) -> In x l -> In y l -> f x = f y -> x = y.
Proof.
  induction l as [|z l IH]; simpl; intros H Hx Hy E; [contradiction|].
  inversion H; subst.
  destruct Hx as [->|Hx], Hy as [->|Hy]; auto.
  - exfalso. apply H2. rewrite E. apply in_map. exact Hy.
  - exfalso. apply H2. rewrite <- E. apply in_map. exact Hx.
Qed.

Lemma flat_map_single {A B} (g : A -> B) (p : A -> bool) (f : A -> list B) l :
  (forall x, f x = if p x then [g x] else []) -> flat_map f l = map g (filter p l).
Proof.
  intros H. induction l as [|x l IH]; simpl; [reflexivity|].
  rewrite H, IH. destruct (p x); reflexivity.
Qed.

(* ---------------------------------------------------------------- spec functions on a trace that grows at the end *)
Lemma calls_from_snoc h : forall i e, calls_from i (h ++ [e]) = calls_from i h ++ call_of (i + nlen (calls_from i h)) e.
Proof.
  induction h as [|a h IH]; intros i e; simpl.
  - rewrite app_nil_r. unfold nlen. simpl. rewrite N.add_0_r. reflexivity.
  - rewrite IH. rewrite <- app_assoc. f_equal. f_equal. rewrite nlen_app. f_equal. lia.
Qed.

Lemma calls_snoc tr e o : calls (tr ++ [(e, o)]) = calls tr ++ call_of (n_calls tr) e.
Proof. unfold calls, n_calls, calls. rewrite map_app. simpl. rewrite calls_from_snoc. reflexivity. Qed.

Lemma fates_app a b : fates (a ++ b) = fates a ++ fates b.
Proof. unfold fates. apply flat_map_app. Qed.

Lemma fated_snoc tr e o : fated (tr ++ [(e, o)]) = fated tr ++ fates o.
Proof. unfold fated. rewrite flat_map_app. simpl. rewrite app_nil_r. reflexivity. Qed.

Lemma call_of_id i e c : In c (call_of i e) -> c.(c_id) = i.
Proof. destruct e; simpl; intros H; try contradiction; destruct H as [<-|[]]; reflexivity. Qed.

Lemma nlen_call_of i e : nlen (call_of i e) = if match e with ESend _ _ _ _ _ | EStart _ _ _ => true | _ => false end then 1 else 0.
Proof. destruct e; reflexivity. Qed.

Lemma calls_ids tr : (forall c, In c (calls tr) -> c.(c_id) < n_calls tr) /\ NoDup (map c_id (calls tr)).
Proof.
  induction tr as [|[e o] tr IH] using rev_ind.
  - split; [intros c []|constructor].
  - destruct IH as [Hlt Hnd]. unfold n_calls in *. rewrite calls_snoc. rewrite nlen_app. split.
    + intros c Hc. apply in_app_iff in Hc. destruct Hc as [Hc|Hc].
      * specialize (Hlt c Hc). lia.
      * apply call_of_id in Hc as E. unfold n_calls in E. rewrite E.
        destruct e; simpl in Hc; try contradiction; unfold nlen at 3; simpl; lia.
    + rewrite map_app. apply NoDup_app_intro; [exact Hnd | |].
      * destruct e; simpl; repeat constructor; simpl; tauto.
      * intros x Hx Hin. apply in_map_iff in Hx. destruct Hx as [c [<- Hc]].
        apply in_map_iff in Hin. destruct Hin as [c' [E Hc']]. apply call_of_id in Hc'.
        specialize (Hlt c Hc). unfold n_calls in Hc'. lia.
Qed.

Lemma waiting_snoc tr e o n :
  (forall i, In i (fated tr) -> i < n_calls tr) ->
  waiting (tr ++ [(e, o)]) n =
  filter (fun c => negb (mem c.(c_id) (fates o))) (waiting tr n) ++
  filter (fun c => bname_eqb c.(c_dest) n && negb (mem c.(c_id) (fates o))) (call_of (n_calls tr) e).
Proof.
  intros Hlt. unfold waiting. rewrite calls_snoc, fated_snoc, filter_app. f_equal.
  - rewrite filter_filter. apply filter_ext. intros c. rewrite mem_app.
    destruct (bname_eqb (c_dest c) n), (mem (c_id c) (fated tr)), (mem (c_id c) (fates o)); reflexivity.
  - apply filter_ext_in. intros c Hc. apply call_of_id in Hc. rewrite mem_app.
    assert (mem (c_id c) (fated tr) = false) as ->; [|reflexivity].
    apply mem_false. intros Hin. specialize (Hlt _ Hin). lia.
Qed.

Lemma waiting_ids_unfated tr n c : In c (waiting tr n) -> ~ In c.(c_id) (fated tr).
Proof.
  unfold waiting. intros H. apply filter_In in H. destruct H as [_ H].
  apply andb_true_iff in H. destruct H as [_ H]. apply negb_true_iff in H. apply mem_false. exact H.
Qed.

Lemma waiting_dest tr n c : In c (waiting tr n) -> c.(c_dest) = n.
Proof.
  unfold waiting. intros H. apply filter_In in H. destruct H as [_ H].
  apply andb_true_iff in H. destruct H as [H _]. apply bname_eqb_eq. exact H.
Qed.

Lemma waiting_id_lt tr n c : In c (waiting tr n) -> c.(c_id) < n_calls tr.
Proof. unfold waiting. intros H. apply filter_In in H. apply calls_ids. tauto. Qed.

Lemma waiting_nodup tr n : NoDup (map c_id (waiting tr n)).
Proof. unfold waiting. apply NoDup_map_filter. apply calls_ids. Qed.

(* connections *)
Definition live_step (c : N) (next : N) (e : event) (b : bool) : bool :=
  match e with
  | EConnect _ => b || (next =? c)
  | EDisconnect c' => b && negb (c' =? c)
  | _ => b
  end.

Lemma n_conn_snoc h e : n_conn (h ++ [e]) = n_conn h + (if is_connect e then 1 else 0).
Proof. unfold n_conn. rewrite filter_app, nlen_app. simpl. destruct (is_connect e); reflexivity. Qed.

Lemma live_from_snoc h : forall next e c,
  live_from next (h ++ [e]) c = live_step c (next + n_conn h) e (live_from next h c).
Proof.
  induction h as [|a h IH]; intros next e c.
  - simpl. unfold n_conn, nlen. simpl. rewrite N.add_0_r.
    destruct e; simpl; try reflexivity. destruct (next =? c); reflexivity.
  - simpl. destruct (is_connect a) eqn:Ea.
    + assert (n_conn (a :: h) = 1 + n_conn h) as Hn.
      { unfold n_conn. cbn [filter]. rewrite Ea. unfold nlen. cbn [length]. rewrite Nat2N.inj_succ. lia. }
      destruct (next =? c) eqn:Enc.
      * apply N.eqb_eq in Enc. subst c. rewrite existsb_app. simpl. rewrite orb_false_r.
        destruct e; simpl; try (rewrite orb_false_r; reflexivity).
        -- rewrite orb_false_r. rewrite Hn.
           assert (next + (1 + n_conn h) =? next = false) as -> by (apply N.eqb_neq; lia).
           rewrite orb_false_r. reflexivity.
        -- rewrite negb_orb. reflexivity.
      * rewrite IH. rewrite Hn. replace (next + 1 + n_conn h) with (next + (1 + n_conn h)) by lia. reflexivity.
    + rewrite IH. assert (n_conn (a :: h) = n_conn h) as ->; [|reflexivity].
      unfold n_conn. cbn [filter]. rewrite Ea. reflexivity.
Qed.

Lemma live_snoc tr e o c : live (tr ++ [(e, o)]) c = live_step c (n_connects tr) e (live tr c).
Proof. unfold live, n_connects. rewrite map_app. simpl. rewrite live_from_snoc. reflexivity. Qed.

Lemma n_connects_snoc tr e o : n_connects (tr ++ [(e, o)]) = n_connects tr + (if is_connect e then 1 else 0).
Proof. unfold n_connects. rewrite map_app. simpl. apply n_conn_snoc. Qed.

Lemma existsb_eqb_filter c c' l :
  existsb (N.eqb c) (filter (fun x => negb (x =? c')) l) = existsb (N.eqb c) l && negb (c' =? c).
Proof.
  induction l as [|x l IH]; simpl; [reflexivity|].
  destruct (x =? c') eqn:E; simpl; rewrite IH.
  - apply N.eqb_eq in E. subst x. destruct (c =? c') eqn:E2; simpl; [|reflexivity].
    rewrite (N.eqb_sym c' c), E2. simpl. rewrite andb_false_r. reflexivity.
  - destruct (c =? x) eqn:E2; simpl; [|reflexivity].
    apply N.eqb_eq in E2. subst x. rewrite (N.eqb_sym c' c), E. reflexivity.
Qed.

(* ---------------------------------------------------------------- the model's lookups *)
Definition pend_entries (l : list pending) (n : bname) : list entry :=
  match find_pending n l with
  | Some p => p.(p_entries)
  | None => []
  end.

Definition entry_of (c : call) : entry := mkEntry c.(c_id) c.(c_conn) c.(c_serial) c.(c_auto) c.(c_class).

Definition ids_of (p : pending) : list N := map e_id p.(p_entries).
Definition all_ids (l : list pending) : list N := flat_map ids_of l.

Lemma find_pending_In n l p : find_pending n l = Some p -> In p l /\ p.(p_name) = n.
Proof.
  unfold find_pending. intros H. apply find_some in H. destruct H as [H1 H2].
  apply bname_eqb_eq in H2. tauto.
Qed.

Lemma find_pending_None n l : find_pending n l = None <-> (forall p, In p l -> p.(p_name) <> n).
Proof.
  unfold find_pending. split.
  - intros H p Hp E. eapply find_none in H; eauto. rewrite E, bname_eqb_refl in H. discriminate.
  - intros H. destruct (find _ l) eqn:E; [|reflexivity].
    apply find_some in E. destruct E as [E1 E2]. apply bname_eqb_eq in E2. exfalso. eapply H; eauto.
Qed.

Lemma find_pending_unique n l p : NoDup (map p_name l) -> In p l -> p.(p_name) = n -> find_pending n l = Some p.
Proof.
  induction l as [|q l IH]; simpl; intros Hnd Hp E; [contradiction|].
  inversion Hnd; subst. unfold find_pending. simpl.
  destruct Hp as [->|Hp].
  - rewrite bname_eqb_refl. reflexivity.
  - destruct (bname_eqb (p_name q) (p_name p)) eqn:E2.
    + apply bname_eqb_eq in E2. exfalso. apply H1. rewrite E2. apply in_map. exact Hp.
    + apply IH; auto.
Qed.

Lemma find_pending_app m l q :
  find_pending m (l ++ [q]) = match find_pending m l with
                              | Some p => Some p
                              | None => if bname_eqb q.(p_name) m then Some q else None
                              end.
Proof.
  unfold find_pending. induction l as [|x l IH]; simpl; [reflexivity|].
  destruct (bname_eqb (p_name x) m); [reflexivity | exact IH].
Qed.

Lemma find_pending_add_same n e l p :
  find_pending n l = Some p ->
  find_pending n (add_entry n e l) = Some (mkPending p.(p_name) p.(p_exec) p.(p_sid) (p.(p_entries) ++ [e])).
Proof.
  unfold find_pending. induction l as [|x l IH]; simpl; [discriminate|].
  destruct (bname_eqb (p_name x) n) eqn:E; simpl.
  - intros H. inversion H; subst. rewrite E. reflexivity.
  - rewrite E. exact IH.
Qed.

Lemma find_pending_add_other n m e l : m <> n -> find_pending m (add_entry n e l) = find_pending m l.
Proof.
  intros Hne. unfold find_pending. induction l as [|x l IH]; simpl; [reflexivity|].
  destruct (bname_eqb (p_name x) n) eqn:E; simpl.
  - apply bname_eqb_eq in E. assert (bname_eqb (p_name x) m = false) as -> by (apply bname_eqb_neq; congruence). reflexivity.
  - destruct (bname_eqb (p_name x) m); [reflexivity | exact IH].
Qed.

Lemma add_entry_names n e l : map p_name (add_entry n e l) = map p_name l.
Proof.
  induction l as [|x l IH]; simpl; [reflexivity|].
  destruct (bname_eqb (p_name x) n); simpl; [reflexivity | rewrite IH; reflexivity].
Qed.

Lemma add_entry_sids n e l : map p_sid (add_entry n e l) = map p_sid l.
Proof.
  induction l as [|x l IH]; simpl; [reflexivity|].
  destruct (bname_eqb (p_name x) n); simpl; [reflexivity | rewrite IH; reflexivity].
Qed.

Lemma add_entry_In n e l q :
  In q (add_entry n e l) ->
  In q l \/ exists p, In p l /\ p.(p_name) = n /\ q = mkPending p.(p_name) p.(p_exec) p.(p_sid) (p.(p_entries) ++ [e]).
Proof.
  induction l as [|x l IH]; simpl; [tauto|].
  destruct (bname_eqb (p_name x) n) eqn:E; simpl.
  - intros [<-|H]; [|tauto]. right. exists x. apply bname_eqb_eq in E. tauto.
  - intros [<-|H]; [tauto|]. destruct (IH H) as [H1|[p [H1 H2]]]; [tauto|]. right. exists p. tauto.
Qed.

Lemma all_ids_add n e l p :
  find_pending n l = Some p -> Permutation (all_ids (add_entry n e l)) (e.(e_id) :: all_ids l).
Proof.
  unfold find_pending, all_ids. induction l as [|x l IH]; simpl; [discriminate|].
  destruct (bname_eqb (p_name x) n) eqn:E; simpl.
  - intros _. unfold ids_of at 1. simpl. rewrite map_app. simpl.
    change (e_id e :: ids_of x ++ flat_map ids_of l) with ((e_id e :: ids_of x) ++ flat_map ids_of l).
    apply Permutation_app_tail. apply Permutation_sym. apply Permutation_cons_append.
  - intros H. specialize (IH H).
    eapply perm_trans; [apply Permutation_app_head; exact IH|].
    apply Permutation_sym. apply Permutation_middle.
Qed.

Lemma find_pending_remove m n l :
  find_pending m (remove_name n l) = if bname_eqb m n then None else find_pending m l.
Proof.
  unfold find_pending, remove_name. induction l as [|x l IH]; simpl.
  - destruct (bname_eqb m n); reflexivity.
  - destruct (bname_eqb (p_name x) n) eqn:E; simpl.
    + rewrite IH. destruct (bname_eqb m n) eqn:E2; [reflexivity|].
      apply bname_eqb_eq in E. assert (bname_eqb (p_name x) m = false) as ->; [|reflexivity].
      apply bname_eqb_neq. apply bname_eqb_neq in E2. congruence.
    + destruct (bname_eqb (p_name x) m) eqn:E3.
      * apply bname_eqb_eq in E3. subst m. rewrite E. reflexivity.
      * exact IH.
Qed.

(* removing by a predicate on pendings: what a name finds afterwards *)
Lemma find_pending_filter m (g : pending -> bool) l :
  NoDup (map p_name l) ->
  find_pending m (filter g l) = match find_pending m l with
                                | Some p => if g p then Some p else None
                                | None => None
                                end.
Proof.
  unfold find_pending. induction l as [|x l IH]; simpl; intros Hnd; [reflexivity|].
  inversion Hnd; subst.
  destruct (bname_eqb (p_name x) m) eqn:E.
  - destruct (g x) eqn:G; simpl; [rewrite E; reflexivity|].
    apply bname_eqb_eq in E.
    destruct (find (fun p => bname_eqb (p_name p) m) (filter g l)) eqn:F; [|reflexivity].
    apply find_some in F. destruct F as [F1 F2]. apply filter_In in F1. apply bname_eqb_eq in F2.
    exfalso. apply H1. rewrite E, <- F2. apply in_map. tauto.
  - destruct (g x); simpl; [rewrite E|]; apply IH; exact H2.
Qed.

Lemma find_sid_In sid l p : find_sid sid l = Some p -> In p l /\ p.(p_sid) = sid.
Proof.
  unfold find_sid. intros H. apply find_some in H. destruct H as [H1 H2]. apply N.eqb_eq in H2. tauto.
Qed.

Lemma connected_in st c : connected st c = true <-> In c st.(st_conns).
Proof. unfold connected. apply mem_In. Qed.

(* fates of the three fan-outs *)
Lemma fates_flat_map {A} (f : A -> list out) l : fates (flat_map f l) = flat_map (fun x => fates (f x)) l.
Proof. induction l as [|x l IH]; simpl; [reflexivity|]. rewrite fates_app, IH. reflexivity. Qed.

Definition answered_in_created (st : state) (e : entry) : bool := connected st e.(e_conn) && negb e.(e_auto).

Lemma fates_created st p : fates (created_outs st p) = map e_id (filter (answered_in_created st) p.(p_entries)).
Proof.
  unfold created_outs. rewrite fates_flat_map. apply flat_map_single. intros e. unfold answered_in_created.
  destruct (connected st (e_conn e) && negb (e_auto e)); reflexivity.
Qed.

Lemma deliver_fate cf names fdok replies o id from serial cl :
  fate_of (snd (deliver cf names fdok replies o id from serial cl)) = [id].
Proof.
  unfold deliver. destruct (msg_fd cf cl && negb fdok); [reflexivity|].
  destruct (negb (pol_deliver cf names cl)); [reflexivity|].
  destruct (msg_reply cf cl && (max_replies cf <=? count_replies from replies)); reflexivity.
Qed.

Lemma fates_replay_gen cf st names fdok o : forall es replies,
  fates (snd (replay cf st names fdok o replies es)) = map e_id (filter (fun e => negb (answered_in_created st e)) es).
Proof.
  induction es as [|e r IH]; intros replies; [reflexivity|]. cbn [replay filter].
  assert (answered_in_created st e = connected st (e_conn e) && negb (e_auto e)) as Ha by reflexivity. rewrite Ha. clear Ha.
  destruct (e_auto e) eqn:Ea, (connected st (e_conn e)) eqn:Ec; cbn [andb negb map].
  - destruct (deliver cf names fdok replies o (e_id e) (e_conn e) (e_serial e) (e_class e)) as [r1 x] eqn:D.
    specialize (IH r1). destruct (replay cf st names fdok o r1 r) as [r2 xs]. cbn [snd] in *.
    unfold fates in *. cbn [flat_map]. rewrite IH.
    pose proof (deliver_fate cf names fdok replies o (e_id e) (e_conn e) (e_serial e) (e_class e)) as F. rewrite D in F. cbn [snd] in F.
    rewrite F. reflexivity.
  - specialize (IH replies). destruct (replay cf st names fdok o replies r) as [r2 xs]. cbn [snd] in *.
    unfold fates in *. cbn [flat_map fate_of app]. rewrite IH. reflexivity.
  - apply IH.
  - specialize (IH replies). destruct (replay cf st names fdok o replies r) as [r2 xs]. cbn [snd] in *.
    unfold fates in *. cbn [flat_map fate_of app]. rewrite IH. reflexivity.
Qed.

Lemma fates_replay cf st o p : fates (snd (replay_outs cf st o p)) = map e_id (filter (fun e => negb (answered_in_created st e)) p.(p_entries)).
Proof. unfold replay_outs. apply fates_replay_gen. Qed.

Lemma fates_fail st er p : fates (fail_outs st er p) = ids_of p.
Proof.
  unfold fail_outs, ids_of. rewrite fates_flat_map.
  induction (p_entries p) as [|e l IH]; simpl; [reflexivity|].
  rewrite IH. destruct (connected st (e_conn e)); reflexivity.
Qed.

Lemma in_split_filter {A B} (g : A -> B) (f : A -> bool) l x :
  In x (map g (filter f l) ++ map g (filter (fun e => negb (f e)) l)) <-> In x (map g l).
Proof.
  rewrite in_app_iff, !in_map_iff. split.
  - intros [[y [E H]]|[y [E H]]]; apply filter_In in H; exists y; tauto.
  - intros [y [E H]]. destruct (f y) eqn:F; [left|right]; exists y; split; auto; apply filter_In; split; auto.
    rewrite F. reflexivity.
Qed.

Lemma nodup_split_filter {A B} (g : A -> B) (f : A -> bool) l :
  NoDup (map g l) -> NoDup (map g (filter f l) ++ map g (filter (fun e => negb (f e)) l)).
Proof.
  intros H. apply NoDup_app_intro; try (apply NoDup_map_filter; exact H).
  intros x H1 H2. apply in_map_iff in H1. destruct H1 as [y [<- Hy]].
  apply in_map_iff in H2. destruct H2 as [z [E Hz]].
  apply filter_In in Hy. apply filter_In in Hz.
  assert (z = y) by (eapply NoDup_map_inj; eauto; tauto). subst z.
  destruct Hy as [_ Hy], Hz as [_ Hz]. rewrite Hy in Hz. discriminate.
Qed.
