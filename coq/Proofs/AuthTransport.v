(* The transport gate: the authenticated flag is set only on top of an
   Authenticated handshake object whose identity passed the admission rule, no
   byte reaches the message loader before that, and what reaches it is exactly
   what followed the BEGIN line. *)
From DV Require Import Lib.Base Auth.Types Gen.AuthTables Auth.Sha1 Wire.Utf8 Auth.Server Auth.Transport
  Proofs.AuthInv Proofs.AuthBasics Proofs.AuthShape Proofs.AuthTrace.
Require Import ZifyBool ZifyN ZifyNat.
Local Open Scope N_scope.

Lemma auth_eta a : mkAuth (a_core a) (a_incoming a) (a_outgoing a) = a.
Proof. destruct a; reflexivity. Qed.

Lemma run_snoc e : forall evs a0 ev, run e a0 (evs ++ [ev]) = match run e a0 evs with Some a => step e a ev | None => None end.
Proof.
  induction evs as [|x evs IH]; intros a0 ev; cbn [app run].
  - destruct (step e a0 ev); reflexivity.
  - destruct (step e a0 x); [apply IH|reflexivity].
Qed.

Lemma fed_app a b : fed (a ++ b) = fed a ++ fed b.
Proof. induction a as [|[c|n] a IH]; cbn [app fed]; [reflexivity| rewrite IH, app_assoc; reflexivity | exact IH]. Qed.

Lemma work_result_authenticated a : work_result a = W_Authenticated ->
  a_state (a_core a) = Authenticated /\ a_outgoing a = [].
Proof.
  unfold work_result. destruct (is_crashed (a_core a)); [discriminate|].
  destruct (a_outgoing a); cbn [is_empty negb]; [|discriminate].
  destruct (a_state (a_core a)); try discriminate. auto.
Qed.

(* consumed = what the handshake object was fed ++ what was read as message data *)
Record TInv (te : tenv) (t : transport) (consumed : bytes) : Prop := mkTInv {
  TI_run : exists evs after, run (t_env te) auth_init evs = Some (tr_auth t) /\ consumed = fed evs ++ after /\
           (tr_recovered t = false -> after = [] /\ tr_loader t = []) /\
           (tr_recovered t = true -> tr_loader t = a_incoming (tr_auth t) ++ after);
  TI_auth : tr_authenticated t = true ->
            a_state (a_core (tr_auth t)) = Authenticated /\ a_outgoing (tr_auth t) = [] /\
            admission te (get_identity (tr_auth t)) = true;
  TI_unauth : tr_authenticated t = false -> tr_loader t = [] /\ tr_recovered t = false
}.

Lemma TInv_init te : TInv te transport_init [].
Proof.
  constructor; cbn; try discriminate; auto.
  exists [], []. cbn. repeat split; auto; discriminate.
Qed.

Lemma TInv_try te t consumed : TInv te t consumed -> TInv te (try_to_authenticate te t) consumed.
Proof.
  intros I. unfold try_to_authenticate.
  destruct (tr_authenticated t) eqn:Ea; [exact I|]. destruct (tr_disconnected t) eqn:Ed; [exact I|].
  destruct (do_work (t_env te) (tr_auth t)) as [a|] eqn:Ew; [|exact I].
  destruct I as [(evs & after & Hr & Hc & Hn & Hy) _ Hu]. destruct (Hu Ea) as [Hl Hrec].
  assert (Hrun : run (t_env te) auth_init (evs ++ [Sent 0]) = Some a).
  { rewrite run_snoc, Hr. cbn [step N.to_nat skipn]. rewrite auth_eta. exact Ew. }
  assert (Hfed : fed (evs ++ [Sent 0]) = fed evs) by (rewrite fed_app; cbn; apply app_nil_r).
  assert (R : exists evs' after', run (t_env te) auth_init evs' = Some a /\ consumed = fed evs' ++ after' /\
              (tr_recovered t = false -> after' = [] /\ tr_loader t = []) /\
              (tr_recovered t = true -> tr_loader t = a_incoming a ++ after')).
  { exists (evs ++ [Sent 0]), after. split; [exact Hrun|]. split; [rewrite Hfed; exact Hc|]. split; [exact Hn|].
    intros X; congruence. }
  destruct (work_result a) eqn:Er;
    try (constructor; cbn [tr_auth tr_authenticated tr_disconnected tr_loader tr_recovered];
         [exact R | discriminate | intros _; split; assumption]).
  destruct (admission te (get_identity a)) eqn:Ead.
  - constructor; cbn [tr_auth tr_authenticated tr_disconnected tr_loader tr_recovered].
    + exact R.
    + intros _. destruct (work_result_authenticated a Er). auto.
    + discriminate.
  - constructor; cbn [tr_auth tr_authenticated tr_disconnected tr_loader tr_recovered].
    + exact R.
    + discriminate.
    + intros _. split; assumption.
Qed.

Lemma TInv_recover te t consumed : TInv te t consumed -> TInv te (recover t) consumed.
Proof.
  intros I. unfold recover. destruct (tr_authenticated t && negb (tr_recovered t)) eqn:E; [|exact I].
  apply andb_true_iff in E. destruct E as [Ea Er]. apply negb_true_iff in Er.
  destruct I as [(evs & after & Hr & Hc & Hn & Hy) Ha Hu]. destruct (Hn Er) as [Haf Hl].
  constructor; cbn [tr_auth tr_authenticated tr_disconnected tr_loader tr_recovered]; auto; [|discriminate].
  exists evs, after. repeat split; auto; try discriminate. intros _. rewrite Hl, Haf, app_nil_r. reflexivity.
Qed.

Lemma TInv_feed te t consumed c :
  TInv te t consumed -> tr_authenticated t = false -> tr_disconnected t = false ->
  let a := tr_auth t in
  TInv te (try_to_authenticate te (with_auth t (mkAuth (a_core a) (a_incoming a ++ c) (a_outgoing a)))) (consumed ++ c).
Proof.
  intros I Ea Ed a. unfold try_to_authenticate, with_auth. cbn [tr_authenticated tr_disconnected tr_auth tr_loader tr_recovered].
  rewrite Ea, Ed.
  destruct I as [(evs & after & Hr & Hc & Hn & Hy) _ Hu]. destruct (Hu Ea) as [Hl Hrec]. destruct (Hn Hrec) as [Haf _].
  destruct (do_work (t_env te) (mkAuth (a_core a) (a_incoming a ++ c) (a_outgoing a))) as [a'|] eqn:Ew.
  2:{ exfalso. eapply do_work_total; eauto. }
  assert (Hrun : run (t_env te) auth_init (evs ++ [Feed c]) = Some a') by (rewrite run_snoc, Hr; exact Ew).
  assert (R : exists evs' after', run (t_env te) auth_init evs' = Some a' /\ consumed ++ c = fed evs' ++ after' /\
              (tr_recovered t = false -> after' = [] /\ tr_loader t = []) /\
              (tr_recovered t = true -> tr_loader t = a_incoming a' ++ after')).
  { exists (evs ++ [Feed c]), []. split; [exact Hrun|]. split.
    - rewrite fed_app. cbn [fed]. rewrite !app_nil_r, Hc, Haf, app_nil_r. reflexivity.
    - split; [intros _; split; [reflexivity|exact Hl]|intros X; congruence]. }
  destruct (work_result a') eqn:Er;
    try (constructor; cbn [tr_auth tr_authenticated tr_disconnected tr_loader tr_recovered];
         [exact R | discriminate | intros _; split; assumption]).
  destruct (admission te (get_identity a')) eqn:Ead.
  - constructor; cbn [tr_auth tr_authenticated tr_disconnected tr_loader tr_recovered].
    + exact R.
    + intros _. destruct (work_result_authenticated a' Er). auto.
    + discriminate.
  - constructor; cbn [tr_auth tr_authenticated tr_disconnected tr_loader tr_recovered].
    + exact R.
    + discriminate.
    + intros _. split; assumption.
Qed.

Lemma TInv_sent te t consumed n :
  TInv te t consumed -> tr_authenticated t = false -> tr_disconnected t = false ->
  let a := tr_auth t in
  TInv te (try_to_authenticate te (with_auth t (mkAuth (a_core a) (a_incoming a) (skipn (N.to_nat n) (a_outgoing a))))) consumed.
Proof.
  intros I Ea Ed a. unfold try_to_authenticate, with_auth. cbn [tr_authenticated tr_disconnected tr_auth tr_loader tr_recovered].
  rewrite Ea, Ed.
  destruct I as [(evs & after & Hr & Hc & Hn & Hy) _ Hu]. destruct (Hu Ea) as [Hl Hrec]. destruct (Hn Hrec) as [Haf _].
  destruct (do_work (t_env te) (mkAuth (a_core a) (a_incoming a) (skipn (N.to_nat n) (a_outgoing a)))) as [a'|] eqn:Ew.
  2:{ exfalso. eapply do_work_total; eauto. }
  assert (Hrun : run (t_env te) auth_init (evs ++ [Sent n]) = Some a') by (rewrite run_snoc, Hr; exact Ew).
  assert (R : exists evs' after', run (t_env te) auth_init evs' = Some a' /\ consumed = fed evs' ++ after' /\
              (tr_recovered t = false -> after' = [] /\ tr_loader t = []) /\
              (tr_recovered t = true -> tr_loader t = a_incoming a' ++ after')).
  { exists (evs ++ [Sent n]), []. split; [exact Hrun|]. split.
    - rewrite fed_app. cbn [fed]. rewrite !app_nil_r, Hc, Haf, app_nil_r. reflexivity.
    - split; [intros _; split; [reflexivity|exact Hl]|intros X; congruence]. }
  destruct (work_result a') eqn:Er;
    try (constructor; cbn [tr_auth tr_authenticated tr_disconnected tr_loader tr_recovered];
         [exact R | discriminate | intros _; split; assumption]).
  destruct (admission te (get_identity a')) eqn:Ead.
  - constructor; cbn [tr_auth tr_authenticated tr_disconnected tr_loader tr_recovered].
    + exact R.
    + intros _. destruct (work_result_authenticated a' Er). auto.
    + discriminate.
  - constructor; cbn [tr_auth tr_authenticated tr_disconnected tr_loader tr_recovered].
    + exact R.
    + discriminate.
    + intros _. split; assumption.
Qed.

Lemma TInv_disconnect te t consumed : TInv te t consumed -> tr_authenticated t = false ->
  TInv te (mkTr (tr_auth t) false true (tr_loader t) (tr_recovered t)) consumed.
Proof.
  intros [Hr Ha Hu] Ea. constructor; cbn [tr_auth tr_authenticated tr_disconnected tr_loader tr_recovered]; auto. discriminate.
Qed.

Theorem TInv_step te t consumed ev :
  TInv te t consumed -> TInv te (fst (tstep te t ev)) (consumed ++ snd (tstep te t ev)).
Proof.
  intros I. destruct ev as [c|n|]; cbn [tstep].
  - destruct (tr_authenticated t) eqn:Ea.
    + pose proof (TInv_recover te t consumed I) as I1.
      assert (Ea1 : tr_authenticated (recover t) = true).
      { unfold recover. destruct (tr_authenticated t && negb (tr_recovered t)); [reflexivity|exact Ea]. }
      assert (Er1 : tr_recovered (recover t) = true).
      { unfold recover. rewrite Ea. cbn [andb]. destruct (tr_recovered t) eqn:X; cbn [negb]; [exact X|reflexivity]. }
      destruct (tr_disconnected (recover t)); cbn [fst snd]; [rewrite app_nil_r; exact I1|].
      destruct I1 as [(evs & after & Hr & Hc & Hn & Hy) Ha Hu].
      constructor; cbn [tr_auth tr_authenticated tr_disconnected tr_loader tr_recovered].
      * exists evs, (after ++ c). split; [exact Hr|]. split; [rewrite Hc, app_assoc; reflexivity|].
        split; [intros X; congruence|]. intros _. rewrite (Hy Er1), app_assoc. reflexivity.
      * intros _. apply Ha. exact Ea1.
      * discriminate.
    + pose proof (TInv_try te t consumed I) as I1.
      destruct (tr_authenticated (try_to_authenticate te t) || tr_disconnected (try_to_authenticate te t)) eqn:E1;
        cbn [fst snd]; [rewrite app_nil_r; exact I1|].
      apply orb_false_iff in E1. destruct E1 as [E1 E2].
      destruct (work_result (tr_auth (try_to_authenticate te t))); cbn [fst snd]; try (rewrite app_nil_r; exact I1);
        try (rewrite app_nil_r; apply TInv_disconnect; assumption).
      apply TInv_feed; assumption.
  - destruct (tr_authenticated t) eqn:Ea; cbn [fst snd]; [rewrite app_nil_r; exact I|].
    pose proof (TInv_try te t consumed I) as I1.
    destruct (tr_authenticated (try_to_authenticate te t) || tr_disconnected (try_to_authenticate te t)) eqn:E1;
      cbn [fst snd]; [rewrite app_nil_r; exact I1|].
    apply orb_false_iff in E1. destruct E1 as [E1 E2].
    destruct (work_result (tr_auth (try_to_authenticate te t))); cbn [fst snd]; rewrite app_nil_r; try exact I1;
      try (apply TInv_disconnect; assumption).
    apply TInv_sent; assumption.
  - cbn [fst snd]. rewrite app_nil_r. apply TInv_recover, TInv_try. exact I.
Qed.

Theorem TInv_run te : forall evs t consumed, TInv te t consumed ->
  TInv te (fst (trun te t evs)) (consumed ++ snd (trun te t evs)).
Proof.
  induction evs as [|ev evs IH]; intros t consumed I; cbn [trun].
  - cbn [fst snd]. rewrite app_nil_r. exact I.
  - pose proof (TInv_step te t consumed ev I) as I1. destruct (tstep te t ev) as [t1 c1]. cbn [fst snd] in I1.
    specialize (IH t1 (consumed ++ c1) I1). destruct (trun te t1 evs) as [t2 c2]. cbn [fst snd] in *.
    rewrite app_assoc. exact IH.
Qed.
