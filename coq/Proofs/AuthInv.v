(* The protocol invariant of the SASL server model: a granted identity exists
   only in WaitingForBegin / Authenticated, it was established by a permitted
   mechanism and is exactly what that mechanism establishes; every rejection
   clears it and is counted. *)
From DV Require Import Lib.Base Auth.Types Gen.AuthTables Auth.Sha1 Wire.Utf8 Auth.Server.
Require Import ZifyBool ZifyN ZifyNat.
Local Open Scope N_scope.

(* a mechanism the server permits: in all_mechanisms under a name that is allowed *)
Definition permitted (e : env) (m : mech) : Prop :=
  exists name, In (name, m) all_mechanisms /\ mech_allowed e name = true.

(* the identity a successful run of mechanism m establishes *)
Definition established (e : env) (m : mech) (who : creds) : Prop :=
  match m with
  | EXTERNAL => exists u, c_uid (e_sock e) = Some u /\ who = mkCreds (Some u) (c_pid (e_sock e)) (c_gids (e_sock e))
  | COOKIE_SHA1 => who = mkCreds (Some (e_process_uid e)) (c_pid (e_sock e)) None
  | ANONYMOUS => who = mkCreds None (c_pid (e_sock e)) None
  end.

Record Inv (e : env) (a : core) : Prop := mkInv {
  I_fail : max_failures <= a_failures a -> in_end_state a = true;
  I_failmax : a_failures a <= max_failures;
  I_keyring : a_have_keyring a = true -> e_keyring_ok e = true;
  I_perm : forall m, a_mech a = Some m -> permitted e m;
  I_cookie : a_cookie_id a <> None -> a_mech a = Some COOKIE_SHA1;
  I_idle : a_state a = WaitingForAuth ->
           a_authorized a = creds_empty /\ a_desired a = creds_empty /\ a_identity a = [] /\ a_asked a = false /\ a_cookie_id a = None;
  I_data : a_state a = WaitingForData ->
           a_authorized a = creds_empty /\
           ((a_mech a = Some EXTERNAL /\ a_asked a = true /\ a_identity a = [] /\ a_cookie_id a = None) \/
            (a_mech a = Some COOKIE_SHA1 /\ (exists id, a_cookie_id a = Some id) /\
             a_desired a = mkCreds (Some (e_process_uid e)) None None));
  I_begin : a_state a = WaitingForBegin \/ a_state a = Authenticated ->
            exists m, a_mech a = Some m /\ established e m (a_authorized a)
}.

Lemma find_assoc {A} k (l : list (bytes * A)) v : assoc_bytes k l = Some v -> In (k, v) l.
Proof.
  induction l as [|[k' v'] l IH]; cbn; [discriminate|].
  destruct (bytes_eqb k k') eqn:E.
  - apply bytes_eqb_eq in E. subst. intros H; inversion H; subst. left; reflexivity.
  - intros H. right. auto.
Qed.

Lemma find_mech_permitted e name m : find_mech e name = Some m -> permitted e m.
Proof.
  unfold find_mech. destruct (mech_allowed e name) eqn:E; [|discriminate].
  intros H. exists name. split; [apply find_assoc; exact H | exact E].
Qed.

Lemma Inv_init e : Inv e core_init.
Proof.
  constructor; cbn -[N.le N.lt]; intros; try discriminate; try tauto;
    try (unfold max_failures in *; lia); try (destruct H; discriminate).
Qed.

(* ---------- send_rejected ---------- *)
Lemma shutdown_mech_fields a :
  let b := shutdown_mech a in
  a_authorized b = creds_empty /\ a_desired b = creds_empty /\ a_identity b = [] /\ a_asked b = false /\ a_mech b = None /\
  a_state b = a_state a /\ a_failures b = a_failures a /\ a_have_keyring b = a_have_keyring a /\ a_fd_negotiated b = a_fd_negotiated a /\
  a_nchal b = a_nchal a /\
  ((a_cookie_id a <> None -> a_mech a = Some COOKIE_SHA1) -> a_cookie_id b = None).
Proof.
  unfold shutdown_mech. cbn. destruct (a_mech a) as [[]|] eqn:E; cbn; repeat split; auto;
    intros H; destruct (a_cookie_id a); auto; exfalso; (assert (X : Some n <> None) by discriminate); specialize (H X); discriminate.
Qed.

Lemma Inv_send_rejected e a :
  in_end_state a = false -> a_failures a <= max_failures ->
  (max_failures <= a_failures a -> in_end_state a = true) ->
  (a_have_keyring a = true -> e_keyring_ok e = true) ->
  (a_cookie_id a <> None -> a_mech a = Some COOKIE_SHA1) ->
  Inv e (fst (send_rejected a)).
Proof.
  intros Hend Hmax Hf Hk Hc. unfold send_rejected. cbn [fst].
  destruct (shutdown_mech_fields a) as (H1 & H2 & H3 & H4 & H5 & H6 & H7 & H8 & H9 & H10 & H11).
  specialize (H11 Hc).
  set (b := shutdown_mech a) in *.
  assert (Hlt : a_failures a < max_failures).
  { destruct (N.lt_ge_cases (a_failures a) max_failures) as [?|G]; auto. specialize (Hf G). congruence. }
  constructor; cbn -[N.le N.lt N.leb].
  - intros G. rewrite H7 in *. destruct (max_failures <=? a_failures a + 1) eqn:E; cbn; [reflexivity|lia].
  - rewrite H7. lia.
  - rewrite H8. exact Hk.
  - rewrite H5. intros m X; discriminate.
  - rewrite H11. intros X; congruence.
  - intros _. repeat split; assumption.
  - intros X. destruct (max_failures <=? a_failures b + 1); discriminate.
  - intros [X|X]; destruct (max_failures <=? a_failures b + 1); discriminate.
Qed.

Lemma Inv_rejected_of_Inv e a : Inv e a -> in_end_state a = false -> Inv e (fst (send_rejected a)).
Proof. intros [] H. apply Inv_send_rejected; auto. Qed.

(* ---------- introduction lemmas for the three "live" shapes ---------- *)
Lemma Inv_intro_begin e b m :
  a_state b = WaitingForBegin -> a_mech b = Some m -> permitted e m -> established e m (a_authorized b) ->
  a_failures b < max_failures -> (a_have_keyring b = true -> e_keyring_ok e = true) ->
  (a_cookie_id b <> None -> m = COOKIE_SHA1) -> Inv e b.
Proof.
  intros Hs Hm Hp He Hf Hk Hc. constructor; try (rewrite Hs; intros; try discriminate).
  - intros G. lia.
  - lia.
  - exact Hk.
  - intros m' X. rewrite Hm in X. inversion X; subst; exact Hp.
  - intros X. rewrite Hm. f_equal. auto.
  - exists m. split; assumption.
Qed.

Lemma Inv_intro_data_ext e b :
  a_state b = WaitingForData -> a_mech b = Some EXTERNAL -> permitted e EXTERNAL -> a_authorized b = creds_empty ->
  a_asked b = true -> a_identity b = [] -> a_cookie_id b = None ->
  a_failures b < max_failures -> (a_have_keyring b = true -> e_keyring_ok e = true) -> Inv e b.
Proof.
  intros Hs Hm Hp Ha Hq Hi Hc Hf Hk. constructor; try (rewrite Hs; intros; try discriminate).
  - intros G. lia.
  - lia.
  - exact Hk.
  - intros m' X. rewrite Hm in X. inversion X; subst; exact Hp.
  - intros X. congruence.
  - split; [assumption|]. left. repeat split; assumption.
  - destruct H; discriminate.
Qed.

Lemma Inv_intro_data_cookie e b id :
  a_state b = WaitingForData -> a_mech b = Some COOKIE_SHA1 -> permitted e COOKIE_SHA1 -> a_authorized b = creds_empty ->
  a_cookie_id b = Some id -> a_desired b = mkCreds (Some (e_process_uid e)) None None ->
  a_failures b < max_failures -> (a_have_keyring b = true -> e_keyring_ok e = true) -> Inv e b.
Proof.
  intros Hs Hm Hp Ha Hc Hd Hf Hk. constructor; try (rewrite Hs; intros; try discriminate).
  - intros G. lia.
  - lia.
  - exact Hk.
  - intros m' X. rewrite Hm in X. inversion X; subst; exact Hp.
  - intros X. exact Hm.
  - split; [assumption|]. right. repeat split; try assumption. exists id; assumption.
  - destruct H; discriminate.
Qed.

Lemma Inv_crash e a : Inv e a -> Inv e (fst (crash a)).
Proof.
  intros []. constructor; cbn -[N.le]; auto; try (intros; discriminate).
  intros [X|X]; discriminate.
Qed.

(* what a mechanism function may assume when it is entered *)
Record MechPre (e : env) (a : core) (m : mech) : Prop := mkMechPre {
  P_live : in_end_state a = false;
  P_auth : a_authorized a = creds_empty;
  P_mech : a_mech a = Some m;
  P_perm : permitted e m;
  P_lt : a_failures a < max_failures;
  P_keyring : a_have_keyring a = true -> e_keyring_ok e = true;
  P_cookie : a_cookie_id a <> None -> m = COOKIE_SHA1
}.

Lemma MechPre_rejected e a m : MechPre e a m -> Inv e (fst (send_rejected a)).
Proof.
  intros []. apply Inv_send_rejected; auto; try lia.
  intros X. rewrite P_mech0. f_equal. auto.
Qed.

Lemma opt_N_eqb_eq a b : opt_N_eqb a b = true -> a = b.
Proof. destruct a, b; cbn; try discriminate; auto. intros H. apply N.eqb_eq in H. congruence. Qed.

Opaque parse_ulong validate_utf8 sha1 hex_encode dec_of_N.

Lemma Inv_external e a d :
  MechPre e a EXTERNAL -> a_cookie_id a = None ->
  Inv e (fst (external_mech e a d)).
Proof.
  intros P Hc. unfold external_mech.
  destruct (are_anonymous (e_sock e)) eqn:Ea; [eapply MechPre_rejected; eauto|].
  destruct (negb (is_empty d) && negb (is_empty (a_identity a))) eqn:E1; [eapply MechPre_rejected; eauto|].
  set (a1 := if negb (is_empty d) then set_identity a d else a).
  assert (P1 : MechPre e a1 EXTERNAL /\ a_cookie_id a1 = None /\ a_state a1 = a_state a).
  { unfold a1. destruct (negb (is_empty d)); [|auto]. destruct P. repeat split; cbn; auto. }
  destruct P1 as (P1 & Hc1 & Hs1). clearbody a1.
  destruct (is_empty (a_identity a1) && negb (a_asked a1)) eqn:E2.
  - cbn [fst]. apply andb_true_iff in E2. destruct E2 as [E2 E3].
    destruct P1. apply Inv_intro_data_ext; cbn; auto.
    destruct (a_identity a1); [reflexivity|discriminate].
  - set (a2 := set_desired a1 creds_empty).
    assert (P2 : MechPre e a2 EXTERNAL /\ a_cookie_id a2 = None /\ a_desired a2 = creds_empty).
    { destruct P1. repeat split; cbn; auto. }
    destruct P2 as (P2 & Hc2 & Hd2).
    assert (Hid : a_identity a2 = a_identity a1) by reflexivity.
    clearbody a2.
    destruct (is_empty (a_identity a2)) eqn:E3.
    + (* identity taken from the socket credentials *)
      set (dd := add_credentials (a_desired a2) (e_sock e)).
      assert (Hdd : dd = e_sock e).
      { unfold dd. rewrite Hd2. unfold add_credentials, creds_empty. cbn. destruct (e_sock e) as [[u|] [p|] [g|]]; reflexivity. }
      destruct (are_anonymous dd) eqn:E4; [destruct P2; apply Inv_send_rejected; cbn; auto; try lia; intros X; congruence|].
      destruct (are_superset (e_sock e) dd) eqn:E5.
      * cbn [fst send_ok]. destruct P2.
        eapply Inv_intro_begin with (m := EXTERNAL); cbn; auto; try congruence.
        rewrite P_auth0, Hdd. unfold are_anonymous in Ea. destruct (e_sock e) as [[u|] p g]; cbn in *; [|discriminate].
        exists u. split; [reflexivity|]. destruct p, g; reflexivity.
      * destruct P2; apply Inv_send_rejected; cbn; auto; try lia; intros X; congruence.
    + destruct (parse_ulong (a_identity a2)) as [u|] eqn:E4; [|eapply MechPre_rejected; eauto].
      set (dd := set_uid (a_desired a2) (uid_of_ulong u)).
      destruct (are_anonymous dd) eqn:E5; [destruct P2; apply Inv_send_rejected; cbn; auto; try lia; intros X; congruence|].
      destruct (are_superset (e_sock e) dd) eqn:E6.
      * cbn [fst send_ok]. destruct P2.
        eapply Inv_intro_begin with (m := EXTERNAL); cbn; auto; try congruence.
        rewrite P_auth0. unfold dd in *. rewrite Hd2 in *. cbn in *.
        destruct (uid_of_ulong u) as [v|]; [|discriminate].
        unfold are_superset in E6. cbn in E6. rewrite !andb_true_r in E6.
        destruct (c_uid (e_sock e)) as [y|] eqn:Ey; [|discriminate]. apply N.eqb_eq in E6. subst y.
        exists v. split; [reflexivity|].
        destruct (e_sock e) as [su [p|] [g|]]; reflexivity.
      * destruct P2; apply Inv_send_rejected; cbn; auto; try lia; intros X; congruence.
Qed.

