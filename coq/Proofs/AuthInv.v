(* The protocol invariant of the SASL server model: a granted identity exists
   only in WaitingForBegin / Authenticated, it was established by a permitted
   mechanism and is exactly what that mechanism establishes; every rejection
   clears it and is counted. *)
From DV Require Import Lib.Base Auth.Types Gen.AuthTables Auth.Sha1 Wire.Utf8 Auth.Server.
Require Import ZifyBool ZifyN ZifyNat.
Local Open Scope N_scope.

(* simplify record projections of setters only (never arithmetic) *)
Ltac fs := cbn [a_state a_mech a_identity a_authorized a_desired a_have_keyring a_cookie_id a_challenge a_asked a_failures
                a_fd_negotiated a_nchal set_state set_mech set_identity set_authorized set_desired set_have_keyring
                set_cookie_id set_challenge set_asked set_failures set_fd_negotiated set_nchal fst snd send_ok crash send_error
                core_init c_uid c_pid c_gids in_end_state] in *.

(* a mechanism the server permits: in all_mechanisms under a name that is allowed *)
Definition permitted (e : env) (m : mech) : Prop :=
  exists name, In (name, m) all_mechanisms /\ mech_allowed e name = true.

(* the identity a successful run of mechanism m establishes *)
Definition established (e : env) (m : mech) (who : creds) : Prop :=
  match m with
  | EXTERNAL => exists u, c_uid (e_sock e) = Some u /\ who = mkCreds (Some u) (c_pid (e_sock e)) (c_gids (e_sock e))
  | COOKIE_SHA1 => who = mkCreds (Some (e_process_uid e)) (c_pid (e_sock e)) None
  | ANONYMOUS => who = mkCreds None (c_pid (e_sock e)) None
  end.

Record Inv (e : env) (a : core) : Prop := mkInv {
  I_fail : max_failures <= a_failures a -> in_end_state a = true;
  I_failmax : a_failures a <= max_failures;
  I_keyring : a_have_keyring a = true -> e_keyring_ok e = true;
  I_perm : forall m, a_mech a = Some m -> permitted e m;
  I_cookie : a_cookie_id a <> None -> a_mech a = Some COOKIE_SHA1;
  I_idle : a_state a = WaitingForAuth ->
           a_authorized a = creds_empty /\ a_desired a = creds_empty /\ a_identity a = [] /\ a_asked a = false /\ a_cookie_id a = None;
  I_data : a_state a = WaitingForData ->
           a_authorized a = creds_empty /\
           ((a_mech a = Some EXTERNAL /\ a_asked a = true /\ a_identity a = [] /\ a_cookie_id a = None /\ a_desired a = creds_empty) \/
            (a_mech a = Some COOKIE_SHA1 /\ (exists id, a_cookie_id a = Some id) /\
             a_desired a = mkCreds (Some (e_process_uid e)) None None /\
             (* the challenge on record is the one the random source produced for this attempt *)
             (exists k raw, e_challenge e k = Some raw /\ e_best_key e k = a_cookie_id a /\ a_challenge a = hex_encode raw)));
  I_begin : a_state a = WaitingForBegin \/ a_state a = Authenticated ->
            exists m, a_mech a = Some m /\ established e m (a_authorized a)
}.

Lemma find_assoc {A} k (l : list (bytes * A)) v : assoc_bytes k l = Some v -> In (k, v) l.
Proof.
  induction l as [|[k' v'] l IH]; cbn; [discriminate|].
  destruct (bytes_eqb k k') eqn:E.
  - apply bytes_eqb_eq in E. subst. intros H; inversion H; subst. left; reflexivity.
  - intros H. right. auto.
Qed.

Lemma find_mech_permitted e name m : find_mech e name = Some m -> permitted e m.
Proof.
  unfold find_mech. destruct (mech_allowed e name) eqn:E; [|discriminate].
  intros H. exists name. split; [apply find_assoc; exact H | exact E].
Qed.

Lemma Inv_init e : Inv e core_init.
Proof.
  constructor; fs; intros; try discriminate; try tauto;
    try (unfold max_failures in *; lia); try (destruct H; discriminate).
Qed.

(* ---------- send_rejected ---------- *)
Lemma shutdown_mech_fields a :
  let b := shutdown_mech a in
  a_authorized b = creds_empty /\ a_desired b = creds_empty /\ a_identity b = [] /\ a_asked b = false /\ a_mech b = None /\
  a_state b = a_state a /\ a_failures b = a_failures a /\ a_have_keyring b = a_have_keyring a /\ a_fd_negotiated b = a_fd_negotiated a /\
  a_nchal b = a_nchal a /\
  ((a_cookie_id a <> None -> a_mech a = Some COOKIE_SHA1) -> a_cookie_id b = None).
Proof.
  unfold shutdown_mech. fs. destruct (a_mech a) as [[]|] eqn:E; fs; repeat split; auto;
    intros H; destruct (a_cookie_id a); auto; exfalso; (assert (X : Some n <> None) by discriminate); specialize (H X); discriminate.
Qed.

Lemma Inv_send_rejected e a :
  in_end_state a = false -> a_failures a <= max_failures ->
  (max_failures <= a_failures a -> in_end_state a = true) ->
  (a_have_keyring a = true -> e_keyring_ok e = true) ->
  (a_cookie_id a <> None -> a_mech a = Some COOKIE_SHA1) ->
  Inv e (fst (send_rejected a)).
Proof.
  intros Hend Hmax Hf Hk Hc. unfold send_rejected. fs.
  destruct (shutdown_mech_fields a) as (H1 & H2 & H3 & H4 & H5 & H6 & H7 & H8 & H9 & H10 & H11).
  specialize (H11 Hc).
  set (b := shutdown_mech a) in *.
  assert (Hlt : a_failures a < max_failures).
  { destruct (N.lt_ge_cases (a_failures a) max_failures) as [?|G]; auto. specialize (Hf G). congruence. }
  constructor; fs.
  - intros G. rewrite H7 in *. destruct (max_failures <=? a_failures a + 1) eqn:E; fs; [reflexivity|lia].
  - rewrite H7. lia.
  - rewrite H8. exact Hk.
  - rewrite H5. intros m X; discriminate.
  - rewrite H11. intros X; congruence.
  - intros _. repeat split; assumption.
  - intros X. destruct (max_failures <=? a_failures b + 1); discriminate.
  - intros [X|X]; destruct (max_failures <=? a_failures b + 1); discriminate.
Qed.

Lemma Inv_rejected_of_Inv e a : Inv e a -> in_end_state a = false -> Inv e (fst (send_rejected a)).
Proof. intros [] H. apply Inv_send_rejected; auto. Qed.

(* ---------- introduction lemmas for the three "live" shapes ---------- *)
Lemma Inv_intro_begin e b m :
  a_state b = WaitingForBegin -> a_mech b = Some m -> permitted e m -> established e m (a_authorized b) ->
  a_failures b < max_failures -> (a_have_keyring b = true -> e_keyring_ok e = true) ->
  (a_cookie_id b <> None -> m = COOKIE_SHA1) -> Inv e b.
Proof.
  intros Hs Hm Hp He Hf Hk Hc. constructor; try (rewrite Hs; intros; try discriminate).
  - intros G. lia.
  - lia.
  - exact Hk.
  - intros m' X. rewrite Hm in X. inversion X; subst; exact Hp.
  - intros X. rewrite Hm. f_equal. auto.
  - exists m. split; assumption.
Qed.

Lemma Inv_intro_data_ext e b :
  a_state b = WaitingForData -> a_mech b = Some EXTERNAL -> permitted e EXTERNAL -> a_authorized b = creds_empty ->
  a_asked b = true -> a_identity b = [] -> a_cookie_id b = None -> a_desired b = creds_empty ->
  a_failures b < max_failures -> (a_have_keyring b = true -> e_keyring_ok e = true) -> Inv e b.
Proof.
  intros Hs Hm Hp Ha Hq Hi Hc Hd Hf Hk. constructor; try (rewrite Hs; intros; try discriminate).
  - intros G. lia.
  - lia.
  - exact Hk.
  - intros m' X. rewrite Hm in X. inversion X; subst; exact Hp.
  - intros X. congruence.
  - split; [assumption|]. left. repeat split; assumption.
  - destruct H; discriminate.
Qed.

Lemma Inv_intro_data_cookie e b id :
  a_state b = WaitingForData -> a_mech b = Some COOKIE_SHA1 -> permitted e COOKIE_SHA1 -> a_authorized b = creds_empty ->
  a_cookie_id b = Some id -> a_desired b = mkCreds (Some (e_process_uid e)) None None ->
  (exists k raw, e_challenge e k = Some raw /\ e_best_key e k = a_cookie_id b /\ a_challenge b = hex_encode raw) ->
  a_failures b < max_failures -> (a_have_keyring b = true -> e_keyring_ok e = true) -> Inv e b.
Proof.
  intros Hs Hm Hp Ha Hc Hd Hch Hf Hk. constructor; try (rewrite Hs; intros; try discriminate).
  - intros G. lia.
  - lia.
  - exact Hk.
  - intros m' X. rewrite Hm in X. inversion X; subst; exact Hp.
  - intros X. exact Hm.
  - split; [assumption|]. right. split; [assumption|]. split; [exists id; assumption|]. split; assumption.
  - destruct H; discriminate.
Qed.

Lemma Inv_crash e a : Inv e a -> Inv e (fst (crash a)).
Proof.
  intros []. constructor; fs; auto; try (intros; discriminate).
  intros [X|X]; discriminate.
Qed.

(* what a mechanism function may assume when it is entered *)
Record MechPre (e : env) (a : core) (m : mech) : Prop := mkMechPre {
  P_live : in_end_state a = false;
  P_auth : a_authorized a = creds_empty;
  P_mech : a_mech a = Some m;
  P_perm : permitted e m;
  P_lt : a_failures a < max_failures;
  P_keyring : a_have_keyring a = true -> e_keyring_ok e = true;
  P_cookie : a_cookie_id a <> None -> m = COOKIE_SHA1
}.

Lemma MechPre_rejected e a m : MechPre e a m -> Inv e (fst (send_rejected a)).
Proof.
  intros []. apply Inv_send_rejected; auto; try lia.
  intros X. rewrite P_mech0. f_equal. auto.
Qed.

Lemma opt_N_eqb_eq a b : opt_N_eqb a b = true -> a = b.
Proof. destruct a, b; fs; try discriminate; auto. intros H. apply N.eqb_eq in H. congruence. Qed.

Opaque parse_ulong validate_utf8 sha1 hex_encode dec_of_N.

Lemma MechPre_frame e a b m :
  MechPre e a m -> a_state b = a_state a -> a_authorized b = a_authorized a -> a_mech b = a_mech a ->
  a_failures b = a_failures a -> a_have_keyring b = a_have_keyring a -> a_cookie_id b = a_cookie_id a -> MechPre e b m.
Proof.
  intros [] H1 H2 H3 H4 H5 H6. constructor.
  - unfold in_end_state in *. rewrite H1. assumption.
  - congruence.
  - congruence.
  - assumption.
  - rewrite H4. assumption.
  - rewrite H5. assumption.
  - rewrite H6. assumption.
Qed.

Lemma established_external_sock e s :
  e_sock e = s -> are_anonymous s = false ->
  established e EXTERNAL (add_gids_from (add_pid_from (add_credentials creds_empty s) s) s).
Proof.
  intros H. subst s. unfold are_anonymous, established. destruct (e_sock e) as [[u|] p g]; cbn; [|discriminate].
  intros _. exists u. split; [reflexivity|]. destruct p, g; reflexivity.
Qed.

Lemma established_external_uid e v :
  are_superset (e_sock e) (mkCreds (Some v) None None) = true ->
  established e EXTERNAL (add_gids_from (add_pid_from (add_credentials creds_empty (mkCreds (Some v) None None)) (e_sock e)) (e_sock e)).
Proof.
  unfold are_superset, established. cbn. rewrite !andb_true_r.
  destruct (e_sock e) as [[y|] p g]; cbn; [|discriminate].
  intros H. apply N.eqb_eq in H. subst y. exists v. split; [reflexivity|]. destruct p, g; reflexivity.
Qed.

Lemma Inv_external e a d :
  MechPre e a EXTERNAL -> a_cookie_id a = None -> a_desired a = creds_empty ->
  Inv e (fst (external_mech e a d)).
Proof.
  intros P Hc Hde. unfold external_mech.
  destruct (are_anonymous (e_sock e)) eqn:Ea; [eapply MechPre_rejected; eauto|].
  destruct (negb (is_empty d) && negb (is_empty (a_identity a))) eqn:E1; [eapply MechPre_rejected; eauto|].
  set (a1 := if negb (is_empty d) then set_identity a d else a).
  assert (P1 : MechPre e a1 EXTERNAL /\ a_cookie_id a1 = None /\ a_desired a1 = creds_empty).
  { unfold a1. destruct (negb (is_empty d)); [|auto]. split; [eapply MechPre_frame; eauto|split; [exact Hc|exact Hde]]. }
  destruct P1 as (P1 & Hc1 & Hde1). clearbody a1.
  destruct (is_empty (a_identity a1) && negb (a_asked a1)) eqn:E2.
  - apply andb_true_iff in E2. destruct E2 as [E2 E3].
    destruct P1. apply Inv_intro_data_ext; fs; auto.
    destruct (a_identity a1); [reflexivity|discriminate].
  - set (a2 := set_desired a1 creds_empty).
    assert (P2 : MechPre e a2 EXTERNAL) by (eapply MechPre_frame; eauto).
    assert (Hc2 : a_cookie_id a2 = None) by exact Hc1.
    assert (Hd2 : a_desired a2 = creds_empty) by reflexivity.
    clearbody a2.
    assert (Rej : forall dd, Inv e (fst (send_rejected (set_desired a2 dd)))).
    { intros dd. eapply MechPre_rejected. eapply MechPre_frame; eauto. }
    assert (Ok : forall dd, established e EXTERNAL (add_gids_from (add_pid_from (add_credentials creds_empty dd) (e_sock e)) (e_sock e)) ->
                            Inv e (fst (send_ok (set_authorized (set_desired a2 dd)
                               (add_gids_from (add_pid_from (add_credentials (a_authorized (set_desired a2 dd)) dd) (e_sock e)) (e_sock e)))))).
    { intros dd Hes. destruct P2. fs. eapply Inv_intro_begin with (m := EXTERNAL); fs; auto; try congruence. }
    destruct (is_empty (a_identity a2)) eqn:E3.
    + (* identity taken from the socket credentials *)
      rewrite Hd2.
      assert (Hdd : add_credentials creds_empty (e_sock e) = e_sock e) by (destruct (e_sock e) as [[u|] [p|] [g|]]; reflexivity).
      rewrite Hdd.
      rewrite Ea.
      destruct (are_superset (e_sock e) (e_sock e)); [|apply Rej].
      apply Ok. rewrite <- Hdd at 1. rewrite Hdd. apply established_external_sock; auto.
    + destruct (parse_ulong (a_identity a2)) as [u|] eqn:E4; [|eapply MechPre_rejected; eauto].
      rewrite Hd2. unfold set_uid. cbn [c_pid c_gids creds_empty].
      destruct (are_anonymous {| c_uid := uid_of_ulong u; c_pid := None; c_gids := None |}) eqn:E5; [apply Rej|].
      destruct (uid_of_ulong u) as [v|]; [|discriminate].
      destruct (are_superset (e_sock e) {| c_uid := Some v; c_pid := None; c_gids := None |}) eqn:E6; [|apply Rej].
      apply Ok. apply established_external_uid. exact E6.
Qed.

Lemma Inv_anonymous e a d : MechPre e a ANONYMOUS -> a_cookie_id a = None -> Inv e (fst (anonymous_mech e a d)).
Proof.
  intros P Hc. unfold anonymous_mech.
  assert (G : Inv e (fst (send_ok (set_authorized (set_desired a creds_empty)
                                    (add_pid_from (a_authorized (set_desired a creds_empty)) (e_sock e)))))).
  { destruct P. fs. eapply Inv_intro_begin with (m := ANONYMOUS); fs; auto; try congruence.
    rewrite P_auth0. unfold established, add_pid_from, or_else, creds_empty. cbn [c_uid c_pid c_gids].
    destruct (c_pid (e_sock e)); reflexivity. }
  destruct (is_empty d); [exact G|].
  destruct (validate_utf8 d) as [[|]|]; [exact G | eapply MechPre_rejected; eauto |].
  destruct P. fs. constructor; fs; intros; try discriminate; auto; try lia.
  - rewrite P_mech0 in H. inversion H; subst; auto.
  - congruence.
  - destruct H; discriminate.
Qed.

Lemma Inv_sha1_first e a d :
  MechPre e a COOKIE_SHA1 -> a_desired a = creds_empty -> Inv e (fst (sha1_first e a d)).
Proof.
  intros P Hd. unfold sha1_first.
  set (a0 := set_challenge a []).
  assert (P0 : MechPre e a0 COOKIE_SHA1 /\ a_desired a0 = creds_empty) by (split; [eapply MechPre_frame; eauto|exact Hd]).
  destruct P0 as [P0 Hd0]. clearbody a0.
  destruct (negb (is_empty d) && negb (is_empty (a_identity a0))); [eapply MechPre_rejected; eauto|].
  set (a1 := if negb (is_empty d) then set_identity a0 d else a0).
  assert (P1 : MechPre e a1 COOKIE_SHA1 /\ a_desired a1 = creds_empty).
  { unfold a1. destruct (negb (is_empty d)); [|auto]. split; [eapply MechPre_frame; eauto|exact Hd0]. }
  destruct P1 as [P1 Hd1]. clearbody a1.
  match goal with |- context [match ?w with Some _ => _ | None => send_rejected a1 end] => destruct w as [u|] end;
    [|eapply MechPre_rejected; eauto].
  set (a2 := set_desired a1 (set_uid (a_desired a1) u)).
  assert (P2 : MechPre e a2 COOKIE_SHA1 /\ a_desired a2 = mkCreds u None None).
  { split; [eapply MechPre_frame; eauto|]. unfold a2. fs. rewrite Hd1. reflexivity. }
  destruct P2 as [P2 Hd2]. clearbody a2.
  destruct (negb (opt_N_eqb (Some (e_process_uid e)) (c_uid (a_desired a2)))) eqn:E3; [eapply MechPre_rejected; eauto|].
  apply negb_false_iff, opt_N_eqb_eq in E3. rewrite Hd2 in E3. fs. subst u.
  destruct (negb (a_have_keyring a2) && negb (e_keyring_ok e)) eqn:E4; [eapply MechPre_rejected; eauto|].
  assert (Hk : e_keyring_ok e = true).
  { destruct (a_have_keyring a2) eqn:X; [destruct P2; auto|]. cbn [negb andb] in E4. destruct (e_keyring_ok e); [reflexivity|discriminate]. }
  fs. destruct P2.
  destruct (e_best_key e (a_nchal a2)) as [id|] eqn:Ebk.
  - destruct (e_challenge e (a_nchal a2)) as [raw|] eqn:Ech.
    + fs. eapply Inv_intro_data_cookie with (id := id); fs; auto.
      exists (a_nchal a2), raw. auto.
    + apply Inv_send_rejected; fs; auto; try lia.
  - apply Inv_send_rejected; fs; auto; try lia.
Qed.

Lemma Inv_sha1_second e a id d :
  MechPre e a COOKIE_SHA1 -> a_desired a = mkCreds (Some (e_process_uid e)) None None ->
  Inv e (fst (sha1_second e a id d)).
Proof.
  intros P Hd. unfold sha1_second.
  destruct (find_blank d) as [found i].
  destruct (negb found); [eapply MechPre_rejected; eauto|].
  destruct (skip_blank (e_asserts e) d i) as [j|].
  2:{ destruct P. fs. constructor; fs; intros; try discriminate; auto; try lia.
      - rewrite P_mech0 in H. inversion H; subst; auto.
      - destruct H; discriminate. }
  destruct (is_empty (firstn (N.to_nat i) d) || is_empty (skipn (N.to_nat j) d)); [eapply MechPre_rejected; eauto|].
  destruct (is_empty (sha1_compute_hash e (a_nchal a - 1) id (a_challenge a) (firstn (N.to_nat i) d))); [eapply MechPre_rejected; eauto|].
  destruct (negb (bytes_eqb (skipn (N.to_nat j) d) (sha1_compute_hash e (a_nchal a - 1) id (a_challenge a) (firstn (N.to_nat i) d))));
    [eapply MechPre_rejected; eauto|].
  destruct P. fs. eapply Inv_intro_begin with (m := COOKIE_SHA1); fs; auto.
  rewrite P_auth0, Hd. unfold established, add_pid_from, add_credentials, or_else, creds_empty. cbn [c_uid c_pid c_gids].
  destruct (c_pid (e_sock e)); reflexivity.
Qed.

(* the mechanism functions, entered either from handle_auth (fresh) or from WaitingForData *)
Definition MechState (e : env) (a : core) (m : mech) : Prop :=
  a_cookie_id a = None /\ a_desired a = creds_empty \/
  m = COOKIE_SHA1 /\ a_cookie_id a <> None /\ a_desired a = mkCreds (Some (e_process_uid e)) None None.

Lemma Inv_mech_data e a m d : MechPre e a m -> MechState e a m -> Inv e (fst (mech_data e m a d)).
Proof.
  intros P S. destruct m; cbn [mech_data].
  - destruct S as [[Hc Hd]|[X _]]; [|discriminate]. apply Inv_external; auto.
  - unfold cookie_mech. destruct S as [[Hc Hd]|(_ & Hc & Hd)].
    + rewrite Hc. apply Inv_sha1_first; auto.
    + destruct (a_cookie_id a) as [id|]; [|congruence]. apply Inv_sha1_second; auto.
  - destruct S as [[Hc Hd]|[X _]]; [|discriminate]. apply Inv_anonymous; auto.
Qed.

Lemma Inv_send_error e a m : Inv e a -> Inv e (fst (send_error a m)).
Proof. auto. Qed.

Lemma Inv_process_data e a args m : Inv e a -> MechPre e a m -> MechState e a m -> Inv e (fst (process_data e a args m)).
Proof.
  intros I P S. unfold process_data. destruct (hex_decode args) as [dec endi].
  destruct (negb (endi =? nlen args)); [exact I|]. apply Inv_mech_data; auto.
Qed.

Lemma not_end_lt e a : Inv e a -> in_end_state a = false -> a_failures a < max_failures.
Proof.
  intros [] H. destruct (N.lt_ge_cases (a_failures a) max_failures) as [?|G]; auto. specialize (I_fail0 G). congruence.
Qed.

Lemma Inv_handle_auth e a args : Inv e a -> a_state a = WaitingForAuth -> Inv e (fst (handle_auth e a args)).
Proof.
  intros I Hs. assert (Hend : in_end_state a = false) by (unfold in_end_state; rewrite Hs; reflexivity).
  unfold handle_auth. destruct (is_empty args); [apply Inv_rejected_of_Inv; auto|].
  destruct (find_blank args) as [fb i].
  destruct (skip_blank (e_asserts e) args i) as [j|]; [|apply Inv_crash; exact I].
  pose proof (not_end_lt e a I Hend) as Hlt.
  destruct I. destruct (I_idle0 Hs) as (Ha & Hd & Hi & Hq & Hc).
  destruct (find_mech e (firstn (N.to_nat i) args)) as [m|] eqn:Em.
  - apply find_mech_permitted in Em.
    assert (P : MechPre e (set_mech a (Some m)) m) by (constructor; fs; auto; congruence).
    apply Inv_process_data; auto.
    + constructor; fs; auto; try (intros X; congruence); try (intros [X|X]; congruence);
        try (intros m' X; inversion X; subst; auto).
    + left. split; assumption.
  - apply Inv_send_rejected; fs; auto; congruence.
Qed.

(* which actions a state's switch may contain for the invariant to survive *)
Definition action_ok (s : sstate) (act : action) : bool :=
  match act, s with
  | A_SendError _, _ | A_SendRejected, _ | A_GotoDisconnect, _ => true
  | A_HandleAuth, WaitingForAuth => true
  | A_ProcessData, WaitingForData => true
  | A_GotoAuthenticated, WaitingForBegin => true
  | A_NegotiateFd _, WaitingForBegin => true
  | _, _ => false
  end.

Lemma disp_auth_ok c : action_ok WaitingForAuth (disp_waiting_for_auth c) = true.
Proof. destruct c; reflexivity. Qed.
Lemma disp_data_ok c : action_ok WaitingForData (disp_waiting_for_data c) = true.
Proof. destruct c; reflexivity. Qed.
Lemma disp_begin_ok c : action_ok WaitingForBegin (disp_waiting_for_begin c) = true.
Proof. destruct c; reflexivity. Qed.

Lemma Inv_set_disconnect e a : Inv e a -> Inv e (set_state a NeedDisconnect).
Proof.
  intros []. constructor; fs; auto; try (intros; discriminate). intros [X|X]; discriminate.
Qed.

Lemma Inv_run_action e a act args :
  Inv e a -> in_end_state a = false -> action_ok (a_state a) act = true -> Inv e (fst (run_action e a act args)).
Proof.
  intros I Hend Hok. destruct act; cbn [run_action].
  - destruct (a_state a) eqn:Hs; try discriminate. apply Inv_handle_auth; auto.
  - exact I.
  - apply Inv_rejected_of_Inv; auto.
  - destruct (a_state a) eqn:Hs; try discriminate.
    destruct (a_mech a) as [m|] eqn:Hm; [|apply Inv_crash; exact I].
    pose proof (not_end_lt e a I Hend) as Hlt. pose proof I as I'. destruct I.
    destruct (I_data0 Hs) as (Ha & [(M & Hq & Hi & Hc & Hd)|(M & [id Hc] & Hd & _)]).
    + assert (m = EXTERNAL) by congruence. subst m.
      apply Inv_process_data; auto.
      * constructor; auto. congruence.
      * left. split; auto.
    + assert (m = COOKIE_SHA1) by congruence. subst m.
      apply Inv_process_data; auto.
      * constructor; auto.
      * right. repeat split; auto. congruence.
  - apply Inv_set_disconnect. exact I.
  - destruct (a_state a) eqn:Hs; try discriminate.
    pose proof (not_end_lt e a I Hend) as Hlt. destruct I.
    destruct I_begin0 as (m & Hm & He); [left; exact Hs|].
    fs. constructor; fs; auto; try (intros; discriminate).
    exists m. split; assumption.
  - destruct (a_state a) eqn:Hs; try discriminate.
    destruct (e_fd_possible e); [|exact I].
    pose proof (not_end_lt e a I Hend) as Hlt. destruct I.
    destruct I_begin0 as (m & Hm & He); [left; exact Hs|].
    fs. eapply Inv_intro_begin with (m := m); fs; auto.
    intros X. apply I_cookie0 in X. congruence.
Qed.

Lemma Inv_handle e a c args : Inv e a -> Inv e (fst (handle e a c args)).
Proof.
  intros I. unfold handle. destruct (a_state a) eqn:Hs; try exact I;
    apply Inv_run_action; auto; try (unfold in_end_state; rewrite Hs; reflexivity); rewrite Hs.
  - apply disp_auth_ok.
  - apply disp_data_ok.
  - apply disp_begin_ok.
Qed.

Theorem Inv_process_line e a line : Inv e a -> Inv e (fst (process_line e a line)).
Proof.
  intros I. unfold process_line. destruct (negb (validate_ascii line)); [exact I|].
  destruct (find_blank line) as [fb i].
  destruct (skip_blank (e_asserts e) line i) as [j|]; [apply Inv_handle; exact I | apply Inv_crash; exact I].
Qed.
