(* C03: the literal property as one statement, its refutation by the F13 witness, the corollary per
   recipient, and concrete runs showing that the hypotheses are satisfiable and the conclusions bite. *)
From DV Require Import Lib.Base Wire.HeaderEdit Stamp.Stamp Spec.StampSpec Proofs.StampFields Proofs.StampNames Proofs.StampInv.
From Coq Require Import ZArith.
Local Open Scope N_scope.

(* the property text, for every environment (routing, policy, rest of the driver) *)
Definition full_statement : Prop :=
  forall max_completed machine_id send_allowed driver reads_args on_disconnect activatable granted,
    (forall b c m, Forall dmsg_wf (driver b c m)) ->
    (forall b c, Forall dmsg_wf (on_disconnect b c)) ->
    forall h, Forall event_ok h ->
      trace_ok true (trace_of max_completed machine_id send_allowed driver reads_args on_disconnect activatable granted h) /\
      names_ok (trace_of max_completed machine_id send_allowed driver reads_args on_disconnect activatable granted h).

(* "never reaches any receiver": whoever routing, match rules and monitoring select *)
Theorem every_delivery max_completed machine_id send_allowed driver reads_args on_disconnect activatable granted
        (route matches : conn -> smsg -> list conn) (bcast : smsg -> list conn) (monitors : list conn) :
  (forall b c m, Forall dmsg_wf (driver b c m)) ->
  (forall b c, Forall dmsg_wf (on_disconnect b c)) ->
  forall h, Forall event_ok h ->
  forall pre o s m' post r,
    trace_of max_completed machine_id send_allowed driver reads_args on_disconnect activatable granted h = pre ++ TEmit o s m' :: post ->
    In r (recipients route matches bcast monitors s m') ->
    emit_ok false (view pre) (last_recv pre) (wrote pre) o s m'.
Proof. intros H1 H2 h Hh pre o s m' post r E _. eapply sender_partial; eauto. Qed.

(* ---------------- the trivial environment ---------------------------------------------------- *)
(* service files exist for the names "t.A..."; a RequestName is granted iff nobody owns the name *)
Definition env_activatable (d : bytes) : bool := is_prefix [116;46;65] d.
Definition env_granted (b : bus) (c : conn) (name : bytes) : bool := negb (is_owned b name) && negb (is_prefix [58] name).
Definition env_run (h : list event) : list item :=
  trace_of 50 [] (fun _ _ _ => true) (fun _ _ _ => []) (fun _ _ _ => false) (fun _ _ => []) env_activatable env_granted h.

(* F13: connect, then (no Hello) a method call to path "/x", member "Foo", no DESTINATION *)
Definition f13_msg : smsg :=
  mkSMsg true 1 0 1 [mkSField 1 (TBasic 111) (VStr 111 [47;120]); mkSField 3 (TBasic 115) (VStr 115 [70;111;111])] [] [].
Definition f13_hist : list event := [EConnect 0; ESend 0 f13_msg].

Definition f13_bytes : bytes :=
  [108;1;0;1;0;0;0;0;1;0;0;0;28;0;0;0;1;1;111;0;2;0;0;0;47;120;0;0;0;0;0;0;3;1;115;0;3;0;0;0;70;111;111;0;0;0;0;0].

Lemma f13_msg_is_the_replay : spec_decode_message f13_bytes = Some (f13_msg, 48).
Proof. vm_compute. reflexivity. Qed.

Lemma f13_hist_ok : Forall event_ok f13_hist.
Proof. repeat constructor. Qed.

Lemma f13_trace :
  env_run f13_hist = [TConn 0; TRecv 0 f13_msg; TEmit OLocal (SSelf 0) (new_error (scrub f13_msg) err_unknown_method [])].
Proof. vm_compute. reflexivity. Qed.

Lemma f13_reply_has_no_sender : has_no_sender (new_error (scrub f13_msg) err_unknown_method []).
Proof. apply error_no_sender. Qed.

Theorem sender_refuted : ~ full_statement.
Proof.
  intros H.
  destruct (H 50 [] (fun _ _ _ => true) (fun _ _ _ => []) (fun _ _ _ => false) (fun _ _ => []) env_activatable env_granted
              (fun _ _ _ => Forall_nil _) (fun _ _ => Forall_nil _) f13_hist f13_hist_ok) as [T _].
  exact (T [TConn 0; TRecv 0 f13_msg] OLocal (SSelf 0) _ [] f13_trace).
Qed.

(* ---------------- a run in which everything the property talks about happens ------------------- *)
Definition hello_msg (serial : N) : smsg :=
  mkSMsg true 1 0 serial
    [mkSField 1 (TBasic 111) (VStr 111 dbus_path); mkSField 2 (TBasic 115) (VStr 115 drv_name);
     mkSField 3 (TBasic 115) (VStr 115 mem_hello); mkSField 6 (TBasic 115) (VStr 115 drv_name)] [] [].

Definition name0 : bytes := [58;49;46;48].   (* ":1.0" *)
Definition name1 : bytes := [58;49;46;49].   (* ":1.1" *)

(* a signal to :1.0 with a forged SENDER (org.freedesktop.DBus) first, an unknown field 200 and a
   CONTAINER_INSTANCE field *)
Definition forged_msg : smsg :=
  mkSMsg true 4 0 7
    [mkSField 7 (TBasic 115) (VStr 115 drv_name);
     mkSField 200 (TBasic 117) (VNum 117 5);
     mkSField 1 (TBasic 111) (VStr 111 [47;120]); mkSField 2 (TBasic 115) (VStr 115 [116;46;73]);
     mkSField 10 (TBasic 111) (VStr 111 [47;99]);
     mkSField 3 (TBasic 115) (VStr 115 [77]); mkSField 6 (TBasic 115) (VStr 115 name0)] [] [].

Definition demo_hist : list event :=
  [EConnect 0; ESend 0 (hello_msg 1); EConnect 1; ESend 1 (hello_msg 1); ESend 1 (hello_msg 2);
   ESend 1 forged_msg; EDisconnect 1; EConnect 1; ESend 1 (hello_msg 1)].

Lemma demo_hist_ok : Forall event_ok demo_hist.
Proof. repeat constructor. Qed.

Lemma demo_names : issued (env_run demo_hist) = [name0; name1; [58;49;46;50]].
Proof. vm_compute. reflexivity. Qed.

Lemma demo_forwarded :
  In (TEmit (OClient 1) (SRouted 1 (ATo 0))
        (mkSMsg true 4 0 7
           [mkSField 7 (TBasic 115) (VStr 115 name1);
            mkSField 1 (TBasic 111) (VStr 111 [47;120]); mkSField 2 (TBasic 115) (VStr 115 [116;46;73]);
            mkSField 3 (TBasic 115) (VStr 115 [77]); mkSField 6 (TBasic 115) (VStr 115 name0)] [] []))
     (env_run demo_hist).
Proof. vm_compute. tauto. Qed.

(* before Hello the same message only reaches the monitors, under the placeholder, and the writer is dropped *)
Lemma demo_placeholder :
  env_run [EConnect 0; ESend 0 forged_msg] =
  [TConn 0; TRecv 0 forged_msg; TEmit (OClient 0) SMonitors (stamp not_active forged_msg); TGone 0].
Proof. vm_compute. reflexivity. Qed.

(* ---------------- a message kept while a service is started -------------------------------------- *)
Definition name_act : bytes := [116;46;65;49].   (* "t.A1" *)

(* a method call to the activatable name t.A1 with a forged SENDER and an unknown field *)
Definition act_msg (serial : N) : smsg :=
  mkSMsg true 1 0 serial
    [mkSField 1 (TBasic 111) (VStr 111 [47;120]); mkSField 7 (TBasic 115) (VStr 115 drv_name);
     mkSField 3 (TBasic 115) (VStr 115 [77]); mkSField 77 (TBasic 117) (VNum 117 5);
     mkSField 6 (TBasic 115) (VStr 115 name_act)] [] [].

Definition request_msg (serial : N) (name : bytes) : smsg :=
  mkSMsg true 1 0 serial
    [mkSField 1 (TBasic 111) (VStr 111 dbus_path); mkSField 2 (TBasic 115) (VStr 115 drv_name);
     mkSField 3 (TBasic 115) (VStr 115 mem_request); mkSField 6 (TBasic 115) (VStr 115 drv_name);
     mkSField 8 (TBasic 103) (VStr 103 [115;117])] [115;117] [VStr 115 name; VNum 117 4].

(* clients 1 and 2 write to t.A1; 2 leaves and a new client takes the id 2 (and the name :1.3);
   client 0 then claims t.A1: only client 1's message is dispatched, under :1.1 *)
Definition hold_hist : list event :=
  [EConnect 0; ESend 0 (hello_msg 1); EConnect 1; ESend 1 (hello_msg 1); EConnect 2; ESend 2 (hello_msg 1);
   ESend 1 (act_msg 7); ESend 2 (act_msg 8); EDisconnect 2; EConnect 2; ESend 2 (hello_msg 1);
   ESend 0 (request_msg 9 name_act)].

Lemma hold_hist_ok : Forall event_ok hold_hist.
Proof. repeat constructor. Qed.

Definition released_of (tr : list item) : list (conn * smsg) :=
  flat_map (fun i => match i with TEmit (OClient c) (SReleased _) m => [(c, m)] | _ => [] end) tr.

Lemma hold_released : released_of (env_run hold_hist) = [(1, stamp name1 (act_msg 7))].
Proof. vm_compute. reflexivity. Qed.

(* the same start failing instead: the error goes to the writer that is still there, only *)
Definition fail_hist : list event :=
  [EConnect 0; ESend 0 (hello_msg 1); EConnect 1; ESend 1 (hello_msg 1); EConnect 2; ESend 2 (hello_msg 1);
   ESend 1 (act_msg 7); ESend 2 (act_msg 8); EDisconnect 2; EConnect 2; ESend 2 (hello_msg 1);
   EActFail name_act err_failed].

Lemma fail_bounced :
  flat_map (fun i => match i with
                     | TEmit ODriver (STo c) m => if s_type m =? 3 then [(c, get_field (s_fields m) 5, get_field (s_fields m) 6)] else []
                     | _ => [] end)
           (env_run fail_hist) = [(1, Some (VNum 117 7), Some (VStr 115 name1))].
Proof. vm_compute. reflexivity. Qed.

(* ---------------- nobody can get at somebody else's unique name ------------------------------------ *)
Definition release_msg (serial : N) (name : bytes) : smsg :=
  mkSMsg true 1 0 serial
    [mkSField 1 (TBasic 111) (VStr 111 dbus_path); mkSField 2 (TBasic 115) (VStr 115 drv_name);
     mkSField 3 (TBasic 115) (VStr 115 mem_release); mkSField 6 (TBasic 115) (VStr 115 drv_name);
     mkSField 8 (TBasic 103) (VStr 103 [115])] [115] [VStr 115 name].

Definition to_name_msg (serial : N) (name : bytes) : smsg :=
  mkSMsg true 1 0 serial
    [mkSField 1 (TBasic 111) (VStr 111 [47;120]); mkSField 3 (TBasic 115) (VStr 115 [77]);
     mkSField 6 (TBasic 115) (VStr 115 name)] [] [].

(* client 1 asks for client 0's name (live), its own name, a never minted one, tries to release 0's name;
   0 leaves; 1 asks again for the departed name and writes to it: nobody is addressed *)
Definition squat_hist : list event :=
  [EConnect 0; ESend 0 (hello_msg 1); EConnect 1; ESend 1 (hello_msg 1);
   ESend 1 (request_msg 2 name0); ESend 1 (request_msg 3 name1); ESend 1 (request_msg 4 [58;57;46;57]);
   ESend 1 (release_msg 5 name0); ESend 1 (to_name_msg 6 name0); EDisconnect 0;
   ESend 1 (request_msg 7 name0); ESend 1 (to_name_msg 8 name0)].

Lemma squat_hist_ok : Forall event_ok squat_hist.
Proof. repeat constructor. Qed.

Definition addressed_of (tr : list item) : list (N * addressee) :=
  flat_map (fun i => match i with TEmit (OClient _) (SRouted _ a) m => [(s_serial m, a)] | _ => [] end) tr.

Definition refusals_of (tr : list item) : list (option val) :=
  flat_map (fun i => match i with
                     | TEmit ODriver (STo 1) m => if s_type m =? 3 then [get_field (s_fields m) 5] else []
                     | _ => [] end) tr.

Lemma squat_refused :
  refusals_of (env_run squat_hist) = map (fun k => Some (VNum 117 k)) [2; 3; 4; 5; 7] /\
  addressed_of (env_run squat_hist) = [(6, ATo 0); (8, ANobody)] /\
  departed (env_run squat_hist) = [name0].
Proof. vm_compute. repeat split; reflexivity. Qed.
