(* C20 proofs, part 7: get_user_data, the unregister callbacks at the end of
   life, and the refutation witnesses of the dispatch statements. *)
From DV Require Import Lib.Base ObjTree.ObjTree ObjTree.Dispatch Spec.ObjtreeSpec Spec.ObjtreeSpecDispatch
  Proofs.ObjtreeOrder Proofs.ObjtreeProofs Proofs.ObjtreeOracle Proofs.ObjtreeSim Proofs.ObjtreeDispatch
  Proofs.ObjtreeDispatchSpec.
From Coq Require Import Arith.
Local Open Scope nat_scope.

(* ---- _dbus_object_tree_get_user_data_unlocked ------------------------------------------------ *)
Lemma find_deepest_exact : forall p n up, wf n ->
  match node_at n p with
  | Some c => exists rest, find_deepest n up p = Ok (Some (c :: rest), true)
  | None => exists ch, find_deepest n up p = Ok (ch, false)
  end.
Proof.
  induction p as [|e r IH]; intros n up W; simpl; [eauto|].
  destruct (wf_inv _ W) as (Hs & _).
  destruct (find_child_child_of e (nkids n) Hs) as [(k & c & -> & -> & Hin) | (i & -> & ->)]; [|eauto].
  specialize (IH c (n :: up) (proj1 (wf_child n c W Hin))).
  destruct (node_at c r) as [c'|].
  - destruct IH as [rest ->]. eauto.
  - destruct IH as [ch ->]. destruct ch; [eauto|]. destruct (nfallback n); eauto.
Qed.

Lemma get_user_data_ok t s p : refines t s ->
  get_user_data t p = Ok (match s_lookup s p with Some (h, _) => Some h | None => None end).
Proof.
  intros [W A]. unfold get_user_data. rewrite <- A. unfold amap, reg_of.
  pose proof (find_deepest_exact p t [] W) as H. destruct (node_at t p) as [c|].
  - destruct H as [rest ->]. destruct (nhandler c); reflexivity.
  - destruct H as [ch ->]. destruct ch as [[|? ?]|]; reflexivity.
Qed.

Lemma get_user_data_history ops p :
  exists t, run ops = Ok t /\
    get_user_data t p = Ok (match s_lookup (s_run ops) p with Some (h, _) => Some h | None => None end).
Proof. destruct (run_refines ops) as (t & Er & R). exists t. split; auto. apply get_user_data_ok; auto. Qed.

(* ---- free_subtree_recurse ------------------------------------------------------------------------ *)
Fixpoint free_kids (l : list node) : list N :=
  match l with [] => [] | k :: r => free_kids r ++ free_all k end.

Lemma free_all_eq nm h fb kids :
  free_all (Node nm h fb kids) = free_kids kids ++ match h with Some x => [x] | None => [] end.
Proof. reflexivity. Qed.

Lemma free_kids_in h l : In h (free_kids l) <-> exists k, In k l /\ In h (free_all k).
Proof.
  induction l as [|k r IH]; simpl.
  - split; [intros [] | intros (k & [] & _)].
  - rewrite in_app_iff, IH. split.
    + intros [(k' & Hk & Hh) | Hh]; eauto.
    + intros (k' & [<-|Hk] & Hh); eauto.
Qed.

Lemma child_of_member kids k : sorted kids -> In k kids -> child_of (nname k) kids = Some k.
Proof.
  intros Hs Hin. apply in_split in Hin. destruct Hin as (l1 & l2 & ->).
  destruct (sorted_mid _ _ _ Hs) as [D1 _]. apply child_of_hit; auto.
Qed.

Lemma free_all_members : forall n, wf n -> forall h, In h (free_all n) <-> exists p fb, amap n p = Some (h, fb).
Proof.
  induction n as [nm hd fl kids IH] using node_ind2. intros W h. rewrite free_all_eq, in_app_iff, free_kids_in.
  destruct (wf_inv _ W) as (Hs & Hw & _). simpl in Hs, Hw. rewrite Forall_forall in IH, Hw. split.
  - intros [(k & Hk & Hh) | Hh].
    + apply (IH k Hk (Hw k Hk)) in Hh. destruct Hh as (p & fb & Hp). exists (nname k :: p), fb.
      rewrite amap_cons. simpl. rewrite child_of_member; auto.
    + destruct hd as [x|]; [|destruct Hh]. destruct Hh as [<-|[]]. exists [], fl. reflexivity.
  - intros (p & fb & Hp). destruct p as [|e r].
    + right. rewrite amap_nil in Hp. unfold reg_of in Hp. simpl in Hp. destruct hd; inversion Hp; subst. left; auto.
    + left. rewrite amap_cons in Hp. simpl in Hp. destruct (child_of e kids) as [c|] eqn:Ec; [|discriminate].
      apply child_of_some in Ec. destruct Ec as [_ Hin]. exists c. split; auto.
      apply (IH c Hin (Hw c Hin)). eauto.
Qed.

Lemma free_all_history ops :
  exists t, run ops = Ok t /\ forall h, In h (free_all t) <-> exists p fb, s_lookup (s_run ops) p = Some (h, fb).
Proof.
  destruct (run_refines ops) as (t & Er & W & A). exists t. split; auto. intros h.
  rewrite (free_all_members t W). split; intros (p & fb & Hp); exists p, fb; [rewrite <- A | rewrite A]; exact Hp.
Qed.

(* ---- refutation witnesses --------------------------------------------------------------------------- *)
Definition la : bytes := [97%N].
Definition lb : bytes := [98%N].

Definition plain_msg (p : path) : msg := Msg MethodCall IfOther MemOther (Some p) false.

(* /a fallback (2), /a/b (1); while handling a call to /a/b, handler 1 unregisters /a and registers a
   NON-fallback handler 5 there: 5 is then invoked for the call to /a/b *)
Definition swap_history : list op := [Register true [la] 2%N; Register false [la; lb] 1%N].
Definition swap_behaviour : behaviour :=
  Behaviour (fun _ => false) (fun h => if N.eqb h 1 then [Unregister [la]; Register false [la] 5%N] else []).

Lemma strict_refuted :
  ~ (forall ops fs m b oom, well_formed m ->
       exists t t' s' log r r',
         run ops = Ok t /\ dispatch_message t fs m b oom = Ok (t', log, r) /\
         s_dispatch_message (s_run ops) fs m b oom = Ok (s', log, r')).
Proof.
  intros H.
  destruct (H swap_history [] (plain_msg [la; lb]) swap_behaviour [] ltac:(intros _; discriminate))
    as (t & t' & s' & log & r & r' & Er & Ed & Es).
  vm_compute in Er. inversion Er; subst t. vm_compute in Ed. inversion Ed; subst. vm_compute in Es. discriminate.
Qed.

(* the error clause at the level of dbus_connection_dispatch: nothing registered, call to /nope *)
Lemma conn_error_refuted :
  ~ (forall ops fs m b p, quiet b -> m_reply_pending m = false -> peer_filter m = None -> m_path m = Some p ->
       exists t log, run ops = Ok t /\ dispatch_message t fs m b [] = Ok (t, log, quiet_reply b (s_run ops) fs m p)).
Proof.
  intros H.
  destruct (H [] [] (plain_msg nope) (Behaviour (fun _ => false) (fun _ => [])) nope
              ltac:(intros ?; reflexivity) eq_refl eq_refl eq_refl) as (t & log & Er & Ed).
  vm_compute in Er. inversion Er; subst t. vm_compute in Ed. discriminate.
Qed.
