(* Completeness of the body validator model on canonical encodings: every
   well-formed value, encoded by the specification encoder at any position and
   followed by any bytes, is accepted by [vb] (the model of validate_body_helper),
   which stops exactly at the end of the encoding. *)
From DV Require Import Lib.Base Gen.Tables Wire.Body Wire.Utf8 Spec.Codec Spec.NamesSpec Spec.Utf8Spec Wire.HeaderEdit
  Proofs.CodecBasics Proofs.CodecWf Proofs.CodecRoundtrip Proofs.BodyCursor Proofs.BodyVbEq Proofs.NamesProofs Proofs.Utf8Proofs.
From Coq Require Import ZArith ZifyBool ZifyN ZifyNat Arith.
Local Open Scope N_scope.

(* premises about the wire level that the specification's value universe does not carry:
   string bytes are bytes; signature strings (values of type g and variant signatures) pass the
   C automaton (its equivalence with the grammar is not yet a theorem) *)
Fixpoint wire_ok (v : val) : bool :=
  match v with
  | VNum _ _ => true
  | VStr c s => all_bytes s && (negb (c =? 103) || validate_signature s)
  | VArr et vs => (ty_alignment et =? spec_align et) && ((spec_align et =? 1) || (spec_align et =? 2) || (spec_align et =? 4) || (spec_align et =? 8)) &&
                  forallb wire_ok vs
  | VStruct fs => forallb wire_ok fs
  | VDictE k x => wire_ok k && wire_ok x
  | VVar t x => validate_signature (print_ty t) && wire_ok x
  end.

Definition VB (le : bool) (v : val) : Prop :=
  forall d depth pos rest, wfb le depth pos v = true -> wire_ok v = true -> (height v < d)%nat ->
    vb le d (ty_of_val v) depth (curof pos (enc le v pos ++ rest)) = inl (curof (pos + nlen (enc le v pos)) rest).

Lemma crem_nonzero le v depth pos rest : wfb le depth pos v = true -> (crem (curof pos (enc le v pos ++ rest)) =? 0) = false.
Proof. intros H. pose proof (enc_nonempty le v depth pos H). unfold curof. cbn [crem]. rewrite nlen_app. lia. Qed.

Lemma depth_ok' depth : (depth <=? max_value_depth) = true -> (maxdepth <? depth + 1) = false \/ depth = 64.
Proof. unfold max_value_depth, maxdepth. change (DBUS_MAXIMUM_TYPE_RECURSION_DEPTH * 2) with 64. lia. Qed.

Lemma ty_alignment_spec le v depth pos : wfb le depth pos v = true ->
  ty_alignment (ty_of_val v) = spec_align (ty_of_val v) /\
  (spec_align (ty_of_val v) = 1 \/ spec_align (ty_of_val v) = 2 \/ spec_align (ty_of_val v) = 4 \/ spec_align (ty_of_val v) = 8).
Proof.
  destruct v as [c n|c s|et vs|fs|k x|t x]; intros H; cbn [ty_of_val ty_alignment spec_align]; try (split; [reflexivity|lia]).
  - cbn [wfb] in H. apply andb_true_iff in H. destruct H as [_ H]. destruct (fixed_size c) as [sz|] eqn:Hsz; [|discriminate].
    destruct (fixed_tables c sz Hsz) as (_ & Ha & Hs). split; [exact Ha | exact Hs].
  - cbn [wfb] in H. apply andb_true_iff in H. destruct H as [_ H].
    destruct (c =? 115) eqn:E1; [apply N.eqb_eq in E1; subst c; split; [vm_compute; reflexivity | cbn; lia]|].
    destruct (c =? 111) eqn:E2; [apply N.eqb_eq in E2; subst c; split; [vm_compute; reflexivity | cbn; lia]|].
    destruct (c =? 103) eqn:E3; [apply N.eqb_eq in E3; subst c; split; [vm_compute; reflexivity | cbn; lia]|discriminate].
Qed.

(* encoding at an unaligned position = padding ++ encoding at the aligned position *)
Lemma enc_split le v depth pos : wfb le depth pos v = true ->
  enc le v pos = zeros (pad_amount pos (spec_align (ty_of_val v))) ++ enc le v (pos + pad_amount pos (spec_align (ty_of_val v))).
Proof.
  intros H. destruct (ty_alignment_spec le v depth pos H) as [_ Hal].
  destruct v as [c n|c s|et vs|fs|k x|t x]; cbn [ty_of_val spec_align] in *.
  - cbn [wfb] in H. apply andb_true_iff in H. destruct H as [_ H]. destruct (fixed_size c) as [sz|] eqn:Hsz; [|discriminate].
    rewrite !enc_num, Hsz. rewrite (pad_amount_aligned pos sz Hal). cbn [zeros repeat N.to_nat app]. reflexivity.
  - cbn [wfb] in H. apply andb_true_iff in H. destruct H as [_ H]. rewrite !enc_str.
    destruct (c =? 103) eqn:E3.
    + apply N.eqb_eq in E3. subst c. cbn [fixed_size N.eqb Pos.eqb orb]. change (pad_amount pos 1) with ((1 - pos mod 1) mod 1).
      replace ((1 - pos mod 1) mod 1) with 0 by (rewrite N.mod_1_r; reflexivity). reflexivity.
    + assert (Hc : c = 115 \/ c = 111).
      { destruct (N.eq_dec c 115) as [->|N1]; [left; reflexivity|]. destruct (N.eq_dec c 111) as [->|N2]; [right; reflexivity|].
        exfalso. replace (c =? 115) with false in H by lia. replace (c =? 111) with false in H by lia. discriminate. }
      replace (match fixed_size c with Some n => n | None => 4 end) with 4 in * by (destruct Hc as [-> | ->]; reflexivity).
      rewrite (pad_amount_aligned pos 4 ltac:(lia)). cbn [zeros repeat N.to_nat app]. reflexivity.
  - rewrite !enc_arr. cbv zeta. rewrite (pad_amount_aligned pos 4 ltac:(lia)). rewrite N.add_0_r. cbn [zeros repeat N.to_nat app]. reflexivity.
  - rewrite !enc_struct. rewrite (pad_amount_aligned pos 8 ltac:(lia)). rewrite N.add_0_r. cbn [zeros repeat N.to_nat app]. reflexivity.
  - rewrite !enc_dict. rewrite (pad_amount_aligned pos 8 ltac:(lia)). rewrite N.add_0_r. cbn [zeros repeat N.to_nat app]. reflexivity.
  - change (pad_amount pos 1) with ((1 - pos mod 1) mod 1). replace ((1 - pos mod 1) mod 1) with 0 by (rewrite N.mod_1_r; reflexivity).
    rewrite N.add_0_r. reflexivity.
Qed.

Ltac cur_eq := match goal with |- inl (curof ?a ?r) = inl (curof ?b ?r) => replace b with a; [reflexivity|] end.

Lemma vbs_encs le : forall vs, Forall (VB le) vs ->
  forall d depth pos rest, wfsb le vs depth pos = true -> forallb wire_ok vs = true -> (heights vs < d)%nat ->
    vbs le d (map ty_of_val vs) depth (curof pos (encs le vs pos ++ rest)) = inl (curof (pos + nlen (encs le vs pos)) rest).
Proof.
  induction 1 as [|x r Hx Hr IH]; intros d depth pos rest Hw Hk Hh.
  - cbn. rewrite N.add_0_r. reflexivity.
  - cbn [wfsb] in Hw. apply andb_true_iff in Hw. destruct Hw as [Hwx Hwr].
    cbn [forallb] in Hk. apply andb_true_iff in Hk. destruct Hk as [Hkx Hkr].
    rewrite heights_cons in Hh. cbn [map vbs encs]. rewrite <- app_assoc.
    rewrite (Hx d depth pos _ Hwx Hkx) by lia.
    rewrite (IH d depth _ rest Hwr Hkr) by lia. rewrite nlen_app. cur_eq. lia.
Qed.

Lemma vb_elems_encs le et : forall vs, Forall (VB le) vs ->
  forall d depth n pos rest array_end, wfsb le vs (depth + 1) pos = true -> forallb wire_ok vs = true ->
    forallb (fun x => ty_eqb (ty_of_val x) et) vs = true -> (maxdepth <? depth + 1) = false ->
    (heights vs < d)%nat -> (length vs < n)%nat -> array_end = pos + nlen (encs le vs pos) ->
    vb_elems le d et depth array_end n (curof pos (encs le vs pos ++ rest)) = inl (curof array_end rest).
Proof.
  induction 1 as [|x r Hx Hr IH]; intros d depth n pos rest array_end Hw Hk Ht Hd Hh Hn He.
  - destruct n as [|n]; [lia|]. cbn [vb_elems encs curof cpos app]. cbn [encs nlen length] in He.
    replace (pos <? array_end) with false by (unfold nlen in He; cbn in He; lia). subst array_end. cbn. rewrite N.add_0_r. reflexivity.
  - cbn [wfsb] in Hw. apply andb_true_iff in Hw. destruct Hw as [Hwx Hwr].
    cbn [forallb] in Hk. apply andb_true_iff in Hk. destruct Hk as [Hkx Hkr].
    cbn [forallb] in Ht. apply andb_true_iff in Ht. destruct Ht as [Htx Htr]. apply ty_eqb_eq in Htx.
    rewrite heights_cons in Hh. destruct n as [|n]; [lia|]. cbn [vb_elems encs]. cbn [curof cpos].
    pose proof (enc_nonempty le x _ _ Hwx) as Hne. cbn [encs] in He. rewrite nlen_app in He.
    replace (pos <? array_end) with true by lia. rewrite Hd. rewrite <- app_assoc. subst et.
    fold (curof pos (enc le x pos ++ encs le r (pos + nlen (enc le x pos)) ++ rest)).
    rewrite (Hx d (depth + 1) pos _ Hwx Hkx) by lia.
    apply (IH d depth n _ rest array_end Hwr Hkr Htr Hd); [lia | cbn [length] in Hn; lia | lia].
Qed.

Lemma read_len32_enc le pos v d : v < 4294967296 ->
  read_len32 le (curof pos (zeros (pad_amount pos 4) ++ bytes_of le 4 v ++ d)) = inl (v, curof (pos + pad_amount pos 4 + 4) d).
Proof.
  intros Hv. unfold read_len32. cbn [curof cpos crem]. rewrite (align_up_pad pos 4 ltac:(lia)).
  replace (pos + nlen (zeros (pad_amount pos 4) ++ bytes_of le 4 v ++ d) <? pos + pad_amount pos 4 + 4) with false
    by (rewrite !nlen_app, nlen_zeros, (bytes_of_length le 4); lia).
  fold (curof pos (zeros (pad_amount pos 4) ++ bytes_of le 4 v ++ d)).
  rewrite <- (align_up_pad pos 4 ltac:(lia)). rewrite (pad_to_zeros pos 4 _ ltac:(lia)).
  destruct (peek4_bytes (pos + pad_amount pos 4) le v d Hv) as (q & Hq & Hu). rewrite Hq, Hu.
  pose proof (advance_app (pos + pad_amount pos 4) (bytes_of le 4 v) d) as A. rewrite (bytes_of_length le 4) in A.
  change (N.of_nat 4) with 4 in A. rewrite A. rewrite ?(align_up_pad pos 4 ltac:(lia)). reflexivity.
Qed.

Lemma length_le_encs le : forall vs depth pos, wfsb le vs depth pos = true -> N.of_nat (length vs) <= nlen (encs le vs pos).
Proof.
  induction vs as [|x r IH]; intros depth pos H; [cbn; lia|].
  cbn [wfsb] in H. apply andb_true_iff in H. destruct H as [Hx Hr].
  pose proof (enc_nonempty le x _ _ Hx). specialize (IH _ _ Hr). cbn [encs length]. rewrite nlen_app. lia.
Qed.

Lemma wfsb_depth le x r depth pos : wfsb le (x :: r) depth pos = true -> (depth <=? max_value_depth) = true.
Proof.
  cbn [wfsb]. intros H. apply andb_true_iff in H. destruct H as [H _].
  destruct x; cbn [wfb] in H; apply andb_true_iff in H; destruct H as [H _]; exact H.
Qed.

(* well-formedness does not depend on the alignment padding in front of a value *)
Lemma wfb_split le v depth pos : wfb le depth (pos + pad_amount pos (spec_align (ty_of_val v))) v = wfb le depth pos v.
Proof.
  destruct v as [c n|c s|et vs|fs|k x|t x]; cbn [ty_of_val spec_align].
  - reflexivity.
  - reflexivity.
  - rewrite !wfb_arr. unfold arr_start. rewrite (pad_amount_aligned pos 4 ltac:(lia)). rewrite N.add_0_r. reflexivity.
  - rewrite !wfb_struct. rewrite (pad_amount_aligned pos 8 ltac:(lia)). rewrite N.add_0_r. reflexivity.
  - rewrite !wfb_dict. rewrite (pad_amount_aligned pos 8 ltac:(lia)). rewrite N.add_0_r. reflexivity.
  - change (pad_amount pos 1) with ((1 - pos mod 1) mod 1). replace ((1 - pos mod 1) mod 1) with 0 by (rewrite N.mod_1_r; reflexivity).
    rewrite N.add_0_r. reflexivity.
Qed.

(* ---- arrays of fixed-size elements: the validator's fast path ----------------------- *)
Lemma aligned_no_pad p a : (a = 1 \/ a = 2 \/ a = 4 \/ a = 8) -> p mod a = 0 -> pad_amount p a = 0.
Proof. intros [-> | [-> | [-> | -> ]]] H; unfold pad_amount; lia. Qed.

Lemma aligned_after_pad p a : (a = 1 \/ a = 2 \/ a = 4 \/ a = 8) -> (p + pad_amount p a) mod a = 0.
Proof. intros [-> | [-> | [-> | -> ]]]; unfold pad_amount; lia. Qed.

Lemma aligned_step p a : (a = 1 \/ a = 2 \/ a = 4 \/ a = 8) -> p mod a = 0 -> (p + a) mod a = 0.
Proof. intros [-> | [-> | [-> | -> ]]] H; lia. Qed.

(* all elements are numbers of the fixed-size code c *)
Fixpoint nums_of (vs : list val) : list N := match vs with VNum _ n :: r => n :: nums_of r | _ => [] end.

Lemma fixed_elems le c sz : fixed_size c = Some sz -> type_fixed c = true ->
  forall vs depth start, start mod sz = 0 -> wfsb le vs depth start = true ->
    forallb (fun x => ty_eqb (ty_of_val x) (TBasic c)) vs = true ->
    encs le vs start = flat_map (fun n => bytes_of le (N.to_nat sz) n) (nums_of vs) /\
    nlen (encs le vs start) = N.of_nat (length vs) * sz /\ length (nums_of vs) = length vs /\
    Forall (fun n => n < 256 ^ sz /\ (c = 98 -> n <= 1)) (nums_of vs).
Proof.
  intros Hsz Hfx. destruct (fixed_tables c sz Hsz) as (_ & _ & Hs).
  induction vs as [|x r IH]; intros depth start Hal Hw Ht.
  - cbn. repeat split; try lia; try constructor.
  - cbn [wfsb] in Hw. apply andb_true_iff in Hw. destruct Hw as [Hwx Hwr].
    cbn [forallb] in Ht. apply andb_true_iff in Ht. destruct Ht as [Htx Htr]. apply ty_eqb_eq in Htx.
    destruct x as [c' n|c' s0| | | | ]; cbn [ty_of_val] in Htx; try discriminate.
    + inversion Htx; subst c'. cbn [wfb] in Hwx. apply andb_true_iff in Hwx. destruct Hwx as [_ Hwx]. rewrite Hsz in Hwx.
      apply andb_true_iff in Hwx. destruct Hwx as [Hn Hb].
      assert (He : enc le (VNum c n) start = bytes_of le (N.to_nat sz) n).
      { rewrite enc_num, Hsz. rewrite (aligned_no_pad start sz Hs Hal). reflexivity. }
      assert (Hl : nlen (enc le (VNum c n) start) = sz) by (rewrite He, bytes_of_length; lia).
      rewrite Hl in Hwr.
      destruct (IH depth (start + sz) (aligned_step start sz Hs Hal) Hwr Htr) as (E1 & E2 & E3 & E4).
      cbn [encs nums_of flat_map length]. rewrite Hl, He, E1. repeat split.
      * rewrite nlen_app, bytes_of_length. rewrite <- E1, E2. lia.
      * lia.
      * constructor; [split; lia | exact E4].
    + (* a string-like value cannot have a fixed-size type code *)
      inversion Htx; subst c'. exfalso. cbn [wfb] in Hwx. apply andb_true_iff in Hwx. destruct Hwx as [_ Hwx].
      destruct (c =? 115) eqn:E1; [apply N.eqb_eq in E1; subst c; vm_compute in Hfx; discriminate|].
      destruct (c =? 111) eqn:E2; [apply N.eqb_eq in E2; subst c; vm_compute in Hfx; discriminate|].
      destruct (c =? 103) eqn:E3; [apply N.eqb_eq in E3; subst c; vm_compute in Hfx; discriminate|discriminate].
Qed.

Lemma bool_loop le : forall ns fuel p rest, Forall (fun n => n < 256 ^ 4 /\ (98 = 98 -> n <= 1)) ns -> (length ns < fuel)%nat ->
  bool_array_loop fuel le (curof p (flat_map (fun n => bytes_of le 4 n) ns ++ rest)) (p + N.of_nat (length ns) * 4)
  = inl (curof (p + N.of_nat (length ns) * 4) rest).
Proof.
  induction ns as [|n r IH]; intros fuel p rest HF Hf; destruct fuel as [|fuel]; try lia.
  - cbn [bool_array_loop flat_map app length curof cpos]. replace (p <? p + N.of_nat 0 * 4) with false by lia. f_equal. f_equal. lia.
  - inversion HF as [|? ? [Hn Hb] HF']; subst. cbn [bool_array_loop flat_map length]. cbn [curof cpos].
    replace (p <? p + N.of_nat (S (length r)) * 4) with true by lia. rewrite <- app_assoc.
    fold (curof p (bytes_of le 4 n ++ flat_map (fun n0 => bytes_of le 4 n0) r ++ rest)).
    destruct (peek4_bytes p le n (flat_map (fun n0 => bytes_of le 4 n0) r ++ rest)) as (q & Hq & Hu); [change (256 ^ 4) with 4294967296 in Hn; lia|].
    rewrite Hq, Hu. replace ((n =? 0) || (n =? 1)) with true by (specialize (Hb eq_refl); lia).
    pose proof (advance_app p (bytes_of le 4 n) (flat_map (fun n0 => bytes_of le 4 n0) r ++ rest)) as A.
    rewrite (bytes_of_length le 4) in A. change (N.of_nat 4) with 4 in A. rewrite A.
    specialize (IH fuel (p + 4) rest HF' ltac:(cbn [length] in Hf; lia)).
    replace (p + N.of_nat (S (length r)) * 4) with (p + 4 + N.of_nat (length r) * 4) by lia. exact IH.
Qed.

Lemma string_bytes_app (s d : bytes) : firstn (N.to_nat (nlen s)) (s ++ d) = s.
Proof. unfold nlen. rewrite Nat2N.id. rewrite firstn_app, Nat.sub_diag, firstn_all. cbn. apply app_nil_r. Qed.

Theorem vb_enc le : forall v, VB le v.
Proof.
  induction v as [c n|c s|et vs IH|fs IH|k x IHk IHx|t x IHx] using val_ind'; intros d depth pos rest Hw Hk Hh;
    pose proof (crem_nonzero le _ depth pos rest Hw) as Hnz; destruct d as [|d]; try lia.
  - (* fixed-size *)
    cbn [wfb] in Hw. apply andb_true_iff in Hw. destruct Hw as [Hd Hw].
    destruct (fixed_size c) as [sz|] eqn:Hsz; [|discriminate]. apply andb_true_iff in Hw. destruct Hw as [Hn Hb].
    destruct (fixed_tables c sz Hsz) as (Hfx & Hal & Hs). cbn [ty_of_val].
    rewrite enc_num, Hsz in *. rewrite <- app_assoc.
    destruct (N.eq_dec c 121) as [->|Hne].
    + (* byte *)
      assert (Hs1 : sz = 1) by (cbn in Hsz; congruence). rewrite Hs1 in *. clear Hs1.
      change (TBasic 121) with (TBasic DBUS_TYPE_BYTE). rewrite vb_byte by (rewrite app_assoc; exact Hnz).
      change (pad_amount pos 1) with ((1 - pos mod 1) mod 1). replace ((1 - pos mod 1) mod 1) with 0 by (rewrite N.mod_1_r; reflexivity).
      change (zeros 0) with (@nil N). cbn [app]. change (N.to_nat 1) with 1%nat.
      pose proof (advance_app pos (bytes_of le 1 n) rest) as A. rewrite (bytes_of_length le 1) in A. change (N.of_nat 1) with 1 in A. rewrite A.
      rewrite (bytes_of_length le 1). cur_eq. lia.
    + rewrite vb_fixed; [|rewrite app_assoc; exact Hnz|change DBUS_TYPE_BYTE with 121; lia|exact Hfx].
      cbv zeta. rewrite Hal. cbn [curof cpos crem].
      rewrite (align_up_pad pos sz Hs).
      replace (pos + nlen (zeros (pad_amount pos sz) ++ bytes_of le (N.to_nat sz) n ++ rest) <=? pos + pad_amount pos sz) with false
        by (rewrite !nlen_app, nlen_zeros, bytes_of_length; lia).
      fold (curof pos (zeros (pad_amount pos sz) ++ bytes_of le (N.to_nat sz) n ++ rest)).
      rewrite <- (align_up_pad pos sz Hs). rewrite (pad_to_zeros pos sz _ Hs).
      assert (Hadv : advance (curof (pos + pad_amount pos sz) (bytes_of le (N.to_nat sz) n ++ rest)) sz = curof (pos + pad_amount pos sz + sz) rest).
      { pose proof (advance_app (pos + pad_amount pos sz) (bytes_of le (N.to_nat sz) n) rest) as A. rewrite bytes_of_length, N2Nat.id in A. exact A. }
      assert (Hrem : (crem (curof (pos + pad_amount pos sz) (bytes_of le (N.to_nat sz) n ++ rest)) <? sz) = false).
      { cbn [curof crem]. rewrite nlen_app, bytes_of_length. lia. }
      destruct (c =? DBUS_TYPE_BOOLEAN) eqn:Eb.
      * change DBUS_TYPE_BOOLEAN with 98 in Eb. apply N.eqb_eq in Eb. subst c. assert (Hs4 : sz = 4) by (cbn in Hsz; congruence). rewrite Hs4 in *. clear Hs4.
        rewrite Hrem. change (N.to_nat 4) with 4%nat.
        destruct (peek4_bytes (pos + pad_amount pos 4) le n rest) as (q & Hq & Hu); [lia|].
        rewrite Hq. cbv zeta. rewrite Hu. replace ((n =? 0) || (n =? 1)) with true by lia.
        change (N.to_nat 4) with 4%nat in Hadv. rewrite Hadv.
        rewrite nlen_app, nlen_zeros, (bytes_of_length le 4). cur_eq. lia.
      * rewrite Hrem, Hadv. rewrite nlen_app, nlen_zeros, bytes_of_length. cur_eq. lia.
  - (* string-like *)
    cbn [wfb] in Hw. apply andb_true_iff in Hw. destruct Hw as [Hd Hw].
    cbn [wire_ok] in Hk. apply andb_true_iff in Hk. destruct Hk as [Hbytes Hsigok].
    cbn [ty_of_val]. rewrite enc_str in *.
    destruct (c =? 115) eqn:E115; [|destruct (c =? 111) eqn:E111; [|destruct (c =? 103) eqn:E103; [|discriminate]]].
    + (* string *)
      apply N.eqb_eq in E115. subst c. apply andb_true_iff in Hw. destruct Hw as [Hv Hl].
      change (115 =? 103) with false in *. cbv iota in *. rewrite <- !app_assoc in *.
      rewrite vb_string; [|exact Hnz|reflexivity|reflexivity|reflexivity].
      rewrite read_len32_enc by lia. cbn [curof crem cdat].
      replace (nlen (s ++ [0] ++ rest) <? nlen s) with false by (rewrite nlen_app; lia).
      cbv zeta. rewrite string_bytes_app. change (115 =? DBUS_TYPE_OBJECT_PATH) with false. cbv iota.
      rewrite (utf8_correct s Hbytes), Hv.
      fold (curof (pos + pad_amount pos 4 + 4) (s ++ [0] ++ rest)). rewrite advance_app. cbn [curof crem app].
      change (nlen (0 :: rest) =? 0) with (N.of_nat (S (length rest)) =? 0). replace (N.of_nat (S (length rest)) =? 0) with false by lia.
      fold (curof (pos + pad_amount pos 4 + 4 + nlen s) (0 :: rest)). rewrite take1_cons. cbn [N.eqb].
      rewrite !nlen_app, nlen_zeros, (bytes_of_length le 4). change (nlen [0]) with 1. cur_eq. lia.
    + (* object path *)
      apply N.eqb_eq in E111. subst c. apply andb_true_iff in Hw. destruct Hw as [Hv Hl].
      change (111 =? 103) with false in *. cbv iota in *. rewrite <- !app_assoc in *.
      rewrite vb_string; [|exact Hnz|reflexivity|reflexivity|reflexivity].
      rewrite read_len32_enc by lia. cbn [curof crem cdat].
      replace (nlen (s ++ [0] ++ rest) <? nlen s) with false by (rewrite nlen_app; lia).
      cbv zeta. rewrite string_bytes_app. change (111 =? DBUS_TYPE_OBJECT_PATH) with true. cbv iota.
      rewrite (path_correct s), Hv.
      fold (curof (pos + pad_amount pos 4 + 4) (s ++ [0] ++ rest)). rewrite advance_app. cbn [curof crem app].
      change (nlen (0 :: rest) =? 0) with (N.of_nat (S (length rest)) =? 0). replace (N.of_nat (S (length rest)) =? 0) with false by lia.
      fold (curof (pos + pad_amount pos 4 + 4 + nlen s) (0 :: rest)). rewrite take1_cons. cbn [N.eqb].
      rewrite !nlen_app, nlen_zeros, (bytes_of_length le 4). change (nlen [0]) with 1. cur_eq. lia.
    + (* signature *)
      apply N.eqb_eq in E103. subst c. change (103 =? 103) with true in *. cbv iota in *. cbn [negb orb] in Hsigok.
      change (TBasic 103) with (TBasic DBUS_TYPE_SIGNATURE). rewrite vb_signature by exact Hnz.
      cbn [app]. rewrite take1_cons. cbn [curof crem cdat]. rewrite <- app_assoc.
      replace (nlen (s ++ [0] ++ rest) <? nlen s + 1) with false by (rewrite nlen_app; change (nlen ([0] ++ rest)) with (N.of_nat (S (length rest))); lia).
      cbv zeta. rewrite string_bytes_app.
      unfold validate_signature in Hsigok. rewrite Hsigok. cbn [negb].
      fold (curof (pos + 1) (s ++ [0] ++ rest)). rewrite advance_app. cbn [app]. rewrite take1_cons. cbn [N.eqb].
      rewrite nlen_cons, nlen_app. change (nlen [0]) with 1. cur_eq. lia.
  - (* array *)
    rewrite wfb_arr in Hw. apply andb_true_iff in Hw. destruct Hw as [Hd Hw].
    apply andb_true_iff in Hw. destruct Hw as [Hw Hws]. apply andb_true_iff in Hw. destruct Hw as [Hty Hsz].
    cbn [wire_ok] in Hk. apply andb_true_iff in Hk. destruct Hk as [Hk Hkall].
    apply andb_true_iff in Hk. destruct Hk as [Hal1 Hal2]. apply N.eqb_eq in Hal1.
    assert (Hal : spec_align et = 1 \/ spec_align et = 2 \/ spec_align et = 4 \/ spec_align et = 8) by lia.
    cbn [ty_of_val]. rewrite vb_array by exact Hnz. rewrite enc_arr in *. cbv zeta in *. fold (arr_start pos et) in *.
    set (payload := encs le vs (arr_start pos et)) in *. unfold max_array in Hsz.
    rewrite <- !app_assoc. rewrite read_len32_enc by lia.
    cbv zeta. rewrite Hal1. cbn [curof cpos crem].
    rewrite (align_up_pad _ _ Hal).
    replace (pos + pad_amount pos 4 + 4 + nlen (zeros (pad_amount (pos + pad_amount pos 4 + 4) (spec_align et)) ++ payload ++ rest)
             <? pos + pad_amount pos 4 + 4 + pad_amount (pos + pad_amount pos 4 + 4) (spec_align et)) with false
      by (rewrite nlen_app, nlen_zeros; lia).
    fold (curof (pos + pad_amount pos 4 + 4) (zeros (pad_amount (pos + pad_amount pos 4 + 4) (spec_align et)) ++ payload ++ rest)).
    rewrite <- (align_up_pad _ _ Hal). rewrite (pad_to_zeros _ _ _ Hal).
    change (pos + pad_amount pos 4 + 4 + pad_amount (pos + pad_amount pos 4 + 4) (spec_align et)) with (arr_start pos et).
    cbn [curof crem cpos].
    replace (nlen (payload ++ rest) <? nlen payload) with false by (rewrite nlen_app; lia).
    destruct vs as [|v0 vs'].
    + (* empty array *)
      subst payload. cbn [encs nlen length N.of_nat N.eqb app]. rewrite !nlen_app, !nlen_zeros, (bytes_of_length le 4). cur_eq. unfold arr_start. rewrite nlen_nil. lia.
    + pose proof (wfsb_depth le _ _ _ _ Hws) as Hd1.
      assert (Hmd : (maxdepth <? depth + 1) = false).
      { unfold max_value_depth in Hd1. unfold maxdepth. change (DBUS_MAXIMUM_TYPE_RECURSION_DEPTH * 2) with 64. lia. }
      pose proof (length_le_encs le _ _ _ Hws) as Hlen. fold payload in Hlen.
      assert (Hpne : 0 < nlen payload).
      { cbn [wfsb] in Hws. apply andb_true_iff in Hws. destruct Hws as [Hw0 _]. pose proof (enc_nonempty le v0 _ _ Hw0). subst payload. cbn [encs]. rewrite nlen_app. lia. }
      replace (nlen payload =? 0) with false by lia.
      replace (DBUS_MAXIMUM_ARRAY_LENGTH <? nlen payload) with false by (change DBUS_MAXIMUM_ARRAY_LENGTH with 67108864; lia).
      destruct (ty_is_fixed et) eqn:Hfixed.
      { (* fast path: fixed-size elements *)
        destruct et as [c| | | | ]; cbn [ty_is_fixed] in Hfixed; try discriminate.
        assert (Hw0 : wfb le (depth + 1) (arr_start pos (TBasic c)) v0 = true).
        { cbn [wfsb] in Hws. apply andb_true_iff in Hws. destruct Hws as [Hw0 _]. exact Hw0. }
        assert (Ht0 : ty_of_val v0 = TBasic c).
        { cbn [forallb] in Hty. apply andb_true_iff in Hty. destruct Hty as [Ht0 _]. apply ty_eqb_eq in Ht0. exact Ht0. }
        assert (Hfsz : exists sz, fixed_size c = Some sz).
        { destruct v0 as [c' n|c' s0| | | | ]; cbn [ty_of_val] in Ht0; try discriminate; inversion Ht0; subst c'.
          - cbn [wfb] in Hw0. apply andb_true_iff in Hw0. destruct Hw0 as [_ Hw0]. destruct (fixed_size c) as [sz|]; [eexists; reflexivity|discriminate].
          - exfalso. cbn [wfb] in Hw0. apply andb_true_iff in Hw0. destruct Hw0 as [_ Hw0].
            destruct (c =? 115) eqn:E1; [apply N.eqb_eq in E1; subst c; vm_compute in Hfixed; discriminate|].
            destruct (c =? 111) eqn:E2; [apply N.eqb_eq in E2; subst c; vm_compute in Hfixed; discriminate|].
            destruct (c =? 103) eqn:E3; [apply N.eqb_eq in E3; subst c; vm_compute in Hfixed; discriminate|discriminate]. }
        destruct Hfsz as [sz Hfsz]. destruct (fixed_tables c sz Hfsz) as (_ & Hta & Hs).
        assert (Hsa : spec_align (TBasic c) = sz) by (cbn [spec_align]; rewrite Hfsz; reflexivity).
        assert (Hstart : arr_start pos (TBasic c) mod sz = 0).
        { unfold arr_start. rewrite Hsa. apply aligned_after_pad. exact Hs. }
        destruct (fixed_elems le c sz Hfsz Hfixed (v0 :: vs') (depth + 1) _ Hstart Hws Hty) as (E1 & E2 & E3 & E4).
        subst payload. rewrite Hsa at 1.
        replace (negb (nlen (encs le (v0 :: vs') (arr_start pos (TBasic c))) mod sz =? 0)) with false
          by (rewrite E2; destruct Hs as [-> | [-> | [-> | -> ]]]; lia).
        destruct (c =? DBUS_TYPE_BOOLEAN) eqn:Eb.
        - change DBUS_TYPE_BOOLEAN with 98 in Eb. apply N.eqb_eq in Eb. subst c.
          assert (sz = 4) by (cbn in Hfsz; congruence). subst sz.
          rewrite E1 at 2. change (N.to_nat 4) with 4%nat.
          rewrite E2. rewrite <- E3.
          rewrite (bool_loop le (nums_of (v0 :: vs')) _ (arr_start pos (TBasic 98)) rest E4) by (rewrite E3; lia).
          cbn [curof cpos]. rewrite N.eqb_refl.
          rewrite !nlen_app, !nlen_zeros, (bytes_of_length le 4). rewrite E2, E3. cur_eq. unfold arr_start. rewrite ?Hsa. lia.
        - rewrite advance_app. cbn [curof cpos]. rewrite N.eqb_refl.
          rewrite !nlen_app, !nlen_zeros, (bytes_of_length le 4). cur_eq. unfold arr_start. rewrite ?Hsa. lia. }
      cbn [height] in Hh. fold (heights (v0 :: vs')) in Hh.
      subst payload.
      rewrite (vb_elems_encs le et (v0 :: vs') IH d depth (S (N.to_nat (nlen (encs le (v0 :: vs') (arr_start pos et))))) (arr_start pos et) rest
                 (arr_start pos et + nlen (encs le (v0 :: vs') (arr_start pos et))) Hws Hkall Hty Hmd); [|lia|lia|reflexivity].
      cbn [curof cpos]. rewrite N.eqb_refl.
      rewrite !nlen_app, !nlen_zeros, (bytes_of_length le 4). cur_eq. unfold arr_start. lia.
  - (* struct *)
    rewrite wfb_struct in Hw. apply andb_true_iff in Hw. destruct Hw as [Hd Hw]. apply andb_true_iff in Hw. destruct Hw as [Hne Hws].
    cbn [wire_ok] in Hk. cbn [ty_of_val]. rewrite vb_struct by exact Hnz. rewrite enc_struct in *. cbv zeta.
    cbn [curof cpos crem]. rewrite (align_up_pad pos 8 ltac:(lia)). rewrite <- app_assoc.
    replace (pos + nlen (zeros (pad_amount pos 8) ++ encs le fs (pos + pad_amount pos 8) ++ rest) <? pos + pad_amount pos 8) with false
      by (rewrite nlen_app, nlen_zeros; lia).
    fold (curof pos (zeros (pad_amount pos 8) ++ encs le fs (pos + pad_amount pos 8) ++ rest)).
    rewrite <- (align_up_pad pos 8 ltac:(lia)). rewrite (pad_to_zeros pos 8 _ ltac:(lia)). rewrite !(align_up_pad pos 8 ltac:(lia)).
    assert (Hd1 : (depth + 1 <=? max_value_depth) = true) by (destruct fs; [discriminate | eapply wfsb_depth; exact Hws]).
    replace (maxdepth <? depth + 1) with false
      by (unfold max_value_depth in Hd1; unfold maxdepth; change (DBUS_MAXIMUM_TYPE_RECURSION_DEPTH * 2) with 64; lia).
    cbn [height] in Hh. fold (heights fs) in Hh.
    rewrite (vbs_encs le fs IH d (depth + 1) _ rest Hws Hk) by lia.
    rewrite nlen_app, nlen_zeros. cur_eq. lia.
  - (* dict entry *)
    rewrite wfb_dict in Hw. apply andb_true_iff in Hw. destruct Hw as [Hd Hw]. apply andb_true_iff in Hw. destruct Hw as [Hkb Hws].
    cbn [wire_ok] in Hk. apply andb_true_iff in Hk. destruct Hk as [Hk1 Hk2].
    cbn [ty_of_val]. rewrite vb_dict by exact Hnz. rewrite enc_dict in *. cbv zeta.
    cbn [curof cpos crem]. rewrite (align_up_pad pos 8 ltac:(lia)). rewrite <- app_assoc.
    replace (pos + nlen (zeros (pad_amount pos 8) ++ encs le [k; x] (pos + pad_amount pos 8) ++ rest) <? pos + pad_amount pos 8) with false
      by (rewrite nlen_app, nlen_zeros; lia).
    fold (curof pos (zeros (pad_amount pos 8) ++ encs le [k; x] (pos + pad_amount pos 8) ++ rest)).
    rewrite <- (align_up_pad pos 8 ltac:(lia)). rewrite (pad_to_zeros pos 8 _ ltac:(lia)). rewrite !(align_up_pad pos 8 ltac:(lia)).
    pose proof (wfsb_depth le _ _ _ _ Hws) as Hd1.
    replace (maxdepth <? depth + 1) with false
      by (unfold max_value_depth in Hd1; unfold maxdepth; change (DBUS_MAXIMUM_TYPE_RECURSION_DEPTH * 2) with 64; lia).
    assert (Hkt : TBasic (match k with VNum c _ => c | VStr c _ => c | _ => 0 end) = ty_of_val k) by (destruct k; try discriminate; reflexivity).
    rewrite Hkt. change [ty_of_val k; ty_of_val x] with (map ty_of_val [k; x]).
    cbn [height] in Hh.
    rewrite (vbs_encs le [k; x] (Forall_cons k IHk (Forall_cons x IHx (Forall_nil _))) d (depth + 1) _ rest Hws)
      by (cbn [forallb heights fold_right]; (rewrite Hk1, Hk2; reflexivity) || lia).
    rewrite nlen_app, nlen_zeros. cur_eq. lia.
  - (* variant *)
    cbn [wfb] in Hw. apply andb_true_iff in Hw. destruct Hw as [Hd Hw].
    apply andb_true_iff in Hw. destruct Hw as [Hw Hwx]. apply andb_true_iff in Hw. destruct Hw as [Hty Hsig].
    apply ty_eqb_eq in Hty.
    unfold sig_roundtrips in Hsig. apply andb_true_iff in Hsig. destruct Hsig as [Hsig Hparse].
    destruct (parse_sig (print_ty t)) as [[|t' [|? ?]]|] eqn:Hp; try discriminate. apply ty_eqb_eq in Hparse. subst t'.
    cbn [wire_ok] in Hk. apply andb_true_iff in Hk. destruct Hk as [Hvs Hkx].
    cbn [ty_of_val]. rewrite vb_variant by exact Hnz. rewrite enc_var in *. cbv zeta in *.
    cbn [app]. rewrite take1_cons. cbn [curof crem cdat]. rewrite <- !app_assoc.
    replace (nlen (print_ty t ++ [0] ++ enc le x (pos + nlen (nlen (print_ty t) :: print_ty t ++ [0])) ++ rest) <? nlen (print_ty t) + 1) with false
      by (unfold nlen; rewrite !app_length; cbn [length]; lia).
    rewrite string_bytes_app. unfold validate_signature in Hvs. rewrite Hvs. cbn [negb].
    fold (curof (pos + 1) (print_ty t ++ [0] ++ enc le x (pos + nlen (nlen (print_ty t) :: print_ty t ++ [0])) ++ rest)).
    rewrite advance_app. cbn [app]. rewrite take1_cons. cbn [N.eqb negb]. rewrite Hp.
    assert (Hp0 : pos + 1 + nlen (print_ty t) + 1 = pos + nlen (nlen (print_ty t) :: print_ty t ++ [0])).
    { rewrite nlen_cons, nlen_app. change (nlen [0]) with 1. lia. }
    rewrite Hp0. set (p0 := pos + nlen (nlen (print_ty t) :: print_ty t ++ [0])) in *.
    assert (Hwx0 : wfb le (depth + 1) p0 x = true).
    { replace p0 with (pos + (nlen (print_ty t) + 2)); [exact Hwx|]. subst p0. rewrite nlen_cons, nlen_app. change (nlen [0]) with 1. lia. }
    destruct (ty_alignment_spec le x _ _ Hwx0) as [Hta Hal]. rewrite Hty in Hta, Hal.
    rewrite Hta. cbn [curof cpos crem].
    rewrite (enc_split le x _ _ Hwx0). rewrite Hty. rewrite <- app_assoc.
    rewrite (align_up_pad p0 _ Hal).
    replace (p0 + nlen (zeros (pad_amount p0 (spec_align t)) ++ enc le x (p0 + pad_amount p0 (spec_align t)) ++ rest) <? p0 + pad_amount p0 (spec_align t)) with false
      by (rewrite nlen_app, nlen_zeros; lia).
    fold (curof p0 (zeros (pad_amount p0 (spec_align t)) ++ enc le x (p0 + pad_amount p0 (spec_align t)) ++ rest)).
    rewrite <- (align_up_pad p0 _ Hal). rewrite (pad_to_zeros p0 _ _ Hal). rewrite !(align_up_pad p0 _ Hal).
    assert (Hwx1 : wfb le (depth + 1) (p0 + pad_amount p0 (spec_align t)) x = true).
    { rewrite <- Hty. rewrite wfb_split. exact Hwx0. }
    assert (Hd1 : (depth + 1 <=? max_value_depth) = true).
    { destruct x; cbn [wfb] in Hwx0; apply andb_true_iff in Hwx0; destruct Hwx0 as [H0 _]; exact H0. }
    replace (maxdepth <? depth + 1) with false
      by (unfold max_value_depth in Hd1; unfold maxdepth; change (DBUS_MAXIMUM_TYPE_RECURSION_DEPTH * 2) with 64; lia).
    cbn [height] in Hh. rewrite <- Hty at 1.
    rewrite (IHx d (depth + 1) _ rest Hwx1 Hkx) by lia.
    cur_eq. subst p0. unfold nlen, zeros. cbn [length]. rewrite !app_length. cbn [length]. rewrite !app_length, repeat_length. cbn [length]. lia.
Qed.

(* the body validator accepts the canonical encoding of every well-formed body, exactly *)
Theorem validate_body_complete le : forall vs, wfsb le vs 0 0 = true -> forallb wire_ok vs = true ->
  validate_body le (map ty_of_val vs) (encs le vs 0) = V_VALID.
Proof.
  intros vs Hw Hk. unfold validate_body.
  assert (H : forall vs pos rest, wfsb le vs 0 pos = true -> forallb wire_ok vs = true ->
               vb_seq le (map ty_of_val vs) 0 (curof pos (encs le vs pos ++ rest)) = inl (curof (pos + nlen (encs le vs pos)) rest)).
  { clear. induction vs as [|x r IH]; intros pos rest Hw Hk.
    - cbn. rewrite N.add_0_r. reflexivity.
    - cbn [wfsb] in Hw. apply andb_true_iff in Hw. destruct Hw as [Hwx Hwr].
      cbn [forallb] in Hk. apply andb_true_iff in Hk. destruct Hk as [Hkx Hkr].
      cbn [map vb_seq encs]. rewrite <- app_assoc.
      pose proof (wfb_height le x 0 pos Hwx) as Hh.
      rewrite (vb_enc le x DEPTH_FUEL 0 pos _ Hwx Hkx) by (unfold DEPTH_FUEL; lia).
      rewrite (IH _ rest Hwr Hkr). rewrite nlen_app. cur_eq. lia. }
  specialize (H vs 0 [] Hw Hk). rewrite app_nil_r in H. unfold cur_of. fold (curof 0 (encs le vs 0)). rewrite H.
  cbn [curof crem]. reflexivity.
Qed.
