(* C17: the schedules on which the faithful model breaks the literal property
   (each is replayed on the real library by tools/props/c17.py). *)
From Coq Require Import List NArith Bool Lia.
Import ListNotations.
From DV Require Import PendingCall.Pending Spec.PendingSpec.
Local Open Scope N_scope.

(* F17.2: send, cancel, the reply arrives, block: the cancelled call is completed and notified *)
Definition w_cancel_h1 : list event := [ESend true true].
Definition w_cancel_h2 : list event := [EPeerReply PReturn 0 1; ERead; EBlock 0; EFinish 0].

Lemma cancel_silent_refuted : ~ C17_cancel_silent_full_statement.
Proof.
  intros H. specialize (H 1 w_cancel_h1 w_cancel_h2 0%nat).
  assert (V : valid_base 1) by (unfold valid_base, two32; lia).
  assert (A : (0 < length (call_serials (trace_at 1 w_cancel_h1)))%nat) by (vm_compute; lia).
  assert (B : count_complete 0 (trace_at 1 w_cancel_h1) = 0%nat) by (vm_compute; reflexivity).
  specialize (H V A B). vm_compute in H. destruct H as [H _]. discriminate.
Qed.

(* F17.3: send, the timeout fires, cancel, dispatch (the error goes to the filters), block: NULL timeout_link *)
Definition w_fault : list event := [ESend true true; EFire 0; ECancel 0; EDispatch; EBlock 0].

Lemma no_fault_refuted : ~ C17_no_fault_full_statement.
Proof.
  intros H. assert (V : valid_base 1) by (unfold valid_base, two32; lia).
  specialize (H 1 w_fault V). vm_compute in H. discriminate.
Qed.

Lemma fault_witness_is_null_link : fault (fst (run init w_fault)) = 1.
Proof. vm_compute. reflexivity. Qed.

(* F17.1: send, the peer closes, read (EOF), dispatch for ever: the call never completes *)
Lemma run1_app st a b : run1 st (a ++ b) = let '(s1, o1) := run1 st a in let '(s2, o2) := run1 s1 b in (s2, o1 ++ o2).
Proof.
  revert st; induction a as [|e a IH]; intros st; simpl.
  - destruct (run1 st b); reflexivity.
  - destruct (step1 st e) as [s1 o1]. rewrite IH. destruct (run1 s1 a) as [s2 o2]. destruct (run1 s2 b) as [s3 o3].
    rewrite app_assoc. reflexivity.
Qed.

Definition w_close : list event := [ESend true true; EPeerClose].
Definition w_close_dead : state := fst (run1 init (w_close ++ [ERead; EDispatch; EDispatch])).

Lemma w_close_dead_fix : step1 w_close_dead EDispatch = (w_close_dead, [ODispatch false]).
Proof. vm_compute. reflexivity. Qed.

Lemma run1_cons st e r : run1 st (e :: r) = let '(st1, o1) := step1 st e in let '(st2, o2) := run1 st1 r in (st2, o1 ++ o2).
Proof. reflexivity. Qed.

Lemma w_close_dead_run k : run1 w_close_dead (repeat EDispatch k) = (w_close_dead, repeat (ODispatch false) k).
Proof.
  induction k as [|k IH]; [reflexivity|].
  cbn [repeat]. rewrite run1_cons, w_close_dead_fix, IH. reflexivity.
Qed.

Lemma count_complete_repeat i k : count_complete i (repeat (ODispatch false) k) = 0%nat.
Proof. induction k; simpl; auto. Qed.

Lemma w_close_never k : count_complete 0 (trace1 (settled w_close k)) = 0%nat.
Proof.
  destruct k as [|[|k]]; [vm_compute; reflexivity|vm_compute; reflexivity|].
  unfold trace1, trace1_at, settled. change (init_at 1) with init.
  change (w_close ++ ERead :: repeat EDispatch (S (S k))) with ((w_close ++ [ERead; EDispatch; EDispatch]) ++ repeat EDispatch k).
  rewrite run1_app. fold w_close_dead.
  destruct (run1 init (w_close ++ [ERead; EDispatch; EDispatch])) as [s1 o1] eqn:E.
  assert (Hs : s1 = w_close_dead) by (unfold w_close_dead; rewrite E; reflexivity).
  assert (Ho : count_complete 0 o1 = 0%nat) by (replace o1 with (snd (run1 init (w_close ++ [ERead; EDispatch; EDispatch]))) by (rewrite E; reflexivity); vm_compute; reflexivity).
  subst s1. rewrite w_close_dead_run. simpl.
  unfold count_complete in *. rewrite filter_app, app_length, Ho. apply count_complete_repeat.
Qed.

Lemma close_completes_refuted : ~ C17_close_completes_full_statement.
Proof.
  intros H. specialize (H 1 w_close).
  assert (V : valid_base 1) by (unfold valid_base, two32; lia). specialize (H V).
  assert (A : nowrap_at 1 w_close) by (vm_compute; reflexivity).
  assert (B : closes w_close) by (left; simpl; auto).
  assert (C : (0 < length (call_serials (trace1_at 1 w_close)))%nat) by (vm_compute; lia).
  assert (D : ~ In (ECancel 0) w_close) by (simpl; intros [H1|[H1|[]]]; discriminate).
  destruct (H A B 0%nat C D) as [k Hk]. change (trace1_at 1 (settled w_close k)) with (trace1 (settled w_close k)) in Hk. rewrite w_close_never in Hk. discriminate.
Qed.
