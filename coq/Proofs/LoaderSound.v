(* Soundness of the loader model (Wire/Message.v) against the specification
   codec: a message that [load_message] accepts (framed by [have_message]) is,
   byte for byte, the specification encoding of an abstract message [m]; and
   [m] is well formed (wf_msg, hence decoded back by spec_decode_message)
   unless it falls in one of the recorded deviation classes, which
   [msg_strict] excludes:
     F2    DESTINATION / SENDER is a degenerate unique name (":", ":a", ":.a");
     F11   a signature (body signature, SIGNATURE value, variant) nests more
           than 32 arrays;
     FD65  a non-empty array of fixed-size elements at nesting depth 64.
   The statement without the exclusion is refuted on the recorded F2 witness. *)
From DV Require Import Lib.Base Gen.Tables Wire.Body Wire.Message Wire.Utf8 Spec.Codec Spec.NamesSpec Spec.Utf8Spec Wire.HeaderEdit
  Proofs.CodecBasics Proofs.CodecWf Proofs.CodecRoundtrip Proofs.CodecMessage Proofs.BodyCursor Proofs.BodyVbEq Proofs.BodyComplete
  Proofs.BodyLocal Proofs.NamesProofs Proofs.Utf8Proofs Proofs.SigRoundtrip Proofs.SigAutomaton Proofs.LoaderProofs Proofs.LoaderComplete
  Proofs.BodySound.
From Coq Require Import ZArith ZifyBool ZifyN ZifyNat Arith.
Local Open Scope N_scope.
Ltac Zify.zify_post_hook ::= Z.div_mod_to_equations.

(* ---- A. one header field: model validator => specification predicates ------------------- *)
(* F2: a unique name in DESTINATION / SENDER must be one the specification accepts *)
Definition name_strict (f : sfield) : bool :=
  if (sf_code f =? 6) || (sf_code f =? 7) then
    match sf_val f with VStr _ (58 :: r) => spec_bus_name (58 :: r) | _ => true end
  else true.

Lemma bus_name_sound s : validate_bus_name s = true -> match s with 58 :: r => spec_bus_name (58 :: r) | _ => true end = true ->
  spec_bus_name s = true.
Proof.
  intros Hv Hn. destruct s as [|c r].
  - rewrite <- wellknown_correct by exact I. exact Hv.
  - destruct (N.eq_dec c 58) as [->|Hne]; [exact Hn|].
    rewrite <- wellknown_correct; [exact Hv|]. destruct c as [|q]; [exact I|].
    do 6 (destruct q as [q|q|]; try exact I). congruence.
Qed.

Lemma first_type_basic t e : (e = 111 \/ e = 115 \/ e = 117 \/ e = 103) -> first_type (print_ty t) = e -> t = TBasic e.
Proof.
  intros He H. destruct t as [c| |t'|ts|k v]; cbn [print_ty first_type] in H.
  - change DBUS_STRUCT_BEGIN_CHAR with 40 in H. change DBUS_DICT_ENTRY_BEGIN_CHAR with 123 in H.
    change DBUS_TYPE_STRUCT with 114 in H. change DBUS_TYPE_DICT_ENTRY with 101 in H.
    destruct (c =? 40); [lia|]. destruct (c =? 123); [lia|]. congruence.
  - vm_compute in H. lia.
  - vm_compute in H. lia.
  - vm_compute in H. lia.
  - vm_compute in H. lia.
Qed.

Lemma expected_cases c : (c = 1 \/ c = 2 \/ c = 3 \/ c = 4 \/ c = 5 \/ c = 6 \/ c = 7 \/ c = 8 \/ c = 9 \/ c = 10) ->
  field_ty c = Some (TBasic (expected_type c)) /\
  (expected_type c = 111 \/ expected_type c = 115 \/ expected_type c = 117 \/ expected_type c = 103).
Proof.
  intros [-> | [-> | [-> | [-> | [-> | [-> | [-> | [-> | [-> | ->]]]]]]]]]; (split; [vm_compute; reflexivity | vm_compute; intuition congruence]).
Qed.

Lemma local_check_true le (L s : bytes) : nlen s < 4294967296 ->
  (u32_at le (bytes_of le 4 (nlen s) ++ s ++ [0]) 0 =? nlen L) && is_prefix L (skipn 4 (bytes_of le 4 (nlen s) ++ s ++ [0])) = false -> s <> L.
Proof.
  intros Hl H E. subst s. rewrite u32_raw in H by exact Hl. rewrite skipn4_raw in H. rewrite N.eqb_refl in H. cbn [andb] in H.
  assert (P : forall (a b : bytes), is_prefix a (a ++ b) = true).
  { induction a as [|x a IH]; intros b; [reflexivity|]. cbn [app is_prefix]. rewrite N.eqb_refl. apply IH. }
  rewrite P in H. discriminate.
Qed.

Ltac vfs_start H Hc Hs Hseen :=
  unfold validate_field in H; rewrite Hc, Hs in H; cbn [print_ty] in H;
  match type of H with context[negb (first_type ?s =? expected_type ?c)] =>
    replace (negb (first_type s =? expected_type c)) with false in H by (vm_compute; reflexivity) end;
  rewrite Hseen in H;
  cbv [DBUS_HEADER_FIELD_DESTINATION DBUS_HEADER_FIELD_INTERFACE DBUS_HEADER_FIELD_MEMBER DBUS_HEADER_FIELD_ERROR_NAME
       DBUS_HEADER_FIELD_SENDER DBUS_HEADER_FIELD_PATH DBUS_HEADER_FIELD_REPLY_SERIAL] in H;
  cbn [N.eqb Pos.eqb] in H.

Ltac bad H := exfalso; vm_compute in H; discriminate H.

Lemma validate_field_sound le seen f h : hf_ok le f h ->
  (sf_code f = 1 \/ sf_code f = 2 \/ sf_code f = 3 \/ sf_code f = 4 \/ sf_code f = 5 \/ sf_code f = 6 \/ sf_code f = 7 \/
   sf_code f = 8 \/ sf_code f = 9 \/ sf_code f = 10) ->
  name_strict f = true -> validate_field le seen h = V_VALID ->
  sf_ty f = TBasic (expected_type (sf_code f)) /\ existsb (N.eqb (sf_code f)) seen = false /\ field_content_ok f = true.
Proof.
  intros (Hc & Hs & Hty & Hlt & p & Hpad & Hwf & Hv) Hcases Hname H.
  destruct (expected_cases _ Hcases) as [_ He].
  (* the type check and the duplicate check *)
  assert (H1 : first_type (f_sig h) = expected_type (f_code h) /\ existsb (N.eqb (f_code h)) seen = false).
  { unfold validate_field in H. destruct (first_type (f_sig h) =? expected_type (f_code h)) eqn:E1; cbn [negb] in H; [|bad H].
    destruct (existsb (N.eqb (f_code h)) seen); [bad H|]. split; [apply N.eqb_eq; exact E1 | reflexivity]. }
  destruct H1 as [Hft Hseen]. rewrite Hc, Hs in Hft. rewrite Hc in Hseen.
  pose proof (first_type_basic _ _ He Hft) as Ht. split; [exact Ht|]. split; [exact Hseen|].
  rewrite Ht in Hty, Hs, Hpad. clear Hft Ht.
  destruct f as [c ft x]. cbn [sf_code sf_ty sf_val] in *. unfold field_content_ok, name_strict in *. cbn [sf_code sf_val] in *.
  destruct Hcases as [-> | [-> | [-> | [-> | [-> | [-> | [-> | [-> | [-> | ->]]]]]]]]];
    match type of Hty with _ = TBasic ?e => let v := eval vm_compute in e in change e with v in Hty, Hs, Hpad end;
    cbn [spec_align fixed_size N.eqb Pos.eqb orb] in Hpad.
  - (* PATH *)
    destruct (val_str le _ _ _ 111 ltac:(lia) Hty Hwf) as [s ->]. pose proof (wfb_str_len le _ _ 111 s ltac:(lia) Hwf) as Hl.
    rewrite (enc_str4 le 111 s p ltac:(lia) Hpad) in Hv. cbn [N.eqb Pos.eqb].
    vfs_start H Hc Hs Hseen. rewrite Hv in H. rewrite local_path_eq in H.
    destruct (_ && _) eqn:E in H; [bad H|]. apply (local_check_true le) in E; [|exact Hl].
    apply negb_true_iff. destruct (bytes_eqb s local_path) eqn:B; [|reflexivity]. apply bytes_eqb_eq in B. contradiction.
  - (* INTERFACE *)
    destruct (val_str le _ _ _ 115 ltac:(lia) Hty Hwf) as [s ->]. pose proof (wfb_str_len le _ _ 115 s ltac:(lia) Hwf) as Hl.
    rewrite (enc_str4 le 115 s p ltac:(lia) Hpad) in Hv. cbn [N.eqb Pos.eqb].
    vfs_start H Hc Hs Hseen. rewrite Hv in H. rewrite local_interface_eq in H.
    destruct (_ && _) eqn:E in H; [bad H|]. apply (local_check_true le) in E; [|exact Hl].
    rewrite str_payload_raw in H by exact Hl. rewrite interface_correct in H.
    destruct (spec_interface s); [|bad H]. cbn [andb].
    apply negb_true_iff. destruct (bytes_eqb s local_interface) eqn:B; [|reflexivity]. apply bytes_eqb_eq in B. contradiction.
  - (* MEMBER *)
    destruct (val_str le _ _ _ 115 ltac:(lia) Hty Hwf) as [s ->]. pose proof (wfb_str_len le _ _ 115 s ltac:(lia) Hwf) as Hl.
    rewrite (enc_str4 le 115 s p ltac:(lia) Hpad) in Hv. cbn [N.eqb Pos.eqb].
    vfs_start H Hc Hs Hseen. rewrite Hv in H. rewrite str_payload_raw in H by exact Hl. rewrite member_correct in H.
    destruct (spec_member s); [reflexivity | bad H].
  - (* ERROR_NAME *)
    destruct (val_str le _ _ _ 115 ltac:(lia) Hty Hwf) as [s ->]. pose proof (wfb_str_len le _ _ 115 s ltac:(lia) Hwf) as Hl.
    rewrite (enc_str4 le 115 s p ltac:(lia) Hpad) in Hv. cbn [N.eqb Pos.eqb].
    vfs_start H Hc Hs Hseen. rewrite Hv in H. rewrite str_payload_raw in H by exact Hl. rewrite error_name_correct in H.
    destruct (spec_error_name s); [reflexivity | bad H].
  - (* REPLY_SERIAL *)
    destruct (val_u32 le _ _ _ Hty Hwf) as (n & -> & Hn). rewrite (enc_u32p le n p Hpad) in Hv. cbn [N.eqb Pos.eqb].
    vfs_start H Hc Hs Hseen. rewrite Hv in H. replace (bytes_of le 4 n) with (bytes_of le 4 n ++ []) in H by apply app_nil_r.
    rewrite u32_raw in H by exact Hn. destruct (n =? 0); [bad H | reflexivity].
  - (* DESTINATION *)
    destruct (val_str le _ _ _ 115 ltac:(lia) Hty Hwf) as [s ->]. pose proof (wfb_str_len le _ _ 115 s ltac:(lia) Hwf) as Hl.
    rewrite (enc_str4 le 115 s p ltac:(lia) Hpad) in Hv. cbn [N.eqb Pos.eqb orb] in *.
    vfs_start H Hc Hs Hseen. rewrite Hv in H. rewrite str_payload_raw in H by exact Hl.
    destruct (validate_bus_name s) eqn:Vb; [|bad H]. apply bus_name_sound; [exact Vb|].
    destruct s as [|c0 r0]; [reflexivity|]. destruct (N.eq_dec c0 58) as [->|Hne]; [exact Hname|].
    destruct c0 as [|q]; [reflexivity|]. do 6 (destruct q as [q|q|]; try reflexivity). congruence.
  - (* SENDER *)
    destruct (val_str le _ _ _ 115 ltac:(lia) Hty Hwf) as [s ->]. pose proof (wfb_str_len le _ _ 115 s ltac:(lia) Hwf) as Hl.
    rewrite (enc_str4 le 115 s p ltac:(lia) Hpad) in Hv. cbn [N.eqb Pos.eqb orb] in *.
    vfs_start H Hc Hs Hseen. rewrite Hv in H. rewrite str_payload_raw in H by exact Hl.
    destruct (validate_bus_name s) eqn:Vb; [|bad H]. apply bus_name_sound; [exact Vb|].
    destruct s as [|c0 r0]; [reflexivity|]. destruct (N.eq_dec c0 58) as [->|Hne]; [exact Hname|].
    destruct c0 as [|q]; [reflexivity|]. do 6 (destruct q as [q|q|]; try reflexivity). congruence.
  - (* SIGNATURE *) destruct x; reflexivity.
  - (* UNIX_FDS *) destruct x; reflexivity.
  - (* CONTAINER_INSTANCE *) destruct x; reflexivity.
Qed.

Lemma validate_fields_sound le : forall fs hs, Forall2 (hf_ok le) fs hs ->
  forall seen, forallb name_strict fs = true -> validate_fields le seen hs = V_VALID -> fields_ok seen fs = true.
Proof.
  induction 1 as [|f h r hs Hfh Hr IH]; intros seen Hn H; [reflexivity|].
  cbn [forallb] in Hn. apply andb_true_iff in Hn. destruct Hn as [Hn1 Hn2].
  cbn [fields_ok validate_fields] in *. pose proof Hfh as (Hc & _). rewrite Hc in H.
  change DBUS_HEADER_FIELD_INVALID with 0 in H. change DBUS_HEADER_FIELD_LAST with 10 in H.
  destruct (sf_code f =? 0) eqn:E0; [bad H|].
  destruct (10 <? sf_code f) eqn:E10.
  - assert (Hft : field_ty (sf_code f) = None).
    { unfold field_ty. replace ((sf_code f =? 1) || (sf_code f =? 10)) with false by lia.
      replace ((sf_code f =? 2) || (sf_code f =? 3) || (sf_code f =? 4) || (sf_code f =? 6) || (sf_code f =? 7)) with false by lia.
      replace ((sf_code f =? 5) || (sf_code f =? 9)) with false by lia. replace (sf_code f =? 8) with false by lia. reflexivity. }
    rewrite Hft. apply IH; assumption.
  - assert (Hcases : sf_code f = 1 \/ sf_code f = 2 \/ sf_code f = 3 \/ sf_code f = 4 \/ sf_code f = 5 \/ sf_code f = 6 \/ sf_code f = 7 \/
                     sf_code f = 8 \/ sf_code f = 9 \/ sf_code f = 10) by lia.
    destruct (expected_cases _ Hcases) as [Hft _]. rewrite Hft.
    destruct (Z.eqb (validate_field le seen h) V_VALID) eqn:Ev.
    + apply Z.eqb_eq in Ev. destruct (validate_field_sound le seen f h Hfh Hcases Hn1 Ev) as (Ht & Hseen & Hcont).
      rewrite <- Ht, ty_eqb_refl, Hseen, Hcont. cbn [negb andb]. rewrite <- Hc. apply IH; [exact Hn2|]. rewrite Hc. exact H.
    + exfalso. rewrite H in Ev. discriminate.
Qed.

Lemma check_mandatory_sound le mt fs hs : Forall2 (hf_ok le) fs hs ->
  check_mandatory mt (known_codes hs) = V_VALID -> mandatory_ok mt fs = true.
Proof.
  intros HF Hm. unfold check_mandatory, mandatory_ok in *.
  pose proof (known_codes_has le fs hs HF) as K. unfold mandatory_fields in Hm.
  destruct (mt =? 1) eqn:E1; [apply N.eqb_eq in E1; subst mt|].
  { cbn [find fst N.eqb Pos.eqb check_required] in Hm. rewrite !K in Hm by lia.
    destruct (has_field 1 fs); [|bad Hm]. destruct (has_field 3 fs); [reflexivity | bad Hm]. }
  destruct (mt =? 2) eqn:E2; [apply N.eqb_eq in E2; subst mt|].
  { cbn [find fst N.eqb Pos.eqb check_required] in Hm. rewrite !K in Hm by lia. destruct (has_field 5 fs); [reflexivity | bad Hm]. }
  destruct (mt =? 3) eqn:E3; [apply N.eqb_eq in E3; subst mt|].
  { cbn [find fst N.eqb Pos.eqb check_required] in Hm. rewrite !K in Hm by lia.
    destruct (has_field 4 fs); [|bad Hm]. destruct (has_field 5 fs); [reflexivity | bad Hm]. }
  destruct (mt =? 4) eqn:E4; [apply N.eqb_eq in E4; subst mt|].
  { cbn [find fst N.eqb Pos.eqb check_required] in Hm. rewrite !K in Hm by lia.
    destruct (has_field 2 fs); [|bad Hm]. destruct (has_field 1 fs); [|bad Hm]. destruct (has_field 3 fs); [reflexivity | bad Hm]. }
  reflexivity.
Qed.

(* the SIGNATURE field of a well-formed field array holds a signature the specification accepts *)
Lemma sig_of_fields_spec le fs hs : Forall2 (hf_ok le) fs hs -> fields_ok [] fs = true -> spec_signature (sig_of_fields fs) = true.
Proof.
  intros HF Hok. unfold sig_of_fields. pose proof (field_value_find le fs hs HF 8) as H.
  destruct (find (fun f => sf_code f =? 8) fs) as [f|] eqn:Ef; [|reflexivity].
  destruct (field_value 8 hs) as [h|]; [|contradiction].
  pose proof (fields_ok_find fs [] f 8 (TBasic 103) Hok Ef eq_refl) as Hty.
  destruct H as (_ & _ & Htv & _ & p & _ & Hwf & _). rewrite Hty in Htv.
  destruct (val_str le _ _ _ 103 ltac:(lia) Htv Hwf) as [s Es]. destruct f as [c ft x]. cbn [sf_val] in *. subst x.
  cbn [wfb] in Hwf. apply andb_true_iff in Hwf. exact (proj2 Hwf).
Qed.

(* ---- B. the shape of the header values ------------------------------------------------------- *)
Definition FT : ty := TStruct [TBasic 121; TVariant].
Definition hdr_tys : list ty := [TBasic 121; TBasic 121; TBasic 121; TBasic 121; TBasic 117; TBasic 117; TArray FT].

Lemma num_shape le depth pos v c sz : fixed_size c = Some sz -> ty_of_val v = TBasic c -> wfx le depth pos v = true ->
  exists n, v = VNum c n /\ n < 256 ^ sz.
Proof.
  intros Hsz Ht Hw. destruct v as [c' n|c' s| | | | ]; cbn [ty_of_val] in Ht; try discriminate; injection Ht as ->.
  - exists n. split; [reflexivity|]. cbn [wfx] in Hw. rewrite Hsz in Hw. apply andb_true_iff in Hw. destruct Hw as [_ Hw].
    apply andb_true_iff in Hw. destruct Hw as [Hw _]. lia.
  - exfalso. cbn [wfx] in Hw. apply andb_true_iff in Hw. destruct Hw as [_ Hw].
    destruct (c =? 115) eqn:E1; [apply N.eqb_eq in E1; subst c; discriminate|].
    destruct (c =? 111) eqn:E2; [apply N.eqb_eq in E2; subst c; discriminate|].
    destruct (c =? 103) eqn:E3; [apply N.eqb_eq in E3; subst c; discriminate|discriminate].
Qed.

Lemma hdr_shape le vs : map ty_of_val vs = hdr_tys -> wfxs le vs 0 0 = true ->
  exists a b c e x y fvs, vs = [VNum 121 a; VNum 121 b; VNum 121 c; VNum 121 e; VNum 117 x; VNum 117 y; VArr FT fvs] /\
    a < 256 /\ b < 256 /\ c < 256 /\ e < 256 /\ x < 4294967296 /\ y < 4294967296 /\ wfx le 0 12 (VArr FT fvs) = true.
Proof.
  intros Ht Hw. unfold hdr_tys in Ht.
  destruct vs as [|v1 [|v2 [|v3 [|v4 [|v5 [|v6 [|v7 [|? ?]]]]]]]]; try discriminate. cbn [map] in Ht.
  injection Ht as T1 T2 T3 T4 T5 T6 T7.
  cbn [wfxs] in Hw.
  apply andb_true_iff in Hw. destruct Hw as [W1 Hw]. destruct (num_shape le _ _ _ 121 1 eq_refl T1 W1) as (a & -> & Ha).
  rewrite enc_byte, nlen1 in Hw.
  apply andb_true_iff in Hw. destruct Hw as [W2 Hw]. destruct (num_shape le _ _ _ 121 1 eq_refl T2 W2) as (b & -> & Hb).
  rewrite enc_byte, nlen1 in Hw.
  apply andb_true_iff in Hw. destruct Hw as [W3 Hw]. destruct (num_shape le _ _ _ 121 1 eq_refl T3 W3) as (c & -> & Hc).
  rewrite enc_byte, nlen1 in Hw.
  apply andb_true_iff in Hw. destruct Hw as [W4 Hw]. destruct (num_shape le _ _ _ 121 1 eq_refl T4 W4) as (e & -> & He).
  rewrite enc_byte, nlen1 in Hw. change (0 + 1 + 1 + 1 + 1) with 4 in Hw.
  apply andb_true_iff in Hw. destruct Hw as [W5 Hw]. destruct (num_shape le _ _ _ 117 4 eq_refl T5 W5) as (x & -> & Hx).
  rewrite (enc_u32 le x 4) in Hw by reflexivity. rewrite (bytes_of_length le 4) in Hw. change (4 + N.of_nat 4) with 8 in Hw.
  apply andb_true_iff in Hw. destruct Hw as [W6 Hw]. destruct (num_shape le _ _ _ 117 4 eq_refl T6 W6) as (y & -> & Hy).
  rewrite (enc_u32 le y 8) in Hw by reflexivity. rewrite (bytes_of_length le 4) in Hw. change (8 + N.of_nat 4) with 12 in Hw.
  apply andb_true_iff in Hw. destruct Hw as [W7 _].
  destruct v7 as [| |et fvs| | | ]; cbn [ty_of_val] in T7; try discriminate. injection T7 as ->.
  change (256 ^ 1) with 256 in *. change (256 ^ 4) with 4294967296 in *.
  exists a, b, c, e, x, y, fvs. repeat split; assumption.
Qed.

Lemma field_shape le depth pos v : ty_of_val v = FT -> wfx le depth pos v = true -> exists f, v = enc_field le f.
Proof.
  intros Ht Hw. destruct v as [| | |l| | ]; cbn [ty_of_val] in Ht; try discriminate. unfold FT in Ht. injection Ht as Ht.
  destruct l as [|a [|b [|? ?]]]; try discriminate. cbn [map] in Ht. injection Ht as Ta Tb.
  rewrite wfx_struct in Hw. apply andb_true_iff in Hw. destruct Hw as [_ Hw]. cbn [negb andb wfxs] in Hw.
  apply andb_true_iff in Hw. destruct Hw as [Wa _].
  destruct (num_shape le _ _ _ 121 1 eq_refl Ta Wa) as (code & -> & _).
  destruct b as [| | | | |t x]; try discriminate. exists (mkSField code t x). reflexivity.
Qed.

Lemma fields_shape le : forall fvs depth pos, forallb (fun x => ty_eqb (ty_of_val x) FT) fvs = true -> wfxs le fvs depth pos = true ->
  exists fs, fvs = map (enc_field le) fs.
Proof.
  induction fvs as [|v r IH]; intros depth pos Ht Hw; [exists []; reflexivity|].
  cbn [forallb wfxs] in *. apply andb_true_iff in Ht. destruct Ht as [T1 T2]. apply andb_true_iff in Hw. destruct Hw as [W1 W2].
  apply ty_eqb_eq in T1. destruct (field_shape le _ _ _ T1 W1) as [f ->]. destruct (IH _ _ T2 W2) as [fs ->].
  exists (f :: fs). reflexivity.
Qed.

Lemma all_zero_zeros_eq : forall z, all_zero z = true -> z = zeros (nlen z).
Proof.
  induction z as [|b r IH]; intros H; [reflexivity|]. unfold all_zero in H. cbn [forallb] in H. apply andb_true_iff in H. destruct H as [Hb Hr].
  apply N.eqb_eq in Hb. subst b. unfold zeros. rewrite nlen_cons. replace (N.to_nat (nlen r + 1)) with (S (N.to_nat (nlen r))) by lia.
  cbn [repeat]. f_equal. apply IH. exact Hr.
Qed.

Lemma tys_eq_refl : forall a,
  (fix eq (a b : list ty) : bool :=
     match a, b with [], [] => true | x :: a', y :: b' => ty_eqb x y && eq a' b' | _, _ => false end) a a = true.
Proof. induction a as [|x a IH]; [reflexivity|]. rewrite ty_eqb_refl. exact IH. Qed.

Lemma have_ok_facts max d le fl hl bl : have_message max d = HaveOk le fl hl bl true ->
  byte_at d 0 = (if le then 108 else 66) /\ fl = u32_at le d 12 /\ bl = u32_at le d 4 /\ hl = align_up (16 + fl) 8 /\
  fl <= max /\ bl <= max /\ bl + hl <= max /\ bl + hl <= nlen d.
Proof.
  unfold have_message. change DBUS_LITTLE_ENDIAN with 108. change DBUS_BIG_ENDIAN with 66.
  destruct ((byte_at d 0 =? 108) || (byte_at d 0 =? 66)) eqn:E0; cbn [negb]; [|discriminate].
  cbv zeta. set (le0 := byte_at d 0 =? 108) in *.
  destruct (max <? u32_at le0 d 12) eqn:E1; [discriminate|].
  destruct (max <? u32_at le0 d 4) eqn:E2; [discriminate|].
  destruct (max <? u32_at le0 d 4 + align_up (16 + u32_at le0 d 12) 8) eqn:E3; [discriminate|].
  remember (u32_at le0 d 12) as F eqn:EF. remember (u32_at le0 d 4) as B eqn:EB. remember (align_up (16 + F) 8) as HL eqn:EH.
  intros H. injection H as E1' E2' E3' E4' Hc. subst le fl hl bl.
  repeat split; try assumption; try lia. unfold le0 in *. destruct (byte_at d 0 =? 108) eqn:E; lia.
Qed.

Lemma hdr_bytes le a b c e x y z tail : x < 4294967296 -> y < 4294967296 -> z < 4294967296 ->
  let d := [a; b; c; e] ++ bytes_of le 4 x ++ bytes_of le 4 y ++ bytes_of le 4 z ++ tail in
  byte_at d 0 = a /\ byte_at d 1 = b /\ byte_at d 3 = e /\ u32_at le d 4 = x /\ u32_at le d 8 = y /\ u32_at le d 12 = z /\
  skipn 16 d = tail /\ nlen d = 16 + nlen tail.
Proof.
  intros Hx Hy Hz.
  destruct (bytes_of_4 le x) as (a0 & a1 & a2 & a3 & Ea & Ua).
  destruct (bytes_of_4 le y) as (b0 & b1 & b2 & b3 & Eb & Ub).
  destruct (bytes_of_4 le z) as (c0 & c1 & c2 & c3 & Ec & Uc).
  rewrite Ea, Eb, Ec. cbn [app]. unfold u32_at, byte_at. cbn [nth Nat.add skipn]. rewrite (Ua Hx), (Ub Hy), (Uc Hz).
  repeat split. rewrite !nlen_cons. lia.
Qed.

(* ---- C. the message ------------------------------------------------------------------------------ *)
Definition msg_strict (m : smsg) : bool :=
  nodev 0 (fields_val (s_le m) (s_fields m)) && forallb (nodev 0) (s_body m) && forallb name_strict (s_fields m).

Theorem load_message_sound max le fl hl bl fds d msg :
  max <= max_message -> all_bytes d = true ->
  have_message max d = HaveOk le fl hl bl true ->
  load_message le fl hl bl fds d = inl msg ->
  exists m, m_header msg ++ m_body msg = spec_encode_message m /\ s_le m = le /\
            nlen (spec_encode_message m) = hl + bl /\
            wire_ok (fields_val le (s_fields m)) = true /\ forallb wire_ok (s_body m) = true /\
            (msg_strict m = true -> wf_msg m = true).
Proof.
  intros Hmax Hb Hh Hl.
  destruct (have_ok_facts _ _ _ _ _ _ Hh) as (B0 & Hfl & Hbl & Hhl & Mfl & Mbl & Mtot & Hfit).
  (* open load_message *)
  unfold load_message in Hl. destruct (header_load le fl hl d) as [hs|] eqn:HL; [|discriminate].
  set (sigb := match field_value DBUS_HEADER_FIELD_SIGNATURE hs with Some f => sig_payload (f_val f) | None => [] end) in *.
  destruct (parse_sig sigb) as [tys|] eqn:PS; [|discriminate]. cbv zeta in Hl.
  set (body := firstn (N.to_nat bl) (skipn (N.to_nat hl) d)) in *.
  destruct (Z.eqb (validate_body le tys body) V_VALID) eqn:VB; cbn [negb] in Hl; [|discriminate]. apply Z.eqb_eq in VB.
  destruct (fds <? _); [discriminate|]. injection Hl as <-. cbn [m_header m_body].
  (* open header_load *)
  unfold header_load in HL. rewrite header_tys_eq in HL.
  destruct (validate_body_prefix le _ d) as [c0|] eqn:VP; [|discriminate].
  destruct (all_zero _) eqn:AZ in HL; cbn [negb] in HL; [|discriminate].
  change DBUS_MESSAGE_TYPE_INVALID with 0 in HL. change DBUS_MAJOR_PROTOCOL_VERSION with 1 in HL.
  destruct (byte_at d 1 =? 0) eqn:B1; [discriminate|].
  destruct (byte_at d 3 =? 1) eqn:B3; cbn [negb] in HL; [|discriminate].
  destruct (u32_at le d 8 =? 0) eqn:B8; [discriminate|].
  destruct (read_fields _ le _ _) as [hs0|] eqn:RF in HL; [|discriminate].
  destruct (Z.eqb (validate_fields le [] hs0) V_VALID) eqn:VF; cbn [negb] in HL; [|discriminate]. apply Z.eqb_eq in VF.
  destruct (Z.eqb (check_mandatory (byte_at d 1) (known_codes hs0)) V_VALID) eqn:CM; cbn [negb] in HL; [|discriminate]. apply Z.eqb_eq in CM.
  injection HL as ->.
  (* the header is the encoding of seven values *)
  unfold validate_body_prefix in VP.
  destruct (vb_seq_sound le hdr_tys 0 d c0 eq_refl Hb VP) as (vs & rest0 & Hts & Hws & Hks & Ed & _).
  destruct (hdr_shape le vs Hts Hws) as (a & b & c & e & x & y & fvs & -> & Ha & Hbb & Hc & He & Hx & Hy & WFA).
  pose proof WFA as WFA'. rewrite wfx_arr in WFA'. apply andb_true_iff in WFA'. destruct WFA' as [_ WFA'].
  apply andb_true_iff in WFA'. destruct WFA' as [WFA' Wfs]. apply andb_true_iff in WFA'. destruct WFA' as [Tfs Lfs].
  destruct (fields_shape le fvs _ _ Tfs Wfs) as [fs ->]. change (VArr FT (map (enc_field le) fs)) with (fields_val le fs) in *.
  assert (KFA : wire_ok (fields_val le fs) = true).
  { rewrite forallb_forall in Hks. apply Hks. do 6 right. left. reflexivity. }
  rewrite encs_hdr in Ed by assumption. rewrite enc_fields_val in Ed.
  set (payload := encs le (map (enc_field le) fs) 16) in *. set (flen := nlen payload) in *.
  assert (Hflen : flen <= max_array).
  { unfold arr_start in Lfs. change (pad_amount 12 4) with 0 in Lfs. change (12 + 0 + 4) with 16 in Lfs.
    change (spec_align FT) with 8 in Lfs. change (pad_amount 16 8) with 0 in Lfs. change (16 + 0) with 16 in Lfs. fold payload flen in Lfs. lia. }
  unfold max_array, max_message in *.
  rewrite <- !app_assoc in Ed.
  destruct (hdr_bytes le a b c e x y flen (payload ++ rest0) Hx Hy ltac:(lia)) as (D0 & D1 & D3 & D4 & D8 & D12 & D16 & Dlen).
  cbv zeta in *. rewrite <- Ed in D0, D1, D3, D4, D8, D12, D16, Dlen.
  rewrite D0 in B0. rewrite D1 in B1, CM. rewrite D3 in B3. rewrite D8 in B8. rewrite D12 in Hfl. rewrite D4 in Hbl. subst a fl bl.
  apply N.eqb_eq in B3. subst e.
  (* header padding *)
  assert (Hal : hl = 16 + flen + pad_amount (16 + flen) 8) by (rewrite Hhl; apply align_up_pad; lia).
  set (pad := pad_amount (16 + flen) 8) in *.
  set (H16 := [if le then 108 else 66; b; c; 1] ++ bytes_of le 4 x ++ bytes_of le 4 y ++ bytes_of le 4 flen) in *.
  assert (LH16 : length H16 = 16%nat).
  { unfold H16. rewrite !app_length, !bytes_of_len4. reflexivity. }
  assert (Ed2 : d = (H16 ++ payload) ++ rest0) by (rewrite Ed; unfold H16; rewrite <- !app_assoc; reflexivity).
  assert (LHP : length (H16 ++ payload) = N.to_nat (16 + flen)).
  { rewrite app_length, LH16. unfold flen, nlen. lia. }
  assert (Hrest0 : pad + x <= nlen rest0).
  { rewrite Ed2, nlen_app in Hfit. unfold nlen at 1 in Hfit. rewrite LHP in Hfit. lia. }
  assert (Hsk : skipn (N.to_nat (16 + flen)) d = rest0) by (rewrite Ed2; apply skipn_app_exact; exact LHP).
  rewrite Hsk in AZ. replace (hl - (16 + flen)) with pad in AZ by lia.
  apply all_zero_zeros_eq in AZ. rewrite nlen_firstn in AZ by lia.
  assert (Er0 : rest0 = zeros pad ++ skipn (N.to_nat pad) rest0) by (rewrite <- AZ; symmetry; apply firstn_skipn).
  set (rest1 := skipn (N.to_nat pad) rest0) in *.
  assert (Ed3 : d = (H16 ++ payload ++ zeros pad) ++ rest1).
  { rewrite Ed2. rewrite Er0 at 1. rewrite <- !app_assoc. reflexivity. }
  assert (LHZ : length (H16 ++ payload ++ zeros pad) = N.to_nat hl).
  { rewrite app_assoc, app_length, LHP. unfold zeros. rewrite repeat_length. lia. }
  assert (Hhdr : firstn (N.to_nat hl) d = H16 ++ payload ++ zeros pad) by (rewrite Ed3; apply firstn_app_exact; exact LHZ).
  assert (Hbody : body = firstn (N.to_nat x) rest1) by (unfold body; rewrite Ed3 at 1; rewrite skipn_app_exact by exact LHZ; reflexivity).
  assert (Lr1 : x <= nlen rest1) by (unfold rest1; rewrite bl_nlen_skipn; lia).
  assert (Lbody : nlen body = x) by (rewrite Hbody; apply nlen_firstn; exact Lr1).
  (* the body *)
  assert (Hbb1 : all_bytes body = true).
  { unfold body. apply ab_firstn, ab_skipn. exact Hb. }
  destruct (validate_body_sound_sig le sigb tys body PS Hbb1 VB) as (bvs & Hbt & Hbw & Hbk & Ebody).
  (* the abstract message *)
  set (m := mkSMsg le b c y fs sigb bvs).
  assert (Eenc : firstn (N.to_nat hl) d ++ body = spec_encode_message m).
  { rewrite encode_shape. unfold m_blen, m_flen, m_bodyb, m_payload, m. cbn [s_le s_type s_flags s_serial s_fields s_body].
    fold payload flen pad. rewrite <- Ebody, Lbody. rewrite Hhdr. unfold H16. rewrite <- !app_assoc. reflexivity. }
  exists m. split; [exact Eenc|]. split; [reflexivity|]. split.
  { rewrite <- Eenc, nlen_app, Lbody. f_equal. unfold nlen. rewrite Hhdr, LHZ. lia. }
  split; [exact KFA|]. split; [exact Hbk|].
  (* well-formedness outside the deviations *)
  intros Hstrict. unfold msg_strict, m in Hstrict. cbn [s_le s_fields s_body] in Hstrict.
  apply andb_true_iff in Hstrict. destruct Hstrict as [Hstrict SN]. apply andb_true_iff in Hstrict. destruct Hstrict as [SF SB].
  pose proof (wfx_wfb le _ 0 12 SF WFA) as W7.
  destruct (wf_fields_val le fs W7) as [Wfs1 _].
  assert (Kall : forallb wire_ok (map (enc_field le) fs) = true).
  { unfold fields_val in KFA. cbn [wire_ok] in KFA. apply andb_true_iff in KFA. exact (proj2 KFA). }
  destruct (read_fields_enc le fs (S (N.to_nat flen)) 1 16 rest0 (16 + flen)) as (hs' & Hrd & HF).
  { pose proof (length_le_encs le _ _ _ Wfs1) as L. rewrite map_length in L. fold payload flen in L. lia. }
  { exact Wfs1. } { exact Kall. } { reflexivity. }
  fold payload in Hrd.
  assert (Ecur : mkCur 16 (nlen d - 16) (skipn 16 d) = curof 16 (payload ++ rest0)).
  { rewrite D16. unfold curof. f_equal. rewrite Dlen. lia. }
  rewrite Ecur, Hrd in RF. injection RF as <-.
  pose proof (validate_fields_sound le fs hs' HF [] SN VF) as W6.
  pose proof (check_mandatory_sound le b fs hs' HF CM) as W5.
  pose proof (sig_lookup le fs hs' HF W6) as Esig. fold sigb in Esig.
  pose proof (sig_of_fields_spec le fs hs' HF W6) as W3. rewrite <- Esig in W3.
  pose proof (wfxs_wfsb_all le bvs 0 0 SB Hbw) as W1.
  unfold wf_msg, m. cbn [s_le s_type s_flags s_serial s_fields s_sig s_body].
  rewrite W7, W6, W5, W3, W1, PS. rewrite <- Hbt, tys_eq_refl. rewrite <- Esig, bytes_eqb_refl.
  fold payload flen. rewrite <- Ebody, Lbody. fold pad.
  unfold max_message. repeat (apply andb_true_iff; split); try reflexivity; try lia.
Qed.

(* hence, with the round trip of the specification codec: the decoder returns exactly [m] *)
Corollary load_message_decodes max le fl hl bl fds d msg :
  max <= max_message -> all_bytes d = true ->
  have_message max d = HaveOk le fl hl bl true ->
  load_message le fl hl bl fds d = inl msg ->
  exists m, m_header msg ++ m_body msg = spec_encode_message m /\
            (msg_strict m = true -> wf_msg m = true /\ spec_decode_message (m_header msg ++ m_body msg) = Some (m, hl + bl)).
Proof.
  intros Hmax Hb Hh Hl. destruct (load_message_sound max le fl hl bl fds d msg Hmax Hb Hh Hl) as (m & E & _ & Hn & _ & _ & Hw).
  exists m. split; [exact E|]. intros Hs. specialize (Hw Hs). split; [exact Hw|].
  rewrite E, (message_roundtrip m Hw), Hn. reflexivity.
Qed.

(* ---- D. the statement without the exclusion is false (F2, recorded witness) --------------------------- *)
Definition load_message_sound_unrestricted : Prop :=
  forall max le fl hl bl fds d msg, max <= max_message -> all_bytes d = true ->
    have_message max d = HaveOk le fl hl bl true -> load_message le fl hl bl fds d = inl msg ->
    exists m, m_header msg ++ m_body msg = spec_encode_message m /\ wf_msg m = true.

(* type 5, serial 2, DESTINATION = ":1-5" *)
Definition f2_witness : bytes :=
  [108; 5; 3; 1; 0; 0; 0; 0; 2; 0; 0; 0; 13; 0; 0; 0; 6; 1; 115; 0; 4; 0; 0; 0; 58; 49; 45; 53; 0; 0; 0; 0].

Lemma refute_msg (d : bytes) le fl hl bl :
  all_bytes d = true -> have_message max_message d = HaveOk le fl hl bl true ->
  (exists msg, load_message le fl hl bl 0 d = inl msg /\ spec_decode_message (m_header msg ++ m_body msg) = None) ->
  ~ load_message_sound_unrestricted.
Proof.
  intros Hb Hh (msg & Hl & Hd) H.
  destruct (H max_message le fl hl bl 0 d msg ltac:(lia) Hb Hh Hl) as (m & E & Hw).
  rewrite E, (message_roundtrip m Hw) in Hd. discriminate.
Qed.

Theorem load_message_sound_unrestricted_refuted : ~ load_message_sound_unrestricted.
Proof.
  apply (refute_msg f2_witness true 13 32 0); [vm_compute; reflexivity | vm_compute; reflexivity |].
  eexists. split; [vm_compute; reflexivity|]. vm_compute. reflexivity.
Qed.

(* the deviations FD65 and F11 at message level: bodies of signature "v" / "g" *)
Definition msg_with_body (sg body : bytes) : bytes :=
  [108; 5; 0; 1] ++ bytes_of true 4 (nlen body) ++ [1; 0; 0; 0] ++ bytes_of true 4 (6 + nlen sg) ++
  [8; 1; 103; 0; nlen sg] ++ sg ++ [0] ++ zeros (pad_amount (16 + 5 + nlen sg + 1) 8) ++ body.

Theorem load_message_sound_unrestricted_refuted_FD65 : ~ load_message_sound_unrestricted.
Proof.
  apply (refute_msg (msg_with_body [118] deep65) true 7 24 201); [vm_compute; reflexivity | vm_compute; reflexivity |].
  eexists. split; [vm_compute; reflexivity|]. vm_compute. reflexivity.
Qed.

Theorem load_message_sound_unrestricted_refuted_F11 : ~ load_message_sound_unrestricted.
Proof.
  apply (refute_msg (msg_with_body [103] sigval33) true 7 24 100); [vm_compute; reflexivity | vm_compute; reflexivity |].
  eexists. split; [vm_compute; reflexivity|]. vm_compute. reflexivity.
Qed.

(* non-vacuity: a message on which every premise, the exclusion included, holds *)
Definition good_witness : bytes :=
  [108; 4; 0; 1; 0; 0; 0; 0; 7; 0; 0; 0; 61; 0; 0; 0;
   1; 1; 111; 0; 2; 0; 0; 0; 47; 97; 0; 0; 0; 0; 0; 0;
   2; 1; 115; 0; 3; 0; 0; 0; 97; 46; 98; 0; 0; 0; 0; 0;
   3; 1; 115; 0; 1; 0; 0; 0; 83; 0; 0; 0; 0; 0; 0; 0;
   7; 1; 115; 0; 4; 0; 0; 0; 58; 49; 46; 53; 0; 0; 0; 0].

Example good_witness_loads :
  have_message max_message good_witness = HaveOk true 61 80 0 true /\
  exists msg, load_message true 61 80 0 0 good_witness = inl msg /\
    match spec_decode_message (m_header msg ++ m_body msg) with Some (m, n) => msg_strict m && wf_msg m && (n =? 80) | None => false end = true.
Proof. split; [vm_compute; reflexivity|]. eexists. split; [vm_compute; reflexivity|]. vm_compute. reflexivity. Qed.

(* ---- E. the exclusion is exact: every well-formed message is strict ----------------------------------------- *)
Lemma fields_ok_names : forall fs seen, fields_ok seen fs = true -> forallb name_strict fs = true.
Proof.
  induction fs as [|f r IH]; intros seen H; [reflexivity|]. cbn [fields_ok forallb] in *.
  destruct (sf_code f =? 0) eqn:E0; [discriminate|].
  assert (Hr : exists seen', fields_ok seen' r = true /\ (field_ty (sf_code f) <> None -> field_content_ok f = true)).
  { destruct (field_ty (sf_code f)) as [t|].
    - apply andb_true_iff in H. destruct H as [H Hr]. apply andb_true_iff in H. destruct H as [_ Hc]. eexists. split; [exact Hr | intros _; exact Hc].
    - eexists. split; [exact H | intros C; contradiction]. }
  destruct Hr as (seen' & Hr & Hc). rewrite (IH _ Hr), andb_true_r.
  unfold name_strict. destruct ((sf_code f =? 6) || (sf_code f =? 7)) eqn:E67; [|reflexivity].
  assert (Hft : field_ty (sf_code f) <> None).
  { unfold field_ty. replace ((sf_code f =? 1) || (sf_code f =? 10)) with false by lia.
    replace ((sf_code f =? 2) || (sf_code f =? 3) || (sf_code f =? 4) || (sf_code f =? 6) || (sf_code f =? 7)) with true by lia. discriminate. }
  specialize (Hc Hft). unfold field_content_ok in Hc. destruct (sf_val f) as [|c0 s| | | | ]; try reflexivity.
  replace (sf_code f =? 1) with false in Hc by lia. replace (sf_code f =? 2) with false in Hc by lia.
  replace (sf_code f =? 3) with false in Hc by lia. replace (sf_code f =? 4) with false in Hc by lia. rewrite E67 in Hc.
  destruct s as [|c1 r1]; [reflexivity|]. destruct c1 as [|q]; [reflexivity|]. do 6 (destruct q as [q|q|]; try reflexivity). exact Hc.
Qed.

Theorem wf_msg_strict m : wf_msg m = true -> msg_strict m = true.
Proof.
  intros H. destruct (wf_msg_inv m H) as (_ & _ & _ & _ & _ & Wf & Wok & _ & _ & _ & Wb & _).
  unfold msg_strict. rewrite (proj2 (wfb_wfx _ _ _ _ Wf)), (wfsb_nodev _ _ _ _ Wb), (fields_ok_names _ _ Wok). reflexivity.
Qed.

(* so: the loader's accepted messages are well formed exactly when they avoid the three classes *)
Corollary load_message_sound_iff max le fl hl bl fds d msg :
  max <= max_message -> all_bytes d = true ->
  have_message max d = HaveOk le fl hl bl true ->
  load_message le fl hl bl fds d = inl msg ->
  exists m, m_header msg ++ m_body msg = spec_encode_message m /\ (wf_msg m = true <-> msg_strict m = true).
Proof.
  intros Hmax Hb Hh Hl. destruct (load_message_sound max le fl hl bl fds d msg Hmax Hb Hh Hl) as (m & E & _ & _ & _ & _ & Hw).
  exists m. split; [exact E|]. split; [apply wf_msg_strict | exact Hw].
Qed.

Print Assumptions load_message_sound.
Print Assumptions load_message_decodes.
Print Assumptions load_message_sound_unrestricted_refuted.
