(* C17, serial clause: _dbus_connection_get_next_client_serial walks 1, 2, ...,
   2^32-1, 1, ...; never zero; distinct until it wraps. *)
From Coq Require Import List NArith Bool Lia ZArith ZifyBool ZifyN ZifyNat.
Import ListNotations.
From DV Require Import PendingCall.Pending Spec.PendingSpec.
Local Open Scope N_scope.

Definition M32 : N := two32 - 1.

Lemma spec_serial_range k : 1 <= spec_serial k < two32.
Proof.
  unfold spec_serial. assert (k mod (two32 - 1) < two32 - 1) by (apply N.mod_lt; unfold two32; lia).
  unfold two32 in *. lia.
Qed.

Lemma spec_serial_nonzero k : spec_serial k <> 0.
Proof. pose proof (spec_serial_range k). lia. Qed.

Lemma next_serial_fst c : fst (next_serial c) = c.
Proof. reflexivity. Qed.

Lemma succ_mod k : (k + 1) mod M32 = if k mod M32 + 1 =? M32 then 0 else k mod M32 + 1.
Proof.
  assert (HM : M32 <> 0) by (unfold M32, two32; lia).
  pose proof (N.div_mod k M32 HM) as Hk. pose proof (N.mod_lt k M32 HM) as Hr.
  destruct (k mod M32 + 1 =? M32) eqn:E.
  - apply N.eqb_eq in E. symmetry. apply (N.mod_unique _ _ (k / M32 + 1)); lia.
  - apply N.eqb_neq in E. symmetry. apply (N.mod_unique _ _ (k / M32)); lia.
Qed.

(* the counter after one more draw is the next element of the specified sequence *)
Lemma next_serial_spec k : snd (next_serial (spec_serial k)) = spec_serial (k + 1).
Proof.
  unfold next_serial, spec_serial. cbn [snd]. fold M32. rewrite succ_mod.
  assert (HM : M32 <> 0) by (unfold M32, two32; lia).
  pose proof (N.mod_lt k M32 HM) as Hr.
  destruct (k mod M32 + 1 =? M32) eqn:E.
  - apply N.eqb_eq in E. replace (1 + k mod M32 + 1) with two32 by (unfold M32 in *; unfold two32 in *; lia).
    rewrite N.mod_same by (unfold two32; lia). reflexivity.
  - apply N.eqb_neq in E. rewrite N.mod_small by (unfold M32 in *; unfold two32 in *; lia).
    destruct (1 + k mod M32 + 1 =? 0) eqn:E2; [apply N.eqb_eq in E2; lia|]. lia.
Qed.

Lemma spec_serial_0 : spec_serial 0 = 1.
Proof. reflexivity. Qed.

Lemma spec_serial_small k : k < M32 -> spec_serial k = 1 + k.
Proof. intros. unfold spec_serial. fold M32. rewrite N.mod_small by assumption. reflexivity. Qed.

Lemma spec_serial_inj k1 k2 : k1 < M32 -> k2 < M32 -> spec_serial k1 = spec_serial k2 -> k1 = k2.
Proof. intros H1 H2. rewrite !spec_serial_small by assumption. lia. Qed.

(* after wrapping the sequence repeats: distinctness cannot hold beyond 2^32-1 draws *)
Lemma spec_serial_wraps : spec_serial M32 = spec_serial 0.
Proof. vm_compute. reflexivity. Qed.

(* the first n serials, for n draws in a row *)
Definition first_serials (n : nat) : list N := map (fun k => spec_serial (N.of_nat k)) (seq 0 n).

Lemma first_serials_snoc n : first_serials (S n) = first_serials n ++ [spec_serial (N.of_nat n)].
Proof. unfold first_serials. rewrite seq_S, map_app. reflexivity. Qed.

Lemma NoDup_map_inj_in {A B} (f : A -> B) l :
  (forall a b, In a l -> In b l -> f a = f b -> a = b) -> NoDup l -> NoDup (map f l).
Proof.
  induction l as [|x l IH]; intros Hinj Hnd; simpl; constructor.
  - inversion Hnd; subst. intro Hin. apply in_map_iff in Hin. destruct Hin as [b [Hb Hin]].
    assert (b = x) by (apply Hinj; simpl; auto). subst. contradiction.
  - apply IH; [intros; apply Hinj; simpl; auto | inversion Hnd; auto].
Qed.

Lemma first_serials_nodup n : N.of_nat n <= M32 -> NoDup (first_serials n).
Proof.
  intros Hn. unfold first_serials. apply NoDup_map_inj_in; [|apply seq_NoDup].
  intros a b Ha Hb E. apply in_seq in Ha. apply in_seq in Hb.
  apply spec_serial_inj in E; lia.
Qed.

Lemma first_serials_nonzero n : Forall (fun s => s <> 0) (first_serials n).
Proof. unfold first_serials. apply Forall_forall. intros s Hs. apply in_map_iff in Hs. destruct Hs as [k [<- _]]. apply spec_serial_nonzero. Qed.

(* ---- any starting point of the counter ---- *)
Lemma spec_serial_pred b : 1 <= b < two32 -> spec_serial (b - 1) = b.
Proof. intros H. rewrite spec_serial_small by (unfold M32, two32 in *; lia). lia. Qed.

(* the sequence does not repeat inside a window shorter than its period *)
Lemma spec_serial_inj_window a d : d < M32 -> spec_serial a = spec_serial (a + d) -> d = 0.
Proof.
  intros Hd H. unfold spec_serial in H. fold M32 in H.
  assert (HM : M32 <> 0) by (unfold M32, two32; lia).
  pose proof (N.mod_lt a M32 HM) as Hr.
  assert (E : (a + d) mod M32 = (a mod M32 + d) mod M32).
  { rewrite N.add_mod by exact HM. rewrite (N.mod_small d M32) by exact Hd. reflexivity. }
  rewrite E in H. set (r := a mod M32) in *.
  destruct (N.lt_ge_cases (r + d) M32) as [Hlt|Hge].
  - rewrite N.mod_small in H by exact Hlt. lia.
  - assert ((r + d) mod M32 = r + d - M32) by (symmetry; apply (N.mod_unique _ _ 1); lia). lia.
Qed.

Definition serials_from (k0 : N) (n : nat) : list N := map (fun k => spec_serial (k0 + N.of_nat k)) (seq 0 n).

Lemma serials_from_snoc k0 n : serials_from k0 (S n) = serials_from k0 n ++ [spec_serial (k0 + N.of_nat n)].
Proof. unfold serials_from. rewrite seq_S, map_app. reflexivity. Qed.

Lemma length_serials_from k0 n : length (serials_from k0 n) = n.
Proof. unfold serials_from. rewrite map_length, seq_length. reflexivity. Qed.

Lemma serials_from_nonzero k0 n : Forall (fun s => s <> 0) (serials_from k0 n).
Proof. unfold serials_from. apply Forall_forall. intros s Hs. apply in_map_iff in Hs. destruct Hs as [k [<- _]]. apply spec_serial_nonzero. Qed.

Lemma serials_from_in k0 n s : In s (serials_from k0 n) -> exists k, (k < n)%nat /\ s = spec_serial (k0 + N.of_nat k).
Proof. unfold serials_from. intros H. apply in_map_iff in H. destruct H as [k [<- Hk]]. apply in_seq in Hk. exists k. split; [lia|reflexivity]. Qed.

Lemma serials_from_nodup k0 n : N.of_nat n <= M32 -> NoDup (serials_from k0 n).
Proof.
  intros Hn. unfold serials_from. apply NoDup_map_inj_in; [|apply seq_NoDup].
  intros a b Ha Hb E. apply in_seq in Ha. apply in_seq in Hb.
  destruct (Nat.le_ge_cases a b) as [Hab|Hab].
  - replace (k0 + N.of_nat b) with ((k0 + N.of_nat a) + N.of_nat (b - a)) in E by lia.
    apply spec_serial_inj_window in E; lia.
  - symmetry in E. replace (k0 + N.of_nat a) with ((k0 + N.of_nat b) + N.of_nat (a - b)) in E by lia.
    apply spec_serial_inj_window in E; lia.
Qed.
