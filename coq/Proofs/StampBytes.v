(* C03, byte level, part 2: stamping preserves the codec's well-formedness, hence the bytes the bus
   relays -- spec_encode_message (stamp n m), which the correspondence run compares byte for byte
   with what the daemon writes -- decode (by the specification decoder) to exactly the stamped
   message: the received message with SENDER replaced and the untrusted-only fields removed. *)
From DV Require Import Lib.Base Spec.Codec Spec.NamesSpec Spec.Utf8Spec Wire.HeaderEdit Stamp.Stamp Spec.StampSpec
  Proofs.CodecBasics Proofs.CodecWf Proofs.CodecRoundtrip Proofs.CodecMessage Proofs.LoaderComplete Proofs.EditProofs
  Proofs.StampFields Proofs.StampNames Proofs.StampShift.
From Coq Require Import ZArith Lia DecimalN DecimalPos.
Local Open Scope N_scope.

Definition stamp_fields (n : bytes) (fs : list sfield) : list sfield :=
  set_field (del_field (strip_unknown fs) 10) 7 (VStr 115 n).

Lemma stamp_unfold n m :
  stamp n m = mkSMsg (s_le m) (s_type m) (s_flags m) (s_serial m) (stamp_fields n (s_fields m)) (s_sig m) (s_body m).
Proof. reflexivity. Qed.

(* a value the bus may write into SENDER *)
Definition name_ok (n : bytes) : bool := spec_bus_name n && spec_utf8 n && (nlen n <? 4294967296).

(* the two size limits of the wire format, for the stamped message (the header grows when a SENDER
   field is added or a shorter forged one is replaced) *)
Definition stamp_fits (n : bytes) (m : smsg) : bool :=
  let le := s_le m in
  let fs := stamp_fields n (s_fields m) in
  (nlen (encs le (map (enc_field le) fs) 16) <=? max_array) &&
  (16 + nlen (encs le (map (enc_field le) fs) 16) + pad_amount (16 + nlen (encs le (map (enc_field le) fs) 16)) 8
   + nlen (encs le (s_body m) 0) <=? max_message).

(* ---------------- the field array, field by field ---------------------------------------------- *)
Definition field_wf (le : bool) (f : sfield) : bool := wfb le 1 0 (enc_field le f).

Lemma wfsb_fields le : forall fs p, wfsb le (map (enc_field le) fs) 1 p = forallb (field_wf le) fs.
Proof.
  induction fs as [|f r IH]; intros p; [reflexivity|]. cbn [map wfsb forallb]. rewrite IH.
  unfold field_wf, enc_field. rewrite wfb_struct_anywhere. reflexivity.
Qed.

Lemma forallb_enc_field_ty le fs :
  forallb (fun x => ty_eqb (ty_of_val x) (TStruct [TBasic 121; TVariant])) (map (enc_field le) fs) = true.
Proof. induction fs as [|f r IH]; [reflexivity|]. cbn [map forallb]. rewrite IH. reflexivity. Qed.

Lemma fields_val_wf le fs :
  wfb le 0 12 (fields_val le fs) =
  (nlen (encs le (map (enc_field le) fs) 16) <=? max_array) && forallb (field_wf le) fs.
Proof.
  unfold fields_val. rewrite wfb_arr. change (arr_start 12 (TStruct [TBasic 121; TVariant])) with 16.
  rewrite forallb_enc_field_ty, wfsb_fields. reflexivity.
Qed.

Lemma forallb_filter {A} (p q : A -> bool) l : forallb p l = true -> forallb p (filter q l) = true.
Proof.
  induction l as [|x r IH]; [reflexivity|]. cbn [forallb filter]. intros H. apply andb_prop in H. destruct H as [H1 H2].
  destruct (q x); [cbn [forallb]; rewrite H1|]; auto.
Qed.

Lemma forallb_set_field (p : sfield -> bool) fs c v :
  p (mk_field c v) = true -> forallb p fs = true -> forallb p (set_field fs c v) = true.
Proof.
  intros Hp. induction fs as [|f r IH]; cbn [set_field forallb]; intros H.
  - rewrite Hp. reflexivity.
  - apply andb_prop in H. destruct H as [H1 H2]. destruct (sf_code f =? c); cbn [forallb]; [rewrite Hp, H2 | rewrite H1, IH]; auto.
Qed.

Lemma forallb_stamp_fields (p : sfield -> bool) n fs :
  p (mk_field 7 (VStr 115 n)) = true -> forallb p fs = true -> forallb p (stamp_fields n fs) = true.
Proof.
  intros Hp H. unfold stamp_fields. apply forallb_set_field; [exact Hp|].
  unfold del_field, strip_unknown. apply forallb_filter. apply forallb_filter. exact H.
Qed.

Lemma sender_field_wf le n : spec_utf8 n = true -> nlen n < 4294967296 -> field_wf le (mk_field 7 (VStr 115 n)) = true.
Proof.
  intros U L. unfold field_wf, enc_field, mk_field. cbn [sf_code sf_ty sf_val ty_of_val].
  rewrite wfb_struct. cbn [wfsb]. cbn [wfb]. rewrite U.
  replace (nlen n <? 4294967296) with true by (symmetry; apply N.ltb_lt; exact L).
  vm_compute. reflexivity.
Qed.

(* ---------------- the loader's header rules, as per-field conditions ---------------------------- *)
Definition fok1 (f : sfield) : bool :=
  negb (sf_code f =? 0) &&
  match field_ty (sf_code f) with
  | None => true
  | Some t => ty_eqb t (sf_ty f) && field_content_ok f
  end.

Definition known (f : sfield) : bool := match field_ty (sf_code f) with Some _ => true | None => false end.

Lemma fields_ok_fok1 : forall fs seen, fields_ok seen fs = true -> forallb fok1 fs = true.
Proof.
  induction fs as [|f r IH]; intros seen H; [reflexivity|]. cbn [fields_ok] in H. cbn [forallb]. unfold fok1 at 1.
  destruct (sf_code f =? 0); [discriminate|]. cbn [negb andb].
  destruct (field_ty (sf_code f)).
  - apply andb_prop in H. destruct H as [H H4]. apply andb_prop in H. destruct H as [H H3].
    apply andb_prop in H. destruct H as [H1 _]. rewrite H1, H3. cbn [andb]. eapply IH. exact H4.
  - eapply IH. exact H.
Qed.

Lemma existsb_eqb_notin c seen : ~ In c seen -> existsb (N.eqb c) seen = false.
Proof.
  induction seen as [|x r IH]; intros H; [reflexivity|]. cbn [existsb].
  destruct (N.eqb_spec c x) as [E|E]; [exfalso; apply H; left; auto|]. apply IH. intros X. apply H. right. exact X.
Qed.

Lemma fields_ok_intro : forall fs seen,
  forallb fok1 fs = true -> NoDup (codes (filter known fs)) ->
  (forall c, In c seen -> ~ In c (codes (filter known fs))) ->
  fields_ok seen fs = true.
Proof.
  induction fs as [|f r IH]; intros seen F N D; [reflexivity|]. cbn [forallb] in F. apply andb_prop in F. destruct F as [F1 F2].
  unfold fok1 in F1. cbn [fields_ok]. destruct (sf_code f =? 0); [discriminate|]. cbn [negb andb] in F1.
  cbn [filter] in N, D. unfold known at 1 in N. unfold known at 1 in D.
  destruct (field_ty (sf_code f)) as [t|] eqn:T.
  - cbn [codes map] in N, D. inversion N as [|? ? Nh Nt]; subst.
    apply andb_prop in F1. destruct F1 as [F1t F1c]. rewrite F1t, F1c.
    rewrite existsb_eqb_notin by (intros X; apply (D _ X); left; reflexivity). cbn [negb andb].
    apply IH; auto.
    intros c [<-|Hc]; [exact Nh|]. intros X. apply (D c Hc). right. exact X.
  - apply IH; auto.
Qed.

Lemma fields_ok_stamp n fs :
  spec_bus_name n = true -> fields_ok [] fs = true -> fields_ok [] (stamp_fields n fs) = true.
Proof.
  intros Hn H. apply fields_ok_intro.
  - apply forallb_stamp_fields; [|eapply fields_ok_fok1; exact H].
    unfold fok1, mk_field. cbn [sf_code sf_ty sf_val ty_of_val]. cbn. rewrite Hn. reflexivity.
  - apply nodup_codes_filter. apply set_field_nodup. unfold del_field. apply nodup_codes_filter.
    exact (proj1 (fields_ok_shape _ _ H)).
  - intros c [].
Qed.

(* ---------------- mandatory fields and the signature field survive ------------------------------ *)
Lemma find_filter {A} (q p : A -> bool) l : (forall x, q x = true -> p x = true) -> find q (filter p l) = find q l.
Proof.
  intros Hqp. induction l as [|x r IH]; [reflexivity|]. cbn [filter find]. destruct (p x) eqn:P; cbn [find].
  - rewrite IH. reflexivity.
  - destruct (q x) eqn:Q; [rewrite (Hqp x Q) in P; discriminate | exact IH].
Qed.

Lemma find_set_other fs c v c' : c' <> c -> find (fun f => sf_code f =? c') (set_field fs c v) = find (fun f => sf_code f =? c') fs.
Proof.
  intros Hne. induction fs as [|f r IH]; cbn [set_field find].
  - cbn [mk_field sf_code]. destruct (N.eqb_spec c c'); [congruence|reflexivity].
  - destruct (N.eqb_spec (sf_code f) c) as [E|E]; cbn [find mk_field sf_code].
    + rewrite E. destruct (N.eqb_spec c c'); [congruence|reflexivity].
    + rewrite IH. reflexivity.
Qed.

Lemma find_stamp n fs c : c <= 9 -> c <> 7 -> find (fun f => sf_code f =? c) (stamp_fields n fs) = find (fun f => sf_code f =? c) fs.
Proof.
  intros Hc H7. unfold stamp_fields. rewrite find_set_other by exact H7. unfold del_field, strip_unknown.
  rewrite find_filter, find_filter; [reflexivity| |]; intros x Hx; apply N.eqb_eq in Hx.
  - apply N.leb_le. lia.
  - apply negb_true_iff. apply N.eqb_neq. lia.
Qed.

Lemma has_field_find c fs : has_field c fs = match find (fun f => sf_code f =? c) fs with Some _ => true | None => false end.
Proof. unfold has_field. induction fs as [|f r IH]; [reflexivity|]. cbn [existsb find]. destruct (sf_code f =? c); [reflexivity | exact IH]. Qed.

Lemma has_field_stamp n fs c : c <= 9 -> c <> 7 -> has_field c (stamp_fields n fs) = has_field c fs.
Proof. intros. rewrite !has_field_find, find_stamp by assumption. reflexivity. Qed.

Lemma mandatory_stamp n t fs : mandatory_ok t (stamp_fields n fs) = mandatory_ok t fs.
Proof. unfold mandatory_ok. rewrite !has_field_stamp by lia. reflexivity. Qed.

Lemma sig_of_fields_stamp n fs : sig_of_fields (stamp_fields n fs) = sig_of_fields fs.
Proof. unfold sig_of_fields. rewrite find_stamp by lia. reflexivity. Qed.

(* ---------------- well-formedness is preserved --------------------------------------------------- *)
Theorem stamp_wf_msg n m :
  wf_msg m = true -> name_ok n = true -> stamp_fits n m = true -> wf_msg (stamp n m) = true.
Proof.
  intros W Hn Hf. rewrite stamp_unfold. unfold wf_msg in *. cbn [s_le s_type s_flags s_serial s_fields s_sig s_body].
  unfold name_ok in Hn. apply andb_prop in Hn. destruct Hn as [Hn Hl]. apply andb_prop in Hn. destruct Hn as [Hb Hu].
  apply N.ltb_lt in Hl.
  unfold stamp_fits in Hf. apply andb_prop in Hf. destruct Hf as [Hf1 Hf2].
  apply andb_prop in W; destruct W as [W Wtot].
  apply andb_prop in W; destruct W as [W Wbl].
  apply andb_prop in W; destruct W as [W Wbody].
  apply andb_prop in W; destruct W as [W Wparse].
  apply andb_prop in W; destruct W as [W Wsig].
  apply andb_prop in W; destruct W as [W Wsf].
  apply andb_prop in W; destruct W as [W Wmand].
  apply andb_prop in W; destruct W as [W Wfok].
  apply andb_prop in W; destruct W as [W Wfv].
  rewrite W. cbn [andb].
  rewrite fields_val_wf in Wfv. apply andb_prop in Wfv. destruct Wfv as [_ Wfv].
  rewrite fields_val_wf, Hf1. cbn [andb].
  rewrite (forallb_stamp_fields _ n _ (sender_field_wf (s_le m) n Hu Hl) Wfv). cbn [andb].
  rewrite (fields_ok_stamp n _ Hb Wfok), mandatory_stamp, Wmand, sig_of_fields_stamp, Wsf, Wsig. cbn [andb].
  rewrite Wparse, Wbody, Wbl, Hf2. reflexivity.
Qed.

(* ---------------- the relayed bytes --------------------------------------------------------------- *)
Definition relay_bytes (n : bytes) (d : bytes) : option bytes :=
  match spec_decode_message d with
  | Some (m, _) => Some (spec_encode_message (stamp n m))
  | None => None
  end.

(* For every byte string d that is exactly one loadable message m: the bytes relayed under name n
   are one loadable message again, namely m with SENDER = n as its only sender, no field outside
   1..9, and everything else as received. *)
Theorem relay_bytes_correct d m n r :
  spec_decode_message d = Some (m, nlen d) -> wf_msg m = true ->
  name_ok n = true -> stamp_fits n m = true ->
  relay_bytes n d = Some r ->
  spec_decode_message r = Some (stamp n m, nlen r) /\
  sender_is (stamp n m) n /\ defined_only (stamp n m) /\ same_content m (stamp n m).
Proof.
  intros D W Hn Hf R. unfold relay_bytes in R. rewrite D in R. injection R; intros <-.
  assert (Wo : wire_ok m).
  { unfold wire_ok. exact (proj1 (proj2 (proj2 (proj2 (proj2 (proj2 (proj2 (wf_msg_inv m W)))))))). }
  split; [apply message_roundtrip; apply stamp_wf_msg; assumption|].
  split; [apply stamp_sender; exact Wo|]. split; [apply stamp_defined_only; exact Wo | apply stamp_same_content].
Qed.

(* ---------------- names the bus mints are valid SENDER values -------------------------------------- *)
Lemma ascii_utf8 : forall s fuel, (length s < fuel)%nat -> forallb (fun c => (1 <=? c) && (c <=? 127)) s = true -> spec_utf8_fuel fuel s = true.
Proof.
  induction s as [|c r IH]; intros fuel Hl H; (destruct fuel as [|f]; [cbn in Hl; lia|]); [reflexivity|].
  cbn [forallb] in H. apply andb_prop in H. destruct H as [Hc Hr]. cbn [spec_utf8_fuel]. unfold in_range. rewrite Hc.
  apply IH; [cbn [length] in Hl; lia | exact Hr].
Qed.

Lemma digits_name_chars s : Forall is_digit s -> forallb is_alnum_us_hy s = true /\ forallb (fun c => (1 <=? c) && (c <=? 127)) s = true.
Proof.
  induction 1 as [|c r Hc Hr [IH1 IH2]]; [split; reflexivity|]. cbn [forallb]. rewrite IH1, IH2.
  unfold is_digit in Hc. unfold is_alnum_us_hy, is_alnum_us, is_alpha_us, NamesSpec.is_digit, is_upper, is_lower.
  split; apply andb_true_intro; split; auto; lia.
Qed.

Lemma split_digits : forall s, Forall is_digit s -> NamesSpec.split 46 s = [s].
Proof.
  induction 1 as [|c r Hc Hr IH]; [reflexivity|]. cbn [NamesSpec.split]. unfold is_digit in Hc.
  destruct (N.eqb_spec c 46); [lia|]. rewrite IH. reflexivity.
Qed.

Lemma split_dotted : forall a b, Forall is_digit a -> Forall is_digit b -> NamesSpec.split 46 (a ++ 46 :: b) = [a; b].
Proof.
  induction 1 as [|c r Hc Hr IH]; intros Hb; cbn [app NamesSpec.split].
  - rewrite N.eqb_refl. rewrite split_digits by exact Hb. reflexivity.
  - unfold is_digit in Hc. destruct (N.eqb_spec c 46); [lia|]. rewrite (IH Hb). reflexivity.
Qed.

Lemma dec_nonempty a : dec a <> [].
Proof.
  unfold dec. destruct (Z.to_N a) as [|p]; [discriminate|]. cbn [N.to_uint].
  pose proof (Unsigned.to_uint_nonnil p) as H. destruct (Pos.to_uint p); [contradiction|..]; discriminate.
Qed.

Lemma element_digits s : Forall is_digit s -> s <> [] -> element is_alnum_us_hy is_alnum_us_hy s = true.
Proof.
  intros H Hn. destruct s as [|c r]; [contradiction|]. destruct (digits_name_chars _ H) as [H1 _].
  cbn [element]. cbn [forallb] in H1. exact H1.
Qed.

(* every name create_unique_client_name can produce is a valid SENDER value, as long as it is not
   longer than a bus name may be (255 bytes; INT_MAX has 10 digits) *)
Theorem minted_name_ok a b : nlen (unique_name a b) <= 255 -> name_ok (unique_name a b) = true.
Proof.
  intros L. unfold name_ok. apply andb_true_intro. split; [apply andb_true_intro; split|].
  - unfold unique_name in *. cbn [spec_bus_name spec_unique].
    replace (nlen (58 :: dec a ++ 46 :: dec b) <=? max_name) with true by (symmetry; apply N.leb_le; exact L).
    rewrite split_dotted by apply dec_digits. cbn [andb forallb nlen length N.of_nat].
    rewrite !element_digits; auto using dec_digits, dec_nonempty.
  - unfold spec_utf8. apply ascii_utf8; [lia|]. unfold unique_name. cbn [forallb]. cbn.
    rewrite forallb_app. cbn [forallb].
    rewrite (proj2 (digits_name_chars _ (dec_digits a))), (proj2 (digits_name_chars _ (dec_digits b))). reflexivity.
  - apply N.ltb_lt. lia.
Qed.
