(* C13 proofs, part 2: one step of the registry model (Registry.step, C04) as seen
   from the limits model: the limit field and id counter, the shapes of the
   connection table, the bound on services_owned, which messages can occur, and
   independence from the configured limit when it does not refuse. *)
From DV Require Import Lib.Base Gen.Tables Wire.Names Registry.RegTypes Registry.Registry
  Spec.NamesSpec Spec.RegistrySpec Proofs.RegistryBase Proofs.RegistryInv Proofs.RegistryMain.
From DV Require Import Limits.Limits Spec.LimitsSpec Proofs.LimitsBase.
From Coq Require Import ZifyBool ZifyN ZifyNat.
Local Open Scope N_scope.

Ltac break_hyp H :=
  repeat match type of H with
         | context[match ?x with _ => _ end] => destruct x eqn:?
         | context[if ?x then _ else _] => destruct x eqn:?
         end.

(* ---- acquire / release: the connection table --------------------------------------------- *)
(* the caller is already in the queue of the name: what bus_service_owner_in_queue tells the limit test *)
Definition holds (b : bus) (c : N) (name : bytes) : bool :=
  match lookup (b_services b) (KW name) with
  | Some q => match find_owner q c with Some _ => true | None => false end
  | None => false
  end.

Lemma add_owner_held k q c flags o : find_owner q c = Some o ->
  match add_owner k q c flags with Some (_, fr, _) => fr = false | None => True end.
Proof.
  intros H. unfold add_owner. rewrite H. destruct (has_flag flags DBUS_NAME_FLAG_REPLACE_EXISTING); [|reflexivity].
  destruct (unlink_conn q c); [exact I | reflexivity].
Qed.

Lemma acquire_conns b cn name flags cs ss code es :
  acquire_service b cn name flags = ROk cs ss code es ->
  find_conn (b_conns b) (c_id cn) = Some cn -> forall f, (forall i, b_limit b <= f i) -> boundedf f (b_conns b) ->
  shapes cs = shapes (b_conns b) /\ boundedf f cs.
Proof.
  intros H Hf f Hlim B. unfold acquire_service in H.
  destruct (negb (validate_bus_name name)); [discriminate|].
  destruct (starts_with_colon name); [discriminate|].
  destruct (bytes_eqb name DBUS_SERVICE_DBUS_str); [discriminate|].
  assert (Badd : b_limit b <=? nlen (c_owned cn) = false -> boundedf f (own_add (b_conns b) (c_id cn) (KW name))).
  { intros Hl. apply N.leb_gt in Hl. eapply own_add_boundedf; eauto. }
  destruct (lookup (b_services b) (KW name)) as [[|p w]|] eqn:Hlk.
  - cbn [find_owner] in H. destruct ((b_limit b <=? nlen (c_owned cn)) && negb false); discriminate H.
  - destruct (find_owner (p :: w) (c_id cn)) as [o|] eqn:Hfo.
    + (* already in the queue: no new BusOwner, services_owned does not grow *)
      rewrite andb_false_r in H. pose proof (add_owner_held (KW name) _ _ flags _ Hfo) as Hfr.
      destruct (add_owner (KW name) (p :: w) (c_id cn) flags) as [[[q' fr] es']|]; [subst fr|].
      all: break_hyp H; try discriminate; inversion H; subst; clear H;
        rewrite ?own_del_shapes; (split; [reflexivity|]); repeat apply own_del_boundedf; assumption.
    + rewrite andb_true_r in H. destruct (b_limit b <=? nlen (c_owned cn)) eqn:Hl; [discriminate|]. specialize (Badd eq_refl).
      break_hyp H; try discriminate; inversion H; subst; clear H;
        rewrite ?own_del_shapes, ?own_add_shapes; (split; [reflexivity|]); repeat apply own_del_boundedf; assumption.
  - rewrite andb_true_r in H. destruct (b_limit b <=? nlen (c_owned cn)) eqn:Hl; [discriminate|]. specialize (Badd eq_refl).
    break_hyp H; try discriminate; inversion H; subst; clear H;
      rewrite ?own_add_shapes; (split; [reflexivity|]); assumption.
Qed.

Lemma release_conns b cn name cs ss code es :
  release_service b cn name = ROk cs ss code es -> forall f, boundedf f (b_conns b) ->
  shapes cs = shapes (b_conns b) /\ boundedf f cs.
Proof.
  intros H f B. unfold release_service in H.
  break_hyp H; try discriminate; inversion H; subst; clear H;
    rewrite ?own_del_shapes; (split; [reflexivity|]); repeat apply own_del_boundedf; assumption.
Qed.

Lemma release_all_conns (lim : N -> N) c ks : forall cs ss cs' ss' es,
  release_all cs ss c ks = Some (cs', ss', es) -> shapes cs' = shapes cs /\ (boundedf lim cs -> boundedf lim cs').
Proof.
  induction ks as [|k ks IH]; intros cs ss cs' ss' es H; simpl in H.
  - inversion H; subst. auto.
  - destruct (lookup ss k); [|discriminate]. destruct (remove_owner k q c) as [[q' e1]|]; [|discriminate].
    destruct (release_all (own_del cs c k) (put_queue ss k q') c ks) as [[[cs1 ss1] es1]|] eqn:E; [|discriminate].
    inversion H; subst. destruct (IH _ _ _ _ _ E) as [S Bd]. rewrite own_del_shapes in S. split; [exact S|].
    intros B. apply Bd. apply own_del_boundedf. exact B.
Qed.

(* ---- Registry.step, event by event ------------------------------------------------------------ *)
Lemma step_limit b e : b_limit (fst (step b e)) = b_limit b.
Proof.
  destruct e; simpl; unfold fault, with_services;
    repeat match goal with |- context[match ?x with _ => _ end] => destruct x end; reflexivity.
Qed.

Lemma bus_eta b : mkBus (b_conns b) (b_services b) (b_next b) (b_limit b) = b.
Proof. destruct b; reflexivity. Qed.

Definition no_fault (o : list RegTypes.out) : Prop := existsb is_fault o = false.

Lemma step_request_conns b c name flags f :
  (forall i, b_limit b <= f i) -> boundedf f (b_conns b) ->
  let b' := fst (step b (EvRequest c name flags)) in
  shapes (b_conns b') = shapes (b_conns b) /\ boundedf f (b_conns b') /\ b_next b' = b_next b.
Proof.
  intros Hlim B. simpl. destruct (find_conn (b_conns b) c) as [cn|] eqn:Hf; [|simpl; auto].
  destruct (negb (c_active cn)); [simpl; auto|].
  assert (Hc : c_id cn = c) by (apply find_conn_in in Hf; tauto).
  destruct (acquire_service b cn name flags) eqn:Ha; simpl; auto.
  rewrite <- Hc in Hf. destruct (acquire_conns _ _ _ _ _ _ _ _ Ha Hf f Hlim B). auto.
Qed.

Lemma step_release_conns b c name f :
  boundedf f (b_conns b) ->
  let b' := fst (step b (EvRelease c name)) in
  shapes (b_conns b') = shapes (b_conns b) /\ boundedf f (b_conns b') /\ b_next b' = b_next b.
Proof.
  intros B. simpl. destruct (find_conn (b_conns b) c) as [cn|] eqn:Hf; [|simpl; auto].
  destruct (negb (c_active cn)); [simpl; auto|].
  destruct (release_service b cn name) eqn:Ha; simpl; auto.
  destruct (release_conns _ _ _ _ _ _ _ Ha f B). auto.
Qed.

(* Hello that does not fault: exactly that connection becomes active and owns its unique name *)
Lemma step_hello b c b' o : step b (EvHello c) = (b', o) -> no_fault o ->
  (exists cn, find_conn (b_conns b) c = Some cn /\
     (c_active cn = true /\ b' = b \/
      c_active cn = false /\
      b_conns b' = upd_conn (b_conns b) c (fun x => mkConn (c_id x) true (c_match x) (c_owned x ++ [KU c])) /\
      b_next b' = b_next b)).
Proof.
  simpl. unfold fault. destruct (find_conn (b_conns b) c) as [cn|] eqn:Hf.
  - destruct (c_active cn) eqn:Ha.
    + intros H _. inversion H; subst. exists cn. auto.
    + destruct (lookup (b_services b) (KU c)).
      * intros H N. inversion H; subst. discriminate.
      * simpl. intros H _. inversion H; subst. exists cn. split; [reflexivity|]. right. auto.
  - intros H N. inversion H; subst. discriminate.
Qed.

Lemma step_disconnect b c b' o (lim : N -> N) : step b (EvDisconnect c) = (b', o) -> no_fault o ->
  exists cn, find_conn (b_conns b) c = Some cn /\
    shapes (b_conns b') = del_shape (shapes (b_conns b)) c /\ b_next b' = b_next b /\
    (boundedf lim (b_conns b) -> boundedf lim (b_conns b')).
Proof.
  simpl. unfold fault. destruct (find_conn (b_conns b) c) as [cn|] eqn:Hf.
  - destruct (release_all (b_conns b) (b_services b) c (rev (c_owned cn))) as [[[cs ss] es]|] eqn:E.
    + intros H _. inversion H; subst. exists cn. split; [reflexivity|]. simpl.
      destruct (release_all_conns lim _ _ _ _ _ _ _ E) as [S Bd]. rewrite del_conn_shapes, S. split; [reflexivity|]. split; [reflexivity|].
      intros B x Hx. apply del_conn_in in Hx. apply Bd; assumption.
    + intros H N. inversion H; subst. discriminate.
  - intros H N. inversion H; subst. discriminate.
Qed.

(* ---- which messages occur ------------------------------------------------------------------------ *)
Definition is_signal (m : msg) : bool :=
  match m with MAcquired _ | MLost _ | MNOC _ _ _ => true | _ => false end.
Definition emit_msg (e : emit) : msg := match e with EUni _ m => m | EBcast m => m end.

Lemma deliver_msgs cs es o : In o (deliver cs es) -> exists e, In e es /\ snd o = emit_msg e.
Proof.
  unfold deliver. intros H. apply in_flat_map in H. destruct H as [e [He Ho]]. exists e. split; [exact He|].
  destruct e; simpl in Ho.
  - destruct Ho as [<-|[]]. reflexivity.
  - apply in_map_iff in Ho. destruct Ho as [x [<- _]]. reflexivity.
Qed.

Definition signals_only (es : list emit) : Prop := forall e, In e es -> is_signal (emit_msg e) = true.

Lemma signals_app a b : signals_only a -> signals_only b -> signals_only (a ++ b).
Proof. intros A B e H. apply in_app_or in H. destruct H; auto. Qed.

Lemma handover_signals k c rest : signals_only (handover k c rest).
Proof. unfold handover. destruct rest; intros e H; simpl in H; intuition (subst; reflexivity). Qed.

Lemma add_owner_signals k q c flags q' fr es : add_owner k q c flags = Some (q', fr, es) -> signals_only es.
Proof.
  unfold add_owner. intros H.
  assert (S : signals_only (if is_nil q then [EUni c (MAcquired k)] else [])).
  { destruct (is_nil q); intros e He; simpl in He; intuition (subst; reflexivity). }
  break_hyp H; try discriminate; inversion H; subst; exact S.
Qed.

Lemma remove_owner_signals k q c q' es : remove_owner k q c = Some (q', es) -> signals_only es.
Proof.
  unfold remove_owner. intros H. break_hyp H; try discriminate; inversion H; subst; try apply handover_signals.
  intros e [].
Qed.

Lemma swap_owner_signals k q c q' es : swap_owner k q c = Some (q', es) -> signals_only es.
Proof.
  unfold swap_owner. intros H. destruct q as [|p [|n rest]]; try discriminate.
  destruct (o_conn p =? c); [|discriminate]. inversion H; subst. exact (handover_signals k c (n :: rest)).
Qed.

Lemma nil_signals : signals_only [].
Proof. intros e []. Qed.

Lemma acquire_signals b cn name flags cs ss code es :
  acquire_service b cn name flags = ROk cs ss code es -> signals_only es.
Proof.
  intros H. unfold acquire_service in H.
  destruct (negb (validate_bus_name name)); [discriminate|].
  destruct (starts_with_colon name); [discriminate|].
  destruct (bytes_eqb name DBUS_SERVICE_DBUS_str); [discriminate|].
  match type of H with (if ?X then _ else _) = _ => destruct X; [discriminate|] end.
  destruct (lookup (b_services b) (KW name)) as [[|p waiting]|] eqn:Hl; [discriminate| |].
  - destruct (o_conn p =? c_id cn); [inversion H; subst; apply nil_signals|].
    destruct ((has_flag flags DBUS_NAME_FLAG_DO_NOT_QUEUE && negb (o_allow p)) || (has_flag flags DBUS_NAME_FLAG_DO_NOT_QUEUE && negb (has_flag flags DBUS_NAME_FLAG_REPLACE_EXISTING))).
    { destruct (find_owner (p :: waiting) (c_id cn)); inversion H; subst; apply nil_signals. }
    destruct (negb (has_flag flags DBUS_NAME_FLAG_DO_NOT_QUEUE) && (negb (has_flag flags DBUS_NAME_FLAG_REPLACE_EXISTING) || negb (o_allow p))).
    { destruct (add_owner (KW name) (p :: waiting) (c_id cn) flags) as [[[q' fr] es']|] eqn:Ea; [|discriminate].
      inversion H; subst. eapply add_owner_signals; eauto. }
    destruct (add_owner (KW name) (p :: waiting) (c_id cn) flags) as [[[q' fr] es']|] eqn:Ea; [|discriminate].
    pose proof (add_owner_signals _ _ _ _ _ _ _ Ea) as S1.
    destruct (o_dnq p).
    + destruct (remove_owner (KW name) q' (o_conn p)) as [[q'' es'']|] eqn:Er; [|discriminate].
      pose proof (remove_owner_signals _ _ _ _ _ Er) as S2.
      break_hyp H; try discriminate; inversion H; subst; apply signals_app; assumption.
    + destruct (swap_owner (KW name) q' (o_conn p)) as [[q'' es'']|] eqn:Er; [|discriminate].
      pose proof (swap_owner_signals _ _ _ _ _ Er) as S2.
      break_hyp H; try discriminate; inversion H; subst; apply signals_app; assumption.
  - destruct (add_owner (KW name) [] (c_id cn) flags) as [[[q' fr] es']|] eqn:Ea; [|discriminate].
    inversion H; subst. intros e [<-|He]; [reflexivity|]. eapply add_owner_signals; eauto.
Qed.

Lemma release_signals b cn name cs ss code es :
  release_service b cn name = ROk cs ss code es -> signals_only es.
Proof.
  intros H. unfold release_service in H.
  destruct (negb (validate_bus_name name)); [discriminate|].
  destruct (starts_with_colon name); [discriminate|].
  destruct (bytes_eqb name DBUS_SERVICE_DBUS_str); [discriminate|].
  destruct (lookup (b_services b) (KW name)) as [q|]; [|inversion H; subst; apply nil_signals].
  destruct (find_owner q (c_id cn)); [|inversion H; subst; apply nil_signals].
  destruct (remove_owner (KW name) q (c_id cn)) as [[q' es']|] eqn:Er; [|discriminate].
  inversion H; subst. eapply remove_owner_signals; eauto.
Qed.

Lemma release_all_signals c ks : forall cs ss cs' ss' es,
  release_all cs ss c ks = Some (cs', ss', es) -> signals_only es.
Proof.
  induction ks as [|k ks IH]; intros cs ss cs' ss' es H; simpl in H.
  - inversion H; subst. apply nil_signals.
  - destruct (lookup ss k); [|discriminate]. destruct (remove_owner k q c) as [[q' e1]|] eqn:Er; [|discriminate].
    destruct (release_all (own_del cs c k) (put_queue ss k q') c ks) as [[[cs1 ss1] es1]|] eqn:E; [|discriminate].
    inversion H; subst. apply signals_app; [eapply remove_owner_signals; eauto | eapply IH; eauto].
Qed.

Definition not_error (m : msg) : bool := match m with MError _ => false | _ => true end.
Definition emits_ok (es : list emit) : Prop := forall e, In e es -> not_error (emit_msg e) = true.

Lemma signals_emits_ok es : signals_only es -> emits_ok es.
Proof. intros S e He. specialize (S e He). destruct (emit_msg e); try discriminate; reflexivity. Qed.

Lemma emits_ok_app a b : emits_ok a -> emits_ok b -> emits_ok (a ++ b).
Proof. intros A B e H. apply in_app_or in H. destruct H; auto. Qed.

Lemma emits_ok_cons e es : not_error (emit_msg e) = true -> emits_ok es -> emits_ok (e :: es).
Proof. intros A B x [<-|H]; auto. Qed.

Lemma deliver_not_error cs es o : emits_ok es -> In o (deliver cs es) -> not_error (snd o) = true.
Proof. intros S H. apply deliver_msgs in H. destruct H as [e [He ->]]. apply S. exact He. Qed.

(* an error reply leaves a registry step only alone and together with an unchanged bus *)
Definition error_context (b : bus) (ev : RegTypes.event) (e : err) : Prop :=
  match ev with
  | EvConnect => False
  | EvDisconnect _ => False
  | EvHello c => exists cn, find_conn (b_conns b) c = Some cn /\ c_active cn = true
  | EvRelease _ _ => e <> ELimitsExceeded
  | _ => True
  end.

Lemma release_error b cn name e : release_service b cn name = RErr e -> e = EInvalidArgs.
Proof.
  unfold release_service. intros H. break_hyp H; try discriminate; inversion H; reflexivity.
Qed.

Lemma step_error b ev o e : In o (snd (step b ev)) -> snd o = MError e ->
  fst (step b ev) = b /\ snd (step b ev) = [o] /\ error_context b ev e.
Proof.
  destruct ev; simpl; unfold fault.
  - intros [].
  - destruct (find_conn (b_conns b) c) as [cn|] eqn:Hf; [|simpl; intros [<-|[]] E; discriminate E].
    destruct (c_active cn) eqn:Ha; [simpl; intros [<-|[]] E; repeat split; eauto|].
    destruct (lookup (b_services b) (KU c)); [simpl; intros [<-|[]] E; discriminate E|]. simpl.
    intros H E. exfalso. destruct H as [<-|H]; [discriminate E|].
    apply in_app_or in H. destruct H as [H|[<-|[]]]; [|discriminate E].
    apply in_map_iff in H. destruct H as [x [<- _]]. discriminate E.
  - destruct (find_conn (b_conns b) c) as [cn|]; [|simpl; intros [<-|[]] E; discriminate E].
    destruct (negb (c_active cn)); simpl; intros [<-|[]] E; [repeat split | discriminate E].
  - destruct (find_conn (b_conns b) c) as [cn|]; [|simpl; intros [<-|[]] E; discriminate E].
    destruct (negb (c_active cn)); [simpl; intros [<-|[]] E; repeat split|].
    destruct (acquire_service b cn name flags) eqn:Ha; [simpl; intros [<-|[]] E; repeat split | | simpl; intros [<-|[]] E; discriminate E]. simpl.
    intros H E. exfalso.
    assert (N : not_error (snd o) = true).
    { eapply deliver_not_error; [|exact H]. apply emits_ok_app; [apply signals_emits_ok; eapply acquire_signals; eauto|].
      apply emits_ok_cons; [reflexivity|]. intros x []. }
    rewrite E in N. discriminate.
  - destruct (find_conn (b_conns b) c) as [cn|]; [|simpl; intros [<-|[]] E; discriminate E].
    destruct (negb (c_active cn)); [simpl; intros [<-|[]] E; inversion E; repeat split; discriminate|].
    destruct (release_service b cn name) eqn:Ha; [simpl; intros [<-|[]] E | | simpl; intros [<-|[]] E; discriminate E].
    { inversion E; subst. apply release_error in Ha. subst. repeat split. discriminate. }
    simpl. intros H E. exfalso.
    assert (N : not_error (snd o) = true).
    { eapply deliver_not_error; [|exact H]. apply emits_ok_app; [apply signals_emits_ok; eapply release_signals; eauto|].
      apply emits_ok_cons; [reflexivity|]. intros x []. }
    rewrite E in N. discriminate.
  - destruct (find_conn (b_conns b) c) as [cn|]; [|simpl; intros [<-|[]] E; discriminate E].
    destruct (release_all (b_conns b) (b_services b) c (rev (c_owned cn))) as [[[cs ss] es]|] eqn:Er; [|simpl; intros [<-|[]] E; discriminate E]. simpl.
    intros H E. exfalso. apply filter_In in H. destruct H as [H _].
    assert (N : not_error (snd o) = true).
    { eapply deliver_not_error; [|exact H]. apply signals_emits_ok. eapply release_all_signals; eauto. }
    rewrite E in N. discriminate.
Qed.

Lemma step_error_noop b ev o e : In o (snd (step b ev)) -> snd o = MError e -> fst (step b ev) = b.
Proof. intros H E. exact (proj1 (step_error b ev o e H E)). Qed.

(* ---- the configured limit matters only when it refuses ------------------------------------------------ *)
Lemma acquire_limit_irrel cs ss n l1 l2 cn name flags :
  acquire_service (mkBus cs ss n l1) cn name flags <> RErr ELimitsExceeded ->
  acquire_service (mkBus cs ss n l2) cn name flags <> RErr ELimitsExceeded ->
  acquire_service (mkBus cs ss n l1) cn name flags = acquire_service (mkBus cs ss n l2) cn name flags.
Proof.
  unfold acquire_service. cbn [b_limit b_conns b_services].
  destruct (negb (validate_bus_name name)); [reflexivity|].
  destruct (starts_with_colon name); [reflexivity|].
  destruct (bytes_eqb name DBUS_SERVICE_DBUS_str); [reflexivity|].
  match goal with |- context[(l1 <=? ?n) && ?h] =>
    destruct ((l1 <=? n) && h); [intros H; exfalso; apply H; reflexivity|];
    destruct ((l2 <=? n) && h); [intros _ H; exfalso; apply H; reflexivity|] end.
  reflexivity.
Qed.

Definition core (b : bus) := (b_conns b, b_services b, b_next b).
Definition no_limit_error (o : list RegTypes.out) : Prop := forall c, ~ In (c, MError ELimitsExceeded) o.

Lemma step_limit_irrel cs ss n l1 l2 e :
  no_limit_error (snd (step (mkBus cs ss n l1) e)) -> no_limit_error (snd (step (mkBus cs ss n l2) e)) ->
  core (fst (step (mkBus cs ss n l1) e)) = core (fst (step (mkBus cs ss n l2) e)) /\
  snd (step (mkBus cs ss n l1) e) = snd (step (mkBus cs ss n l2) e).
Proof.
  destruct e.
  - intros _ _. split; reflexivity.
  - intros _ _. cbn [step b_conns b_services b_next]. unfold fault, with_services, core. cbn [b_conns b_services b_next b_limit].
    destruct (find_conn cs c) as [cn|]; [|split; reflexivity]. destruct (c_active cn); [split; reflexivity|].
    destruct (lookup ss (KU c)); [split; reflexivity|]. destruct (add_owner (KU c) [] c 0) as [[[q fr] es]|]; split; reflexivity.
  - intros _ _. cbn [step b_conns b_services b_next]. unfold fault, with_services, core. cbn [b_conns b_services b_next b_limit].
    destruct (find_conn cs c) as [cn|]; [|split; reflexivity]. destruct (negb (c_active cn)); split; reflexivity.
  - cbn [step b_conns b_services b_next]. unfold fault, with_services, core. cbn [b_conns b_services b_next b_limit].
    destruct (find_conn cs c) as [cn|]; [|split; reflexivity]. destruct (negb (c_active cn)); [split; reflexivity|].
    intros N1 N2.
    assert (A1 : acquire_service (mkBus cs ss n l1) cn name flags <> RErr ELimitsExceeded).
    { intros E. rewrite E in N1. apply (N1 c). left. reflexivity. }
    assert (A2 : acquire_service (mkBus cs ss n l2) cn name flags <> RErr ELimitsExceeded).
    { intros E. rewrite E in N2. apply (N2 c). left. reflexivity. }
    rewrite (acquire_limit_irrel cs ss n l1 l2 cn name flags A1 A2).
    destruct (acquire_service (mkBus cs ss n l2) cn name flags); split; reflexivity.
  - intros _ _. cbn [step b_conns b_services b_next]. unfold fault, with_services, core. cbn [b_conns b_services b_next b_limit].
    destruct (find_conn cs c) as [cn|]; [|split; reflexivity]. destruct (negb (c_active cn)); [split; reflexivity|].
    change (release_service (mkBus cs ss n l1) cn name) with (release_service (mkBus cs ss n l2) cn name).
    destruct (release_service (mkBus cs ss n l2) cn name); split; reflexivity.
  - intros _ _. cbn [step b_conns b_services b_next]. unfold fault, with_services, core. cbn [b_conns b_services b_next b_limit].
    destruct (find_conn cs c) as [cn|]; [|split; reflexivity].
    destruct (release_all cs ss c (rev (c_owned cn))) as [[[cs' ss'] es]|]; split; reflexivity.
Qed.

(* ---- names held, read off the queues ------------------------------------------------------------------- *)
Lemma in_queue_queued c k q : in_queue c (k, q) = queued c q.
Proof. reflexivity. Qed.

Lemma names_members b c k : inv b ->
  In k (keys (filter (in_queue c) (b_services b))) <-> queued c (mget (b_services b) k) = true.
Proof.
  intros I. unfold keys. split.
  - intros H. apply in_map_iff in H. destruct H as [[k' q] [E H]]. simpl in E. subst k'. apply filter_In in H. destruct H as [Hin Hq].
    unfold mget. rewrite (in_lookup _ _ _ (inv_keys _ I) Hin). exact Hq.
  - intros H. unfold mget in H. destruct (lookup (b_services b) k) as [q|] eqn:El; [|discriminate].
    apply in_map_iff. exists (k, q). split; [reflexivity|]. apply filter_In. split; [apply lookup_some_in; exact El | exact H].
Qed.

Lemma names_exact b x : inv b -> In x (b_conns b) ->
  nlen (c_owned x) = nlen (filter (in_queue (c_id x)) (b_services b)).
Proof.
  intros I Hx. unfold nlen. f_equal. destruct (inv_owned _ I x Hx) as [Nd Ho].
  rewrite <- (map_length fst (filter (in_queue (c_id x)) (b_services b))).
  apply length_eq_of_same_members; [exact Nd | apply nodup_map_filter; exact (inv_keys _ I) |].
  intros k. rewrite Ho. symmetry. apply (names_members b (c_id x) k I).
Qed.

Lemma names_dead b c : inv b -> ~ In c (ids (b_conns b)) -> filter (in_queue c) (b_services b) = [].
Proof.
  intros I Hn. destruct (filter (in_queue c) (b_services b)) as [|[k q] r] eqn:E; [reflexivity|]. exfalso.
  assert (Hk : In k (keys (filter (in_queue c) (b_services b)))) by (rewrite E; left; reflexivity).
  apply (names_members b c k I) in Hk. destruct (inv_members _ I k c Hk) as [x [Hx [Hc _]]].
  apply Hn. unfold ids. apply in_map_iff. exists x. auto.
Qed.

(* ---- runs of the registry model ----------------------------------------------------------------------------- *)
Lemma run_snoc b h e : fst (run b (h ++ [e])) = fst (step (fst (run b h)) e).
Proof.
  revert b. induction h as [|x h IH]; intros b; simpl.
  - destruct (step b e); reflexivity.
  - destruct (step b x) as [b1 o]. specialize (IH b1). destruct (run b1 (h ++ [e])). destruct (run b1 h). exact IH.
Qed.

Definition reg_reachable (lim : N) (b : bus) : Prop := exists h, b = fst (run (init_bus lim) h).

Lemma reg_reachable_step lim b e : reg_reachable lim b -> reg_reachable lim (fst (step b e)).
Proof. intros [h ->]. exists (h ++ [e]). symmetry. apply run_snoc. Qed.

Lemma reg_reachable_inv lim b : reg_reachable lim b -> inv b.
Proof. intros [h ->]. apply reachable_inv. Qed.

Lemma reg_reachable_limit lim b : reg_reachable lim b -> b_limit b = lim.
Proof.
  intros [h ->]. induction h as [|e h IH] using rev_ind; [reflexivity|]. rewrite run_snoc, step_limit. exact IH.
Qed.

Lemma step_limit_irrel_other cs ss n l1 l2 e :
  (forall c name flags, e <> EvRequest c name flags) ->
  core (fst (step (mkBus cs ss n l1) e)) = core (fst (step (mkBus cs ss n l2) e)) /\
  snd (step (mkBus cs ss n l1) e) = snd (step (mkBus cs ss n l2) e).
Proof.
  intros Hne. destruct e; try (apply step_limit_irrel; intros c0 Hin; exfalso).
  - simpl in Hin. exact Hin.
  - simpl in Hin. exact Hin.
  - destruct (step_error _ _ _ ELimitsExceeded Hin eq_refl) as [_ [_ [cn [_ _]]]].
    revert Hin. simpl. unfold fault. destruct (find_conn cs c) as [cn'|]; [|intros [H|[]]; discriminate H].
    destruct (c_active cn'); [intros [H|[]]; discriminate H|]. destruct (lookup ss (KU c)); [intros [H|[]]; discriminate H|].
    simpl. intros [H|H]; [discriminate H|]. apply in_app_or in H. destruct H as [H|[H|[]]]; [|discriminate H].
    apply in_map_iff in H. destruct H as [x [H _]]. discriminate H.
  - destruct (step_error _ _ _ ELimitsExceeded Hin eq_refl) as [_ [_ _]].
    revert Hin. simpl. unfold fault. destruct (find_conn cs c) as [cn'|]; [|intros [H|[]]; discriminate H].
    destruct (c_active cn'); [intros [H|[]]; discriminate H|]. destruct (lookup ss (KU c)); [intros [H|[]]; discriminate H|].
    simpl. intros [H|H]; [discriminate H|]. apply in_app_or in H. destruct H as [H|[H|[]]]; [|discriminate H].
    apply in_map_iff in H. destruct H as [x [H _]]. discriminate H.
  - revert Hin. simpl. unfold fault. destruct (find_conn cs c) as [cn'|]; [|intros [H|[]]; discriminate H].
    destruct (negb (c_active cn')); intros [H|[]]; discriminate H.
  - revert Hin. simpl. unfold fault. destruct (find_conn cs c) as [cn'|]; [|intros [H|[]]; discriminate H].
    destruct (negb (c_active cn')); intros [H|[]]; discriminate H.
  - exfalso. eapply Hne. reflexivity.
  - exfalso. eapply Hne. reflexivity.
  - destruct (step_error _ _ _ ELimitsExceeded Hin eq_refl) as [_ [_ F]]. apply F. reflexivity.
  - destruct (step_error _ _ _ ELimitsExceeded Hin eq_refl) as [_ [_ F]]. apply F. reflexivity.
  - destruct (step_error _ _ _ ELimitsExceeded Hin eq_refl) as [_ [_ F]]. exact F.
  - destruct (step_error _ _ _ ELimitsExceeded Hin eq_refl) as [_ [_ F]]. exact F.
Qed.

(* ---- the registry invariant without reference to a run (needed when the limit changes in mid-history) ------ *)
Lemma sget_mget ss k : sget ss k = mget ss k.
Proof.
  unfold sget, mget. induction ss as [|[k' q] ss IH]; [reflexivity|]. simpl. destruct (key_eqb k k'); [reflexivity | exact IH].
Qed.

Lemma inv_R b : inv b -> exists s, R b s.
Proof.
  intros I. exists (mkS (map abs_conn (b_conns b)) (b_services b) (b_next b) (b_limit b)).
  constructor; simpl; try reflexivity.
  - intros k. apply sget_mget.
  - exact (inv_keys _ I).
Qed.

Lemma inv_step b e : inv b -> inv (fst (step b e)).
Proof.
  intros I. destruct (inv_R b I) as [s Rr].
  pose proof (refinement [e] b s 0%nat I Rr) as H. cbv zeta in H. destruct H as [_ [_ [H _]]].
  simpl in H. destruct (step b e) as [b1 o]. exact H.
Qed.

Lemma inv_relimit cs ss n l l' : inv (mkBus cs ss n l) -> inv (mkBus cs ss n l').
Proof. intros I. destruct I. constructor; assumption. Qed.

Lemma inv_no_fault b c cn : inv b -> find_conn (b_conns b) c = Some cn ->
  existsb is_fault (snd (step b (EvDisconnect c))) = false.
Proof.
  intros I Hf. destruct (inv_R b I) as [s Rr].
  destruct (existsb is_fault (snd (step b (EvDisconnect c)))) eqn:E; [|reflexivity]. exfalso.
  apply existsb_exists in E. destruct E as [o [Ho Fo]].
  assert (Hc : forall c', event_conn (EvDisconnect c) = Some c' -> find_conn (b_conns b) c' <> None).
  { intros c' Ec. inversion Ec; subst c'. rewrite Hf. discriminate. }
  pose proof (RegistryMain.no_fault b s (EvDisconnect c) I Rr Hc o Ho) as Hn.
  unfold is_fault in Fo. destruct (snd o); try discriminate. apply Hn. reflexivity.
Qed.
