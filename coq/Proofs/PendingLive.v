(* C17: "completes exactly once", the progress half, for single-threaded use
   (run1): a call that is still in the table while a message carrying its
   serial sits in the incoming queue is completed by dispatching the queue,
   exactly once, and notified exactly once.  A timeout that fires puts such a
   message into the queue. *)
From Coq Require Import List NArith Bool Lia ZArith ZifyBool ZifyN ZifyNat.
Import ListNotations.
From DV Require Import PendingCall.Pending Spec.PendingSpec Proofs.PendingSerial Proofs.PendingLemmas Proofs.PendingInv
  Proofs.PendingRel Proofs.PendingCancel Proofs.PendingFault.
Local Open Scope N_scope.

(* ---- what step1's trailing EFinish events do ---- *)
Definition fin (c : call) : call := if c_inflight c then set_finished c else c.
Definition flushed (st : state) : state := set_calls st (map fin (calls st)).

Lemma set_calls_same st : set_calls st (calls st) = st.
Proof. destruct st; reflexivity. Qed.

Lemma upd_app_here {A} (pre : list A) x r f : upd (pre ++ x :: r) (length pre) f = pre ++ f x :: r.
Proof. induction pre; simpl; auto. f_equal; auto. Qed.

Lemma nth_error_app_here {A} (pre : list A) x r : nth_error (pre ++ x :: r) (length pre) = Some x.
Proof. induction pre; simpl; auto. Qed.

Lemma flush_eq_gen cs : forall pre st, fault st = 0 -> calls st = pre ++ cs ->
  fst (run st (inflight_from cs (length pre))) = set_calls st (pre ++ map fin cs).
Proof.
  induction cs as [|c r IH]; intros pre st Hf Hc; simpl.
  - rewrite <- Hc. symmetry. apply set_calls_same.
  - rewrite run_app. destruct (c_inflight c) eqn:Ei.
    + simpl. unfold step. rewrite Hf. simpl. unfold finish. rewrite Hc, nth_error_app_here, Ei, upd_app_here.
      set (st1 := set_calls st (pre ++ set_finished c :: r)).
      specialize (IH (pre ++ [set_finished c]) st1 Hf). rewrite app_length in IH. simpl in IH. rewrite Nat.add_1_r in IH.
      rewrite <- app_assoc in IH. specialize (IH eq_refl).
      destruct (run st1 (inflight_from r (S (length pre)))) as [s2 o2]. simpl in *. rewrite IH.
      unfold st1, fin. rewrite Ei. simpl. rewrite <- app_assoc. reflexivity.
    + simpl. specialize (IH (pre ++ [c]) st Hf). rewrite app_length in IH. simpl in IH. rewrite Nat.add_1_r in IH.
      rewrite <- app_assoc in IH. specialize (IH Hc).
      destruct (run st (inflight_from r (S (length pre)))) as [s2 o2]. simpl in *. rewrite IH.
      unfold fin at 2. rewrite Ei. rewrite <- app_assoc. reflexivity.
Qed.

Lemma flush_eq st : fault st = 0 -> fst (run st (inflight_from (calls st) 0)) = flushed st.
Proof. intros Hf. exact (flush_eq_gen (calls st) [] st Hf eq_refl). Qed.

Lemma step1_fst st e : fault (fst (step st e)) = 0 -> fst (step1 st e) = flushed (fst (step st e)).
Proof.
  intros Hf. unfold step1. destruct (step st e) as [st1 o1]. simpl in *.
  pose proof (flush_eq st1 Hf) as H. destruct (run st1 (inflight_from (calls st1) 0)). simpl in *. exact H.
Qed.

Lemma fin_not_inflight c : c_inflight (fin c) = false.
Proof. unfold fin. destruct (c_inflight c) eqn:E; simpl; auto. Qed.

Definition no_inflight (st : state) : Prop := Forall (fun c => c_inflight c = false) (calls st).

Lemma flushed_no_inflight st : no_inflight (flushed st).
Proof. unfold no_inflight, flushed; simpl. apply Forall_map. apply Forall_forall. intros; apply fin_not_inflight. Qed.

(* step1 is a run *)
Lemma step1_as_run st e : step1 st e = run st (e :: inflight_from (calls (fst (step st e))) 0).
Proof.
  unfold step1. simpl. destruct (step st e) as [st1 o1]. simpl. destruct (run st1 (inflight_from (calls st1) 0)). reflexivity.
Qed.

Lemma run1_as_run h : forall st, exists h', run1 st h = run st h'.
Proof.
  induction h as [|e h IH]; intros st; simpl.
  - exists []. reflexivity.
  - rewrite step1_as_run. set (l := e :: inflight_from (calls (fst (step st e))) 0).
    destruct (run st l) as [s1 o1] eqn:E1. destruct (IH s1) as [h' Hh']. exists (l ++ h').
    rewrite run_app, E1, Hh'. reflexivity.
Qed.

Lemma run_ok h : forall st, calls_ok st -> calls_ok (fst (run st h)).
Proof.
  induction h as [|e h IH]; intros st Hok; simpl; auto.
  destruct (step st e) as [st1 o1] eqn:E. destruct (step_good _ _ _ _ E Hok) as [Hok1 _].
  specialize (IH st1 Hok1). destruct (run st1 h). exact IH.
Qed.

(* ---- completed never goes back ---- *)
Definition completed_at (i : nat) (st : state) : Prop := exists k, nth_error (cores st) i = Some k /\ k_completed k = true.

Lemma completed_step i st e : calls_ok st -> completed_at i st -> completed_at i (fst (step st e)).
Proof.
  intros Hok [k [Hn Hc]]. destruct (step st e) as [st' o] eqn:E. destruct (step_good _ _ _ _ E Hok) as [_ S]. simpl.
  destruct S as [Hcs _ _ | nf _ _ Hcs | _ _ Hcs | j k' x Hn' Hcm _ _ _ _ Hcs | j k' _ _ _ _ Hcs | j _ _ Hcs]; unfold completed_at; rewrite Hcs.
  - eauto.
  - rewrite nth_error_app1 by (apply nth_error_Some; congruence). eauto.
  - eauto.
  - rewrite nth_error_upd, Hn. destruct (Nat.eqb j i); simpl; eauto.
  - rewrite nth_error_upd, Hn. destruct (Nat.eqb j i); simpl; eauto.
  - rewrite nth_error_upd, Hn. destruct (Nat.eqb j i); simpl; eauto.
Qed.

Lemma completed_run i h : forall st, calls_ok st -> completed_at i st -> completed_at i (fst (run st h)).
Proof.
  induction h as [|e h IH]; intros st Hok Hc; simpl; auto.
  pose proof (completed_step i st e Hok Hc) as H1. destruct (step st e) as [st1 o1] eqn:E.
  destruct (step_good _ _ _ _ E Hok) as [Hok1 _]. specialize (IH st1 Hok1 H1). destruct (run st1 h). exact IH.
Qed.

Lemma completed_run1 i h st : calls_ok st -> completed_at i st -> completed_at i (fst (run1 st h)).
Proof. intros Hok Hc. destruct (run1_as_run h st) as [h' ->]. apply completed_run; auto. Qed.

(* ---- one dispatch, spelled out ---- *)
Lemma u_status_nonempty st m q : queue st = m :: q -> u_status st = st.
Proof. intros H. unfold u_status. rewrite H. reflexivity. Qed.

Definition done_fn (x : msg) (link : bool) (c : call) : call := unhash (set_started x link c).

Lemma dispatch_some st m q' j cj :
  fault st = 0 -> calls_ok st -> queue st = m :: q' -> lookup (calls st) (m_rs m) = Some j -> nth_error (calls st) j = Some cj ->
  step st EDispatch =
  (u_status (set_calls (set_queue st q') (upd (detach_serial (calls st) (c_serial cj)) j (done_fn m (c_link cj)))),
   [OComplete j m; ODispatch (data_remains (u_status (set_calls (set_queue st q') (upd (detach_serial (calls st) (c_serial cj)) j (done_fn m (c_link cj))))))]).
Proof.
  intros Hf Hok Hq Hl Hn. unfold step. rewrite Hf. simpl. unfold ev_dispatch. rewrite (u_status_nonempty _ _ _ Hq), Hq.
  simpl calls. rewrite Hl.
  pose proof (lookup_some _ _ _ Hl) as [c [Hn2 [Ht Hs]]]. rewrite Hn in Hn2. inversion Hn2; subst c.
  pose proof (Forall_nth_error _ _ _ _ Hok Hn) as (Hc1 & _ & _ & Hr & _). destruct (Hc1 Ht) as [Hcc _].
  rewrite (start_complete_ok (set_queue st q') j cj m Hn (Hr Hcc) (eq_sym Hs) Hcc). simpl fault. rewrite Hf. simpl. reflexivity.
Qed.

Lemma dispatch_none st m q' :
  fault st = 0 -> queue st = m :: q' -> lookup (calls st) (m_rs m) = None ->
  step st EDispatch = (u_status (set_queue st q'), [OFilter m; ODispatch (data_remains (u_status (set_queue st q')))]).
Proof.
  intros Hf Hq Hl. unfold step. rewrite Hf. simpl. unfold ev_dispatch. rewrite (u_status_nonempty _ _ _ Hq), Hq.
  simpl calls. rewrite Hl. simpl fault. rewrite Hf. simpl. reflexivity.
Qed.

Lemma has_match_tail (q' : list msg) m s : (exists x, In x (m :: q') /\ m_rs x = s) -> m_rs m <> s -> exists x, In x q' /\ m_rs x = s.
Proof. intros [x [[<-|Hin] Hs]] Hne; [contradiction|eauto]. Qed.

Lemma fin_ok_id c : call_ok c -> c_intable c = true -> fin c = c.
Proof.
  intros (H1 & H2 & _) Ht. unfold fin. destruct (c_inflight c) eqn:E; auto.
  destruct (H1 Ht) as [Hc _]. rewrite (H2 eq_refl) in Hc. discriminate.
Qed.

Lemma serial_fin c : c_serial (fin c) = c_serial c.
Proof. unfold fin. destruct (c_inflight c); reflexivity. Qed.
Lemma serial_detach_fn s c : c_serial (detach_fn s c) = c_serial c.
Proof. unfold detach_fn. destruct (_ && _); reflexivity. Qed.

Lemma serials_fin l : map c_serial (map fin l) = map c_serial l.
Proof. rewrite map_map. apply map_ext. apply serial_fin. Qed.
Lemma serials_detach l s : map c_serial (detach_serial l s) = map c_serial l.
Proof. rewrite detach_serial_map, map_map. apply map_ext. apply serial_detach_fn. Qed.
Lemma run1_cons st e r : run1 st (e :: r) = let '(st1, o1) := step1 st e in let '(st2, o2) := run1 st1 r in (st2, o1 ++ o2).
Proof. reflexivity. Qed.

(* the dispatches of a non-empty queue whose head is not for call i leave call i alone *)
Lemma dispatch_other st m q' i c :
  fault st = 0 -> calls_ok st -> queue st = m :: q' -> q' <> [] ->
  nth_error (calls st) i = Some c -> c_intable c = true -> m_rs m <> c_serial c ->
  let st1 := fst (step1 st EDispatch) in
  fault st1 = 0 /\ queue st1 = q' /\ nth_error (calls st1) i = Some c /\ map c_serial (calls st1) = map c_serial (calls st).
Proof.
  intros Hf Hok Hq Hne Hn Ht Hs. simpl.
  assert (Hci : call_ok c) by (eapply Forall_nth_error; eauto).
  destruct (lookup (calls st) (m_rs m)) as [j|] eqn:Hl.
  - destruct (lookup_some _ _ _ Hl) as [cj [Hnj [Htj Hsj]]].
    pose proof (dispatch_some st m q' j cj Hf Hok Hq Hl Hnj) as E.
    set (cs := upd (detach_serial (calls st) (c_serial cj)) j (done_fn m (c_link cj))) in *.
    set (s3 := set_calls (set_queue st q') cs) in *.
    assert (Hu : u_status s3 = s3) by (destruct q' as [|y q'']; [congruence|apply (u_status_nonempty s3 y q''); reflexivity]).
    rewrite Hu in E. rewrite step1_fst by (rewrite E; exact Hf). rewrite E. simpl.
    assert (Hji : j <> i) by (intro; subst j; rewrite Hn in Hnj; inversion Hnj; subst; congruence).
    repeat split; auto.
    + rewrite nth_error_map. unfold cs. rewrite nth_error_upd_neq by exact Hji.
      rewrite detach_serial_map, nth_error_map, Hn. simpl. unfold detach_fn.
      assert ((c_serial c =? c_serial cj) = false) as -> by (apply N.eqb_neq; congruence). rewrite andb_false_r.
      rewrite fin_ok_id; auto.
    + rewrite serials_fin. unfold cs. rewrite (map_upd_same c_serial) by reflexivity. apply serials_detach.
  - pose proof (dispatch_none st m q' Hf Hq Hl) as E.
    set (s3 := set_queue st q') in *.
    assert (Hu : u_status s3 = s3) by (destruct q' as [|y q'']; [congruence|apply (u_status_nonempty s3 y q''); reflexivity]).
    rewrite Hu in E. rewrite step1_fst by (rewrite E; exact Hf). rewrite E. simpl.
    repeat split; auto.
    + rewrite nth_error_map, Hn. simpl. rewrite fin_ok_id; auto.
    + apply serials_fin.
Qed.

Lemma core_batch_nth st i c : nth_error (calls st) i = Some c -> c_completed c = true ->
  completed_at i (u_status st).
Proof.
  intros Hn Hc. destruct (quiet_u_status st) as (Hcs & _). exists (core_of c). rewrite Hcs. unfold cores. rewrite nth_error_map, Hn. auto.
Qed.

(* the head of the queue is for call i: it completes *)
Lemma dispatch_match st m q' i c :
  fault st = 0 -> calls_ok st -> NoDup (map c_serial (calls st)) -> queue st = m :: q' ->
  nth_error (calls st) i = Some c -> c_intable c = true -> m_rs m = c_serial c ->
  completed_at i (fst (step1 st EDispatch)).
Proof.
  intros Hf Hok Hnd Hq Hn Ht Hs.
  pose proof (lookup_unique _ _ _ _ Hnd Hn Ht (eq_sym Hs)) as Hl.
  pose proof (dispatch_some st m q' i c Hf Hok Hq Hl Hn) as E.
  set (cs := upd (detach_serial (calls st) (c_serial c)) i (done_fn m (c_link c))) in *.
  set (s3 := set_calls (set_queue st q') cs) in *.
  assert (Hf4 : fault (u_status s3) = 0) by (rewrite (quiet_fault _ _ (quiet_u_status s3)); exact Hf).
  rewrite step1_fst by (rewrite E; exact Hf4). rewrite E. simpl.
  assert (H3 : completed_at i (u_status s3)).
  { apply (core_batch_nth s3 i (done_fn m (c_link c) (detach_fn (c_serial c) c))); [|reflexivity].
    unfold s3, cs; simpl. apply nth_error_upd_eq. rewrite detach_serial_map, nth_error_map, Hn. reflexivity. }
  destruct H3 as [k [Hk Hc]]. unfold cores in Hk. rewrite nth_error_map in Hk.
  destruct (nth_error (calls (u_status s3)) i) as [c4|] eqn:E4; [|discriminate]. inversion Hk; subst k. simpl in Hc.
  exists (core_of (fin c4)). unfold cores, flushed; simpl. rewrite !nth_error_map, E4. simpl. split; auto.
  unfold fin. destruct (c_inflight c4); simpl; auto.
Qed.

Lemma step1_dispatch_keeps st : fault st = 0 -> calls_ok st ->
  fault (fst (step1 st EDispatch)) = 0 /\ calls_ok (fst (step1 st EDispatch)) /\ no_inflight (fst (step1 st EDispatch)).
Proof.
  intros Hf Hok.
  assert (Hf1 : fault (fst (step st EDispatch)) = 0) by (unfold step; rewrite Hf; simpl; apply ev_dispatch_f0; auto).
  rewrite step1_fst by exact Hf1. repeat split; [exact Hf1| |apply flushed_no_inflight].
  rewrite <- flush_eq by exact Hf1. apply run_ok.
  destruct (step st EDispatch) as [s o] eqn:E. simpl. eapply step_good; eauto.
Qed.

Lemma run1_dispatch_keeps n : forall st, fault st = 0 -> calls_ok st ->
  fault (fst (run1 st (repeat EDispatch n))) = 0 /\ calls_ok (fst (run1 st (repeat EDispatch n))) /\
  (no_inflight st -> no_inflight (fst (run1 st (repeat EDispatch n)))).
Proof.
  induction n as [|n IH]; intros st Hf Hok; simpl; auto.
  destruct (step1_dispatch_keeps st Hf Hok) as (Hf1 & Hok1 & Hni1).
  destruct (step1 st EDispatch) as [st1 o1]. simpl in *. specialize (IH st1 Hf1 Hok1).
  destruct (run1 st1 (repeat EDispatch n)) as [st2 o2]. simpl in *. destruct IH as (A & B & C). auto.
Qed.

(* ---- draining the queue ---- *)
Theorem drain q : forall st i c,
  fault st = 0 -> calls_ok st -> NoDup (map c_serial (calls st)) -> queue st = q ->
  nth_error (calls st) i = Some c -> c_intable c = true -> (exists m, In m q /\ m_rs m = c_serial c) ->
  completed_at i (fst (run1 st (repeat EDispatch (length q)))).
Proof.
  induction q as [|m q' IH]; intros st i c Hf Hok Hnd Hq Hn Ht [x [Hin Hx]]; [destruct Hin|].
  simpl length. cbn [repeat]. rewrite run1_cons.
  destruct (N.eq_dec (m_rs m) (c_serial c)) as [Hs|Hs].
  - pose proof (dispatch_match st m q' i c Hf Hok Hnd Hq Hn Ht Hs) as H1.
    destruct (step1_dispatch_keeps st Hf Hok) as (Hf1 & Hok1 & _).
    destruct (step1 st EDispatch) as [st1 o1]. simpl in *.
    pose proof (completed_run1 i (repeat EDispatch (length q')) st1 Hok1 H1) as H2.
    destruct (run1 st1 (repeat EDispatch (length q'))). exact H2.
  - destruct (has_match_tail q' m (c_serial c) (ex_intro _ x (conj Hin Hx)) Hs) as [y [Hy1 Hy2]].
    assert (Hne : q' <> []) by (intro; subst; destruct Hy1).
    destruct (dispatch_other st m q' i c Hf Hok Hq Hne Hn Ht Hs) as (Hf1 & Hq1 & Hn1 & Hser).
    destruct (step1_dispatch_keeps st Hf Hok) as (_ & Hok1 & _).
    destruct (step1 st EDispatch) as [st1 o1]. simpl in *.
    assert (Hnd1 : NoDup (map c_serial (calls st1))) by (rewrite Hser; exact Hnd).
    specialize (IH st1 i c Hf1 Hok1 Hnd1 Hq1 Hn1 Ht (ex_intro _ y (conj Hy1 Hy2))).
    destruct (run1 st1 (repeat EDispatch (length q'))). exact IH.
Qed.

(* ---- exactly once, in terms of traces ---- *)
Lemma rel_run1 k0 h st tr : rel k0 st tr -> rel k0 (fst (run1 st h)) (tr ++ snd (run1 st h)).
Proof. intros R. destruct (run1_as_run h st) as [h' ->]. apply rel_run. exact R. Qed.

Lemma rel_trace1 b h : valid_base b -> rel (b - 1) (fst (run1 (init_at b) h)) (trace1_at b h).
Proof. intros Hb. exact (rel_run1 (b - 1) h (init_at b) [] (rel_init_at b Hb)). Qed.

Lemma rel_nodup k0 st tr : rel k0 st tr -> N.of_nat (length (drawn tr)) <= two32 - 1 -> NoDup (map c_serial (calls st)).
Proof.
  intros R Hn. destruct (r_drawn _ _ _ R) as [n [Hd _]].
  assert (Hnd : NoDup (call_serials tr)).
  { apply call_serials_nodup. rewrite Hd in *. rewrite length_serials_from in Hn. apply serials_from_nodup. exact Hn. }
  rewrite (r_serials _ _ _ R) in Hnd. unfold cores in Hnd. rewrite map_map in Hnd. exact Hnd.
Qed.

Lemma run1_app st a b : run1 st (a ++ b) = let '(s1, o1) := run1 st a in let '(s2, o2) := run1 s1 b in (s2, o1 ++ o2).
Proof.
  revert st; induction a as [|e a IH]; intros st; simpl.
  - destruct (run1 st b); reflexivity.
  - destruct (step1 st e) as [s1 o1]. rewrite IH. destruct (run1 s1 a) as [s2 o2]. destruct (run1 s2 b) as [s3 o3].
    rewrite app_assoc. reflexivity.
Qed.

Lemma run1_dispatch_flushed n : forall st, fault st = 0 -> calls_ok st -> no_inflight (fst (run1 st (repeat EDispatch (S n)))).
Proof.
  induction n as [|n IH]; intros st Hf Hok.
  - cbn [repeat]. rewrite run1_cons. destruct (step1_dispatch_keeps st Hf Hok) as (_ & _ & H).
    destruct (step1 st EDispatch) as [st1 o1]. simpl in *. exact H.
  - change (repeat EDispatch (S (S n))) with (EDispatch :: repeat EDispatch (S n)). rewrite run1_cons.
    destruct (step1_dispatch_keeps st Hf Hok) as (Hf1 & Hok1 & _).
    destruct (step1 st EDispatch) as [st1 o1]. cbn [fst] in Hf1, Hok1. specialize (IH st1 Hf1 Hok1).
    destruct (run1 st1 (repeat EDispatch (S n))) as [s2 o2]. exact IH.
Qed.

Definition nowrap1_at (b : N) (h : list event) : Prop := N.of_nat (length (drawn (trace1_at b h))) < two32 - 1.
Definition nowrap1 (h : list event) : Prop := nowrap1_at 1 h.

(* A single-threaded program has reached a state (no fault, counter not wrapped)
   in which call i is still awaited (in the table) and a message carrying its
   serial is in the incoming queue.  Dispatching the queue completes call i:
   over the whole trace its slot was assigned exactly once and, if it has a
   notify function, that function ran exactly once. *)
Theorem queued_reply_completes_once b h i c :
  valid_base b ->
  let st := fst (run1 (init_at b) h) in
  fault st = 0 -> nowrap1_at b h ->
  nth_error (calls st) i = Some c -> c_intable c = true -> (exists m, In m (queue st) /\ m_rs m = c_serial c) ->
  let tr := trace1_at b (h ++ repeat EDispatch (length (queue st))) in
  count_complete i tr = 1%nat /\ count_notify i tr = b2n (c_hasnotify c).
Proof.
  intros Hb st Hf Hnw Hn Ht Hm tr.
  pose proof (rel_trace1 b h Hb) as R. fold st in R.
  assert (Hok : calls_ok st) by apply (r_ok _ _ _ R).
  assert (Hnd : NoDup (map c_serial (calls st))) by (eapply rel_nodup; [exact R|unfold nowrap1_at in Hnw; lia]).
  pose proof (drain (queue st) st i c Hf Hok Hnd eq_refl Hn Ht Hm) as Hc.
  set (n := length (queue st)) in *.
  assert (Hn1 : exists n', n = S n').
  { destruct Hm as [m [Hin _]]. unfold n. destruct (queue st); [destruct Hin|simpl; eauto]. }
  destruct Hn1 as [n' Hn'].
  pose proof (rel_run1 _ (repeat EDispatch n) st (trace1_at b h) R) as R2.
  assert (Htr : tr = trace1_at b h ++ snd (run1 st (repeat EDispatch n))).
  { unfold tr, trace1_at. rewrite run1_app. unfold st. destruct (run1 (init_at b) h) as [s0 o0]. cbn [fst snd].
    destruct (run1 s0 (repeat EDispatch n)); reflexivity. }
  rewrite <- Htr in R2. set (st' := fst (run1 st (repeat EDispatch n))) in *.
  assert (Hni : no_inflight st') by (unfold st'; rewrite Hn'; apply run1_dispatch_flushed; auto).
  destruct Hc as [k [Hk Hkc]]. pose proof (r_counts _ _ _ R2 i) as Hcnt. rewrite Hk in Hcnt. destruct Hcnt as [C1 C2]. rewrite Hkc in *.
  unfold cores in Hk. rewrite nth_error_map in Hk. destruct (nth_error (calls st') i) as [c'|] eqn:Ec'; [|discriminate].
  inversion Hk; subst k. simpl in *.
  pose proof (Forall_nth_error _ _ _ _ Hni Ec') as Hi. simpl in Hi. rewrite Hi in C2. simpl in C2.
  (* the notify flag of call i never changes: it is part of what the serial list determines?  use cores *)
  assert (Hhn : c_hasnotify c' = c_hasnotify c).
  { clear - Hn Ec' Hok. unfold st' in Ec'.
    assert (G : forall h s, calls_ok s -> forall j d, nth_error (calls s) j = Some d ->
                exists d', nth_error (calls (fst (run s h))) j = Some d' /\ c_hasnotify d' = c_hasnotify d).
    { clear. induction h as [|e h IH]; intros s Hok j d Hd; simpl; [eauto|].
      destruct (step s e) as [s1 o1] eqn:E. destruct (step_good _ _ _ _ E Hok) as [Hok1 S].
      assert (Hd1 : exists d1, nth_error (calls s1) j = Some d1 /\ c_hasnotify d1 = c_hasnotify d).
      { assert (Hk : nth_error (cores s) j = Some (core_of d)) by (unfold cores; rewrite nth_error_map, Hd; reflexivity).
        assert (Hk1 : exists k1, nth_error (cores s1) j = Some k1 /\ k_hasnotify k1 = c_hasnotify d).
        { destruct S as [Hcs _ _ | nf _ _ Hcs | _ _ Hcs | x k' y _ _ _ _ _ _ Hcs | x k' _ _ _ _ Hcs | x _ _ Hcs]; rewrite Hcs.
          - eauto.
          - rewrite nth_error_app1 by (apply nth_error_Some; congruence). eauto.
          - eauto.
          - rewrite nth_error_upd, Hk. destruct (Nat.eqb x j); simpl; eauto.
          - rewrite nth_error_upd, Hk. destruct (Nat.eqb x j); simpl; eauto.
          - rewrite nth_error_upd, Hk. destruct (Nat.eqb x j); simpl; eauto. }
        destruct Hk1 as [k1 [Hk1 Hh]]. unfold cores in Hk1. rewrite nth_error_map in Hk1.
        destruct (nth_error (calls s1) j) as [d1|]; [|discriminate]. inversion Hk1; subst. eauto. }
      destruct Hd1 as [d1 [Hd1 Hh1]]. destruct (IH s1 Hok1 j d1 Hd1) as [d' [Hd' Hh']].
      destruct (run s1 h). simpl in *. exists d'. split; auto. congruence. }
    destruct (run1_as_run (repeat EDispatch n) st) as [h' Hh']. rewrite Hh' in Ec'.
    destruct (G h' st Hok i c Hn) as [d' [Hd' Hh]]. rewrite Hd' in Ec'. inversion Ec'; subst. exact Hh. }
  rewrite Hhn in C2. split; [exact C1|]. destruct (c_hasnotify c); simpl in *; lia.
Qed.

(* A timeout that fires while it is registered puts the call's own error into the queue and leaves the call in the table *)
Lemma fire_queues st i c :
  fault st = 0 -> calls_ok st -> nth_error (calls st) i = Some c -> c_tadded c = true ->
  let st1 := fst (step1 st (EFire i)) in
  fault st1 = 0 /\
  (exists c1, nth_error (calls st1) i = Some c1 /\ c_intable c1 = true /\ c_serial c1 = c_serial c /\ c_hasnotify c1 = c_hasnotify c) /\
  (exists m, In m (queue st1) /\ m_rs m = c_serial c).
Proof.
  intros Hf Hok Hn Hta. simpl.
  pose proof (Forall_nth_error _ _ _ _ Hok Hn) as (_ & _ & Hti & _ & Htl).
  assert (E : step st (EFire i) =
              (set_calls (set_queue st (queue st ++ [noreply (c_serial c)])) (upd (calls st) i (fun c => set_tadded false (set_link false c))), [OFired true])).
  { unfold step. rewrite Hf. simpl. unfold ev_fire. rewrite Hn, Hta, (Htl Hta).
    rewrite (u_status_nonempty _ (hd (noreply (c_serial c)) (queue st ++ [noreply (c_serial c)])) (tl (queue st ++ [noreply (c_serial c)]))); [reflexivity|].
    simpl. destruct (queue st); reflexivity. }
  rewrite step1_fst by (rewrite E; exact Hf). rewrite E. simpl. repeat split; auto.
  - exists (fin (set_tadded false (set_link false c))). rewrite nth_error_map, (nth_error_upd_eq _ _ _ _ Hn). simpl.
    split; [reflexivity|]. unfold fin. destruct (c_inflight (set_tadded false (set_link false c))); simpl; auto.
  - exists (noreply (c_serial c)). split; [apply in_or_app; right; left; reflexivity|reflexivity].
Qed.

(* ... so that firing the timeout of a call and then dispatching the queue completes it exactly once *)
Theorem timeout_completes_once b h i c :
  valid_base b ->
  let st := fst (run1 (init_at b) h) in
  fault st = 0 -> nowrap1_at b (h ++ [EFire i]) -> nth_error (calls st) i = Some c -> c_tadded c = true ->
  let st1 := fst (run1 (init_at b) (h ++ [EFire i])) in
  let tr := trace1_at b ((h ++ [EFire i]) ++ repeat EDispatch (length (queue st1))) in
  count_complete i tr = 1%nat /\ count_notify i tr = b2n (c_hasnotify c).
Proof.
  intros Hb st Hf Hnw Hn Hta st1 tr.
  assert (Hok : calls_ok st) by apply (r_ok _ _ _ (rel_trace1 b h Hb)).
  assert (E1 : st1 = fst (step1 st (EFire i))).
  { unfold st1, st. rewrite run1_app. destruct (run1 (init_at b) h) as [s0 o0]. cbn [fst]. rewrite run1_cons.
    destruct (step1 s0 (EFire i)); reflexivity. }
  destruct (fire_queues st i c Hf Hok Hn Hta) as (Hf1 & [c1 (Hn1 & Ht1 & Hs1 & Hh1)] & Hm). rewrite <- E1 in *.
  rewrite <- Hs1 in Hm. rewrite <- Hh1.
  exact (queued_reply_completes_once b (h ++ [EFire i]) i c1 Hb Hf1 Hnw Hn1 Ht1 Hm).
Qed.
