(* Shape of what one command can do: every handler result is one of a few
   forms.  Used for the rejection counter and for "authenticated only by BEGIN". *)
From DV Require Import Lib.Base Auth.Types Gen.AuthTables Auth.Sha1 Wire.Utf8 Auth.Server Proofs.AuthInv.
Require Import ZifyBool ZifyN ZifyNat.
Local Open Scope N_scope.

Opaque parse_ulong validate_utf8 sha1 hex_encode dec_of_N hex_decode find_blank skip_blank sha1_compute_hash
       are_anonymous are_superset add_credentials add_pid_from add_gids_from find_mech.

(* b differs from a only in fields a mechanism may scribble on *)
Definition same_counts (a b : core) : Prop :=
  a_failures b = a_failures a /\ a_fd_negotiated b = a_fd_negotiated a.

Inductive outcome (a : core) : core * list resp -> Prop :=
| O_rej b : same_counts a b -> outcome a (send_rejected b)
| O_ok b : same_counts a b -> outcome a (send_ok b)
| O_err b m : same_counts a b -> a_state b = a_state a -> a_authorized b = a_authorized a -> outcome a (b, [R_Error m])
| O_data b d : same_counts a b -> a_state b = WaitingForData -> outcome a (b, [R_Data d])
| O_crash b : same_counts a b -> outcome a (crash b)
| O_disc : outcome a (set_state a NeedDisconnect, [])
| O_authd : a_state a = WaitingForBegin -> outcome a (set_state a Authenticated, [])
| O_agree : a_state a = WaitingForBegin -> outcome a (set_state (set_fd_negotiated a true) WaitingForBegin, [R_AgreeFd])
| O_none : outcome a (a, []).

Ltac sc := split; fs; repeat (match goal with |- context [if ?x then _ else _] => destruct x end; fs); try reflexivity; try assumption.

(* the mechanism-only outcomes (no terminal moves) are closed under a change of the mech field *)
Inductive mech_outcome (a : core) : core * list resp -> Prop :=
| MO_rej b : same_counts a b -> mech_outcome a (send_rejected b)
| MO_ok b : same_counts a b -> mech_outcome a (send_ok b)
| MO_err b m : same_counts a b -> a_state b = a_state a -> a_authorized b = a_authorized a -> mech_outcome a (b, [R_Error m])
| MO_data b d : same_counts a b -> a_state b = WaitingForData -> mech_outcome a (b, [R_Data d])
| MO_crash b : same_counts a b -> mech_outcome a (crash b).

Lemma mech_outcome_outcome a r : mech_outcome a r -> outcome a r.
Proof. intros []; [apply O_rej|apply O_ok|apply O_err|apply O_data|apply O_crash]; auto. Qed.

Ltac mleaf :=
  first [ apply MO_rej; sc | apply MO_ok; sc | apply MO_crash; sc | apply MO_data; [sc | fs; reflexivity] ].
Ltac msplit_head :=
  match goal with
  | |- mech_outcome _ (if ?x then _ else _) => destruct x
  | |- mech_outcome _ (match ?x with _ => _ end) => destruct x
  | |- mech_outcome _ (let '(_, _) := ?x in _) => destruct x
  end.

Lemma mo_external e a d : mech_outcome a (external_mech e a d).
Proof. unfold external_mech. cbv zeta. repeat msplit_head; mleaf. Qed.
Lemma mo_anonymous e a d : mech_outcome a (anonymous_mech e a d).
Proof. unfold anonymous_mech. cbv zeta beta. repeat msplit_head; mleaf. Qed.
Lemma mo_sha1_first e a d : mech_outcome a (sha1_first e a d).
Proof. unfold sha1_first. cbv zeta. repeat msplit_head; mleaf. Qed.
Lemma mo_sha1_second e a id d : mech_outcome a (sha1_second e a id d).
Proof. unfold sha1_second. cbv zeta. repeat msplit_head; mleaf. Qed.
Lemma mo_mech e m a d : mech_outcome a (mech_data e m a d).
Proof.
  destruct m; cbn [mech_data]; [apply mo_external | | apply mo_anonymous].
  unfold cookie_mech. destruct (a_cookie_id a); [apply mo_sha1_second | apply mo_sha1_first].
Qed.
Lemma mo_process_data e a args m : mech_outcome a (process_data e a args m).
Proof.
  unfold process_data. destruct (hex_decode args) as [dec endi].
  destruct (negb (endi =? nlen args)); [apply MO_err; [split|..]; reflexivity | apply mo_mech].
Qed.

Lemma mo_frame a b r : same_counts a b -> a_state b = a_state a -> a_authorized b = a_authorized a ->
  mech_outcome b r -> mech_outcome a r.
Proof.
  intros [S1 S2] Hs Ha O. destruct O.
  - apply MO_rej. destruct H. split; congruence.
  - apply MO_ok. destruct H. split; congruence.
  - apply MO_err; try congruence. destruct H. split; congruence.
  - apply MO_data; auto. destruct H. split; congruence.
  - apply MO_crash. destruct H. split; congruence.
Qed.

Lemma mo_handle_auth e a args : mech_outcome a (handle_auth e a args).
Proof.
  unfold handle_auth. destruct (is_empty args); [apply MO_rej; split; reflexivity|].
  destruct (find_blank args) as [fb i]. destruct (skip_blank (e_asserts e) args i) as [j|]; [|apply MO_crash; split; reflexivity].
  cbv zeta. destruct (find_mech e (firstn (N.to_nat i) args)) as [m|].
  - eapply mo_frame; [| | |apply mo_process_data]; try reflexivity. split; reflexivity.
  - apply MO_rej. split; reflexivity.
Qed.

Theorem outcome_run_action e a act args :
  action_ok (a_state a) act = true -> outcome a (run_action e a act args).
Proof.
  intros Hok. destruct act; cbn [run_action].
  - apply mech_outcome_outcome, mo_handle_auth.
  - apply O_err; [split|..]; reflexivity.
  - apply O_rej. split; reflexivity.
  - destruct (a_mech a); [apply mech_outcome_outcome, mo_process_data | apply O_crash; split; reflexivity].
  - apply O_disc.
  - apply O_authd. destruct (a_state a); try discriminate. reflexivity.
  - destruct (e_fd_possible e); [|apply O_err; [split|..]; reflexivity].
    apply O_agree. destruct (a_state a); try discriminate. reflexivity.
Qed.

Theorem outcome_process_line e a line : outcome a (process_line e a line).
Proof.
  unfold process_line. destruct (negb (validate_ascii line)); [apply O_err; [split|..]; reflexivity|].
  destruct (find_blank line) as [fb i]. destruct (skip_blank (e_asserts e) line i) as [j|]; [|apply O_crash; split; reflexivity].
  unfold handle. destruct (a_state a) eqn:Hs; try apply O_none; apply outcome_run_action; rewrite Hs.
  - apply disp_auth_ok.
  - apply disp_data_ok.
  - apply disp_begin_ok.
Qed.
