(* C04 proofs, part 4: a connection goes away (bus_connection_disconnected). *)
From DV Require Import Lib.Base Gen.Tables Wire.Names Registry.RegTypes Registry.Registry
  Spec.NamesSpec Spec.RegistrySpec Proofs.RegistryBase Proofs.RegistryInv Proofs.RegistryRefine.
Local Open Scope N_scope.

Lemma release_all_app cs ss c ks1 ks2 :
  release_all cs ss c (ks1 ++ ks2) =
  match release_all cs ss c ks1 with
  | None => None
  | Some (cs1, ss1, es1) =>
      match release_all cs1 ss1 c ks2 with
      | None => None
      | Some (cs2, ss2, es2) => Some (cs2, ss2, es1 ++ es2)
      end
  end.
Proof.
  revert cs ss. induction ks1 as [|k more IH]; intros cs ss; simpl.
  - destruct (release_all cs ss c ks2) as [[[cs2 ss2] es2]|]; reflexivity.
  - destruct (lookup ss k) as [q|]; [|reflexivity]. destruct (remove_owner k q c) as [[q' es]|]; [|reflexivity].
    rewrite IH. destruct (release_all (own_del cs c k) (put_queue ss k q') c more) as [[[cs1 ss1] es1]|]; [|reflexivity].
    destruct (release_all cs1 ss1 c ks2) as [[[cs2 ss2] es2]|]; [|reflexivity]. rewrite app_assoc. reflexivity.
Qed.

Lemma drop_names_app m c ks1 ks2 :
  drop_names m c (ks1 ++ ks2) =
  let (m1, e1) := drop_names m c ks1 in let (m2, e2) := drop_names m1 c ks2 in (m2, e1 ++ e2).
Proof.
  revert m. induction ks1 as [|k more IH]; intros m; simpl.
  - destruct (drop_names m c ks2); reflexivity.
  - rewrite IH. destruct (drop_names (sset m k (without c (sget m k))) c more) as [m1 e1].
    destruct (drop_names m1 c ks2) as [m2 e2]. rewrite app_assoc. reflexivity.
Qed.

(* the loop over the well-known names the connection holds *)
Lemma release_loop : forall ks b s cn,
  inv b -> R b s -> In cn (b_conns b) -> c_active cn = true ->
  NoDup ks -> (forall k, In k ks -> In k (c_owned cn) /\ exists name, k = KW name) ->
  exists cs' ss',
    release_all (b_conns b) (b_services b) (c_id cn) ks = Some (cs', ss', snd (drop_names (s_names s) (c_id cn) ks)) /\
    inv (with_services b cs' ss') /\
    R (with_services b cs' ss') (with_names s (s_conns s) (fst (drop_names (s_names s) (c_id cn) ks))) /\
    exists cn', In cn' cs' /\ c_id cn' = c_id cn /\ c_active cn' = true /\
                (forall k, In k (c_owned cn') <-> In k (c_owned cn) /\ ~ In k ks).
Proof.
  induction ks as [|k more IH]; intros b s cn I Rr Hcn Hact ND Hks.
  - exists (b_conns b), (b_services b). simpl. rewrite with_services_same.
    split; [reflexivity|]. split; [exact I|]. split.
    + destruct s; exact Rr.
    + exists cn. repeat split; auto; tauto.
  - inversion ND as [|? ? Hnk ND']. subst.
    destruct (Hks k (or_introl eq_refl)) as [Hko [name ->]].
    destruct (inv_owned b I cn Hcn) as [NDo Hown].
    assert (Hq : queued (c_id cn) (mget (b_services b) (KW name)) = true) by (apply Hown; exact Hko).
    destruct (release_core b s cn name I Rr Hcn Hact Hq) as [Hrem [I1 R1]].
    set (b1 := with_services b (own_del (b_conns b) (c_id cn) (KW name))
                 (put_queue (b_services b) (KW name) (without (c_id cn) (mget (b_services b) (KW name))))) in *.
    set (s1 := with_names s (s_conns s) (sset (s_names s) (KW name) (without (c_id cn) (mget (b_services b) (KW name))))) in *.
    set (cn1 := g_del (c_id cn) (KW name) cn).
    assert (Hcn1 : In cn1 (b_conns b1)).
    { unfold b1. simpl. rewrite own_del_map by (apply (inv_ids b I)). apply in_map. exact Hcn. }
    assert (Hid1 : c_id cn1 = c_id cn) by (apply g_del_shape).
    assert (Hact1 : c_active cn1 = true) by (unfold cn1; destruct (g_del_shape (c_id cn) (KW name) cn) as [_ [-> _]]; exact Hact).
    assert (Hown1 : forall k', In k' (c_owned cn1) <-> In k' (c_owned cn) /\ k' <> KW name).
    { intros k'. unfold cn1, g_del. rewrite N.eqb_refl. simpl. apply in_remove_last. exact NDo. }
    destruct (IH b1 s1 cn1 I1 R1 Hcn1 Hact1 ND') as [cs' [ss' [Hrel [I' [R' [cn' [Hin' [Hid' [Hact' Hown']]]]]]]]].
    { intros k' Hk'. destruct (Hks k' (or_intror Hk')) as [Ho Hn]. split; [|exact Hn]. apply Hown1. split; [exact Ho|].
      intros ->. contradiction. }
    exists cs', ss'.
    assert (Hlk : lookup (b_services b) (KW name) = Some (mget (b_services b) (KW name))).
    { unfold mget in *. destruct (lookup (b_services b) (KW name)); [reflexivity | discriminate]. }
    rewrite Hid1 in Hrel.
    split; [|split; [exact I'|split]].
    + cbn [release_all]. rewrite Hlk, Hrem. change (own_del (b_conns b) (c_id cn) (KW name)) with (b_conns b1).
      change (put_queue (b_services b) (KW name) (without (c_id cn) (mget (b_services b) (KW name)))) with (b_services b1).
      rewrite Hrel. cbn [drop_names]. rewrite (R_names b s Rr).
      change (sset (s_names s) (KW name) (without (c_id cn) (mget (b_services b) (KW name)))) with (s_names s1).
      destruct (drop_names (s_names s1) (c_id cn) more) as [m' es']. reflexivity.
    + cbn [drop_names]. rewrite (R_names b s Rr).
      change (sset (s_names s) (KW name) (without (c_id cn) (mget (b_services b) (KW name)))) with (s_names s1).
      rewrite Hid1 in R'. destruct (drop_names (s_names s1) (c_id cn) more) as [m' es']. exact R'.
    + exists cn'. rewrite Hid', Hid1. repeat split; auto.
      * apply Hown' in H. destruct H as [H _]. apply Hown1 in H. tauto.
      * apply Hown' in H. destruct H as [H1 H2]. apply Hown1 in H1. simpl. intros [<-|Hx]; tauto.
      * intros [Ho Hn]. apply Hown'. split; [apply Hown1; split; [exact Ho | intros ->; apply Hn; simpl; auto] | intros Hx; apply Hn; simpl; auto].
Qed.

Lemma del_service_absent ss k : lookup ss k = None -> del_service ss k = ss.
Proof.
  induction ss as [|[k0 q0] r IH]; simpl; [reflexivity|]. destruct (key_eqb k k0); [discriminate|]. intros H. f_equal. auto.
Qed.

Lemma del_conn_upd cs c f : (forall x, c_id (f x) = c_id x) -> del_conn (upd_conn cs c f) c = del_conn cs c.
Proof.
  intros Hf. induction cs as [|x r IH]; simpl; [reflexivity|]. destruct (c_id x =? c) eqn:E; simpl.
  - rewrite Hf, E. reflexivity.
  - rewrite E. f_equal. exact IH.
Qed.

Lemma sdrop_abs cs c : sdrop (map abs_conn cs) c = map abs_conn (filter (fun x => negb (c_id x =? c)) cs).
Proof.
  unfold sdrop. induction cs as [|x r IH]; simpl; [reflexivity|]. destruct (c_id x =? c); simpl; [|f_equal]; exact IH.
Qed.

(* taking a connection that holds nothing but (at most) its unique name out of the tables *)
Lemma remove_conn_sim b s cn m' :
  inv b -> R b s -> In cn (b_conns b) ->
  (forall k, In k (c_owned cn) -> k = KU (c_id cn)) ->
  (forall k, sget m' k = if key_eqb k (KU (c_id cn)) then [] else sget (s_names s) k) -> NoDup (map fst m') ->
  let b' := with_services b (del_conn (b_conns b) (c_id cn)) (del_service (b_services b) (KU (c_id cn))) in
  inv b' /\ R b' (with_names s (sdrop (s_conns s) (c_id cn)) m').
Proof.
  intros I Rr Hcn Hown Hm' NDm'. cbn zeta.
  assert (NDk := inv_keys b I). assert (NDi := inv_ids b I).
  rewrite del_conn_filter by exact NDi.
  assert (Hm : forall k, mget (del_service (b_services b) (KU (c_id cn))) k = if key_eqb k (KU (c_id cn)) then [] else mget (b_services b) k).
  { intros k. unfold mget. rewrite lookup_del_service by exact NDk. destruct (key_eqb k (KU (c_id cn))); reflexivity. }
  assert (Hnq : forall k, k <> KU (c_id cn) -> queued (c_id cn) (mget (b_services b) k) = false).
  { intros k Hk. destruct (queued (c_id cn) (mget (b_services b) k)) eqn:E; [|reflexivity].
    apply (inv_owned b I cn Hcn) in E. apply Hown in E. contradiction. }
  split.
  - constructor; simpl.
    + apply nodup_del_service. exact NDk.
    + intros k q Hl. rewrite lookup_del_service in Hl by exact NDk. destruct (key_eqb k (KU (c_id cn))); [discriminate|]. apply (inv_q b I k q Hl).
    + unfold ids. apply nodup_map_filter. exact NDi.
    + intros x Hx. apply filter_In in Hx. apply (inv_next b I). tauto.
    + intros x Hx. apply filter_In in Hx. destruct Hx as [Hx Hne]. destruct (inv_owned b I x Hx) as [ND Hk]. split; [exact ND|].
      intros k. rewrite Hm, Hk. destruct (key_eqb k (KU (c_id cn))) eqn:Ek; [|tauto].
      apply key_eqb_eq in Ek. subst k. split; [|discriminate]. intros Hq. exfalso.
      unfold mget in Hq. destruct (lookup (b_services b) (KU (c_id cn))) as [q|] eqn:El; [|discriminate].
      rewrite (inv_unique b I _ _ El) in Hq. simpl in Hq. unfold is in Hq. simpl in Hq. rewrite orb_false_r in Hq.
      rewrite N.eqb_sym, Hq in Hne. discriminate.
    + intros k c Hc. rewrite Hm in Hc. destruct (key_eqb k (KU (c_id cn))) eqn:Ek; [discriminate|]. apply key_eqb_neq in Ek.
      destruct (inv_members b I k c Hc) as [x [Hx [E Ha]]]. exists x. split; [|auto]. apply filter_In. split; [exact Hx|].
      apply negb_true_iff. apply N.eqb_neq. intros E2. assert (Hcc : c = c_id cn) by congruence. rewrite Hcc in Hc. rewrite (Hnq k Ek) in Hc. discriminate.
    + intros c q Hl. rewrite lookup_del_service in Hl by exact NDk. destruct (key_eqb (KU c) (KU (c_id cn))); [discriminate|]. apply (inv_unique b I c q Hl).
    + intros x Hx. apply filter_In in Hx. apply (inv_active b I). tauto.
    + intros s0 q Hl. rewrite lookup_del_service in Hl by exact NDk. simpl in Hl. apply (inv_reserved b I s0 q Hl).
  - constructor; cbn [s_conns s_names s_next s_limit with_names with_services b_conns b_services b_next b_limit].
    + rewrite (R_conns b s Rr). apply sdrop_abs.
    + intros k. rewrite Hm', Hm, (R_names b s Rr). reflexivity.
    + apply R_next; exact Rr.
    + apply R_limit; exact Rr.
    + exact NDm'.
Qed.

Definition release_order (b : bus) (c : N) : list key :=
  match find_conn (b_conns b) c with Some cn => rev (c_owned cn) | None => [] end.

Lemma release_order_valid b s c : inv b -> R b s -> valid_order s c (release_order b c).
Proof.
  intros I Rr. unfold release_order. destruct (find_conn (b_conns b) c) as [cn|] eqn:Ef.
  - destruct (find_conn_in _ _ _ Ef) as [Hcn Hid]. subst c. destruct (inv_owned b I cn Hcn) as [ND Hk].
    repeat split.
    + apply NoDup_rev. exact ND.
    + intros H. rewrite <- in_rev in H. rewrite (R_names b s Rr). apply Hk. exact H.
    + intros H. rewrite <- in_rev. apply Hk. rewrite <- (R_names b s Rr). exact H.
    + intros H. assert (Ha := inv_active b I cn Hcn). destruct (c_active cn).
      * destruct Ha as [r ->]. simpl. eauto.
      * rewrite Ha in H. destruct H.
  - split; [constructor|]. split; [|intros []]. intros k. split; [intros []|].
    intros H. exfalso. rewrite (R_names b s Rr) in H. rewrite (not_queued_unknown b k c I) in H; [discriminate | apply find_conn_none; exact Ef].
Qed.

Lemma disconnect_sim b s c : inv b -> R b s ->
  let (b', o) := step b (EvDisconnect c) in
  let (s', o') := spec_step as_implemented s (EvDisconnect c) (release_order b c) in
  o' = o /\ inv b' /\ R b' s'.
Proof.
  intros I Rr. assert (Ec := R_conns b s Rr).
  assert (Hsf : sfind (s_conns s) c = option_map abs_conn (find_conn (b_conns b) c)) by (rewrite Ec; apply sfind_abs).
  unfold step, spec_step, release_order. rewrite Hsf.
  destruct (find_conn (b_conns b) c) as [cn|] eqn:Ef; [|simpl; auto]. cbn [option_map].
  destruct (find_conn_in _ _ _ Ef) as [Hcn Hid]. subst c.
  assert (Ha := inv_active b I cn Hcn). destruct (inv_owned b I cn Hcn) as [NDo Hown].
  destruct (c_active cn) eqn:Eact.
  - (* registered: well-known names first, the unique name last *)
    destruct Ha as [r Hr]. rewrite Hr. cbn [rev]. rewrite release_all_app, drop_names_app.
    assert (NDr : NoDup r /\ ~ In (KU (c_id cn)) r) by (rewrite Hr in NDo; inversion NDo; auto). destruct NDr as [NDr Hnr].
    destruct (release_loop (rev r) b s cn I Rr Hcn Eact) as [cs1 [ss1 [Hrel [I1 [R1 [cn1 [Hcn1 [Hid1 [Hact1 Hown1]]]]]]]]].
    { apply NoDup_rev. exact NDr. }
    { intros k Hk. rewrite <- in_rev in Hk. assert (Hko : In k (c_owned cn)) by (rewrite Hr; simpl; auto). split; [exact Hko|].
      destruct k as [c'|name]; [|eauto]. exfalso. apply Hown in Hko. unfold mget in Hko.
      destruct (lookup (b_services b) (KU c')) as [q|] eqn:El; [|discriminate]. rewrite (inv_unique b I _ _ El) in Hko.
      simpl in Hko. unfold is in Hko. simpl in Hko. rewrite orb_false_r in Hko. apply N.eqb_eq in Hko. subst c'. contradiction. }
    rewrite Hrel. destruct (drop_names (s_names s) (c_id cn) (rev r)) as [m1 es1] eqn:Edrop. cbn [fst snd] in *.
    set (b1 := with_services b cs1 ss1) in *. set (s1 := with_names s (s_conns s) m1) in *.
    assert (Ho1 : c_owned cn1 = [KU (c_id cn)]).
    { assert (Ha1 := inv_active b1 I1 cn1 Hcn1). rewrite Hact1, Hid1 in Ha1. destruct Ha1 as [r' Hr']. rewrite Hr'. f_equal.
      destruct r' as [|k r'']; [reflexivity|]. exfalso.
      assert (Hk : In k (c_owned cn1)) by (rewrite Hr'; simpl; auto). apply Hown1 in Hk. destruct Hk as [Hk Hnk]. rewrite Hr in Hk.
      destruct Hk as [<-|Hk]; [|apply Hnk; rewrite <- in_rev; exact Hk].
      destruct (inv_owned b1 I1 cn1 Hcn1) as [ND1 _]. rewrite Hr' in ND1. inversion ND1. simpl in *. tauto. }
    assert (Hq1 : mget ss1 (KU (c_id cn)) = [mkOwner (c_id cn) false false]).
    { assert (Hk : In (KU (c_id cn)) (c_owned cn1)) by (rewrite Ho1; simpl; auto).
      apply (inv_owned b1 I1 cn1 Hcn1) in Hk. unfold mget in *. change (b_services b1) with ss1 in Hk.
      destruct (lookup ss1 (KU (c_id cn))) as [q|] eqn:El; [|discriminate]. apply (inv_unique b1 I1 _ _ El). }
    assert (Hl1 : lookup ss1 (KU (c_id cn)) = Some [mkOwner (c_id cn) false false]).
    { unfold mget in Hq1. destruct (lookup ss1 (KU (c_id cn))) as [q|]; [rewrite Hq1; reflexivity | discriminate]. }
    cbn [release_all]. rewrite Hl1. unfold remove_owner. cbn [o_conn]. rewrite N.eqb_refl. cbn [handover put_queue].
    cbn [drop_names]. rewrite (R_names b1 s1 R1). change (b_services b1) with ss1. rewrite Hq1.
    change (without (c_id cn) [mkOwner (c_id cn) false false]) with (filter (fun o => negb (is (c_id cn) o)) [mkOwner (c_id cn) false false]).
    cbn [filter]. unfold is. cbn [o_conn]. rewrite !N.eqb_refl. cbn [negb primary o_conn]. rewrite signals_gone.
    unfold own_del. rewrite del_conn_upd by reflexivity.
    destruct (remove_conn_sim b1 s1 cn1 (sset m1 (KU (c_id cn)) []) I1 R1 Hcn1) as [I2 R2].
    { rewrite Ho1. intros k [<-|[]]. rewrite Hid1. reflexivity. }
    { intros k. rewrite sget_sset, Hid1. reflexivity. }
    { apply nodup_sset. apply (R_skeys b1 s1 R1). }
    rewrite Hid1 in I2, R2. split; [|split; [exact I2 | exact R2]].
    f_equal. change (s_conns s) with (s_conns s1). rewrite (R_conns b1 s1 R1). change (b_conns b1) with cs1. rewrite sdrop_abs, sdeliver_abs.
    rewrite del_conn_filter by (apply (inv_ids b1 I1)). rewrite !app_nil_r. reflexivity.
  - (* never said Hello: holds nothing *)
    rewrite Ha. cbn [rev release_all drop_names].
    assert (Hl : lookup (b_services b) (KU (c_id cn)) = None).
    { destruct (lookup (b_services b) (KU (c_id cn))) as [q|] eqn:El; [|reflexivity]. exfalso.
      assert (Hk : In (KU (c_id cn)) (c_owned cn)).
      { apply Hown. unfold mget. rewrite El, (inv_unique b I _ _ El). simpl. unfold is. simpl. rewrite N.eqb_refl. reflexivity. }
      rewrite Ha in Hk. destruct Hk. }
    destruct (remove_conn_sim b s cn (s_names s) I Rr Hcn) as [I2 R2].
    { rewrite Ha. intros k []. }
    { intros k. destruct (key_eqb k (KU (c_id cn))) eqn:Ek; [|reflexivity]. apply key_eqb_eq in Ek. subst k.
      rewrite (R_names b s Rr). unfold mget. rewrite Hl. reflexivity. }
    { apply (R_skeys b s Rr). }
    rewrite del_service_absent in I2, R2 by exact Hl.
    split; [|split; [exact I2 | exact R2]].
    reflexivity.
Qed.
