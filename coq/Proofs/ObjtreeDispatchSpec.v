(* C20 proofs, part 6: facts about the flat-map dispatch (specification side):
   strict = lax unless a callback re-registers a NON-fallback handler; closed
   form for callbacks that do not touch the registrations; and the lifting of
   both to the model of the C code after any history. *)
From DV Require Import Lib.Base ObjTree.ObjTree ObjTree.Dispatch Spec.ObjtreeSpec Spec.ObjtreeSpecDispatch
  Proofs.ObjtreeOrder Proofs.ObjtreeProofs Proofs.ObjtreeOracle Proofs.ObjtreeSim Proofs.ObjtreeDispatch.
From Coq Require Import Arith.
Local Open Scope nat_scope.

Lemma path_eqb'_refl a : path_eqb' a a = true.
Proof. induction a; simpl; auto. rewrite bytes_eqb_refl. auto. Qed.

(* ---- strict = lax --------------------------------------------------------------------------- *)
Definition exact_registration (o : op) : bool := match o with Register false _ _ => true | _ => false end.

(* no callback registers a non-fallback handler while a dispatch is running *)
Definition fallback_only (b : behaviour) : Prop := forall h o, In o (actions b h) -> exact_registration o = false.

Definition ok_entries (s : sstate) (p : path) (es : list path) : Prop :=
  forall q, In q es -> q = p \/ match s_lookup s q with Some (_, false) => False | _ => True end.

Lemma ok_entries_tail s p q es : ok_entries s p (q :: es) -> ok_entries s p es.
Proof. intros H x Hx. apply H. right; auto. Qed.

Lemma ok_entries_step s p es o : exact_registration o = false -> ok_entries s p es -> ok_entries (fst (s_step s o)) p es.
Proof.
  intros Ho H q Hq. destruct (H q Hq) as [->|Hk]; [left; reflexivity|]. right.
  destruct o as [fb q' h | q']; simpl.
  - destruct fb; [|discriminate]. destruct (s_lookup s q') eqn:E; simpl; auto.
    destruct (path_eq_dec q' q) as [->|Hne].
    + rewrite path_eqb_refl. exact I.
    + rewrite path_eqb_neq by auto. exact Hk.
  - destruct (s_lookup s q') eqn:E; simpl; auto. rewrite s_lookup_filter.
    destruct (path_eqb q' q); auto.
Qed.

Section Spec.
  Variable b : behaviour.

  Lemma s_update_dead s : forall w d, exists d', update_dead sstate spec_ops s w d = Ok d'.
  Proof. induction w as [|q w IH]; intros d; simpl; [eauto|]. destruct (s_present s q); apply IH. Qed.

  Lemma s_run_actions_ok : forall acts s w d,
    exists s' d', run_actions sstate spec_ops s acts w d = Ok (s', d').
  Proof.
    induction acts as [|o acts IH]; intros s w d; simpl; [eauto|].
    destruct (s_step s o) as [s1 r] eqn:E. destruct (s_update_dead s1 w d) as [d' ->]. apply IH.
  Qed.

  Lemma s_run_actions_keeps p es : forall acts s w d s' d',
    (forall o, In o acts -> exact_registration o = false) -> ok_entries s p es ->
    run_actions sstate spec_ops s acts w d = Ok (s', d') -> ok_entries s' p es.
  Proof.
    induction acts as [|o acts IH]; intros s w d s' d' Ha Hk E; simpl in E.
    - inversion E; subst; auto.
    - destruct (s_step s o) as [s1 r] eqn:E1. destruct (s_update_dead s1 w d) as [d1 Ed]. rewrite Ed in E.
      apply (IH s1 w d1 s' d'); auto.
      + intros o' Ho'. apply Ha. right; auto.
      + replace s1 with (fst (s_step s o)) by (rewrite E1; reflexivity). apply ok_entries_step; auto. apply Ha. left; auto.
  Qed.

  Hypothesis Hfo : fallback_only b.

  Lemma invoke_strict_lax p : forall es s d oom, ok_entries s p es ->
    invoke_snapshot sstate spec_ops true s p es d b oom = invoke_snapshot sstate spec_ops false s p es d b oom.
  Proof.
    induction es as [|q es IH]; intros s d oom Hk; simpl; auto.
    pose proof (ok_entries_tail _ _ _ _ Hk) as Hk'.
    destruct (existsb (path_eqb' q) d); [apply IH; auto|].
    destruct (s_lookup s q) as [[h fb]|] eqn:El; [|apply IH; auto].
    assert (Hel : path_eqb' q p || fb = true).
    { destruct (Hk q (or_introl eq_refl)) as [->|H]; [rewrite path_eqb'_refl; reflexivity|].
      rewrite El in H. destruct fb; [apply orb_true_r | contradiction]. }
    rewrite Hel. simpl. destruct (mem_n h oom); auto.
    destruct (run_actions sstate spec_ops s (actions b h) es d) as [[s' d']| |] eqn:Er; auto.
    destruct (accepts b h); auto. rewrite IH; auto.
    eapply s_run_actions_keeps; eauto.
  Qed.

  Lemma s_entries_ok s p : ok_entries s p (fst (s_entries s p)).
  Proof.
    intros q Hq. simpl in Hq. apply in_app_or in Hq. destruct Hq as [Hq|Hq].
    - destruct (s_lookup s p); [destruct Hq as [<-|[]]; auto | destruct Hq].
    - apply filter_In in Hq. destruct Hq as [_ Hq]. right. destruct (s_lookup s q) as [[h [|]]|]; auto. discriminate.
  Qed.

  Lemma tree_dispatch_strict_lax s m oom :
    tree_dispatch_msg sstate spec_ops true s m b oom = tree_dispatch_msg sstate spec_ops false s m b oom.
  Proof.
    unfold tree_dispatch_msg. destruct (m_path m) as [p|]; auto. simpl.
    rewrite invoke_strict_lax; auto. apply s_entries_ok.
  Qed.

  Lemma attempt_strict_lax s fs m oom :
    attempt sstate spec_ops true s fs m b oom = attempt sstate spec_ops false s fs m b oom.
  Proof.
    unfold attempt. destruct (m_reply_pending m); auto. destruct (peer_filter m); auto.
    destruct (run_filters sstate spec_ops s fs b oom) as [[[[s1 l1] r1] oom1]| |]; auto.
    destruct r1; auto. rewrite tree_dispatch_strict_lax. reflexivity.
  Qed.

  Lemma conn_dispatch_strict_lax fs m : forall fuel s oom,
    conn_dispatch sstate spec_ops true fuel s fs m b oom = conn_dispatch sstate spec_ops false fuel s fs m b oom.
  Proof.
    induction fuel as [|fuel IH]; intros s oom; simpl; auto. rewrite attempt_strict_lax.
    destruct (attempt sstate spec_ops false s fs m b oom) as [[[[s1 l1] [r1|]] oom1]| |]; auto. rewrite IH. reflexivity.
  Qed.

  Lemma s_dispatch_strict_lax s fs m oom : s_dispatch_message s fs m b oom = s_dispatch_message_lax s fs m b oom.
  Proof. apply conn_dispatch_strict_lax. Qed.
End Spec.

(* ---- closed form when the callbacks leave the registrations alone ----------------------------- *)
Lemma take_until_none f l : existsb f l = false -> take_until f l = l.
Proof. induction l as [|x l IH]; simpl; auto. destruct (f x); simpl; [discriminate|]. intros H. rewrite IH; auto. Qed.

Lemma take_until_app f l1 l2 :
  take_until f (l1 ++ l2) = if existsb f l1 then take_until f l1 else l1 ++ take_until f l2.
Proof.
  induction l1 as [|x l1 IH]; simpl; auto. destruct (f x); simpl; auto. rewrite IH. destruct (existsb f l1); reflexivity.
Qed.

Definition regs_of (s : sstate) (es : list path) : list N :=
  flat_map (fun q => match s_lookup s q with Some (h, _) => [h] | None => [] end) es.

Lemma flat_map_filter {A B} (f : A -> list B) (g : A -> bool) l :
  flat_map f (filter g l) = flat_map (fun x => if g x then f x else []) l.
Proof. induction l as [|x l IH]; simpl; auto. destruct (g x); simpl; rewrite IH; reflexivity. Qed.

Lemma regs_of_entries s p : regs_of s (fst (s_entries s p)) = s_offered s p.
Proof.
  unfold regs_of, s_offered, s_exact. simpl. rewrite flat_map_app. f_equal.
  - destruct (s_lookup s p) as [[h fb]|] eqn:E; simpl; auto. rewrite E. reflexivity.
  - rewrite flat_map_filter. apply flat_map_ext. intros q. unfold s_fallback_at.
    destruct (s_lookup s q) as [[h [|]]|]; reflexivity.
Qed.

Section Quiet.
  Variable b : behaviour.
  Hypothesis Hq : quiet b.

  Lemma quiet_fallback_only : fallback_only b.
  Proof. intros h o Ho. rewrite Hq in Ho. destruct Ho. Qed.

  Lemma invoke_quiet strict p : forall es s d, ok_entries s p es -> d = [] ->
    invoke_snapshot sstate spec_ops strict s p es d b [] =
    Ok (s, take_until (accepts b) (regs_of s es), if existsb (accepts b) (regs_of s es) then RHandled else RNotYet, []).
  Proof.
    induction es as [|q es IH]; intros s d Hk ->; simpl; auto.
    pose proof (ok_entries_tail _ _ _ _ Hk) as Hk'. unfold regs_of in *. simpl.
    destruct (s_lookup s q) as [[h fb]|] eqn:El; [|apply IH; auto].
    assert (Hel : path_eqb' q p || fb = true).
    { destruct (Hk q (or_introl eq_refl)) as [->|H]; [rewrite path_eqb'_refl; reflexivity|].
      rewrite El in H. destruct fb; [apply orb_true_r | contradiction]. }
    rewrite Hel, andb_false_r. simpl. rewrite Hq. simpl. destruct (accepts b h); auto.
    rewrite IH; auto.
  Qed.

  Lemma filters_quiet : forall fs s,
    run_filters sstate spec_ops s fs b [] =
    Ok (s, take_until (accepts b) fs, if existsb (accepts b) fs then RHandled else RNotYet, []).
  Proof.
    induction fs as [|f fs IH]; intros s; simpl; auto. rewrite Hq. simpl. destruct (accepts b f); auto. rewrite IH. reflexivity.
  Qed.

  Definition quiet_reply (s : sstate) (fs : list N) (m : msg) (p : path) : reply :=
    if existsb (accepts b) (fs ++ s_offered s p) then RepByCallback
    else if is_method_call m IfIntrospectable MemIntrospect then RepIntrospect (s_children s p)
    else if type_eqb (m_type m) MethodCall then (if s_known_object_b s p then RepUnknownMethod else RepUnknownObject)
    else RepNone.

  Lemma s_dispatch_quiet s fs m p :
    m_reply_pending m = false -> peer_filter m = None -> m_path m = Some p ->
    s_dispatch_message s fs m b [] = Ok (s, take_until (accepts b) (fs ++ s_offered s p), quiet_reply s fs m p).
  Proof.
    intros Hp Hpeer Hpath. unfold s_dispatch_message, dispatch_message_gen, quiet_reply. simpl.
    unfold attempt. rewrite Hp, Hpeer, filters_quiet, take_until_app, existsb_app.
    destruct (existsb (accepts b) fs) eqn:Ef; simpl; auto.
    unfold tree_dispatch_msg. rewrite Hpath. simpl.
    rewrite (invoke_quiet true p _ s []); [| exact (s_entries_ok s p) | reflexivity].
    change (regs_of s _) with (regs_of s (fst (s_entries s p))). rewrite regs_of_entries. rewrite (take_until_none _ fs Ef).
    destruct (existsb (accepts b) (s_offered s p)) eqn:Eo; simpl; auto.
    unfold default_introspect. destruct (is_method_call m IfIntrospectable MemIntrospect); simpl; auto.
    destruct (type_eqb (m_type m) MethodCall); auto. destruct (s_known_object_b s p); auto.
  Qed.
End Quiet.

(* ---- quiet callbacks leave the state alone (any tree implementation) ------------------------------ *)
Section Unchanged.
  Variable St : Type.
  Variable ops : tree_ops St.
  Variable strict : bool.
  Variable b : behaviour.
  Hypothesis Hq : quiet b.

  Lemma invoke_unchanged p : forall es t d oom t' l r oom',
    invoke_snapshot St ops strict t p es d b oom = Ok (t', l, r, oom') -> t' = t.
  Proof.
    induction es as [|q es IH]; intros t d oom t' l r oom' E; simpl in E; [inversion E; auto|].
    destruct (if existsb (path_eqb' q) d then Ok None else o_registration ops t q) as [[[h fb]|]| |]; try discriminate;
      [|eapply IH; eauto].
    destruct (strict && negb (path_eqb' q p || fb)); [eapply IH; eauto|].
    destruct (mem_n h oom); [inversion E; auto|]. rewrite Hq in E. simpl in E.
    destruct (accepts b h); [inversion E; auto|].
    destruct (invoke_snapshot St ops strict t p es d b oom) as [[[[t1 l1] r1] o1]| |] eqn:E1; try discriminate.
    inversion E; subst. eapply IH; eauto.
  Qed.

  Lemma filters_unchanged : forall fs t oom t' l r oom',
    run_filters St ops t fs b oom = Ok (t', l, r, oom') -> t' = t.
  Proof.
    induction fs as [|f fs IH]; intros t oom t' l r oom' E; simpl in E; [inversion E; auto|].
    destruct (mem_n f oom); [inversion E; auto|]. rewrite Hq in E. simpl in E.
    destruct (accepts b f); [inversion E; auto|].
    destruct (run_filters St ops t fs b oom) as [[[[t1 l1] r1] o1]| |] eqn:E1; try discriminate.
    inversion E; subst. eapply IH; eauto.
  Qed.

  Lemma tree_dispatch_unchanged t m oom t' l r rep fnd oom' :
    tree_dispatch_msg St ops strict t m b oom = Ok (t', l, r, rep, fnd, oom') -> t' = t.
  Proof.
    unfold tree_dispatch_msg. destruct (m_path m) as [p|]; [|intros E; inversion E; auto].
    destruct (o_entries ops t p) as [[es f]| |]; try discriminate.
    destruct (invoke_snapshot St ops strict t p es [] b oom) as [[[[t1 l1] r1] o1]| |] eqn:E1; try discriminate.
    apply invoke_unchanged in E1. subst t1.
    destruct r1; try (intros E; inversion E; auto; fail).
    destruct (default_introspect St ops t m p) as [[ri|]| |]; intros E; inversion E; auto.
  Qed.

  Lemma attempt_unchanged t fs m oom t' l r oom' :
    attempt St ops strict t fs m b oom = Ok (t', l, r, oom') -> t' = t.
  Proof.
    unfold attempt. destruct (m_reply_pending m); [intros E; inversion E; auto|].
    destruct (peer_filter m); [intros E; inversion E; auto|].
    destruct (run_filters St ops t fs b oom) as [[[[t1 l1] r1] o1]| |] eqn:E1; try discriminate.
    apply filters_unchanged in E1. subst t1.
    destruct r1; try (intros E; inversion E; auto; fail).
    destruct (tree_dispatch_msg St ops strict t m b o1) as [[[[[[t2 l2] r2] rep] fnd] o2]| |] eqn:E2; try discriminate.
    apply tree_dispatch_unchanged in E2. subst t2.
    destruct r2; [destruct rep | | ]; try (intros E; inversion E; auto; fail).
    destruct (type_eqb (m_type m) MethodCall); [destruct fnd as [[|]|]|]; intros E; inversion E; auto.
  Qed.

  Lemma quiet_unchanged fs m : forall oom t t' l r,
    dispatch_message_gen St ops strict t fs m b oom = Ok (t', l, r) -> t' = t.
  Proof.
    unfold dispatch_message_gen. intros oom. generalize (S (length oom)). intros fuel. revert oom.
    induction fuel as [|fuel IH]; intros oom t t' l r E; simpl in E; [discriminate|].
    destruct (attempt St ops strict t fs m b oom) as [[[[t1 l1] [r1|]] o1]| |] eqn:E1; try discriminate;
      apply attempt_unchanged in E1; subst t1.
    - inversion E; auto.
    - destruct (conn_dispatch St ops strict fuel t fs m b o1) as [[[t2 l2] r2]| |] eqn:E2; try discriminate.
      inversion E; subst. eapply IH; eauto.
  Qed.
End Unchanged.

(* ---- pending call and Peer built-ins: nothing else runs, whatever the tree --------------------- *)
Lemma dispatch_pending t fs m b oom :
  m_reply_pending m = true -> dispatch_message t fs m b oom = Ok (t, [], RepPendingCompleted).
Proof. intros H. unfold dispatch_message, dispatch_message_gen. simpl. unfold attempt. rewrite H. reflexivity. Qed.

Lemma dispatch_peer t fs m b oom :
  m_reply_pending m = false -> m_iface m = IfPeer ->
  exists r, dispatch_message t fs m b oom = Ok (t, [], r) /\
    r = (if is_method_call m IfPeer MemPing then RepPeerPing
         else if is_method_call m IfPeer MemGetMachineId then RepPeerMachineId else RepUnknownMethod).
Proof.
  intros H Hi. unfold dispatch_message, dispatch_message_gen. simpl. unfold attempt, peer_filter. rewrite H, Hi. simpl.
  destruct (is_method_call m IfPeer MemPing); [eauto|]. destruct (is_method_call m IfPeer MemGetMachineId); eauto.
Qed.

(* ---- lifted to the model, for every history ------------------------------------------------------ *)
Lemma well_formed_path m p : m_path m = Some p -> well_formed m.
Proof. intros H _. congruence. Qed.

(* callbacks that never register a non-fallback handler: the code meets the strict specification *)
Lemma dispatch_strict_partial ops fs m b oom : well_formed m -> fallback_only b ->
  exists t t' s' log r r',
    run ops = Ok t /\ dispatch_message t fs m b oom = Ok (t', log, r) /\
    s_dispatch_message (s_run ops) fs m b oom = Ok (s', log, r') /\ refines t' s' /\ reply_rel r r'.
Proof.
  intros WF Hf. destruct (dispatch_after_history ops fs m b oom WF) as (t & t' & s' & log & r & r' & E1 & E2 & E3 & R & Hr).
  exists t, t', s', log, r, r'. rewrite s_dispatch_strict_lax; auto.
Qed.

(* quiet callbacks: filters in order, then exact handler, then fallbacks of shorter and shorter
   prefixes, cut at the first taker; the tree is unchanged; the reply is the specified one up to F12 *)
Lemma dispatch_quiet ops fs m b p :
  quiet b -> m_reply_pending m = false -> peer_filter m = None -> m_path m = Some p ->
  exists t r,
    run ops = Ok t /\
    dispatch_message t fs m b [] = Ok (t, take_until (accepts b) (fs ++ s_offered (s_run ops) p), r) /\
    reply_rel r (quiet_reply b (s_run ops) fs m p).
Proof.
  intros Hq Hp Hpeer Hpath.
  destruct (dispatch_strict_partial ops fs m b [] (well_formed_path m p Hpath) (quiet_fallback_only b Hq))
    as (t & t' & s' & log & r & r' & E1 & E2 & E3 & R & Hr).
  rewrite (s_dispatch_quiet b Hq _ fs m p Hp Hpeer Hpath) in E3. inversion E3; subst s' log r'.
  assert (Et : t' = t) by (eapply (quiet_unchanged node model_ops false b Hq); exact E2).
  subst t'. exists t, r. auto.
Qed.
