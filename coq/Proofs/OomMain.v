(* C14: the statements about [step_f] (one request of the bus with failing
   allocations), assembled from the generic machine facts and the per-handler
   safety lemmas; the invariant of reachable states. *)
From DV Require Import Spec.OomSpec Proofs.OomGeneric Proofs.OomLists Proofs.OomInv Proofs.OomHandlers.
Local Open Scope N_scope.

Lemma find_conn_id cs c cn : find_conn cs c = Some cn -> c_id cn = c.
Proof.
  induction cs as [|x r IH]; simpl; [discriminate|].
  destruct (c_id x =? c) eqn:E; [|exact IH]. intros H; inversion H; subst. apply N.eqb_eq; exact E.
Qed.

Definition is_reply (e : event) : bool := match e with EvReply _ _ _ _ => true | _ => false end.

(* every request class outside the exceptions runs a safe program; except for
   replies the undo is exact, so any reflexive R will do *)
Lemma covered_safe_R (R : bus -> bus -> Prop) (Rrefl : forall x, R x x) b e c p :
  inv b -> handler b e = Some (c, p) -> uncovered b e = false -> is_reply e = false ->
  safe R b b [] (allocs 3 ;;; p).
Proof.
  intros Hinv Hh Hun Hnr. apply (safe_prelude R).
  destruct e as [|c0|c0 name flags|c0 name|c0 r|c0 r|c0 d tag|c0 j tag ie|c0 m]; simpl in Hh; try discriminate;
    destruct (find_conn (b_conns b) c0) as [cn|] eqn:Ef; try discriminate;
    inversion Hh; subst; clear Hh;
    pose proof (find_conn_id _ _ _ Ef) as Hid; subst c.
  - simpl in Hun. rewrite Ef in Hun. apply negb_false_iff in Hun. apply safe_hello_again; exact Hun.
  - apply safe_request; auto.
  - apply safe_release; auto.
  - apply safe_add_match; auto.
  - apply safe_remove_match; auto.
  - simpl in Hun. rewrite Ef in Hun. apply negb_false_iff in Hun. rewrite Hun. apply safe_call; auto.
  - simpl in Hun. rewrite Ef in Hun. apply negb_false_iff in Hun. rewrite Hun. apply safe_signal.
Qed.

Lemma covered_safe b e c p :
  inv b -> handler b e = Some (c, p) -> uncovered b e = false ->
  safe same_state b b [] (allocs 3 ;;; p).
Proof.
  intros Hinv Hh Hun. destruct (is_reply e) eqn:Er.
  - destruct e; try discriminate. simpl in Hh.
    destruct (find_conn (b_conns b) c0) as [cn|] eqn:Ef; [|discriminate]. inversion Hh; subst; clear Hh.
    apply (safe_prelude same_state). simpl in Hun. rewrite Ef in Hun. apply negb_false_iff in Hun. rewrite Hun.
    apply safe_reply; exact Hinv.
  - apply (covered_safe_R same_state same_state_refl b e c p); auto.
Qed.

Lemma handler_requester b e c p : handler b e = Some (c, p) -> requester e = Some c.
Proof.
  destruct e; simpl; try discriminate;
    match goal with |- context [find_conn ?cs ?x] => destruct (find_conn cs x) end; try discriminate;
    intros H; inversion H; reflexivity.
Qed.

Lemma covered_has_handler b e c :
  requester e = Some c -> uncovered b e = false -> exists p, handler b e = Some (c, p).
Proof.
  destruct e; simpl; try discriminate; intros H; inversion H; subst;
    match goal with |- context [find_conn ?cs ?x] => destruct (find_conn cs x) end; try discriminate; eauto.
Qed.

(* ---- atomicity on the covered classes ------------------------------------------------------------ *)
Theorem atomic_covered b e c F :
  inv b -> requester e = Some c -> uncovered b e = false ->
  atomic b c (step b e) (step_f F b e).
Proof.
  intros Hinv Hreq Hun.
  destruct (covered_has_handler b e c Hreq Hun) as (p & Hh).
  pose proof (covered_safe b e c p Hinv Hh Hun) as Hsafe.
  unfold step, step_f. destruct e; try discriminate; rewrite Hh;
    (destruct (run_request_atomic same_state F c p b (same_state_refl b) Hsafe) as [H|(b' & H1 & H2)];
     [left; exact H | right; exists b'; split; assumption]).
Qed.

(* except for replies the prior state comes back exactly *)
Theorem atomic_covered_exact b e c F :
  inv b -> requester e = Some c -> uncovered b e = false -> is_reply e = false ->
  step_f F b e = step b e \/ step_f F b e = OOk b [(c, MError ENoMemory)].
Proof.
  intros Hinv Hreq Hun Hnr.
  destruct (covered_has_handler b e c Hreq Hun) as (p & Hh).
  pose proof (covered_safe_R eq (@eq_refl bus) b e c p Hinv Hh Hun Hnr) as Hsafe.
  unfold step, step_f. destruct e; try discriminate; rewrite Hh;
    (destruct (run_request_atomic eq F c p b eq_refl Hsafe) as [H|(b' & H1 & H2)];
     [left; exact H | right; subst b'; exact H1]).
Qed.

Theorem covered_runs b e c F :
  inv b -> requester e = Some c -> uncovered b e = false -> step_f F b e <> OStop.
Proof.
  intros Hinv Hreq Hun.
  destruct (covered_has_handler b e c Hreq Hun) as (p & Hh).
  pose proof (covered_safe b e c p Hinv Hh Hun) as Hsafe.
  unfold step_f. destruct e; try discriminate; rewrite Hh;
    apply (run_request_safe_runs same_state F c p b (same_state_refl b) Hsafe).
Qed.

Lemma same_outcome_refl r : same_outcome r r.
Proof. destruct r; simpl; auto. split; [reflexivity|apply same_state_refl]. Qed.

(* ---- messages are delivered completely or not at all, for every request ---------------------------- *)
Theorem outputs_all_or_nothing_all b e c F :
  requester e = Some c -> outputs_all_or_nothing c (step b e) (step_f F b e).
Proof.
  intros Hreq. unfold outputs_all_or_nothing, step, step_f.
  destruct e; try discriminate;
    match goal with |- context [handler ?b ?ev] => destruct (handler b ev) as [[c' p]|] eqn:Hh end;
    try (left; reflexivity);
    pose proof (handler_requester _ _ _ _ Hh) as Hr; rewrite Hreq in Hr; inversion Hr; subst c';
    apply run_request_outputs.
Qed.

(* ---- the invariant is kept by every unfailed request (Proofs.OomInv) ------------------------------- *)
Lemma run_request_inv c p b b' o : inv b -> run_request no_fail c p b = OOk b' o -> inv b'.
Proof.
  intros Hinv. unfold run_request.
  pose proof (interp_inv _ (allocs 3 ;;; p) no_fail (mkSt b [] [] 0) Hinv) as Hi.
  destruct (interp no_fail (allocs 3 ;;; p) (mkSt b [] [] 0)) as [a s1|s1|e1 s1|] eqn:E1.
  - intros H; inversion H; subst. apply free_all_inv; exact Hi.
  - exfalso. eapply interp_nofail_no_oom; exact E1.
  - pose proof (interp_inv _ (error_reply (is_active (s_bus s1) c) c e1) no_fail s1 Hi) as Hi2.
    destruct (interp no_fail (error_reply (is_active (s_bus s1) c) c e1) s1) as [a2 s2|s2|e2 s2|] eqn:E2.
    + intros H; inversion H; subst. apply free_all_inv; exact Hi2.
    + exfalso. eapply interp_nofail_no_oom; exact E2.
    + discriminate.
    + discriminate.
  - discriminate.
Qed.

Lemma step_inv b e b' o : inv b -> step b e = OOk b' o -> inv b'.
Proof.
  intros Hinv. unfold step, step_f.
  destruct e; try (intros H; inversion H; subst; unfold connect, inv in *; simpl; exact Hinv);
    match goal with |- context [handler ?b ?ev] => destruct (handler b ev) as [[rc rp]|] end; try discriminate;
    apply run_request_inv; exact Hinv.
Qed.

Theorem reachable_inv mn mr mp h b : run (init_bus mn mr mp) h = Some b -> inv b.
Proof.
  assert (H0 : inv (init_bus mn mr mp)) by (unfold inv; simpl; split; constructor).
  revert H0. generalize (init_bus mn mr mp) as b1. induction h as [|e r IH]; intros b1 Hinv; simpl.
  - intros H; inversion H; subst; exact Hinv.
  - destruct (step b1 e) as [b2 o|] eqn:Es; [|discriminate]. apply IH. eapply step_inv; eauto.
Qed.

(* ---- retry ------------------------------------------------------------------------------------------------- *)
Lemma existsb_perm {A} (p : A -> bool) l l' : Permutation l l' -> existsb p l = existsb p l'.
Proof.
  induction 1; simpl; auto.
  - rewrite IHPermutation; reflexivity.
  - destruct (p x), (p y); reflexivity.
  - congruence.
Qed.

Lemma remove_first_perm2 p l l' :
  Permutation l l' -> Permutation (remove_first (pend_eqb p) l) (remove_first (pend_eqb p) l').
Proof.
  induction 1 as [|x l l' H IH|x y l|l l' l'' H1 IH1 H2 IH2]; simpl.
  - constructor.
  - destruct (pend_eqb p x); [exact H|apply perm_skip; exact IH].
  - destruct (pend_eqb p y) eqn:Ey, (pend_eqb p x) eqn:Ex.
    + apply pend_eqb_eq in Ey, Ex. subst. apply Permutation_refl.
    + apply Permutation_refl.
    + apply Permutation_refl.
    + apply perm_swap.
  - eapply perm_trans; eauto.
Qed.

(* a reply does the same thing whatever the order of the pending-reply list *)
Lemma step_reply_same b b' c j tag ie :
  same_state b' b -> same_outcome (step b' (EvReply c j tag ie)) (step b (EvReply c j tag ie)).
Proof.
  intros (Hc & Hs & Hp & Hn & H1 & H2 & H3 & H4 & H5).
  unfold step, step_f, handler. rewrite Hc.
  destruct (find_conn (b_conns b) c) as [cn|] eqn:Ef; [|exact I].
  unfold run_request.
  destruct (c_active cn) eqn:Ea; [|simpl; exact I].
  unfold reply, get. simpl. rewrite Hs.
  destruct (lookup (b_services b) (KU j)) as [[|p q]|] eqn:El; simpl.
  - exact I.
  - destruct (o_live p); simpl; [|exact I].
    rewrite (existsb_perm (pend_eqb (mkPend (o_conn p) c tag)) _ _ Hp).
    destruct (existsb (pend_eqb (mkPend (o_conn p) c tag)) (b_pending b)) eqn:Ex; simpl.
    + rewrite (existsb_perm (pend_eqb (mkPend (o_conn p) c tag)) _ _ Hp), Ex. simpl.
      split; [reflexivity|]. unfold same_state; simpl. repeat split; auto. apply remove_first_perm2; exact Hp.
    + unfold is_active. simpl. rewrite Hc, Ef, Ea. simpl.
      split; [reflexivity|]. unfold same_state; repeat split; auto.
  - unfold is_active. simpl. rewrite Hc, Ef, Ea. simpl.
    split; [reflexivity|]. unfold same_state; repeat split; auto.
Qed.

Theorem retry_covered b e c F :
  inv b -> requester e = Some c -> uncovered b e = false ->
  forall b', step_f F b e = OOk b' [(c, MError ENoMemory)] -> step_f F b e <> step b e ->
  same_outcome (step b' e) (step b e) /\ step b e <> OStop.
Proof.
  intros Hinv Hreq Hun b' Hf Hne.
  split; [|apply (covered_runs b e c no_fail Hinv Hreq Hun)].
  destruct (is_reply e) eqn:Er.
  - destruct (atomic_covered b e c F Hinv Hreq Hun) as [H|(b1 & H1 & H2)]; [contradiction|].
    rewrite Hf in H1. inversion H1; subst b1.
    destruct e; try discriminate. apply step_reply_same; exact H2.
  - destruct (atomic_covered_exact b e c F Hinv Hreq Hun Er) as [H|H]; [contradiction|].
    rewrite Hf in H. inversion H; subst. apply same_outcome_refl.
Qed.
