(* C19, helper part: the launch helper executes a program only under the
   conditions of the property; totality of the desktop-file loop. *)
From DV Require Import Lib.Base Gen.Tables Wire.Utf8 Wire.Names Spec.NamesSpec Spec.Utf8Spec Proofs.NamesProofs Proofs.Utf8Proofs
  Activation.Helper.
From Coq Require Import ZifyBool ZifyN ZifyNat.
Local Open Scope N_scope.

(* ---------------------------------------------------------------- the decision chain *)
Lemma find_desktop_found fname dirs df : find_desktop fname dirs = Found df ->
  exists pre d post content,
    dirs = pre ++ d :: post /\ lookup_file fname d = Some content /\ desktop_load content = LOk df /\
    (forall d', In d' pre -> lookup_file fname d' = None \/ exists c', lookup_file fname d' = Some c' /\ desktop_load c' = LErr).
Proof.
  induction dirs as [|d dirs IH]; simpl; [discriminate|].
  destruct (lookup_file fname d) as [content|] eqn:L.
  - destruct (desktop_load content) as [df'| |] eqn:D.
    + intros H. inversion H; subst. exists [], d, dirs, content. repeat split; auto. intros d' [].
    + intros H. destruct (IH H) as [pre [d0 [post [c0 [E [H1 [H2 H3]]]]]]].
      exists (d :: pre), d0, post, c0. subst dirs. repeat split; auto.
      intros d' [<-|Hin]; [right; exists content; tauto | apply H3; exact Hin].
    + discriminate.
  - intros H. destruct (IH H) as [pre [d0 [post [c0 [E [H1 [H2 H3]]]]]]].
    exists (d :: pre), d0, post, c0. subst dirs. repeat split; auto.
    intros d' [<-|Hin]; [left; exact L | apply H3; exact Hin].
Qed.

Theorem helper_sound env name argv user : helper env name = HExec argv user ->
  validate_bus_name name = true /\ env.(h_perm_ok) = true /\
  exists pre d post content df ex,
    env.(h_dirs) = pre ++ d :: post /\
    lookup_file (name ++ DOT_SERVICE) d = Some content /\ desktop_load content = LOk df /\
    (forall d', In d' pre -> lookup_file (name ++ DOT_SERVICE) d' = None \/
                             exists c', lookup_file (name ++ DOT_SERVICE) d' = Some c' /\ desktop_load c' = LErr) /\
    get_string df SECTION KEY_NAME = Some name /\
    get_string df SECTION KEY_EXEC = Some ex /\
    get_string df SECTION KEY_USER = Some user /\
    env.(h_user_ok) user = true /\ shell_parse ex = ShOk argv.
Proof.
  unfold helper. intros H.
  destruct (validate_bus_name name) eqn:V; simpl in H; [|discriminate].
  destruct (h_perm_ok env) eqn:P; simpl in H; [|discriminate].
  destruct (find_desktop (name ++ DOT_SERVICE) (h_dirs env)) as [df| |] eqn:F; try discriminate.
  destruct (get_string df SECTION KEY_NAME) as [n|] eqn:Gn; [|discriminate].
  destruct (bytes_eqb n name) eqn:En; simpl in H; [|discriminate].
  apply bytes_eqb_eq in En. subst n.
  destruct (get_string df SECTION KEY_EXEC) as [ex|] eqn:Ge; [|discriminate].
  destruct (get_string df SECTION KEY_USER) as [u|] eqn:Gu; [|discriminate].
  destruct (h_user_ok env u) eqn:U; simpl in H; [|discriminate].
  destruct (shell_parse ex) as [av| |] eqn:S; try discriminate.
  inversion H; subst.
  destruct (find_desktop_found _ _ _ F) as [pre [d [post [content [E [H1 [H2 H3]]]]]]].
  repeat split; auto. exists pre, d, post, content, df, ex. repeat split; auto.
Qed.

(* the characters of an accepted name: nothing that could leave the directory, no NUL *)
Lemma dotted_loop_chars (io co : N -> bool) : forall s b, dotted_loop io co s b = true ->
  forall x, In x s -> x = 46 \/ io x = true \/ co x = true.
Proof.
  induction s as [s IH] using list_strong_ind. intros b H x Hx.
  destruct s as [|c rest]; [contradiction|]. cbn [dotted_loop] in H. unfold DOT in H.
  destruct (c =? 46) eqn:Ec.
  - apply N.eqb_eq in Ec. subst c. destruct rest as [|d rest']; [discriminate|].
    destruct (io d) eqn:Id; [|discriminate].
    destruct Hx as [<-|[<-|Hx]]; [left; reflexivity | right; left; exact Id |].
    eapply (IH rest'); eauto. simpl. lia.
  - destruct (co c) eqn:Cc; [|discriminate].
    destruct Hx as [<-|Hx]; [right; right; exact Cc|].
    eapply (IH rest); eauto.
Qed.

Lemma name_chars name : validate_bus_name name = true ->
  forall x, In x name -> x = 58 \/ x = 46 \/ valid_bus_name_character x = true.
Proof.
  unfold validate_bus_name, validate_bus_name_full. intros H x Hx.
  destruct (DBUS_MAXIMUM_NAME_LENGTH <? nlen name); [discriminate|].
  destruct name as [|c rest]; [contradiction|]. unfold COLON, DOT in H.
  destruct (c =? 58) eqn:E1.
  - apply N.eqb_eq in E1. subst c. destruct Hx as [<-|Hx]; [left; reflexivity|].
    unfold unique_loop in H. destruct (dotted_loop_chars _ _ _ _ H x Hx) as [->|[H1|H1]]; tauto.
  - destruct (c =? 46); [discriminate|].
    destruct (valid_initial_bus_name_character c) eqn:E2; simpl in H; [|discriminate].
    assert (forall y, valid_initial_bus_name_character y = true -> valid_bus_name_character y = true) as Hinit.
    { intros y. rewrite gen_initial_bus_name, gen_bus_name. unfold is_alnum_us_hy, is_alpha_us_hy, is_alnum_us.
      intros Hy. apply orb_true_iff in Hy. destruct Hy as [Hy|Hy]; rewrite Hy; simpl; [reflexivity | apply orb_true_r]. }
    destruct Hx as [<-|Hx]; [right; right; apply Hinit; exact E2|].
    destruct (dotted_loop_chars _ _ _ _ H x Hx) as [->|[H1|H1]]; [tauto | right; right; apply Hinit; exact H1 | tauto].
Qed.

Theorem name_stays_in_directory name : validate_bus_name name = true -> ~ In 47 name /\ ~ In 0 name.
Proof.
  intros H. split; intros Hin; destruct (name_chars name H _ Hin) as [E|[E|E]]; try discriminate;
    rewrite gen_bus_name in E; vm_compute in E; discriminate.
Qed.

(* for names that do not start with ':' the accepted names are exactly the specification's (C16) *)
Corollary helper_name_wellknown env name argv user : helper env name = HExec argv user ->
  (match name with 58 :: _ => False | _ => True end) -> spec_bus_name name = true.
Proof.
  intros H Hw. apply helper_sound in H. destruct H as [V _]. rewrite <- (wellknown_correct name Hw). exact V.
Qed.

(* ---------------------------------------------------------------- the model's fuel is never exhausted on byte strings *)
Lemma take_line_shorter s : (length (snd (take_line s)) <= length s)%nat.
Proof.
  induction s as [|c r IH]; simpl; [lia|].
  destruct (c =? 13).
  - destruct r as [|d r']; simpl; [lia|]. destruct (d =? 10); simpl; lia.
  - destruct (c =? 10); simpl; [lia|]. destruct (take_line r) as [l r'] eqn:E. simpl in *. lia.
Qed.

Lemma take_line_progress c r : (length (snd (take_line (c :: r))) <= length r)%nat.
Proof.
  simpl. destruct (c =? 13).
  - destruct r as [|d r']; simpl; [lia|]. destruct (d =? 10); simpl; lia.
  - destruct (c =? 10); simpl; [lia|]. pose proof (take_line_shorter r) as H. destruct (take_line r) as [l r']. simpl in *. lia.
Qed.

Lemma dloop_total : forall fuel s cur done, (length s < fuel)%nat -> dloop fuel s cur done <> LFuel.
Proof.
  induction fuel as [|f IH]; intros s cur done Hl; [lia|].
  destruct s as [|c r]; cbn [dloop]; [discriminate|].
  pose proof (take_line_progress c r) as Hp. destruct (take_line (c :: r)) as [line rest] eqn:E. cbn [snd] in Hp.
  assert (length rest < f)%nat as Hr by (simpl in Hl; lia).
  destruct (c =? 91).
  - destruct (parse_section line); [apply IH; exact Hr | discriminate].
  - destruct (is_blank (c :: r) || (c =? 35)); [apply IH; exact Hr|].
    destruct cur as [[n ls]|]; [|discriminate].
    destruct (parse_kv line); [apply IH; exact Hr | apply IH; exact Hr | discriminate].
Qed.

Theorem desktop_load_total content : all_bytes content = true -> desktop_load content <> LFuel.
Proof.
  intros Hb. unfold desktop_load. destruct (MAX_DESKTOP_SIZE <? nlen content); [discriminate|].
  rewrite (utf8_correct content Hb). destruct (spec_utf8 content); [|discriminate].
  apply dloop_total. lia.
Qed.

Theorem helper_total env name :
  (forall d f c, In d env.(h_dirs) -> In (f, c) d -> all_bytes c = true) -> helper env name <> HFault.
Proof.
  intros Hb. unfold helper.
  destruct (negb (validate_bus_name name)); [discriminate|].
  destruct (negb (h_perm_ok env)); [discriminate|].
  assert (find_desktop (name ++ DOT_SERVICE) (h_dirs env) <> FFault) as Hf.
  { revert Hb. generalize (h_dirs env). induction l as [|d l IH]; simpl; intros Hb; [discriminate|].
    assert (forall f c, lookup_file f d = Some c -> exists f', In (f', c) d) as Hl.
    { clear. induction d as [|[n c0] d IH]; simpl; intros f c H; [discriminate|].
      destruct (bytes_eqb n f); [inversion H; subst; eexists; left; reflexivity|].
      destruct (IH f c H) as [f' Hf']. exists f'. right. exact Hf'. }
    destruct (lookup_file (name ++ DOT_SERVICE) d) as [content|] eqn:L.
    - destruct (Hl _ _ L) as [f' Hf'].
      pose proof (desktop_load_total content (Hb d f' content (or_introl eq_refl) Hf')) as Ht.
      destruct (desktop_load content); [discriminate | | congruence].
      apply IH. intros d0 f c Hd. apply Hb. right. exact Hd.
    - apply IH. intros d0 f c Hd. apply Hb. right. exact Hd. }
  destruct (find_desktop (name ++ DOT_SERVICE) (h_dirs env)); [|discriminate|congruence].
  destruct (get_string d SECTION KEY_NAME); [|discriminate].
  destruct (negb (bytes_eqb b name)); [discriminate|].
  destruct (get_string d SECTION KEY_EXEC); [|discriminate].
  destruct (get_string d SECTION KEY_USER); [|discriminate].
  destruct (negb (h_user_ok env b1)); [discriminate|].
  destruct (shell_parse b0); discriminate.
Qed.

(* ---------------------------------------------------------------- the literal statement fails for degenerate unique names (C16/F2) *)
(* "[D-BUS Service]\nName=:\nExec=/x\nUser=r\n" *)
Definition f19_3_file : bytes :=
  [91] ++ SECTION ++ [93; 10] ++ KEY_NAME ++ [61; 58; 10] ++ KEY_EXEC ++ [61; 47; 120; 10] ++ KEY_USER ++ [61; 114; 10].
Definition f19_3_env : henv := mkHenv [[([58] ++ DOT_SERVICE, f19_3_file)]] true (fun _ => true).

Lemma helper_full_refuted : exists env name argv user, helper env name = HExec argv user /\ spec_bus_name name = false.
Proof. exists f19_3_env, [58], [[47; 120]], [114]. split; vm_compute; reflexivity. Qed.

(* non-vacuity: a complete, well-formed file is executed; quoting in Exec is resolved as the shell would *)
(* "[D-BUS Service]\nName=a.b\nExec=/x 'c d'\nUser=r\n" *)
Definition good_file : bytes :=
  [91] ++ SECTION ++ [93; 10] ++ KEY_NAME ++ [61; 97; 46; 98; 10] ++ KEY_EXEC ++ [61; 47; 120; 32; 39; 99; 32; 100; 39; 10] ++ KEY_USER ++ [61; 114; 10].
Definition good_env : henv := mkHenv [[]; [([97; 46; 98] ++ DOT_SERVICE, good_file)]] true (fun _ => true).
Lemma helper_executes_good : helper good_env [97; 46; 98] = HExec [[47; 120]; [99; 32; 100]] [114].
Proof. vm_compute. reflexivity. Qed.
Lemma helper_rejects_other_name : helper good_env [97; 46; 99] = HExit EXIT_SERVICE_NOT_FOUND.
Proof. vm_compute. reflexivity. Qed.
