(* C18, part 4: monitors are erasable.  Running a step from a state and running it from the same state
   with all monitors (and their rules) deleted gives, monitors deleted again, the same state, and every
   connection that is not a monitor is delivered the same messages in the same order. *)
From Coq Require Import ZifyBool ZifyN ZifyNat Permutation.
From DV Require Import Lib.Base Monitor.Monitor Spec.MonitorSpec Proofs.MonitorBase Proofs.MonitorInv Proofs.MonitorSees.
Local Open Scope N_scope.

Definition core (st : state) : state :=
  upd st (filter (fun c => negb (is_monitor st c)) (st_conns st)) (st_next st) (st_own st) (st_rules st) [] [] (st_pend st).

Definition erase (it : item) : item :=
  mkItem [] (i_from it) (i_addr it) (i_msg it) (i_local it) [] (i_direct it) (i_match it) (i_resumed it).

(* ---------------------------------------------------------------- views only look at erased items *)
Lemma view_app c l1 l2 : view c (l1 ++ l2) = view c l1 ++ view c l2.
Proof. unfold view, outs. rewrite flat_map_app, filter_app, map_app. reflexivity. Qed.

Lemma view_cons c it l : view c (it :: l) = view c [it] ++ view c l.
Proof. apply (view_app c [it] l). Qed.

Lemma filter_captures c (cap : list cid) (m : bmsg) :
  filter (fun o : cid * kind * bmsg => (fst (fst o) =? c) && negb (is_capture (snd (fst o))))
         (map (fun x => (x, KCapture, m)) cap) = [].
Proof. induction cap as [|x cap IH]; simpl; auto. rewrite andb_false_r. exact IH. Qed.

Lemma view_one_erase c it : view c [erase it] = view c [it].
Proof.
  unfold view, outs. simpl. rewrite !app_nil_r. unfold item_outs. simpl.
  rewrite !filter_app. rewrite filter_captures. reflexivity.
Qed.

Lemma view_erase c l : view c (map erase l) = view c l.
Proof.
  induction l as [|it l IH]; simpl; auto.
  rewrite (view_cons c (erase it)), (view_cons c it), IH, view_one_erase. reflexivity.
Qed.

Lemma view_of_erase c l1 l2 : map erase l1 = map erase l2 -> view c l1 = view c l2.
Proof. intros H. rewrite <- (view_erase c l1), <- (view_erase c l2), H. reflexivity. Qed.

Lemma view_nil c : view c [] = [].
Proof. reflexivity. Qed.

(* an item with nothing but monitor copies shows nothing *)
Lemma view_one c it :
  view c [it] =
  (match i_direct it with
   | Some r => if r =? c then [((if i_local it then KLocal else KDirect), i_msg it)] else []
   | None => []
   end) ++ map (fun _ => (KMatch, i_msg it)) (filter (fun r => r =? c) (i_match it)).
Proof.
  unfold view, outs. simpl. rewrite app_nil_r. unfold item_outs. rewrite !filter_app, filter_captures. simpl.
  rewrite map_app. f_equal.
  - destruct (i_direct it) as [r|]; simpl; auto. destruct (i_local it); simpl; rewrite andb_true_r; destruct (r =? c); reflexivity.
  - induction (i_match it) as [|r l IH]; simpl; auto. rewrite andb_true_r. destruct (r =? c); simpl; rewrite IH; reflexivity.
Qed.

(* ---------------------------------------------------------------- the core of a state *)
Lemma is_monitor_core st c : is_monitor (core st) c = false.
Proof. reflexivity. Qed.

Lemma memN_filter_pred (P : cid -> bool) c l : memN c (filter P l) = memN c l && P c.
Proof.
  induction l as [|y l IH]; simpl; auto.
  destruct (P y) eqn:E; simpl; rewrite IH; destruct (c =? y) eqn:E2; simpl; auto.
  - apply N.eqb_eq in E2. subst. rewrite E. reflexivity.
  - apply N.eqb_eq in E2. subst. rewrite E. rewrite andb_false_r. reflexivity.
Qed.

Lemma connected_core st c : connected (core st) c = connected st c && negb (is_monitor st c).
Proof. unfold connected. simpl. apply memN_filter_pred. Qed.

Lemma connected_core_nm st c : is_monitor st c = false -> connected (core st) c = connected st c.
Proof. intros H. rewrite connected_core, H. apply andb_true_r. Qed.

Lemma capture_core st from addr m : capture (core st) from addr m = [].
Proof. reflexivity. Qed.

Definition res_sim (r' r : state * list item) : Prop :=
  fst r' = core (fst r) /\ map erase (snd r') = map erase (snd r).

(* ---------------------------------------------------------------- item producers *)
Lemma mk_item_erase st from addr m d mt : erase (mk_item (core st) from addr m d mt) = erase (mk_item st from addr m d mt).
Proof. reflexivity. Qed.

Lemma from_driver_erase st r m : is_monitor st r = false -> erase (from_driver (core st) r m) = erase (from_driver st r m).
Proof. intros H. unfold from_driver, erase, mk_item. simpl. rewrite (connected_core_nm st r H). reflexivity. Qed.

Lemma fanout_erase st from addr m :
  fst (fanout (core st) from addr m) = fst (fanout st from addr m) /\
  map erase (snd (fanout (core st) from addr m)) = map erase (snd (fanout st from addr m)).
Proof.
  unfold fanout. simpl.
  destruct ((match from with Some _ => deny_send m false | None => false end) || deny_recv m false); simpl; split; auto.
  rewrite !map_map. reflexivity.
Qed.

Lemma noc_item_erase st n old new : erase (noc_item (core st) n old new) = erase (noc_item st n old new).
Proof.
  unfold noc_item. destruct (fanout_erase st None None (noc_msg n old new)) as [H1 _].
  destruct (fanout (core st) None None (noc_msg n old new)) as [rs1 rf1].
  destruct (fanout st None None (noc_msg n old new)) as [rs2 rf2]. simpl in H1. subst. reflexivity.
Qed.

Lemma deliver_erase st c r m resumed :
  is_monitor st c = false -> res_sim (deliver (core st) c r m resumed) (deliver st c r m resumed).
Proof.
  intros Hc. unfold deliver. simpl st_pend. simpl st_own.
  destruct (check_policy (st_pend st) c r m) as [pl v]. cbv zeta.
  destruct v as [e|].
  - split; simpl; auto. f_equal; [destruct resumed; reflexivity|]. f_equal. apply (from_driver_erase (set_pend st pl) c _ Hc).
  - destruct (fanout_erase (set_pend st pl) (Some c) (Some r) m) as [H1 H2].
    change (core (set_pend st pl)) with (set_pend (core st) pl) in H1, H2.
    destruct (fanout (set_pend (core st) pl) (Some c) (Some r) m) as [rs1 rf1].
    destruct (fanout (set_pend st pl) (Some c) (Some r) m) as [rs2 rf2]. simpl in *. subst.
    split; simpl; auto. rewrite H2. f_equal. destruct resumed; reflexivity.
Qed.

Lemma resume_all_erase r l : forall st,
  (forall n c m, In (n, c, m) l -> is_monitor st c = false) ->
  res_sim (resume_all (core st) r l) (resume_all st r l) /\ st_mons (fst (resume_all st r l)) = st_mons st.
Proof.
  induction l as [|[[n c] m] l IH]; intros st Hl; simpl; [split; [split|]; reflexivity|].
  assert (Hc : is_monitor st c = false) by (apply (Hl n c m); left; reflexivity).
  assert (Hl' : forall n' c' m', In (n', c', m') l -> is_monitor st c' = false) by (intros n' c' m' H; apply (Hl n' c' m'); right; auto).
  rewrite (connected_core_nm st c Hc). destruct (connected st c); [|apply IH; auto].
  destruct (deliver_erase st c r m true Hc) as [D1 D2].
  pose proof (deliver_state st c r m true) as Hs.
  destruct (deliver (core st) c r m true) as [s1' i1']. destruct (deliver st c r m true) as [s1 i1]. simpl in D1, D2, Hs. subst s1'.
  assert (Em : st_mons s1 = st_mons st) by (subst s1; reflexivity).
  destruct (IH s1) as [[R1 R2] R3].
  { intros n' c' m' H. unfold is_monitor. rewrite Em. apply (Hl' n' c' m' H). }
  destruct (resume_all (core s1) r l) as [s2' i2']. destruct (resume_all s1 r l) as [s2 i2]. simpl in *.
  split; [split; simpl; auto; rewrite !map_app, D2, R2; reflexivity | congruence].
Qed.

Lemma release_held_erase_gen st nm :
  clean (is_monitor st) st ->
  fst (release_held (core st) nm) = core (fst (release_held st nm)) /\
  map erase (snd (release_held (core st) nm)) = map erase (snd (release_held st nm)) /\
  st_mons (fst (release_held st nm)) = st_mons st.
Proof.
  intros C. unfold release_held. simpl st_own. simpl st_held.
  destruct (primary (st_own st) nm) as [r|]; [|repeat split; reflexivity].
  set (st0 := set_held st (filter (fun h => negb (held_for nm h)) (st_held st))).
  destruct (resume_all_erase r (filter (held_for nm) (st_held st)) st0) as [[R1 R2] R3].
  { intros n c m H. apply filter_In in H. destruct H as [H _]. destruct C as (_ & _ & _ & K4). apply (K4 n c m H). }
  change (set_held (core st) (filter (fun h => negb (held_for nm h)) (st_held st))) with (core st0).
  repeat split; auto.
Qed.

Section WithClean.
Variable st : state.
Hypothesis C : clean (is_monitor st) st.

Lemma remove_owner_erase c n : is_monitor st c = false -> res_sim (remove_owner (core st) c n) (remove_owner st c n).
Proof.
  intros Hc. unfold res_sim. rewrite !remove_owner_state. split; [reflexivity|].
  unfold remove_owner. simpl st_own.
  destruct (queue (st_own st) n) as [|p rest] eqn:Eq; simpl; auto.
  destruct (p =? c); simpl; auto.
  rewrite (from_driver_erase st c _ Hc). f_equal.
  destruct rest as [|w rest']; simpl.
  - rewrite noc_item_erase. reflexivity.
  - rewrite noc_item_erase. f_equal. f_equal. apply from_driver_erase.
    destruct C as (H1 & _). apply (H1 n w). apply queue_In. rewrite Eq. right; left; reflexivity.
Qed.

Lemma noreply_items_erase c : res_sim (noreply_items (core st) c) (noreply_items st c).
Proof.
  unfold res_sim, noreply_items. simpl. split; [reflexivity|].
  rewrite !map_map. apply map_ext_in. intros p Hp. unfold orphaned in Hp. apply filter_In in Hp. destruct Hp as [Hp _].
  apply (from_driver_erase (set_pend st (drop_pending (st_pend st) c))).
  destruct C as (_ & _ & H3 & _). apply (H3 p Hp).
Qed.

Lemma error_reply_erase c m e : is_monitor st c = false -> erase (error_reply (core st) c m e) = erase (error_reply st c m e).
Proof. intros H. apply from_driver_erase; auto. Qed.

Lemma to_driver_erase c m h' h :
  is_monitor st c = false -> res_sim h' h -> res_sim (to_driver (core st) c m h') (to_driver st c m h).
Proof.
  intros Hc [H1 H2]. unfold to_driver, res_sim. destruct (deny_send m false); simpl.
  - split; auto. rewrite (error_reply_erase c m _ Hc). reflexivity.
  - destruct h' as [s' l'], h as [s l]. simpl in *. split; auto. rewrite H2. reflexivity.
Qed.

Lemma request_name_erase c s n dnq :
  is_monitor st c = false -> res_sim (request_name (core st) c s n dnq) (request_name st c s n dnq).
Proof.
  intros Hc. unfold request_name. simpl st_own.
  assert (G : forall st1 (l' l : list item) (code : N), clean (is_monitor st1) st1 -> is_monitor st1 c = false ->
              map erase l' = map erase l ->
              res_sim (let '(st'', l2) := release_held (core st1) (NWk n) in
                       (st'', l' ++ l2 ++ [from_driver st'' c (reply_msg c s [ANum code])]))
                      (let '(st'', l2) := release_held st1 (NWk n) in
                       (st'', l ++ l2 ++ [from_driver st'' c (reply_msg c s [ANum code])]))).
  { intros st1 l' l code C1 Hc1 El. destruct (release_held_erase_gen st1 (NWk n) C1) as (R1 & R2 & R3).
    destruct (release_held (core st1) (NWk n)) as [s2' l2']. destruct (release_held st1 (NWk n)) as [s2 l2].
    simpl in R1, R2, R3. subst s2'. split; simpl; auto.
    rewrite !map_app, El, R2. f_equal. f_equal. simpl. f_equal. apply from_driver_erase.
    unfold is_monitor. rewrite R3. exact Hc1. }
  destruct (queue (st_own st) (NWk n)) as [|p q] eqn:Eq.
  - apply (G (set_own st (st_own st ++ [(NWk n, c)]))).
    + apply (clean_set_own_add (is_monitor st) st); auto.
    + exact Hc.
    + simpl. rewrite noc_item_erase, (from_driver_erase st c _ Hc). reflexivity.
  - destruct (p =? c); [apply (G st); auto|].
    destruct dnq.
    + apply (G (set_own st (unlink (st_own st) (NWk n) c))); auto.
      apply (clean_set_own_sub (is_monitor st) st); auto. intros [k o] H. apply unlink_In in H. tauto.
    + destruct (memN c (p :: q)); [apply (G st); auto|].
      apply (G (set_own st (st_own st ++ [(NWk n, c)]))); auto.
      apply (clean_set_own_add (is_monitor st) st); auto.
Qed.

Lemma release_name_erase c s n :
  is_monitor st c = false -> res_sim (release_name (core st) c s n) (release_name st c s n).
Proof.
  intros Hc. unfold release_name. simpl st_own.
  destruct (queue (st_own st) (NWk n)) as [|p q] eqn:Eq; [split; simpl; auto; rewrite (from_driver_erase st c _ Hc); reflexivity|].
  destruct (memN c (p :: q)); [|split; simpl; auto; rewrite (from_driver_erase st c _ Hc); reflexivity].
  destruct (remove_owner_erase c (NWk n) Hc) as [H1 H2].
  destruct (remove_owner (core st) c (NWk n)) as [s1' l1']. destruct (remove_owner st c (NWk n)) as [s1 l1] eqn:E.
  simpl in *. subst s1'. split; simpl; auto. rewrite !map_app, H2. f_equal. simpl.
  pose proof (remove_owner_state st c (NWk n)) as Hs. rewrite E in Hs. simpl in Hs. subst s1.
  rewrite <- (from_driver_erase (set_own st (unlink (st_own st) (NWk n) c)) c _ Hc). reflexivity.
Qed.

Lemma add_match_erase c s f : is_monitor st c = false -> res_sim (add_match (core st) c s f) (add_match st c s f).
Proof.
  intros Hc. unfold add_match, res_sim. simpl. split; auto.
  set (st' := upd st (st_conns st) (st_next st) (st_own st) (st_rules st ++ [(c, f)]) (st_mrules st) (st_mons st) (st_pend st)).
  rewrite <- (from_driver_erase st' c _ Hc). reflexivity.
Qed.

Lemma get_id_erase c s : is_monitor st c = false -> res_sim (get_id (core st) c s) (get_id st c s).
Proof. intros Hc. unfold get_id, res_sim. simpl. split; auto. rewrite (from_driver_erase st c _ Hc). reflexivity. Qed.

Lemma driver_generic_erase c m : is_monitor st c = false -> res_sim (driver_generic (core st) c m) (driver_generic st c m).
Proof.
  intros Hc. unfold driver_generic, res_sim. destruct (b_type m) as [[| | |]|n]; simpl; split; auto.
  rewrite (error_reply_erase c m _ Hc). reflexivity.
Qed.

Lemma dispatch_erase c m : is_monitor st c = false -> res_sim (dispatch (core st) c m) (dispatch st c m).
Proof.
  intros Hc. unfold dispatch. simpl st_own.
  destruct (b_dest m) as [d|].
  2:{ destruct (fanout_erase st (Some c) None m) as [H1 H2].
      destruct (fanout (core st) (Some c) None m) as [rs1 rf1]. destruct (fanout st (Some c) None m) as [rs2 rf2].
      simpl in *. subst. split; simpl; auto. rewrite H2. reflexivity. }
  assert (G : forall d', res_sim
     (match primary (st_own st) d' with None => no_owner (core st) c d' m | Some r => deliver (core st) c r m false end)
     (match primary (st_own st) d' with None => no_owner st c d' m | Some r => deliver st c r m false end)).
  { intros d'. destruct (primary (st_own st) d') as [r|].
    - apply deliver_erase; auto.
    - unfold no_owner. destruct (b_noauto m); [split; simpl; auto; rewrite (error_reply_erase c m _ Hc); reflexivity|].
      destruct (negb (activatable d')); [split; simpl; auto; rewrite (error_reply_erase c m _ Hc); reflexivity|].
      destruct (deny_send m false); split; simpl; auto. rewrite (error_reply_erase c m _ Hc). reflexivity. }
  destruct d as [|u|w].
  - apply to_driver_erase; auto. apply driver_generic_erase; auto.
  - apply G.
  - apply G.
Qed.

End WithClean.

Lemma release_all_erase c ns : forall st,
  clean (is_monitor st) st -> is_monitor st c = false -> res_sim (release_all (core st) c ns) (release_all st c ns).
Proof.
  induction ns as [|n ns IH]; intros st C Hc; simpl.
  - split; reflexivity.
  - destruct (remove_owner_erase st C c n Hc) as [H1 H2].
    destruct (remove_owner (core st) c n) as [s1' i1']. destruct (remove_owner st c n) as [s1 i1] eqn:E1.
    simpl in H1, H2. subst s1'.
    pose proof (remove_owner_state st c n) as Hs. rewrite E1 in Hs. simpl in Hs.
    assert (C1 : clean (is_monitor s1) s1).
    { subst s1. apply (clean_set_own_sub (is_monitor st) st); auto. intros [k o] H. apply unlink_In in H. tauto. }
    assert (Hc1 : is_monitor s1 c = false) by (subst s1; exact Hc).
    destruct (IH s1 C1 Hc1) as [H3 H4].
    destruct (release_all (core s1) c ns) as [s2' i2']. destruct (release_all s1 c ns) as [s2 i2].
    unfold res_sim. simpl in *. split; auto. rewrite !map_app, H2, H4. reflexivity.
Qed.

(* ---------------------------------------------------------------- filters over the connection list *)
Lemma filter_filter {A} (P Q : A -> bool) l : filter P (filter Q l) = filter (fun x => Q x && P x) l.
Proof. induction l as [|x l IH]; simpl; auto. destruct (Q x); simpl; [destruct (P x); rewrite IH; auto | auto]. Qed.

Lemma core_conns_ext st1 st2 :
  (forall c, In c (st_conns st1) -> is_monitor st1 c = is_monitor st2 c) -> st_conns st1 = st_conns st2 ->
  filter (fun c => negb (is_monitor st1 c)) (st_conns st1) = filter (fun c => negb (is_monitor st2 c)) (st_conns st2).
Proof. intros H E. rewrite <- E. apply filter_ext_in. intros c Hc. rewrite (H c Hc). reflexivity. Qed.

(* ---------------------------------------------------------------- whole steps *)
Lemma connect_erase st priv :
  is_monitor st (st_next st) = false -> res_sim (connect (core st) priv) (connect st priv).
Proof.
  intros Hf. unfold connect, res_sim. simpl st_next. simpl st_own. split.
  - simpl. unfold core, set_own. simpl. f_equal. unfold is_monitor. simpl.
    rewrite filter_app. simpl. unfold is_monitor in Hf. rewrite Hf. reflexivity.
  - simpl.
    set (st1 := upd st (st_conns st ++ [st_next st]) (st_next st + 1) (st_own st) (st_rules st) (st_mrules st) (st_mons st) (st_pend st)).
    assert (Hf1 : is_monitor st1 (st_next st) = false) by exact Hf.
    assert (Ec : core st1 = upd st (st_conns (core st) ++ [st_next st]) (st_next st + 1) (st_own st) (st_rules st) [] [] (st_pend st)).
    { unfold core, st1. simpl. f_equal. unfold is_monitor. simpl. rewrite filter_app. simpl.
      unfold is_monitor in Hf. rewrite Hf. reflexivity. }
    simpl in Ec. rewrite <- Ec.
    rewrite (from_driver_erase st1 _ _ Hf1), noc_item_erase, (from_driver_erase st1 _ _ Hf1). reflexivity.
Qed.

Lemma disconnect_ordinary_erase st c :
  clean (is_monitor st) st -> is_monitor st c = false -> res_sim (disconnect (core st) c) (disconnect st c).
Proof.
  intros C Hc. unfold disconnect. rewrite Hc, is_monitor_core.
  set (st1 := upd st (filter (fun x => negb (x =? c)) (st_conns st)) (st_next st) (st_own st)
                      (drop_rules (st_rules st) c) (st_mrules st) (st_mons st) (st_pend st)).
  assert (E1 : upd (core st) (filter (fun x => negb (x =? c)) (st_conns (core st))) (st_next (core st)) (st_own (core st))
                       (drop_rules (st_rules (core st)) c) (st_mrules (core st)) (st_mons (core st)) (st_pend (core st)) = core st1).
  { unfold core, st1. simpl. f_equal. rewrite !filter_filter. apply filter_ext. intros x. apply andb_comm. }
  rewrite E1.
  assert (C1 : clean (is_monitor st1) st1).
  { destruct C as (K1 & K2 & K3 & K4). split; [|split; [|split]]; simpl; auto.
    intros r H. unfold drop_rules in H. apply filter_In in H. apply K2. tauto. }
  assert (Hc1 : is_monitor st1 c = false) by exact Hc.
  change (st_own (core st1)) with (st_own st1).
  destruct (release_all_erase c (rev (owned (st_own st1) c)) st1 C1 Hc1) as [H1 H2].
  destruct (release_all (core st1) c (rev (owned (st_own st1) c))) as [s2' rel'].
  destruct (release_all st1 c (rev (owned (st_own st1) c))) as [s2 rel] eqn:E2. simpl in H1, H2. subst s2'.
  pose proof (release_all_state st1 c (rev (owned (st_own st1) c))) as Hs. rewrite E2 in Hs. simpl in Hs.
  assert (C2 : clean (is_monitor s2) s2).
  { subst s2. apply (clean_set_own_sub (is_monitor st1) st1); auto. intros [k o] H. apply unlink_all_In in H. tauto. }
  destruct (noreply_items_erase s2 C2 c) as [H3 H4].
  destruct (noreply_items (core s2) c) as [s3' nr']. destruct (noreply_items s2 c) as [s3 nr]. unfold res_sim. simpl in *.
  split; auto. rewrite !map_app, H2, H4. reflexivity.
Qed.

(* a monitor that leaves (or is closed) changes nothing in the core *)
Lemma disconnect_monitor_core st c :
  Inv st -> is_monitor st c = true -> core (fst (disconnect st c)) = core st /\ snd (disconnect st c) = [].
Proof.
  intros I Hm. unfold disconnect. rewrite Hm. unfold noreply_items. simpl.
  destruct (monitor_no_pending st c I Hm) as [Ed Eo]. rewrite Ed, Eo. simpl. split; auto.
  unfold core. simpl. f_equal. unfold is_monitor. simpl. rewrite filter_filter. apply filter_ext_in.
  intros x _. rewrite memN_filter_neq. destruct (x =? c) eqn:E; simpl.
  - apply N.eqb_eq in E. subst. unfold is_monitor in Hm. rewrite Hm. reflexivity.
  - rewrite andb_true_r. reflexivity.
Qed.

Lemma become_monitor_erase st c s fs :
  clean (is_monitor st) st -> is_monitor st c = false ->
  core (fst (become_monitor (core st) c s fs)) = core (fst (become_monitor st c s fs)) /\
  map erase (snd (become_monitor (core st) c s fs)) = map erase (snd (become_monitor st c s fs)).
Proof.
  intros C Hc. unfold become_monitor.
  set (fs' := match fs with [] => [empty_filter] | _ => fs end).
  set (st1 := upd st (st_conns st) (st_next st) (st_own st) (st_rules st)
                      (st_mrules st ++ map (fun f => (c, f)) fs') (st_mons st) (st_pend st)).
  set (st1' := upd (core st) (st_conns (core st)) (st_next (core st)) (st_own (core st)) (st_rules (core st))
                       (st_mrules (core st) ++ map (fun f => (c, f)) fs') (st_mons (core st)) (st_pend (core st))).
  assert (C1 : clean (is_monitor st1) st1) by exact C.
  assert (Hc1 : is_monitor st1 c = false) by exact Hc.
  (* the core run differs from core st1 only by carrying c's new rules, which nothing looks at before c is a monitor *)
  assert (R : forall ns, fst (release_all st1' c ns) = set_own st1' (unlink_all (st_own st) c ns) /\
                         map erase (snd (release_all st1' c ns)) = map erase (snd (release_all (core st1) c ns))).
  { intros ns. split; [apply (release_all_state st1' c ns)|].
    assert (G : forall ns (o : registry),
              map erase (snd (release_all (set_own st1' o) c ns)) = map erase (snd (release_all (set_own (core st1) o) c ns))).
    { clear. induction ns as [|n ns IH]; intros o; simpl; auto.
      destruct (remove_owner (set_own st1' o) c n) as [a1 i1] eqn:Ea. destruct (remove_owner (set_own (core st1) o) c n) as [b1 j1] eqn:Eb.
      pose proof (remove_owner_state (set_own st1' o) c n) as Ha. rewrite Ea in Ha. simpl in Ha.
      pose proof (remove_owner_state (set_own (core st1) o) c n) as Hb. rewrite Eb in Hb. simpl in Hb. subst a1 b1.
      assert (Ei : map erase i1 = map erase j1).
      { assert (X : i1 = snd (remove_owner (set_own st1' o) c n)) by (rewrite Ea; reflexivity).
        assert (Y : j1 = snd (remove_owner (set_own (core st1) o) c n)) by (rewrite Eb; reflexivity).
        subst i1 j1. unfold remove_owner. simpl st_own.
        destruct (queue o n) as [|p [|w rest]]; simpl; auto; destruct (p =? c); reflexivity. }
      specialize (IH (unlink o n c)).
      change (set_own (set_own st1' o) (unlink o n c)) with (set_own st1' (unlink o n c)).
      change (set_own (set_own (core st1) o) (unlink o n c)) with (set_own (core st1) (unlink o n c)).
      destruct (release_all (set_own st1' (unlink o n c)) c ns) as [a2 i2].
      destruct (release_all (set_own (core st1) (unlink o n c)) c ns) as [b2 j2]. simpl in *.
      rewrite !map_app, Ei, IH. reflexivity. }
    apply (G ns (st_own st)). }
  destruct (release_all_erase c (owned (st_own st1) c) st1 C1 Hc1) as [H1 H2].
  destruct (R (owned (st_own st1) c)) as [R1 R2].
  change (st_own st1') with (st_own st1).
  destruct (release_all st1' c (owned (st_own st1) c)) as [s2' rel'].
  destruct (release_all (core st1) c (owned (st_own st1) c)) as [s2c relc].
  destruct (release_all st1 c (owned (st_own st1) c)) as [s2 rel] eqn:E2.
  simpl in H1, H2, R1, R2.
  pose proof (release_all_state st1 c (owned (st_own st1) c)) as Hs. rewrite E2 in Hs. simpl in Hs.
  set (st3 := upd s2 (st_conns s2) (st_next s2) (st_own s2) (drop_rules (st_rules s2) c) (st_mrules s2) (st_mons s2 ++ [c]) (st_pend s2)).
  set (st3' := upd s2' (st_conns s2') (st_next s2') (st_own s2') (drop_rules (st_rules s2') c) (st_mrules s2') (st_mons s2' ++ [c]) (st_pend s2')).
  split.
  - (* states *)
    simpl. unfold noreply_items. simpl. unfold core. simpl. subst st3 st3' s2 s2'. simpl. f_equal.
    unfold is_monitor. simpl. rewrite filter_filter. apply filter_ext. intros x. rewrite memN_app. simpl.
    rewrite orb_false_r. rewrite negb_orb. reflexivity.
  - (* items *)
    simpl. rewrite !map_app. f_equal; [apply (from_driver_erase st c _ Hc)|]. f_equal.
    + rewrite R2, H2. reflexivity.
    + subst st3 st3' s2 s2'. unfold noreply_items. simpl. rewrite !map_map. apply map_ext_in. intros p Hp.
      unfold orphaned in Hp. apply filter_In in Hp. destruct Hp as [Hp Hf].
      assert (Hnm : is_monitor st (p_get p) = false).
      { destruct C as (_ & _ & K3 & _). apply K3. exact Hp. }
      assert (Ec : connected (core st) (p_get p) = connected st (p_get p)) by (apply connected_core_nm; auto).
      unfold connected in Ec. simpl in Ec.
      unfold from_driver, erase, mk_item, connected. simpl. rewrite Ec. reflexivity.
Qed.

(* local answers only reach the sender *)
Lemma view_local_items_other st c m x : x <> c -> view x (local_items st c m) = [].
Proof.
  intros H. unfold local_items. rewrite view_cons, view_one. simpl.
  destruct (local_answer m) as [r|]; auto. rewrite view_one. simpl.
  assert (E : (c =? x) = false) by (apply N.eqb_neq; auto). rewrite E. reflexivity.
Qed.

Lemma wf_event_core st e c :
  actor e = Some c -> is_monitor st c = false -> wf_event (core st) e = wf_event st e.
Proof.
  intros Ha Hc. destruct e; simpl in *; try discriminate; inversion Ha; subst; rewrite (connected_core_nm st c Hc); reflexivity.
Qed.

Theorem step_erase st e :
  Inv st ->
  core (fst (step (core st) e)) = core (fst (step st e)) /\
  forall x, is_monitor st x = false -> view x (snd (step (core st) e)) = view x (snd (step st e)).
Proof.
  intros I. pose proof (clean_Inv st I) as C.
  assert (Hfresh : is_monitor st (st_next st) = false).
  { destruct (is_monitor st (st_next st)) eqn:E; auto. apply (mons_conn _ I) in E. apply (conns_lt _ I) in E. lia. }
  assert (CC : core (core st) = core st).
  { unfold core. simpl. f_equal. rewrite filter_filter. apply filter_ext. intros x. apply andb_true_r. }
  (* a res_sim result gives the claim *)
  assert (RS : forall r' r, res_sim r' r -> core (fst r') = core (fst r) /\ forall x : cid, view x (snd r') = view x (snd r)).
  { intros r' r [H1 H2]. split.
    - rewrite H1. unfold core at 1. simpl. unfold core. f_equal. rewrite filter_filter. apply filter_ext. intros x. apply andb_true_r.
    - intros x. apply view_of_erase; auto. }
  (* the actor is a monitor: in the core it is not connected, so nothing happens there *)
  assert (MON : forall c, actor e = Some c -> is_monitor st c = true ->
                core (fst (step (core st) e)) = core (fst (step st e)) /\
                forall x, is_monitor st x = false -> view x (snd (step (core st) e)) = view x (snd (step st e))).
  { intros c Ha Hm.
    assert (W' : wf_event (core st) e = false).
    { destruct e; simpl in *; try discriminate; inversion Ha; subst; rewrite connected_core, Hm, andb_false_r; reflexivity. }
    unfold step at 1 3. rewrite W'. simpl. rewrite CC.
    unfold step. destruct (wf_event st e) eqn:W; simpl; [|split; auto].
    destruct (disconnect_monitor_core st c I Hm) as [D1 D2].
    destruct e as [priv|c0|c0 m|c0 s n dnq|c0 s n|c0 s f|c0 s|c0 s so fl rs]; simpl in Ha; try discriminate; inversion Ha; subst c0; simpl;
      try (rewrite Hm; rewrite D1, D2; split; auto).
    - rewrite D1, D2. split; auto.
    - destruct (peer_local (stamp c m)).
      + simpl. split; auto. intros x Hx. rewrite view_local_items_other; auto. intros ->. congruence.
      + rewrite Hm. rewrite D1, D2. split; auto. }
  destruct (actor e) as [c|] eqn:Ha.
  2:{ destruct e; simpl in Ha; try discriminate. unfold step. simpl.
      destruct (RS _ _ (connect_erase st priv Hfresh)) as [H1 H2]. split; auto. }
  destruct (is_monitor st c) eqn:Hm; [apply (MON c eq_refl Hm)|].
  unfold step. rewrite (wf_event_core st e c Ha Hm). destruct (wf_event st e) eqn:W; simpl; [|rewrite CC; split; auto].
  destruct e as [priv|c0|c0 m|c0 s n dnq|c0 s n|c0 s f|c0 s|c0 s so fl rs]; simpl in Ha; try discriminate; inversion Ha; subst c0; simpl.
  - destruct (RS _ _ (disconnect_ordinary_erase st c C Hm)) as [H1 H2]. split; auto.
  - destruct (peer_local (stamp c m)); [simpl; rewrite CC; split; auto|].
    rewrite Hm. destruct (unrouted (stamp c m)); [simpl; rewrite CC; split; auto|].
    destruct (RS _ _ (dispatch_erase st c (stamp c m) Hm)) as [H1 H2]. split; auto.
  - rewrite Hm. destruct (RS _ _ (to_driver_erase st c (call_msg c s I_DBUS M_REQUEST_NAME) _ _ Hm (request_name_erase st C c s n dnq Hm))) as [H1 H2]. split; auto.
  - rewrite Hm. destruct (RS _ _ (to_driver_erase st c (call_msg c s I_DBUS M_RELEASE_NAME) _ _ Hm (release_name_erase st C c s n Hm))) as [H1 H2]. split; auto.
  - rewrite Hm. destruct (RS _ _ (to_driver_erase st c (call_msg c s I_DBUS M_ADD_MATCH) _ _ Hm (add_match_erase st c s f Hm))) as [H1 H2]. split; auto.
  - rewrite Hm. destruct (RS _ _ (to_driver_erase st c (call_msg c s I_DBUS M_GET_ID) _ _ Hm (get_id_erase st c s Hm))) as [H1 H2]. split; auto.
  - rewrite Hm. unfold to_driver. destruct (deny_send (call_msg c s I_MONITORING M_BECOME_MONITOR) false) eqn:Ed; [discriminate|].
    unfold become_monitor_call. simpl st_unpriv.
    assert (RF : forall e0, core (fst (core st, [error_reply (core st) c (call_msg c s I_MONITORING M_BECOME_MONITOR) e0])) =
                            core (fst (st, [error_reply st c (call_msg c s I_MONITORING M_BECOME_MONITOR) e0])) /\
                 forall x, is_monitor st x = false ->
                   view x (snd (let '(st', l) := (core st, [error_reply (core st) c (call_msg c s I_MONITORING M_BECOME_MONITOR) e0]) in
                                (st', entry_item (core st) c (call_msg c s I_MONITORING M_BECOME_MONITOR) :: l))) =
                   view x (snd (let '(st', l) := (st, [error_reply st c (call_msg c s I_MONITORING M_BECOME_MONITOR) e0]) in
                                (st', entry_item st c (call_msg c s I_MONITORING M_BECOME_MONITOR) :: l)))).
    { intros e0. split; [simpl; exact CC|]. intros x _. apply view_of_erase. simpl.
      rewrite (error_reply_erase st c _ _ Hm). reflexivity. }
    destruct (memN c (st_unpriv st)); [apply RF|]. destruct (negb so); [apply RF|]. destruct (negb (fl =? 0)); [apply RF|].
    destruct (parse_all rs) as [fs|]; [|apply RF].
    destruct (become_monitor_erase st c s fs C Hm) as [H1 H2].
    destruct (become_monitor (core st) c s fs) as [s' l']. destruct (become_monitor st c s fs) as [s0 l0]. simpl in *.
    split; auto. intros x _. apply view_of_erase. simpl. rewrite H2. reflexivity.
Qed.
