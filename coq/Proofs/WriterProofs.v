(* The message writer model (Wire/Writer.v) produces the specification encoding.
   Main results: [writer_correct], [writer_correct_from], [writer_never_fails],
   [writer_array_length_word]; the invariant is [value_written] (a value written at any
   position inside any stack of open containers). *)
From DV Require Import Lib.Base Gen.Tables Spec.Codec Wire.Sig Wire.Body Wire.HeaderEdit Wire.Writer
  Proofs.CodecBasics Proofs.CodecWf Proofs.CodecRoundtrip Proofs.CodecMessage Proofs.SigRoundtrip Proofs.BodySound Proofs.WireClean Proofs.BodyCursor Proofs.BodyComplete.
From Coq Require Import ZArith ZifyBool ZifyN ZifyNat Arith.
Local Open Scope N_scope.
Ltac Zify.zify_post_hook ::= Z.div_mod_to_equations.

(* ---- DBusString primitives --------------------------------------------------------- *)
Lemma nlen_to_nat {A} (l : list A) : N.to_nat (nlen l) = length l.
Proof. unfold nlen. lia. Qed.

Lemma insert_at_end s x : insert_at (nlen s) x s = Some (s ++ x).
Proof.
  unfold insert_at. rewrite N.ltb_irrefl, nlen_to_nat, firstn_all, skipn_all, app_nil_r. reflexivity.
Qed.

Lemma insert_at_end' s x p : p = nlen s -> insert_at p x s = Some (s ++ x).
Proof. intros ->. apply insert_at_end. Qed.

Lemma align_value_pad p a : (a = 1 \/ a = 2 \/ a = 4 \/ a = 8) -> align_value p a = p + pad_amount p a.
Proof. intros [-> | [-> | [-> | -> ]]]; unfold align_value, pad_amount; lia. Qed.

Lemma pad_body_end body a : (a = 1 \/ a = 2 \/ a = 4 \/ a = 8) ->
  pad_body body (nlen body) a = Some (body ++ zeros (pad_amount (nlen body) a), nlen body + pad_amount (nlen body) a).
Proof.
  intros Ha. unfold pad_body. rewrite (align_value_pad _ _ Ha).
  replace (nlen body + pad_amount (nlen body) a - nlen body) with (pad_amount (nlen body) a) by lia.
  rewrite insert_at_end. reflexivity.
Qed.

Definition sub_at (ts : bytes) (pos : N) (x : bytes) : Prop :=
  exists pre post, ts = pre ++ x ++ post /\ nlen pre = pos.

Lemma sub_at_here pre x post : sub_at (pre ++ x ++ post) (nlen pre) x.
Proof. exists pre, post. auto. Qed.

Lemma sub_at_prefix ts pos a b : sub_at ts pos (a ++ b) -> sub_at ts pos a.
Proof. intros (pre & post & -> & <-). exists pre, (b ++ post). rewrite <- app_assoc. auto. Qed.

Lemma sub_at_tail ts pos a b : sub_at ts pos (a ++ b) -> sub_at ts (pos + nlen a) b.
Proof.
  intros (pre & post & -> & <-). exists (pre ++ a), post. rewrite <- !app_assoc. split; [reflexivity|]. apply nlen_app.
Qed.

Lemma sub_at_app ts pos x y : sub_at ts pos x -> sub_at (ts ++ y) pos x.
Proof. intros (pre & post & -> & <-). exists pre, (post ++ y). rewrite <- !app_assoc. auto. Qed.

Lemma get_byte_mid pre c post : get_byte (pre ++ c :: post) (nlen pre) = Some c.
Proof.
  unfold get_byte. rewrite nlen_app, nlen_cons. replace (nlen pre <? nlen pre + (nlen post + 1)) with true by lia.
  rewrite nlen_to_nat, app_nth2 by lia. rewrite Nat.sub_diag. reflexivity.
Qed.

Lemma sub_at_head ts pos c x : sub_at ts pos (c :: x) -> get_byte ts pos = Some c.
Proof. intros (pre & post & -> & <-). cbn [app]. apply get_byte_mid. Qed.

Lemma firstn_app_len {A} (a b : list A) : firstn (length a) (a ++ b) = a.
Proof. rewrite firstn_app, Nat.sub_diag, firstn_all. cbn. apply app_nil_r. Qed.
Lemma skipn_app_len {A} (a b : list A) : skipn (length a) (a ++ b) = b.
Proof. rewrite skipn_app, Nat.sub_diag, skipn_all. reflexivity. Qed.

Lemma sub_at_equal a ts pos : sub_at ts pos a -> equal_substring a ts pos = Some true.
Proof.
  intros (pre & post & -> & <-). unfold equal_substring. rewrite nlen_app.
  replace (nlen pre + nlen (a ++ post) <? nlen pre) with false by lia.
  rewrite nlen_to_nat, skipn_app_len, firstn_app_len, bytes_eqb_refl. reflexivity.
Qed.

Lemma overwrite_mid pre old new post : nlen old = nlen new ->
  overwrite_at (nlen pre) new (pre ++ old ++ post) = Some (pre ++ new ++ post).
Proof.
  intros H. unfold overwrite_at. rewrite !nlen_app.
  replace (nlen pre + (nlen old + nlen post) <? nlen pre + nlen new) with false by lia.
  rewrite nlen_to_nat, firstn_app_len.
  replace (N.to_nat (nlen pre + nlen new)) with (length pre + length old)%nat by (unfold nlen in *; lia).
  rewrite skipn_app. rewrite skipn_all2 by lia. replace (length pre + length old - length pre)%nat with (length old) by lia.
  rewrite skipn_app_len. reflexivity.
Qed.

(* ---- type strings of good types: balanced, skipped exactly, alignment ------------------ *)
Lemma basic_not_bracket c : is_basic_code c = true ->
  (c =? 40) = false /\ (c =? 41) = false /\ (c =? 123) = false /\ (c =? 125) = false /\ (c =? 97) = false /\ (c =? 118) = false.
Proof. intros H. destruct (basic_code_ne c H) as (? & ? & ? & ? & ? & ? & ?). repeat split; apply N.eqb_neq; assumption. Qed.

Definition bracket_pair (o c : N) : Prop := (o = 40 /\ c = 41) \/ (o = 123 /\ c = 125).

Lemma skip_close_print o c (Hp : bracket_pair o c) : forall t, tygood t = true ->
  forall d s, skip_to_close o c d (print_ty t ++ s) = skip_to_close o c d s.
Proof.
  induction t as [b| |t IH|ts IH|k v IH] using ty_ind'; cbn [tygood print_ty]; intros G d s.
  - destruct (basic_not_bracket b G) as (E1 & E2 & E3 & E4 & _). cbn [app skip_to_close].
    destruct Hp as [[-> ->]|[-> ->]]; rewrite ?E1, ?E2, ?E3, ?E4; reflexivity.
  - cbn [app skip_to_close]. destruct Hp as [[-> ->]|[-> ->]]; reflexivity.
  - cbn [app skip_to_close]. destruct Hp as [[-> ->]|[-> ->]]; cbn [N.eqb Pos.eqb]; apply IH; exact G.
  - apply andb_true_iff in G. destruct G as [_ G].
    assert (L : forall d s, skip_to_close o c d (flat_map print_ty ts ++ s) = skip_to_close o c d s).
    { clear d s. induction IH as [|x r Hx Hr IHr]; intros d s; [reflexivity|].
      cbn [forallb] in G. apply andb_true_iff in G. destruct G as [G1 G2].
      cbn [flat_map]. rewrite <- app_assoc. rewrite (Hx G1). apply IHr. exact G2. }
    cbn [app]. rewrite <- app_assoc. cbn [app skip_to_close].
    destruct Hp as [[-> ->]|[-> ->]]; cbn [N.eqb Pos.eqb]; rewrite L; cbn [skip_to_close N.eqb Pos.eqb]; reflexivity.
  - apply andb_true_iff in G. destruct G as [Gk Gv].
    destruct (basic_not_bracket k Gk) as (E1 & E2 & E3 & E4 & _).
    cbn [app]. rewrite <- app_assoc. cbn [app skip_to_close].
    destruct Hp as [[-> ->]|[-> ->]]; cbn [N.eqb Pos.eqb]; rewrite ?E1, ?E2, ?E3, ?E4; rewrite (IH Gv); cbn [skip_to_close N.eqb Pos.eqb]; reflexivity.
Qed.

Lemma skip_close_prints o c (Hp : bracket_pair o c) : forall ts, forallb tygood ts = true ->
  forall d s, skip_to_close o c d (flat_map print_ty ts ++ s) = skip_to_close o c d s.
Proof.
  induction ts as [|x r IH]; intros G d s; [reflexivity|].
  cbn [forallb] in G. apply andb_true_iff in G. destruct G as [G1 G2].
  cbn [flat_map]. rewrite <- app_assoc. rewrite (skip_close_print o c Hp x G1). apply IH. exact G2.
Qed.

Lemma signature_next_print : forall t, tygood t = true -> forall rest, signature_next (print_ty t ++ rest) = Some rest.
Proof.
  induction t as [b| |t IH|ts IH|k v IH] using ty_ind'; cbn [tygood print_ty]; intros G rest.
  - destruct (basic_not_bracket b G) as (E1 & E2 & E3 & E4 & E5 & _).
    unfold signature_next. cbn [app skip_arrays]. change DBUS_TYPE_ARRAY with 97. rewrite E5.
    change DBUS_STRUCT_END_CHAR with 41. change DBUS_DICT_ENTRY_END_CHAR with 125. change DBUS_STRUCT_BEGIN_CHAR with 40.
    change DBUS_DICT_ENTRY_BEGIN_CHAR with 123. rewrite E1, E2, E3, E4. reflexivity.
  - reflexivity.
  - specialize (IH G rest). unfold signature_next in *. cbn [app skip_arrays]. change (97 =? DBUS_TYPE_ARRAY) with true. exact IH.
  - apply andb_true_iff in G. destruct G as [_ G].
    unfold signature_next. cbn [app skip_arrays]. change (40 =? DBUS_TYPE_ARRAY) with false. cbv iota.
    change ((40 =? DBUS_STRUCT_END_CHAR) || (40 =? DBUS_DICT_ENTRY_END_CHAR)) with false.
    change (40 =? DBUS_STRUCT_BEGIN_CHAR) with true. cbv iota.
    rewrite <- app_assoc. rewrite (skip_close_prints 40 41 (or_introl (conj eq_refl eq_refl)) ts G).
    reflexivity.
  - apply andb_true_iff in G. destruct G as [Gk Gv].
    destruct (basic_not_bracket k Gk) as (E1 & E2 & E3 & E4 & _).
    unfold signature_next. cbn [app skip_arrays]. change (123 =? DBUS_TYPE_ARRAY) with false. cbv iota.
    change ((123 =? DBUS_STRUCT_END_CHAR) || (123 =? DBUS_DICT_ENTRY_END_CHAR)) with false.
    change (123 =? DBUS_STRUCT_BEGIN_CHAR) with false. change (123 =? DBUS_DICT_ENTRY_BEGIN_CHAR) with true. cbv iota.
    change DBUS_DICT_ENTRY_BEGIN_CHAR with 123. change DBUS_DICT_ENTRY_END_CHAR with 125.
    cbn [skip_to_close]. rewrite E3, E4. rewrite <- app_assoc.
    rewrite (skip_close_print 123 125 (or_intror (conj eq_refl eq_refl)) v Gv). reflexivity.
Qed.

Lemma find_len_print t : tygood t = true ->
  find_len_of_complete_type (print_ty t) = Some (nlen (print_ty t)).
Proof.
  intros G. unfold find_len_of_complete_type. pose proof (signature_next_print t G []) as H. rewrite app_nil_r in H.
  rewrite H. cbn. rewrite N.sub_0_r. reflexivity.
Qed.

Lemma get_byte_0 c r : get_byte (c :: r) 0 = Some c.
Proof. unfold get_byte. rewrite nlen_cons. replace (0 <? nlen r + 1) with true by lia. reflexivity. Qed.

Lemma elem_align_print t : tygood t = true ->
  element_type_get_alignment (print_ty t) = Some (spec_align t) /\
  (spec_align t = 1 \/ spec_align t = 2 \/ spec_align t = 4 \/ spec_align t = 8).
Proof.
  intros G. destruct (tygood_align t G) as [Ha Hc]. split; [|exact Hc].
  unfold element_type_get_alignment, first_type_in_signature.
  destruct t as [b| |t'|ts|k v]; cbn [print_ty]; rewrite get_byte_0.
  - cbn [tygood] in G. destruct (basic_not_bracket b G) as (E1 & E2 & E3 & E4 & _).
    unfold map_type_char_to_type. change DBUS_STRUCT_END_CHAR with 41. change DBUS_DICT_ENTRY_END_CHAR with 125.
    change DBUS_STRUCT_BEGIN_CHAR with 40. change DBUS_DICT_ENTRY_BEGIN_CHAR with 123. rewrite E1, E2, E3, E4. cbn [orb].
    unfold type_get_alignment. cbn [ty_alignment] in Ha. rewrite Ha. replace (spec_align (TBasic b) =? 0) with false by lia. reflexivity.
  - reflexivity.
  - reflexivity.
  - reflexivity.
  - reflexivity.
Qed.

(* ---- marshalling basic values at the end of the body ------------------------------------ *)
Lemma marshal_octets_end le body sz v : (sz = 2 \/ sz = 4 \/ sz = 8) ->
  marshal_octets le body (nlen body) sz v =
  Some (body ++ zeros (pad_amount (nlen body) sz) ++ bytes_of le (N.to_nat sz) v,
        nlen body + (pad_amount (nlen body) sz + sz)).
Proof.
  intros Hs. unfold marshal_octets. rewrite (align_value_pad (nlen body) sz) by tauto.
  replace (nlen body + pad_amount (nlen body) sz - nlen body) with (pad_amount (nlen body) sz) by lia.
  rewrite insert_at_end. rewrite !nlen_app, nlen_zeros, bytes_of_length. f_equal. f_equal. lia.
Qed.

Ltac nl := repeat first [rewrite nlen_app | rewrite nlen_zeros | rewrite bytes_of_length | rewrite nlen_cons | rewrite (@nlen_nil N)].

Lemma fixed_size_cases c sz : fixed_size c = Some sz ->
  (c = 121 /\ sz = 1) \/ ((c = 110 \/ c = 113) /\ sz = 2) \/ ((c = 98 \/ c = 105 \/ c = 117 \/ c = 104) /\ sz = 4) \/
  ((c = 120 \/ c = 116 \/ c = 100) /\ sz = 8).
Proof.
  unfold fixed_size.
  destruct (c =? 121) eqn:E1; [intros H; inversion H; left; lia|].
  destruct ((c =? 110) || (c =? 113)) eqn:E2; [intros H; inversion H; right; left; lia|].
  destruct ((c =? 98) || (c =? 105) || (c =? 117) || (c =? 104)) eqn:E3; [intros H; inversion H; right; right; left; lia|].
  destruct ((c =? 120) || (c =? 116) || (c =? 100)) eqn:E4; [intros H; inversion H; right; right; right; lia|discriminate].
Qed.

Lemma bytes_of_1 le n : bytes_of le 1 n = [n mod 256].
Proof. destruct le; reflexivity. Qed.

Lemma pad_amount_1 p : pad_amount p 1 = 0.
Proof. unfold pad_amount. lia. Qed.

Definition is_basic_val' (v : val) : Prop := match v with VNum _ _ | VStr _ _ => True | _ => False end.

Lemma spec_signature_len s : spec_signature s = true -> nlen s <= 255.
Proof. unfold spec_signature. intros H. apply andb_true_iff in H. lia. Qed.

Lemma marshal_basic_wf le body depth v : is_basic_val' v -> wfb le depth (nlen body) v = true ->
  marshal_write_basic le body (nlen body) v =
  Some (body ++ enc le v (nlen body), nlen body + nlen (enc le v (nlen body))).
Proof.
  destruct v as [c n|c s| | | | ]; cbn [is_basic_val']; try tauto; intros _ H; cbn [wfb] in H;
    apply andb_true_iff in H; destruct H as [_ H].
  - rewrite enc_num. destruct (fixed_size c) as [sz|] eqn:Hsz; [|discriminate].
    apply andb_true_iff in H. destruct H as [Hn Hb].
    destruct (fixed_size_cases c sz Hsz) as [[-> ->]|[[Hc ->]|[[Hc ->]|[Hc ->]]]].
    + cbn [marshal_write_basic]. change (121 =? DBUS_TYPE_BYTE) with true. cbv iota.
      rewrite insert_at_end. rewrite pad_amount_1. change (N.to_nat 1) with 1%nat. rewrite bytes_of_1. cbn [zeros N.to_nat repeat app].
      rewrite nlen_cons. reflexivity.
    + assert (E : marshal_write_basic le body (nlen body) (VNum c n) = marshal_octets le body (nlen body) 2 n)
        by (destruct Hc as [-> | ->]; reflexivity).
      rewrite E, marshal_octets_end by tauto. rewrite !nlen_app, nlen_zeros, bytes_of_length. reflexivity.
    + destruct (c =? 98) eqn:Eb.
      * assert (c = 98) by lia. subst c. change (negb (98 =? 98)) with false in Hb. cbn [orb] in Hb.
        change (marshal_write_basic le body (nlen body) (VNum 98 n)) with (marshal_octets le body (nlen body) 4 (if n =? 0 then 0 else 1)).
        replace (if n =? 0 then 0 else 1) with n by (destruct (n =? 0) eqn:E0; lia).
        rewrite marshal_octets_end by tauto. rewrite !nlen_app, nlen_zeros, bytes_of_length. reflexivity.
      * assert (E : marshal_write_basic le body (nlen body) (VNum c n) = marshal_octets le body (nlen body) 4 n)
          by (destruct Hc as [-> |[-> |[-> | ->]]]; try discriminate; reflexivity).
        rewrite E, marshal_octets_end by tauto. rewrite !nlen_app, nlen_zeros, bytes_of_length. reflexivity.
    + assert (E : marshal_write_basic le body (nlen body) (VNum c n) = marshal_octets le body (nlen body) 8 n)
        by (destruct Hc as [-> |[-> | ->]]; reflexivity).
      rewrite E, marshal_octets_end by tauto. rewrite !nlen_app, nlen_zeros, bytes_of_length. reflexivity.
  - rewrite enc_str.
    destruct (c =? 115) eqn:E1; [|destruct (c =? 111) eqn:E2; [|destruct (c =? 103) eqn:E3; [|discriminate]]].
    + assert (c = 115) by lia. subst c. change (115 =? 103) with false. cbv iota.
      change (marshal_write_basic le body (nlen body) (VStr 115 s)) with (marshal_string le body (nlen body) s).
      unfold marshal_string. rewrite marshal_octets_end by tauto.
      rewrite insert_at_end' by (nl; lia). change (N.to_nat 4) with 4%nat.
      f_equal. f_equal; [rewrite <- !app_assoc; reflexivity | nl; lia].
    + assert (c = 111) by lia. subst c. change (111 =? 103) with false. cbv iota.
      change (marshal_write_basic le body (nlen body) (VStr 111 s)) with (marshal_string le body (nlen body) s).
      unfold marshal_string. rewrite marshal_octets_end by tauto.
      rewrite insert_at_end' by (nl; lia). change (N.to_nat 4) with 4%nat.
      f_equal. f_equal; [rewrite <- !app_assoc; reflexivity | nl; lia].
    + assert (c = 103) by lia. subst c.
      change (marshal_write_basic le body (nlen body) (VStr 103 s)) with (marshal_signature body (nlen body) s).
      unfold marshal_signature. pose proof (spec_signature_len s H) as L.
      change DBUS_MAXIMUM_SIGNATURE_LENGTH with 255. replace (255 <? nlen s) with false by lia.
      rewrite insert_at_end. rewrite insert_at_end' by (nl; lia).
      f_equal. f_equal; [rewrite <- app_assoc; reflexivity | nl; lia].
Qed.

(* ---- writers that are ready to take a value ------------------------------------------------ *)
(* the temporary signature string after the type codes [sg] went through writer [w] *)
Definition act_sig (sigstr : option bytes) (w : writer) (sg : bytes) : option bytes :=
  if w_exp w then sigstr else match sigstr with Some s => Some (s ++ sg) | None => None end.

Definition is_sd (v : val) : bool := match v with VStruct _ | VDictE _ _ => true | _ => false end.

(* type_pos of the writer after a complete value went through it: fixed directly inside an array;
   a variant's single value leaves it wherever the last operation put it *)
Definition tpos_after (w : writer) (v : val) : N :=
  if w_ct w =? 97 then w_tpos w
  else if (w_ct w =? 118) && is_sd v then w_tpos w
  else w_tpos w + nlen (print_ty (ty_of_val v)).

Definition post_w (w : writer) (tpos vpos : N) : writer :=
  mkW (w_ct w) (w_ts w) tpos (w_exp w) vpos (w_lenpos w) (w_start w) (w_etpos w) (w_refs w).

(* an iterator with a type string: either it extends the signature string at its end (top level
   while a container is open, structs and dict entries outside arrays/variants), or it verifies
   against the expected signature [sg] found at type_pos (everything below an array or variant) *)
Definition active (m : strs) (w : writer) (sg : bytes) : Prop :=
  1 <= w_refs w /\
  ((w_exp w = false /\ w_ts w = TsSig /\ (exists s, s_sigstr m = Some s /\ w_tpos w = nlen s) /\
    (w_ct w = 0 \/ w_ct w = 114 \/ w_ct w = 101))
   \/
   (w_exp w = true /\ w_ts w <> TsNone /\ (exists ts, ts_get m (w_ts w) = Some ts /\ sub_at ts (w_tpos w) sg) /\
    (w_ct w = 97 \/ w_ct w = 118 \/ w_ct w = 114 \/ w_ct w = 101) /\ (w_ct w = 97 -> w_etpos w = w_tpos w))).

(* the top-level iterator between two API calls *)
Definition idle (m : strs) (w : writer) : Prop :=
  w_ts w = TsNone /\ s_sigstr m = None /\ w_refs w = 0 /\ w_exp w = false /\ w_ct w = 0 /\ w_tpos w = 0.

Definition head_ok (sf : bytes) (m : strs) (w : writer) (sg tail : bytes) : Prop :=
  (idle m w /\ nlen (sf ++ sg) <= 255) \/ active m w (sg ++ tail).

Lemma active_prefix m w a b : active m w (a ++ b) -> active m w a.
Proof.
  intros [Hr [H|(He & Ht & (ts & Hts & Hs) & Hc)]]; split; auto.
  right. repeat split; try tauto. exists ts. split; [exact Hts|]. eapply sub_at_prefix; exact Hs.
Qed.

Lemma active_has_ts m w sg : active m w sg -> has_ts w = true.
Proof.
  intros [_ [(_ & Ht & _)|(_ & Ht & _)]]; unfold has_ts; [rewrite Ht; reflexivity|]. destruct (w_ts w); try reflexivity. congruence.
Qed.

(* the body grows at its end, value_pos moves: the writer stays ready for the same signature *)
Lemma active_grow body sigstr w sg x vp :
  active (mkS body sigstr) w sg -> active (mkS (body ++ x) sigstr) (post_w w (w_tpos w) vp) sg.
Proof.
  intros [Hr [H|(He & Ht & (ts & Hts & Hs) & Hc)]]; (split; [exact Hr|]); [left; exact H|right].
  cbn [post_w w_exp w_ts w_tpos w_ct w_etpos]. repeat split; try tauto.
  destruct (w_ts w) eqn:E; [congruence| |]; cbn [ts_get s_sigstr s_bodystr] in *.
  - exists ts. auto.
  - injection Hts as <-. exists (body ++ x). split; [reflexivity|]. apply sub_at_app. exact Hs.
Qed.

(* after a complete value of signature [a] in a writer that is not directly inside an array *)
Lemma active_next body sigstr w a b x vp : active (mkS body sigstr) w (a ++ b) -> w_ct w <> 97 ->
  active (mkS (body ++ x) (act_sig sigstr w a)) (post_w w (w_tpos w + nlen a) vp) b.
Proof.
  intros [Hr [(He & Ht & (s & Hs & Hp) & Hc)|(He & Ht & (ts & Hts & Hs) & Hc & Het)]] Hn; (split; [exact Hr|]).
  - left. cbn [post_w w_exp w_ts w_tpos w_ct]. repeat split; try tauto.
    cbn [s_sigstr] in Hs. subst sigstr. unfold act_sig. rewrite He. exists (s ++ a). cbn [s_sigstr]. split; [reflexivity|]. rewrite Hp, nlen_app. reflexivity.
  - right. cbn [post_w w_exp w_ts w_tpos w_ct w_etpos]. repeat split; try tauto.
    unfold act_sig. rewrite He.
    destruct (w_ts w) eqn:E; [congruence| |]; cbn [ts_get s_sigstr s_bodystr] in *.
    + exists ts. split; [exact Hts|]. apply sub_at_tail. exact Hs.
    + injection Hts as <-. exists (body ++ x). split; [reflexivity|]. apply sub_at_app. apply sub_at_tail. exact Hs.
Qed.

Lemma act_sig_app o w w' a b : w_exp w' = w_exp w -> act_sig (act_sig o w a) w' b = act_sig o w (a ++ b).
Proof. intros E. unfold act_sig. rewrite E. destruct (w_exp w); [reflexivity|]. destruct o; [rewrite <- app_assoc|]; reflexivity. Qed.

(* write_or_verify_typecode on a ready writer *)
Lemma wov_active body sigstr w tc tail : active (mkS body sigstr) w (tc :: tail) ->
  write_or_verify_typecode (mkS body sigstr) w tc =
  Some (mkS body (act_sig sigstr w [tc]), post_w w (if w_ct w =? 97 then w_tpos w else w_tpos w + 1) (w_vpos w)).
Proof.
  destruct w as [ct ts tpos ex vpos lp st et refs]. unfold active, act_sig, post_w. cbn [w_ct w_ts w_tpos w_exp w_vpos w_lenpos w_start w_etpos w_refs s_sigstr].
  intros [Hr [(He & Ht & (s & Hs & Hp) & Hc)|(He & Ht & (tstr & Hts & Hs) & Hc & Het)]]; subst.
  - unfold write_or_verify_typecode. cbn [w_ts w_exp w_tpos ts_get s_sigstr]. rewrite insert_at_end.
    replace (ct =? 97) with false by (destruct Hc as [-> |[-> | ->]]; reflexivity). reflexivity.
  - unfold write_or_verify_typecode. cbn [w_ts w_exp w_tpos w_ct]. 
    destruct ts; [congruence| |]; rewrite Hts; rewrite (sub_at_head _ _ _ _ Hs), N.eqb_refl;
      change DBUS_TYPE_ARRAY with 97; destruct (ct =? 97); reflexivity.
Qed.

(* _dbus_type_writer_write_basic on a ready writer *)
Lemma basic_active le body sigstr w v depth tail : is_basic_val' v -> wfb le depth (nlen body) v = true ->
  w_vpos w = nlen body -> active (mkS body sigstr) w (print_ty (ty_of_val v) ++ tail) ->
  type_writer_write_basic le (mkS body sigstr) w v =
  Some (mkS (body ++ enc le v (nlen body)) (act_sig sigstr w (print_ty (ty_of_val v))),
        post_w w (tpos_after w v) (nlen (body ++ enc le v (nlen body)))).
Proof.
  intros Hb Hw Hv Ha. unfold type_writer_write_basic. cbn [s_bodystr s_sigstr]. rewrite Hv.
  rewrite (marshal_basic_wf le body depth v Hb Hw).
  assert (exists c, typecode_of_basic v = Some c /\ print_ty (ty_of_val v) = [c] /\ is_sd v = false) as (c & E1 & E2 & E3)
    by (destruct v; try contradiction; eexists; repeat split).
  rewrite E1, E2 in *. cbn [app] in Ha.
  pose proof (active_grow body sigstr w (c :: tail) (enc le v (nlen body)) (nlen body + nlen (enc le v (nlen body))) Ha) as Ha'.
  change (set_vpos w (nlen body + nlen (enc le v (nlen body)))) with (post_w w (w_tpos w) (nlen body + nlen (enc le v (nlen body)))).
  rewrite (wov_active _ _ _ _ _ Ha'). unfold tpos_after. rewrite E2, E3, andb_false_r, nlen_app.
  destruct w as [ct ts tpos ex vpos lp st et refs]. unfold post_w, act_sig. cbn [w_ct w_ts w_tpos w_exp w_vpos w_lenpos w_start w_etpos w_refs].
  change (nlen [c]) with 1. destruct (ct =? 97); reflexivity.
Qed.

(* ---- the iterator glue: open_signature ... close_signature around one API call -------------- *)
Definition post_state (le : bool) (sf body : bytes) (sigstr : option bytes) (w : writer) (rest : list writer)
  (sg : bytes) (tp : N) (body' : bytes) : wstate :=
  match w_ts w with
  | TsNone => mkWS le (mkS body' None) (sf ++ sg)
                   (mkW (w_ct w) TsNone 0 (w_exp w) (nlen body') (w_lenpos w) (w_start w) (w_etpos w) 0 :: rest)
  | _ => mkWS le (mkS body' (act_sig sigstr w sg)) sf (post_w w tp (nlen body') :: rest)
  end.

Lemma sig_wrap le sf body sigstr w rest sg tail : head_ok sf (mkS body sigstr) w sg tail ->
  exists sigstr1 w1,
    iter_open_signature sf (mkS body sigstr) w = Some (mkS body sigstr1, w1) /\
    active (mkS body sigstr1) w1 (sg ++ tail) /\ w_vpos w1 = w_vpos w /\
    forall body' v, exists sf' m' w',
      iter_close_signature sf (mkS body' (act_sig sigstr1 w1 sg)) (post_w w1 (tpos_after w1 v) (nlen body')) = Some (sf', m', w') /\
      mkWS le m' sf' (w' :: rest) = post_state le sf body sigstr w rest sg (tpos_after w v) body'.
Proof.
  destruct w as [ct ts tpos ex vpos lp st et refs].
  intros [[(Ht & Hs & Hr & He & Hc & Hp) Hl]|Ha]; cbn [w_ct w_ts w_tpos w_exp w_vpos w_lenpos w_start w_etpos w_refs s_sigstr] in *.
  - subst. exists (Some sf), (mkW 0 TsSig (nlen sf) false vpos lp st et 1). split; [reflexivity|]. split; [|split; [reflexivity|]].
    + split; [cbn; lia|]. left. cbn. repeat split; auto. exists sf. auto.
    + intros body' v. unfold iter_close_signature, post_w, act_sig, post_state.
      cbn [w_ct w_ts w_tpos w_exp w_vpos w_lenpos w_start w_etpos w_refs has_ts negb orb s_sigstr s_bodystr].
      change (1 =? 0) with false. change (0 <? 1 - 1) with false. cbv iota.
      change DBUS_MAXIMUM_SIGNATURE_LENGTH with 255. replace (255 <? nlen (sf ++ sg)) with false by lia.
      eexists _, _, _. split; reflexivity.
  - pose proof Ha as [Hr Hm]. cbn [w_refs] in Hr.
    exists sigstr, (mkW ct ts tpos ex vpos lp st et (refs + 1)). 
    assert (Hts : ts <> TsNone) by (destruct Hm as [(_ & Ht & _)|(_ & Ht & _)]; cbn [w_ts] in Ht; congruence).
    split; [|split; [|split; [reflexivity|]]].
    + unfold iter_open_signature. cbn [w_ts w_refs]. replace (refs =? 0) with false by lia. destruct ts; [congruence|reflexivity|reflexivity].
    + destruct Ha as [_ Hx]. split; [cbn [w_refs]; lia|]. exact Hx.
    + intros body' v. unfold iter_close_signature, post_w, post_state, has_ts.
      cbn [w_ct w_ts w_tpos w_exp w_vpos w_lenpos w_start w_etpos w_refs has_ts].
      assert (Hh : (match ts with TsNone => false | _ => true end) = true) by (destruct ts; congruence). rewrite Hh. cbn [negb orb].
      replace (refs + 1 =? 0) with false by lia. replace (0 <? refs + 1 - 1) with true by lia.
      unfold set_refs. cbn [w_ct w_ts w_tpos w_exp w_vpos w_lenpos w_start w_etpos w_refs].
      replace (refs + 1 - 1) with refs by lia.
      eexists _, _, _. split; [reflexivity|]. destruct ts; [congruence|reflexivity|reflexivity].
Qed.

Lemma run_ops_app a b st : run_ops (a ++ b) st = match run_ops a st with Some st' => run_ops b st' | None => None end.
Proof. revert st. induction a as [|x r IH]; intros st; [reflexivity|]. cbn [app run_ops]. destruct (writer_step st x); [apply IH|reflexivity]. Qed.

Lemma run_basic le sf m w rest v m1 w1 m2 w2 sf' m3 w3 :
  iter_open_signature sf m w = Some (m1, w1) ->
  type_writer_write_basic le m1 w1 v = Some (m2, w2) ->
  iter_close_signature sf m2 w2 = Some (sf', m3, w3) ->
  run_ops [WBasic v] (mkWS le m sf (w :: rest)) = Some (mkWS le m3 sf' (w3 :: rest)).
Proof.
  intros H1 H2 H3. cbn [run_ops]. unfold writer_step. cbn [ws_le ws_strs ws_sigfield ws_iters]. rewrite H1, H2, H3. reflexivity.
Qed.

Lemma run_container le sf m w rest k c elems m1 w1 m2 w2 sub m3 sub' m4 w4 sf' m5 w5 :
  iter_open_signature sf m w = Some (m1, w1) ->
  type_writer_recurse le m1 w1 k c = Some (m2, w2, sub) ->
  run_ops elems (mkWS le m2 sf (sub :: w2 :: rest)) = Some (mkWS le m3 sf (sub' :: w2 :: rest)) ->
  type_writer_unrecurse le m3 w2 sub' = Some (m4, w4) ->
  iter_close_signature sf m4 w4 = Some (sf', m5, w5) ->
  run_ops (WOpen k c :: elems ++ [WClose]) (mkWS le m sf (w :: rest)) = Some (mkWS le m5 sf' (w5 :: rest)).
Proof.
  intros H1 H2 H3 H4 H5. cbn [run_ops]. unfold writer_step at 1. cbn [ws_le ws_strs ws_sigfield ws_iters]. rewrite H1, H2.
  rewrite run_ops_app, H3. cbn [run_ops]. unfold writer_step. cbn [ws_le ws_strs ws_sigfield ws_iters]. rewrite H4, H5. reflexivity.
Qed.

(* ---- opening and closing containers on a ready writer ------------------------------------------ *)
Lemma init_check_active m w ct' bc x : active m w (bc :: x) -> map_type_char_to_type bc = Some ct' ->
  writer_recurse_init_and_check m w ct' =
  Some (mkW ct' (w_ts w) (w_tpos w) (w_exp w || (ct' =? 97) || (ct' =? 118)) (w_vpos w) (w_lenpos w) (w_start w) (w_etpos w) (w_refs w)).
Proof.
  intros Ha Hm. unfold writer_recurse_init_and_check. rewrite (active_has_ts _ _ _ Ha), andb_true_r.
  destruct Ha as [_ [(He & _)|(He & Ht & (ts & Hts & Hs) & _)]]; rewrite He; [reflexivity|].
  rewrite Hts. unfold first_type_in_signature. rewrite (sub_at_head _ _ _ _ Hs), Hm, N.eqb_refl. reflexivity.
Qed.

(* a struct / dict-entry sub-writer of a ready writer is ready for the same signature *)
Lemma active_sub m w sg ct' : active m w sg -> (ct' = 114 \/ ct' = 101) ->
  active m (mkW ct' (w_ts w) (w_tpos w) (w_exp w) (w_vpos w) (w_lenpos w) (w_start w) (w_etpos w) (w_refs w)) sg.
Proof.
  intros [Hr [(He & Ht & Hs & Hc)|(He & Ht & Hs & Hc & Het)]] Hct; (split; [exact Hr|]); cbn [w_ct w_ts w_tpos w_exp w_etpos].
  - left. repeat split; auto; tauto.
  - right. repeat split; auto; try tauto. intros E. destruct Hct; lia.
Qed.

Lemma open_sd le body sigstr w k ct' bc x :
  ((k = KStruct /\ ct' = 114 /\ bc = 40) \/ (k = KDict /\ ct' = 101 /\ bc = 123)) ->
  active (mkS body sigstr) w (bc :: x) -> w_vpos w = nlen body ->
  type_writer_recurse le (mkS body sigstr) w k [] =
  Some (mkS (body ++ zeros (pad_amount (nlen body) 8)) (act_sig sigstr w [bc]), w,
        mkW ct' (w_ts w) (w_tpos w + 1) (w_exp w) (nlen body + pad_amount (nlen body) 8) (w_lenpos w) (w_start w) (w_etpos w) (w_refs w)).
Proof.
  intros Hk Ha Hv.
  assert (Hm : map_type_char_to_type bc = Some ct') by (destruct Hk as [(_ & -> & ->)|(_ & -> & ->)]; reflexivity).
  assert (Hc : ct' = 114 \/ ct' = 101) by (destruct Hk as [(_ & -> & _)|(_ & -> & _)]; auto).
  assert (E : type_writer_recurse le (mkS body sigstr) w k [] =
              match writer_recurse_init_and_check (mkS body sigstr) w ct' with
              | None => None
              | Some sub => match writer_recurse_struct_or_dict_entry (mkS body sigstr) bc sub with
                            | Some (m1, sub1) => Some (m1, w, sub1) | None => None end
              end) by (destruct Hk as [(-> & -> & ->)|(-> & -> & ->)]; reflexivity).
  rewrite E, (init_check_active _ _ _ _ _ Ha Hm).
  replace (w_exp w || (ct' =? 97) || (ct' =? 118)) with (w_exp w) by (destruct Hc as [-> | ->]; cbn; rewrite !orb_false_r; reflexivity).
  unfold writer_recurse_struct_or_dict_entry.
  rewrite (wov_active _ _ _ _ _ (active_sub _ _ _ ct' Ha Hc)).
  cbn [post_w w_ct w_ts w_tpos w_exp w_vpos w_lenpos w_start w_etpos w_refs s_bodystr s_sigstr].
  replace (ct' =? 97) with false by (destruct Hc as [-> | ->]; reflexivity).
  rewrite Hv, pad_body_end by tauto. unfold set_vpos, act_sig. cbn [w_ct w_ts w_tpos w_exp w_vpos w_lenpos w_start w_etpos w_refs]. reflexivity.
Qed.

Lemma close_sd le body sigstr w sub ct' cc x :
  ((ct' = 114 /\ cc = 41) \/ (ct' = 101 /\ cc = 125)) -> w_ct sub = ct' -> has_ts w = true ->
  active (mkS body sigstr) sub (cc :: x) ->
  type_writer_unrecurse le (mkS body sigstr) w sub =
  Some (mkS body (act_sig sigstr sub [cc]),
        post_w w (if (w_ct w =? 114) || (w_ct w =? 101) || (w_ct w =? 0) then w_tpos sub + 1 else w_tpos w) (w_vpos sub)).
Proof.
  intros Hk Hc Hh Ha. unfold type_writer_unrecurse.
  assert (E : (if w_ct sub =? DBUS_TYPE_STRUCT then write_or_verify_typecode (mkS body sigstr) sub DBUS_STRUCT_END_CHAR
               else if w_ct sub =? DBUS_TYPE_DICT_ENTRY then write_or_verify_typecode (mkS body sigstr) sub DBUS_DICT_ENTRY_END_CHAR
               else if w_ct sub =? DBUS_TYPE_ARRAY then
                 if w_vpos sub <? w_start sub then None else
                 match overwrite_at (w_lenpos sub) (bytes_of le 4 (w_vpos sub - w_start sub)) (s_bodystr (mkS body sigstr)) with
                 | Some b => Some (mkS b (s_sigstr (mkS body sigstr)), sub) | None => None end
               else Some (mkS body sigstr, sub)) = write_or_verify_typecode (mkS body sigstr) sub cc)
    by (rewrite Hc; destruct Hk as [(-> & ->)|(-> & ->)]; reflexivity).
  rewrite E, (wov_active _ _ _ _ _ Ha). rewrite Hc.
  replace (ct' =? 97) with false by (destruct Hk as [(-> & _)|(-> & _)]; reflexivity).
  cbn [post_w w_ct w_ts w_tpos w_exp w_vpos w_lenpos w_start w_etpos w_refs]. rewrite Hh, Hc.
  replace ((ct' =? DBUS_TYPE_STRUCT) || (ct' =? DBUS_TYPE_DICT_ENTRY)) with true by (destruct Hk as [(-> & _)|(-> & _)]; reflexivity).
  cbn [andb]. change DBUS_TYPE_STRUCT with 114. change DBUS_TYPE_DICT_ENTRY with 101.
  destruct w as [ct ts tpos ex vpos lp st et refs]. cbn [w_ct w_ts w_tpos w_exp w_vpos w_lenpos w_start w_etpos w_refs].
  destruct ((ct =? 114) || (ct =? 101) || (ct =? 0)); reflexivity.
Qed.

Lemma firstn_nlen {A} (l : list A) : firstn (N.to_nat (nlen l)) l = l.
Proof. rewrite nlen_to_nat. apply firstn_all. Qed.

(* writer_recurse_array: length placeholder at the 4-aligned position, padding to the element
   alignment (also when no element follows), start position = arr_start *)
Lemma open_array le body sigstr w et x : tygood et = true ->
  active (mkS body sigstr) w (97 :: print_ty et ++ x) -> w_vpos w = nlen body ->
  type_writer_recurse le (mkS body sigstr) w KArray (print_ty et) =
  Some (mkS (body ++ zeros (pad_amount (nlen body) 4) ++ bytes_of le 4 0 ++
             zeros (pad_amount (nlen body + pad_amount (nlen body) 4 + 4) (spec_align et)))
            (act_sig sigstr w (97 :: print_ty et)),
        post_w w (if w_ct w =? 97 then w_tpos w else w_tpos w + (1 + nlen (print_ty et))) (w_vpos w),
        mkW 97 (w_ts w) (w_tpos w + 1) true (arr_start (nlen body) et) (nlen body + pad_amount (nlen body) 4)
            (arr_start (nlen body) et) (w_tpos w + 1) (w_refs w)).
Proof.
  intros G Ha Hv. unfold type_writer_recurse. rewrite (find_len_print et G), firstn_nlen.
  cbn [ctype_of]. change DBUS_TYPE_ARRAY with 97.
  rewrite (init_check_active _ _ 97 _ _ Ha eq_refl). change (97 =? 97) with true. rewrite orb_true_r. cbn [orb].
  destruct (elem_align_print et G) as [Hal Hcases].
  pose proof (active_has_ts _ _ _ Ha) as Hh.
  unfold writer_recurse_array. rewrite Hh, andb_true_r. cbn [w_ct w_ts w_tpos w_exp w_vpos w_lenpos w_start w_etpos w_refs negb].
  change DBUS_TYPE_ARRAY with 97.
  set (p1 := pad_amount (nlen body) 4). set (p2 := pad_amount (nlen body + p1 + 4) (spec_align et)).
  assert (Hm4 : marshal_octets le body (nlen body) 4 0 = Some (body ++ zeros p1 ++ bytes_of le 4 0, nlen body + (p1 + 4)))
    by (apply marshal_octets_end; tauto).
  assert (Hpad : pad_body (body ++ zeros p1 ++ bytes_of le 4 0) (nlen body + (p1 + 4)) (spec_align et) =
                 Some ((body ++ zeros p1 ++ bytes_of le 4 0) ++ zeros p2, arr_start (nlen body) et)).
  { replace (nlen body + (p1 + 4)) with (nlen (body ++ zeros p1 ++ bytes_of le 4 0)) by (nl; lia).
    rewrite pad_body_end by exact Hcases. f_equal. f_equal; [f_equal; unfold p2; nl; replace (nlen body + (p1 + N.of_nat 4)) with (nlen body + p1 + 4) by lia; reflexivity|].
    unfold arr_start, p2, p1. nl. replace (nlen body + (pad_amount (nlen body) 4 + N.of_nat 4)) with (nlen body + pad_amount (nlen body) 4 + 4) by lia. lia. }
  destruct w as [ct ts tpos ex vpos lp st et' refs]. cbn [w_ct w_ts w_tpos w_exp w_vpos w_lenpos w_start w_etpos w_refs post_w] in *.
  destruct Ha as [Hr [(He & Ht & (s & Hs & Hp) & Hc)|(He & Ht & (tstr & Hts & Hsub) & Hc & Het)]];
    cbn [w_ct w_ts w_tpos w_exp w_vpos w_lenpos w_start w_etpos w_refs s_sigstr] in *; subst.
  - (* the outermost array: the type string is extended *)
    replace (ct =? 97) with false by (destruct Hc as [-> |[-> | ->]]; reflexivity). cbn [andb negb].
    cbn [ts_get s_sigstr]. rewrite insert_at_end. cbn [ts_put s_bodystr s_sigstr ts_get].
    rewrite insert_at_end' by (nl; lia). cbn [s_bodystr s_sigstr].
    rewrite Hm4. rewrite (align_value_pad (nlen body) 4) by tauto. fold p1.
    replace (nlen body + p1 + 4 =? nlen body + (p1 + 4)) with true by lia. cbn [negb].
    rewrite Hal, Hpad. unfold act_sig, set_tpos. cbn [w_ct w_ts w_tpos w_exp w_vpos w_lenpos w_start w_etpos w_refs].
    rewrite <- !app_assoc. cbn [app]. repeat f_equal.
  - (* below an array or variant: the expected type is verified *)
    cbn [andb]. assert (Hne : ts <> TsNone) by exact Ht.
    assert (Hchk : (if ct =? 97 then match ts_get (mkS body sigstr) ts with
                                     | Some ts0 => equal_substring (print_ty et) ts0 (et' + 1) | None => None end
                    else Some true) = Some true).
    { destruct (ct =? 97) eqn:E; [|reflexivity]. rewrite Hts. rewrite (Het ltac:(lia)).
      apply sub_at_equal. change (97 :: print_ty et ++ x) with ([97] ++ print_ty et ++ x) in Hsub.
      apply sub_at_tail in Hsub. change (nlen [97]) with 1 in Hsub. eapply sub_at_prefix. exact Hsub. }
    rewrite Hchk. cbn [s_bodystr s_sigstr]. rewrite Hm4. rewrite (align_value_pad (nlen body) 4) by tauto. fold p1.
    replace (nlen body + p1 + 4 =? nlen body + (p1 + 4)) with true by lia. cbn [negb].
    rewrite Hal, Hpad. unfold act_sig, set_tpos. cbn [w_ct w_ts w_tpos w_exp w_vpos w_lenpos w_start w_etpos w_refs].
    rewrite <- !app_assoc. destruct (ct =? 97); cbn [negb]; reflexivity.
Qed.

(* _dbus_type_writer_unrecurse of an array: the length word is back-patched with the number of
   bytes written since start_pos *)
Lemma close_array le body sigstr w ts tp lp0 refs' et payload old :
  nlen old = 4 ->
  let p1 := pad_amount (nlen body) 4 in
  let p2 := pad_amount (nlen body + p1 + 4) (spec_align et) in
  let body3 := body ++ zeros p1 ++ old ++ zeros p2 ++ payload in
  type_writer_unrecurse le (mkS body3 sigstr) w
    (mkW 97 ts tp true (nlen body3) (nlen body + p1) (arr_start (nlen body) et) lp0 refs') =
  Some (mkS (body ++ zeros p1 ++ bytes_of le 4 (nlen payload) ++ zeros p2 ++ payload) sigstr,
        post_w w (w_tpos w) (nlen body3)).
Proof.
  intros Ho p1 p2 body3. unfold type_writer_unrecurse. cbn [w_ct w_ts w_tpos w_exp w_vpos w_lenpos w_start w_etpos w_refs s_bodystr s_sigstr].
  change (97 =? DBUS_TYPE_STRUCT) with false. change (97 =? DBUS_TYPE_DICT_ENTRY) with false. change (97 =? DBUS_TYPE_ARRAY) with true. cbv iota.
  assert (Hst : arr_start (nlen body) et = nlen body + p1 + 4 + p2) by reflexivity.
  assert (Hl : nlen body3 = arr_start (nlen body) et + nlen payload) by (unfold body3; nl; rewrite Hst, Ho; lia).
  replace (nlen body3 <? arr_start (nlen body) et) with false by lia.
  replace (nlen body3 - arr_start (nlen body) et) with (nlen payload) by lia.
  replace (nlen body + p1) with (nlen (body ++ zeros p1)) by (nl; reflexivity).
  unfold body3. rewrite (app_assoc body (zeros p1)).
  rewrite (overwrite_mid (body ++ zeros p1) old (bytes_of le 4 (nlen payload)) (zeros p2 ++ payload)) by (rewrite bytes_of_length; exact Ho).
  rewrite <- !app_assoc. cbn [orb andb]. rewrite !andb_false_r. 
  unfold set_vpos, post_w. destruct w; reflexivity.
Qed.

(* writer_recurse_variant: signature length byte, the contained signature, NUL, padding to the
   contained type's alignment; the sub-writer verifies against the signature in the value string *)
Lemma open_variant le body sigstr w t x : tygood t = true -> nlen (print_ty t) < 256 ->
  active (mkS body sigstr) w (118 :: x) -> w_vpos w = nlen body ->
  let sg := print_ty t in
  let pv := pad_amount (nlen body + 1 + nlen sg + 1) (spec_align t) in
  type_writer_recurse le (mkS body sigstr) w KVariant sg =
  Some (mkS (body ++ [nlen sg] ++ sg ++ [0] ++ zeros pv) (act_sig sigstr w [118]),
        post_w w (if w_ct w =? 97 then w_tpos w else w_tpos w + 1) (w_vpos w),
        mkW 118 TsBody (nlen body + 1) true (nlen body + 1 + nlen sg + 1 + pv) (w_lenpos w) (w_start w) (w_etpos w) (w_refs w)).
Proof.
  intros G Hlen Ha Hv sg pv. unfold type_writer_recurse. fold sg. unfold sg at 1. rewrite (find_len_print t G). fold sg. rewrite firstn_nlen.
  cbn [ctype_of]. change DBUS_TYPE_VARIANT with 118.
  rewrite (init_check_active _ _ 118 _ _ Ha eq_refl). change (118 =? 118) with true. rewrite orb_true_r.
  destruct (elem_align_print t G) as [Hal Hcases]. fold sg in Hal.
  unfold writer_recurse_variant. change DBUS_TYPE_VARIANT with 118. rewrite (wov_active _ _ _ _ _ Ha).
  cbn [w_ct w_ts w_tpos w_exp w_vpos w_lenpos w_start w_etpos w_refs s_bodystr s_sigstr].
  rewrite Hv. rewrite N.mod_small by exact Hlen.
  rewrite insert_at_end. rewrite insert_at_end' by (nl; lia). rewrite insert_at_end' by (nl; lia). rewrite Hal.
  replace (nlen body + 1 + nlen sg + 1) with (nlen (((body ++ [nlen sg]) ++ sg) ++ [0])) by (nl; lia).
  rewrite pad_body_end by exact Hcases.
  rewrite <- !app_assoc.
  assert (E : nlen (body ++ [nlen sg] ++ sg ++ [0]) = nlen body + 1 + nlen sg + 1) by (nl; lia).
  rewrite E. fold pv. reflexivity.
Qed.

Lemma close_variant le m w sub : w_ct sub = 118 ->
  type_writer_unrecurse le m w sub = Some (m, post_w w (w_tpos w) (w_vpos sub)).
Proof.
  intros Hc. unfold type_writer_unrecurse. rewrite Hc.
  change (118 =? DBUS_TYPE_STRUCT) with false. change (118 =? DBUS_TYPE_DICT_ENTRY) with false. change (118 =? DBUS_TYPE_ARRAY) with false. cbv iota.
  rewrite Hc. change (118 =? DBUS_TYPE_STRUCT) with false. change (118 =? DBUS_TYPE_DICT_ENTRY) with false.
  cbn [orb]. rewrite andb_false_r. cbn [andb]. unfold set_vpos, post_w. destruct w; reflexivity.
Qed.

(* ---- alignment is absorbed by the value's own encoding ------------------------------------------- *)
Lemma pad_idem p a : (a = 1 \/ a = 2 \/ a = 4 \/ a = 8) -> pad_amount (p + pad_amount p a) a = 0.
Proof. intros [-> | [-> | [-> | -> ]]]; unfold pad_amount; lia. Qed.

Lemma arr_start_aligned pos et : arr_start (pos + pad_amount pos 4) et = arr_start pos et.
Proof. unfold arr_start. rewrite (pad_idem pos 4) by tauto. rewrite N.add_0_r. reflexivity. Qed.

Lemma wfb_aligned le depth pos v :
  wfb le depth (pos + pad_amount pos (spec_align (ty_of_val v))) v = wfb le depth pos v.
Proof.
  destruct v as [c n|c s|et vs|fs|k x|t x]; cbn [ty_of_val spec_align].
  - reflexivity.
  - reflexivity.
  - rewrite !wfb_arr, arr_start_aligned. reflexivity.
  - rewrite !wfb_struct. rewrite <- N.add_assoc, (N.add_comm (pad_amount pos 8)), N.add_assoc.
    rewrite (pad_idem pos 8) by tauto. rewrite N.add_0_r. reflexivity.
  - rewrite !wfb_dict. rewrite (pad_idem pos 8) by tauto. rewrite N.add_0_r. reflexivity.
  - rewrite pad_amount_1, N.add_0_r. reflexivity.
Qed.

Lemma enc_aligned le depth pos v : wfb le depth pos v = true ->
  zeros (pad_amount pos (spec_align (ty_of_val v))) ++ enc le v (pos + pad_amount pos (spec_align (ty_of_val v))) = enc le v pos.
Proof.
  intros H. destruct v as [c n|c s|et vs|fs|k x|t x]; cbn [ty_of_val spec_align].
  - cbn [wfb] in H. apply andb_true_iff in H. destruct H as [_ H].
    rewrite !enc_num. destruct (fixed_size c) as [sz|] eqn:Hsz; [|discriminate].
    assert (Hc : sz = 1 \/ sz = 2 \/ sz = 4 \/ sz = 8) by (destruct (fixed_size_cases c sz Hsz) as [[_ ->]|[[_ ->]|[[_ ->]|[_ ->]]]]; tauto).
    rewrite (pad_idem pos sz Hc). reflexivity.
  - cbn [wfb] in H. apply andb_true_iff in H. destruct H as [_ H]. rewrite !enc_str. unfold fixed_size.
    destruct (c =? 115) eqn:E1; [|destruct (c =? 111) eqn:E2; [|destruct (c =? 103) eqn:E3; [|discriminate]]].
    + assert (c = 115) by lia. subst c. cbn [N.eqb Pos.eqb orb]. rewrite (pad_idem pos 4) by tauto. reflexivity.
    + assert (c = 111) by lia. subst c. cbn [N.eqb Pos.eqb orb]. rewrite (pad_idem pos 4) by tauto. reflexivity.
    + assert (c = 103) by lia. subst c. cbn [N.eqb Pos.eqb orb]. rewrite pad_amount_1. reflexivity.
  - rewrite !enc_arr. cbv zeta. rewrite (pad_idem pos 4) by tauto. rewrite !N.add_0_r. reflexivity.
  - rewrite !enc_struct. rewrite (pad_idem pos 8) by tauto. rewrite !N.add_0_r. reflexivity.
  - rewrite !enc_dict. rewrite (pad_idem pos 8) by tauto. rewrite !N.add_0_r. reflexivity.
  - rewrite pad_amount_1, N.add_0_r. reflexivity.
Qed.

(* ---- THE INVARIANT: one value written through a ready iterator -------------------------------------- *)
(* For any byte order, any body written so far, any iterator on top of any stack of open
   iterators [rest]: if the iterator is the idle top-level one, or a ready one whose expected
   signature starts with the value's type, then the call sequence of the value succeeds, appends
   exactly the specification encoding of the value at that position, and advances the type side
   by exactly the value's signature. *)
Definition value_written (le : bool) (v : val) : Prop :=
  forall sf body sigstr w rest depth tail,
    head_ok sf (mkS body sigstr) w (print_ty (ty_of_val v)) tail ->
    w_vpos w = nlen body -> wfb le depth (nlen body) v = true -> tygood (ty_of_val v) = true ->
    run_ops (ops_of_val v) (mkWS le (mkS body sigstr) sf (w :: rest)) =
    Some (post_state le sf body sigstr w rest (print_ty (ty_of_val v)) (tpos_after w v) (body ++ enc le v (nlen body))).

Lemma post_state_active le sf body sigstr w rest sg tp body' m x : active m w x ->
  post_state le sf body sigstr w rest sg tp body' =
  mkWS le (mkS body' (act_sig sigstr w sg)) sf (post_w w tp (nlen body') :: rest).
Proof.
  intros Ha. pose proof (active_has_ts _ _ _ Ha) as H. unfold has_ts in H. unfold post_state.
  destruct (w_ts w); [discriminate|reflexivity|reflexivity].
Qed.

Lemma act_sig_nil o w : act_sig o w [] = o.
Proof. unfold act_sig. destruct (w_exp w); [reflexivity|]. destruct o; [rewrite app_nil_r|]; reflexivity. Qed.

Lemma act_sig_exp o w sg : w_exp w = true -> act_sig o w sg = o.
Proof. intros E. unfold act_sig. rewrite E. reflexivity. Qed.

Lemma post_w_id w : post_w w (w_tpos w) (w_vpos w) = w.
Proof. destruct w; reflexivity. Qed.

Lemma tpos_after_plain w v : w_ct w <> 97 -> w_ct w <> 118 -> tpos_after w v = w_tpos w + nlen (print_ty (ty_of_val v)).
Proof. intros H1 H2. unfold tpos_after. replace (w_ct w =? 97) with false by lia. replace (w_ct w =? 118) with false by lia. reflexivity. Qed.

(* the fields of a struct / dict entry (any writer that is not directly inside an array or variant) *)
Lemma seq_fields le vs : Forall (value_written le) vs ->
  forall sf body sigstr w rest depth tail,
    active (mkS body sigstr) w (flat_map print_ty (map ty_of_val vs) ++ tail) -> w_ct w <> 97 -> w_ct w <> 118 ->
    w_vpos w = nlen body -> wfsb le vs depth (nlen body) = true -> forallb tygood (map ty_of_val vs) = true ->
    run_ops (flat_map ops_of_val vs) (mkWS le (mkS body sigstr) sf (w :: rest)) =
    Some (mkWS le (mkS (body ++ encs le vs (nlen body)) (act_sig sigstr w (flat_map print_ty (map ty_of_val vs)))) sf
               (post_w w (w_tpos w + nlen (flat_map print_ty (map ty_of_val vs))) (nlen (body ++ encs le vs (nlen body))) :: rest)).
Proof.
  induction 1 as [|x r Hx Hr IH]; intros sf body sigstr w rest depth tail Ha H97 H118 Hv Hw Hg.
  - cbn [flat_map map encs run_ops]. rewrite app_nil_r, act_sig_nil. change (nlen (@nil N)) with 0. rewrite N.add_0_r, <- Hv, post_w_id. reflexivity.
  - cbn [wfsb] in Hw. apply andb_true_iff in Hw. destruct Hw as [Hwx Hwr].
    cbn [map forallb] in Hg. apply andb_true_iff in Hg. destruct Hg as [Hgx Hgr].
    cbn [flat_map map] in *. rewrite <- app_assoc in Ha.
    rewrite run_ops_app.
    rewrite (Hx sf body sigstr w rest depth _ (or_intror Ha) Hv Hwx Hgx).
    rewrite (post_state_active _ _ _ _ _ _ _ _ _ _ _ Ha), (tpos_after_plain w x H97 H118).
    pose proof (active_next body sigstr w _ _ (enc le x (nlen body)) (nlen (body ++ enc le x (nlen body))) Ha H97) as Ha2.
    rewrite (IH sf _ _ _ rest depth tail Ha2 H97 H118 eq_refl) by (try exact Hgr; rewrite nlen_app; exact Hwr).
    cbn [encs]. cbv zeta. rewrite act_sig_app by reflexivity. rewrite !nlen_app.
    unfold post_w. cbn [w_ct w_ts w_tpos w_exp w_vpos w_lenpos w_start w_etpos w_refs]. rewrite <- ?app_assoc, ?nlen_app.
    rewrite ?N.add_assoc. reflexivity.
Qed.

(* the elements of an array: type_pos stays on the element type *)
Lemma seq_elems le et vs : Forall (value_written le) vs ->
  forall sf body sigstr w rest depth,
    active (mkS body sigstr) w (print_ty et) -> w_ct w = 97 ->
    w_vpos w = nlen body -> wfsb le vs depth (nlen body) = true ->
    forallb (fun x => ty_eqb (ty_of_val x) et) vs = true -> tygood et = true ->
    run_ops (flat_map ops_of_val vs) (mkWS le (mkS body sigstr) sf (w :: rest)) =
    Some (mkWS le (mkS (body ++ encs le vs (nlen body)) sigstr) sf
               (post_w w (w_tpos w) (nlen (body ++ encs le vs (nlen body))) :: rest)).
Proof.
  induction 1 as [|x r Hx Hr IH]; intros sf body sigstr w rest depth Ha H97 Hv Hw Ht Hg.
  - cbn [flat_map encs run_ops]. rewrite app_nil_r, <- Hv, post_w_id. reflexivity.
  - cbn [wfsb] in Hw. apply andb_true_iff in Hw. destruct Hw as [Hwx Hwr].
    cbn [forallb] in Ht. apply andb_true_iff in Ht. destruct Ht as [Htx Htr]. apply ty_eqb_eq in Htx.
    assert (He : w_exp w = true).
    { destruct Ha as [_ [(_ & _ & _ & Hc)|(He & _)]]; [rewrite H97 in Hc; destruct Hc as [?|[?|?]]; discriminate|exact He]. }
    cbn [flat_map]. rewrite run_ops_app.
    assert (Ha1 : active (mkS body sigstr) w (print_ty (ty_of_val x) ++ [])) by (rewrite Htx, app_nil_r; exact Ha).
    rewrite (Hx sf body sigstr w rest depth [] (or_intror Ha1) Hv Hwx) by (rewrite Htx; exact Hg).
    rewrite (post_state_active _ _ _ _ _ _ _ _ _ _ _ Ha). rewrite (act_sig_exp _ _ _ He).
    unfold tpos_after. rewrite H97. change (97 =? 97) with true. cbv iota.
    pose proof (active_grow body sigstr w _ (enc le x (nlen body)) (nlen (body ++ enc le x (nlen body))) Ha) as Ha2.
    rewrite (IH sf _ _ _ rest depth Ha2 H97 eq_refl) by (try assumption; rewrite nlen_app; exact Hwr).
    cbn [encs]. cbv zeta. rewrite !nlen_app.
    unfold post_w. cbn [w_ct w_ts w_tpos w_exp w_vpos w_lenpos w_start w_etpos w_refs]. rewrite <- ?app_assoc, ?nlen_app.
    rewrite ?N.add_assoc. reflexivity.
Qed.

Lemma tpos_sd m w sg v : active m w sg -> is_sd v = true ->
  (if (w_ct w =? 114) || (w_ct w =? 101) || (w_ct w =? 0) then w_tpos w + nlen (print_ty (ty_of_val v)) else w_tpos w) = tpos_after w v.
Proof.
  intros [_ [(_ & _ & _ & Hc)|(_ & _ & _ & Hc & _)]] Hsd; unfold tpos_after; rewrite Hsd.
  - destruct Hc as [-> |[-> | ->]]; reflexivity.
  - destruct Hc as [-> |[-> |[-> | ->]]]; reflexivity.
Qed.

Lemma value_written_basic le v : is_basic_val' v -> value_written le v.
Proof.
  intros Hb sf body sigstr w rest depth tail Hh Hv Hw Hg.
  destruct (sig_wrap le sf body sigstr w rest _ tail Hh) as (sigstr1 & w1 & Ho & Ha & Hv1 & Hc).
  assert (E : ops_of_val v = [WBasic v]) by (destruct v; try contradiction; reflexivity). rewrite E.
  destruct (Hc (body ++ enc le v (nlen body)) v) as (sf' & m' & w' & Hcl & Heq).
  rewrite <- Heq. eapply run_basic; [exact Ho| |exact Hcl].
  apply (basic_active le body sigstr1 w1 v depth tail Hb Hw); [congruence|exact Ha].
Qed.

(* struct and dict entry share the proof: [fields] are the values written between open and close *)
Lemma value_written_sd le v k ct' bc cc fields :
  ((k = KStruct /\ ct' = 114 /\ bc = 40 /\ cc = 41) \/ (k = KDict /\ ct' = 101 /\ bc = 123 /\ cc = 125)) ->
  is_sd v = true ->
  ops_of_val v = WOpen k [] :: flat_map ops_of_val fields ++ [WClose] ->
  print_ty (ty_of_val v) = bc :: flat_map print_ty (map ty_of_val fields) ++ [cc] ->
  (forall pos, enc le v pos = zeros (pad_amount pos 8) ++ encs le fields (pos + pad_amount pos 8)) ->
  (forall depth pos, wfb le depth pos v = true -> wfsb le fields (depth + 1) (pos + pad_amount pos 8) = true) ->
  (tygood (ty_of_val v) = true -> forallb tygood (map ty_of_val fields) = true) ->
  Forall (value_written le) fields -> value_written le v.
Proof.
  intros Hk Hsd Hops Hprint Henc Hwf Hgood IH sf body sigstr w rest depth tail Hh Hv Hw Hg.
  destruct (sig_wrap le sf body sigstr w rest _ tail Hh) as (sigstr1 & w1 & Ho & Ha & Hv1 & Hc).
  rewrite Hv in Hv1. rewrite Hprint in Ha. cbn [app] in Ha. rewrite <- app_assoc in Ha.
  set (flat := flat_map print_ty (map ty_of_val fields)) in *.
  set (p8 := pad_amount (nlen body) 8).
  assert (Hk' : (k = KStruct /\ ct' = 114 /\ bc = 40) \/ (k = KDict /\ ct' = 101 /\ bc = 123)) by tauto.
  assert (Hc' : ct' = 114 \/ ct' = 101) by tauto.
  pose proof (open_sd le body sigstr1 w1 k ct' bc _ Hk' Ha Hv1) as Hopen. fold p8 in Hopen.
  (* the sub-writer is ready for the fields, then for the closing code *)
  pose proof (active_next body sigstr1 _ [bc] _ (zeros p8) (nlen body + p8) (active_sub _ _ _ ct' Ha Hc')) as Hsub.
  cbn [w_ct] in Hsub. specialize (Hsub ltac:(destruct Hc'; lia)).
  change (nlen [bc]) with 1 in Hsub.
  unfold post_w in Hsub. cbn [w_ct w_ts w_tpos w_exp w_vpos w_lenpos w_start w_etpos w_refs] in Hsub.
  match type of Hsub with active ?m ?s _ => set (m2 := m) in *; set (sub := s) in * end.
  assert (Hn2 : nlen (body ++ zeros p8) = nlen body + p8) by (nl; reflexivity).
  assert (Hrun := seq_fields le fields IH sf (body ++ zeros p8) _ sub (w1 :: rest) (depth + 1) ([cc] ++ tail) Hsub).
  cbn [w_ct w_vpos sub] in Hrun. specialize (Hrun ltac:(destruct Hc'; lia) ltac:(destruct Hc'; lia) (eq_sym Hn2)).
  rewrite Hn2 in Hrun. specialize (Hrun (Hwf _ _ Hw) (Hgood Hg)). fold flat in Hrun.
  pose proof (active_next _ _ sub flat ([cc] ++ tail) (encs le fields (nlen body + p8))
                (nlen ((body ++ zeros p8) ++ encs le fields (nlen body + p8))) Hsub ltac:(cbn; destruct Hc'; lia)) as Hsub'.
  cbn [app] in Hsub'.
  pose proof (fun Hk2 Hct => close_sd le _ _ w1 _ ct' cc tail Hk2 Hct (active_has_ts _ _ _ Ha) Hsub') as Hclose.
  specialize (Hclose ltac:(tauto) eq_refl).
  destruct (Hc (body ++ enc le v (nlen body)) v) as (sf' & m' & w' & Hcl & Heq).
  rewrite <- Heq, Hops.
  eapply run_container; [exact Ho|exact Hopen|exact Hrun|exact Hclose|].
  rewrite <- Hcl. f_equal.
  - f_equal.
    + rewrite Henc. fold p8. rewrite <- app_assoc. reflexivity.
    + rewrite !act_sig_app by reflexivity. rewrite Hprint. reflexivity.
  - rewrite <- (tpos_sd _ _ _ v Ha Hsd). rewrite Hprint. fold flat.
    unfold post_w. cbn [w_ct w_ts w_tpos w_exp w_vpos w_lenpos w_start w_etpos w_refs sub].
    rewrite Henc. fold p8. rewrite <- !app_assoc.
    replace (w_tpos w1 + 1 + nlen flat + 1) with (w_tpos w1 + nlen (bc :: flat ++ [cc])) by (nl; lia).
    reflexivity.
Qed.

(* the sub-writer of an array is ready for the element type *)
Lemma active_array_sub body sigstr w p x y vp lp sp : active (mkS body sigstr) w (97 :: p ++ x) ->
  active (mkS (body ++ y) (act_sig sigstr w (97 :: p)))
         (mkW 97 (w_ts w) (w_tpos w + 1) true vp lp sp (w_tpos w + 1) (w_refs w)) p.
Proof.
  intros [Hr [(He & Ht & (s & Hs & Hp) & Hc)|(He & Ht & (ts & Hts & Hsub) & Hc & Het)]]; (split; [exact Hr|]); right;
    cbn [w_ct w_ts w_tpos w_exp w_etpos]; (repeat split; auto; try tauto).
  - rewrite Ht. discriminate.
  - cbn [s_sigstr] in Hs. subst sigstr. rewrite Ht. unfold act_sig. rewrite He. cbn [ts_get s_sigstr].
    exists (s ++ 97 :: p). split; [reflexivity|]. rewrite Hp.
    change (s ++ 97 :: p) with (s ++ [97] ++ p). rewrite app_assoc. rewrite <- (app_nil_r ((s ++ [97]) ++ p)), <- app_assoc.
    replace (nlen s + 1) with (nlen (s ++ [97])) by (nl; reflexivity). apply sub_at_here.
  - unfold act_sig. rewrite He. change (97 :: p ++ x) with ([97] ++ p ++ x) in Hsub.
    apply sub_at_tail in Hsub. change (nlen [97]) with 1 in Hsub. apply sub_at_prefix in Hsub.
    destruct (w_ts w) eqn:E; [congruence| |]; cbn [ts_get s_sigstr s_bodystr] in *.
    + exists ts. auto.
    + injection Hts as <-. exists (body ++ y). split; [reflexivity|]. apply sub_at_app. exact Hsub.
Qed.

Lemma tpos_arr w et vs : (if w_ct w =? 97 then w_tpos w else w_tpos w + (1 + nlen (print_ty et))) = tpos_after w (VArr et vs).
Proof.
  unfold tpos_after. cbn [is_sd ty_of_val print_ty]. rewrite andb_false_r, nlen_cons.
  destruct (w_ct w =? 97); [reflexivity|lia].
Qed.

(* an array whose elements are written by ANY operation sequence [elemops] that, run in the array's sub-writer,
   appends the elements' encoding and leaves type_pos where it was: the element-by-element calls ([seq_elems]), or
   one block call (dbus_message_iter_append_fixed_array, below) *)
Definition elems_written (le : bool) (et : ty) (vs : list val) (elemops : list wop) : Prop :=
  forall sf body sigstr w rest depth,
    active (mkS body sigstr) w (print_ty et) -> w_ct w = 97 -> w_vpos w = nlen body ->
    pad_amount (nlen body) (spec_align et) = 0 -> wfsb le vs depth (nlen body) = true ->
    forallb (fun x => ty_eqb (ty_of_val x) et) vs = true -> tygood et = true -> nlen (encs le vs (nlen body)) <= max_array ->
    run_ops elemops (mkWS le (mkS body sigstr) sf (w :: rest)) =
    Some (mkWS le (mkS (body ++ encs le vs (nlen body)) sigstr) sf
               (post_w w (w_tpos w) (nlen (body ++ encs le vs (nlen body))) :: rest)).

Definition writes (le : bool) (ops : list wop) (v : val) : Prop :=
  forall sf body sigstr w rest depth tail,
    head_ok sf (mkS body sigstr) w (print_ty (ty_of_val v)) tail ->
    w_vpos w = nlen body -> wfb le depth (nlen body) v = true -> tygood (ty_of_val v) = true ->
    run_ops ops (mkWS le (mkS body sigstr) sf (w :: rest)) =
    Some (post_state le sf body sigstr w rest (print_ty (ty_of_val v)) (tpos_after w v) (body ++ enc le v (nlen body))).

Lemma arr_start_pad pos et : (spec_align et = 1 \/ spec_align et = 2 \/ spec_align et = 4 \/ spec_align et = 8) ->
  pad_amount (arr_start pos et) (spec_align et) = 0.
Proof. intros H. unfold arr_start. apply pad_idem. exact H. Qed.

Lemma arr_written le et vs elemops : elems_written le et vs elemops ->
  writes le (WOpen KArray (print_ty et) :: elemops ++ [WClose]) (VArr et vs).
Proof.
  intros IH sf body sigstr w rest depth tail Hh Hv Hw Hg.
  destruct (sig_wrap le sf body sigstr w rest _ tail Hh) as (sigstr1 & w1 & Ho & Ha & Hv1 & Hc).
  rewrite Hv in Hv1. cbn [ty_of_val print_ty tygood app] in Ha, Hg.
  rewrite wfb_arr in Hw. apply andb_true_iff in Hw. destruct Hw as [_ Hw]. apply andb_true_iff in Hw. destruct Hw as [Hw Hws].
  apply andb_true_iff in Hw. destruct Hw as [Hty Hmax].
  set (p1 := pad_amount (nlen body) 4). set (p2 := pad_amount (nlen body + p1 + 4) (spec_align et)).
  pose proof (open_array le body sigstr1 w1 et tail Hg Ha Hv1) as Hopen. fold p1 p2 in Hopen.
  set (body2 := body ++ zeros p1 ++ bytes_of le 4 0 ++ zeros p2) in *.
  assert (Hn2 : nlen body2 = arr_start (nlen body) et) by (unfold body2, arr_start; fold p1 p2; nl; change (N.of_nat 4) with 4; lia).
  pose proof (active_array_sub body sigstr1 w1 (print_ty et) tail (zeros p1 ++ bytes_of le 4 0 ++ zeros p2)
                (arr_start (nlen body) et) (nlen body + p1) (arr_start (nlen body) et) Ha) as Hsub.
  fold body2 in Hsub.
  pose proof (IH sf body2 _ _ (post_w w1 (if w_ct w1 =? 97 then w_tpos w1 else w_tpos w1 + (1 + nlen (print_ty et))) (w_vpos w1) :: rest)
                (depth + 1) Hsub eq_refl) as Hrun.
  cbn [w_vpos w_tpos] in Hrun. rewrite Hn2 in Hrun.
  specialize (Hrun eq_refl (arr_start_pad _ _ (proj2 (elem_align_print et Hg))) Hws Hty Hg ltac:(lia)).
  set (payload := encs le vs (arr_start (nlen body) et)) in *.
  pose proof (close_array le body (act_sig sigstr1 w1 (97 :: print_ty et))
                (post_w w1 (if w_ct w1 =? 97 then w_tpos w1 else w_tpos w1 + (1 + nlen (print_ty et))) (w_vpos w1))
                (w_ts w1) (w_tpos w1 + 1) (w_tpos w1 + 1) (w_refs w1) et payload (bytes_of le 4 0) (bytes_of_length le 4 0)) as Hclose.
  cbv zeta in Hclose. fold p1 p2 in Hclose.
  destruct (Hc (body ++ enc le (VArr et vs) (nlen body)) (VArr et vs)) as (sf' & m' & w' & Hcl & Heq).
  rewrite <- Heq.
  eapply run_container; [exact Ho|exact Hopen| | |].
  - unfold post_w in Hrun. cbn [w_ct w_ts w_tpos w_exp w_vpos w_lenpos w_start w_etpos w_refs] in Hrun.
    unfold body2 in Hrun. rewrite <- !app_assoc in Hrun. exact Hrun.
  - exact Hclose.
  - rewrite <- Hcl. cbn [ty_of_val print_ty]. rewrite enc_arr. cbv zeta. fold p1 p2.
    change (nlen body + p1 + 4 + p2) with (arr_start (nlen body) et). fold payload.
    f_equal. unfold post_w. cbn [w_ct w_ts w_tpos w_exp w_vpos w_lenpos w_start w_etpos w_refs].
    rewrite (tpos_arr w1 et vs). f_equal. nl. reflexivity.
Qed.

Lemma value_written_arr le et vs : Forall (value_written le) vs -> value_written le (VArr et vs).
Proof.
  intros IH. apply (arr_written le et vs (flat_map ops_of_val vs)).
  intros sf body sigstr w rest depth Ha H97 Hv _ Hw Ht Hg _. exact (seq_elems le et vs IH sf body sigstr w rest depth Ha H97 Hv Hw Ht Hg).
Qed.

Lemma sig_roundtrips_good t : sig_roundtrips t = true -> tygood t = true /\ nlen (print_ty t) < 256.
Proof.
  unfold sig_roundtrips. intros H. apply andb_true_iff in H. destruct H as [H H3]. apply andb_true_iff in H. destruct H as [H1 H2].
  split; [|lia].
  destruct (parse_sig (print_ty t)) as [[|t' [|? ?]]|] eqn:P; try discriminate.
  apply ty_eqb_eq in H3. subst t'. pose proof (parse_sig_tygood _ _ P) as G. cbn [forallb] in G. rewrite andb_true_r in G. exact G.
Qed.

Lemma tpos_var w t x : (if w_ct w =? 97 then w_tpos w else w_tpos w + 1) = tpos_after w (VVar t x).
Proof. unfold tpos_after. cbn [is_sd ty_of_val print_ty]. rewrite andb_false_r. reflexivity. Qed.

Lemma value_written_var le t x : value_written le x -> value_written le (VVar t x).
Proof.
  intros IH sf body sigstr w rest depth tail Hh Hv Hw Hg.
  destruct (sig_wrap le sf body sigstr w rest _ tail Hh) as (sigstr1 & w1 & Ho & Ha & Hv1 & Hc).
  rewrite Hv in Hv1. cbn [ty_of_val print_ty app] in Ha.
  cbn [wfb] in Hw. apply andb_true_iff in Hw. destruct Hw as [_ Hw]. apply andb_true_iff in Hw. destruct Hw as [Hw Hwx].
  apply andb_true_iff in Hw. destruct Hw as [Hty Hrt]. apply ty_eqb_eq in Hty.
  destruct (sig_roundtrips_good t Hrt) as [Gt Hlen].
  set (sg := print_ty t) in *. set (pv := pad_amount (nlen body + 1 + nlen sg + 1) (spec_align t)).
  pose proof (open_variant le body sigstr1 w1 t tail Gt Hlen Ha Hv1) as Hopen. cbv zeta in Hopen. fold sg pv in Hopen.
  set (body2 := body ++ [nlen sg] ++ sg ++ [0] ++ zeros pv) in *.
  assert (Hn2 : nlen body2 = nlen body + 1 + nlen sg + 1 + pv) by (unfold body2; nl; lia).
  set (sub := mkW 118 TsBody (nlen body + 1) true (nlen body + 1 + nlen sg + 1 + pv) (w_lenpos w1) (w_start w1) (w_etpos w1) (w_refs w1)) in *.
  set (w2 := post_w w1 (if w_ct w1 =? 97 then w_tpos w1 else w_tpos w1 + 1) (w_vpos w1)) in *.
  assert (Hsub : active (mkS body2 (act_sig sigstr1 w1 [118])) sub (print_ty (ty_of_val x) ++ [])).
  { split; [destruct Ha as [Hr _]; exact Hr|]. right. cbn [sub w_ct w_ts w_tpos w_exp w_etpos ts_get s_bodystr].
    repeat split; auto; try discriminate. exists body2. split; [reflexivity|].
    rewrite Hty, app_nil_r. fold sg. unfold body2. change (body ++ [nlen sg] ++ sg ++ [0] ++ zeros pv) with (body ++ [nlen sg] ++ sg ++ ([0] ++ zeros pv)).
    rewrite (app_assoc body). replace (nlen body + 1) with (nlen (body ++ [nlen sg])) by (nl; reflexivity). apply sub_at_here. }
  assert (Hwx2 : wfb le (depth + 1) (nlen body2) x = true).
  { rewrite Hn2. unfold pv. rewrite <- Hty. rewrite wfb_aligned. replace (nlen body + 1 + nlen sg + 1) with (nlen body + (nlen sg + 2)) by lia. exact Hwx. }
  pose proof (IH sf body2 (act_sig sigstr1 w1 [118]) sub (w2 :: rest) (depth + 1) [] (or_intror Hsub) (eq_sym Hn2) Hwx2 ltac:(rewrite Hty; exact Gt)) as Hrun.
  rewrite (post_state_active _ _ _ _ _ _ _ _ _ _ _ Hsub) in Hrun. rewrite (act_sig_exp _ sub _ eq_refl) in Hrun.
  pose proof (close_variant le (mkS (body2 ++ enc le x (nlen body2)) (act_sig sigstr1 w1 [118])) w2
                (post_w sub (tpos_after sub x) (nlen (body2 ++ enc le x (nlen body2)))) eq_refl) as Hclose.
  destruct (Hc (body ++ enc le (VVar t x) (nlen body)) (VVar t x)) as (sf' & m' & w' & Hcl & Heq).
  rewrite <- Heq. cbn [ops_of_val].
  eapply run_container; [exact Ho|exact Hopen|exact Hrun|exact Hclose|].
  rewrite <- Hcl. cbn [ty_of_val print_ty].
  assert (Hb : body2 ++ enc le x (nlen body2) = body ++ enc le (VVar t x) (nlen body)).
  { rewrite Hn2. rewrite enc_var. cbv zeta. fold sg. unfold body2. rewrite <- !app_assoc. cbn [app]. do 2 f_equal. rewrite <- !app_assoc. f_equal. cbn [app]. f_equal.
    unfold pv. rewrite <- Hty.
    replace (nlen body + nlen (nlen sg :: sg ++ [0])) with (nlen body + 1 + nlen sg + 1) by (nl; lia).
    apply (enc_aligned le (depth + 1)). rewrite <- (wfb_aligned le (depth + 1)). rewrite Hty. fold pv. rewrite <- Hn2. exact Hwx2. }
  rewrite Hb. f_equal. unfold w2, post_w. cbn [w_ct w_ts w_tpos w_exp w_vpos w_lenpos w_start w_etpos w_refs].
  rewrite (tpos_var w1 t x). reflexivity.
Qed.

(* ---- every value ------------------------------------------------------------------------------------ *)
Theorem value_written_all le : forall v, value_written le v.
Proof.
  induction v as [c n|c s|et vs IH|fs IH|k x IHk IHx|t x IHx] using val_ind'.
  - apply value_written_basic. exact I.
  - apply value_written_basic. exact I.
  - apply value_written_arr. exact IH.
  - apply (value_written_sd le (VStruct fs) KStruct 114 40 41 fs); try reflexivity; try exact IH.
    + left. repeat split.
    + intros pos. apply enc_struct.
    + intros depth pos H. rewrite wfb_struct in H. apply andb_true_iff in H. destruct H as [_ H]. apply andb_true_iff in H. exact (proj2 H).
    + cbn [ty_of_val tygood]. intros H. apply andb_true_iff in H. exact (proj2 H).
  - intros sf body sigstr w rest depth tail Hh Hv Hw Hg.
    assert (Hkb : is_basic_val k = true).
    { rewrite wfb_dict in Hw. apply andb_true_iff in Hw. destruct Hw as [_ Hw]. apply andb_true_iff in Hw. exact (proj1 Hw). }
    refine (value_written_sd le (VDictE k x) KDict 101 123 125 [k; x] _ eq_refl _ _ _ _ _ _ sf body sigstr w rest depth tail Hh Hv Hw Hg).
    + right. repeat split.
    + cbn [ops_of_val flat_map]. rewrite app_nil_r, <- app_assoc. reflexivity.
    + destruct k; try discriminate; cbn [ty_of_val print_ty map flat_map app]; rewrite app_nil_r; reflexivity.
    + intros pos. apply enc_dict.
    + intros d pos H. rewrite wfb_dict in H. apply andb_true_iff in H. destruct H as [_ H]. apply andb_true_iff in H. exact (proj2 H).
    + cbn [ty_of_val tygood map forallb]. intros H. apply andb_true_iff in H. destruct H as [H1 H2]. rewrite H2, andb_true_r.
      destruct k; try discriminate; exact H1.
    + constructor; [exact IHk|constructor; [exact IHx|constructor]].
  - apply value_written_var. exact IHx.
Qed.

(* ---- a whole body through the top-level iterator ------------------------------------------------------ *)
Lemma seq_top le : forall vs sf body vpos lp st et rest,
  vpos = nlen body -> wfsb le vs 0 (nlen body) = true -> forallb tygood (map ty_of_val vs) = true ->
  nlen (sf ++ flat_map print_ty (map ty_of_val vs)) <= 255 ->
  run_ops (ops_of_vals vs) (mkWS le (mkS body None) sf (mkW 0 TsNone 0 false vpos lp st et 0 :: rest)) =
  Some (mkWS le (mkS (body ++ encs le vs (nlen body)) None) (sf ++ flat_map print_ty (map ty_of_val vs))
             (mkW 0 TsNone 0 false (nlen (body ++ encs le vs (nlen body))) lp st et 0 :: rest)).
Proof.
  induction vs as [|x r IH]; intros sf body vpos lp st et rest Hv Hw Hg Hl.
  - cbn [ops_of_vals flat_map map encs run_ops]. rewrite !app_nil_r, Hv. reflexivity.
  - cbn [wfsb] in Hw. apply andb_true_iff in Hw. destruct Hw as [Hwx Hwr].
    cbn [map forallb] in Hg. apply andb_true_iff in Hg. destruct Hg as [Hgx Hgr].
    cbn [map flat_map] in Hl. unfold ops_of_vals. cbn [flat_map map]. rewrite run_ops_app.
    assert (Hh : head_ok sf (mkS body None) (mkW 0 TsNone 0 false vpos lp st et 0) (print_ty (ty_of_val x)) []).
    { left. split; [repeat split|]. rewrite !nlen_app in *. lia. }
    rewrite (value_written_all le x sf body None _ rest 0 [] Hh Hv Hwx Hgx).
    unfold post_state. cbn [w_ct w_ts w_tpos w_exp w_vpos w_lenpos w_start w_etpos w_refs].
    fold (ops_of_vals r).
    assert (Hwr' : wfsb le r 0 (nlen (body ++ enc le x (nlen body))) = true) by (rewrite nlen_app; exact Hwr).
    assert (Hl' : nlen ((sf ++ print_ty (ty_of_val x)) ++ flat_map print_ty (map ty_of_val r)) <= 255) by (rewrite <- app_assoc; exact Hl).
    rewrite (IH (sf ++ print_ty (ty_of_val x)) _ _ lp st et rest eq_refl Hwr' Hgr Hl').
    cbn [encs]. cbv zeta. rewrite !nlen_app, <- !app_assoc, ?N.add_assoc. reflexivity.
Qed.

(* appending to a message whose body is [body0] with signature [sg0] *)
Theorem writer_correct_from le body0 sg0 vs :
  wfsb le vs 0 (nlen body0) = true -> forallb tygood (map ty_of_val vs) = true ->
  nlen (sg0 ++ flat_map print_ty (map ty_of_val vs)) <= 255 ->
  run_writer_from le body0 sg0 (ops_of_vals vs) =
  Some (body0 ++ encs le vs (nlen body0), sg0 ++ flat_map print_ty (map ty_of_val vs)).
Proof.
  intros Hw Hg Hl. unfold run_writer_from, winit. rewrite (seq_top le vs sg0 body0 _ 0 0 0 [] eq_refl Hw Hg Hl). reflexivity.
Qed.

(* THE RESULT: the writer produces the specification encoding and the types' signature *)
Theorem writer_correct le vs :
  wfsb le vs 0 0 = true -> forallb tygood (map ty_of_val vs) = true ->
  nlen (flat_map print_ty (map ty_of_val vs)) <= 255 ->
  run_writer le (ops_of_vals vs) = Some (encs le vs 0, flat_map print_ty (map ty_of_val vs)).
Proof. intros Hw Hg Hl. exact (writer_correct_from le [] [] vs Hw Hg Hl). Qed.

(* the writer never fails on the call sequence of well-formed values, and closes every container *)
Theorem writer_never_fails le vs :
  wfsb le vs 0 0 = true -> forallb tygood (map ty_of_val vs) = true ->
  nlen (flat_map print_ty (map ty_of_val vs)) <= 255 ->
  exists st, run_ops (ops_of_vals vs) (winit le [] []) = Some st /\ length (ws_iters st) = 1%nat.
Proof.
  intros Hw Hg Hl. unfold winit. rewrite (seq_top le vs [] [] _ 0 0 0 [] eq_refl Hw Hg Hl). eexists. split; reflexivity.
Qed.

(* for the messages of C02_roundtrip: the two extra premises follow from wf_msg *)
Lemma sig_of_vals_flat vs : sig_of_vals vs = flat_map print_ty (map ty_of_val vs).
Proof. unfold sig_of_vals. induction vs as [|x r IH]; [reflexivity|]. cbn [flat_map map]. rewrite IH. reflexivity. Qed.

Theorem writer_correct_msg m : wf_msg m = true ->
  run_writer (s_le m) (ops_of_vals (s_body m)) = Some (encs (s_le m) (s_body m) 0, s_sig m).
Proof.
  intros H. unfold wf_msg in H. cbv zeta in H.
  repeat (apply andb_true_iff in H; destruct H as [H ?]).
  match goal with Hs : spec_signature (s_sig m) = true |- _ => pose proof (spec_signature_len _ Hs) as Hl end.
  destruct (parse_sig (s_sig m)) as [tys|] eqn:P; [|discriminate].
  match goal with Ht : _ tys (map ty_of_val (s_body m)) = true |- _ => apply tys_eq_list in Ht; subst tys end.
  destruct (parse_sig_sound _ _ P) as [Es _]. pose proof (parse_sig_tygood _ _ P) as Hg.
  rewrite Es in Hl. rewrite Es. apply writer_correct; [assumption|exact Hg|exact Hl].
Qed.

(* ---- arrays: the length word, empty arrays -------------------------------------------------------------- *)
(* an array written through any ready iterator inside any stack of open containers: the 4 bytes at
   the aligned length position are the byte count of the encoded elements, the padding to the
   element alignment is present whether or not elements follow *)
Theorem writer_array_length_word le et vs sf body sigstr w rest depth tail :
  head_ok sf (mkS body sigstr) w (print_ty (TArray et)) tail -> w_vpos w = nlen body ->
  wfb le depth (nlen body) (VArr et vs) = true -> tygood et = true ->
  let p1 := pad_amount (nlen body) 4 in
  let start := arr_start (nlen body) et in
  exists st', run_ops (ops_of_val (VArr et vs)) (mkWS le (mkS body sigstr) sf (w :: rest)) = Some st' /\
    s_bodystr (ws_strs st') =
      body ++ zeros p1 ++ bytes_of le 4 (nlen (encs le vs start)) ++ zeros (pad_amount (nlen body + p1 + 4) (spec_align et)) ++ encs le vs start /\
    exists w', ws_iters st' = w' :: rest.
Proof.
  intros Hh Hv Hw Hg p1 start.
  rewrite (value_written_all le (VArr et vs) sf body sigstr w rest depth tail Hh Hv Hw Hg).
  eexists. split; [reflexivity|]. rewrite enc_arr. cbv zeta. unfold post_state.
  destruct (w_ts w); (split; [reflexivity|eexists; reflexivity]).
Qed.

Corollary writer_empty_array le et body0 sg0 : tygood et = true -> nlen (sg0 ++ 97 :: print_ty et) <= 255 ->
  run_writer_from le body0 sg0 (ops_of_val (VArr et [])) =
  Some (body0 ++ zeros (pad_amount (nlen body0) 4) ++ bytes_of le 4 0 ++
        zeros (pad_amount (nlen body0 + pad_amount (nlen body0) 4 + 4) (spec_align et)), sg0 ++ 97 :: print_ty et).
Proof.
  intros Hg Hl. pose proof (writer_correct_from le body0 sg0 [VArr et []]) as H.
  unfold ops_of_vals in H. cbn [flat_map map ty_of_val print_ty encs] in H. rewrite !app_nil_r in H.
  rewrite H; [|reflexivity|cbn [forallb tygood]; rewrite Hg; reflexivity|exact Hl].
  rewrite enc_arr. cbv zeta. cbn [encs]. rewrite !app_nil_r. reflexivity.
Qed.

(* ---- non-vacuity and boundary examples (vm_compute) ------------------------------------------------------ *)
Definition wchk (le : bool) (vs : list val) : bool :=
  wfsb le vs 0 0 && forallb tygood (map ty_of_val vs) && (nlen (flat_map print_ty (map ty_of_val vs)) <=? 255) &&
  match run_writer le (ops_of_vals vs) with
  | Some (b, s) => bytes_eqb b (encs le vs 0) && bytes_eqb s (flat_map print_ty (map ty_of_val vs))
  | None => false
  end.

(* nested containers: struct of (byte, array of dict entries string -> variant of array of int32, object path, double) *)
Definition wex_nested : val :=
  VStruct [VNum 121 5; VArr (TDict 115 TVariant) [VDictE (VStr 115 [107]) (VVar (TArray (TBasic 105)) (VArr (TBasic 105) [VNum 105 1; VNum 105 2]))];
           VStr 111 [47; 97]; VNum 100 4609434218613702656].
Example wex_nested_le : wchk true [wex_nested; wex_nested] = true. Proof. vm_compute. reflexivity. Qed.
Example wex_nested_be : wchk false [VNum 121 1; wex_nested] = true. Proof. vm_compute. reflexivity. Qed.

(* empty arrays of 8-aligned elements at offsets 1..: 7 bytes of padding after the length although nothing follows;
   arrays of arrays with empty inner arrays *)
Definition wex_empty8 : list val :=
  [VNum 121 1; VArr (TBasic 120) []; VNum 121 2; VArr (TStruct [TBasic 121; TBasic 120]) [];
   VArr (TArray (TStruct [TBasic 121; TBasic 120])) [VArr (TStruct [TBasic 121; TBasic 120]) []; VArr (TStruct [TBasic 121; TBasic 120]) [VStruct [VNum 121 1; VNum 120 7]]];
   VArr (TDict 121 (TBasic 116)) []].
Example wex_empty8_ok : wchk true wex_empty8 = true. Proof. vm_compute. reflexivity. Qed.
Example wex_empty8_bytes : run_writer true (ops_of_vals [VNum 121 1; VArr (TBasic 120) []]) = Some ([1; 0;0;0; 0;0;0;0], [121; 97; 120]).
Proof. vm_compute. reflexivity. Qed.

(* variants of arrays (the expected element type is read from the value string), variants in variants *)
Definition wex_var : list val :=
  [VVar (TArray (TArray (TBasic 115))) (VArr (TArray (TBasic 115)) [VArr (TBasic 115) [VStr 115 [65]; VStr 115 []]; VArr (TBasic 115) []]);
   VVar TVariant (VVar (TArray (TBasic 120)) (VArr (TBasic 120) [])); VVar (TStruct [TBasic 121; TBasic 120]) (VStruct [VNum 121 1; VNum 120 2])].
Example wex_var_ok : wchk true wex_var = true /\ wchk false wex_var = true. Proof. vm_compute. split; reflexivity. Qed.

(* API misuse is [None] *)
Example wex_close_nothing_open : run_writer true [WClose] = None. Proof. reflexivity. Qed.
Example wex_wrong_basic_in_array : run_writer true [WOpen KArray [105]; WBasic (VNum 120 5); WClose] = None. Proof. vm_compute. reflexivity. Qed.
Example wex_wrong_child_array : run_writer true [WOpen KArray [97; 105]; WOpen KArray [120]; WClose; WClose] = None. Proof. vm_compute. reflexivity. Qed.
Example wex_second_value_in_variant : run_writer true [WOpen KVariant [105]; WBasic (VNum 105 1); WBasic (VNum 105 2); WClose] = None.
Proof. vm_compute. reflexivity. Qed.
Example wex_unclosed : run_writer true [WOpen KStruct []; WBasic (VNum 105 1)] = None. Proof. vm_compute. reflexivity. Qed.

(* the third premise of [writer_correct] is necessary: the 256th top-level byte makes the SIGNATURE field
   257 > 255 bytes long and _dbus_header_set_field_basic asserts (replayed on the real code: notes/C02_writer.md) *)
Example writer_signature_limit :
  wfsb true (repeat (VNum 121 0) 256) 0 0 = true /\ forallb tygood (map ty_of_val (repeat (VNum 121 0) 256)) = true /\
  run_writer true (ops_of_vals (repeat (VNum 121 0) 255)) = Some (repeat 0 255, repeat 121 255) /\
  run_writer true (ops_of_vals (repeat (VNum 121 0) 256)) = None.
Proof. vm_compute. repeat split; reflexivity. Qed.

(* so is the second: [wfsb] does not constrain the element type of an empty array, and for an element "type" that is
   not a type (here the lone code '(') find_len_of_complete_type runs into the end of the string (an assertion in C) *)
Example writer_types_premise :
  wfsb true [VArr (TBasic 40) []] 0 0 = true /\ run_writer true (ops_of_vals [VArr (TBasic 40) []]) = None.
Proof. vm_compute. split; reflexivity. Qed.

(* a type error the C checks do not see (the child array's contained type is only compared when the parent is
   itself an array): an "ay" opened where the struct inside a(axi) expects "ax" goes through and leaves the
   empty array padded for 1-byte elements *)
Example wex_unchecked_misuse :
  run_writer true [WBasic (VNum 121 1); WOpen KArray [40; 97; 120; 105; 41]; WOpen KStruct []; WOpen KArray [121]; WClose; WBasic (VNum 105 5); WClose; WClose]
  = Some ([1; 0;0;0; 8;0;0;0; 0;0;0;0; 5;0;0;0], [121; 97; 40; 97; 120; 105; 41]).
Proof. vm_compute. reflexivity. Qed.

Print Assumptions writer_correct.
Print Assumptions value_written_all.

(* ================================================================================================== *)
(* dbus_message_iter_append_fixed_array: a block of fixed-size elements in ONE call                    *)
(* ================================================================================================== *)
Lemma bytes_of_rev host sz n : rev (bytes_of host sz n) = bytes_of (negb host) sz n.
Proof. destruct host; cbn [bytes_of negb]; [reflexivity|apply rev_involutive]. Qed.

Lemma bytes_of_len host sz n : length (bytes_of host sz n) = sz.
Proof. pose proof (bytes_of_length host sz n) as H. unfold nlen in H. lia. Qed.

(* _dbus_swap_array over the caller's elements = the elements in the other byte order *)
Lemma swap_native host sz : forall ns rest,
  swap_elems (length ns) sz (flat_map (fun n => bytes_of host sz n) ns ++ rest) =
  flat_map (fun n => bytes_of (negb host) sz n) ns ++ rest.
Proof.
  induction ns as [|x r IH]; intros rest; [reflexivity|].
  cbn [flat_map length swap_elems]. rewrite <- !app_assoc.
  rewrite (firstn_app_exact _ _ sz (bytes_of_len host sz x)), (skipn_app_exact _ _ sz (bytes_of_len host sz x)).
  rewrite IH, bytes_of_rev. reflexivity.
Qed.

(* marshal_fixed_multi at the end of the body: padding once, then the elements in the MESSAGE's byte order,
   whatever the host's byte order is *)
Lemma marshal_fixed_multi_end host le body sz ns : (sz = 2 \/ sz = 4 \/ sz = 8) ->
  marshal_fixed_multi host le body (nlen body) sz ns =
  Some (body ++ zeros (pad_amount (nlen body) sz) ++ flat_map (fun n => bytes_of le (N.to_nat sz) n) ns,
        nlen body + pad_amount (nlen body) sz + nlen ns * sz).
Proof.
  intros Hs. unfold marshal_fixed_multi. rewrite (align_value_pad (nlen body) sz) by tauto.
  replace (nlen body + pad_amount (nlen body) sz - nlen body) with (pad_amount (nlen body) sz) by lia.
  rewrite insert_at_end. rewrite insert_at_end' by (nl; reflexivity).
  destruct (Bool.eqb le host) eqn:E.
  - apply Bool.eqb_prop in E. subst host. rewrite <- app_assoc. reflexivity.
  - assert (Hh : le = negb host) by (destruct le, host; try discriminate; reflexivity).
    replace (N.to_nat (nlen body + pad_amount (nlen body) sz)) with (length (body ++ zeros (pad_amount (nlen body) sz)))
      by (rewrite <- nlen_to_nat; nl; reflexivity).
    rewrite firstn_app_len, skipn_app_len.
    rewrite <- (app_nil_r (flat_map (fun n => bytes_of host (N.to_nat sz) n) ns)), swap_native, app_nil_r, <- Hh, <- app_assoc. reflexivity.
Qed.

(* in particular the result does not depend on the host order *)
Corollary marshal_fixed_multi_host host1 host2 le body sz ns : (sz = 2 \/ sz = 4 \/ sz = 8) ->
  marshal_fixed_multi host1 le body (nlen body) sz ns = marshal_fixed_multi host2 le body (nlen body) sz ns.
Proof. intros H. rewrite !marshal_fixed_multi_end by exact H. reflexivity. Qed.

Lemma flat_bytes_1 le ns : flat_map (fun n => bytes_of le 1 n) ns = map (fun n => n mod 256) ns.
Proof. induction ns as [|x r IH]; [reflexivity|]. cbn [flat_map map]. rewrite IH, bytes_of_1. reflexivity. Qed.

Lemma marshal_write_fixed_multi_end host le body c sz ns : fixed_size c = Some sz -> pad_amount (nlen body) sz = 0 ->
  marshal_write_fixed_multi host le body (nlen body) c ns =
  Some (body ++ flat_map (fun n => bytes_of le (N.to_nat sz) n) ns, nlen body + nlen ns * sz).
Proof.
  intros Hsz Hp.
  destruct (fixed_size_cases c sz Hsz) as [[-> ->]|[[Hc ->]|[[Hc ->]|[Hc ->]]]].
  - change (marshal_write_fixed_multi host le body (nlen body) 121 ns) with (marshal_1_octets_array body (nlen body) ns).
    unfold marshal_1_octets_array. rewrite insert_at_end. change (N.to_nat 1) with 1%nat. rewrite flat_bytes_1. f_equal. f_equal. lia.
  - assert (E : marshal_write_fixed_multi host le body (nlen body) c ns = marshal_fixed_multi host le body (nlen body) 2 ns)
      by (destruct Hc as [-> | ->]; reflexivity).
    rewrite E, marshal_fixed_multi_end, Hp by tauto. cbn [zeros N.to_nat repeat app]. f_equal. f_equal. lia.
  - assert (E : marshal_write_fixed_multi host le body (nlen body) c ns = marshal_fixed_multi host le body (nlen body) 4 ns)
      by (destruct Hc as [-> |[-> |[-> | ->]]]; reflexivity).
    rewrite E, marshal_fixed_multi_end, Hp by tauto. cbn [zeros N.to_nat repeat app]. f_equal. f_equal. lia.
  - assert (E : marshal_write_fixed_multi host le body (nlen body) c ns = marshal_fixed_multi host le body (nlen body) 8 ns)
      by (destruct Hc as [-> |[-> | ->]]; reflexivity).
    rewrite E, marshal_fixed_multi_end, Hp by tauto. cbn [zeros N.to_nat repeat app]. f_equal. f_equal. lia.
Qed.

(* the elements of a well-formed array of fixed type are numbers of that type: the caller's C array *)
Lemma nums_of_wf le c sz : fixed_size c = Some sz -> forall vs depth start, wfsb le vs depth start = true ->
  forallb (fun x => ty_eqb (ty_of_val x) (TBasic c)) vs = true ->
  Writer.nums_of c vs = Some (BodyComplete.nums_of vs) /\ length (BodyComplete.nums_of vs) = length vs /\
  flat_map ops_of_val vs = map WBasic vs.
Proof.
  intros Hsz. induction vs as [|x r IH]; intros depth start Hw Ht; [repeat split|].
  cbn [wfsb] in Hw. apply andb_true_iff in Hw. destruct Hw as [Hwx Hwr].
  cbn [forallb] in Ht. apply andb_true_iff in Ht. destruct Ht as [Htx Htr]. apply ty_eqb_eq in Htx.
  destruct (IH _ _ Hwr Htr) as (I1 & I2 & I3).
  destruct x as [c' n|c' s0| | | | ]; cbn [ty_of_val] in Htx; try discriminate; inversion Htx; subst c'.
  - cbn [Writer.nums_of BodyComplete.nums_of length flat_map map ops_of_val app]. rewrite N.eqb_refl, I1, I2, I3. repeat split.
  - exfalso. cbn [wfb] in Hwx. apply andb_true_iff in Hwx. destruct Hwx as [_ Hwx]. unfold fixed_size in Hsz.
    destruct (c =? 115) eqn:E1; [assert (c = 115) by lia; subst c; discriminate|].
    destruct (c =? 111) eqn:E2; [assert (c = 111) by lia; subst c; discriminate|].
    destruct (c =? 103) eqn:E3; [assert (c = 103) by lia; subst c; discriminate|discriminate].
Qed.

(* ONE dbus_message_iter_append_fixed_array call in an array's sub-writer, inside any stack of open containers *)
Theorem fixed_multi_written le c sz vs : fixed_size c = Some sz -> c <> 104 ->
  elems_written le (TBasic c) vs [WFixedMulti c vs].
Proof.
  intros Hsz H104 sf body sigstr w rest depth Ha H97 Hv Hpad Hw Ht Hg Hmax.
  destruct (fixed_tables c sz Hsz) as (Hfx & Hal & Hs).
  assert (Hsa : spec_align (TBasic c) = sz) by (cbn [spec_align]; rewrite Hsz; reflexivity). rewrite Hsa in Hpad.
  assert (Hmod : nlen body mod sz = 0) by (unfold pad_amount in Hpad; destruct Hs as [-> |[-> |[-> | ->]]]; lia).
  destruct (fixed_elems le c sz Hsz Hfx vs depth (nlen body) Hmod Hw Ht) as (Eenc & Elen & Enl & Hall).
  destruct (nums_of_wf le c sz Hsz vs depth (nlen body) Hw Ht) as (Enums & _ & _).
  cbn [run_ops]. unfold writer_step. cbn [ws_le ws_strs ws_sigfield ws_iters].
  unfold iter_append_fixed_array. rewrite Hfx. change DBUS_TYPE_UNIX_FD with 104. replace (c =? 104) with false by lia. cbn [negb andb].
  rewrite H97. change (97 =? DBUS_TYPE_ARRAY) with true. cbn [negb]. rewrite Enums.
  unfold type_get_alignment. rewrite Hal. replace (sz =? 0) with false by lia.
  assert (Hcnt : (DBUS_MAXIMUM_ARRAY_LENGTH / sz <? nlen (BodyComplete.nums_of vs)) = false).
  { rewrite Elen in Hmax. unfold nlen. rewrite Enl. unfold max_array in Hmax. change DBUS_MAXIMUM_ARRAY_LENGTH with 67108864.
    destruct Hs as [-> |[-> |[-> | ->]]]; lia. }
  rewrite Hcnt.
  assert (Hbool : (c =? DBUS_TYPE_BOOLEAN) && negb (forallb (fun n => n <=? 1) (BodyComplete.nums_of vs)) = false).
  { change DBUS_TYPE_BOOLEAN with 98. destruct (c =? 98) eqn:E; [|reflexivity]. cbn [andb]. apply negb_false_iff. apply forallb_forall.
    intros n Hin. rewrite Forall_forall in Hall. destruct (Hall n Hin) as [_ Hb]. specialize (Hb ltac:(lia)). lia. }
  rewrite Hbool.
  assert (He : w_exp w = true).
  { destruct Ha as [_ [(_ & _ & _ & Hc)|(He & _)]]; [rewrite H97 in Hc; destruct Hc as [?|[?|?]]; discriminate|exact He]. }
  unfold type_writer_write_fixed_multi. rewrite H97, Hfx, He. change (97 =? DBUS_TYPE_ARRAY) with true. cbn [andb negb].
  cbn [print_ty] in Ha. rewrite (wov_active _ _ _ _ [] Ha). rewrite H97. change (97 =? 97) with true. cbv iota.
  cbn [post_w w_ct w_ts w_tpos w_exp w_vpos w_lenpos w_start w_etpos w_refs s_bodystr s_sigstr].
  rewrite Hv. rewrite (marshal_write_fixed_multi_end compiler_le le body c sz _ Hsz Hpad).
  rewrite (act_sig_exp _ _ _ He). rewrite Eenc. unfold set_vpos, post_w.
  cbn [w_ct w_ts w_tpos w_exp w_vpos w_lenpos w_start w_etpos w_refs]. nl.
  rewrite Eenc in Elen. rewrite Elen. unfold nlen. rewrite Enl. reflexivity.
Qed.

(* ... equals the elements appended one by one with dbus_message_iter_append_basic: same final state *)
Theorem fixed_multi_as_basics le c sz vs sf body sigstr w rest depth : fixed_size c = Some sz -> c <> 104 ->
  active (mkS body sigstr) w [c] -> w_ct w = 97 -> w_vpos w = nlen body -> pad_amount (nlen body) sz = 0 ->
  wfsb le vs depth (nlen body) = true -> forallb (fun x => ty_eqb (ty_of_val x) (TBasic c)) vs = true ->
  nlen (encs le vs (nlen body)) <= max_array ->
  run_ops [WFixedMulti c vs] (mkWS le (mkS body sigstr) sf (w :: rest)) =
  run_ops (map WBasic vs) (mkWS le (mkS body sigstr) sf (w :: rest)) /\
  run_ops (map WBasic vs) (mkWS le (mkS body sigstr) sf (w :: rest)) =
  Some (mkWS le (mkS (body ++ encs le vs (nlen body)) sigstr) sf (post_w w (w_tpos w) (nlen (body ++ encs le vs (nlen body))) :: rest)).
Proof.
  intros Hsz H104 Ha H97 Hv Hpad Hw Ht Hmax.
  destruct (fixed_tables c sz Hsz) as (Hfx & _ & _).
  assert (Hg : tygood (TBasic c) = true).
  { cbn [tygood]. destruct (fixed_size_cases c sz Hsz) as [[-> _]|[[Hc _]|[[Hc _]|[Hc _]]]]; [reflexivity| | |];
      repeat (destruct Hc as [-> |Hc]; [reflexivity|]); subst c; reflexivity. }
  assert (Hsa : spec_align (TBasic c) = sz) by (cbn [spec_align]; rewrite Hsz; reflexivity).
  destruct (nums_of_wf le c sz Hsz vs depth (nlen body) Hw Ht) as (_ & _ & Eops).
  rewrite (fixed_multi_written le c sz vs Hsz H104 sf body sigstr w rest depth Ha H97 Hv ltac:(rewrite Hsa; exact Hpad) Hw Ht Hg Hmax).
  rewrite <- Eops.
  assert (Hall : Forall (value_written le) vs) by (apply Forall_forall; intros x _; apply value_written_all).
  rewrite (seq_elems le (TBasic c) vs Hall sf body sigstr w rest depth Ha H97 Hv Hw Ht Hg).
  split; reflexivity.
Qed.

(* open_container, ONE append_fixed_array, close_container = the array value, through any ready iterator *)
Theorem fixed_array_written le c sz vs : fixed_size c = Some sz -> c <> 104 ->
  writes le [WOpen KArray [c]; WFixedMulti c vs; WClose] (VArr (TBasic c) vs).
Proof. intros Hsz H104. exact (arr_written le (TBasic c) vs [WFixedMulti c vs] (fixed_multi_written le c sz vs Hsz H104)). Qed.

Lemma value_written_writes le v : writes le (ops_of_val v) v.
Proof. exact (value_written_all le v). Qed.

(* ---- a sequence of top-level values, each written by its own operation sequence -------------------------------- *)
Lemma seq_top_gen le : forall (ps : list (list wop * val)), Forall (fun p => writes le (fst p) (snd p)) ps ->
  forall sf body vpos lp st et rest,
  vpos = nlen body -> wfsb le (map snd ps) 0 (nlen body) = true -> forallb tygood (map ty_of_val (map snd ps)) = true ->
  nlen (sf ++ flat_map print_ty (map ty_of_val (map snd ps))) <= 255 ->
  run_ops (flat_map fst ps) (mkWS le (mkS body None) sf (mkW 0 TsNone 0 false vpos lp st et 0 :: rest)) =
  Some (mkWS le (mkS (body ++ encs le (map snd ps) (nlen body)) None) (sf ++ flat_map print_ty (map ty_of_val (map snd ps)))
             (mkW 0 TsNone 0 false (nlen (body ++ encs le (map snd ps) (nlen body))) lp st et 0 :: rest)).
Proof.
  induction 1 as [|[ops x] r Hx Hr IH]; intros sf body vpos lp st et rest Hv Hw Hg Hl.
  - cbn [flat_map map encs run_ops]. rewrite !app_nil_r, Hv. reflexivity.
  - cbn [map snd fst] in *. cbn [wfsb] in Hw. apply andb_true_iff in Hw. destruct Hw as [Hwx Hwr].
    cbn [map forallb] in Hg. apply andb_true_iff in Hg. destruct Hg as [Hgx Hgr].
    cbn [map flat_map] in Hl. cbn [flat_map fst]. rewrite run_ops_app.
    assert (Hh : head_ok sf (mkS body None) (mkW 0 TsNone 0 false vpos lp st et 0) (print_ty (ty_of_val x)) []).
    { left. split; [repeat split|]. rewrite !nlen_app in *. lia. }
    rewrite (Hx sf body None _ rest 0 [] Hh Hv Hwx Hgx).
    unfold post_state. cbn [w_ct w_ts w_tpos w_exp w_vpos w_lenpos w_start w_etpos w_refs].
    assert (Hwr' : wfsb le (map snd r) 0 (nlen (body ++ enc le x (nlen body))) = true) by (rewrite nlen_app; exact Hwr).
    assert (Hl' : nlen ((sf ++ print_ty (ty_of_val x)) ++ flat_map print_ty (map ty_of_val (map snd r))) <= 255) by (rewrite <- app_assoc; exact Hl).
    rewrite (IH (sf ++ print_ty (ty_of_val x)) _ _ lp st et rest eq_refl Hwr' Hgr Hl').
    cbn [encs flat_map map]. cbv zeta. rewrite !nlen_app, <- !app_assoc, ?N.add_assoc. reflexivity.
Qed.

(* ================================================================================================== *)
(* dbus_message_append_args_valist                                                                     *)
(* ================================================================================================== *)
(* the argument groups the function supports *)
Definition arg_supported (a : arg) : bool :=
  match a with
  | ABasic v => is_basic_val v
  | AArray c _ => (type_fixed c && negb (c =? 104)) || is_stringlike c
  end.

Definition ops_of_arg (a : arg) : list wop :=
  match a with
  | ABasic v => [WBasic v]
  | AArray c elems => if type_fixed c && negb (c =? 104) then [WOpen KArray [c]; WFixedMulti c elems; WClose]
                      else WOpen KArray [c] :: map WBasic elems ++ [WClose]
  end.

Lemma ops_of_args_supported : forall args, forallb arg_supported args = true ->
  ops_of_args args = flat_map ops_of_arg args.
Proof.
  induction args as [|a r IH]; intros H; [reflexivity|]. cbn [forallb] in H. apply andb_true_iff in H. destruct H as [Ha Hr].
  destruct a as [v|c elems]; cbn [ops_of_args flat_map ops_of_arg arg_supported] in *.
  - destruct v; try discriminate; cbn [typecode_of_basic app]; rewrite (IH Hr); reflexivity.
  - change DBUS_TYPE_UNIX_FD with 104. destruct (type_fixed c && negb (c =? 104)) eqn:E.
    + cbn [app]. rewrite (IH Hr). reflexivity.
    + cbn [orb] in Ha. rewrite Ha, (IH Hr). reflexivity.
Qed.

Lemma basic_elems_ops c : forall vs, forallb (fun x => ty_eqb (ty_of_val x) (TBasic c)) vs = true ->
  flat_map ops_of_val vs = map WBasic vs.
Proof.
  induction vs as [|x r IH]; intros H; [reflexivity|]. cbn [forallb] in H. apply andb_true_iff in H. destruct H as [Hx Hr].
  apply ty_eqb_eq in Hx. cbn [flat_map map]. rewrite (IH Hr). destruct x; try discriminate; reflexivity.
Qed.

(* every supported argument group is written as its value *)
Lemma arg_writes le a : arg_supported a = true -> writes le (ops_of_arg a) (val_of_arg a).
Proof.
  destruct a as [v|c elems]; cbn [arg_supported ops_of_arg val_of_arg]; intros Hs.
  - assert (E : ops_of_val v = [WBasic v]) by (destruct v; try discriminate; reflexivity). rewrite <- E. apply value_written_writes.
  - destruct (type_fixed c && negb (c =? 104)) eqn:E.
    + apply andb_true_iff in E. destruct E as [Hf Hn]. destruct (type_fixed_size c Hf) as [sz Hsz].
      apply (fixed_array_written le c sz elems Hsz). lia.
    + intros sf body sigstr w rest depth tail Hh Hv Hw Hg.
      assert (Ht : forallb (fun x => ty_eqb (ty_of_val x) (TBasic c)) elems = true).
      { rewrite wfb_arr in Hw. apply andb_true_iff in Hw. destruct Hw as [_ Hw]. apply andb_true_iff in Hw. destruct Hw as [Hw _].
        apply andb_true_iff in Hw. exact (proj1 Hw). }
      rewrite <- (basic_elems_ops c elems Ht).
      exact (value_written_all le (VArr (TBasic c) elems) sf body sigstr w rest depth tail Hh Hv Hw Hg).
Qed.

Lemma flat_map_pairs {A B C} (f : A -> list B) (g : A -> C) (l : list A) :
  flat_map f l = flat_map fst (map (fun a => (f a, g a)) l).
Proof. induction l as [|a r IH]; [reflexivity|]. cbn [flat_map map fst]. rewrite IH. reflexivity. Qed.

(* ONE dbus_message_append_args call with any number of supported groups = the values appended through the iterator API *)
Theorem writer_append_args le args : forallb arg_supported args = true ->
  wfsb le (map val_of_arg args) 0 0 = true -> forallb tygood (map ty_of_val (map val_of_arg args)) = true ->
  nlen (flat_map print_ty (map ty_of_val (map val_of_arg args))) <= 255 ->
  run_writer le (ops_of_args args) = Some (encs le (map val_of_arg args) 0, flat_map print_ty (map ty_of_val (map val_of_arg args))) /\
  run_writer le (ops_of_args args) = run_writer le (ops_of_vals (map val_of_arg args)).
Proof.
  intros Hs Hw Hg Hl. rewrite (writer_correct le _ Hw Hg Hl).
  cut (run_writer le (ops_of_args args) = Some (encs le (map val_of_arg args) 0, flat_map print_ty (map ty_of_val (map val_of_arg args)))); [intros E; split; exact E|].
  rewrite (ops_of_args_supported args Hs).
  set (ps := map (fun a => (ops_of_arg a, val_of_arg a)) args).
  assert (E1 : flat_map ops_of_arg args = flat_map fst ps) by (unfold ps; apply flat_map_pairs).
  assert (E2 : map val_of_arg args = map snd ps) by (unfold ps; rewrite map_map; reflexivity).
  assert (Hps : Forall (fun p => writes le (fst p) (snd p)) ps).
  { unfold ps. apply Forall_forall. intros p Hin. apply in_map_iff in Hin. destruct Hin as (a & <- & Hin). cbn [fst snd].
    apply arg_writes. rewrite forallb_forall in Hs. apply Hs. exact Hin. }
  rewrite E1. rewrite E2 in *. unfold run_writer, run_writer_from, winit.
  rewrite (seq_top_gen le ps Hps [] [] _ 0 0 0 [] eq_refl Hw Hg Hl). reflexivity.
Qed.

(* one dbus_message_append_args call PER argument (each makes its own dbus_message_iter_init_append): same result *)
Theorem writer_append_args_calls le : forall args body sg, forallb arg_supported args = true ->
  wfsb le (map val_of_arg args) 0 (nlen body) = true -> forallb tygood (map ty_of_val (map val_of_arg args)) = true ->
  nlen (sg ++ flat_map print_ty (map ty_of_val (map val_of_arg args))) <= 255 ->
  run_calls le body sg (map (fun a => ops_of_args [a]) args) =
  Some (body ++ encs le (map val_of_arg args) (nlen body), sg ++ flat_map print_ty (map ty_of_val (map val_of_arg args))).
Proof.
  induction args as [|a r IH]; intros body sg Hs Hw Hg Hl.
  - cbn [map run_calls encs flat_map]. rewrite !app_nil_r. reflexivity.
  - cbn [forallb] in Hs. apply andb_true_iff in Hs. destruct Hs as [Hsa Hsr].
    cbn [map wfsb] in Hw. apply andb_true_iff in Hw. destruct Hw as [Hwa Hwr].
    cbn [map forallb] in Hg. apply andb_true_iff in Hg. destruct Hg as [Hga Hgr].
    cbn [map flat_map] in Hl. cbn [map run_calls].
    rewrite (ops_of_args_supported [a]) by (cbn [forallb]; rewrite Hsa; reflexivity). cbn [flat_map]. rewrite app_nil_r.
    assert (Hone : run_writer_from le body sg (ops_of_arg a) = Some (body ++ enc le (val_of_arg a) (nlen body), sg ++ print_ty (ty_of_val (val_of_arg a)))).
    { unfold run_writer_from, winit.
      assert (Hps : Forall (fun p : list wop * val => writes le (fst p) (snd p)) [(ops_of_arg a, val_of_arg a)])
        by (constructor; [exact (arg_writes le a Hsa)|constructor]).
      pose proof (seq_top_gen le [(ops_of_arg a, val_of_arg a)] Hps sg body _ 0 0 0 [] eq_refl) as H.
      cbn [map snd fst flat_map wfsb forallb encs] in H. rewrite !app_nil_r in H.
      rewrite H; [reflexivity|rewrite Hwa; reflexivity|rewrite Hga; reflexivity|rewrite !nlen_app in *; lia]. }
    rewrite Hone.
    assert (Hwr' : wfsb le (map val_of_arg r) 0 (nlen (body ++ enc le (val_of_arg a) (nlen body))) = true) by (rewrite nlen_app; exact Hwr).
    assert (Hl' : nlen ((sg ++ print_ty (ty_of_val (val_of_arg a))) ++ flat_map print_ty (map ty_of_val (map val_of_arg r))) <= 255)
      by (rewrite <- app_assoc; exact Hl).
    rewrite (IH _ _ Hsr Hwr' Hgr Hl').
    cbn [encs flat_map]. cbv zeta. rewrite !nlen_app, <- !app_assoc. reflexivity.
Qed.

(* ================================================================================================== *)
(* dbus_message_iter_abandon_container                                                                  *)
(* ================================================================================================== *)
(* abandoning never touches the body bytes or the SIGNATURE field, and the parent's value_pos is NOT brought up to
   date: whatever the container wrote stays in the body, unaccounted for by any signature *)
Theorem abandon_step le m sf sub real rest st' :
  writer_step (mkWS le m sf (sub :: real :: rest)) WAbandon = Some st' ->
  s_bodystr (ws_strs st') = s_bodystr m /\ ws_sigfield st' = sf /\
  exists r1, ws_iters st' = r1 :: rest /\ w_vpos r1 = w_vpos real /\ w_ct r1 = w_ct real.
Proof.
  unfold writer_step. cbn [ws_le ws_strs ws_sigfield ws_iters]. unfold iter_abandon_signature.
  destruct (negb (has_ts real) || (w_refs real =? 0)); [discriminate|].
  destruct (0 <? w_refs real - 1).
  - intros H. injection H as <-. cbn. repeat split. eexists. repeat split.
  - destruct (w_ts real); try discriminate. destruct (s_sigstr m); [|discriminate].
    intros H. injection H as <-. cbn. repeat split. eexists. repeat split.
Qed.

(* a top-level array abandoned after its elements: the body keeps the padding, the length word still 0, the element
   padding and the elements; the signature is what it was *)
Theorem writer_abandon_array le et vs body0 sg0 depth : tygood et = true -> wfb le depth (nlen body0) (VArr et vs) = true ->
  run_writer_from le body0 sg0 (WOpen KArray (print_ty et) :: flat_map ops_of_val vs ++ [WAbandon]) =
  Some (body0 ++ zeros (pad_amount (nlen body0) 4) ++ bytes_of le 4 0 ++
        zeros (pad_amount (nlen body0 + pad_amount (nlen body0) 4 + 4) (spec_align et)) ++ encs le vs (arr_start (nlen body0) et), sg0).
Proof.
  intros Hg Hw. rewrite wfb_arr in Hw. apply andb_true_iff in Hw. destruct Hw as [_ Hw]. apply andb_true_iff in Hw. destruct Hw as [Hw Hws].
  apply andb_true_iff in Hw. destruct Hw as [Hty _].
  unfold run_writer_from, winit. cbn [run_ops]. unfold writer_step at 1. cbn [ws_le ws_strs ws_sigfield ws_iters].
  change (iter_open_signature sg0 (mkS body0 None) (mkW 0 TsNone 0 false (nlen body0) 0 0 0 0))
    with (Some (mkS body0 (Some sg0), mkW 0 TsSig (nlen sg0) false (nlen body0) 0 0 0 1)).
  set (w1 := mkW 0 TsSig (nlen sg0) false (nlen body0) 0 0 0 1).
  assert (Ha : active (mkS body0 (Some sg0)) w1 (97 :: print_ty et ++ [])).
  { split; [cbn; lia|]. left. cbn. repeat split; auto. exists sg0. auto. }
  cbv iota beta. rewrite (open_array le body0 (Some sg0) w1 et [] Hg Ha eq_refl).
  set (p1 := pad_amount (nlen body0) 4). set (p2 := pad_amount (nlen body0 + p1 + 4) (spec_align et)).
  set (body2 := body0 ++ zeros p1 ++ bytes_of le 4 0 ++ zeros p2).
  assert (Hn2 : nlen body2 = arr_start (nlen body0) et) by (unfold body2, arr_start; fold p1 p2; nl; change (N.of_nat 4) with 4; lia).
  pose proof (active_array_sub body0 (Some sg0) w1 (print_ty et) [] (zeros p1 ++ bytes_of le 4 0 ++ zeros p2)
                (arr_start (nlen body0) et) (nlen body0 + p1) (arr_start (nlen body0) et) Ha) as Hsub. fold body2 in Hsub.
  assert (Hall : Forall (value_written le) vs) by (apply Forall_forall; intros x _; apply value_written_all).
  rewrite run_ops_app.
  pose proof (seq_elems le et vs Hall sg0 body2 _ _ (post_w w1 (if w_ct w1 =? 97 then w_tpos w1 else w_tpos w1 + (1 + nlen (print_ty et))) (w_vpos w1) :: [])
                (depth + 1) Hsub eq_refl) as Hrun.
  cbn [w_vpos] in Hrun. rewrite Hn2 in Hrun. specialize (Hrun eq_refl Hws Hty Hg). rewrite Hrun.
  cbn [run_ops]. unfold writer_step. cbn [ws_le ws_strs ws_sigfield ws_iters]. 
  unfold iter_abandon_signature, post_w, w1, act_sig, has_ts. cbn [w_ct w_ts w_tpos w_exp w_vpos w_lenpos w_start w_etpos w_refs s_sigstr s_bodystr negb orb].
  change (1 =? 0) with false. change (0 <? 1 - 1) with false. cbv iota. unfold wresult. cbn [ws_iters ws_strs s_bodystr ws_sigfield].
  unfold body2. rewrite <- !app_assoc. reflexivity.
Qed.

(* ---- examples ------------------------------------------------------------------------------------------- *)
Definition wchk_ops (le : bool) (ops : list wop) (vs : list val) : bool :=
  match run_writer le ops with
  | Some (b, s) => bytes_eqb b (encs le vs 0) && bytes_eqb s (flat_map print_ty (map ty_of_val vs))
  | None => false
  end.
Definition fx (c : N) (ns : list N) : val := VArr (TBasic c) (map (VNum c) ns).
Definition fxops (c : N) (ns : list N) : list wop := [WOpen KArray [c]; WFixedMulti c (map (VNum c) ns); WClose].

(* every fixed type, n = 0 / 1 / 3, after one byte (so that the element padding shows), both byte orders: with
   [compiler_le] = true the big-endian runs go through _dbus_swap_array *)
Example wex_fixed_multi :
  forallb (fun le => forallb (fun c => forallb (fun ns =>
     wchk_ops le (WBasic (VNum 121 1) :: fxops c ns ++ [WBasic (VNum 121 2)]) [VNum 121 1; fx c ns; VNum 121 2])
     [[]; [1]; [0; 1; 1]]) [121; 98; 110; 113; 105; 117; 120; 116; 100]) [true; false] = true.
Proof. vm_compute. reflexivity. Qed.
Example wex_fixed_multi_values :
  wchk_ops false (fxops 120 [72623859790382856; 1] ++ fxops 113 [258; 65535] ++ fxops 105 (map N.of_nat (seq 0 300)))
                 [fx 120 [72623859790382856; 1]; fx 113 [258; 65535]; fx 105 (map N.of_nat (seq 0 300))] = true.
Proof. vm_compute. reflexivity. Qed.
Example wex_fixed_multi_be_bytes : run_writer false (fxops 113 [258; 3]) = Some ([0;0;0;4; 1;2; 0;3], [97; 113]).
Proof. vm_compute. reflexivity. Qed.
(* misuse: outside an array, wrong element type, a boolean that is not 0/1, descriptors *)
Example wex_fixed_multi_misuse :
  run_writer true [WFixedMulti 105 [VNum 105 1]] = None /\
  run_writer true [WOpen KArray [120]; WFixedMulti 105 [VNum 105 1]; WClose] = None /\
  run_writer true [WOpen KArray [98]; WFixedMulti 98 [VNum 98 2]; WClose] = None /\
  run_writer true [WOpen KArray [104]; WFixedMulti 104 [VNum 104 0]; WClose] = None /\
  run_writer true [WOpen KArray [115]; WFixedMulti 115 []; WClose] = None.
Proof. vm_compute. repeat split; reflexivity. Qed.

(* dbus_message_append_args: basics, a fixed array, an empty fixed array, a string array *)
Definition wex_args : list arg :=
  [ABasic (VNum 121 1); AArray 120 [VNum 120 1; VNum 120 2]; AArray 98 []; AArray 115 [VStr 115 [97]; VStr 115 []]; ABasic (VStr 111 [47])].
Example wex_args_ok :
  forallb arg_supported wex_args = true /\ wchk true (map val_of_arg wex_args) = true /\
  wchk_ops true (ops_of_args wex_args) (map val_of_arg wex_args) = true /\ wchk_ops false (ops_of_args wex_args) (map val_of_arg wex_args) = true /\
  run_calls true [] [] (map (fun a => ops_of_args [a]) wex_args) = run_writer true (ops_of_vals (map val_of_arg wex_args)).
Proof. vm_compute. repeat split; reflexivity. Qed.
(* an array the varargs function does not support (array of variants): the container is opened, then abandoned; the
   remaining arguments are not appended; the body keeps the 4 bytes of the length word, the signature knows nothing *)
Example wex_args_unsupported :
  ops_of_args [ABasic (VNum 121 1); AArray 118 []; ABasic (VNum 121 2)] = [WBasic (VNum 121 1); WOpen KArray [118]; WAbandon] /\
  run_writer true (ops_of_args [ABasic (VNum 121 1); AArray 118 []; ABasic (VNum 121 2)]) = Some ([1; 0;0;0; 0;0;0;0], [121]).
Proof. vm_compute. split; reflexivity. Qed.
(* after an abandon the same iterator's value_pos is stale: the next value is inserted BEFORE the abandoned bytes *)
Example wex_abandon_then_append :
  run_writer true [WOpen KArray [120]; WBasic (VNum 120 5); WAbandon; WBasic (VNum 121 7)]
  = Some ([7; 0;0;0;0; 0;0;0;0; 5;0;0;0;0;0;0;0], [121]).
Proof. vm_compute. reflexivity. Qed.
Example wex_abandon_if_open_noop : run_writer true [WBasic (VNum 121 7); WAbandonIfOpen] = Some ([7], [121]).
Proof. vm_compute. reflexivity. Qed.

Print Assumptions fixed_array_written.
Print Assumptions writer_append_args_calls.
Print Assumptions writer_abandon_array.
