(* The message writer model (Wire/Writer.v) produces the specification encoding.
   Main results: [writer_correct], [writer_correct_from], [writer_never_fails],
   [writer_array_length_word]; the invariant is [value_written] (a value written at any
   position inside any stack of open containers). *)
From DV Require Import Lib.Base Gen.Tables Spec.Codec Wire.Sig Wire.Body Wire.HeaderEdit Wire.Writer
  Proofs.CodecBasics Proofs.CodecWf Proofs.CodecRoundtrip Proofs.SigRoundtrip Proofs.BodySound Proofs.WireClean.
From Coq Require Import ZArith ZifyBool ZifyN ZifyNat Arith.
Local Open Scope N_scope.
Ltac Zify.zify_post_hook ::= Z.div_mod_to_equations.

(* ---- DBusString primitives --------------------------------------------------------- *)
Lemma nlen_to_nat {A} (l : list A) : N.to_nat (nlen l) = length l.
Proof. unfold nlen. lia. Qed.

Lemma insert_at_end s x : insert_at (nlen s) x s = Some (s ++ x).
Proof.
  unfold insert_at. rewrite N.ltb_irrefl, nlen_to_nat, firstn_all, skipn_all, app_nil_r. reflexivity.
Qed.

Lemma insert_at_end' s x p : p = nlen s -> insert_at p x s = Some (s ++ x).
Proof. intros ->. apply insert_at_end. Qed.

Lemma align_value_pad p a : (a = 1 \/ a = 2 \/ a = 4 \/ a = 8) -> align_value p a = p + pad_amount p a.
Proof. intros [-> | [-> | [-> | -> ]]]; unfold align_value, pad_amount; lia. Qed.

Lemma pad_body_end body a : (a = 1 \/ a = 2 \/ a = 4 \/ a = 8) ->
  pad_body body (nlen body) a = Some (body ++ zeros (pad_amount (nlen body) a), nlen body + pad_amount (nlen body) a).
Proof.
  intros Ha. unfold pad_body. rewrite (align_value_pad _ _ Ha).
  replace (nlen body + pad_amount (nlen body) a - nlen body) with (pad_amount (nlen body) a) by lia.
  rewrite insert_at_end. reflexivity.
Qed.

Definition sub_at (ts : bytes) (pos : N) (x : bytes) : Prop :=
  exists pre post, ts = pre ++ x ++ post /\ nlen pre = pos.

Lemma sub_at_here pre x post : sub_at (pre ++ x ++ post) (nlen pre) x.
Proof. exists pre, post. auto. Qed.

Lemma sub_at_prefix ts pos a b : sub_at ts pos (a ++ b) -> sub_at ts pos a.
Proof. intros (pre & post & -> & <-). exists pre, (b ++ post). rewrite <- app_assoc. auto. Qed.

Lemma sub_at_tail ts pos a b : sub_at ts pos (a ++ b) -> sub_at ts (pos + nlen a) b.
Proof.
  intros (pre & post & -> & <-). exists (pre ++ a), post. rewrite <- !app_assoc. split; [reflexivity|]. apply nlen_app.
Qed.

Lemma sub_at_app ts pos x y : sub_at ts pos x -> sub_at (ts ++ y) pos x.
Proof. intros (pre & post & -> & <-). exists pre, (post ++ y). rewrite <- !app_assoc. auto. Qed.

Lemma get_byte_mid pre c post : get_byte (pre ++ c :: post) (nlen pre) = Some c.
Proof.
  unfold get_byte. rewrite nlen_app, nlen_cons. replace (nlen pre <? nlen pre + (nlen post + 1)) with true by lia.
  rewrite nlen_to_nat, app_nth2 by lia. rewrite Nat.sub_diag. reflexivity.
Qed.

Lemma sub_at_head ts pos c x : sub_at ts pos (c :: x) -> get_byte ts pos = Some c.
Proof. intros (pre & post & -> & <-). cbn [app]. apply get_byte_mid. Qed.

Lemma firstn_app_len {A} (a b : list A) : firstn (length a) (a ++ b) = a.
Proof. rewrite firstn_app, Nat.sub_diag, firstn_all. cbn. apply app_nil_r. Qed.
Lemma skipn_app_len {A} (a b : list A) : skipn (length a) (a ++ b) = b.
Proof. rewrite skipn_app, Nat.sub_diag, skipn_all. reflexivity. Qed.

Lemma sub_at_equal a ts pos : sub_at ts pos a -> equal_substring a ts pos = Some true.
Proof.
  intros (pre & post & -> & <-). unfold equal_substring. rewrite nlen_app.
  replace (nlen pre + nlen (a ++ post) <? nlen pre) with false by lia.
  rewrite nlen_to_nat, skipn_app_len, firstn_app_len, bytes_eqb_refl. reflexivity.
Qed.

Lemma overwrite_mid pre old new post : nlen old = nlen new ->
  overwrite_at (nlen pre) new (pre ++ old ++ post) = Some (pre ++ new ++ post).
Proof.
  intros H. unfold overwrite_at. rewrite !nlen_app.
  replace (nlen pre + (nlen old + nlen post) <? nlen pre + nlen new) with false by lia.
  rewrite nlen_to_nat, firstn_app_len.
  replace (N.to_nat (nlen pre + nlen new)) with (length pre + length old)%nat by (unfold nlen in *; lia).
  rewrite skipn_app. rewrite skipn_all2 by lia. replace (length pre + length old - length pre)%nat with (length old) by lia.
  rewrite skipn_app_len. reflexivity.
Qed.

(* ---- type strings of good types: balanced, skipped exactly, alignment ------------------ *)
Lemma basic_not_bracket c : is_basic_code c = true ->
  (c =? 40) = false /\ (c =? 41) = false /\ (c =? 123) = false /\ (c =? 125) = false /\ (c =? 97) = false /\ (c =? 118) = false.
Proof. intros H. destruct (basic_code_ne c H) as (? & ? & ? & ? & ? & ? & ?). repeat split; apply N.eqb_neq; assumption. Qed.

Definition bracket_pair (o c : N) : Prop := (o = 40 /\ c = 41) \/ (o = 123 /\ c = 125).

Lemma skip_close_print o c (Hp : bracket_pair o c) : forall t, tygood t = true ->
  forall d s, skip_to_close o c d (print_ty t ++ s) = skip_to_close o c d s.
Proof.
  induction t as [b| |t IH|ts IH|k v IH] using ty_ind'; cbn [tygood print_ty]; intros G d s.
  - destruct (basic_not_bracket b G) as (E1 & E2 & E3 & E4 & _). cbn [app skip_to_close].
    destruct Hp as [[-> ->]|[-> ->]]; rewrite ?E1, ?E2, ?E3, ?E4; reflexivity.
  - cbn [app skip_to_close]. destruct Hp as [[-> ->]|[-> ->]]; reflexivity.
  - cbn [app skip_to_close]. destruct Hp as [[-> ->]|[-> ->]]; cbn [N.eqb Pos.eqb]; apply IH; exact G.
  - apply andb_true_iff in G. destruct G as [_ G].
    assert (L : forall d s, skip_to_close o c d (flat_map print_ty ts ++ s) = skip_to_close o c d s).
    { clear d s. induction IH as [|x r Hx Hr IHr]; intros d s; [reflexivity|].
      cbn [forallb] in G. apply andb_true_iff in G. destruct G as [G1 G2].
      cbn [flat_map]. rewrite <- app_assoc. rewrite (Hx G1). apply IHr. exact G2. }
    cbn [app]. rewrite <- app_assoc. cbn [app skip_to_close].
    destruct Hp as [[-> ->]|[-> ->]]; cbn [N.eqb Pos.eqb]; rewrite L; cbn [skip_to_close N.eqb Pos.eqb]; reflexivity.
  - apply andb_true_iff in G. destruct G as [Gk Gv].
    destruct (basic_not_bracket k Gk) as (E1 & E2 & E3 & E4 & _).
    cbn [app]. rewrite <- app_assoc. cbn [app skip_to_close].
    destruct Hp as [[-> ->]|[-> ->]]; cbn [N.eqb Pos.eqb]; rewrite ?E1, ?E2, ?E3, ?E4; rewrite (IH Gv); cbn [skip_to_close N.eqb Pos.eqb]; reflexivity.
Qed.

Lemma skip_close_prints o c (Hp : bracket_pair o c) : forall ts, forallb tygood ts = true ->
  forall d s, skip_to_close o c d (flat_map print_ty ts ++ s) = skip_to_close o c d s.
Proof.
  induction ts as [|x r IH]; intros G d s; [reflexivity|].
  cbn [forallb] in G. apply andb_true_iff in G. destruct G as [G1 G2].
  cbn [flat_map]. rewrite <- app_assoc. rewrite (skip_close_print o c Hp x G1). apply IH. exact G2.
Qed.

Lemma signature_next_print : forall t, tygood t = true -> forall rest, signature_next (print_ty t ++ rest) = Some rest.
Proof.
  induction t as [b| |t IH|ts IH|k v IH] using ty_ind'; cbn [tygood print_ty]; intros G rest.
  - destruct (basic_not_bracket b G) as (E1 & E2 & E3 & E4 & E5 & _).
    unfold signature_next. cbn [app skip_arrays]. change DBUS_TYPE_ARRAY with 97. rewrite E5.
    change DBUS_STRUCT_END_CHAR with 41. change DBUS_DICT_ENTRY_END_CHAR with 125. change DBUS_STRUCT_BEGIN_CHAR with 40.
    change DBUS_DICT_ENTRY_BEGIN_CHAR with 123. rewrite E1, E2, E3, E4. reflexivity.
  - reflexivity.
  - specialize (IH G rest). unfold signature_next in *. cbn [app skip_arrays]. change (97 =? DBUS_TYPE_ARRAY) with true. exact IH.
  - apply andb_true_iff in G. destruct G as [_ G].
    unfold signature_next. cbn [app skip_arrays]. change (40 =? DBUS_TYPE_ARRAY) with false. cbv iota.
    change ((40 =? DBUS_STRUCT_END_CHAR) || (40 =? DBUS_DICT_ENTRY_END_CHAR)) with false.
    change (40 =? DBUS_STRUCT_BEGIN_CHAR) with true. cbv iota.
    rewrite <- app_assoc. rewrite (skip_close_prints 40 41 (or_introl (conj eq_refl eq_refl)) ts G).
    reflexivity.
  - apply andb_true_iff in G. destruct G as [Gk Gv].
    destruct (basic_not_bracket k Gk) as (E1 & E2 & E3 & E4 & _).
    unfold signature_next. cbn [app skip_arrays]. change (123 =? DBUS_TYPE_ARRAY) with false. cbv iota.
    change ((123 =? DBUS_STRUCT_END_CHAR) || (123 =? DBUS_DICT_ENTRY_END_CHAR)) with false.
    change (123 =? DBUS_STRUCT_BEGIN_CHAR) with false. change (123 =? DBUS_DICT_ENTRY_BEGIN_CHAR) with true. cbv iota.
    change DBUS_DICT_ENTRY_BEGIN_CHAR with 123. change DBUS_DICT_ENTRY_END_CHAR with 125.
    cbn [skip_to_close]. rewrite E3, E4. rewrite <- app_assoc.
    rewrite (skip_close_print 123 125 (or_intror (conj eq_refl eq_refl)) v Gv). reflexivity.
Qed.

Lemma find_len_print t : tygood t = true ->
  find_len_of_complete_type (print_ty t) = Some (nlen (print_ty t)).
Proof.
  intros G. unfold find_len_of_complete_type. pose proof (signature_next_print t G []) as H. rewrite app_nil_r in H.
  rewrite H. cbn. rewrite N.sub_0_r. reflexivity.
Qed.

Lemma get_byte_0 c r : get_byte (c :: r) 0 = Some c.
Proof. unfold get_byte. rewrite nlen_cons. replace (0 <? nlen r + 1) with true by lia. reflexivity. Qed.

Lemma elem_align_print t : tygood t = true ->
  element_type_get_alignment (print_ty t) = Some (spec_align t) /\
  (spec_align t = 1 \/ spec_align t = 2 \/ spec_align t = 4 \/ spec_align t = 8).
Proof.
  intros G. destruct (tygood_align t G) as [Ha Hc]. split; [|exact Hc].
  unfold element_type_get_alignment, first_type_in_signature.
  destruct t as [b| |t'|ts|k v]; cbn [print_ty]; rewrite get_byte_0.
  - cbn [tygood] in G. destruct (basic_not_bracket b G) as (E1 & E2 & E3 & E4 & _).
    unfold map_type_char_to_type. change DBUS_STRUCT_END_CHAR with 41. change DBUS_DICT_ENTRY_END_CHAR with 125.
    change DBUS_STRUCT_BEGIN_CHAR with 40. change DBUS_DICT_ENTRY_BEGIN_CHAR with 123. rewrite E1, E2, E3, E4. cbn [orb].
    unfold type_get_alignment. cbn [ty_alignment] in Ha. rewrite Ha. replace (spec_align (TBasic b) =? 0) with false by lia. reflexivity.
  - reflexivity.
  - reflexivity.
  - reflexivity.
  - reflexivity.
Qed.

(* ---- marshalling basic values at the end of the body ------------------------------------ *)
Lemma marshal_octets_end le body sz v : (sz = 2 \/ sz = 4 \/ sz = 8) ->
  marshal_octets le body (nlen body) sz v =
  Some (body ++ zeros (pad_amount (nlen body) sz) ++ bytes_of le (N.to_nat sz) v,
        nlen body + (pad_amount (nlen body) sz + sz)).
Proof.
  intros Hs. unfold marshal_octets. rewrite (align_value_pad (nlen body) sz) by tauto.
  replace (nlen body + pad_amount (nlen body) sz - nlen body) with (pad_amount (nlen body) sz) by lia.
  rewrite insert_at_end. rewrite !nlen_app, nlen_zeros, bytes_of_length. f_equal. f_equal. lia.
Qed.

Ltac nl := repeat first [rewrite nlen_app | rewrite nlen_zeros | rewrite bytes_of_length | rewrite nlen_cons | rewrite (@nlen_nil N)].

Lemma fixed_size_cases c sz : fixed_size c = Some sz ->
  (c = 121 /\ sz = 1) \/ ((c = 110 \/ c = 113) /\ sz = 2) \/ ((c = 98 \/ c = 105 \/ c = 117 \/ c = 104) /\ sz = 4) \/
  ((c = 120 \/ c = 116 \/ c = 100) /\ sz = 8).
Proof.
  unfold fixed_size.
  destruct (c =? 121) eqn:E1; [intros H; inversion H; left; lia|].
  destruct ((c =? 110) || (c =? 113)) eqn:E2; [intros H; inversion H; right; left; lia|].
  destruct ((c =? 98) || (c =? 105) || (c =? 117) || (c =? 104)) eqn:E3; [intros H; inversion H; right; right; left; lia|].
  destruct ((c =? 120) || (c =? 116) || (c =? 100)) eqn:E4; [intros H; inversion H; right; right; right; lia|discriminate].
Qed.

Lemma bytes_of_1 le n : bytes_of le 1 n = [n mod 256].
Proof. destruct le; reflexivity. Qed.

Lemma pad_amount_1 p : pad_amount p 1 = 0.
Proof. unfold pad_amount. lia. Qed.

Definition is_basic_val' (v : val) : Prop := match v with VNum _ _ | VStr _ _ => True | _ => False end.

Lemma spec_signature_len s : spec_signature s = true -> nlen s <= 255.
Proof. unfold spec_signature. intros H. apply andb_true_iff in H. lia. Qed.

Lemma marshal_basic_wf le body depth v : is_basic_val' v -> wfb le depth (nlen body) v = true ->
  marshal_write_basic le body (nlen body) v =
  Some (body ++ enc le v (nlen body), nlen body + nlen (enc le v (nlen body))).
Proof.
  destruct v as [c n|c s| | | | ]; cbn [is_basic_val']; try tauto; intros _ H; cbn [wfb] in H;
    apply andb_true_iff in H; destruct H as [_ H].
  - rewrite enc_num. destruct (fixed_size c) as [sz|] eqn:Hsz; [|discriminate].
    apply andb_true_iff in H. destruct H as [Hn Hb].
    destruct (fixed_size_cases c sz Hsz) as [[-> ->]|[[Hc ->]|[[Hc ->]|[Hc ->]]]].
    + cbn [marshal_write_basic]. change (121 =? DBUS_TYPE_BYTE) with true. cbv iota.
      rewrite insert_at_end. rewrite pad_amount_1. change (N.to_nat 1) with 1%nat. rewrite bytes_of_1. cbn [zeros N.to_nat repeat app].
      rewrite nlen_cons. reflexivity.
    + assert (E : marshal_write_basic le body (nlen body) (VNum c n) = marshal_octets le body (nlen body) 2 n)
        by (destruct Hc as [-> | ->]; reflexivity).
      rewrite E, marshal_octets_end by tauto. rewrite !nlen_app, nlen_zeros, bytes_of_length. reflexivity.
    + destruct (c =? 98) eqn:Eb.
      * assert (c = 98) by lia. subst c. change (negb (98 =? 98)) with false in Hb. cbn [orb] in Hb.
        change (marshal_write_basic le body (nlen body) (VNum 98 n)) with (marshal_octets le body (nlen body) 4 (if n =? 0 then 0 else 1)).
        replace (if n =? 0 then 0 else 1) with n by (destruct (n =? 0) eqn:E0; lia).
        rewrite marshal_octets_end by tauto. rewrite !nlen_app, nlen_zeros, bytes_of_length. reflexivity.
      * assert (E : marshal_write_basic le body (nlen body) (VNum c n) = marshal_octets le body (nlen body) 4 n)
          by (destruct Hc as [-> |[-> |[-> | ->]]]; try discriminate; reflexivity).
        rewrite E, marshal_octets_end by tauto. rewrite !nlen_app, nlen_zeros, bytes_of_length. reflexivity.
    + assert (E : marshal_write_basic le body (nlen body) (VNum c n) = marshal_octets le body (nlen body) 8 n)
        by (destruct Hc as [-> |[-> | ->]]; reflexivity).
      rewrite E, marshal_octets_end by tauto. rewrite !nlen_app, nlen_zeros, bytes_of_length. reflexivity.
  - rewrite enc_str.
    destruct (c =? 115) eqn:E1; [|destruct (c =? 111) eqn:E2; [|destruct (c =? 103) eqn:E3; [|discriminate]]].
    + assert (c = 115) by lia. subst c. change (115 =? 103) with false. cbv iota.
      change (marshal_write_basic le body (nlen body) (VStr 115 s)) with (marshal_string le body (nlen body) s).
      unfold marshal_string. rewrite marshal_octets_end by tauto.
      rewrite insert_at_end' by (nl; lia). change (N.to_nat 4) with 4%nat.
      f_equal. f_equal; [rewrite <- !app_assoc; reflexivity | nl; lia].
    + assert (c = 111) by lia. subst c. change (111 =? 103) with false. cbv iota.
      change (marshal_write_basic le body (nlen body) (VStr 111 s)) with (marshal_string le body (nlen body) s).
      unfold marshal_string. rewrite marshal_octets_end by tauto.
      rewrite insert_at_end' by (nl; lia). change (N.to_nat 4) with 4%nat.
      f_equal. f_equal; [rewrite <- !app_assoc; reflexivity | nl; lia].
    + assert (c = 103) by lia. subst c.
      change (marshal_write_basic le body (nlen body) (VStr 103 s)) with (marshal_signature body (nlen body) s).
      unfold marshal_signature. pose proof (spec_signature_len s H) as L.
      change DBUS_MAXIMUM_SIGNATURE_LENGTH with 255. replace (255 <? nlen s) with false by lia.
      rewrite insert_at_end. rewrite insert_at_end' by (nl; lia).
      f_equal. f_equal; [rewrite <- app_assoc; reflexivity | nl; lia].
Qed.
